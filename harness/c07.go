package main

// C07 -- the result is a function of tree and arguments.
//
// Whole-run layer (this IS the property; failures are FoundInput:true):
//
//  1. fresh processes: every case (generated tree, cwd, argv) is run nFresh
//     times with the real binary; stdout, stderr and exit status must be byte
//     identical (cases with -F run on identical copies of the tree and the
//     resulting trees are compared as well);
//  2. one process: the same cases are run through the shim
//     VerifRunMain(args, cwd) (fresh G per run) in several child processes,
//     each executing a different seeded permutation of the cases of OTHER
//     trees and option sets before the case under test; every result must
//     equal the fresh-process result.
//
// A difference is classified by the kind of the output units (diagnostic +
// its source/explanation lines) that differ, which gives the narrow key
// C07/nondeterministic/<message kind> (or .../stderr/<kind>, .../exit/..., .../tree/...)
// or C07/inprocess-history/<message kind>.
//
// The static tie (gen/c07.go, audit/maprange.json) runs in bin/check's proof
// stage; this file only reports the audit's numbers in the evidence.

import (
	"encoding/json"
	"fmt"
	"os"
	"os/exec"
	"path/filepath"
	"regexp"
	"sort"
	"strings"
	"time"

	pkglint "github.com/rillig/pkglint/v23"
)

// c07InProcess: one pkglint run inside this process through the shim.
func c07InProcess(argv0, cwd string, args []string) c07Out {
	r := pkglint.VerifRunMain(append([]string{argv0}, args...), cwd)
	return c07Out{Stdout: r.Stdout, Stderr: r.Stderr, Exit: r.Exit, Panic: r.Panic, MapSizes: r.MapSizes}
}

// ---------- unit correspondence: keysSorted / keysJoined / forEachStringMkLine vs Model/MapIter.v ----------

func c07UnitCorr(ctx *Ctx, res *Result, rng *Rng) {
	alphabet := []string{"a", "b", "A", "ab", "a.", "a-", "_", "0", "9", "\x00", "\x7f", "\x80", "\xc3\xa9", "\xff", " ", "B", "aa", "Z", "z", "~"}
	var sets [][]string
	sets = append(sets, nil, []string{""}, []string{"", "a"}, []string{"b", "a", "b"})
	for _, a := range alphabet { // all sets of <= 2 alphabet strings, both orders
		for _, b := range alphabet {
			sets = append(sets, []string{a, b})
		}
	}
	for i := 0; i < 3000; i++ {
		n := 1 + rng.Intn(7)
		var ks []string
		for j := 0; j < n; j++ {
			k := ""
			for l := rng.Intn(4); l >= 0; l-- {
				k += Pick(rng, alphabet)
			}
			if rng.Chance(10) {
				k = ""
			}
			ks = append(ks, k)
		}
		sets = append(sets, ks)
	}
	var reqs []string
	for _, ks := range sets {
		uniq := map[string]bool{}
		arg := ""
		for _, k := range ks {
			if !uniq[k] {
				uniq[k] = true
				if k == "" {
					arg += " -"
				} else {
					arg += " " + hx(k)
				}
			}
		}
		reqs = append(reqs, "ks"+arg, "kj"+arg, "fe"+arg)
	}
	ans, err := runOracle(ctx, "c07", reqs)
	if err != nil {
		res.Broken = err.Error()
		return
	}
	show := func(l []string) string {
		if len(l) == 0 {
			return "."
		}
		var hs []string
		for _, k := range l {
			hs = append(hs, hx(k))
		}
		return strings.Join(hs, " ")
	}
	for i, ks := range sets {
		got := []string{show(pkglint.VerifKeysSorted(ks)), hx(pkglint.VerifKeysJoined(ks)), show(pkglint.VerifForEachStringMkLine(ks))}
		for j, name := range []string{"keysSorted", "keysJoined", "forEachStringMkLine"} {
			res.Evaluations++
			res.TracesValidated++
			if got[j] != ans[3*i+j] {
				sorted := sort.StringsAreSorted(pkglint.VerifKeysSorted(ks))
				res.AddViolation(Violation{Key: "C07/correspondence/" + name, FoundInput: false, Size: len(reqs[3*i]),
					What:   fmt.Sprintf("%s(%q) = %s, model %s (result sorted by Go's own order: %v)", name, ks, got[j], ans[3*i+j], sorted),
					Replay: map[string]any{"broken": "correspondence util.go " + name + " = Model.MapIter", "kind": "unit", "request": reqs[3*i+j]}})
			}
		}
	}
	res.Count("unit.key-sets", len(sets))
}

type c07Case struct {
	Tree    int      `json:"tree"`
	Root    string   `json:"root"` // absolute root of the generated tree
	Cwd     string   `json:"cwd"`  // relative to Root
	Args    []string `json:"args"` // without argv[0]
	Autofix bool     `json:"autofix"`
}

func (c c07Case) String() string {
	return fmt.Sprintf("tree %d, cwd %s, pkglint %s", c.Tree, c.Cwd, strings.Join(c.Args, " "))
}

type c07Out struct {
	Stdout, Stderr string
	Exit           int
	Signal         string
	TimedOut       bool
	TreeSum        string // only for -F cases: digest of the tree after the run
	Panic          string
	MapSizes       map[string]int
}

func (o c07Out) same(p c07Out) bool {
	return o.Stdout == p.Stdout && o.Stderr == p.Stderr && o.Exit == p.Exit && o.Signal == p.Signal && o.TreeSum == p.TreeSum && o.Panic == p.Panic
}

// ---------- option sets ----------

// every set is tried from the cwd given; "{p}" is replaced by a package directory
var c07OptionSets = []struct {
	cwd  string
	args []string
}{
	{".", []string{"-Wall", "-Cglobal", "-r", "."}},
	{".", []string{"-Wall", "-Cglobal", "-r", "-s", "-e", "."}},
	{".", []string{"-Wall", "-Cglobal", "-r", "-g", "."}},
	{".", []string{"-Wall", "-Cglobal", "-r", "-f", "-s", "."}},
	{".", []string{"-Wall", "-Cglobal", "-r", "--debug", "."}},
	{".", []string{"-Wall", "-Cglobal", "-r", "-q", "cat"}},
	{"cat", []string{"-Wall", "-r", "-e", "."}},
	{"cat/{p}", []string{"-Wall", "-Cglobal"}},
	{"cat/{p}", []string{"-Wall", "-Cglobal", "--debug", "-s"}},
	{".", []string{"-Wall", "-Cglobal", "cat/p0", "cat/p1", "cat/p0"}},
	{".", []string{"-Wextra", "-Wperm", "-r", "--only", "should", "."}},
	{".", []string{"-Wall", "-Cglobal", "-r", "-p", "."}}, // profiling prints histograms (a sorted map)
	{".", []string{"-Wall", "-Cglobal", "-r", "-F", "."}},
	{".", []string{"-Wall", "-Cglobal", "-I", "cat/{p}"}},
}

func c07PickCases(rng *Rng, tree int, root string, npkg int, n int) []c07Case {
	var cs []c07Case
	used := map[int]bool{}
	add := func(i int) {
		if used[i] {
			return
		}
		used[i] = true
		o := c07OptionSets[i]
		p := fmt.Sprintf("p%d", rng.Intn(npkg))
		c := c07Case{Tree: tree, Root: root, Cwd: strings.ReplaceAll(o.cwd, "{p}", p)}
		for _, a := range o.args {
			c.Args = append(c.Args, strings.ReplaceAll(a, "{p}", p))
			if a == "-F" {
				c.Autofix = true
			}
		}
		cs = append(cs, c)
	}
	add(0) // the property's own option set on every tree
	for len(cs) < n {
		add(1 + rng.Intn(len(c07OptionSets)-1))
	}
	return cs
}

// ---------- running ----------

func c07TreeSum(root string) string {
	snap := Snapshot(root)
	var sb strings.Builder
	for _, k := range sortedKeys(snap) {
		e := snap[k]
		fmt.Fprintf(&sb, "%s %s %o %s %s\n", k, e.Kind, e.Mode, e.Sum, e.Link)
	}
	return sb.String()
}

// c07Fresh runs the case once in a fresh process. run is only used to name the copy for -F cases.
func c07Fresh(ctx *Ctx, c c07Case, run string) c07Out {
	root := c.Root
	if c.Autofix {
		root = c.Root + ".copy." + run
		os.RemoveAll(root)
		if err := CopyTree(c.Root, root); err != nil {
			return c07Out{Panic: "copy: " + err.Error()}
		}
		defer os.RemoveAll(root)
	}
	r := RunPkglint(ctx, filepath.Join(root, c.Cwd), 60*time.Second, c.Args...)
	o := c07Out{Stdout: r.Stdout, Stderr: r.Stderr, Exit: r.Exit, Signal: r.Signal, TimedOut: r.TimedOut}
	if c.Autofix {
		o.TreeSum = c07TreeSum(root)
	}
	return o
}

// tool-c07seq: executes a list of cases in THIS process, one after the other (child of the C07 runner).
type c07SeqFile struct {
	Pkglint string    `json:"pkglint"` // argv[0], the same string the fresh runs use
	SameG   bool      `json:"same_g"`  // all steps on ONE G (VerifRunMainSameG), the first one on a new G
	Steps   []c07Case `json:"steps"`
	Results []c07Out  `json:"results"`
}

func c07RunSeqHere(file string) error {
	data, err := os.ReadFile(file)
	if err != nil {
		return err
	}
	var sf c07SeqFile
	if err := json.Unmarshal(data, &sf); err != nil {
		return err
	}
	sf.Results = nil
	for i, c := range sf.Steps {
		root := c.Root
		if c.Autofix {
			root = fmt.Sprintf("%s.copy.seq%d.%d", c.Root, os.Getpid(), i)
			if err := CopyTree(c.Root, root); err != nil {
				return err
			}
		}
		var o c07Out
		if sf.SameG {
			r := pkglint.VerifRunMainSameG(append([]string{sf.Pkglint}, c.Args...), filepath.Join(root, c.Cwd), i == 0)
			o = c07Out{Stdout: r.Stdout, Stderr: r.Stderr, Exit: r.Exit, Panic: r.Panic, MapSizes: r.MapSizes}
		} else {
			o = c07InProcess(sf.Pkglint, filepath.Join(root, c.Cwd), c.Args)
		}
		if c.Autofix {
			o.TreeSum = c07TreeSum(root)
			os.RemoveAll(root)
		}
		sf.Results = append(sf.Results, o)
	}
	out, _ := json.Marshal(sf)
	return os.WriteFile(file+".out", out, 0o644)
}

// c07Seq runs the steps in one fresh child process of the harness (tag verif) and returns one result per step.
func c07Seq(ctx *Ctx, name string, steps []c07Case) ([]c07Out, error) {
	return c07SeqG(ctx, name, steps, false)
}

// c07SeqG: sameG = all steps on one G (see shim VerifRunMainSameG).
func c07SeqG(ctx *Ctx, name string, steps []c07Case, sameG bool) ([]c07Out, error) {
	file := filepath.Join(ctx.Work, name+".json")
	data, _ := json.Marshal(c07SeqFile{Pkglint: ctx.Pkglint, Steps: steps, SameG: sameG})
	if err := os.WriteFile(file, data, 0o644); err != nil {
		return nil, err
	}
	self, err := os.Executable()
	if err != nil {
		return nil, err
	}
	cmd := exec.Command(self, "run", "tool-c07seq", "work="+file)
	cmd.Env = append(os.Environ(), "PKGSRCDIR=", "HOME="+ctx.Work, "GOMAXPROCS=2", "GOMEMLIMIT=2GiB")
	if outb, err := cmd.CombinedOutput(); err != nil {
		return nil, fmt.Errorf("in-process sequence %s: %v: %s", name, err, firstLines(string(outb), 12))
	}
	res, err := os.ReadFile(file + ".out")
	if err != nil {
		return nil, err
	}
	var sf c07SeqFile
	if err := json.Unmarshal(res, &sf); err != nil {
		return nil, err
	}
	if len(sf.Results) != len(steps) {
		return nil, fmt.Errorf("in-process sequence %s: %d results for %d steps", name, len(sf.Results), len(steps))
	}
	os.Remove(file)
	os.Remove(file + ".out")
	return sf.Results, nil
}

// ---------- classification of a difference ----------

var (
	c07ReExpr    = regexp.MustCompile(`\$[\{\(][^}\)]*[\}\)]`)
	c07RePath    = regexp.MustCompile(`[^\s"]*/[^\s"]*`)
	c07ReTrace   = regexp.MustCompile(`^TRACE: [0-9 ]*[+-]? *`)
	c07ReUpper   = regexp.MustCompile(`\b[A-Z][A-Z0-9_.]{2,}\b`)
	c07ReSummary = regexp.MustCompile(`^text: ((_ errors?)?(, | and )?(_ warnings?)?( and )?(_ notes?)? found\.|Looks fine\.|\(Run _ to .*\))$`)
)

func c07Norm(msg string) string {
	msg = c07ReExpr.ReplaceAllLiteralString(msg, "${_}")
	msg = MsgKind(msg)
	msg = c07RePath.ReplaceAllString(msg, "_")
	msg = c07ReUpper.ReplaceAllString(msg, "_") // variable names
	if len(msg) > 90 {
		msg = msg[:90]
	}
	return msg
}

type c07Unit struct {
	kind string // message kind of the owning diagnostic, "" for free text
	text string
}

func c07IsSourceLine(l string) bool {
	return strings.HasPrefix(l, ">\t") || strings.HasPrefix(l, "+\t") || strings.HasPrefix(l, "-\t") || l == ">" || l == "+" || l == "-"
}

// c07Units splits an output into units: a diagnostic (or TRACE) line owns the
// source lines directly before it and the explanation/blank lines after it.
func c07Units(out string) []c07Unit {
	ls := strings.Split(out, "\n")
	var units []c07Unit
	var pendingSrc []string
	for _, l := range ls {
		switch {
		case l == "": // separators between units (-s, -e): their placement follows the units
		case c07IsSourceLine(l):
			pendingSrc = append(pendingSrc, l)
		case strings.HasPrefix(l, "TRACE: "):
			units = append(units, c07Unit{kind: "TRACE: " + c07Norm(c07ReTrace.ReplaceAllString(l, "")), text: strings.Join(append(pendingSrc, l), "\n")})
			pendingSrc = nil
		default:
			if d, ok := ParseDiag(l); ok {
				units = append(units, c07Unit{kind: d.Level + ": " + c07Norm(d.Msg), text: strings.Join(append(pendingSrc, l), "\n")})
				pendingSrc = nil
			} else if len(units) > 0 && len(pendingSrc) == 0 && strings.HasPrefix(l, "\t") {
				units[len(units)-1].text += "\n" + l
			} else {
				units = append(units, c07Unit{kind: "", text: strings.Join(append(pendingSrc, l), "\n")})
				pendingSrc = nil
			}
		}
	}
	if len(pendingSrc) > 0 {
		units = append(units, c07Unit{text: strings.Join(pendingSrc, "\n")})
	}
	return units
}

// c07DiffKinds: (what, kinds) for two different outputs of the same stream.
// what = "content" when the multisets of units differ, "order" when only their order does.
func c07DiffKinds(a, b string) (string, []string) {
	ua, ub := c07Units(a), c07Units(b)
	count := map[string]int{}
	for _, u := range ua {
		count[u.text]++
	}
	for _, u := range ub {
		count[u.text]--
	}
	kinds := map[string]bool{}
	kindOf := func(u c07Unit) string {
		if u.kind != "" {
			return u.kind
		}
		return "text: " + c07Norm(firstLines(u.text, 1))
	}
	// units deleted from a / inserted into b by a minimal edit script (Myers): these are the units
	// that changed or moved. (Comparing position by position, or multisets only, either drowns the
	// result in shifted lines or lets a content difference hide a reordering of other messages.)
	what := "order"
	for _, c := range count {
		if c != 0 {
			what = "content"
		}
	}
	ta, tb := make([]string, len(ua)), make([]string, len(ub))
	for i, u := range ua {
		ta[i] = u.text
	}
	for i, u := range ub {
		tb[i] = u.text
	}
	da, ib, ok := c07Myers(ta, tb, 1500)
	if !ok {
		kinds["text: more than 1500 differing units"] = true
	}
	for _, i := range da {
		kinds[kindOf(ua[i])] = true
	}
	for _, i := range ib {
		kinds[kindOf(ub[i])] = true
	}
	// the summary line, "Looks fine." and the hints are functions of the diagnostics printed: when the
	// multisets of diagnostics differ, a different final block is a consequence, not a difference of its own
	diagContent := false
	for k := range kinds {
		if what == "content" && !strings.HasPrefix(k, "text: ") {
			diagContent = true
		}
	}
	if diagContent {
		for k := range kinds {
			if strings.HasPrefix(k, "text: ") && c07ReSummary.MatchString(k) {
				delete(kinds, k)
			}
		}
	}
	ks := sortedKeys(kinds)
	if len(ks) > 12 {
		ks = ks[:12]
	}
	return what, ks
}

// c07Myers: indices of a that a shortest edit script deletes and indices of b that it inserts
// (greedy O((N+M)D) algorithm of Myers 1986 after trimming the common prefix and suffix).
func c07Myers(a, b []string, maxD int) (del, ins []int, ok bool) {
	pre := 0
	for pre < len(a) && pre < len(b) && a[pre] == b[pre] {
		pre++
	}
	suf := 0
	for suf < len(a)-pre && suf < len(b)-pre && a[len(a)-1-suf] == b[len(b)-1-suf] {
		suf++
	}
	a2, b2 := a[pre:len(a)-suf], b[pre:len(b)-suf]
	n, m := len(a2), len(b2)
	if n == 0 || m == 0 {
		for i := 0; i < n; i++ {
			del = append(del, pre+i)
		}
		for j := 0; j < m; j++ {
			ins = append(ins, pre+j)
		}
		return del, ins, true
	}
	off := maxD + 1
	v := make([]int, 2*off+1)
	var trace [][]int
	found := -1
	for d := 0; d <= maxD && d <= n+m && found < 0; d++ {
		trace = append(trace, append([]int{}, v...))
		for k := -d; k <= d; k += 2 {
			var x int
			if k == -d || (k != d && v[off+k-1] < v[off+k+1]) {
				x = v[off+k+1]
			} else {
				x = v[off+k-1] + 1
			}
			y := x - k
			for x < n && y < m && a2[x] == b2[y] {
				x++
				y++
			}
			v[off+k] = x
			if x >= n && y >= m {
				found = d
				break
			}
		}
	}
	if found < 0 {
		return nil, nil, false
	}
	x, y := n, m
	for d := found; d > 0; d-- {
		vd := trace[d]
		k := x - y
		var pk int
		if k == -d || (k != d && vd[off+k-1] < vd[off+k+1]) {
			pk = k + 1
		} else {
			pk = k - 1
		}
		px := vd[off+pk]
		py := px - pk
		for x > px && y > py { // snake
			x--
			y--
		}
		if x == px { // insertion of b2[py]
			ins = append(ins, pre+py)
		} else { // deletion of a2[px]
			del = append(del, pre+px)
		}
		x, y = px, py
	}
	return del, ins, true
}

type c07Diff struct{ what, kind string }

// key: the message kind alone. Whether the same cause shows as a reordering or
// as different content depends on what else the run printed (a package checked
// twice turns a content difference into a swap), so `what` is not part of the key.
func (d c07Diff) key() string {
	switch {
	case strings.HasPrefix(d.what, "stderr-"):
		return "stderr/" + d.kind
	case d.what == "order" || d.what == "content":
		return d.kind
	}
	return d.what + "/" + d.kind
}

func c07Compare(a, b c07Out) []c07Diff {
	var ds []c07Diff
	if a.Stdout != b.Stdout {
		w, ks := c07DiffKinds(a.Stdout, b.Stdout)
		for _, k := range ks {
			ds = append(ds, c07Diff{w, k})
		}
	}
	if a.Stderr != b.Stderr {
		w, ks := c07DiffKinds(a.Stderr, b.Stderr)
		for _, k := range ks {
			ds = append(ds, c07Diff{"stderr-" + w, k})
		}
	}
	if a.Panic != b.Panic {
		ds = append(ds, c07Diff{"panic", c07Norm(a.Panic + "|" + b.Panic)})
	}
	if len(ds) == 0 && (a.Exit != b.Exit || a.Signal != b.Signal) {
		ds = append(ds, c07Diff{"exit", fmt.Sprintf("%d%s-vs-%d%s", a.Exit, a.Signal, b.Exit, b.Signal)})
	}
	if len(ds) == 0 && a.TreeSum != b.TreeSum {
		ds = append(ds, c07Diff{"tree", "files after -F differ"})
	}
	return ds
}

// ---------- replay material ----------

func c07TreeFiles(root string) map[string]string {
	m := map[string]string{}
	filepath.Walk(root, func(p string, fi os.FileInfo, err error) error {
		if err == nil && fi.Mode().IsRegular() {
			rel, _ := filepath.Rel(root, p)
			b, _ := os.ReadFile(p)
			m[hx(rel)] = hx(string(b))
		}
		return nil
	})
	return m
}

func c07FirstDiffLine(a, b string) string {
	la, lb := strings.Split(a, "\n"), strings.Split(b, "\n")
	for i := range la {
		if i >= len(lb) || la[i] != lb[i] {
			other := "<end>"
			if i < len(lb) {
				other = lb[i]
			}
			return fmt.Sprintf("line %d: %q vs %q", i+1, trunc(la[i], 160), trunc(other, 160))
		}
	}
	if len(lb) > len(la) {
		return fmt.Sprintf("line %d: <end> vs %q", len(la)+1, trunc(lb[len(la)], 160))
	}
	return ""
}

func trunc(s string, n int) string {
	if len(s) > n {
		return s[:n] + "..."
	}
	return s
}

func c07Where(a, b c07Out) string {
	switch {
	case a.Stdout != b.Stdout:
		return "stdout " + c07FirstDiffLine(a.Stdout, b.Stdout)
	case a.Stderr != b.Stderr:
		return "stderr " + c07FirstDiffLine(a.Stderr, b.Stderr)
	case a.Exit != b.Exit:
		return fmt.Sprintf("exit %d vs %d", a.Exit, b.Exit)
	case a.TreeSum != b.TreeSum:
		return "tree after -F " + c07FirstDiffLine(a.TreeSum, b.TreeSum)
	}
	return fmt.Sprintf("panic %q vs %q", a.Panic, b.Panic)
}

// ---------- the run ----------

type c07Params struct {
	trees, casesPerTree, nFresh, nSeq, batch int
}

func runC07(ctx *Ctx) *Result {
	res := &Result{}
	p := c07Params{trees: 120, casesPerTree: 3, nFresh: 6, nSeq: 3, batch: 6}
	if ctx.Tier == "thorough" {
		p = c07Params{trees: 600, casesPerTree: 4, nFresh: 10, nSeq: 5, batch: 6}
	}
	rng := NewRng(ctx.Seed)
	c07UnitCorr(ctx, res, rng.Fork())
	if res.Broken == "" {
		c07CvsUnit(ctx, res, NewRng(ctx.Seed^0xc07c5))
	}
	type treeInfo struct {
		g   *GenTree
		reg c07Regress
	}
	trees := make([]treeInfo, p.trees)
	rngs := make([]*Rng, p.trees)
	for i := range rngs {
		rngs[i] = rng.Fork()
	}
	parallelFor(p.trees, func(i int) {
		g, reg := c07GenTree(rngs[i], filepath.Join(ctx.Work, fmt.Sprintf("t%d", i)), i)
		trees[i] = treeInfo{g, reg}
	})
	var cases []c07Case
	for i, t := range trees {
		cs := c07PickCases(rng, i, t.g.Root, len(t.g.Pkgs), p.casesPerTree)
		if t.reg.Bl3Pkg != "" && i%2 == 0 {
			// regression for 7d8fe86: the trace lines about buildlink3 inclusion appear when the package is checked from its own directory with --debug
			cs[len(cs)-1] = c07Case{Tree: i, Root: t.g.Root, Cwd: t.reg.Bl3Pkg, Args: []string{"-Wall", "-Cglobal", "--debug"}}
			res.Count("regress.bl3-trace-case", 1)
		}
		cases = append(cases, cs...)
		for k, v := range t.g.Features {
			if strings.HasPrefix(k, "c07.") || k == "rich" {
				res.Count("feature."+k, v)
			}
		}
	}

	// 1. fresh processes
	fresh := make([][]c07Out, len(cases))
	for i := range fresh {
		fresh[i] = make([]c07Out, p.nFresh)
	}
	parallelFor(len(cases)*p.nFresh, func(j int) {
		fresh[j/p.nFresh][j%p.nFresh] = c07Fresh(ctx, cases[j/p.nFresh], fmt.Sprintf("f%d", j))
	})
	res.Evaluations += len(cases) * p.nFresh
	unstable := make([]bool, len(cases))
	for ci, c := range cases {
		outs := fresh[ci]
		for _, o := range outs {
			if o.TimedOut || o.Signal != "" || (o.Exit != 0 && o.Exit != 1) {
				// a crash/hang is C01's business, but a run that sometimes crashes is ours: compared below like any output
				res.Count("runs.abnormal", 1)
			}
		}
		for k := 1; k < len(outs); k++ {
			if !outs[0].same(outs[k]) { // every differing pair: another pair may show another kind
				unstable[ci] = true
				c07ReportNondet(ctx, res, c, outs[0], outs[k], "fresh processes")
			}
		}
		res.Count("option-set."+strings.Join(c.Args[:imin(len(c.Args), 5)], " "), 1)
		res.Count("stdout.lines", strings.Count(outs[0].Stdout, "\n"))
		res.Count("diagnostics", len(ParseDiags(outs[0].Stdout)))
	}

	// 2. one process, varying predecessors
	type seqJob struct {
		name  string
		steps []int // case indices
	}
	var jobs []seqJob
	for b := 0; b*p.batch < p.trees; b++ {
		var idx []int
		for ci, c := range cases {
			if c.Tree/p.batch == b {
				idx = append(idx, ci)
			}
		}
		for s := 0; s < p.nSeq; s++ {
			perm := append([]int{}, idx...)
			for i := len(perm) - 1; i > 0; i-- {
				j := rng.Intn(i + 1)
				perm[i], perm[j] = perm[j], perm[i]
			}
			if len(perm) > 2 { // the same case twice in a row, and once more at the end
				perm = append(perm, perm[0], perm[len(perm)/2], perm[len(perm)/2])
			}
			jobs = append(jobs, seqJob{fmt.Sprintf("seq-b%d-s%d", b, s), perm})
		}
	}
	seqOut := make([][]c07Out, len(jobs))
	seqErr := make([]error, len(jobs))
	parallelFor(len(jobs), func(j int) {
		steps := make([]c07Case, len(jobs[j].steps))
		for i, ci := range jobs[j].steps {
			steps[i] = cases[ci]
		}
		seqOut[j], seqErr[j] = c07Seq(ctx, jobs[j].name, steps)
	})
	nontrivial := map[int]bool{}
	mapMax := map[string]int{}
	for j, job := range jobs {
		if seqErr[j] != nil {
			res.Broken = seqErr[j].Error()
			return res
		}
		for i, ci := range job.steps {
			o := seqOut[j][i]
			res.Evaluations++
			res.TracesValidated++
			big := 0
			for k, v := range o.MapSizes {
				if v > mapMax[k] {
					mapMax[k] = v
				}
				if v >= 3 {
					big++
				}
			}
			if big >= 2 {
				nontrivial[ci] = true
			}
			if i == 0 {
				res.Count("inprocess.first-in-process", 1)
			} else {
				res.Count("inprocess.with-predecessors", 1)
			}
			if unstable[ci] || o.same(fresh[ci][0]) {
				continue
			}
			c07ReportInProcess(ctx, res, cases, job.steps[:i+1], o, fresh[ci][0])
		}
	}
	for k, v := range mapMax {
		res.Count("mapsize.max."+k, v)
	}
	if res.Broken == "" {
		c07RegistryStage(ctx, res, rng, p)
	}
	if res.Broken == "" {
		c07EnvStage(ctx, res, rng.Fork())
	}
	if res.Broken == "" {
		c07SameGStage(ctx, res)
	}
	if res.Broken == "" {
		c07OtherTreeStage(ctx, res, NewRng(ctx.Seed^0x07e1))
	}
	if res.Broken == "" {
		c07GlobalsAuditStage(ctx, res)
	}
	res.DistinctNontrivial = len(nontrivial)
	res.Rule = fmt.Sprintf("a case = (generated tree, cwd, argv); every case is run %d times in fresh processes and %d times inside child processes that run a seeded permutation of the cases of %d trees each (fresh G per run), all outputs compared byte for byte with the first fresh run. Non-trivial = a case for which the shim's probe saw at least 2 of the long-lived audited maps (master sites, tools, doc/CHANGES entries, user-defined variables) with >= 3 keys; the per-package maps (PLIST files/dirs, includes, options, SUBST, scopes) have >= 3 keys in every Rich tree by construction. Go draws a fresh random start for every `range`; for a loop over >= 3 keys whose order reaches the output, k independent runs all agree with probability <= (1/3)^(k-1) (only the first key matters) resp. (1/6)^(k-1) (the whole order of 3 keys matters): with %d runs per case that is <= %.1e per case, and every audited loop is reached by dozens of cases.",
		p.nFresh, p.nSeq, p.batch, p.nFresh+p.nSeq, pow(1.0/3, p.nFresh+p.nSeq-1))
	res.Exhaustive = false
	for _, ci := range []int{0, 1, len(cases) / 2, len(cases) - 1} {
		c := cases[ci]
		res.Sample(map[string]any{"case": c.String(), "exit": fresh[ci][0].Exit, "stdout_lines": strings.Count(fresh[ci][0].Stdout, "\n"),
			"first_line": firstLines(fresh[ci][0].Stdout, 1), "features": len(trees[c.Tree].g.Features)})
	}
	// coverage floors: the generator must keep reaching the audited loops
	if len(res.Violations) > 0 {
		// violations are the result; the floors below only guard a PASS against being vacuous
	} else if len(nontrivial) < len(cases)/2 {
		res.Broken = fmt.Sprintf("only %d of %d cases were non-trivial", len(nontrivial), len(cases))
	}
	for _, k := range []string{"Pkgsrc.MasterSiteURLToVar", "Pkgsrc.Tools.byName", "Pkgsrc.changes.LastChange"} {
		if mapMax[k] < 3 && len(res.Violations) == 0 {
			res.Broken = fmt.Sprintf("the generator no longer fills %s (max %d keys)", k, mapMax[k])
		}
	}
	if d, _ := res.Distribution["diagnostics"].(int); d < 20*len(cases) && len(res.Violations) == 0 {
		res.Broken = fmt.Sprintf("only %d diagnostics in %d cases: the generated trees are too clean to show an order", d, len(cases))
	}
	c07AuditNumbers(ctx, res)
	if res.Broken == "" {
		c07CwdLinkStage(ctx, res) // after the floors: its recorded finding must not switch them off
	}
	res.Assumptions = []string{
		"same user, same environment, same wall-clock year (pkglint reads user.Current; nothing else from the environment)",
		"the trees are not modified between the runs (cases with -F run on identical copies)",
	}
	return res
}

// c07RegistryStage: pairs of trees that register / use a name of a per-run registry, run in one
// process in the orders A,B,A and B,A,B (c07gen.go, "registry pairs"); every run = its fresh run.
func c07RegistryStage(ctx *Ctx, res *Result, rng *Rng, p c07Params) {
	npairs := 6
	if ctx.Tier == "thorough" {
		npairs = 30
	}
	type pair struct{ a, b *GenTree }
	pairs := make([]pair, npairs)
	rngs := make([]*Rng, npairs)
	for i := range rngs {
		rngs[i] = rng.Fork()
	}
	parallelFor(npairs, func(i int) {
		a, b := c07GenRegistryPair(rngs[i], filepath.Join(ctx.Work, fmt.Sprintf("regA%d", i)), filepath.Join(ctx.Work, fmt.Sprintf("regB%d", i)), i)
		pairs[i] = pair{a, b}
	})
	var cases []c07Case
	type idx struct{ a, b int }
	perPair := make([][]idx, npairs) // per pair: (case index in A, in B) for every feature and for the whole tree
	for i, pr := range pairs {
		add := func(cwd string, args ...string) {
			cases = append(cases, c07Case{Tree: 100000 + i, Root: pr.a.Root, Cwd: cwd, Args: args}, c07Case{Tree: 100000 + i, Root: pr.b.Root, Cwd: cwd, Args: args})
			perPair[i] = append(perPair[i], idx{len(cases) - 2, len(cases) - 1})
		}
		for fi, f := range c07RegistryFeatures {
			if (fi+i)%3 == 0 {
				add("cat/reg-"+f, "-Wall")
			} else {
				add(".", "-Wall", "-Cglobal", "cat/reg-"+f)
			}
		}
		add(".", "-Wall", "-Cglobal", "-r", ".")
		add("cat", "-Wall", "-Cglobal", "-r", ".")
	}
	fresh := make([][]c07Out, len(cases))
	for i := range fresh {
		fresh[i] = make([]c07Out, 3)
	}
	parallelFor(len(cases)*3, func(j int) { fresh[j/3][j%3] = c07Fresh(ctx, cases[j/3], fmt.Sprintf("rf%d", j)) })
	res.Evaluations += len(cases) * 3
	unstable := make([]bool, len(cases))
	for ci := range cases {
		for k := 1; k < 3; k++ {
			if !fresh[ci][0].same(fresh[ci][k]) {
				unstable[ci] = true
				c07ReportNondet(ctx, res, cases[ci], fresh[ci][0], fresh[ci][k], "fresh processes")
			}
		}
	}
	distinguishing := map[string]int{}
	for i := range pairs {
		for fi, f := range c07RegistryFeatures {
			ix := perPair[i][fi]
			if fresh[ix.a][0].Stdout != fresh[ix.b][0].Stdout {
				distinguishing[f]++
			}
		}
	}
	nd := 0
	for _, f := range c07RegistryFeatures {
		res.Count("registry.distinguishing."+f, distinguishing[f])
		if distinguishing[f] == npairs {
			nd++
		}
	}
	// sequences: per pair, A,B,A for every feature then the whole tree; B,A,B likewise; and both with the whole-tree runs first
	type seqJob struct {
		name  string
		steps []int
	}
	var jobs []seqJob
	for i := range pairs {
		var aba, bab, aba2, bab2 []int
		n := len(perPair[i])
		for k, ix := range perPair[i] {
			aba = append(aba, ix.a, ix.b, ix.a)
			bab = append(bab, ix.b, ix.a, ix.b)
			rx := perPair[i][n-1-k]
			aba2 = append(aba2, rx.a, rx.b, rx.a)
			bab2 = append(bab2, rx.b, rx.a, rx.b)
		}
		jobs = append(jobs, seqJob{fmt.Sprintf("reg%d-aba", i), aba}, seqJob{fmt.Sprintf("reg%d-bab", i), bab},
			seqJob{fmt.Sprintf("reg%d-aba-rev", i), aba2}, seqJob{fmt.Sprintf("reg%d-bab-rev", i), bab2})
	}
	outs := make([][]c07Out, len(jobs))
	errs := make([]error, len(jobs))
	parallelFor(len(jobs), func(j int) {
		steps := make([]c07Case, len(jobs[j].steps))
		for k, ci := range jobs[j].steps {
			steps[k] = cases[ci]
		}
		outs[j], errs[j] = c07Seq(ctx, jobs[j].name, steps)
	})
	for j, job := range jobs {
		if errs[j] != nil {
			res.Broken = errs[j].Error()
			return
		}
		reported := 0
		for k, ci := range job.steps {
			res.Evaluations++
			res.TracesValidated++
			res.Count("registry.inprocess-runs", 1)
			if unstable[ci] || outs[j][k].same(fresh[ci][0]) {
				continue
			}
			if reported < 3 { // the confirmation runs are expensive; one sequence shows a leak at most a few times anyway
				lo := k - 2
				if lo < 0 {
					lo = 0
				}
				// first try with the two direct predecessors (the A,B,A triple); fall back to the whole prefix
				before := len(res.Violations)
				c07ReportInProcess(ctx, res, cases, job.steps[lo:k+1], outs[j][k], fresh[ci][0])
				if len(res.Violations) == before {
					c07ReportInProcess(ctx, res, cases, job.steps[:k+1], outs[j][k], fresh[ci][0])
				}
				reported++
			}
		}
	}
	if nd < 8 && len(res.Violations) == 0 {
		res.Broken = fmt.Sprintf("only %d of %d registry features distinguish the registering tree from the using tree in every pair", nd, len(c07RegistryFeatures))
	}
}

func pow(x float64, n int) float64 {
	r := 1.0
	for i := 0; i < n; i++ {
		r *= x
	}
	return r
}

func imin(a, b int) int {
	if a < b {
		return a
	}
	return b
}

// c07AuditNumbers copies the static audit's numbers into the evidence (the comparison itself is gen/c07.go's).
func c07AuditNumbers(ctx *Ctx, res *Result) {
	data, err := os.ReadFile(filepath.Join(ctx.Verif, "audit", "maprange.json"))
	if err != nil {
		return
	}
	var audit struct {
		Loops []struct {
			Class string `json:"class"`
		} `json:"loops"`
	}
	if json.Unmarshal(data, &audit) != nil {
		return
	}
	for _, l := range audit.Loops {
		res.Count("audit.maprange."+l.Class, 1)
	}
}

// c07ReportNondet: two runs of the same case differ. Confirmed by construction
// (both outputs were produced by the real binary); the replay re-runs the case.
func c07ReportNondet(ctx *Ctx, res *Result, c c07Case, a, b c07Out, how string) {
	ds := c07Compare(a, b)
	files := c07TreeFiles(c.Root)
	for _, d := range ds {
		res.AddViolation(Violation{
			Key:        "C07/nondeterministic/" + d.key(),
			What:       fmt.Sprintf("two runs of `pkglint %s` (cwd %s) on the same tree in %s differ: %s", strings.Join(c.Args, " "), c.Cwd, how, c07Where(a, b)),
			FoundInput: true,
			Size:       len(a.Stdout) + len(files),
			Replay: map[string]any{"kind": "nondet", "cwd": c.Cwd, "args": c.Args, "autofix": c.Autofix, "files": files,
				"stdout_a": a.Stdout, "stdout_b": b.Stdout, "stderr_a": a.Stderr, "stderr_b": b.Stderr, "exit_a": a.Exit, "exit_b": b.Exit, "diff": d.what + "/" + d.kind},
		})
	}
}

// c07ReportInProcess: the last step of `steps` gave `got` in-process but `want` in a fresh process.
// Decide between (a) plain nondeterminism that the fresh runs missed, (b) a dependence on the
// predecessors, (c) a shim that does not run pkglint the way main.go does.
func c07ReportInProcess(ctx *Ctx, res *Result, cases []c07Case, steps []int, got, want c07Out) {
	target := cases[steps[len(steps)-1]]
	// (a) more fresh runs and more stand-alone in-process runs
	var more []c07Out
	for k := 0; k < 12; k++ {
		more = append(more, c07Fresh(ctx, target, fmt.Sprintf("confirm%d", k)))
	}
	for _, o := range more {
		if !o.same(want) {
			c07ReportNondet(ctx, res, target, want, o, "fresh processes")
			return
		}
	}
	alone := true
	for k := 0; k < 4; k++ {
		outs, err := c07Seq(ctx, fmt.Sprintf("confirm-alone-%d", k), []c07Case{target})
		if err != nil {
			res.Broken = err.Error()
			return
		}
		if !outs[0].same(want) {
			alone = false
			got = outs[0]
		}
	}
	ds := c07Compare(want, got)
	if !alone {
		for _, d := range ds {
			res.AddViolation(Violation{
				Key:        "C07/correspondence/shim-run/" + d.what,
				What:       fmt.Sprintf("VerifRunMain alone in a fresh process differs from the binary for `pkglint %s`: %s", strings.Join(target.Args, " "), c07Where(want, got)),
				FoundInput: false,
				Replay:     map[string]any{"broken": "shim VerifRunMain = cmd/pkglint main", "kind": "shim", "args": target.Args, "cwd": target.Cwd, "diff": d.what + "/" + d.kind},
			})
		}
		return
	}
	// (b) the sequence again, twice; shrink the predecessors to one if possible
	stepCases := func(idx []int) []c07Case {
		cs := make([]c07Case, len(idx))
		for i, ci := range idx {
			cs[i] = cases[ci]
		}
		return cs
	}
	repro := 0
	for k := 0; k < 2; k++ {
		outs, err := c07Seq(ctx, fmt.Sprintf("confirm-seq-%d", k), stepCases(steps))
		if err == nil && !outs[len(outs)-1].same(want) {
			repro++
			got = outs[len(outs)-1]
		}
	}
	if repro == 0 {
		// seen once, never again: still an observed difference of the real code (in-process), report it as such
		for _, d := range ds {
			res.AddViolation(Violation{
				Key:        "C07/inprocess-unstable/" + d.key(),
				What:       fmt.Sprintf("an in-process run of `pkglint %s` after %d other runs differed once from the fresh-process output and could not be repeated: %s", strings.Join(target.Args, " "), len(steps)-1, c07Where(want, got)),
				FoundInput: false,
				Replay:     map[string]any{"broken": "in-process run = fresh run (not reproducible)", "kind": "inprocess-once", "args": target.Args, "cwd": target.Cwd},
			})
		}
		return
	}
	best := steps
	for i := 0; i < len(steps)-1; i++ { // a single predecessor that suffices
		try := []int{steps[i], steps[len(steps)-1]}
		outs, err := c07Seq(ctx, fmt.Sprintf("confirm-min-%d", i), stepCases(try))
		if err == nil && !outs[1].same(want) {
			best, got = try, outs[1]
			break
		}
	}
	ds = c07Compare(want, got)
	var rsteps []map[string]any
	for _, ci := range best {
		c := cases[ci]
		rsteps = append(rsteps, map[string]any{"cwd": c.Cwd, "args": c.Args, "autofix": c.Autofix, "files": c07TreeFiles(c.Root)})
	}
	for _, d := range ds {
		res.AddViolation(Violation{
			Key: "C07/inprocess-history/" + d.key(),
			What: fmt.Sprintf("`pkglint %s` gives a different result after %d earlier run(s) in the same process (fresh G each) than in a fresh process: %s",
				strings.Join(target.Args, " "), len(best)-1, c07Where(want, got)),
			FoundInput: true,
			Size:       len(best)*100000 + len(want.Stdout),
			Replay:     map[string]any{"kind": "history", "steps": rsteps, "stdout_fresh": want.Stdout, "stdout_inprocess": got.Stdout, "diff": d.what + "/" + d.kind},
		})
	}
}

// ---------- replay ----------

func c07WriteFiles(root string, files map[string]any) {
	t := &Tree{Root: root}
	for k, v := range files {
		s, _ := v.(string)
		t.Write(unhx(k), unhx(s))
	}
}

func c07Strings(v any) []string {
	var out []string
	if xs, ok := v.([]any); ok {
		for _, x := range xs {
			s, _ := x.(string)
			out = append(out, s)
		}
	}
	return out
}

func replayC07(ctx *Ctx, rep map[string]any) *Result {
	res := &Result{Rule: "replay"}
	switch rep["kind"] {
	case "env":
		return replayC07Env(ctx, rep)
	case "nondet":
		root := filepath.Join(ctx.Work, "replay")
		files, _ := rep["files"].(map[string]any)
		c07WriteFiles(root, files)
		cwd, _ := rep["cwd"].(string)
		auto, _ := rep["autofix"].(bool)
		c := c07Case{Root: root, Cwd: cwd, Args: c07Strings(rep["args"]), Autofix: auto}
		outs := make([]c07Out, 40)
		parallelFor(len(outs), func(i int) { outs[i] = c07Fresh(ctx, c, fmt.Sprintf("r%d", i)) })
		res.Evaluations = len(outs)
		for _, o := range outs[1:] {
			if !o.same(outs[0]) {
				c07ReportNondet(ctx, res, c, outs[0], o, "fresh processes")
				break
			}
		}
	case "same-g":
		return replayC07SameG(ctx, rep)
	case "other-tree":
		return replayC07OtherTree(ctx, rep)
	case "history":
		var cases []c07Case
		var idx []int
		steps, _ := rep["steps"].([]any)
		for i, s := range steps {
			m, _ := s.(map[string]any)
			root := filepath.Join(ctx.Work, fmt.Sprintf("replay%d", i))
			files, _ := m["files"].(map[string]any)
			c07WriteFiles(root, files)
			cwd, _ := m["cwd"].(string)
			auto, _ := m["autofix"].(bool)
			cases = append(cases, c07Case{Tree: i, Root: root, Cwd: cwd, Args: c07Strings(m["args"]), Autofix: auto})
			idx = append(idx, i)
		}
		if len(cases) == 0 {
			res.Broken = "replay file without steps"
			return res
		}
		want := c07Fresh(ctx, cases[len(cases)-1], "want")
		outs, err := c07Seq(ctx, "replay-seq", cases)
		if err != nil {
			res.Broken = err.Error()
			return res
		}
		res.Evaluations = len(cases) + 1
		if !outs[len(outs)-1].same(want) {
			c07ReportInProcess(ctx, res, cases, idx, outs[len(outs)-1], want)
		}
	default:
		res.Broken = fmt.Sprintf("nothing to re-execute for replay kind %v (a broken correspondence, not a failing input)", rep["kind"])
	}
	return res
}

func init() {
	register("C07", runC07, replayC07)
	register("tool-c07seq", func(ctx *Ctx) *Result {
		if err := c07RunSeqHere(ctx.Work); err != nil {
			fmt.Fprintln(os.Stderr, err)
			os.Exit(3)
		}
		os.Stdout.WriteString("{}\n")
		os.Exit(0)
		return nil
	}, nil)
}
