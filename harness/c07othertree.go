package main

// C07, round 5 (sub-builder of c040709).
//
// 1. c07GlobalsAuditStage: runs gen/c07globals.go (generator "globals" of
//    .cache/verifgen, built by bin/check's proof stage) on ctx.Repo and turns
//    every problem into a Violation with a narrow key
//    C07/globals-audit/<kind>/<pkg>.<name> (broken correspondence: the hand
//    classification audit/globals.json no longer covers the source).
//
// 2. c07OtherTreeStage: "what an earlier run in the same process looked at".
//    Pairs of DIFFERENT trees A, B with the same package paths and the same
//    file names, which differ only in tree-global inputs: the set of platforms
//    (mk/platform/*.mk), the tool definitions (mk/tools/defaults.mk), the
//    licenses (licenses/*), doc/CHANGES-*, the master sites (mk/fetch/sites.mk)
//    the user-settable variables (mk/defaults/mk.conf), doc/TODO, the option
//    descriptions (mk/defaults/options.description), the directories lang/*
//    (enumFromDirs) and mk/compiler.mk (enumFrom).  The packages are
//    byte-identical in A and B, so any per-name / per-basename / per-path cache
//    that outlives a run collides.  In one process (fresh G per run, shim
//    VerifRunMain): A then B, and B then A; the second run must equal its
//    fresh-process run byte for byte (stdout, stderr, exit).  Seeded C07-r5m2
//    (NewPlistRank memoised per PLIST basename in a package-level map).

import (
	"encoding/json"
	"fmt"
	"os"
	"os/exec"
	"path/filepath"
	"regexp"
	"sort"
	"strings"
)

// ---------- 1. static audit of package-level variables ----------

func c07GlobalsAuditStage(ctx *Ctx, res *Result) {
	gbin := filepath.Join(ctx.Verif, ".cache", "verifgen")
	if _, err := os.Stat(gbin); err != nil {
		res.Broken = "verifgen is missing (bin/check builds it in the proof stage): " + err.Error()
		return
	}
	out := filepath.Join(ctx.Work, "globals-gen")
	os.MkdirAll(out, 0o755)
	pf := filepath.Join(ctx.Work, "globals-problems.json")
	os.Remove(pf)
	cmd := exec.Command(gbin, filepath.Join(ctx.Repo, "v23"), out, "globals")
	cmd.Env = append(os.Environ(), "VERIF_AUDIT_DIR="+filepath.Join(ctx.Verif, "audit"), "VERIF_C07_GLOBALS_PROBLEMS="+pf, "VERIF_C07_DUMP_GLOBALS=")
	txt, _ := cmd.CombinedOutput()
	data, err := os.ReadFile(pf)
	var rep struct {
		Problems []struct{ Kind, Name, Detail string } `json:"problems"`
		Items    int                                   `json:"items"`
		Files    int                                   `json:"files"`
		Classes  map[string]int                        `json:"classes"`
	}
	if err != nil || json.Unmarshal(data, &rep) != nil {
		// the generator could not even list the variables of this source (it parses and type-checks what the
		// compiler accepted): the audit does not cover the tree
		res.AddViolation(Violation{Key: "C07/globals-audit/not-run", What: "the audit of package-level variables could not be computed for this source: " + trunc(string(txt), 300),
			FoundInput: false, Size: 1, Replay: map[string]any{"kind": "globals-audit", "broken": "audit/globals.json = package-level variables of the source", "output": trunc(string(txt), 2000)}})
		return
	}
	res.Count("audit.globals.items", rep.Items)
	res.Count("audit.globals.files", rep.Files)
	for k, v := range rep.Classes {
		res.Count("audit.globals.class."+k, v)
	}
	for _, p := range rep.Problems {
		res.AddViolation(Violation{Key: "C07/globals-audit/" + p.Kind + "/" + p.Name,
			What:       "audit/globals.json no longer covers the package-level state of the source: " + p.Detail,
			FoundInput: false, Size: 1,
			Replay: map[string]any{"kind": "globals-audit", "broken": "audit/globals.json (hand classification of every package-level variable and of the functions writing it) = source", "problem": p.Kind, "item": p.Name, "detail": p.Detail}})
	}
	if len(rep.Problems) == 0 && (rep.Items < 100 || rep.Files < 60) {
		res.AddViolation(Violation{Key: "C07/globals-audit/scan-floor", What: fmt.Sprintf("coverage floor missed: the scan saw only %d variables in %d files", rep.Items, rep.Files),
			FoundInput: false, Size: 1, Replay: map[string]any{"kind": "globals-audit", "broken": "the scanner no longer visits the module"}})
	}
}

// ---------- 2. another tree before ----------

var c07OTPlatforms = []string{"Haiku", "SunOS", "Darwin", "FreeBSD", "Minix", "QNX"}
var c07OTArchs = []string{"x86_64", "i386", "aarch64"}

// c07OTSpec: the tree-global part of one tree of a pair.
type c07OTSpec struct {
	Platforms []string // besides NetBSD and Linux of the base tree
	Tool      bool     // mk/tools/defaults.mk defines c07xtool
	License   bool     // licenses/c07-license exists
	Site      bool     // mk/fetch/sites.mk defines MASTER_SITE_C07
	UserVar   bool     // mk/defaults/mk.conf defines C07_USER_SETTING
	Lang      []string // extra directories lang/<x> (python27, python313, lua53): enumFromDirs
	Compiler  bool     // mk/compiler.mk lists the compiler c07cc: enumFrom
	OptDesc   bool     // mk/defaults/options.description documents c07-option
	Todo      bool     // doc/TODO asks for an update of ot-changes
	Changes   int      // doc/CHANGES-2018: 0 none, 1 "Added cat/ot-changes version 0.9", 2 "Updated cat/ot-changes to 2.0"
}

func c07OTHas(l []string, s string) bool {
	for _, x := range l {
		if x == s {
			return true
		}
	}
	return false
}

// c07OTTree writes the tree: the packages do not depend on the spec except for the list of ALL platform
// candidates of the pair (the same in both trees).
func c07OTTree(root string, spec c07OTSpec, cand []string, arch string, variant int) *Tree {
	t := NewBaseTree(root)
	for _, p := range spec.Platforms {
		t.Write("mk/platform/"+p+".mk", cvsID+"\n")
	}
	tools := []string{cvsID, ""}
	if spec.Tool {
		tools = append(tools, "TOOLS_CREATE+=\tc07xtool", "_TOOLS_VARNAME.c07xtool=\tC07XTOOL")
	}
	t.Write("mk/tools/defaults.mk", lines(tools...))
	if spec.License {
		t.Write("licenses/c07-license", "The C07 license\n")
	}
	sites := []string{cvsID, "", "MASTER_SITE_BACKUP=\thttp://backup.example.org/"}
	if spec.Site {
		sites = append(sites, "MASTER_SITE_C07+=\thttp://c07.example.org/pub/")
	}
	t.Write("mk/fetch/sites.mk", lines(sites...))
	conf := []string{cvsID, ""}
	if spec.UserVar {
		conf = append(conf, "C07_USER_SETTING?=\tyes")
	}
	t.Write("mk/defaults/mk.conf", lines(conf...))
	for _, l := range spec.Lang {
		t.Write("lang/"+l+"/Makefile", cvsID+"\n")
	}
	if spec.Compiler {
		t.Write("mk/compiler.mk", strings.Replace(t.Read("mk/compiler.mk"), "_COMPILERS=\tgcc clang", "_COMPILERS=\tgcc clang c07cc", 1))
	}
	if spec.OptDesc {
		t.Write("mk/defaults/options.description", "c07-option       Description of the C07 option\nexample-option   Description\n")
	}
	if spec.Todo {
		t.Write("doc/TODO", lines("$"+"NetBSD$", "", "Suggested package updates", "", "\to ot-changes-3.0 [security]"))
	}
	ch := []string{"$" + "NetBSD$", "", "Changes to the packages collection and infrastructure in 2018:", ""}
	switch spec.Changes {
	case 1:
		ch = append(ch, "\tAdded cat/ot-changes version 0.9 [user 2018-03-01]")
	case 2:
		ch = append(ch, "\tAdded cat/ot-changes version 0.9 [user 2018-03-01]", "\tUpdated cat/ot-changes to 2.0 [user 2018-04-01]")
	}
	t.Write("doc/CHANGES-2018", lines(ch...))

	// identical in both trees of a pair
	t.WritePackage("cat/ot-plist", nil)
	plist := []string{"@comment $" + "NetBSD$", "bin/program"}
	t.Write("cat/ot-plist/PLIST", lines(plist...))
	for i, p := range cand {
		path := fmt.Sprintf("bin/only-%s", strings.ToLower(p))
		if variant%2 == 1 {
			path = fmt.Sprintf("libexec/c07/%d/helper", i)
		}
		t.Write("cat/ot-plist/PLIST."+p, lines("@comment $"+"NetBSD$", path))
		t.Write("cat/ot-plist/PLIST."+p+"-"+arch, lines("@comment $"+"NetBSD$", path, path+"-"+arch))
	}
	t.WritePackage("cat/ot-tool", []string{"USE_TOOLS+=\tc07xtool", "", "do-build:", "\t${RUN} ${C07XTOOL} --version", "\t${RUN} c07xtool --help"})
	t.WritePackage("cat/ot-license", nil)
	mk := t.Read("cat/ot-license/Makefile")
	t.Write("cat/ot-license/Makefile", strings.Replace(mk, "LICENSE=\t2-clause-bsd", "LICENSE=\tc07-license", 1))
	t.WritePackage("cat/ot-site", nil)
	mk = t.Read("cat/ot-site/Makefile")
	mk = strings.Replace(mk, "MASTER_SITES=\t# none", "MASTER_SITES=\t${MASTER_SITE_C07:=ot-site/} http://c07.example.org/pub/more/", 1)
	t.Write("cat/ot-site/Makefile", mk)
	t.WritePackage("cat/ot-uservar", []string{"CONFIGURE_ARGS+=\t--with-setting=${C07_USER_SETTING}", ".if ${OPSYS} == " + cand[0] + " || ${OPSYS} == NetBSD", "CFLAGS+=\t-DC07", ".endif"})
	t.WritePackage("cat/ot-changes", nil)
	t.WritePackage("cat/ot-enum", []string{"PYTHON_VERSIONS_ACCEPTED=\t312 313 27", "LUA_VERSIONS_ACCEPTED=\t54 53", "", ".include \"../../mk/bsd.prefs.mk\"", "",
		".if ${PKGSRC_COMPILER} == c07cc || ${PKGSRC_COMPILER:Mclang}", "CFLAGS+=\t-DC07CC", ".endif"})
	t.Write("mk/bsd.options.mk", cvsID+"\n")
	t.WritePackage("cat/ot-option", []string{".include \"options.mk\""})
	t.Write("cat/ot-option/options.mk", lines(cvsID, "", "PKG_OPTIONS_VAR=\t\tPKG_OPTIONS.ot-option", "PKG_SUPPORTED_OPTIONS=\tc07-option example-option", "", ".include \"../../mk/bsd.options.mk\"", "",
		".if !empty(PKG_OPTIONS:Mc07-option)", "CONFIGURE_ARGS+=\t--enable-c07", ".endif", "", ".if !empty(PKG_OPTIONS:Mexample-option)", "CONFIGURE_ARGS+=\t--enable-example", ".endif"))
	t.Write("cat/Makefile", lines(cvsID, "", "COMMENT=\tComment for the category", "", "SUBDIR+=\tot-changes", "SUBDIR+=\tot-enum", "SUBDIR+=\tot-license", "SUBDIR+=\tot-option", "SUBDIR+=\tot-plist", "SUBDIR+=\tot-site",
		"SUBDIR+=\tot-tool", "SUBDIR+=\tot-uservar", "SUBDIR+=\tpkg", "", ".include \"../mk/misc/category.mk\""))
	t.Write("Makefile", lines(cvsID, "", "SUBDIR+=\tcat", ""))
	return t
}

var c07OTPkgs = []string{"ot-plist", "ot-tool", "ot-license", "ot-site", "ot-uservar", "ot-changes", "ot-enum", "ot-option"}

func c07OTCases(tree int, root string) []c07Case {
	cs := []c07Case{{Tree: tree, Root: root, Cwd: ".", Args: []string{"-Wall", "-Cglobal", "-r", "."}}}
	for _, p := range c07OTPkgs {
		cs = append(cs, c07Case{Tree: tree, Root: root, Cwd: ".", Args: []string{"-Wall", "-Cglobal", "cat/" + p}})
	}
	cs = append(cs, c07Case{Tree: tree, Root: root, Cwd: "cat/ot-plist", Args: []string{"-Wall", "--debug"}})
	return cs
}

var c07OTListed = regexp.MustCompile(`is already listed in PLIST\.`)

func c07OtherTreeStage(ctx *Ctx, res *Result, rng *Rng) {
	npairs := 16
	if ctx.Tier == "thorough" {
		npairs = 80
	}
	type pair struct {
		sa, sb         c07OTSpec
		cand           []string
		arch           string
		ra, rb         string
		ca, cb         []c07Case
		fa, fb         []c07Out
		ab, ba         []c07Out
		errAB, errBA   error
		unstable       bool
		platformDiffer bool
	}
	pairs := make([]*pair, npairs)
	for i := range pairs {
		p := &pair{arch: c07OTArchs[rng.Intn(len(c07OTArchs))]}
		perm := append([]string{}, c07OTPlatforms...)
		for k := len(perm) - 1; k > 0; k-- {
			j := rng.Intn(k + 1)
			perm[k], perm[j] = perm[j], perm[k]
		}
		p.cand = perm[:3]
		sort.Strings(p.cand)
		// cand[0]: platform only in A, cand[1]: only in B, cand[2]: in both or in none
		p.sa.Platforms = []string{p.cand[0]}
		p.sb.Platforms = []string{p.cand[1]}
		if rng.Intn(2) == 0 {
			p.sa.Platforms = append(p.sa.Platforms, p.cand[2])
			p.sb.Platforms = append(p.sb.Platforms, p.cand[2])
		}
		if i%4 == 3 { // pairs with the same platforms: the other inputs alone must be enough to tell the trees apart
			p.sb.Platforms = append([]string{}, p.sa.Platforms...)
		}
		p.platformDiffer = i%4 != 3
		// feature number f differs in the pairs with (i+f) even: exactly half of the pairs per feature, whatever the seed;
		// the seed decides the direction and, for the other half, whether both trees have it or none
		nf := 0
		flip := func() (bool, bool) {
			nf++
			r := rng.Intn(2) == 0
			if (i+nf)%2 == 0 {
				return r, !r
			}
			return r, r
		}
		p.sa.Tool, p.sb.Tool = flip()
		p.sa.License, p.sb.License = flip()
		p.sa.Site, p.sb.Site = flip()
		p.sa.UserVar, p.sb.UserVar = flip()
		p.sa.Changes, p.sb.Changes = rng.Intn(3), rng.Intn(3)
		p.sa.Compiler, p.sb.Compiler = flip()
		p.sa.OptDesc, p.sb.OptDesc = flip()
		p.sa.Todo, p.sb.Todo = flip()
		langs := []string{"python27", "python313", "lua53"}
		for _, l := range langs {
			inA, inB := flip()
			if inA {
				p.sa.Lang = append(p.sa.Lang, l)
			}
			if inB {
				p.sb.Lang = append(p.sb.Lang, l)
			}
		}
		if i%4 == 3 && p.sa.Tool == p.sb.Tool && p.sa.License == p.sb.License {
			p.sa.License, p.sb.License = true, false
		}
		p.ra = filepath.Join(ctx.Work, fmt.Sprintf("ot%da", i))
		p.rb = filepath.Join(ctx.Work, fmt.Sprintf("ot%db", i))
		pairs[i] = p
	}
	parallelFor(npairs, func(i int) {
		p := pairs[i]
		c07OTTree(p.ra, p.sa, p.cand, p.arch, i)
		c07OTTree(p.rb, p.sb, p.cand, p.arch, i)
		p.ca, p.cb = c07OTCases(2*i, p.ra), c07OTCases(2*i+1, p.rb)
		p.fa, p.fb = make([]c07Out, len(p.ca)), make([]c07Out, len(p.cb))
	})
	ncase := len(pairs[0].ca)
	parallelFor(npairs*ncase*2, func(j int) {
		p := pairs[j/(ncase*2)]
		k := j % (ncase * 2)
		if k < ncase {
			p.fa[k] = c07Fresh(ctx, p.ca[k], "ot")
			if again := c07Fresh(ctx, p.ca[k], "ot2"); !again.same(p.fa[k]) {
				p.unstable = true
			}
		} else {
			p.fb[k-ncase] = c07Fresh(ctx, p.cb[k-ncase], "ot")
			if again := c07Fresh(ctx, p.cb[k-ncase], "ot2"); !again.same(p.fb[k-ncase]) {
				p.unstable = true
			}
		}
	})
	res.Evaluations += npairs * ncase * 4
	// one process: case k of A, then case k of B (and the other way round), for all k, in one child per direction
	parallelFor(npairs*2, func(j int) {
		p := pairs[j/2]
		var steps []c07Case
		for k := 0; k < ncase; k++ {
			if j%2 == 0 {
				steps = append(steps, p.ca[k], p.cb[k])
			} else {
				steps = append(steps, p.cb[k], p.ca[k])
			}
		}
		if j%2 == 0 {
			p.ab, p.errAB = c07Seq(ctx, fmt.Sprintf("ot-%d-ab", j/2), steps)
		} else {
			p.ba, p.errBA = c07Seq(ctx, fmt.Sprintf("ot-%d-ba", j/2), steps)
		}
	})
	for i, p := range pairs {
		if p.unstable {
			res.Count("other-tree.pairs-unstable-in-fresh-processes", 1) // reported by the main stage's means if it is a real nondeterminism
			continue
		}
		if p.errAB != nil || p.errBA != nil {
			res.AddViolation(Violation{Key: "C07/inprocess/other-tree-before/crash",
				What:       fmt.Sprintf("the child process running tree A then tree B of pair %d died: %v %v", i, p.errAB, p.errBA),
				FoundInput: false, Size: 1,
				Replay: map[string]any{"kind": "other-tree-crash", "broken": "the child process running two trees one after the other died", "error": fmt.Sprint(p.errAB, p.errBA)}})
			continue
		}
		res.Count("other-tree.pairs", 1)
		differ := 0
		for k := 0; k < ncase; k++ {
			if !p.fa[k].same(p.fb[k]) {
				differ++
			}
		}
		if differ > 0 {
			res.Count("other-tree.pairs-A-B-outputs-differ", 1)
		}
		res.Count("other-tree.cases-A-B-outputs-differ", differ)
		if p.platformDiffer {
			res.Count("other-tree.pairs-platform-in-one-tree-only", 1)
		}
		na, nb := len(c07OTListed.FindAllString(p.fa[0].Stdout, -1)), len(c07OTListed.FindAllString(p.fb[0].Stdout, -1))
		res.Count("other-tree.already-listed-in-PLIST", na+nb)
		if p.platformDiffer && na > 0 && nb > 0 && (strings.Contains(p.fa[0].Stdout, "is already listed in PLIST."+p.cand[0]+":") && !strings.Contains(p.fb[0].Stdout, "is already listed in PLIST."+p.cand[0]+":")) {
			res.Count("other-tree.pairs-platform-dependent-PLIST-diagnostic", 1)
		}
		for _, kw := range [][2]string{{"license", "License file"}, {"tool", "Unknown tool"}, {"uservar", "C07_USER_SETTING"}, {"site", "MASTER_SITE_C07"}, {"changes", "ot-changes/"}, {"enum-dirs", "_VERSIONS_ACCEPTED"}, {"enum-compiler", "c07cc"}, {"option", "c07-option"}, {"todo", "doc/TODO"}} {
			if strings.Contains(p.fa[0].Stdout, kw[1]) != strings.Contains(p.fb[0].Stdout, kw[1]) ||
				strings.Count(p.fa[0].Stdout, kw[1]) != strings.Count(p.fb[0].Stdout, kw[1]) {
				res.Count("other-tree.pairs-differ-in."+kw[0], 1)
			}
		}
		for k := 0; k < ncase; k++ {
			res.Evaluations += 4
			res.TracesValidated += 4
			res.Count("other-tree.inprocess-runs", 4)
			// first runs of a child have no predecessor (k == 0) or the earlier cases of both trees
			type chk struct {
				got, want c07Out
				before    c07Case
				target    c07Case
				first     bool
			}
			for _, c := range []chk{
				{p.ab[2*k], p.fa[k], p.cb[k], p.ca[k], k == 0}, {p.ab[2*k+1], p.fb[k], p.ca[k], p.cb[k], false},
				{p.ba[2*k], p.fb[k], p.ca[k], p.cb[k], k == 0}, {p.ba[2*k+1], p.fa[k], p.cb[k], p.ca[k], false}} {
				if c.got.same(c.want) {
					continue
				}
				c07ReportOtherTree(ctx, res, c.before, c.target, c.got, c.want, c.first)
			}
		}
	}
	if len(res.Violations) == 0 {
		n := npairs
		for k, floor := range map[string]int{
			"other-tree.pairs-A-B-outputs-differ":                  n * 3 / 4,
			"other-tree.pairs-platform-in-one-tree-only":           n / 2,
			"other-tree.pairs-platform-dependent-PLIST-diagnostic": n / 2,
			"other-tree.already-listed-in-PLIST":                   n,
			"other-tree.pairs-differ-in.license":                   n / 4,
			"other-tree.pairs-differ-in.tool":                      n / 4,
			"other-tree.pairs-differ-in.enum-dirs":                 n / 4,
			"other-tree.pairs-differ-in.enum-compiler":             n / 4,
			"other-tree.pairs-differ-in.option":                    n / 4,
			"other-tree.pairs-differ-in.todo":                      n / 4,
			"other-tree.inprocess-runs":                            n * ncase * 3,
		} {
			if got, _ := res.Distribution[k].(int); got < floor {
				res.AddViolation(Violation{Key: "C07/correspondence/other-tree-floor/" + k,
					What:       fmt.Sprintf("coverage floor missed: %s = %d < %d", k, got, floor),
					FoundInput: false, Size: 1,
					Replay: map[string]any{"kind": "floor", "broken": "the other-tree-before stage no longer reaches " + k}})
			}
		}
	}
}

// c07ReportOtherTree: `target` run after `before` (another tree) in one process differs from its fresh-process run.
func c07ReportOtherTree(ctx *Ctx, res *Result, before, target c07Case, got, want c07Out, first bool) {
	// the shim alone must equal the binary
	if outs, err := c07Seq(ctx, "ot-alone", []c07Case{target}); err != nil || !outs[0].same(want) {
		res.AddViolation(Violation{Key: "C07/correspondence/shim-run/other-tree",
			What:       fmt.Sprintf("VerifRunMain alone differs from the binary for `pkglint %s`", strings.Join(target.Args, " ")),
			FoundInput: false, Size: 1,
			Replay: map[string]any{"kind": "shim", "broken": "shim VerifRunMain = cmd/pkglint main"}})
		return
	}
	repro := false
	if !first {
		if outs, err := c07Seq(ctx, "ot-again", []c07Case{before, target}); err == nil && !outs[1].same(want) {
			repro, got = true, outs[1]
		}
	}
	if repro {
		// shrink: when a single package is checked, the other ot-* packages of both trees are not needed
		if last := target.Args[len(target.Args)-1]; strings.HasPrefix(last, "cat/ot-") && target.Cwd == "." && before.Cwd == "." {
			sa, sb := before, target
			sa.Root, sb.Root = filepath.Join(ctx.Work, "ot-shrink-a"), filepath.Join(ctx.Work, "ot-shrink-b")
			os.RemoveAll(sa.Root)
			os.RemoveAll(sb.Root)
			if CopyTree(before.Root, sa.Root) == nil && CopyTree(target.Root, sb.Root) == nil {
				for _, p := range c07OTPkgs {
					if "cat/"+p != last {
						os.RemoveAll(filepath.Join(sa.Root, "cat", p))
						os.RemoveAll(filepath.Join(sb.Root, "cat", p))
					}
				}
				w2 := c07Fresh(ctx, sb, "shr")
				if outs, err := c07Seq(ctx, "ot-shrunk", []c07Case{sa, sb}); err == nil && w2.same(c07Fresh(ctx, sb, "shr2")) && !outs[1].same(w2) {
					before, target, want, got = sa, sb, w2, outs[1]
				}
			}
		}
	}
	key := "C07/inprocess/other-tree-before"
	if !repro {
		key = "C07/inprocess/other-tree-before-unstable"
	}
	res.AddViolation(Violation{
		Key: key,
		What: fmt.Sprintf("`pkglint %s` (cwd %s) on tree B prints something else when the same process has run `pkglint %s` on ANOTHER tree A before (same package paths; A and B differ only in tree-global files: mk/platform, mk/tools, licenses, doc/CHANGES, doc/TODO, sites, mk.conf, options.description, lang/*, mk/compiler.mk): %s",
			strings.Join(target.Args, " "), target.Cwd, strings.Join(before.Args, " "), c07Where(want, got)),
		FoundInput: repro,
		Size:       len(want.Stdout) + len(got.Stdout),
		Replay: map[string]any{"kind": "other-tree", "files_a": c07TreeFiles(before.Root), "files_b": c07TreeFiles(target.Root),
			"cwd_a": before.Cwd, "args_a": before.Args, "cwd_b": target.Cwd, "args_b": target.Args,
			"stdout_fresh": want.Stdout, "stdout_after_a": got.Stdout, "exit_fresh": want.Exit, "exit_after_a": got.Exit},
	})
}

func replayC07OtherTree(ctx *Ctx, rep map[string]any) *Result {
	res := &Result{Rule: "replay"}
	ra, rb := filepath.Join(ctx.Work, "replay-ot-a"), filepath.Join(ctx.Work, "replay-ot-b")
	fa, _ := rep["files_a"].(map[string]any)
	fb, _ := rep["files_b"].(map[string]any)
	if len(fa) == 0 || len(fb) == 0 {
		res.Broken = "replay file without trees"
		return res
	}
	c07WriteFiles(ra, fa)
	c07WriteFiles(rb, fb)
	cwdA, _ := rep["cwd_a"].(string)
	cwdB, _ := rep["cwd_b"].(string)
	before := c07Case{Tree: 0, Root: ra, Cwd: cwdA, Args: c07Strings(rep["args_a"])}
	target := c07Case{Tree: 1, Root: rb, Cwd: cwdB, Args: c07Strings(rep["args_b"])}
	want := c07Fresh(ctx, target, "want")
	outs, err := c07Seq(ctx, "replay-ot", []c07Case{before, target})
	if err != nil {
		res.Broken = err.Error()
		return res
	}
	res.Evaluations = 3
	if !outs[1].same(want) {
		c07ReportOtherTree(ctx, res, before, target, outs[1], want, false)
	}
	return res
}

// tool-c07ot: only the two stages of this file (development aid: `vharness run tool-c07ot ...`).
func init() {
	register("tool-c07ot", func(ctx *Ctx) *Result {
		res := &Result{}
		c07OtherTreeStage(ctx, res, NewRng(ctx.Seed^0x07e1))
		c07GlobalsAuditStage(ctx, res)
		return res
	}, nil)
}
