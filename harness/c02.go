package main

// C02: without --autofix nothing on disk changes; with it only reported files do.
//
// Whole runs only (the unit level is C03's script correspondence, which also
// checks "no write without --autofix" and "no stray directory entry"):
// every generated tree is run with several option sets that do not contain
// -F (the tree must be identical afterwards: entry set, type, mode, content)
// and finally with -F (the differing paths must be files named in AUTOFIX
// lines of that run, no *.pkglint.tmp, no new or removed entries).
// The static tie to the source (every call of a file-mutating primitive) is
// gen/c02.go, checked against audit/writesites.json in the proof stage.

import (
	"fmt"
	"os"
	"path/filepath"
	"sort"
	"strings"
	"sync"
	"time"
)

type c02Problem struct {
	Key  string
	What string
	File string
}

// c02Judge compares the tree before and after one run.
func c02Judge(root string, cfg wrConfig, before, after map[string]fileState, r RunResult) []c02Problem {
	var ps []c02Problem
	autofix := false
	for _, a := range cfg.Args {
		if a == "-F" || a == "--autofix" || (len(a) > 1 && a[0] == '-' && a[1] != '-' && strings.Contains(a, "F")) {
			autofix = true
		}
	}
	optclass := func() string {
		var os []string
		for _, a := range cfg.Args {
			if strings.HasPrefix(a, "-") {
				os = append(os, a)
			}
		}
		sort.Strings(os)
		return strings.Join(os, "")
	}
	named := map[string]bool{}
	chmodLogged := map[string]bool{}
	if autofix {
		logs, _ := groupAutofix(r.Stdout, root, filepath.Join(root, cfg.Cwd))
		for rel, fl := range logs {
			named[rel] = true
			for _, e := range fl.Entries {
				if e.Kind == 'C' {
					chmodLogged[rel] = true
				}
			}
		}
		// a printed path names the entry it leads to when directory links on the way are followed
		// (never a final link), c02_links.go
		c02NamedPhysical(before, root, named, chmodLogged)
		// every printed path must name, walked through the directories of the tree, the file that its
		// lexical reading names (gentree_c02.go)
		ps = append(ps, c02PrintedPaths(root, cfg, before, after, r.Stdout)...)
	}
	linkTargets := map[string]string{}
	if autofix {
		linkTargets = c02LinkTargetsOf(before, root)
	}
	for _, rel := range sortedKeys(after) {
		a := after[rel]
		b, ok := before[rel]
		switch {
		case !ok && strings.HasSuffix(rel, ".pkglint.tmp"):
			ps = append(ps, c02Problem{"C02/tmp-file-left", "temporary file left behind: " + rel, rel})
		case !ok:
			ps = append(ps, c02Problem{"C02/new-entry/" + fileClass(rel), "new directory entry after the run: " + rel, rel})
		case a == b:
		case autofix && strings.HasSuffix(rel, ".pkglint.tmp") && !named[rel]:
			ps = append(ps, c02TmpProblem(rel, b, &a))
		case !autofix:
			what := "content"
			if a.Data == b.Data && a.Kind == b.Kind {
				what = "mode"
			}
			ps = append(ps, c02Problem{"C02/changed-without-autofix/" + what + "/" + fileClass(rel),
				fmt.Sprintf("%s of %s changed in a run without --autofix (options %s)", what, rel, optclass()), rel})
		case autofix && linkTargets[rel] != "" && !named[rel]:
			// the target of a symbolic link: a line that names the link does not name it
			ps = append(ps, c02LinkTargetProblem(rel, linkTargets[rel], b, a))
		case a.Kind == "f" && b.Kind == "f" && a.Mode != b.Mode && !(chmodLogged[rel] && a.Mode == b.Mode&^0o111):
			// the save protocol gives the temporary file the mode of the original before the rename;
			// only "Clearing executable bits" may change a mode
			ps = append(ps, c02Problem{"C02/mode-not-preserved/" + fileClass(rel),
				fmt.Sprintf("mode of %s changed from %o to %o with --autofix although only its content was fixed", rel, b.Mode, a.Mode), rel})
		case !named[rel]:
			what := "content"
			if a.Data == b.Data && a.Kind == b.Kind {
				what = "mode"
			}
			ps = append(ps, c02Problem{"C02/unreported-change/" + what + "/" + fileClass(rel),
				fmt.Sprintf("%s of %s changed with --autofix but no AUTOFIX line names it", what, rel), rel})
		}
	}
	for _, rel := range sortedKeys(before) {
		if _, ok := after[rel]; !ok && autofix && strings.HasSuffix(rel, ".pkglint.tmp") {
			ps = append(ps, c02TmpProblem(rel, before[rel], nil))
		} else if !ok {
			ps = append(ps, c02Problem{"C02/entry-removed/" + fileClass(rel), "directory entry removed by the run: " + rel, rel})
		}
	}
	if autofix {
		// correspondence level: all command-line targets are symbolic links => no file operation
		ps = append(ps, c02ArgFollowed(root, cfg, before, after)...)
	}
	return ps
}

func c02RunOnce(ctx *Ctx, dir string, tree map[string]fileState, cfg wrConfig) ([]c02Problem, RunResult, error) {
	os.RemoveAll(dir)
	if err := writeTree(dir, tree); err != nil {
		return nil, RunResult{}, err
	}
	before := readTree(dir)
	r := RunPkglint(ctx, filepath.Join(dir, cfg.Cwd), 30*time.Second, cfg.Args...)
	after := readTree(dir)
	return c02Judge(dir, cfg, before, after, r), r, nil
}

func treeSize(t map[string]fileState) int {
	n := 0
	for _, st := range t {
		n += 1 + len(st.Data)
	}
	return n
}

func c02Has(ps []c02Problem, key string) *c02Problem {
	for i := range ps {
		if ps[i].Key == key {
			return &ps[i]
		}
	}
	return nil
}

func c02Report(ctx *Ctx, res *Result, tree map[string]fileState, cfg wrConfig, p c02Problem, budget int) {
	if p.Key == c02KeyArgFollowed {
		// not a failing input of the property by its letter (the printed paths name the changed files through
		// the directory link); the implementation left the model: Check must refuse a symbolic link
		res.AddViolation(Violation{Key: p.Key, What: p.What + "; " + cfg.String(), FoundInput: false,
			Replay: map[string]any{"broken": c02ArgFollowedBroken, "config": cfg.String(), "file": p.File}})
		return
	}
	dir := filepath.Join(ctx.Work, "c02shrink")
	small := tree
	if budget > 0 {
		small = shrinkTree(tree, cfg.Cwd, p.File, budget, func(cand map[string]fileState) bool {
			ps, _, err := c02RunOnce(ctx, dir, cand, cfg)
			return err == nil && c02Has(ps, p.Key) != nil
		})
	}
	ps, r, err := c02RunOnce(ctx, dir, small, cfg)
	pp := c02Has(ps, p.Key)
	if err != nil || pp == nil {
		small = tree
		ps, r, err = c02RunOnce(ctx, dir, small, cfg)
		pp = c02Has(ps, p.Key)
	}
	if err != nil || pp == nil {
		res.AddViolation(Violation{Key: p.Key + "/not-reproducible", What: p.What + " (seen once, not reproduced on a second run)", FoundInput: false,
			Replay: map[string]any{"broken": "whole-run observation not reproducible", "config": cfg.String()}})
		return
	}
	size := 0
	for _, st := range small {
		size += 1 + len(st.Data)
	}
	res.AddViolation(Violation{Key: p.Key, What: pp.What + "; " + cfg.String(), FoundInput: true, Size: size,
		Replay: map[string]any{"kind": "tree", "tree": encodeTree(small), "cwd": cfg.Cwd, "args": cfg.Args, "file": pp.File, "stdout": firstLines(r.Stdout, 40)}})
}

var c02PlainOpts = [][]string{{}, {"-f"}, {"-s"}, {"-e"}, {"-g"}, {"-q"}, {"-Wall", "-Call"}, {"-f", "-s"}, {"-f", "-e"}, {"-s", "-e", "-g"}, {"-Wall", "-f", "-s", "-q"},
	// round 5: "whatever other options are used" -- the remaining argument-less options
	{"-p"}, {"-p", "-s"}, {"-d"}, {"-I", "-Wall"}}

func c02Targets(rng *Rng, g *GenTree, args []string) wrConfig { return pickTargets(rng, g, args) }

func runC02(ctx *Ctx) *Result {
	res := &Result{Rule: "one case = one run of the real binary on a generated tree with one option set; per tree 3 option sets without -F (drawn from {default,-f,-s,-e,-g,-q,-Wall -Call and combinations} x {--only p} x targets {-r ., packages, package as cwd, category, single files and directories, repeated targets, non-clean spellings}), then one with -F --only p (p drawn uniformly over the diagnostic kinds with a fix that the tree triggers) and one with -F; non-trivial = a run in which at least one fix site fired (an AUTOFIX line was printed, or in default mode a -f run of the same tree prints one); each run is judged by comparing full snapshots (entry set, type, mode, content) before and after"}
	rng := NewRng(ctx.Seed)
	ntrees := 260
	if ctx.Tier == "thorough" {
		ntrees = 5000
	}
	type runRec struct {
		cfg  wrConfig
		tree map[string]fileState
		ps   []c02Problem
		r    RunResult
		fix  bool
		isF  bool
		// c02_links.go: command-line targets that are symbolic links / all targets; links replaced by regular files
		linkArgs, allArgs, replaced int
	}
	recs := make([][]runRec, ntrees)
	seeds := make([]*Rng, ntrees)
	for i := range seeds {
		seeds[i] = rng.Fork()
	}
	feats := map[string]int{}
	var featMu sync.Mutex
	parallelFor(ntrees, func(i int) {
		r := seeds[i]
		root := filepath.Join(ctx.Work, fmt.Sprintf("c%d", i))
		g := GenerateTreeC03(r, root, GenOpts{Packages: 1 + i%3, Hostile: i%7 == 6, Rich: i%9 == 8, Density: 25 + 10*(i%4)})
		// C02 only: include chains through sibling directories (raw path != printed path), gentree_c02.go
		addIncludeChainsC02(r.Fork(), g)
		probe := RunPkglint(ctx, root, 30*time.Second, "-Wall", "-f", "-r", ".")
		byKind := onlyPatternsByKind(probe.Stdout)
		hasFix := strings.Contains(probe.Stdout, "AUTOFIX") || strings.Contains(probe.Stdout, "autofix:")
		var sets [][]string
		for k := 0; k < 3; k++ {
			o := append([]string{}, Pick(r, c02PlainOpts)...)
			if p, ok := pickOnly(r, byKind); ok && r.Chance(30) {
				o = append(o, "--only", p)
			}
			sets = append(sets, o)
		}
		// first a filtered -F run (a fix selected by --only may have a silent follow-up fix in
		// another file), then an unfiltered one on what is left
		if p, ok := pickOnly(r, byKind); ok {
			fo := []string{"-F"}
			if r.Chance(40) {
				fo = append(fo, Pick(r, c02PlainOpts)...)
			}
			fo = append(fo, "--only", p)
			if r.Chance(20) {
				q, _ := pickOnly(r, byKind)
				fo = append(fo, "--only", q)
			}
			sets = append(sets, fo)
		}
		fo := []string{"-F"}
		if r.Chance(50) {
			fo = append(fo, Pick(r, c02PlainOpts)...)
		}
		sets = append(sets, fo)
		specs := make([]c02Spec, 0, len(sets)+8)
		for _, o := range sets {
			specs = append(specs, c02Spec{o: o})
		}
		if i%c02LinkEvery == c02LinkEvery-1 {
			// every fourth tree: symbolic links in the tree and on the command line (own Rng), c02_links.go
			lr := c02LinkRng(ctx.Seed, i)
			specs = c02LinkSpecs(lr, c02PlantLinks(lr, g, root, probe.Stdout), specs)
		}
		planted := false
		for _, spec := range specs {
			o := spec.o
			if len(o) > 0 && o[0] == "-F" && !planted && i%4 == 1 {
				// every fourth tree: entries of every kind at <file>.pkglint.tmp for files that are going to be fixed
				planted = true
				ks := c02PlantTmps(r, root, probe.Stdout)
				featMu.Lock()
				for _, k := range ks {
					feats["c02.preexisting-tmp."+k]++
				}
				featMu.Unlock()
			}
			var cfg wrConfig
			if spec.cfg != nil {
				cfg = *spec.cfg
			} else {
				cfg = c02Targets(r, g, o)
				if len(o) > 1 && o[0] == "-F" && o[len(o)-2] == "--only" && r.Chance(60) {
					// the filtered --autofix run mostly sees the whole tree
					cfg = wrConfig{Cwd: ".", Args: append(append([]string{}, o...), "-r", ".")}
				}
			}
			before := readTree(root)
			run := RunPkglint(ctx, filepath.Join(root, cfg.Cwd), 30*time.Second, cfg.Args...)
			after := readTree(root)
			ps := c02Judge(root, cfg, before, after, run)
			isF := len(o) > 0 && o[0] == "-F"
			fired := isF && (strings.Contains(run.Stdout, "AUTOFIX: ") || strings.Contains(run.Stdout, ": autofix: "))
			la, aa := c02LinkArgs(before, root, cfg)
			recs[i] = append(recs[i], runRec{cfg: cfg, tree: before, ps: ps, r: run, isF: isF, fix: (!isF && hasFix) || fired,
				linkArgs: la, allArgs: aa, replaced: c02ReplacedLinks(before, after)})
		}
		featMu.Lock()
		for k, v := range g.Features {
			if strings.HasPrefix(k, "c03.") || strings.HasPrefix(k, "c02.") {
				feats[k] += v
			}
		}
		featMu.Unlock()
		os.RemoveAll(root)
	})
	for k, v := range feats {
		res.Count("feature."+k, v)
	}
	type pending struct {
		tree map[string]fileState
		cfg  wrConfig
		p    c02Problem
		size int
	}
	worst := map[string]pending{}
	chmods, changedF, nontrivial, abnormal := 0, 0, 0, 0
	pathDotdot, pathTwoUp, pathUpDownUp := 0, 0, 0
	linkArgRuns, replacedRuns := 0, 0
	for _, rr := range recs {
		for _, rec := range rr {
			res.Evaluations++
			res.TracesValidated++
			if rec.fix {
				nontrivial++
			}
			if rec.r.TimedOut || (rec.r.Exit != 0 && rec.r.Exit != 1) {
				abnormal++
			}
			if rec.isF {
				res.Count("runs_with_-F", 1)
				if strings.Contains(rec.r.Stdout, "Clearing executable bits") {
					chmods++
				}
				if strings.Contains(rec.r.Stdout, "AUTOFIX: ") || strings.Contains(rec.r.Stdout, ": autofix: ") {
					changedF++
				}
				if strings.Contains(rec.r.Stderr, ".pkglint.tmp: Cannot write: ") {
					res.Count("runs_-F_with_refused_save", 1)
				}
				if rec.linkArgs > 0 {
					linkArgRuns++
					res.Count("c02.links.runs_-F_with_link_argument", 1)
					if rec.linkArgs == rec.allArgs {
						res.Count("c02.links.runs_-F_all_arguments_links", 1)
					}
				}
				if rec.replaced > 0 {
					replacedRuns++
					res.Count("c02.links.runs_-F_link_replaced_by_regular_file", 1)
				}
				dd, tu, udu := c02PathShape(rec.r.Stdout)
				if dd {
					pathDotdot++
				}
				if tu {
					pathTwoUp++
				}
				if udu {
					pathUpDownUp++
				}
			} else {
				res.Count("runs_without_-F", 1)
				if rec.linkArgs > 0 {
					res.Count("c02.links.runs_without_-F_with_link_argument", 1)
				}
			}
			for k, a := range rec.cfg.Args {
				if strings.HasPrefix(a, "-") {
					res.Count("opt."+a, 1)
				}
				if a == "--only" && rec.isF && k+1 < len(rec.cfg.Args) {
					res.Count("only_with_-F."+rec.cfg.Args[k+1], 1)
				}
			}
			if len(res.Samples) < 5 && rec.fix {
				res.Sample(map[string]any{"run": rec.cfg.String(), "exit": rec.r.Exit, "problems": len(rec.ps)})
			}
			for _, p := range rec.ps {
				sz := treeSize(rec.tree)
				if old, ok := worst[p.Key]; !ok || sz < old.size {
					worst[p.Key] = pending{rec.tree, rec.cfg, p, sz}
				}
			}
		}
	}
	// one report (and one shrinking) per kind of problem, on the smallest tree that showed it
	for i, k := range sortedKeys(worst) {
		w := worst[k]
		budget := 100
		if i >= 6 {
			budget = 0
		}
		c02Report(ctx, res, w.tree, w.cfg, w.p, budget)
	}
	res.DistinctNontrivial = nontrivial
	res.Count("runs_-F_with_autofix_lines", changedF)
	res.Count("runs_-F_with_chmod_fix", chmods)
	res.Count("runs_abnormal_exit", abnormal)
	res.Count("runs_-F_autofix_path_with_dotdot", pathDotdot)
	res.Count("runs_-F_autofix_path_with_two_up", pathTwoUp)
	res.Count("runs_-F_autofix_path_up_down_up", pathUpDownUp)
	if need := c02PathFloor(ctx.Tier); pathDotdot < need || pathTwoUp < need || pathUpDownUp < need {
		// not res.Broken: a change of the program that makes these paths vanish from the output (or keeps
		// the included files from being fixed) must not pass as "check broken"
		res.AddViolation(Violation{Key: "C02/coverage-lost/autofix-paths-through-parent-directories",
			What:       fmt.Sprintf("the -F runs no longer print AUTOFIX lines for files reached through parent directories: %d runs with '..' in a printed path, %d with '../..', %d with '../name/..' (need %d each); the generated include chains through sibling directories (gentree_c02.go) are not fixed or not printed with their path any more", pathDotdot, pathTwoUp, pathUpDownUp, need),
			FoundInput: false,
			Replay:     map[string]any{"broken": "coverage of the printed-path/written-path correspondence: include chains through sibling directories", "with_dotdot": pathDotdot, "with_two_up": pathTwoUp, "up_down_up": pathUpDownUp, "need": need}})
	}
	if need := c02LinkFloor(ntrees); len(res.Violations) == 0 && (linkArgRuns < need || replacedRuns < 1) {
		// again not res.Broken: a program change that keeps links from being reached must not pass as "check broken"
		res.AddViolation(Violation{Key: "C02/coverage-lost/symbolic-links", FoundInput: false,
			What:   fmt.Sprintf("only %d --autofix runs had a symbolic link among their command-line targets (need %d) and only %d replaced a symbolically linked Makefile by a regular file (need 1), although every fourth tree contains such links (c02_links.go)", linkArgRuns, need, replacedRuns),
			Replay: map[string]any{"broken": "coverage of symbolic links: links as command-line targets, saves over a link", "link_argument_runs": linkArgRuns, "replaced": replacedRuns, "need": need}})
	}
	res.Exhaustive = false
	if refused, _ := res.Distribution["runs_-F_with_refused_save"].(int); len(res.Violations) == 0 && refused < ntrees/40 {
		// an assertion about the implementation, not about the machinery: with an entry at F.pkglint.tmp the save of F
		// must be refused with an ERROR line; if that is no longer observed the tie to the model's e_tmp_exists branch is gone
		res.AddViolation(Violation{Key: "C02/correspondence/refused-save-not-observed", FoundInput: false,
			What:   fmt.Sprintf("only %d --autofix runs reported \"<file>.pkglint.tmp: Cannot write\" although entries of that name were planted in every fourth tree (need %d)", refused, ntrees/40),
			Replay: map[string]any{"broken": "correspondence: exclusive create of the temporary file refused (Model.Autofix.save_file, e_tmp_exists)"}})
	}
	if len(res.Violations) == 0 && (chmods < 3 || changedF < ntrees/2 || nontrivial < ntrees) {
		res.Broken = fmt.Sprintf("whole-run generator lost its coverage: %d -F runs with the chmod fix (need 3), %d -F runs with AUTOFIX lines (need %d), %d non-trivial runs", chmods, changedF, ntrees/2, nontrivial)
	}
	return res
}

func replayC02(ctx *Ctx, rep map[string]any) *Result {
	res := &Result{Rule: "replay"}
	tree := decodeTree(rep["tree"])
	cfg := wrConfig{}
	cfg.Cwd, _ = rep["cwd"].(string)
	if as, ok := rep["args"].([]any); ok {
		for _, a := range as {
			s, _ := a.(string)
			cfg.Args = append(cfg.Args, s)
		}
	}
	ps, _, err := c02RunOnce(ctx, filepath.Join(ctx.Work, "replay"), tree, cfg)
	if err != nil {
		res.Broken = err.Error()
		return res
	}
	res.Evaluations = 1
	for _, p := range ps {
		c02Report(ctx, res, tree, cfg, p, 0)
	}
	return res
}

func init() { register("C02", runC02, replayC02) }
