package main

import (
	"fmt"
	"strings"
)

// C17, path-labelled ("spelled") programs.
//
// RedundantScope keeps the include path as a stack of file NAMES
// (mkline.Filename()) and compares them as strings.  The loader hands it the
// lines of an included file under the name  dir(including file) + "/" + path as
// written.  This layer feeds the real code lines whose names spell the same
// files in different ways and checks
//
//	S1  RedundantScope.Check = Model/RedundantPaths.check_spelled (names compared
//	    as strings), verdict sets equal, both panic or none           (c17Judge)
//	S2  the property itself on every verdict (extracted evaluator)     (c17Judge)
//	S3  for a program in which every file has ONE spelling (one_spelling_b, what
//	    the loader guarantees): the verdicts of the real code are the verdicts of
//	    the same program with canonical names (C17_verdict_spelling_independent,
//	    re-executed on the real code) and those of check_denoted
//	S4  the same file spelled in two ways is two files for the code and for
//	    check_spelled; check_denoted may differ there (counted, not an error)

const c17SpellCwd = "/r"
const c17SpellDir = "cat/pa"

var c17Canonical = [3]string{"Makefile", "inc.mk", "inc2.mk"}

// how a file of the package directory cat/pa can be written in an .include line
// of cat/pa/Makefile; BASE is replaced by the file's name
var c17Spellings = []string{
	"BASE", "./BASE", "../../cat/pa/BASE", "../pa/BASE", "../../cat/../cat/pa/BASE",
	".//BASE", "../pa/./BASE", "../../cat/pa/../pa/BASE",
}

func c17SpellPath(spelling string, file int) string {
	// Package.loadIncluded: dirname.JoinNoClean(includedFile)
	return c17SpellDir + "/" + strings.ReplaceAll(spelling, "BASE", c17Canonical[file])
}

// the program with every file under its canonical name
func c17CanonicalProg(p c17Prog) c17Prog {
	q := make(c17Prog, len(p))
	copy(q, p)
	for i := range q {
		q[i].Path = c17SpellDir + "/" + c17Canonical[q[i].File]
	}
	return q
}

// c17RandomSpelledProgram: a random program with one included block, often a
// second one (the same file again, spelled the same or differently, or another
// file), every file under a randomly chosen spelling; a few programs change
// the spelling in the middle of a file.
func c17RandomSpelledProgram(rng *Rng) c17Prog {
	var p c17Prog
	for {
		p = c17RandomProgram(rng)
		if p.hasInclude() {
			break
		}
	}
	nMain := 0
	for _, l := range p {
		if l.File == 0 {
			nMain++
		}
	}
	sp := [3]string{"BASE", Pick(rng, c17Spellings), Pick(rng, c17Spellings)}
	f2, sp2 := -1, ""
	if rng.Chance(45) {
		// a second included block; its first line is a comment with line number 1,
		// the others are numbered from 21 on, so that (denoted file, line number)
		// identifies a line even when the block is the first file once more
		f2 = 1 + rng.Intn(2)
		sp2 = sp[f2]
		if f2 == 1 && rng.Chance(60) {
			sp2 = Pick(rng, c17Spellings)
		}
		nMain++
		p = append(p, c17Line{File: 0, Lineno: nMain, Raw: `.include "` + strings.ReplaceAll(sp2, "BASE", c17Canonical[f2]) + `"`})
		p = append(p, c17Line{File: f2, Lineno: 1, Raw: "# second block", Path: "?"})
		blk := c17RandomLines(rng, 3, 1+rng.Intn(3), true)
		for k, l := range blk {
			l.File, l.Lineno, l.Path = f2, 21+k, "?"
			p = append(p, l)
		}
		for _, l := range c17RandomLines(rng, 3, rng.Intn(3), true) {
			nMain++
			l.File, l.Lineno = 0, nMain
			p = append(p, l)
		}
	}
	second := false
	for i := range p {
		l := &p[i]
		switch {
		case l.Path == "?":
			l.Path = c17SpellPath(sp2, l.File)
			second = true
		case second && l.File != 0:
			l.Path = c17SpellPath(sp2, l.File)
		default:
			l.Path = c17SpellPath(sp[l.File], l.File)
		}
	}
	if rng.Chance(6) {
		// the spelling changes in the middle of a file: popUntil does not find the name
		f := rng.Intn(2)
		other := Pick(rng, c17Spellings[1:])
		seen := 0
		for i := range p {
			if p[i].File == f {
				seen++
				if seen > 1 {
					p[i].Path = c17SpellPath(other, f)
				}
			}
		}
	}
	return p
}

func c17VerdictStrings(vs []c17Verdict) []string {
	out := make([]string, len(vs))
	for i, v := range vs {
		out[i] = v.String()
	}
	return out
}

// c17SpelledExtra: S3 and S4 for a batch of spelled programs.  Not reentrant
// (runs the shim).
func c17SpelledExtra(ctx *Ctx, res *Result, progs []c17Prog) {
	if len(progs) == 0 {
		return
	}
	reqs := make([]string, len(progs))
	for i, p := range progs {
		reqs[i] = fmt.Sprintf("chkd %s %d %s", hx(c17SpellCwd), p.fuel(), p.words())
	}
	ans, err := runOracle(ctx, "c17", reqs)
	if err != nil {
		res.mu.Lock()
		res.Broken = err.Error()
		res.mu.Unlock()
		return
	}
	for i, p := range progs {
		fs := strings.Fields(ans[i])
		if len(fs) < 2 || (fs[0] != "ok" && fs[0] != "panic") {
			res.mu.Lock()
			res.Broken = "oracle answer " + q(ans[i])
			res.mu.Unlock()
			return
		}
		one := fs[len(fs)-1] == "one1"
		denPanic := fs[0] == "panic"
		var den []c17Verdict
		for _, f := range fs[1 : len(fs)-1] {
			var a, b int
			var k byte
			if _, err := fmt.Sscanf(f, "%d:%d:%c", &a, &b, &k); err != nil {
				res.mu.Lock()
				res.Broken = "oracle verdict " + q(f)
				res.mu.Unlock()
				return
			}
			den = append(den, c17Verdict{a, b, k})
		}
		c17SortVerdicts(den)
		impl := c17RunShim(p)
		same := func(a, b []c17Verdict) bool {
			if len(a) != len(b) {
				return false
			}
			for i := range a {
				if a[i] != b[i] {
					return false
				}
			}
			return true
		}
		agreesDen := (impl.panicked != "") == denPanic && (denPanic || same(impl.verdicts, den))
		if !one {
			res.Count("spelled_file_spelled_in_two_ways", 1)
			if !agreesDen {
				res.Count("spelled_two_ways_differs_from_denoted", 1)
			}
			continue
		}
		res.Count("spelled_one_spelling", 1)
		nonCanonical := false
		for _, l := range p {
			if l.Path != c17SpellDir+"/"+c17Canonical[l.File] {
				nonCanonical = true
			}
		}
		if nonCanonical {
			res.Count("spelled_one_spelling_non_canonical", 1)
		}
		if len(impl.verdicts) > 0 && nonCanonical {
			res.Count("spelled_one_spelling_non_canonical_with_verdicts", 1)
		}
		canon := c17RunShim(c17CanonicalProg(p))
		c := c17Case{prog: p, impl: impl, src: "spelled"}
		if (impl.panicked != "") != (canon.panicked != "") || !same(impl.verdicts, canon.verdicts) {
			res.AddViolation(Violation{
				Key: "C17/spelling-dependent-verdict",
				What: fmt.Sprintf("RedundantScope gives other verdicts when the files are named differently (every file has one name in both): as spelled [%s] panic=%q, under the canonical names [%s] panic=%q, on { %s }",
					strings.Join(c17VerdictStrings(impl.verdicts), " "), impl.panicked,
					strings.Join(c17VerdictStrings(canon.verdicts), " "), canon.panicked, p.String()),
				FoundInput: true, Size: c17Size(p),
				Replay: c17ReplayLayer(c, "spelled", map[string]any{"as_spelled": c17VerdictStrings(impl.verdicts), "canonical": c17VerdictStrings(canon.verdicts)}),
			})
		}
		if !agreesDen {
			res.AddViolation(Violation{
				Key: "C17/correspondence/verdicts-denoted",
				What: fmt.Sprintf("every file has one spelling, yet the code [%s] panic=%q and check_denoted [%s] panic=%v differ on { %s }",
					strings.Join(c17VerdictStrings(impl.verdicts), " "), impl.panicked, strings.Join(c17VerdictStrings(den), " "), denPanic, p.String()),
				FoundInput: false, Size: c17Size(p),
				Replay: c17ReplayLayer(c, "spelled", map[string]any{"broken": "correspondence RedundantScope.Check = check_denoted under one_spelling"}),
			})
		}
	}
}

// ---------- Coq literals for the extraction cross-check ----------

func c17CoqPProgram(p c17Prog) string {
	opName := map[string]string{"=": "OpAssign", "!=": "OpShell", ":=": "OpEval", "+=": "OpAppend", "?=": "OpDefault"}
	ls := make([]string, len(p))
	for i, l := range p {
		body := "None"
		if l.Assign {
			cs := make([]string, len(l.Val))
			for k, c := range l.Val {
				if c.Ref {
					cs[k] = "Ref " + c17CoqBytes(c.S)
				} else {
					cs[k] = "Lit " + c17CoqBytes(c.S)
				}
			}
			body = fmt.Sprintf("(Some (mkAssign %s %s [%s]))", c17CoqBytes(l.Var), opName[l.Op], strings.Join(cs, "; "))
		}
		ls[i] = fmt.Sprintf("mkPLine %s %d %s", c17CoqBytes(l.Path), l.Lineno, body)
	}
	return "[" + strings.Join(ls, ";\n   ") + "]"
}

// a cprogram literal: (inside a conditional section, line)
func c17CoqCProgram(p c17Prog) string {
	plain := c17CoqProgram(p) // "[mkLine ..;\n   mkLine ..]"
	items := strings.Split(strings.TrimSuffix(strings.TrimPrefix(plain, "["), "]"), ";\n   ")
	if len(p) == 0 {
		return "[]"
	}
	for i := range items {
		items[i] = fmt.Sprintf("(%v, %s)", p[i].Cond, items[i])
	}
	return "[" + strings.Join(items, ";\n   ") + "]"
}

func c17CoqVerdictList(fields []string) string {
	var vs []string
	for _, f := range fields {
		ps := strings.Split(f, ":")
		if len(ps) < 3 {
			continue
		}
		kind := map[string]string{"R": "KRedundant", "N": "KNoEffect", "O": "KOverwritten"}[ps[2]]
		vs = append(vs, fmt.Sprintf("mkVerdict %s %s %s", ps[0], ps[1], kind))
	}
	return "[" + strings.Join(vs, "; ") + "]"
}

// the requests about included fragments that the tree layer puts to the oracle
type c17AloneReq struct {
	pkgdir, fragdir, fragbase string
	incs                      [][2]string // directory of the including file, path as written (resolved)
}

func (r c17AloneReq) request() string {
	ws := []string{"alone", hx(c17SpellCwd), hx(r.pkgdir), hx(r.fragdir), hx(r.fragbase)}
	for _, i := range r.incs {
		ws = append(ws, hx(i[0])+"="+hx(i[1]))
	}
	return strings.Join(ws, " ")
}

func (r c17AloneReq) coq() string {
	is := make([]string, len(r.incs))
	for k, i := range r.incs {
		is[k] = "(" + c17CoqBytes(i[0]) + ", " + c17CoqBytes(i[1]) + ")"
	}
	return fmt.Sprintf("analysed_alone %s %s %s %s [%s]", c17CoqBytes(c17SpellCwd), c17CoqBytes(r.pkgdir), c17CoqBytes(r.fragdir), c17CoqBytes(r.fragbase), strings.Join(is, "; "))
}

// c17CrossCheckSpelled appends to the coqc file: check_spelled, check_denoted,
// one_spelling_b on sampled spelled programs, analysed_alone on sampled requests.
func c17CrossCheckSpelled(ctx *Ctx, res *Result, sb *strings.Builder) int {
	rng := NewRng(ctx.Seed ^ 0x5be11)
	var progs []c17Prog
	for len(progs) < 16 {
		progs = append(progs, c17RandomSpelledProgram(rng))
	}
	var reqs []string
	for _, p := range progs {
		reqs = append(reqs, fmt.Sprintf("chkp %d %s", p.fuel(), p.words()))
		reqs = append(reqs, fmt.Sprintf("chkd %s %d %s", hx(c17SpellCwd), p.fuel(), p.words()))
	}
	var alone []c17AloneReq
	for _, sc := range c17FixedScenarios() {
		for _, pk := range sc.Pkgs {
			alone = append(alone, c17TreeAloneReq(sc, pk))
		}
		if len(alone) >= 40 {
			break
		}
	}
	for _, a := range alone {
		reqs = append(reqs, a.request())
	}
	var conds []c17Prog
	scratch := &Result{}
	for len(conds) < 12 {
		conds = append(conds, c17RandomCondProgram(rng, scratch))
	}
	for _, p := range conds {
		reqs = append(reqs, fmt.Sprintf("chkc %d %s", p.fuel(), p.words()))
	}
	ans, err := runOracle(ctx, "c17", reqs)
	if err != nil {
		res.Broken = err.Error()
		return 0
	}
	n := 0
	for i, p := range conds {
		a := strings.Fields(ans[2*len(progs)+len(alone)+i])
		fmt.Fprintf(sb, "Definition cp%d : cprogram :=\n  %s.\n", i, c17CoqCProgram(p))
		if len(a) > 0 && a[0] == "panic" {
			fmt.Fprintf(sb, "Goal check_c cp%d = Panic. Proof. vm_compute. reflexivity. Qed.\n", i)
		} else {
			fmt.Fprintf(sb, "Goal check_c cp%d = Ok %s. Proof. vm_compute. reflexivity. Qed.\n", i, c17CoqVerdictList(a[1:]))
		}
		n++
	}
	for i, p := range progs {
		fmt.Fprintf(sb, "Definition pp%d : pprogram :=\n  %s.\n", i, c17CoqPProgram(p))
		a := strings.Fields(ans[2*i])
		if len(a) > 0 && a[0] == "panic" {
			fmt.Fprintf(sb, "Goal check_spelled pp%d = Panic. Proof. vm_compute. reflexivity. Qed.\n", i)
		} else {
			fmt.Fprintf(sb, "Goal check_spelled pp%d = Ok %s. Proof. vm_compute. reflexivity. Qed.\n", i, c17CoqVerdictList(a[1:]))
		}
		d := strings.Fields(ans[2*i+1])
		one := d[len(d)-1] == "one1"
		if d[0] == "panic" {
			fmt.Fprintf(sb, "Goal check_denoted %s pp%d = Panic. Proof. vm_compute. reflexivity. Qed.\n", c17CoqBytes(c17SpellCwd), i)
		} else {
			fmt.Fprintf(sb, "Goal check_denoted %s pp%d = Ok %s. Proof. vm_compute. reflexivity. Qed.\n", c17CoqBytes(c17SpellCwd), i, c17CoqVerdictList(d[1:len(d)-1]))
		}
		fmt.Fprintf(sb, "Goal one_spelling_b %s pp%d = %v. Proof. vm_compute. reflexivity. Qed.\n", c17CoqBytes(c17SpellCwd), i, one)
		n += 3
	}
	for k, a := range alone {
		fmt.Fprintf(sb, "Goal %s = %v. Proof. vm_compute. reflexivity. Qed.\n", a.coq(), ans[2*len(progs)+k] == "1")
		n++
	}
	return n
}

// ---------- conditional sections ----------

// c17RandomCondProgram wraps one or two runs of lines of a random program
// (within one file) into ".if 1" ... ".endif"; the lines in between are inside a
// conditional section (Cond).  The condition mentions no variable: a condition
// that does is a read of that variable, which is outside Model/RedundantCond.v.
// For make ".if 1" is always taken, so the evaluator reads the same lines.
func c17RandomCondProgram(rng *Rng, res *Result) c17Prog {
	p := c17RandomProgram(rng)
	var out c17Prog
	open := -1 // file of the open section
	nCond, plainAfter := 0, false
	condVars := map[string]bool{}
	for i := 0; i < len(p); i++ {
		l := p[i]
		if open >= 0 && (l.File != open || rng.Chance(35)) {
			out = append(out, c17Line{File: open, Raw: ".endif"})
			open = -1
		}
		if open < 0 && rng.Chance(22) && !strings.HasPrefix(l.Raw, ".include") {
			out = append(out, c17Line{File: l.File, Raw: Pick(rng, []string{".if 1", ".if 1 == 1", ".if 1 # always"})})
			open = l.File
		}
		if open >= 0 {
			l.Cond = true
			if l.Assign {
				nCond++
				condVars[l.Var] = true
			}
		} else if l.Assign && condVars[l.Var] {
			plainAfter = true
		}
		out = append(out, l)
		// an .include line inside a section would put the whole included block into it
		if open >= 0 && i+1 < len(p) && p[i+1].File != l.File {
			out = append(out, c17Line{File: open, Raw: ".endif"})
			open = -1
		}
	}
	if open >= 0 {
		out = append(out, c17Line{File: open, Raw: ".endif"})
	}
	res.Count("cond_lines_conditional_assignments", nCond)
	if plainAfter {
		res.Count("cond_programs_with_later_plain_write", 1)
	}
	return c17Number(out)
}
