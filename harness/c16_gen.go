package main

// Generator features of C16 only (round 4):
//
//  c16.plist-man-N      a PLIST with N in 0..12 compressed manual pages
//                       (man/manS/*.S.gz, man/catS/*.0.gz), some of them below a
//                       ${PLIST.x} condition, some written with ${PKGMANDIR}, mixed
//                       with @comment lines: "one pass fixes all instances of a kind"
//  c16.common-first-*   a Makefile.common of one package that 1-2 packages from
//                       other directories include; its first paragraph is
//                       comment-only / the CVS Id directly followed by assignments /
//                       empty (the file starts with an empty line) / the id alone;
//                       the "# used by" lines of the users are missing, partly
//                       present, or present

import (
	"fmt"
	"sort"
	"strings"
)

func c16Augment(r *Rng, tf c04Files, pkgs []string, density int, feats map[string]int) {
	feat := func(n string) { feats[n]++ }
	for _, p := range pkgs {
		pl, ok := tf[p+"/PLIST"]
		if !ok || !r.Chance(60) {
			continue
		}
		n := r.Intn(13)
		var add []string
		for i := 0; i < n; i++ {
			sec := Pick(r, []string{"1", "1", "3", "5", "8"})
			name := fmt.Sprintf("page-%c%d", 'a'+i, r.Intn(3))
			var l string
			switch r.Intn(6) {
			case 0:
				l = "man/cat" + sec + "/" + name + ".0.gz"
			case 1:
				l = "${PLIST.foo}man/man" + sec + "/" + name + "." + sec + ".gz"
			case 2:
				l = "${PKGMANDIR}/man" + sec + "/" + name + "." + sec + ".gz"
			default:
				l = "man/man" + sec + "/" + name + "." + sec + ".gz"
			}
			add = append(add, l)
			if r.Chance(12) {
				add = append(add, "@comment the next page is optional")
			}
		}
		if n > 0 && r.Chance(50) {
			// keep the order the sorter wants, so that not every PLIST is rewritten by the sorter first
			for i := 1; i < len(add); i++ {
				for j := i; j > 0 && !strings.HasPrefix(add[j], "@") && !strings.HasPrefix(add[j-1], "@") && add[j] < add[j-1]; j-- {
					add[j], add[j-1] = add[j-1], add[j]
				}
			}
		}
		ls := strings.Split(strings.TrimSuffix(pl, "\n"), "\n")
		// in front of the first line that sorts after "man/" or is a directive, else at the end
		at := len(ls)
		for i, l := range ls {
			if i > 0 && (l > "man/" || strings.HasPrefix(l, "@") || l == "") && !strings.HasPrefix(l, "@comment $") {
				at = i
				break
			}
		}
		out := append(append(append([]string{}, ls[:at]...), add...), ls[at:]...)
		tf[p+"/PLIST"] = strings.Join(out, "\n") + "\n"
		feat(fmt.Sprintf("c16.plist-man-%d", n))
	}
	if len(pkgs) >= 2 && r.Chance(density+25) {
		owner := pkgs[0]
		users := pkgs[1:]
		var body []string
		switch r.Intn(5) {
		case 0:
			body = []string{cvsID, "# This file is shared.", "# It has a header comment.", "", "COMMON_VAR=\tvalue"}
			feat("c16.common-first-comment-only")
		case 1:
			body = []string{cvsID, "COMMON_VAR=\tvalue", "OTHER_VAR=\tvalue"}
			feat("c16.common-first-id+assignments")
		case 2:
			body = []string{cvsID, "COMMON_VAR=\tvalue", "", "# a later comment", "OTHER_VAR=\tvalue"}
			feat("c16.common-first-id+assignments")
		case 3:
			body = []string{"", cvsID, "", "COMMON_VAR=\tvalue", "OTHER_VAR=\tvalue"}
			feat("c16.common-first-empty")
		case 4:
			body = []string{cvsID, "", "COMMON_VAR=\tvalue", "", "OTHER_VAR=\tvalue"}
			feat("c16.common-first-id-alone")
		}
		// some users are already listed
		var listed []string
		for _, u := range users {
			if r.Chance(30) {
				listed = append(listed, "# used by "+u+"/Makefile")
			}
		}
		if len(listed) > 0 {
			switch r.Intn(3) {
			case 0: // a paragraph of its own below the first one
				i := 1
				for i < len(body) && body[i] != "" {
					i++
				}
				nb := append(append([]string{}, body[:i]...), "")
				nb = append(nb, listed...)
				nb = append(nb, body[i:]...)
				body = nb
				feat("c16.common-usedby-own-paragraph")
			case 1: // at the end of the file
				body = append(append(body, ""), listed...)
				feat("c16.common-usedby-at-end")
			case 2: // directly below the first line
				nb := append([]string{body[0]}, listed...)
				body = append(nb, body[1:]...)
				feat("c16.common-usedby-below-first-line")
			}
		}
		tf[owner+"/Makefile.common"] = lines(body...)
		n := 0
		for _, u := range users {
			if mk, ok := tf[u+"/Makefile"]; ok {
				inc := ".include \"../../" + owner + "/Makefile.common\""
				if !strings.Contains(mk, inc) {
					tf[u+"/Makefile"] = c04InsertBeforeFinalInclude(mk, inc)
				}
				n++
			}
		}
		feat(fmt.Sprintf("c16.common-foreign-users-%d", n))
	}
}

// c16Terminators: line terminators as a dimension of the generated trees (round 5).
// For 1-3 files of the kinds that have an inserting fix (CVS id, "empty line expected",
// SUBDIR, "# used by", distinfo hashes, PLIST) the terminators are rewritten:
//
//	crlf     every line ends in \r\n
//	mixed    every second line ends in \r\n
//	crlf-top only the first two lines end in \r\n
//	no-eol   the last line is not terminated
//
// An inserted line ends in \n whatever its neighbours end in (autofix.go), and is
// recognised again after re-loading because Line.Text strips just that \n.
func c16Terminators(r *Rng, tf c04Files, feats map[string]int) {
	var cands []string
	for k := range tf {
		switch c16FileKind(k) {
		case "Makefile", "category Makefile", "Makefile.common", "PLIST", "distinfo", "patch", "buildlink3.mk", "*.mk", "options.mk":
			if strings.HasPrefix(k, "cat/") {
				cands = append(cands, k)
			}
		}
	}
	sort.Strings(cands)
	if len(cands) == 0 {
		return
	}
	for n := 1 + r.Intn(3); n > 0; n-- {
		k := Pick(r, cands)
		content := tf[k]
		if strings.Contains(content, "\r") || content == "" {
			continue
		}
		ls := strings.SplitAfter(content, "\n")
		mode := Pick(r, []string{"crlf", "crlf", "mixed", "crlf-top", "no-eol"})
		for i, l := range ls {
			if !strings.HasSuffix(l, "\n") {
				continue
			}
			if mode == "crlf" || mode == "mixed" && i%2 == 0 || mode == "crlf-top" && i < 2 {
				ls[i] = strings.TrimSuffix(l, "\n") + "\r\n"
			}
		}
		content = strings.Join(ls, "")
		if mode == "no-eol" {
			content = strings.TrimSuffix(content, "\n")
		}
		tf[k] = content
		feats["c16.eol-"+mode+" "+c16FileKind(k)]++
		feats["c16.eol-"+mode]++
	}
}

// c16MetaDirs: a further package directory whose name contains a character that means
// something to make(1) ('#' starts a comment, '$' an expression, ':' a modifier or a
// dependency, '\\' an escape, ' ' separates words).  It is not listed in the category
// Makefile, so "Package _ must be listed here." inserts a SUBDIR line for it, which
// must be recognised again by the next run.
var c16MetaDirNames = []string{"p#hash", "p#a#b", "p$dollar", "p:colon", "p\\back", "p space", "p${X}"}

func c16MetaDirs(r *Rng, tf c04Files, pkgs []string, feats map[string]int) {
	if len(pkgs) == 0 {
		return
	}
	src := pkgs[0]
	name := Pick(r, c16MetaDirNames)
	dst := "cat/" + name
	n := 0
	for _, f := range []string{"Makefile", "DESCR", "PLIST", "distinfo"} {
		if c, ok := tf[src+"/"+f]; ok {
			tf[dst+"/"+f] = c
			n++
		}
	}
	if n > 0 {
		feats["c16.metadir "+name]++
	}
}
