package main

// C01 whole-run layer, systematic part: cases derived from the dictionaries
// that gen/c01.go extracts from the source on every run (audit/c01dict.json):
//
//	dict:var     every looked-up variable name x 11 definition shapes in the package Makefile
//	dict:mkconf  the shapes that leave a commented/second definition, in mk/defaults/mk.conf
//	dict:files   pairs of file names the code loads x {absent, empty, directory, present}^2
//	dict:tokens  per small file kind all lines of <= 3 tokens over the literal tokens of its
//	             checker (doubled separators included) and field-count sweeps
//
// The variable matrix is always complete; quick samples the file matrix and the token
// alphabets by seed, thorough runs them completely.

import (
	"encoding/json"
	"fmt"
	"os"
	"path/filepath"
	"regexp"
	"sort"
	"strings"
	"sync"
)

type c01Dictionary struct {
	Varnames  []string            `json:"varnames"`
	Filenames []string            `json:"filenames"`
	Tokens    map[string][]string `json:"tokens"`
}

func c01LoadDict(ctx *Ctx) (*c01Dictionary, error) {
	data, err := os.ReadFile(filepath.Join(ctx.Verif, "audit", "c01dict.json"))
	if err != nil {
		return nil, err
	}
	var d c01Dictionary
	if err := json.Unmarshal(data, &d); err != nil {
		return nil, err
	}
	return &d, nil
}

var c01ReVarname = regexp.MustCompile(`^[A-Za-z_][A-Za-z0-9_.]*$`)

var c01VarShapes = []string{"plain", "commented", "plain-then-commented", "commented-then-plain", "twice", "append", "conditional", "cyclic-pair", "self-reference", "empty", "shell"}

func c01ShapeLines(v, shape string) []string {
	switch shape {
	case "plain":
		return []string{v + "=\tyes"}
	case "commented":
		return []string{"#" + v + "=\tyes"}
	case "plain-then-commented":
		return []string{v + "=\tyes", "", "#" + v + "=\tyes"}
	case "commented-then-plain":
		return []string{"#" + v + "=\tyes", "", v + "=\tyes"}
	case "twice":
		return []string{v + "=\tyes", v + "=\tno"}
	case "append":
		return []string{v + "+=\tyes"}
	case "conditional":
		return []string{".if ${OPSYS} == NetBSD", v + "=\tyes", ".endif"}
	case "cyclic-pair":
		return []string{v + "=\t${" + v + "_X}", v + "_X=\t${" + v + "}"}
	case "self-reference":
		return []string{v + "=\t${" + v + "}x"}
	case "empty":
		return []string{v + "="}
	default:
		return []string{v + "!=\techo yes"}
	}
}

// where a file name of the dictionary lives: below the pkgsrc root or in the package
func c01DictPath(name string) string {
	for _, p := range []string{"mk/", "doc/", "licenses", "wip/", "mk", "doc", "distfiles"} {
		if name == p || strings.HasPrefix(name, p) && strings.HasSuffix(p, "/") {
			return name
		}
	}
	if strings.Count(name, "/") >= 2 { // category/package/file
		return name
	}
	return "cat/pkg/" + name
}

// which checker's alphabet fills a file of that name
var c01TokenTargets = map[string]string{
	"cat/pkg/ALTERNATIVES": "alternatives.go", "cat/pkg/PLIST": "plist.go", "cat/pkg/distinfo": "distinfo.go",
	"cat/pkg/CVS/Entries": "pkglint.go", "cat/pkg/CVS/Entries.Log": "pkglint.go", "cat/pkg/buildlink3.mk": "buildlink3.go",
	"cat/Makefile": "category.go", "Makefile": "toplevel.go", "cat/pkg/patches/patch-aa": "patches.go",
	"mk/fetch/sites.mk": "vardefs.go", "mk/tools/defaults.mk": "pkgsrc.go",
}

// c01TokenLines: all concatenations of <= 3 tokens (quick: over a seed-chosen
// sub-alphabet of at most `max` tokens), the same behind a plausible first
// field, and field-count sweeps over every one-byte separator token.
func c01TokenLines(r *Rng, toks []string, max int, mk bool) []string {
	atoms := []string{"x", "/", " ", "1"}
	var al []string
	seen := map[string]bool{}
	for _, t := range append(append([]string(nil), toks...), atoms...) {
		if !seen[t] && !strings.Contains(t, "\n") {
			seen[t] = true
			al = append(al, t)
		}
	}
	// the cubic part runs over a seed-chosen sub-alphabet, the linear parts (first fields,
	// field-count sweeps) over the whole alphabet
	all := append([]string(nil), al...)
	for len(al) > max {
		k := r.Intn(len(al))
		al = append(al[:k], al[k+1:]...)
	}
	var lines []string
	var rec func(prefix string, n int)
	rec = func(prefix string, n int) {
		if n > 0 {
			lines = append(lines, prefix)
		}
		if n == 3 {
			return
		}
		for _, t := range al {
			rec(prefix+t, n+1)
		}
	}
	rec("", 0)
	first := "x"
	for _, t := range all {
		if len(t) > 1 && strings.HasSuffix(t, "/") && !strings.ContainsAny(t, "@$ ") {
			first = t + "x"
			break
		}
	}
	n := len(lines)
	for i := 0; i < n; i++ {
		if !strings.ContainsAny(lines[i], " \t") {
			lines = append(lines, first+" "+lines[i])
			if mk { // in a makefile the tokens are mostly parts of variable names
				lines = append(lines, lines[i]+"=\tx")
			}
		}
	}
	var prefixes = []string{""}
	for _, t := range all {
		if len(t) > 1 && strings.HasSuffix(t, " ") {
			prefixes = append(prefixes, t)
		}
	}
	for _, s := range all {
		if len(s) != 1 || (s[0] >= '0' && s[0] <= '9') || (s[0] >= 'a' && s[0] <= 'z') || (s[0] >= 'A' && s[0] <= 'Z') {
			continue
		}
		for _, p := range prefixes {
			for k := 0; k <= 8; k++ {
				lines = append(lines, p+strings.Repeat(s+"x", k), p+strings.Repeat(s+"x", k)+s, p+strings.Repeat(s, k+1))
			}
		}
	}
	return lines
}

func c01DictHeader(path string) string {
	switch {
	case strings.HasSuffix(path, "PLIST"):
		return "@comment $" + "NetBSD$\n"
	case strings.HasSuffix(path, "distinfo"):
		return "$" + "NetBSD$\n\n"
	case strings.HasSuffix(path, "Makefile") || strings.HasSuffix(path, ".mk"):
		return "# $" + "NetBSD$\n\n"
	}
	return ""
}

type c01DictStats struct {
	mu   sync.Mutex
	hits map[string]int
}

func (s *c01DictStats) hit(k string) {
	s.mu.Lock()
	s.hits[k]++
	s.mu.Unlock()
}

func c01DictCases(ctx *Ctx, dict *c01Dictionary, base *TreeSpec, st *c01DictStats) []*c01Case {
	thorough := ctx.Tier == "thorough"
	r := NewRng(ctx.Seed*0x51ed27 + 77)
	var cases []*c01Case
	optsets := [][]string{{"-Wall"}, {"-Wall", "-e"}, {"-q"}, {"-Wall", "-s", "-f"}, {"-Call", "-d"}, {}}
	add := func(stream string, spec *TreeSpec, target string, feats ...string) {
		o := optsets[len(cases)%len(optsets)]
		c := &c01Case{ID: len(cases), Stream: stream, Spec: spec, Args: append(append([]string(nil), o...), target), Cwd: ".", Feats: map[string]int{}}
		for _, f := range feats {
			c.Feats[f] = 1
			st.hit(f)
		}
		cases = append(cases, c)
	}
	insert := func(spec *TreeSpec, path string, ls []string, before string) bool {
		text, ok := spec.Get(path)
		if !ok {
			return false
		}
		block := strings.Join(ls, "\n") + "\n"
		if before != "" && strings.Contains(text, before) {
			text = strings.Replace(text, before, block+"\n"+before, 1)
		} else {
			text += "\n" + block
		}
		spec.Put(path, 'f', text)
		return true
	}

	// ---- variables ----
	var names []string
	for _, v := range dict.Varnames {
		if c01ReVarname.MatchString(v) {
			names = append(names, v)
		}
	}
	for _, v := range names {
		for _, sh := range c01VarShapes {
			spec := base.Clone()
			if insert(spec, "cat/pkg/Makefile", c01ShapeLines(v, sh), ".include \"../../mk/bsd.pkg.mk\"") {
				add("dict:var", spec, "cat/pkg", "dict.var."+v, "dict.shape."+sh)
			}
		}
		for _, sh := range []string{"plain-then-commented", "commented-then-plain", "twice", "cyclic-pair"} {
			spec := base.Clone()
			if insert(spec, "mk/defaults/mk.conf", c01ShapeLines(v, sh), "") {
				add("dict:mkconf", spec, "cat/pkg", "dict.mkconf."+v, "dict.mkconf-shape."+sh)
			}
		}
	}

	// ---- token lines per small file kind ----
	content := map[string]string{} // path -> one representative content (for the file matrix)
	for _, path := range sortedKeys(c01TokenTargets) {
		toks := dict.Tokens[c01TokenTargets[path]]
		max := 12
		if thorough {
			max = 22
		}
		lines := c01TokenLines(r.Fork(), toks, max, strings.HasSuffix(path, ".mk") || strings.HasSuffix(path, "Makefile"))
		hdr := c01DictHeader(path)
		if old, ok := base.Get(path); ok && strings.HasPrefix(path, "mk/") {
			hdr = old + "\n" // an infrastructure file keeps what the fixture needs
		}
		chunk := 600
		for i := 0; i < len(lines); i += chunk {
			j := i + chunk
			if j > len(lines) {
				j = len(lines)
			}
			text := hdr + strings.Join(lines[i:j], "\n") + "\n"
			if j == len(lines) {
				content[path] = text // the last chunk holds the field-count sweeps
			}
			spec := base.Clone()
			spec.Put(path, 'f', text)
			target := "cat/pkg"
			if !strings.HasPrefix(path, "cat/pkg/") && !strings.HasPrefix(path, "mk/") {
				target = filepath.Dir(path)
			}
			add("dict:tokens", spec, target, "dict.tokens."+c01TokenTargets[path], "dict.tokenfile."+path)
		}
	}

	// ---- presence matrix over pairs of loaded files ----
	var paths []string
	seen := map[string]bool{}
	for _, f := range dict.Filenames {
		p := c01DictPath(f)
		if !seen[p] && p != "cat/pkg/Makefile" && p != "mk" && p != "cat/pkg/CVS" {
			seen[p] = true
			paths = append(paths, p)
		}
	}
	sort.Strings(paths)
	states := []string{"absent", "empty", "directory", "present"}
	apply := func(spec *TreeSpec, p, state string) {
		old, had := base.Get(p)
		spec.Remove(p)
		for _, q := range spec.Files(func(e TEntry) bool { return strings.HasPrefix(e.Path, p+"/") }) {
			spec.Remove(q)
		}
		switch state {
		case "empty":
			spec.Put(p, 'f', "")
		case "directory":
			spec.Put(p, 'd', "")
		case "present":
			switch {
			case content[p] != "":
				spec.Put(p, 'f', content[p])
			case had && old != "":
				spec.Put(p, 'f', old)
			default:
				spec.Put(p, 'f', c01DictHeader(p)+"x\n")
			}
		}
	}
	for i := 0; i < len(paths); i++ {
		for j := i + 1; j < len(paths); j++ {
			a, b := paths[i], paths[j]
			related := filepath.Dir(a) == filepath.Dir(b)
			for _, sa := range states {
				for _, sb := range states {
					// quick: every pair in the same directory completely, the others sampled
					if !thorough && !related && !r.Chance(3) {
						continue
					}
					if strings.HasPrefix(b, a+"/") && sa != "directory" && sa != "absent" {
						continue
					}
					spec := base.Clone()
					apply(spec, a, sa)
					apply(spec, b, sb)
					add("dict:files", spec, "cat/pkg", "dict.file."+a+"."+sa, "dict.file."+b+"."+sb)
				}
			}
		}
	}
	return cases
}

// c01RunDict runs the dictionary cases; failures go through the usual triage.
func c01RunDict(ctx *Ctx, res *Result) {
	dict, err := c01LoadDict(ctx)
	if err != nil {
		res.Broken = "audit/c01dict.json (written by gen/c01.go): " + err.Error()
		return
	}
	gdir := filepath.Join(c01Scratch(ctx), "gen", "dict-base")
	NewBaseTree(gdir)
	base := CaptureTree(gdir, ctx.Work)
	os.RemoveAll(gdir)
	st := &c01DictStats{hits: map[string]int{}}
	cases := c01DictCases(ctx, dict, base, st)
	var mu sync.Mutex
	var bads []c01Bad
	exits := map[int]int{}
	parallelFor(len(cases), func(i int) {
		c := cases[i]
		r := c01RunCase(ctx, c, c01Timeout(ctx, c))
		v := c01Judge(r, c.Spec.Size())
		mu.Lock()
		defer mu.Unlock()
		exits[r.Exit]++
		if v.Kind == "execerr" {
			res.Broken = "cannot execute the binary: " + v.Detail
		} else if v.Bad() {
			bads = append(bads, c01Bad{c, v, r})
		}
	})
	res.Evaluations += len(cases)
	res.DistinctNontrivial += len(cases)
	perStream := map[string]int{}
	for _, c := range cases {
		perStream[c.Stream]++
	}
	for k, n := range perStream {
		res.Count("stream."+k, n)
	}
	// per-dictionary hit counts
	agg := map[string]int{}
	for k, n := range st.hits {
		f := strings.SplitN(k, ".", 3)
		agg[f[0]+"."+f[1]] += n
	}
	for k, n := range agg {
		res.Count(k+".cases", n)
	}
	res.mu.Lock()
	if res.Distribution == nil {
		res.Distribution = map[string]any{}
	}
	res.Distribution["dict.hits"] = st.hits
	res.Distribution["dict.sizes"] = map[string]int{"varnames": len(dict.Varnames), "filenames": len(dict.Filenames), "token-files": len(dict.Tokens)}
	res.mu.Unlock()
	// floors: every dictionary must be exercised
	varsHit, shapesHit, filesHit := 0, 0, 0
	for k := range st.hits {
		switch {
		case strings.HasPrefix(k, "dict.var."):
			varsHit++
		case strings.HasPrefix(k, "dict.shape."):
			shapesHit++
		case strings.HasPrefix(k, "dict.file."):
			filesHit++
		}
	}
	res.Count("dict.varnames-exercised", varsHit)
	res.Count("dict.file-states-exercised", filesHit)
	if res.Broken == "" && (varsHit < 30 || shapesHit < len(c01VarShapes) || filesHit < 60 || perStream["dict:tokens"] < 20 || perStream["dict:files"] < 100 || perStream["dict:mkconf"] < 30) {
		res.Broken = fmt.Sprintf("dictionary coverage: %d variable names, %d shapes, %d file states, %d token files, %d matrix cells", varsHit, shapesHit, filesHit, perStream["dict:tokens"], perStream["dict:files"])
	}
	if exits[0] < 5 || exits[1] < 50 {
		if res.Broken == "" {
			res.Broken = fmt.Sprintf("dictionary stream: exit 0: %d, exit 1: %d", exits[0], exits[1])
		}
	}

	// triage: one case per (kind, site, stream), smallest first
	sort.SliceStable(bads, func(i, j int) bool { return bads[i].c.Spec.VarSize() < bads[j].c.Spec.VarSize() })
	done := map[string]bool{}
	var wg sync.WaitGroup
	sem := make(chan struct{}, 4)
	for _, b := range bads {
		k := b.v.Kind + "/" + b.v.Site + "/" + b.c.Stream
		if done[k] {
			res.Count("bad.not-processed", 1)
			continue
		}
		done[k] = true
		wg.Add(1)
		go func(b c01Bad) {
			defer wg.Done()
			sem <- struct{}{}
			defer func() { <-sem }()
			// a dictionary case is the base fixture plus one small change: a slow case is not reduced
			// further (every passing candidate would cost seconds of CPU)
			viol := c01Process(ctx, res, b, b.v.Kind != "hang" && b.v.Kind != "time")
			if viol == nil {
				return
			}
			// a failure that needs the modified mk/defaults/mk.conf (the same tree with the
			// fixture's mk.conf is fine) is a finding about the infrastructure file
			if b.c.Stream == "dict:mkconf" && b.v.Kind == "panic" {
				variant := c01With(b.c, func(n *c01Case) {
					if old, ok := base.Get("mk/defaults/mk.conf"); ok {
						n.Spec.Put("mk/defaults/mk.conf", 'f', old)
					}
				})
				x := c01Judge(c01RunCase(ctx, variant, c01Timeout(ctx, variant)), variant.Spec.Size())
				if !x.Bad() {
					viol.Key += "@mk/defaults/mk.conf"
					viol.Replay["expect_key"] = viol.Key
					viol.Replay["key_suffix"] = "@mk/defaults/mk.conf"
				}
			}
			res.AddViolation(*viol)
		}(b)
	}
	wg.Wait()
}
