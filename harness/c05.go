package main

// C05: autofixed files are replaced atomically, even across crashes and I/O errors.
//
// Whole-run check of the real binary under strace(1):
//  1. trace = model: the mutating system calls inside the scenario tree,
//     projected from `strace -f`, must equal the operation list of the
//     extracted model (Model/FsProto.v: prog_ops) for the saves seen;
//  2. the extracted crash checker (Spec/CrashSpec.v: check_crashes) runs over
//     every prefix of the OBSERVED operations;
//  3. real executions: a fresh copy of the tree per crash point k, the process
//     is killed by strace fault injection right before the k-th mutating system
//     call takes effect; and per (k, errno) the call fails with ENOSPC / EIO /
//     EACCES / EXDEV.  Afterwards the tree is snapshotted and the extracted
//     specification decides (first_bad): every original file holds its old or
//     one of its complete new contents; an injected error must show up as an
//     ERROR: line on stderr; the remaining tree must be the model's.

import (
	"fmt"
	"io/fs"
	"os"
	"os/exec"
	"path/filepath"
	"regexp"
	"sort"
	"strconv"
	"strings"
	"sync"
	"syscall"
	"time"
)

// ---------- strace output parser ----------

type straceCall struct {
	Pid      int
	Name     string
	Args     []string // raw argument texts, top-level split
	Ret      string   // "0", "5", "-1", "?"
	Errno    string   // "ENOSPC" when Ret == "-1"
	Injected bool
	Restart  bool // "= ? ERESTARTSYS ...": interrupted before it did anything, issued again later
	Line     int
}

type straceTrace struct {
	Calls    []straceCall
	Killed   map[int]string // pid -> signal
	Exited   map[int]int
	Unparsed []string
}

var reStraceLine = regexp.MustCompile(`^(\d+)\s+(.*)$`)
var reResumed = regexp.MustCompile(`^<\.\.\. (\w+) resumed>(.*)$`)
var reExited = regexp.MustCompile(`^\+\+\+ exited with (\d+) \+\+\+$`)
var reKilled = regexp.MustCompile(`^\+\+\+ killed by (\w+)( \(core dumped\))? \+\+\+$`)

// splitCall splits "name(args) = ret ..." into name, args text and result text,
// honouring quoted strings (with escapes), braces and brackets.
func splitCall(s string) (name, args, result string, ok bool) {
	i := strings.IndexByte(s, '(')
	if i <= 0 {
		return "", "", "", false
	}
	name = s[:i]
	depth := 0
	inq := false
	for j := i; j < len(s); j++ {
		c := s[j]
		if inq {
			if c == '\\' {
				j++
			} else if c == '"' {
				inq = false
			}
			continue
		}
		switch c {
		case '"':
			inq = true
		case '(', '{', '[':
			depth++
		case ')', '}', ']':
			depth--
			if depth == 0 && c == ')' {
				return name, s[i+1 : j], strings.TrimSpace(s[j+1:]), true
			}
		}
	}
	return name, s[i+1:], "", false
}

func splitArgs(s string) []string {
	var out []string
	depth := 0
	inq := false
	start := 0
	for j := 0; j < len(s); j++ {
		c := s[j]
		if inq {
			if c == '\\' {
				j++
			} else if c == '"' {
				inq = false
			}
			continue
		}
		switch c {
		case '"':
			inq = true
		case '(', '{', '[':
			depth++
		case ')', '}', ']':
			depth--
		case ',':
			if depth == 0 {
				out = append(out, strings.TrimSpace(s[start:j]))
				start = j + 1
			}
		}
	}
	if t := strings.TrimSpace(s[start:]); t != "" || len(out) > 0 {
		out = append(out, t)
	}
	return out
}

// straceString decodes a quoted strace string argument ("..." with C escapes,
// \xNN with -xx, octal otherwise; a trailing ... marks truncation).
func straceString(a string) (string, bool) {
	a = strings.TrimSpace(a)
	if !strings.HasPrefix(a, "\"") {
		return "", false
	}
	var sb strings.Builder
	j := 1
	for j < len(a) {
		c := a[j]
		if c == '"' {
			return sb.String(), strings.TrimSpace(a[j+1:]) == ""
		}
		if c != '\\' || j+1 >= len(a) {
			sb.WriteByte(c)
			j++
			continue
		}
		j++
		switch e := a[j]; e {
		case 'n':
			sb.WriteByte('\n')
			j++
		case 't':
			sb.WriteByte('\t')
			j++
		case 'r':
			sb.WriteByte('\r')
			j++
		case 'v':
			sb.WriteByte('\v')
			j++
		case 'f':
			sb.WriteByte('\f')
			j++
		case 'x':
			if j+2 < len(a) {
				v, err := strconv.ParseUint(a[j+1:j+3], 16, 8)
				if err != nil {
					return "", false
				}
				sb.WriteByte(byte(v))
				j += 3
			} else {
				return "", false
			}
		case '0', '1', '2', '3', '4', '5', '6', '7':
			k := j
			for k < len(a) && k < j+3 && a[k] >= '0' && a[k] <= '7' {
				k++
			}
			v, _ := strconv.ParseUint(a[j:k], 8, 16)
			sb.WriteByte(byte(v))
			j = k
		default:
			sb.WriteByte(e)
			j++
		}
	}
	return "", false
}

func parseStrace(text string) *straceTrace {
	tr := &straceTrace{Killed: map[int]string{}, Exited: map[int]int{}}
	pending := map[int]string{}
	for ln, line := range strings.Split(text, "\n") {
		if line == "" {
			continue
		}
		m := reStraceLine.FindStringSubmatch(line)
		if m == nil {
			tr.Unparsed = append(tr.Unparsed, line)
			continue
		}
		pid, _ := strconv.Atoi(m[1])
		rest := m[2]
		if strings.HasPrefix(rest, "--- ") {
			continue // signal delivery
		}
		if mm := reExited.FindStringSubmatch(rest); mm != nil {
			tr.Exited[pid], _ = strconv.Atoi(mm[1])
			continue
		}
		if mm := reKilled.FindStringSubmatch(rest); mm != nil {
			tr.Killed[pid] = mm[1]
			continue
		}
		if strings.HasSuffix(rest, "<unfinished ...>") {
			pending[pid] = strings.TrimSuffix(rest, "<unfinished ...>")
			continue
		}
		if mm := reResumed.FindStringSubmatch(rest); mm != nil {
			p, ok := pending[pid]
			if !ok || !strings.HasPrefix(p, mm[1]+"(") {
				tr.Unparsed = append(tr.Unparsed, line)
				continue
			}
			delete(pending, pid)
			rest = p + mm[2]
		}
		name, args, result, ok := splitCall(rest)
		if !ok {
			tr.Unparsed = append(tr.Unparsed, line)
			continue
		}
		c := straceCall{Pid: pid, Name: name, Args: splitArgs(args), Line: ln + 1}
		if !strings.HasPrefix(result, "=") {
			tr.Unparsed = append(tr.Unparsed, line)
			continue
		}
		f := strings.Fields(strings.TrimSpace(result[1:]))
		if len(f) == 0 {
			tr.Unparsed = append(tr.Unparsed, line)
			continue
		}
		c.Ret = f[0]
		if c.Ret == "-1" && len(f) > 1 {
			c.Errno = f[1]
		}
		c.Injected = strings.Contains(result, "(INJECTED)")
		c.Restart = c.Ret == "?" && len(f) > 1 && strings.HasPrefix(f[1], "ERESTART")
		tr.Calls = append(tr.Calls, c)
	}
	// a call that never returned because the process was killed inside it
	pids := make([]int, 0, len(pending))
	for pid := range pending {
		pids = append(pids, pid)
	}
	sort.Ints(pids)
	for _, pid := range pids {
		if name, args, _, _ := splitCall(pending[pid] + ")"); name != "" {
			tr.Calls = append(tr.Calls, straceCall{Pid: pid, Name: name, Args: splitArgs(args), Ret: "?", Line: -1})
		}
	}
	return tr
}

// ---------- projection onto mutating operations inside the tree ----------

type c05Op struct {
	Kind     string // o w c r m u (model operations)   x (a mutating call the model does not have)
	Fd       int    // canonical descriptor number: lowest free among the write descriptors in the tree
	A, B     string // paths relative to the tree root (absolute when outside)
	Data     string
	Mode     int
	Res      string // "ok", an errno name, "?" = the process was killed before the call took effect
	Desc     string
	OpenLike bool // Kind x only: an open for writing whose flags are not the model's
	// how to address this call for `strace -P <path> -e inject=<Sys>:...:when=<Nth>`:
	// strace counts per thread and per syscall name, and Go moves the main
	// goroutine between threads, so a plain count is useless; with -P only the
	// calls touching that one path are counted (and injected)
	Sys      string
	Pid      int
	PPath    string // absolute path the call touches (for descriptors: the file behind it)
	RawPath  string // the path as the program spelled it
	Nth      int    // this is the Nth call of that name touching PPath
	Injected bool
}

func (o c05Op) Token() string {
	switch o.Kind {
	case "o", "e":
		return fmt.Sprintf("%s %d %s %d", o.Kind, o.Fd, hx(o.A), o.Mode)
	case "w":
		return fmt.Sprintf("w %d %s", o.Fd, hx(o.Data))
	case "c":
		return fmt.Sprintf("c %d", o.Fd)
	case "r":
		return fmt.Sprintf("r %s %s", hx(o.A), hx(o.B))
	case "m":
		return fmt.Sprintf("m %s %d", hx(o.A), o.Mode)
	case "u":
		return fmt.Sprintf("u %s", hx(o.A))
	}
	return "x " + hx(o.Desc)
}

func (o c05Op) String() string {
	s := ""
	switch o.Kind {
	case "e":
		s = fmt.Sprintf("open(%s, O_WRONLY|O_CREAT|O_EXCL, %#o)=fd%d", o.A, o.Mode, o.Fd)
	case "o":
		s = fmt.Sprintf("open(%s, O_WRONLY|O_CREAT|O_TRUNC, %#o)=fd%d", o.A, o.Mode, o.Fd)
	case "w":
		s = fmt.Sprintf("write(fd%d, %d bytes)", o.Fd, len(o.Data))
	case "c":
		s = fmt.Sprintf("close(fd%d)", o.Fd)
	case "r":
		s = fmt.Sprintf("rename(%s, %s)", o.A, o.B)
	case "m":
		s = fmt.Sprintf("chmod(%s, %#o)", o.A, o.Mode)
	case "u":
		s = fmt.Sprintf("unlink(%s)", o.A)
	default:
		s = "other:" + o.Desc
	}
	if o.Res != "ok" {
		s += " = " + o.Res
	}
	return s
}

func c05OpsString(ops []c05Op) string {
	var ss []string
	for _, o := range ops {
		ss = append(ss, o.String())
	}
	return strings.Join(ss, "; ")
}

type c05Fd struct {
	Path   string
	Raw    string // as spelled in the open call
	Write  bool
	InTree bool
	Canon  int
}

func parseOctal(s string) int {
	v, err := strconv.ParseInt(strings.TrimSpace(s), 8, 32)
	if err != nil {
		return -1
	}
	return int(v)
}

// projectTrace replays descriptor and cwd bookkeeping over the trace and returns
// the mutating calls that touch a path inside root, in trace order.
func projectTrace(tr *straceTrace, root string) []c05Op {
	cwd := root
	fds := map[int]*c05Fd{}
	counts := map[string]int{} // syscall name + path -> calls so far
	var ops []c05Op
	abs := func(dirfd, p string) string {
		if filepath.IsAbs(p) {
			return filepath.Clean(p)
		}
		base := cwd
		if dirfd != "" && dirfd != "AT_FDCWD" {
			if n, err := strconv.Atoi(dirfd); err == nil && fds[n] != nil {
				base = fds[n].Path
			}
		}
		return filepath.Join(base, p)
	}
	inTree := func(p string) bool { return p == root || strings.HasPrefix(p, root+"/") }
	rel := func(p string) string {
		if inTree(p) && p != root {
			return p[len(root)+1:]
		}
		return p
	}
	canon := func() int {
		used := map[int]bool{}
		for _, f := range fds {
			if f.Write && f.InTree {
				used[f.Canon] = true
			}
		}
		for i := 0; ; i++ {
			if !used[i] {
				return i
			}
		}
	}
	arg := func(c straceCall, i int) string {
		if i < len(c.Args) {
			return c.Args[i]
		}
		return ""
	}
	str := func(c straceCall, i int) string {
		s, _ := straceString(arg(c, i))
		return s
	}
	for _, c := range tr.Calls {
		res := "ok"
		switch {
		case c.Ret == "?":
			res = "?"
		case c.Ret == "-1":
			res = c.Errno
		}
		// which paths does this call touch (the way strace -P sees it)
		var touched []string
		rawOf := map[string]string{}
		touch := func(dirfd string, i int) {
			if sv, ok := straceString(arg(c, i)); ok {
				p := abs(dirfd, sv)
				touched = append(touched, p)
				rawOf[p] = sv
			}
		}
		switch c.Name {
		case "open", "creat", "chmod", "unlink", "truncate", "rmdir", "mkdir":
			touch("", 0)
		case "openat", "openat2", "fchmodat", "fchmodat2", "unlinkat", "mkdirat":
			touch(arg(c, 0), 1)
		case "rename", "link", "symlink":
			touch("", 0)
			touch("", 1)
		case "renameat", "renameat2", "linkat":
			touch(arg(c, 0), 1)
			touch(arg(c, 2), 3)
		case "write", "close", "fchmod", "pwrite64", "writev", "ftruncate":
			if n, err := strconv.Atoi(arg(c, 0)); err == nil && fds[n] != nil {
				touched = append(touched, fds[n].Path)
				rawOf[fds[n].Path] = fds[n].Raw
			}
		}
		for i, p := range touched {
			if i == 0 || p != touched[0] {
				counts[c.Name+"\x00"+p]++
			}
		}
		if c.Restart {
			continue // counted by strace's when= (done above), but not an operation
		}
		add := func(o c05Op) {
			o.Res, o.Sys, o.Pid, o.Injected = res, c.Name, c.Pid, c.Injected
			if len(touched) > 0 {
				o.PPath = touched[0]
				o.RawPath = rawOf[touched[0]]
				o.Nth = counts[c.Name+"\x00"+touched[0]]
			}
			ops = append(ops, o)
		}
		other := func(paths ...string) {
			hit := false
			var rs []string
			for _, p := range paths {
				if inTree(p) {
					hit = true
				}
				rs = append(rs, rel(p))
			}
			if hit {
				add(c05Op{Kind: "x", Desc: c.Name + "(" + strings.Join(rs, ",") + ")"})
			}
		}
		fdnum := func(i int) (int, *c05Fd) {
			n, err := strconv.Atoi(arg(c, i))
			if err != nil {
				return -1, nil
			}
			return n, fds[n]
		}
		switch c.Name {
		case "open", "openat", "creat", "openat2":
			var p, flags, mode string
			switch c.Name {
			case "open":
				p, flags, mode = abs("", str(c, 0)), arg(c, 1), arg(c, 2)
			case "creat":
				p, flags, mode = abs("", str(c, 0)), "O_WRONLY|O_CREAT|O_TRUNC", arg(c, 1)
			case "openat":
				p, flags, mode = abs(arg(c, 0), str(c, 1)), arg(c, 2), arg(c, 3)
			default:
				p, flags = abs(arg(c, 0), str(c, 1)), strings.Join(c.Args[2:], ",")
			}
			fl := map[string]bool{}
			for _, f := range strings.FieldsFunc(flags, func(r rune) bool { return !(r == '_' || r >= 'A' && r <= 'Z' || r >= '0' && r <= '9') }) {
				if strings.HasPrefix(f, "O_") {
					fl[f] = true
				}
			}
			wr := fl["O_WRONLY"] || fl["O_RDWR"]
			mut := wr || fl["O_CREAT"] || fl["O_TRUNC"] || fl["O_APPEND"] || fl["O_TMPFILE"]
			fd := &c05Fd{Path: p, Write: mut, InTree: inTree(p)}
			if len(touched) > 0 {
				fd.Raw = rawOf[touched[0]]
			}
			if mut && fd.InTree {
				fd.Canon = canon()
				// a save's open is recognised by what it does, not by its exact flags:
				// creates or truncates, for writing (O_WRONLY or O_RDWR); extra flags
				// such as O_CLOEXEC, O_LARGEFILE, O_NOFOLLOW do not matter.  Flags that
				// change where the bytes go or whether the old file survives do.
				plain := wr && fl["O_CREAT"] && fl["O_TRUNC"] &&
					!fl["O_APPEND"] && !fl["O_EXCL"] && !fl["O_TMPFILE"] && !fl["O_PATH"] && !fl["O_DIRECTORY"]
				// the repaired save creates its temporary file exclusively
				excl := wr && fl["O_CREAT"] && fl["O_EXCL"] && !fl["O_TRUNC"] &&
					!fl["O_APPEND"] && !fl["O_TMPFILE"] && !fl["O_PATH"] && !fl["O_DIRECTORY"]
				if excl {
					add(c05Op{Kind: "e", Fd: fd.Canon, A: rel(p), Mode: parseOctal(mode)})
				} else if plain {
					add(c05Op{Kind: "o", Fd: fd.Canon, A: rel(p), Mode: parseOctal(mode)})
				} else {
					// an open for writing of another shape: not the model's Creat, but the
					// bytes written through it still are a content the program installs
					add(c05Op{Kind: "x", Fd: fd.Canon, A: rel(p), OpenLike: true, Desc: c.Name + "(" + rel(p) + "," + flags + ")"})
				}
			}
			if n, err := strconv.Atoi(c.Ret); err == nil && n >= 0 {
				fds[n] = fd
			}
		case "write":
			if _, f := fdnum(0); f != nil && f.InTree && f.Write {
				data := str(c, 1)
				if n, err := strconv.Atoi(c.Ret); err == nil && n >= 0 && n < len(data) {
					data = data[:n]
				}
				add(c05Op{Kind: "w", Fd: f.Canon, Data: data})
			}
		case "pwrite64", "writev", "pwritev", "pwritev2", "ftruncate", "fallocate", "fchown", "futimens", "fsetxattr", "fremovexattr":
			if _, f := fdnum(0); f != nil && f.InTree {
				other(f.Path)
			}
		case "sendfile", "copy_file_range", "splice":
			for _, i := range []int{0, 2} {
				if _, f := fdnum(i); f != nil && f.InTree && f.Write {
					other(f.Path)
				}
			}
		case "fchmod":
			if _, f := fdnum(0); f != nil && f.InTree {
				add(c05Op{Kind: "m", A: rel(f.Path), Mode: parseOctal(arg(c, 1))})
			}
		case "close":
			if n, f := fdnum(0); f != nil {
				if f.InTree && f.Write {
					add(c05Op{Kind: "c", Fd: f.Canon})
				}
				delete(fds, n)
			}
		case "dup", "dup2", "dup3":
			if _, f := fdnum(0); f != nil {
				if n, err := strconv.Atoi(c.Ret); err == nil && n >= 0 {
					g := *f
					fds[n] = &g
				}
			}
		case "fcntl":
			if strings.HasPrefix(arg(c, 1), "F_DUPFD") {
				if _, f := fdnum(0); f != nil {
					if n, err := strconv.Atoi(c.Ret); err == nil && n >= 0 {
						g := *f
						fds[n] = &g
					}
				}
			}
		case "rename":
			a, b := abs("", str(c, 0)), abs("", str(c, 1))
			if c.Ret == "0" {
				for _, f := range fds {
					if f.Path == a {
						f.Path = b
					}
				}
			}
			if inTree(a) || inTree(b) {
				add(c05Op{Kind: "r", A: rel(a), B: rel(b)})
			}
		case "renameat", "renameat2":
			a, b := abs(arg(c, 0), str(c, 1)), abs(arg(c, 2), str(c, 3))
			if c.Ret == "0" {
				for _, f := range fds {
					if f.Path == a {
						f.Path = b
					}
				}
			}
			if inTree(a) || inTree(b) {
				if fl := arg(c, 4); c.Name == "renameat2" && fl != "0" && fl != "" {
					add(c05Op{Kind: "x", Desc: "renameat2(" + rel(a) + "," + rel(b) + "," + fl + ")"})
				} else {
					add(c05Op{Kind: "r", A: rel(a), B: rel(b)})
				}
			}
		case "unlink":
			if p := abs("", str(c, 0)); inTree(p) {
				add(c05Op{Kind: "u", A: rel(p)})
			}
		case "unlinkat":
			if p := abs(arg(c, 0), str(c, 1)); inTree(p) {
				if strings.Contains(arg(c, 2), "AT_REMOVEDIR") {
					other(p)
				} else {
					add(c05Op{Kind: "u", A: rel(p)})
				}
			}
		case "chmod":
			if p := abs("", str(c, 0)); inTree(p) {
				add(c05Op{Kind: "m", A: rel(p), Mode: parseOctal(arg(c, 1))})
			}
		case "fchmodat", "fchmodat2":
			if p := abs(arg(c, 0), str(c, 1)); inTree(p) {
				add(c05Op{Kind: "m", A: rel(p), Mode: parseOctal(arg(c, 2))})
			}
		case "rmdir", "mkdir", "truncate", "mknod", "chown", "lchown", "utime", "utimes", "setxattr", "lsetxattr", "removexattr", "lremovexattr":
			other(abs("", str(c, 0)))
		case "mkdirat", "mknodat", "fchownat", "utimensat", "futimesat":
			if s, ok := straceString(arg(c, 1)); ok {
				other(abs(arg(c, 0), s))
			} else if _, f := fdnum(0); f != nil {
				other(f.Path)
			}
		case "link", "symlink":
			other(abs("", str(c, 0)), abs("", str(c, 1)))
		case "linkat":
			other(abs(arg(c, 0), str(c, 1)), abs(arg(c, 2), str(c, 3)))
		case "symlinkat":
			other(abs(arg(c, 1), str(c, 2)))
		case "chdir":
			if c.Ret == "0" {
				cwd = abs("", str(c, 0))
			}
		case "fchdir":
			if _, f := fdnum(0); f != nil && c.Ret == "0" {
				cwd = f.Path
			}
		}
	}
	return ops
}

// ---------- scenarios ----------

type c05File struct {
	Data string
	Mode int
	Kind string // "" regular file, "D" directory, "L" symbolic link (Data = link text): Model.FsProto.kind
}

type c05Scenario struct {
	Name       string
	Variant    int
	Seed       uint64
	Args       []string
	Base       string // directory with the pristine tree
	Old        map[string]c05File
	OldSnap    map[string]Entry
	Final      map[string]c05File                                           // the tree after a complete, undisturbed run (no strace)
	ExpectErr  string                                                       // must appear on stderr of the complete run
	ExpectErrs []string                                                     // foreign-tmp scenarios: one refusal per blocked file
	Blocked    map[string]string                                            // foreign-tmp scenarios: file -> kind of the entry planted at file.pkglint.tmp
	LinkArgs   []string                                                     // command-line arguments that are symbolic links
	LinkFile   string                                                       // the file of the package that is a symbolic link
	Links      bool                                                         // the tree contains symbolic links as save targets / arguments: the link-aware model (Model/FsLinks.v) is the reference
	Twin       string                                                       // stale-tmp: the same tree without the stale file; its complete run defines "new"
	Expect     func(s *c05Scenario, prog []c05Action, stdout string) string // coverage floor; "" = fine
}

type c05Action struct {
	Kind   string // S save, M chmod, T save if the latest save succeeded, E save if it failed
	NoData bool   // a save refused at the exclusive open: its content is unknown (and irrelevant)
	Path   string
	Data   string
	Mode   int
}

var c05Scenarios = []string{"single-mk", "pkg4", "plist-sort", "chmod", "stale-tmp"}

func c05Blank(r *Rng) string {
	return Pick(r, []string{" ", "  ", "    ", "\t\t\t", " \t", "\t \t\t"})
}

func c05Makefile(r *Rng, misaligned int) string {
	ls := []string{cvsID, "", "DISTNAME=\tpkg-1.0", "CATEGORIES=\tcat", "MASTER_SITES=\t# none", "",
		"MAINTAINER=\tpkgsrc-users@NetBSD.org", "HOMEPAGE=\t# none", "COMMENT=\tDummy package", "LICENSE=\t2-clause-bsd", ""}
	idx := []int{2, 3, 4, 6, 7, 8, 9}
	for i := 0; i < misaligned; i++ {
		j := idx[r.Intn(len(idx))]
		name, val, _ := strings.Cut(ls[j], "=")
		ls[j] = name + "=" + c05Blank(r) + strings.TrimLeft(val, " \t")
	}
	if r.Chance(50) {
		n := 1 + r.Intn(3)
		for i := 0; i < n; i++ {
			ls = append(ls, fmt.Sprintf("%s=%s%s", Pick(r, []string{"USE_TOOLS+", "CONFIGURE_ARGS+", "CFLAGS+", "MAKE_ENV+"}), c05Blank(r),
				Pick(r, []string{"gmake", "--enable-x", "-DX=1", "A=b", "--with-long-option-name=${PREFIX}/share"})))
		}
		ls = append(ls, "")
	}
	ls = append(ls, ".include \"../../mk/bsd.pkg.mk\"")
	return lines(ls...)
}

func c05Plist(r *Rng, unsorted, gz bool) string {
	names := []string{"bin/program"}
	pool := []string{"bin/aaa", "bin/zzz", "lib/libfoo.so", "lib/libbar.a", "share/doc/pkg/README", "share/pkg/data.bin", "include/pkg.h", "libexec/helper", "share/examples/pkg/conf"}
	n := 2 + r.Intn(5)
	for i := 0; i < n; i++ {
		names = append(names, pool[(r.Intn(len(pool))+i)%len(pool)])
	}
	seen := map[string]bool{}
	var uniq []string
	for _, x := range names {
		if !seen[x] {
			seen[x] = true
			uniq = append(uniq, x)
		}
	}
	sort.Strings(uniq)
	if gz {
		uniq = append(uniq, "man/man1/program.1.gz")
	} else {
		uniq = append(uniq, "man/man1/program.1")
	}
	if unsorted {
		// move the first entry to the end: certainly out of order
		uniq = append(uniq[1:], uniq[0])
		if r.Bool() && len(uniq) > 3 {
			uniq[1], uniq[2] = uniq[2], uniq[1]
		}
	}
	return lines(append([]string{"@comment $" + "NetBSD$"}, uniq...)...)
}

func c05Build(name string, variant int, seed uint64, root string) *c05Scenario {
	r := NewRng(seed ^ uint64(variant)*0x9e3779b97f4a7c15 ^ uint64(len(name))<<40)
	for _, c := range name {
		r.s = r.s*131 + uint64(c)
	}
	t := NewBaseTree(root)
	s := &c05Scenario{Name: name, Variant: variant, Seed: seed, Base: root, Args: []string{"-Wall", "-F", "cat/pkg"}}
	// "<base>+<kind>": the base scenario in a tree that already has entries of that kind
	// at <file>.pkglint.tmp for some of the files the run is going to fix
	name, linkSpec, _ := strings.Cut(name, "@")
	baseName, tmpKind, _ := strings.Cut(name, "+")
	if linkSpec != "" {
		s.Links = true
		defer func() { s.Name = name + "@" + linkSpec }()
	}
	mkFixed := true
	switch baseName {
	case "single-mk":
		t.Write("cat/pkg/Makefile", c05Makefile(r, 1+r.Intn(4)))
		if r.Bool() {
			s.Args = []string{"-Wall", "-F", "cat/pkg/Makefile"}
		}
		s.Expect = func(s *c05Scenario, prog []c05Action, out string) string {
			return c05Changed(s, "cat/pkg/Makefile")
		}
	case "pkg4":
		t.Write("cat/pkg/Makefile", c05Makefile(r, 1+r.Intn(4)))
		t.Write("cat/pkg/PLIST", c05Plist(r, r.Chance(60), true))
		patch := lines("$"+"NetBSD$", "", "Documented "+Pick(r, []string{"patch", "change", "fix for the build"})+".", "--- a/file.c", "+++ b/file.c",
			"@@ -1,3 +1,3 @@", " context", "-old", "+new"+fmt.Sprint(r.Intn(100)), " context")
		t.Write("cat/pkg/patches/patch-file.c", patch)
		t.Write("cat/pkg/distinfo", lines("$"+"NetBSD$", "", "BLAKE2s (distfile-1.0.tar.gz) = 12341234", "SHA512 (distfile-1.0.tar.gz) = 12341234",
			"Size (distfile-1.0.tar.gz) = 12341234 bytes", "SHA1 (patch-file.c) = "+strings.Repeat(Pick(r, []string{"0", "a", "12"}), 40)[:40]))
		s.Expect = func(s *c05Scenario, prog []c05Action, out string) string {
			return c05Changed(s, "cat/pkg/Makefile", "cat/pkg/PLIST", "cat/pkg/distinfo", "cat/pkg/patches/patch-file.c")
		}
	case "plist-sort":
		t.Write("cat/pkg/PLIST", c05Plist(r, true, false))
		s.Expect = func(s *c05Scenario, prog []c05Action, out string) string {
			if !strings.Contains(out, "Sorting the whole file") {
				return "PLIST was not sorted"
			}
			return ""
		}
	case "chmod":
		mode := Pick(r, []fs.FileMode{0o755, 0o744, 0o775, 0o711, 0o654})
		if mkFixed = r.Bool(); mkFixed {
			t.Write("cat/pkg/Makefile", c05Makefile(r, 1+r.Intn(2)))
		}
		os.Chmod(t.Path("cat/pkg/Makefile"), mode)
		if r.Chance(30) {
			os.Chmod(t.Path("cat/pkg/DESCR"), 0o755)
			s.Args = []string{"-Wall", "-F", "cat/pkg", "cat/pkg/DESCR"}
		}
		s.Expect = func(s *c05Scenario, prog []c05Action, out string) string {
			if !strings.Contains(out, "Clearing executable bits") {
				return "no executable bit was cleared"
			}
			return ""
		}
	case "stale-tmp":
		// a file of the user's that happens to bear the temporary name (known finding)
		pl := c05Plist(r, true, r.Bool())
		t.Write("cat/pkg/PLIST", pl)
		s.Twin = filepath.Join(filepath.Dir(root), "twin")
		NewBaseTree(s.Twin).Write("cat/pkg/PLIST", pl)
		// longer than the new PLIST: a save that does not truncate shows as well
		t.Write("cat/pkg/PLIST.pkglint.tmp", strings.Repeat("precious "+fmt.Sprint(r.Intn(1000))+"\n", 60))
		s.ExpectErr = "ERROR: cat/pkg/PLIST.pkglint.tmp: Cannot write: "
		s.Expect = func(s *c05Scenario, prog []c05Action, out string) string {
			if len(prog) == 0 || !prog[0].NoData {
				return "the save of PLIST was not refused"
			}
			return ""
		}
	}
	if tmpKind != "" {
		c05PlantForeign(s, t, r, baseName, tmpKind, mkFixed)
	}
	if linkSpec != "" {
		c05PlantLinks(s, t, r, linkSpec)
	}
	s.Old = c05ReadTree(root)
	s.OldSnap = Snapshot(root)
	return s
}

// c05Changed: the complete undisturbed run changed the content of each of the files
// (decided on the final tree, without any trace); "" = yes.
func c05Changed(s *c05Scenario, files ...string) string {
	for _, f := range files {
		if s.Final[f].Data == s.Old[f].Data {
			return "the complete run did not change " + f
		}
	}
	return ""
}

// c05ReadTree: the tree as a map path -> entry, the model's fsmap: every regular file,
// every symbolic link (lstat view) and every directory that bears a temporary name
// (the other directories are the implicit parents of the paths; their loss is
// c05DirsLost's business).
func c05ReadTree(root string) map[string]c05File {
	m := map[string]c05File{}
	c05ReadInto(m, root, root)
	// link scenarios: the directory next to the tree that link targets "outside the tree" live in
	if out := filepath.Join(filepath.Dir(root), "outside"); root != "" {
		if _, err := os.Lstat(out); err == nil {
			c05ReadInto(m, root, out)
		}
	}
	return m
}

func c05ReadInto(m map[string]c05File, root, dir string) {
	filepath.Walk(dir, func(p string, info fs.FileInfo, err error) error {
		if err != nil {
			return nil
		}
		rel, _ := filepath.Rel(root, p)
		switch {
		case info.Mode().IsRegular():
			b, _ := os.ReadFile(p)
			m[rel] = c05File{Data: string(b), Mode: int(info.Mode().Perm())}
		case info.Mode()&fs.ModeSymlink != 0:
			l, _ := os.Readlink(p)
			m[rel] = c05File{Data: l, Mode: int(info.Mode().Perm()), Kind: "L"}
		case info.IsDir() && strings.HasSuffix(rel, ".pkglint.tmp"):
			m[rel] = c05File{Mode: int(info.Mode().Perm()), Kind: "D"}
		}
		return nil
	})
}

func c05KindLetter(f c05File) string {
	if f.Kind == "" {
		return "F"
	}
	return f.Kind
}

// ---------- running under strace ----------

type c05Run struct {
	RunResult
	CorrOK  bool // baseline only: the projected trace equals the model's operation list
	Root    string
	Ops     []c05Op
	Trace   *straceTrace
	After   map[string]c05File
	Snap    map[string]Entry
	OffMain int
}

var c05DirSeq struct {
	sync.Mutex
	n int
}

func c05Fresh(ctx *Ctx, s *c05Scenario) string {
	c05DirSeq.Lock()
	c05DirSeq.n++
	n := c05DirSeq.n
	c05DirSeq.Unlock()
	d := filepath.Join(ctx.Work, "c05", fmt.Sprintf("run%d", n))
	os.MkdirAll(d, 0o755)
	root := filepath.Join(d, "pkgsrc")
	if err := CopyTree(s.Base, root); err != nil {
		panic(err)
	}
	if out := filepath.Join(filepath.Dir(s.Base), "outside"); s.Links {
		if _, err := os.Lstat(out); err == nil {
			if err := CopyTree(out, filepath.Join(d, "outside")); err != nil {
				panic(err)
			}
		}
	}
	return root
}

// c05Strace runs pkglint in a fresh copy of the scenario tree under strace.
// target != nil: only the calls touching target's path are traced, counted and
// tampered with; action = "error=ENOSYS:signal=SIGKILL" or "error=<errno>".
// fsize > 0: the traced process runs with that RLIMIT_FSIZE (through prlimit(1)).
func c05Strace(ctx *Ctx, s *c05Scenario, target *c05Op, baseRoot string, action string, fsize int) *c05Run {
	root := c05Fresh(ctx, s)
	defer os.RemoveAll(filepath.Dir(root))
	tracefile := filepath.Join(filepath.Dir(root), "trace")
	args := []string{"-f", "-o", tracefile, "-xx", "-s", "1048576", "-e", "trace=%file,%desc"}
	if target != nil {
		p := target.PPath
		if strings.HasPrefix(p, baseRoot+"/") {
			p = root + p[len(baseRoot):]
		}
		args = append(args, "-P", p)
		if target.RawPath != "" && target.RawPath != p && !filepath.IsAbs(target.RawPath) {
			args = append(args, "-P", target.RawPath)
		}
		args = append(args, "-e", fmt.Sprintf("inject=%s:%s:when=%d", target.Sys, action, target.Nth))
	}
	if fsize > 0 {
		args = append(args, "/usr/bin/prlimit", fmt.Sprintf("--fsize=%d", fsize))
	}
	args = append(args, ctx.Pkglint)
	args = append(args, s.Args...)
	cmd := exec.Command("/usr/bin/strace", args...)
	cmd.Dir = root
	cmd.Env = append(os.Environ(), "PKGSRCDIR=", "HOME="+root, "GOMAXPROCS=1", "GOMEMLIMIT=2GiB")
	var ob, eb strings.Builder
	cmd.Stdout, cmd.Stderr = &ob, &eb
	t0 := time.Now()
	done := make(chan error, 1)
	if err := cmd.Start(); err != nil {
		return &c05Run{RunResult: RunResult{Exit: -2, Stderr: err.Error()}}
	}
	go func() { done <- cmd.Wait() }()
	run := &c05Run{Root: root}
	select {
	case <-done:
	case <-time.After(30 * time.Second):
		cmd.Process.Kill()
		<-done
		run.TimedOut = true
	}
	run.Stdout, run.Stderr, run.Wall = ob.String(), eb.String(), time.Since(t0)
	if ws, ok := cmd.ProcessState.Sys().(syscall.WaitStatus); ok && ws.Signaled() {
		run.Signal, run.Exit = ws.Signal().String(), -1
	} else {
		run.Exit = cmd.ProcessState.ExitCode()
	}
	text, _ := os.ReadFile(tracefile)
	run.Trace = parseStrace(string(text))
	run.Ops = projectTrace(run.Trace, root)
	main := 0
	if len(run.Trace.Calls) > 0 {
		main = run.Trace.Calls[0].Pid
	}
	for _, o := range run.Ops {
		if o.Pid != main {
			run.OffMain++
		}
	}
	run.After = c05ReadTree(root)
	run.Snap = Snapshot(root)
	return run
}

// ---------- talking to the extracted model ----------

func c05InitTokens(old map[string]c05File, umask int) string {
	var sb strings.Builder
	for _, p := range sortedKeys(old) {
		fmt.Fprintf(&sb, "%s %s %s %d ", c05KindLetter(old[p]), hx(p), hx(old[p].Data), old[p].Mode)
	}
	fmt.Fprintf(&sb, "U %d", umask)
	return sb.String()
}

func c05ProgTokens(prog []c05Action) string {
	var ss []string
	for _, a := range prog {
		if a.Kind != "M" {
			ss = append(ss, fmt.Sprintf("%s %s %s", a.Kind, hx(a.Path), hx(a.Data)))
		} else {
			ss = append(ss, fmt.Sprintf("M %s %d", hx(a.Path), a.Mode))
		}
	}
	return strings.Join(ss, " ")
}

func c05IsOpen(o c05Op) bool { return o.Kind == "o" || o.Kind == "e" || o.Kind == "x" && o.OpenLike }

// a chmod of a *.pkglint.tmp file is a step of a save; any other chmod is the mode fix
func c05IsModeFix(o c05Op) bool { return o.Kind == "m" && !strings.HasSuffix(o.A, ".pkglint.tmp") }

// c05MergeWrites joins consecutive successful writes through the same descriptor
// (and a final failing one) into a single write of the concatenated bytes.
func c05MergeWrites(ops []c05Op) []c05Op {
	var out []c05Op
	for _, o := range ops {
		if n := len(out); o.Kind == "w" && n > 0 && out[n-1].Kind == "w" && out[n-1].Fd == o.Fd && out[n-1].Res == "ok" {
			out[n-1].Data += o.Data
			out[n-1].Res = o.Res
			out[n-1].Injected = out[n-1].Injected || o.Injected
			continue
		}
		out = append(out, o)
	}
	return out
}

func c05OpTokens(ops []c05Op) string {
	var ss []string
	for _, o := range ops {
		ss = append(ss, o.Token())
	}
	return strings.Join(ss, " ")
}

func c05ParseListing(s string) (map[string]c05File, bool) {
	m := map[string]c05File{}
	f := strings.Fields(s)
	if len(f)%4 != 0 {
		return nil, false
	}
	for i := 0; i < len(f); i += 4 {
		if f[i] != "F" && f[i] != "D" && f[i] != "L" {
			return nil, false
		}
		mode, _ := strconv.Atoi(f[i+3])
		kind := f[i]
		if kind == "F" {
			kind = ""
		}
		m[unhx(f[i+1])] = c05File{Data: unhx(f[i+2]), Mode: mode, Kind: kind}
	}
	return m, true
}

func c05Oracle1(ctx *Ctx, req string) (string, error) {
	ans, err := runOracle(ctx, "c05", []string{req})
	if err != nil {
		return "", err
	}
	if strings.HasPrefix(ans[0], "ERR") || strings.HasPrefix(ans[0], "EXC") {
		return "", fmt.Errorf("oracle c05: %s on %.200s", ans[0], req)
	}
	return ans[0], nil
}

// the saves and mode changes seen in an operation list: every open of X.pkglint.tmp
// (or of X itself, when the suffix is missing) starts a save of X with the bytes
// written through that descriptor; every chmod is a mode fix
func c05ProgOf(ops []c05Op, old map[string]c05File) []c05Action {
	var prog []c05Action
	open := map[int]int{} // canonical fd -> index into prog
	for _, o := range ops {
		if c05IsOpen(o) && o.Res == "EEXIST" {
			// the temporary name is taken: the save is refused; its content never shows
			prog = append(prog, c05Action{Kind: "S", Path: strings.TrimSuffix(o.A, ".pkglint.tmp"), NoData: true})
			continue
		}
		if o.Res != "ok" {
			continue
		}
		kind := o.Kind
		if c05IsOpen(o) {
			kind = "o"
		}
		if kind == "m" && !c05IsModeFix(o) {
			continue // the save carries the mode of the original over to its temporary file
		}
		switch kind {
		case "o":
			open[o.Fd] = len(prog)
			prog = append(prog, c05Action{Kind: "S", Path: strings.TrimSuffix(o.A, ".pkglint.tmp")})
		case "w":
			if i, ok := open[o.Fd]; ok {
				prog[i].Data += o.Data
			}
		case "c":
			delete(open, o.Fd)
		case "m":
			prog = append(prog, c05Action{Kind: "M", Path: o.A, Mode: old[o.A].Mode})
		}
	}
	// patches.go: `if SaveAutofixChanges(ck.lines) && pkg != nil { pkg.AutofixDistinfo(...) }`:
	// the distinfo update that follows the save of a patch happens only if that save succeeded
	for i := 1; i < len(prog); i++ {
		if prog[i].Kind == "S" && filepath.Base(prog[i].Path) == "distinfo" && prog[i-1].Kind == "S" &&
			strings.HasPrefix(filepath.Base(prog[i-1].Path), "patch-") && filepath.Base(filepath.Dir(prog[i-1].Path)) == "patches" {
			prog[i].Kind = "T"
		}
	}
	return prog
}

// c05CleanSaves lists the saves in ops[from:] that went through completely and
// undisturbed: open, writes, close, rename all succeeded.
func c05CleanSaves(ops []c05Op, from int) []c05Action {
	var out []c05Action
	type st struct {
		tmp, data string
		closed    bool
	}
	open := map[int]*st{}
	done := map[string]*st{} // tmp path -> written and closed
	for _, o := range ops[from:] {
		kind := o.Kind
		if c05IsOpen(o) {
			kind = "o"
		}
		switch kind {
		case "o":
			delete(done, o.A)
			if o.Res == "ok" {
				open[o.Fd] = &st{tmp: o.A}
			}
		case "w":
			if f := open[o.Fd]; f != nil {
				if o.Res == "ok" {
					f.data += o.Data
				} else {
					delete(open, o.Fd)
				}
			}
		case "c":
			if f := open[o.Fd]; f != nil {
				delete(open, o.Fd)
				if o.Res == "ok" {
					done[f.tmp] = f
				}
			}
		case "r":
			if f := done[o.A]; f != nil && o.Res == "ok" {
				out = append(out, c05Action{Kind: "S", Path: o.B, Data: f.data})
			}
			delete(done, o.A)
		}
	}
	return out
}

func c05DiffFiles(a, b map[string]c05File) []string {
	var d []string
	for p, fa := range a {
		fb, ok := b[p]
		switch {
		case !ok:
			d = append(d, p+" (missing)")
		case fa.Kind != fb.Kind:
			d = append(d, fmt.Sprintf("%s (kind %s/%s)", p, c05KindLetter(fa), c05KindLetter(fb)))
		case fa.Data != fb.Data:
			d = append(d, p+" (content)")
		case fa.Mode != fb.Mode:
			d = append(d, fmt.Sprintf("%s (mode %#o/%#o)", p, fa.Mode, fb.Mode))
		}
	}
	for p := range b {
		if _, ok := a[p]; !ok {
			d = append(d, p+" (extra)")
		}
	}
	sort.Strings(d)
	return d
}

// specBad asks the extracted specification (first_bad) whether the tree `cur`
// is acceptable after a run of prog on old; it returns the offending path.
func c05SpecBad(ctx *Ctx, s *c05Scenario, umask int, prog []c05Action, cur map[string]c05File) (string, error) {
	// "new content" is, first of all, what the complete undisturbed run leaves
	// (known without any trace); the saves seen in the trace add the
	// intermediate contents of files that are saved more than once
	old := s.Old
	var known []c05Action
	for _, a := range prog {
		if !a.NoData {
			known = append(known, a)
		}
	}
	prog = known
	for _, p := range sortedKeys(s.Final) {
		if o, ok := s.Old[p]; ok && o.Data != s.Final[p].Data {
			prog = append(prog, c05Action{Kind: "S", Path: p, Data: s.Final[p].Data})
		}
	}
	req := "snap / " + c05InitTokens(old, umask) + " / " + c05ProgTokens(prog) + " / " + c05InitTokens(cur, umask)
	a, err := c05Oracle1(ctx, req)
	if err != nil {
		return "", err
	}
	if a == "ok" {
		return "", nil
	}
	return unhx(strings.TrimPrefix(a, "bad ")), nil
}

// ---------- the check ----------

type c05State struct {
	ctx    *Ctx
	res    *Result
	umask  int
	mu     sync.Mutex
	cross  []c05Cross  // cases for the extraction cross-check
	lcross []c05LCross // link-model cases for the same cross-check
	elines []string    // ERROR lines of failed saves seen on stderr (for error_line)
}

func (st *c05State) evals(n, validated int) {
	st.mu.Lock()
	st.res.Evaluations += n
	st.res.TracesValidated += validated
	st.mu.Unlock()
}

func (st *c05State) broken(why string) {
	st.mu.Lock()
	if st.res.Broken == "" {
		st.res.Broken = why
	}
	st.mu.Unlock()
}

// implViolation: an assertion of the harness about the IMPLEMENTATION failed, so the
// correspondence cannot be established for this scenario: a Violation without a failing
// input (exit 1), never a broken check (exit 2).
func (st *c05State) implViolation(s *c05Scenario, key, assertion, what string) {
	rep := st.replayMap(s, "plain", -1, "")
	rep["broken"] = "correspondence: " + assertion
	st.res.AddViolation(Violation{Key: key, FoundInput: false, Size: 1, Replay: rep,
		What: fmt.Sprintf("scenario %s: %s: %s", s.Name, assertion, what)})
}

func (st *c05State) replayMap(s *c05Scenario, mode string, k int, errno string) map[string]any {
	files := map[string]any{}
	for p, f := range s.Old {
		if strings.HasPrefix(p, "cat/pkg/") {
			files[p] = map[string]any{"data": hx(f.Data), "mode": f.Mode, "kind": f.Kind}
		}
	}
	// the tree = base fixture (harness/tree.go NewBaseTree) with cat/pkg/ replaced by `files`
	return map[string]any{"scenario": s.Name, "variant": s.Variant, "scenario_seed": fmt.Sprint(s.Seed), "mode": mode, "k": k, "errno": errno,
		"argv": strings.Join(s.Args, " "), "files": files}
}

// unperturbed runs, trace = model, crash sweep of the observed trace.
// Returns the traced run and the program (saves, chmods) it performed.
func (st *c05State) baseline(s *c05Scenario) (*c05Run, []c05Action, bool) {
	ctx, res := st.ctx, st.res
	// plain run, no strace: the reference result
	root := c05Fresh(ctx, s)
	plain := RunPkglint(ctx, root, 30*time.Second, s.Args...)
	plainAfter := c05ReadTree(root)
	os.RemoveAll(filepath.Dir(root))
	s.Final = plainAfter
	if s.Twin != "" {
		tw := RunPkglint(ctx, s.Twin, 30*time.Second, s.Args...)
		if tw.Exit != plain.Exit && s.Blocked == nil { // a planted entry may draw diagnostics of its own
			// the refused save changes the exit status: TechErrorf does not count as an error
			// (Model.FsProto.tech_error: no counter).  An assertion about the implementation:
			// a Violation, never a broken check; the stream judge below decides about the input.
			st.implViolation(s, "C05/correspondence/refused-save-exit-status", "the refused save does not change the exit status (Logger.TechErrorf is not counted)",
				fmt.Sprintf("`pkglint %s` exits with %d, the same run without the entry at the temporary name with %d", strings.Join(s.Args, " "), plain.Exit, tw.Exit))
		}
		s.Final = c05ReadTree(s.Twin)
	}
	if plain.TimedOut {
		res.Broken = fmt.Sprintf("scenario %s: plain run timed out", s.Name)
		return nil, nil, false
	}
	if plain.Exit < 0 || plain.Exit > 1 {
		st.implViolation(s, "C05/complete-run/abnormal-exit", "the undisturbed run ends normally",
			fmt.Sprintf("`pkglint %s`: exit=%d signal=%s stderr=%.300s", strings.Join(s.Args, " "), plain.Exit, plain.Signal, plain.Stderr))
		return nil, nil, false
	}
	st.streamJudge(s, "complete-run", -1, "", plain.Stdout, plain.Stderr, fmt.Sprintf("`pkglint %s`", strings.Join(s.Args, " ")))
	run := c05Strace(ctx, s, nil, "", "", 0)
	if run.TimedOut {
		res.Broken = fmt.Sprintf("scenario %s: run under strace timed out", s.Name)
		return nil, nil, false
	}
	if run.Exit != plain.Exit || run.Stdout != plain.Stdout || len(c05DiffFiles(plainAfter, run.After)) > 0 {
		st.implViolation(s, "C05/correspondence/nondeterministic-run", "two undisturbed runs on the same tree (one of them under strace) behave alike",
			fmt.Sprintf("exit %d/%d, tree diff %v", run.Exit, plain.Exit, c05DiffFiles(plainAfter, run.After)))
		return nil, nil, false
	}
	if len(run.Trace.Unparsed) > 0 {
		res.Broken = fmt.Sprintf("scenario %s: %d unparsed strace lines, first: %.200s", s.Name, len(run.Trace.Unparsed), run.Trace.Unparsed[0])
		return nil, nil, false
	}
	res.Count("trace_calls", len(run.Trace.Calls))
	res.Count("mutating_ops_observed", len(run.Ops))
	res.Count("ops_off_main_thread", run.OffMain)
	prog := c05ProgOf(run.Ops, s.Old)
	for _, a := range prog {
		res.Count("action_"+a.Kind, 1)
	}
	if len(run.Ops) == 0 {
		// the scenario produced no mutating system call at all: nothing can be checked
		why := "no mutating system call inside the tree"
		if s.Expect != nil {
			why += "; " + s.Expect(s, prog, run.Stdout)
		}
		st.implViolation(s, "C05/coverage/"+s.Name, "coverage floor of scenario "+s.Name, fmt.Sprintf("`pkglint %s`: %s", strings.Join(s.Args, " "), why))
		return nil, nil, false
	}
	for _, want := range append([]string{s.ExpectErr}, s.ExpectErrs...) {
		if want != "" && !strings.Contains(plain.Stderr, want) {
			rep := st.replayMap(s, "plain", -1, "")
			res.AddViolation(Violation{Key: "C05/complete-run/no-error-line", FoundInput: true, Size: 1, Replay: rep,
				What: fmt.Sprintf("scenario %s: `pkglint %s` does not report %q on stderr (%q)", s.Name, strings.Join(s.Args, " "), want, c05Short(plain.Stderr))})
			break
		}
	}
	if s.Expect != nil {
		if why := s.Expect(s, prog, run.Stdout); why != "" {
			// reported, but the kill and fault runs below go on: they judge the
			// property on real trees, independently of what the scenario was meant to reach
			res.AddViolation(Violation{Key: "C05/coverage/" + s.Name, What: "scenario " + s.Name + " no longer reaches its fix sites: " + why, FoundInput: false,
				Replay: map[string]any{"broken": "coverage floor of scenario " + s.Name, "scenario": s.Name, "observed": c05OpsString(run.Ops)}})
		}
	}
	// the complete, undisturbed run is the last crash point: old-or-new, nothing lost
	if bad, err := c05SpecBad(ctx, s, st.umask, prog, plainAfter); err != nil {
		st.broken(err.Error())
		return nil, nil, false
	} else if bad != "" {
		what := "has disappeared"
		if f, ok := plainAfter[bad]; ok {
			what = fmt.Sprintf("holds %q, neither its old nor a new content", c05Short(f.Data))
		}
		rep := st.replayMap(s, "plain", -1, "")
		rep["file"] = bad
		key := "C05/complete-run/" + s.Name
		res.AddViolation(Violation{Key: key, FoundInput: true, Size: 1, Replay: rep,
			What: fmt.Sprintf("scenario %s: after a complete, undisturbed `pkglint %s` the file %s %s", s.Name, strings.Join(s.Args, " "), bad, what)})
	}
	// ... and every entry that does not belong to the run is exactly as before
	st.foreignCheck(s, prog, plainAfter, true, "complete-run", st.replayMap(s, "plain", -1, ""), 1,
		fmt.Sprintf("after a complete, undisturbed `pkglint %s`", strings.Join(s.Args, " ")))
	// the program is cross-checked against what can be seen without the trace:
	// changed files = saved or chmodded files, last saved content = final content,
	// every touched file is named in an AUTOFIX line
	last := map[string]string{}
	touched := map[string]bool{}
	for _, a := range prog {
		if a.NoData {
			continue
		}
		touched[a.Path] = true
		if a.Kind != "M" {
			last[a.Path] = a.Data
		}
	}
	var indep []string
	for _, d := range c05DiffFiles(s.Old, plainAfter) {
		p := d[:strings.LastIndex(d, " (")]
		if !touched[p] && !touched[strings.TrimSuffix(p, ".pkglint.tmp")] {
			indep = append(indep, "changed but not in the trace: "+d)
		}
	}
	for p, data := range last {
		if f, ok := plainAfter[p]; !ok || f.Data != data {
			indep = append(indep, "last saved content is not the final content of "+p)
		}
	}
	for p := range touched {
		if !strings.Contains(plain.Stdout, "AUTOFIX: "+p+":") {
			indep = append(indep, "no AUTOFIX line for "+p)
		}
	}
	sort.Strings(indep)
	init := c05InitTokens(s.Old, st.umask)
	progT := c05ProgTokens(prog)
	// the model's run from the same tree without any fault: system calls with their
	// results (the only error it can meet is EEXIST at the exclusive open)
	nofaultReq := "fault / " + init + " / " + progT + " / -1 0 EIO"
	if s.Links {
		// the link-aware model: Model.FsLinks.lrun from the same tree (links carry the entry they refer to)
		nofaultReq = "lfault / " + c05LinkInitTokens(s.Old, st.umask) + " / " + c05LinkProgTokens(s, prog) + " / N"
		res.Count("link_model_runs", 1)
	}
	nofault, err := c05Oracle1(ctx, nofaultReq)
	if err != nil {
		st.broken(err.Error())
		return nil, nil, false
	}
	nfParts := strings.Split(nofault+" ", " / ")
	model := strings.TrimSpace(nfParts[0])
	st.evals(1, 1)
	obs := c05OpTokens(run.Ops)
	shape := ""
	for _, o := range run.Ops {
		if o.Kind == "x" && shape == "" {
			shape = o.Desc
		}
	}
	// several write() calls through one descriptor are the model's one Write
	var obsRes []string
	for _, o := range c05MergeWrites(run.Ops) {
		obsRes = append(obsRes, o.Token()+" ="+o.Res)
	}
	if len(nfParts) == 3 {
		if n, m := strings.Count(run.Stderr, "ERROR: "), len(strings.Fields(nfParts[1]))/2; n != m {
			indep = append(indep, fmt.Sprintf("%d ERROR lines, the model has %d", n, m))
		}
	}
	corrOK := model == strings.Join(obsRes, " ") && len(indep) == 0
	run.CorrOK = corrOK
	if !corrOK {
		what := "observed: " + c05OpsString(run.Ops)
		if len(indep) > 0 {
			what = strings.Join(indep, "; ") + "; " + what
		}
		rep := st.replayMap(s, "trace", -1, "")
		rep["broken"] = "correspondence: projected strace trace = Model.FsProto.prog_ops"
		rep["observed"] = c05OpsString(run.Ops)
		key := "C05/correspondence/trace/" + s.Name
		if shape != "" {
			// a mutating system call that has no counterpart in the model
			key = "C05/correspondence/trace-shape"
			what = "system call outside the model's vocabulary: " + shape + "; " + what
			rep["shape"] = shape
		}
		res.AddViolation(Violation{Key: key, FoundInput: false, Size: len(run.Ops),
			What: fmt.Sprintf("scenario %s: the mutating system calls differ from the model's save protocol; %.600s", s.Name, what), Replay: rep})
	} else {
		res.Count("trace_equals_model", 1)
	}
	// final state of the model = final tree
	if fa, err := c05Oracle1(ctx, nofaultReq); err != nil {
		st.broken(err.Error())
		return nil, nil, false
	} else if corrOK {
		parts := strings.Split(fa, " / ")
		fin, ok := c05ParseListing(parts[len(parts)-1])
		after := run.After
		if s.Links {
			after = c05CanonLinks(after)
		}
		if !ok || len(c05DiffFiles(fin, after)) > 0 {
			rep := st.replayMap(s, "trace", -1, "")
			rep["broken"] = "correspondence: final tree = final state of Model.FsProto.run"
			res.AddViolation(Violation{Key: "C05/correspondence/final-state/" + s.Name, FoundInput: false,
				What: fmt.Sprintf("scenario %s: final tree differs from the model's final state: %v", s.Name, c05DiffFiles(fin, run.After)), Replay: rep})
		}
	}
	// the extracted crash checker over every prefix of the observed operations
	modelable := true
	for _, o := range run.Ops {
		if o.Kind == "x" {
			modelable = false
		}
	}
	if modelable {
		specProg := append([]c05Action{}, prog...)
		for _, p := range sortedKeys(s.Final) {
			if o, ok := s.Old[p]; ok && o.Data != s.Final[p].Data {
				specProg = append(specProg, c05Action{Kind: "S", Path: p, Data: s.Final[p].Data})
			}
		}
		a, err := c05Oracle1(ctx, "crash / "+init+" / "+c05ProgTokens(specProg)+" / "+obs)
		if err != nil {
			st.broken(err.Error())
			return nil, nil, false
		}
		st.evals(1, 0)
		if strings.HasPrefix(a, "ok ") {
			n, _ := strconv.Atoi(a[3:])
			res.Count("crash_points_of_observed_traces_checked_by_model", n)
		} else {
			f := strings.Fields(a)
			rep := st.replayMap(s, "trace", -1, "")
			rep["broken"] = "Spec.CrashSpec.check_crashes on the observed trace"
			rep["crash_point"] = a
			bad := ""
			if len(f) > 2 {
				bad = unhx(f[2])
			}
			res.AddViolation(Violation{Key: "C05/observed-trace/crash-spec/" + s.Name, FoundInput: false,
				What: fmt.Sprintf("scenario %s: a prefix of the observed system calls leaves %s neither old nor new (crash point %s of: %s)", s.Name, bad, f[1], c05OpsString(run.Ops)), Replay: rep})
		}
	}
	return run, prog, true
}

func c05OpKindName(o c05Op) string {
	switch o.Kind {
	case "o", "e":
		return "open"
	case "w":
		return "write"
	case "c":
		return "close"
	case "r":
		return "rename"
	case "m":
		return "chmod"
	case "u":
		return "unlink"
	}
	return "other"
}

// kill the process right before the k-th (0-based) mutating operation takes effect
func (st *c05State) kill(s *c05Scenario, base *c05Run, prog []c05Action, k int) (hit int) {
	ctx, res := st.ctx, st.res
	target := base.Ops[k]
	var run *c05Run
	hit = -1
	for attempt := 0; attempt < 6 && hit < 0; attempt++ {
		run = c05Strace(ctx, s, &target, base.Root, "error=ENOSYS:signal=SIGKILL", 0)
		if n := len(run.Ops); n > 0 && run.Ops[n-1].Res == "?" && run.Signal != "" && !run.TimedOut {
			hit = c05Locate(base, run, n-1)
			// the perturbed trace shows the calls on the target's file only; up to the
			// kill they must be the ones of the unperturbed run, or the run is not
			// the crash point it seems to be (restarted calls, a watchdog kill, ...)
			if hit >= 0 && !c05SamePrefix(base, run, hit, n-1) {
				hit = -1
				res.Count("kill_run_discarded_inconsistent", 1)
			}
		}
	}
	st.evals(1, 0)
	if hit < 0 {
		res.Count("kill_missed", 1)
		return -1
	}
	if hit != k {
		res.Count("kill_hit_other_k", 1)
	}
	hitOp := base.Ops[hit]
	res.Count("kill_before_"+c05OpKindName(hitOp), 1)
	done := base.Ops[:hit]
	// the property itself, decided by the extracted specification
	bad, err := c05SpecBad(ctx, s, st.umask, prog, run.After)
	if err != nil {
		st.broken(err.Error())
		return hit
	}
	dirsLost := c05DirsLost(s.OldSnap, run.Snap)
	if bad != "" || len(dirsLost) > 0 {
		what := "missing"
		if f, ok := run.After[bad]; ok {
			what = fmt.Sprintf("content %q is neither the old nor a new one", c05Short(f.Data))
		}
		if bad == "" {
			bad, what = dirsLost[0], "directory missing"
		}
		kind := "content"
		if _, ok := run.After[bad]; !ok {
			kind = "missing"
		}
		rep := st.replayMap(s, "kill", hit, "")
		rep["file"] = bad
		rep["done"] = c05OpsString(done)
		key := fmt.Sprintf("C05/kill-before-%s/%s", c05OpKindName(hitOp), kind)
		res.AddViolation(Violation{Key: key, FoundInput: true, Size: 10*len(done) + len(s.Args),
			What: fmt.Sprintf("scenario %s, pkglint %s killed before its mutating system call #%d (%s), after [%s]: %s: %s",
				s.Name, strings.Join(s.Args, " "), hit, hitOp, c05OpsString(done), bad, what), Replay: rep})
		return hit
	}
	// entries that do not belong to the run are as before (a temporary file of the run's own may exist)
	if st.foreignCheck(s, prog, run.After, false, "kill", st.replayMap(s, "kill", hit, ""), 10*len(done)+len(s.Args),
		fmt.Sprintf("pkglint %s killed before its mutating system call #%d (%s), after [%s]", strings.Join(s.Args, " "), hit, hitOp, c05OpsString(done))) {
		return hit
	}
	// the tree is exactly the model's state after the completed operations
	modelable := true
	for _, o := range done {
		if o.Kind == "x" {
			modelable = false
		}
	}
	if modelable {
		a, err := c05Oracle1(ctx, "state / "+c05InitTokens(s.Old, st.umask)+" / "+c05OpTokens(done))
		if err != nil {
			st.broken(err.Error())
			return hit
		}
		ms, ok := c05ParseListing(a)
		if d := c05DiffFiles(ms, run.After); !ok || len(d) > 0 {
			rep := st.replayMap(s, "kill", hit, "")
			rep["broken"] = "correspondence: tree after kill = Model.FsProto.exec (completed operations)"
			rep["perturbed_trace"] = c05OpsString(run.Ops)
			rep["target"] = fmt.Sprintf("%s when=%d on %s", target.Sys, target.Nth, target.PPath)
			res.AddViolation(Violation{Key: "C05/correspondence/kill-state", FoundInput: false, Size: len(done),
				What: fmt.Sprintf("scenario %s killed before op #%d: tree differs from the model state: %v", s.Name, hit, d), Replay: rep})
		} else {
			st.evals(0, 1)
		}
	}
	return hit
}

// c05SamePrefix: the operations before index i of the path-filtered perturbed
// trace are exactly the operations before index k of the unperturbed trace that
// touch the same file.
func c05SamePrefix(base, run *c05Run, k, i int) bool {
	relPath := func(r *c05Run, o c05Op) string { return strings.TrimPrefix(o.PPath, r.Root+"/") }
	file := relPath(run, run.Ops[i])
	var want, got []string
	for _, o := range base.Ops[:k] {
		if relPath(base, o) == file || o.Kind == "r" && (o.A == file || o.B == file) {
			want = append(want, o.Token()+"="+o.Res)
		}
	}
	for _, o := range run.Ops[:i] {
		got = append(got, o.Token()+"="+o.Res)
	}
	return strings.Join(want, " ") == strings.Join(got, " ")
}

// c05Locate maps operation i of a perturbed, path-filtered trace back to the
// index of the same operation in the unperturbed trace: the j-th operation of
// that kind on that file.  -1 when the unperturbed trace has no such operation.
func c05Locate(base, run *c05Run, i int) int {
	relPath := func(r *c05Run, o c05Op) string { return strings.TrimPrefix(o.PPath, r.Root+"/") }
	want := run.Ops[i]
	j := 0
	for _, o := range run.Ops[:i] {
		if o.Kind == want.Kind && o.Sys == want.Sys && relPath(run, o) == relPath(run, want) {
			j++
		}
	}
	for k, o := range base.Ops {
		if o.Kind == want.Kind && o.Sys == want.Sys && relPath(base, o) == relPath(run, want) {
			if j == 0 {
				return k
			}
			j--
		}
	}
	return -1
}

func c05DirsLost(old, cur map[string]Entry) []string {
	var d []string
	for p, e := range old {
		if e.Kind == "d" {
			if c, ok := cur[p]; !ok || c.Kind != "d" {
				d = append(d, p)
			}
		}
	}
	sort.Strings(d)
	return d
}

func c05Short(s string) string {
	if len(s) > 60 {
		return s[:60] + "..."
	}
	return s
}

// let the k-th mutating operation fail with errno
func (st *c05State) fault(s *c05Scenario, base *c05Run, prog []c05Action, k int, errno string) bool {
	ctx, res := st.ctx, st.res
	target := base.Ops[k]
	var run *c05Run
	hit := -1
	for attempt := 0; attempt < 6 && hit < 0; attempt++ {
		run = c05Strace(ctx, s, &target, base.Root, "error="+errno, 0)
		// strace counts `when=` per thread: when Go has moved the main goroutine
		// to another thread, that thread's first matching call fails as well.
		// Only runs with exactly one injected failure are single-fault runs.
		ninj := 0
		for i, o := range run.Ops {
			if o.Injected {
				ninj++
				if ninj == 1 {
					hit = c05Locate(base, run, i)
					if hit >= 0 && !c05SamePrefix(base, run, hit, i) {
						hit = -1
						ninj = -1000 // inconsistent with the unperturbed run: discard
					}
				}
			}
		}
		if ninj != 1 {
			hit = -1
			res.Count("fault_run_discarded_not_single", 1)
		}
	}
	st.evals(1, 0)
	if hit < 0 {
		res.Count("fault_missed", 1)
		return false
	}
	if hit != k {
		res.Count("fault_hit_other_k", 1)
	}
	hitOp := base.Ops[hit]
	opk := c05OpKindName(hitOp)
	res.Count("fault_"+opk+"_"+errno, 1)
	rep := st.replayMap(s, "fault", hit, errno)
	rep["observed"] = c05OpsString(run.Ops)
	rep["stderr"] = c05Short(run.Stderr)
	keyp := fmt.Sprintf("C05/fault-%s-%s/", opk, errno)
	where := fmt.Sprintf("scenario %s, pkglint %s with mutating system call #%d (%s) failing with %s", s.Name, strings.Join(s.Args, " "), hit, hitOp, errno)
	if run.TimedOut {
		res.Count("fault_run_timed_out", 1) // machine load, not a finding
		return false
	}
	if run.Signal != "" {
		res.AddViolation(Violation{Key: keyp + "crash", FoundInput: true, Size: 10 * hit, Replay: rep,
			What: fmt.Sprintf("%s: process ended by signal %s", where, run.Signal)})
		return true
	}
	// A failed save changes what the run does afterwards: plist.go saves the
	// unsorted lines when the save of the sorted ones failed (`if !sorter.autofixed`),
	// patches.go updates distinfo only after a successful save of the patch, and
	// AutofixDistinfo re-reads distinfo from disk.  Every save that this run
	// performs completely and undisturbed (open, writes, close, rename all
	// succeed) installs a legitimate new content.
	failed := c05FailedPath(base.Ops, hit)
	inj := 0
	for i, o := range run.Ops {
		if o.Injected {
			inj = i
		}
	}
	var later []c05Action
	for _, a := range c05CleanSaves(run.Ops, inj+1) {
		if a.Path == failed {
			later = append(later, a)
		}
	}
	progF := append(append([]c05Action{}, prog...), later...)
	if act := c05ActionOf(base.Ops, hit); act >= 0 && act < len(prog) {
		expected := 0
		for _, a := range prog[act+1:] {
			if a.Kind != "M" && a.Path == failed {
				expected++
			}
		}
		if len(later) > expected {
			res.Count("fallback_save_after_failed_save", 1)
		}
	}
	// 1. the property: old-or-new for every original file, nothing missing
	bad, err := c05SpecBad(ctx, s, st.umask, progF, run.After)
	if err != nil {
		st.broken(err.Error())
		return true
	}
	if dl := c05DirsLost(s.OldSnap, run.Snap); bad == "" && len(dl) > 0 {
		bad = dl[0]
	}
	if bad != "" {
		kind, what := "missing", "missing"
		if f, ok := run.After[bad]; ok {
			kind, what = "content", fmt.Sprintf("content %q is neither the old nor a new one", c05Short(f.Data))
		}
		rep["file"] = bad
		res.AddViolation(Violation{Key: keyp + kind, FoundInput: true, Size: 10 * hit, Replay: rep, What: fmt.Sprintf("%s: %s: %s", where, bad, what)})
		return true
	}
	// 1b. entries that do not belong to the run are exactly as before; no temporary file of the run is left
	if st.foreignCheck(s, progF, run.After, true, "fault", rep, 10*hit, where) {
		return true
	}
	// 2. the failure is reported on stderr
	if !c05HasSaveError(run.Stderr) {
		rep["stdout"] = c05Short(run.Stdout)
		res.AddViolation(Violation{Key: keyp + "no-error-line", FoundInput: true, Size: 10 * hit, Replay: rep,
			What: fmt.Sprintf("%s: no ERROR line about the failure on stderr (stderr %q, stdout %q)", where, c05Short(run.Stderr), c05Short(run.Stdout))})
		return true
	}
	if st.streamJudge(s, "fault", hit, errno, run.Stdout, run.Stderr, where) {
		return true
	}
	// 3. the failed save leaves the file untouched: it holds what it held before
	// that save (the old content, or the content of an earlier save of this run),
	// unless a later save of this run replaced it
	// (decidable from the trace only when the run follows the model's protocol)
	if !c05IsModeFix(hitOp) && base.CorrOK {
		want := s.Old[failed].Data
		for _, a := range c05CleanSaves(base.Ops[:hit], 0) {
			if a.Path == failed {
				want = a.Data
			}
		}
		if len(later) > 0 {
			want = later[len(later)-1].Data
		}
		if f, ok := run.After[failed]; !ok || f.Data != want {
			rep["file"] = failed
			res.AddViolation(Violation{Key: keyp + "failed-file-changed", FoundInput: true, Size: 10 * hit, Replay: rep,
				What: fmt.Sprintf("%s: %s was changed although its save failed (content %q)", where, failed, c05Short(f.Data))})
			return true
		}
		res.Count("failed_file_untouched", 1)
	}
	// 4. the model of the failed action under the same fault: same system calls
	// with the same results, one ERROR line naming the same path, the same
	// temporary file left behind, unchanged exit status
	if !base.CorrOK {
		return true // the protocol itself differs from the model's: already reported
	}
	if hitOp.Res != "ok" {
		return true // this call fails anyway (EEXIST): the local model of a free name does not apply
	}
	var diffs []string
	start := hit
	for start > 0 && !c05IsModeFix(hitOp) && !c05IsOpen(base.Ops[start]) {
		start--
	}
	// several write() calls are the model's one Write: a failure of a later one is a
	// failing Write after `short` bytes
	seg := c05MergeWrites(base.Ops[start : hit+1])
	local := len(seg) - 1
	short := 0
	if hitOp.Kind == "w" {
		short = len(seg[local].Data) - len(hitOp.Data)
	}
	fOld := c05File{Data: "old", Mode: 0o644}
	var req string
	wdata := ""
	if c05IsModeFix(hitOp) {
		req = fmt.Sprintf("fault / F %s %s %d U %d / M %s %d / 0 0 %s", hx(failed), hx(fOld.Data), s.Old[failed].Mode, st.umask, hx(failed), s.Old[failed].Mode, errno)
	} else {
		data := ""
		for _, o := range base.Ops[start:] {
			if o.Kind == "w" {
				data += o.Data
			} else if !c05IsOpen(o) {
				break
			}
		}
		// the mode the save carries over = the mode of the original at that moment
		for _, o := range base.Ops[start+1:] {
			if c05IsOpen(o) || o.Kind == "r" {
				break
			}
			if o.Kind == "m" {
				fOld.Mode = o.Mode
			}
		}
		wdata = data
		req = fmt.Sprintf("fault / F %s %s %d U %d / S %s %s / %d %d %s", hx(failed), hx(fOld.Data), fOld.Mode, st.umask, hx(failed), hx(data), local, short, errno)
		if s.Links && s.Old[failed].Kind == "L" && !c05RenamedBefore(base.Ops[:start], failed) {
			// the failed file is (still) a symbolic link: the link-aware model of this save, the
			// link and the file it refers to in the initial state
			tgt := c05LinkKey(failed, s.Old[failed].Data)
			req = fmt.Sprintf("lfault / L %s %s 511 F %s %s %d U %d / S %s %s / F %d %d %s", hx(failed), hx(tgt), hx(tgt), hx(fOld.Data), fOld.Mode, st.umask, hx(failed), hx(data), local, short, errno)
			res.Count("link_model_fault_runs", 1)
		}
	}
	a, err := c05Oracle1(ctx, req)
	if err != nil {
		st.broken(err.Error())
		return true
	}
	parts := strings.Split(a+" ", " / ")
	if len(parts) != 3 {
		st.broken("unexpected oracle answer " + a)
		return true
	}
	// the operations of the failed action in the perturbed trace: from `local`
	// operations before the injected one up to the next open (or the end)
	var obs []string
	mrun := c05MergeWrites(run.Ops)
	minj := 0
	for i, o := range mrun {
		if o.Injected {
			minj = i
		}
	}
	if minj-local >= 0 {
		for i := minj - local; i < len(mrun); i++ {
			if i > minj && (c05IsOpen(mrun[i]) || c05IsModeFix(hitOp)) {
				break
			}
			if o := mrun[i]; i > minj && !c05IsModeFix(hitOp) && (o.Kind == "m" || o.Kind == "u" || o.Kind == "r") && o.A != base.Ops[start].A {
				break // a call of another save that merely touches the same path
			}
			o := mrun[i]
			if o.Kind == "w" && o.Res != "ok" && strings.HasPrefix(wdata, o.Data) {
				o.Data = wdata // a failing chunk of several: the model's Write names all the bytes
			}
			obs = append(obs, o.Token()+" ="+o.Res)
		}
	}
	if strings.TrimSpace(parts[0]) != strings.Join(obs, " ") {
		diffs = append(diffs, "the system calls of the failed action differ from the model's: "+c05OpsString(run.Ops))
	}
	ef := strings.Fields(parts[1])
	// (when the undisturbed run already reports errors -- refused saves -- their number
	// after the fault depends on code outside the anchors)
	if nerr := strings.Count(run.Stderr, "ERROR: "); len(ef)/2 != nerr && !strings.Contains(base.Stderr, "ERROR: ") {
		diffs = append(diffs, fmt.Sprintf("%d ERROR lines, model %d", nerr, len(ef)/2))
	}
	for i := 0; i+1 < len(ef); i += 2 {
		if !strings.Contains(run.Stderr, "ERROR: "+unhx(ef[i+1])+": ") {
			diffs = append(diffs, "no ERROR line for "+unhx(ef[i+1]))
		}
	}
	if fin, ok := c05ParseListing(strings.TrimSpace(parts[2])); !ok {
		diffs = append(diffs, "bad listing")
	} else if !c05IsModeFix(hitOp) && len(later) == 0 {
		// what the failed save leaves behind under its temporary name
		mt, mok := fin[failed+".pkglint.tmp"]
		rt, rok := run.After[failed+".pkglint.tmp"]
		if mok != rok || mt.Data != rt.Data {
			diffs = append(diffs, fmt.Sprintf("temporary file: exists=%v %q, model exists=%v %q", rok, c05Short(rt.Data), mok, c05Short(mt.Data)))
		}
	}
	if run.Exit != base.Exit {
		diffs = append(diffs, fmt.Sprintf("exit status %d, without the fault %d (the model's TechErrorf does not touch it)", run.Exit, base.Exit))
	}
	if len(diffs) > 0 {
		rep["broken"] = "correspondence: the failed action under an injected error = Model.FsProto.save_one / chmod_fix with that fault plan"
		res.AddViolation(Violation{Key: "C05/correspondence/fault-" + opk, FoundInput: false, Size: 10 * hit, Replay: rep,
			What: fmt.Sprintf("%s: %s", where, strings.Join(diffs, "; "))})
	} else {
		st.evals(0, 1)
	}
	return true
}

// c05ActionOf: the index of the action (save or mode fix, in the order of c05ProgOf)
// that issues operation number `op` of the unperturbed run.
func c05ActionOf(ops []c05Op, op int) int {
	act := -1
	for i, o := range ops {
		if c05IsOpen(o) || c05IsModeFix(o) {
			act++
		}
		if i == op {
			return act
		}
	}
	return -1
}

// the file whose save contains operation i: the rename target / the tmp file's base
func c05FailedPath(ops []c05Op, i int) string {
	o := ops[i]
	switch o.Kind {
	case "o", "e", "m", "u":
		return strings.TrimSuffix(o.A, ".pkglint.tmp")
	case "r":
		return o.B
	case "x":
		if o.OpenLike {
			return strings.TrimSuffix(o.A, ".pkglint.tmp")
		}
		return ""
	}
	for j := i - 1; j >= 0; j-- {
		if c05IsOpen(ops[j]) && ops[j].Fd == o.Fd {
			return strings.TrimSuffix(ops[j].A, ".pkglint.tmp")
		}
	}
	return ""
}

// a real short write: RLIMIT_FSIZE makes the kernel accept only the first
// `limit` bytes; Go's retry of the rest raises SIGXFSZ, the runtime dies
func (st *c05State) shortWrite(s *c05Scenario, prog []c05Action, limit int) {
	ctx, res := st.ctx, st.res
	run := c05Strace(ctx, s, nil, "", "", limit)
	st.evals(1, 0)
	short := false
	for _, o := range run.Ops {
		if o.Kind == "w" && o.Res == "ok" && len(o.Data) == limit {
			short = true
		}
	}
	if !short {
		res.Count("short_write_missed", 1)
		return
	}
	res.Count("short_write_runs", 1)
	bad, err := c05SpecBad(ctx, s, st.umask, prog, run.After)
	if err != nil {
		st.broken(err.Error())
		return
	}
	if bad != "" {
		rep := st.replayMap(s, "short", limit, "")
		rep["file"] = bad
		rep["observed"] = c05OpsString(run.Ops)
		res.AddViolation(Violation{Key: "C05/short-write/content", FoundInput: true, Size: limit, Replay: rep,
			What: fmt.Sprintf("scenario %s with RLIMIT_FSIZE=%d (short write, then SIGXFSZ): %s is neither old nor new; observed %s", s.Name, limit, bad, c05OpsString(run.Ops))})
		return
	}
	if st.foreignCheck(s, prog, run.After, false, "short-write", st.replayMap(s, "short", limit, ""), limit,
		fmt.Sprintf("with RLIMIT_FSIZE=%d (short write, then SIGXFSZ)", limit)) {
		return
	}
	if run.Signal == "" && !run.TimedOut {
		// the Go runtime ignores SIGXFSZ: the write fails with EFBIG and the run goes on --
		// a real I/O error without any injection.  It must be reported on stderr, not on stdout.
		res.Count("short_write_runs_survived_EFBIG", 1)
		where := fmt.Sprintf("scenario %s, pkglint %s with RLIMIT_FSIZE=%d (write fails with EFBIG)", s.Name, strings.Join(s.Args, " "), limit)
		if !c05HasSaveError(run.Stderr) {
			rep := st.replayMap(s, "short", limit, "")
			rep["stderr"], rep["stdout"] = c05Short(run.Stderr), c05Short(run.Stdout)
			res.AddViolation(Violation{Key: "C05/short-write/no-error-line", FoundInput: true, Size: limit, Replay: rep,
				What: fmt.Sprintf("%s: no ERROR line about the failure on stderr (stderr %q, stdout %q)", where, c05Short(run.Stderr), c05Short(run.Stdout))})
			return
		}
		st.streamJudge(s, "short-write", limit, "", run.Stdout, run.Stderr, where)
	}
}

func c05Umask() int {
	m := syscall.Umask(0o22)
	syscall.Umask(m)
	return m
}

func (st *c05State) scenario(name string, variant int, thorough bool, rng *Rng) {
	ctx, res := st.ctx, st.res
	s := c05Build(name, variant, ctx.Seed, filepath.Join(ctx.Work, "c05", fmt.Sprintf("base-%s-%d", name, variant), "pkgsrc"))
	base, prog, ok := st.baseline(s)
	if !ok || res.Broken != "" {
		return
	}
	res.Count("scenario_"+name, 1)
	if len(res.Samples) < 8 {
		res.Sample(map[string]any{"scenario": name, "variant": variant, "argv": strings.Join(s.Args, " "), "ops": c05OpsString(base.Ops)})
	}
	n := len(base.Ops)
	// crash points: all of them (a run costs 0.1 s); fault points: every
	// operation with every errno (thorough) or with two errnos in rotation (quick)
	type job struct {
		k     int
		errno string
	}
	var jobs []job
	errnos := []string{"ENOSPC", "EIO", "EACCES", "EXDEV"}
	for k := 0; k < n; k++ {
		jobs = append(jobs, job{k, ""})
		if base.Ops[k].PPath == "" || base.Ops[k].Nth == 0 {
			continue // cannot be addressed by path
		}
		if thorough {
			for _, e := range errnos {
				jobs = append(jobs, job{k, e})
			}
		} else {
			off := rng.Intn(4)
			jobs = append(jobs, job{k, errnos[(k+off)%4]})
			if s.Blocked == nil && !s.Links { // the foreign-tmp and link scenarios repeat a base scenario: one errno per call there
				jobs = append(jobs, job{k, errnos[(k+off+1+rng.Intn(3))%4]})
			}
		}
	}
	killHit := make([]int, len(jobs))
	parallelFor(len(jobs), func(i int) {
		j := jobs[i]
		if j.errno == "" {
			killHit[i] = st.kill(s, base, prog, j.k)
		} else {
			st.fault(s, base, prog, j.k, j.errno)
		}
	})
	covered := map[int]bool{}
	for i, j := range jobs {
		if j.errno == "" && killHit[i] >= 0 {
			covered[killHit[i]] = true
		}
	}
	res.Count("crash_points_total", n)
	res.Count("crash_points_killed_for_real", len(covered))
	// real short writes on the first saved file
	for _, a := range prog {
		if a.Kind == "S" && len(a.Data) > 8 {
			st.shortWrite(s, prog, len(a.Data)/2)
			if thorough {
				st.shortWrite(s, prog, 1)
				st.shortWrite(s, prog, len(a.Data)-1)
			}
			break
		}
	}
}

func runC05(ctx *Ctx) *Result {
	res := &Result{Rule: "one evaluation = one run of the real pkglint binary under strace (unperturbed / killed before the k-th mutating system call / k-th call failing with an errno / RLIMIT_FSIZE short write) or one run of the extracted crash checker over an observed trace; distinct non-trivial = distinct (scenario, variant, kill|fault|short, k, errno) that really hit a mutating system call inside the tree"}
	if _, err := os.Stat("/usr/bin/strace"); err != nil {
		res.Broken = "strace not installed"
		return res
	}
	st := &c05State{ctx: ctx, res: res, umask: c05Umask()}
	rng := NewRng(ctx.Seed)
	variants := 2
	if ctx.Tier == "thorough" {
		variants = 12
	}
	for v := 0; v < variants; v++ {
		st.c05Streams(v, ctx.Tier == "thorough")
		names := append(append([]string{}, c05Scenarios...), c05ForeignScenarios(ctx.Seed, v, ctx.Tier == "thorough")...)
		names = append(names, c05LinkScenarios(ctx.Seed, v, ctx.Tier == "thorough")...)
		for _, name := range names {
			st.scenario(name, v, ctx.Tier == "thorough", rng)
			if res.Broken != "" {
				return res
			}
		}
	}
	// extraction cross-check: 40 of the judged snapshots, spread over the run (every scenario, all phases)
	if n := len(st.cross); n > 0 {
		var pick []c05Cross
		step := n/40 + 1
		for i := 0; i < n; i += step {
			pick = append(pick, st.cross[i])
		}
		c05CrossCheckExtraction(ctx, res, st.umask, pick)
	}
	if res.Broken == "" {
		c05LinkCrossCheck(ctx, res, st.umask, st.lcross, st.elines)
	}
	dist := 0
	for k, v := range res.Distribution {
		if strings.HasPrefix(k, "kill_before_") || strings.HasPrefix(k, "fault_") && !strings.HasSuffix(k, "missed") && !strings.HasSuffix(k, "other_k") || k == "short_write_runs" {
			dist += v.(int)
		}
	}
	res.DistinctNontrivial = dist
	res.Exhaustive = false
	get := func(k string) int { v, _ := res.Distribution[k].(int); return v }
	others := 0
	for _, v := range res.Violations {
		_ = v
		others++
	}
	if others == 0 {
		// coverage floors of the check itself
		switch {
		case get("crash_points_killed_for_real")*10 < get("crash_points_total")*9:
			res.Broken = fmt.Sprintf("only %d of %d crash points were hit by a real kill", get("crash_points_killed_for_real"), get("crash_points_total"))
		case get("kill_before_rename") < 4 || get("kill_before_write") < 4 || get("kill_before_open") < 4 || get("kill_before_close") < 4 || get("kill_before_chmod") < 1:
			res.Broken = "a kind of crash point was not reached: " + fmt.Sprint(res.Distribution)
		case get("fault_write_ENOSPC")+get("fault_write_EIO") < 1 || get("fault_rename_EXDEV")+get("fault_rename_EACCES") < 1:
			res.Broken = "a kind of fault was not injected: " + fmt.Sprint(res.Distribution)
		}
	}
	res.Assumptions = []string{
		"a system call killed by strace injection (error=ENOSYS:signal=SIGKILL) has no effect; the kernel performs rename(2) atomically and does not tear a write on SIGKILL in a way visible in original files",
		"durability (fsync) is outside the property",
	}
	return res
}

func replayC05(ctx *Ctx, rep map[string]any) *Result {
	res := &Result{Rule: "replay"}
	st := &c05State{ctx: ctx, res: res, umask: c05Umask()}
	name, _ := rep["scenario"].(string)
	variant := 0
	if v, ok := rep["variant"].(float64); ok {
		variant = int(v)
	}
	if ss, ok := rep["scenario_seed"].(string); ok {
		fmt.Sscan(ss, &ctx.Seed)
	}
	k := -1
	if v, ok := rep["k"].(float64); ok {
		k = int(v)
	}
	errno, _ := rep["errno"].(string)
	mode, _ := rep["mode"].(string)
	if name == "" {
		res.Broken = "replay file names no scenario"
		return res
	}
	if name == "streams" {
		var opts []string
		if l, ok := rep["opts"].([]any); ok {
			for _, x := range l {
				if sx, ok := x.(string); ok {
					opts = append(opts, sx)
				}
			}
		}
		fault, _ := rep["fault"].(string)
		st.streamsJob("streams-replay", opts, fault)
		return res
	}
	s := c05Build(name, variant, ctx.Seed, filepath.Join(ctx.Work, "c05", "base-replay", "pkgsrc"))
	if files, ok := rep["files"].(map[string]any); ok && len(files) > 0 {
		// the exact files of the replay win over the regenerated ones
		os.RemoveAll(filepath.Join(s.Base, "cat/pkg"))
		for p, v := range files {
			m, _ := v.(map[string]any)
			data, _ := m["data"].(string)
			mode, _ := m["mode"].(float64)
			kind, _ := m["kind"].(string)
			t := &Tree{Root: s.Base}
			if kind == "D" || kind == "L" {
				os.MkdirAll(filepath.Dir(t.Path(p)), 0o755)
				if kind == "D" {
					os.MkdirAll(t.Path(p), 0o755)
					os.Chmod(t.Path(p), fs.FileMode(int(mode)))
				} else {
					os.Symlink(unhx(data), t.Path(p))
				}
				continue
			}
			t.Write(p, unhx(data))
			os.Chmod(t.Path(p), fs.FileMode(int(mode)))
			if s.Twin != "" && !strings.Contains(p, ".pkglint.tmp") {
				(&Tree{Root: s.Twin}).Write(p, unhx(data))
			}
		}
		if av, ok := rep["argv"].(string); ok && av != "" {
			s.Args = strings.Fields(av)
		}
		s.Old = c05ReadTree(s.Base)
		s.OldSnap = Snapshot(s.Base)
	}
	base, prog, ok := st.baseline(s)
	if !ok || res.Broken != "" || base == nil {
		return res
	}
	switch mode {
	case "kill":
		if k >= 0 && k < len(base.Ops) {
			st.kill(s, base, prog, k)
		}
	case "fault":
		if k >= 0 && k < len(base.Ops) {
			st.fault(s, base, prog, k, errno)
		}
	case "short":
		st.shortWrite(s, prog, k)
	}
	return res
}

func init() { register("C05", runC05, replayC05) }
