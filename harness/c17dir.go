package main

import (
	"encoding/json"
	"fmt"
	"os"
	"path"
	"path/filepath"
	"sort"
	"strconv"
	"strings"

	pkglint "github.com/rillig/pkglint/v23"
)

// C17, makefiles WITH directives: .if [!]defined/empty(X) ... [.else] ... .endif,
// .for, .undef, multiple-inclusion guards (also shared between two fragments, also
// defined by the Makefile before the include), files from mk/.
//
//   model  Model/RedundantDir.v  check_file (NewMkLines over one list of lines:
//          its guard line is honoured) and check_pkg (Package.load: per-file
//          NewMkLines, allLines without a guard line, IsRelevant)
//   spec   Spec/MakeEvalDir.v: make's evaluation of the same lines with the
//          conditions evaluated, .undef executed, .for bodies repeated
//
//   unit layer (in the shard processes): shim VerifC17RedundantDir against the
//          model; every verdict of the real code judged by the evaluator
//   tree layer: the real binary on a written package; pkglint reads a file
//          once, make reads it as often as it is included

type c17DLine struct {
	File   int        `json:"file"`
	Lineno int        `json:"lineno"`
	Kind   string     `json:"kind"` // assign comment include undef if else endif for endfor
	Var    string     `json:"var,omitempty"`
	Op     string     `json:"op,omitempty"`
	Val    []c17Chunk `json:"val,omitempty"`
	Names  []string   `json:"names,omitempty"` // .undef
	Neg    bool       `json:"neg,omitempty"`
	Cond   string     `json:"cond,omitempty"` // defined empty true false
	CVar   string     `json:"cvar,omitempty"`
	N      int        `json:"n,omitempty"` // .for: number of items
	Raw    string     `json:"raw,omitempty"`
}

type c17DProg struct {
	Files []string   `json:"files"`
	Lines []c17DLine `json:"lines"`
}

func c17DInfra(name string) bool { return strings.HasPrefix(name, "mk/") }

func (l c17DLine) Text() string {
	switch l.Kind {
	case "assign":
		return l.Var + l.Op + "\t" + c17Render(l.Val)
	case "undef":
		return ".undef " + strings.Join(l.Names, " ")
	case "if":
		neg := ""
		if l.Neg {
			neg = "!"
		}
		switch l.Cond {
		case "defined", "empty":
			return ".if " + neg + l.Cond + "(" + l.CVar + ")"
		case "true":
			return ".if 1"
		}
		return ".if 0"
	case "else":
		return ".else"
	case "endif":
		return ".endif"
	case "for":
		return ".for i in " + strings.Join([]string{"a", "b", "c"}[:l.N], " ")
	case "endfor":
		return ".endfor"
	}
	return l.Raw
}

func (p c17DProg) word(i int) string {
	l := p.Lines[i]
	infra := "0"
	if c17DInfra(p.Files[l.File]) {
		infra = "1"
	}
	pre := fmt.Sprintf("%d:%d:%s:", l.File, l.Lineno, infra)
	switch l.Kind {
	case "assign":
		w := c17Line{Assign: true, Var: l.Var, Op: l.Op, Val: l.Val}.word() // 0:0:<op>:<var>:<chunks>
		return pre + strings.SplitN(w, ":", 3)[2]
	case "include":
		return pre + "n"
	case "undef":
		hs := make([]string, len(l.Names))
		for k, n := range l.Names {
			hs[k] = hx(n)
		}
		return pre + "u:" + strings.Join(hs, ",")
	case "if":
		neg := "0"
		if l.Neg {
			neg = "1"
		}
		c := map[string]string{"defined": "D" + hx(l.CVar), "empty": "E" + hx(l.CVar), "true": "T", "false": "F"}[l.Cond]
		return pre + "i:" + neg + ":" + c
	case "else":
		return pre + "l"
	case "endif":
		return pre + "f"
	case "for":
		return pre + fmt.Sprintf("r:%d:-", l.N)
	case "endfor":
		return pre + "o"
	}
	return pre + "c"
}

func (p c17DProg) words() string {
	ws := make([]string, len(p.Lines))
	for i := range p.Lines {
		ws[i] = p.word(i)
	}
	return strings.Join(ws, " ")
}

func (p c17DProg) fuel() int { return len(p.Lines) + 2 }

func (p c17DProg) String() string {
	ts := make([]string, len(p.Lines))
	for i, l := range p.Lines {
		ts[i] = fmt.Sprintf("[%s:%d] %s", p.Files[l.File], l.Lineno, strings.ReplaceAll(l.Text(), "\t", " "))
	}
	return strings.Join(ts, " ; ")
}

func (p c17DProg) indices(file string, lineno int) (is []int) {
	for i, l := range p.Lines {
		if p.Files[l.File] == file && l.Lineno == lineno {
			is = append(is, i)
		}
	}
	return
}

// ---------- scenarios ----------

type c17DInclude struct {
	File     int    `json:"file"`     // index into Frags
	Spelling string `json:"spelling"` // text inside .include "..."
}

// one item of the Makefile body: a line, or an include
type c17DItem struct {
	Line *c17DLine    `json:"line,omitempty"`
	Inc  *c17DInclude `json:"inc,omitempty"`
}

type c17DFrag struct {
	Name string     `json:"name"` // CAT/pa/inc.mk | CAT/pa/inc2.mk | mk/CAT-reset.mk
	Body []c17DLine `json:"body"`
}

type c17DScenario struct {
	Main  []c17DItem `json:"main"`
	Frags []c17DFrag `json:"frags"`
	Shape string     `json:"shape"`
}

const c17DMain = "CAT/pa/Makefile"

// view flattens the scenario into the list of lines that are read: the
// Makefile with every included file spliced in.  dedup: a file is spliced only
// the first time it is included (Package.loadIncluded); otherwise every time (make).
// wrap: the body is put between the head and the tail of a package Makefile.
func (sc c17DScenario) view(dedup, wrap bool, cat string) c17DProg {
	var p c17DProg
	p.Files = append(p.Files, strings.ReplaceAll(c17DMain, "CAT", cat))
	for _, f := range sc.Frags {
		p.Files = append(p.Files, strings.ReplaceAll(f.Name, "CAT", cat))
	}
	n := 0
	add := func(l c17DLine) {
		n++
		l.File, l.Lineno = 0, n
		p.Lines = append(p.Lines, l)
	}
	if wrap {
		for _, t := range c17PkgHead {
			add(c17DLine{Kind: "comment", Raw: t})
		}
	}
	seen := map[int]bool{}
	for _, it := range sc.Main {
		if it.Line != nil {
			add(*it.Line)
			continue
		}
		add(c17DLine{Kind: "include", Raw: `.include "` + strings.ReplaceAll(it.Inc.Spelling, "CAT", cat) + `"`})
		if dedup && seen[it.Inc.File] {
			continue
		}
		seen[it.Inc.File] = true
		for k, l := range sc.Frags[it.Inc.File].Body {
			l.File, l.Lineno = it.Inc.File+1, k+1
			p.Lines = append(p.Lines, l)
		}
	}
	if wrap {
		add(c17DLine{Kind: "comment", Raw: ""})
		add(c17DLine{Kind: "include", Raw: `.include "../../mk/bsd.pkg.mk"`})
	}
	return p
}

func (sc c17DScenario) fragAlone(k int, cat string) c17DProg {
	var p c17DProg
	p.Files = []string{strings.ReplaceAll(sc.Frags[k].Name, "CAT", cat)}
	for i, l := range sc.Frags[k].Body {
		l.File, l.Lineno = 0, i+1
		p.Lines = append(p.Lines, l)
	}
	return p
}

var c17DVars = []string{"VA", "VB", "VC"}
var c17DGuards = []string{"INC_MK", "FEATURE", "COMMON_MK"}

func c17DAssign(rng *Rng, nv int, focus bool) c17DLine {
	v := rng.Intn(nv)
	if focus && rng.Chance(65) {
		v = 0
	}
	op := Pick(rng, []string{"=", "=", "=", "?=", "+=", ":=", "!="})
	var val []c17Chunk
	switch k := rng.Intn(10); {
	case k < 6 || op == ":=" || op == "!=":
		val = []c17Chunk{{false, Pick(rng, []string{"a", "a", "b", "a b"})}}
	case k < 9:
		val = []c17Chunk{{true, c17DVars[rng.Intn(nv)]}}
	default:
		val = nil
	}
	return c17DLine{Kind: "assign", Var: c17DVars[v], Op: op, Val: val}
}

func c17DCond(rng *Rng, nv int) c17DLine {
	l := c17DLine{Kind: "if"}
	switch k := rng.Intn(10); {
	case k < 4:
		l.Cond, l.Neg = "defined", rng.Chance(50)
	case k < 7:
		l.Cond, l.Neg = "empty", rng.Chance(50)
	case k < 9:
		l.Cond = "true"
	default:
		l.Cond = "false"
	}
	if l.Cond == "defined" || l.Cond == "empty" {
		if rng.Chance(75) {
			l.CVar = c17DVars[rng.Intn(nv)]
		} else {
			l.CVar = Pick(rng, c17DGuards)
		}
	}
	return l
}

func c17DBlock(rng *Rng, n, nv int, focus bool, depth int) (out []c17DLine) {
	for i := 0; i < n; i++ {
		switch k := rng.Intn(100); {
		case k < 60 || depth >= 2:
			out = append(out, c17DAssign(rng, nv, focus))
		case k < 70:
			v := c17DVars[rng.Intn(nv)]
			if focus && rng.Chance(60) {
				v = c17DVars[0]
			}
			out = append(out, c17DLine{Kind: "undef", Names: []string{v}})
		case k < 86:
			out = append(out, c17DCond(rng, nv))
			out = append(out, c17DBlock(rng, 1+rng.Intn(2), nv, focus, depth+1)...)
			if rng.Chance(30) {
				out = append(out, c17DLine{Kind: "else"})
				out = append(out, c17DBlock(rng, 1+rng.Intn(2), nv, focus, depth+1)...)
			}
			out = append(out, c17DLine{Kind: "endif"})
		case k < 93:
			out = append(out, c17DLine{Kind: "for", N: 1 + rng.Intn(2)})
			out = append(out, c17DBlock(rng, 1+rng.Intn(2), nv, focus, depth+1)...)
			out = append(out, c17DLine{Kind: "endfor"})
		default:
			out = append(out, c17DLine{Kind: "comment", Raw: Pick(rng, []string{"", "# comment"})})
		}
	}
	return
}

// a fragment body; guard != "": the whole body is wrapped in the
// multiple-inclusion guard .if !defined(guard) / guard= yes / ... / .endif;
// broken: a shape that looks like a guard but is none for findGuardLine
func c17DFragBody(rng *Rng, nv int, focus bool, guard string, broken int) []c17DLine {
	body := c17DBlock(rng, 1+rng.Intn(3), nv, focus, 0)
	out := []c17DLine{{Kind: "comment", Raw: "# $NetBSD$"}, {Kind: "comment", Raw: ""}}
	if guard == "" {
		return append(out, body...)
	}
	open := c17DLine{Kind: "if", Cond: "defined", Neg: true, CVar: guard}
	def := c17DLine{Kind: "assign", Var: guard, Op: "=", Val: []c17Chunk{{false, "yes"}}}
	switch broken {
	case 1: // a statement after the .endif
		out = append(out, open, def)
		out = append(out, body...)
		return append(out, c17DLine{Kind: "endif"}, c17DAssign(rng, nv, focus))
	case 2: // an .else branch
		out = append(out, open, def)
		out = append(out, body...)
		out = append(out, c17DLine{Kind: "else"}, c17DAssign(rng, nv, focus))
		return append(out, c17DLine{Kind: "endif"})
	case 3: // defined() without the '!'
		open.Neg = false
	case 4: // a statement before the .if
		out = append(out, c17DAssign(rng, nv, focus))
	}
	out = append(out, open, def)
	out = append(out, body...)
	return append(out, c17DLine{Kind: "endif"})
}

func c17DRandomScenario(rng *Rng) c17DScenario {
	var sc c17DScenario
	nv := 2 + rng.Intn(2)
	focus := rng.Chance(70)
	lines := func(n int) {
		for _, l := range c17DBlock(rng, n, nv, focus, 0) {
			l := l
			sc.Main = append(sc.Main, c17DItem{Line: &l})
		}
	}
	guardOf := func() (string, int) {
		if !rng.Chance(55) {
			return "", 0
		}
		b := 0
		if rng.Chance(20) {
			b = 1 + rng.Intn(4)
		}
		return Pick(rng, c17DGuards), b
	}
	shape := rng.Intn(100)
	switch {
	case shape < 30: // one package fragment, maybe guarded, maybe the Makefile defines the guard first
		g, b := guardOf()
		sc.Shape = "one-fragment"
		if g != "" {
			sc.Shape = "one-guarded-fragment"
			if rng.Chance(35) {
				sc.Shape = "guard-defined-by-makefile"
				l := c17DLine{Kind: "assign", Var: g, Op: "=", Val: []c17Chunk{{false, "yes"}}}
				sc.Main = append(sc.Main, c17DItem{Line: &l})
			}
		}
		sc.Frags = []c17DFrag{{"CAT/pa/inc.mk", c17DFragBody(rng, nv, focus, g, b)}}
		lines(1 + rng.Intn(3))
		sc.Main = append(sc.Main, c17DItem{Inc: &c17DInclude{0, Pick(rng, []string{"inc.mk", "./inc.mk", "../../CAT/pa/inc.mk"})}})
		lines(rng.Intn(3))
	case shape < 55: // two fragments, often with the same guard name
		g1, b1 := guardOf()
		g2, b2 := guardOf()
		sc.Shape = "two-fragments"
		if g1 != "" && rng.Chance(60) {
			g2, b2 = g1, 0
			sc.Shape = "two-fragments-shared-guard"
		}
		sc.Frags = []c17DFrag{{"CAT/pa/inc.mk", c17DFragBody(rng, nv, focus, g1, b1)}, {"CAT/pa/inc2.mk", c17DFragBody(rng, nv, focus, g2, b2)}}
		lines(1 + rng.Intn(2))
		sc.Main = append(sc.Main, c17DItem{Inc: &c17DInclude{0, "inc.mk"}})
		lines(rng.Intn(2))
		sc.Main = append(sc.Main, c17DItem{Inc: &c17DInclude{1, Pick(rng, []string{"inc2.mk", "./inc2.mk"})}})
		lines(rng.Intn(3))
	case shape < 80: // a file from mk/ between the lines of the Makefile
		sc.Shape = "mk-file"
		var body []c17DLine
		body = append(body, c17DLine{Kind: "comment", Raw: "# $NetBSD$"}, c17DLine{Kind: "comment", Raw: ""})
		if rng.Chance(60) {
			sc.Shape = "mk-file-undef"
			v := c17DVars[rng.Intn(nv)]
			if focus {
				v = c17DVars[0]
			}
			body = append(body, c17DLine{Kind: "undef", Names: []string{v}})
			body = append(body, c17DBlock(rng, rng.Intn(2), nv, focus, 0)...)
		} else {
			body = append(body, c17DBlock(rng, 1+rng.Intn(3), nv, focus, 0)...)
		}
		sc.Frags = []c17DFrag{{"mk/CAT-reset.mk", body}}
		lines(1 + rng.Intn(3))
		sc.Main = append(sc.Main, c17DItem{Inc: &c17DInclude{0, "../../mk/CAT-reset.mk"}})
		lines(1 + rng.Intn(3))
	case shape < 90: // the same file twice, under two spellings
		sc.Shape = "same-file-twice"
		g, _ := guardOf()
		sc.Frags = []c17DFrag{{"CAT/pa/inc.mk", c17DFragBody(rng, nv, focus, g, 0)}}
		lines(rng.Intn(3))
		sc.Main = append(sc.Main, c17DItem{Inc: &c17DInclude{0, "inc.mk"}})
		lines(rng.Intn(2))
		sc.Main = append(sc.Main, c17DItem{Inc: &c17DInclude{0, Pick(rng, []string{"./inc.mk", "../../CAT/pa/inc.mk", "../pa/inc.mk"})}})
		lines(rng.Intn(3))
	case shape < 95: // a condition that reads a variable through another one
		sc.Shape = "indirect-condition"
		ref := c17DLine{Kind: "assign", Var: "VB", Op: Pick(rng, []string{"=", "+=", "?="}), Val: []c17Chunk{{true, "VA"}}}
		sc.Main = append(sc.Main, c17DItem{Line: &ref})
		if rng.Chance(40) {
			ref2 := c17DLine{Kind: "assign", Var: "VC", Op: "=", Val: []c17Chunk{{true, "VB"}}}
			sc.Main = append(sc.Main, c17DItem{Line: &ref2})
		}
		nv, focus = 1, true // the lines around the condition assign VA
		lines(1 + rng.Intn(2))
		cnd := c17DLine{Kind: "if", Cond: Pick(rng, []string{"empty", "empty", "defined"}), Neg: rng.Chance(50), CVar: Pick(rng, []string{"VB", "VB", "VC"})}
		body := c17DLine{Kind: "assign", Var: "VD", Op: "=", Val: []c17Chunk{{false, "x"}}}
		end := c17DLine{Kind: "endif"}
		sc.Main = append(sc.Main, c17DItem{Line: &cnd}, c17DItem{Line: &body}, c17DItem{Line: &end})
		lines(1 + rng.Intn(2))
	default: // no include at all
		sc.Shape = "makefile-only"
		lines(3 + rng.Intn(5))
	}
	return sc
}

// the situations of the seeded changes and of B2, as fixed scenarios
func c17DFixedScenarios() []c17DScenario {
	a := func(v, op, s string) c17DLine {
		return c17DLine{Kind: "assign", Var: v, Op: op, Val: []c17Chunk{{false, s}}}
	}
	it := func(l c17DLine) c17DItem { return c17DItem{Line: &l} }
	inc := func(f int, sp string) c17DItem { return c17DItem{Inc: &c17DInclude{f, sp}} }
	nb := []c17DLine{{Kind: "comment", Raw: "# $NetBSD$"}, {Kind: "comment", Raw: ""}}
	guarded := func(g string, body ...c17DLine) []c17DLine {
		out := append([]c17DLine{}, nb...)
		out = append(out, c17DLine{Kind: "if", Cond: "defined", Neg: true, CVar: g}, a(g, "=", "yes"))
		out = append(out, body...)
		return append(out, c17DLine{Kind: "endif"})
	}
	var out []c17DScenario
	for _, g := range []string{"COMMON_MK", "FEATURE"} {
		for _, second := range []c17DLine{a("VA", "=", "b"), a("VA", "=", "a"), a("VA", "?=", "a")} {
			out = append(out, c17DScenario{Shape: "two-fragments-shared-guard",
				Main:  []c17DItem{it(a("VA", "=", "a")), inc(0, "inc.mk"), inc(1, "inc2.mk")},
				Frags: []c17DFrag{{"CAT/pa/inc.mk", guarded(g, a("VB", "+=", "a"))}, {"CAT/pa/inc2.mk", guarded(g, second)}}})
			out = append(out, c17DScenario{Shape: "guard-defined-by-makefile",
				Main:  []c17DItem{it(a(g, "=", "yes")), it(a("VA", "=", "a")), inc(0, "inc.mk"), it(a("VB", "=", "${VA}"))},
				Frags: []c17DFrag{{"CAT/pa/inc.mk", guarded(g, second)}}})
		}
	}
	for _, third := range []c17DLine{a("VA", "=", "a"), a("VA", "?=", "a"), a("VA", "=", "b")} {
		out = append(out, c17DScenario{Shape: "mk-file-undef",
			Main:  []c17DItem{it(a("VA", "=", "a")), inc(0, "../../mk/CAT-reset.mk"), it(third)},
			Frags: []c17DFrag{{"mk/CAT-reset.mk", append(append([]c17DLine{}, nb...), c17DLine{Kind: "undef", Names: []string{"VA"}})}}})
		out = append(out, c17DScenario{Shape: "one-fragment",
			Main:  []c17DItem{it(a("VA", "=", "a")), inc(0, "inc.mk"), it(third)},
			Frags: []c17DFrag{{"CAT/pa/inc.mk", append(append([]c17DLine{}, nb...), c17DLine{Kind: "undef", Names: []string{"VA"}})}}})
		out = append(out, c17DScenario{Shape: "makefile-only",
			Main: []c17DItem{it(a("VA", "=", "a")), it(c17DLine{Kind: "undef", Names: []string{"VA"}}), it(third)}})
	}
	// a condition in a file from mk/ looks at a variable of the package
	for _, cnd := range []c17DLine{{Kind: "if", Cond: "defined", CVar: "VA"}, {Kind: "if", Cond: "defined", Neg: true, CVar: "VA"}, {Kind: "if", Cond: "empty", Neg: true, CVar: "VA"}} {
		for _, loc := range []string{"mk/CAT-reset.mk", "CAT/pa/inc.mk"} {
			sp := "inc.mk"
			if loc != "CAT/pa/inc.mk" {
				sp = "../../" + loc
			}
			out = append(out, c17DScenario{Shape: "condition-in-included-file",
				Main:  []c17DItem{it(a("VA", "=", "a")), inc(0, sp), it(a("VA", "=", "b"))},
				Frags: []c17DFrag{{loc, append(append([]c17DLine{}, nb...), cnd, a("VB", "=", "a"), c17DLine{Kind: "endif"})}}})
		}
	}
	// a condition reads a variable through another one (Var.Refs, eagerly)
	for _, cnd := range []c17DLine{{Kind: "if", Cond: "empty", Neg: true, CVar: "VB"}, {Kind: "if", Cond: "empty", CVar: "VC"}} {
		out = append(out, c17DScenario{Shape: "indirect-condition",
			Main: []c17DItem{it(c17DLine{Kind: "assign", Var: "VB", Op: "=", Val: []c17Chunk{{true, "VA"}}}),
				it(c17DLine{Kind: "assign", Var: "VC", Op: "=", Val: []c17Chunk{{true, "VB"}}}),
				it(a("VA", "=", "a")), it(cnd), it(a("VD", "=", "x")), it(c17DLine{Kind: "endif"}), it(a("VA", "=", "b"))}})
	}
	for _, sp := range []string{"./inc.mk", "../../CAT/pa/inc.mk", "../pa/inc.mk"} {
		out = append(out, c17DScenario{Shape: "same-file-twice",
			Main:  []c17DItem{inc(0, "inc.mk"), inc(0, sp), it(a("VB", "=", "${VA}"))},
			Frags: []c17DFrag{{"CAT/pa/inc.mk", append(append([]c17DLine{}, nb...), a("VA", "=", "a"))}}})
		out = append(out, c17DScenario{Shape: "same-file-twice",
			Main:  []c17DItem{it(a("VA", "=", "b")), inc(0, "inc.mk"), inc(0, sp)},
			Frags: []c17DFrag{{"CAT/pa/inc.mk", append(append([]c17DLine{}, nb...), a("VA", "+=", "a"))}}})
	}
	return out
}

// ---------- verdicts ----------

func c17DParseDiags(p c17DProg, out string) (vs []c17Verdict, unlocated []string) {
	seen := map[c17Verdict]bool{}
	for _, pv := range c17ParseTreeDiags(out) {
		fi, bi := p.indices(pv.FFile, pv.FLine), p.indices(pv.BFile, pv.BLine)
		if len(fi) == 0 || len(bi) == 0 {
			unlocated = append(unlocated, pv.String())
			continue
		}
		v := c17Verdict{fi[0], bi[0], pv.Kind}
		if !seen[v] {
			seen[v] = true
			vs = append(vs, v)
		}
	}
	c17SortVerdicts(vs)
	return
}

type c17DModel struct {
	panicked bool
	verdicts []c17ModelVerdict
}

func c17DParseModel(ans string) (m c17DModel, err error) {
	f := strings.Fields(ans)
	if len(f) == 1 && f[0] == "panic" {
		m.panicked = true
		return
	}
	if len(f) < 2 || f[0] != "ok" || !strings.HasPrefix(f[1], "g") {
		return m, fmt.Errorf("oracle answer %q", ans)
	}
	for _, w := range f[2:] {
		x := strings.Split(w, ":")
		if len(x) != 5 {
			return m, fmt.Errorf("oracle answer %q", ans)
		}
		fl, _ := strconv.Atoi(x[0])
		be, _ := strconv.Atoi(x[1])
		m.verdicts = append(m.verdicts, c17ModelVerdict{c17Verdict: c17Verdict{fl, be, x[2][0]}, sound: x[3] == "S", changed: x[4]})
	}
	sort.Slice(m.verdicts, func(i, j int) bool { return m.verdicts[i].String() < m.verdicts[j].String() })
	return
}

// why an unsound verdict about lines lo < hi of p (the program make reads) is unsound
func c17DClass(p c17DProg, v c17Verdict) string {
	lo, hi := v.Flagged, v.Because
	if lo > hi {
		lo, hi = hi, lo
	}
	x := p.Lines[v.Flagged].Var
	// make reads a file as often as it is included, pkglint reads it once
	count := map[[2]int]int{}
	for _, l := range p.Lines {
		count[[2]int{l.File, l.Lineno}]++
	}
	twice := false
	for i := lo; i <= hi; i++ {
		if l := p.Lines[i]; l.File != 0 && count[[2]int{l.File, l.Lineno}] > 1 {
			twice = true
		}
	}
	depth, inGuardLike := 0, false
	for i, l := range p.Lines {
		switch l.Kind {
		case "if", "for":
			depth++
			if l.Kind == "if" && l.Cond == "defined" && l.Neg && depth == 1 {
				inGuardLike = true
			}
		case "endif", "endfor":
			depth--
			if depth == 0 {
				inGuardLike = false
			}
		}
		if (i == lo || i == hi) && depth > 0 {
			if inGuardLike {
				return "line-inside-inclusion-guard"
			}
			return "line-inside-conditional-section"
		}
		if i > lo && i < hi {
			if l.Kind == "undef" && len(l.Names) > 0 && l.Names[0] == x {
				if c17DInfra(p.Files[l.File]) {
					return "across-undef-in-mk-file"
				}
				return "across-undef"
			}
			if l.Kind == "if" && l.CVar == x && c17DInfra(p.Files[l.File]) {
				return "condition-in-mk-file-reads-variable"
			}
		}
	}
	if twice {
		return "file-included-twice"
	}
	return "other"
}

func c17DReplay(sc *c17DScenario, p c17DProg, mode string, extra map[string]any) map[string]any {
	r := map[string]any{"kind": "dprogram", "layer": "dir", "mode": mode, "text": p.String()}
	data, _ := json.Marshal(p)
	r["dprogram"] = hx(string(data))
	if sc != nil {
		data, _ := json.Marshal(sc)
		r["dscenario"] = hx(string(data))
	}
	for k, v := range extra {
		r[k] = v
	}
	return r
}

type c17DCase struct {
	sc   *c17DScenario
	mode string   // file | pkg | binary
	seen c17DProg // what pkglint reads (a file once)
	read c17DProg // what make reads
	out  string
	pan  string
}

func c17DRunShim(p c17DProg, asPackage bool) (string, string) {
	lines := make([]pkglint.VerifC17Line, len(p.Lines))
	for i, l := range p.Lines {
		lines[i] = pkglint.VerifC17Line{File: p.Files[l.File], Lineno: l.Lineno, Text: l.Text()}
	}
	return pkglint.VerifC17RedundantDir(lines, asPackage)
}

// c17DJudge: model = code on what pkglint reads; every verdict of the code
// judged by the evaluator on what make reads.
func c17DJudge(ctx *Ctx, res *Result, cases []c17DCase) {
	var reqs []string
	for _, c := range cases {
		cmd := "chkk"
		if c.mode == "file" {
			cmd = "chkf"
		}
		reqs = append(reqs, fmt.Sprintf("%s %d %s", cmd, c.seen.fuel(), c.seen.words()))
	}
	ans, err := runOracle(ctx, "c17", reqs)
	if err != nil {
		res.Broken = err.Error()
		return
	}
	type question struct {
		c         int
		v         c17Verdict // indices into read
		predicted bool
	}
	var qs []question
	var qreqs []string
	for k, c := range cases {
		res.TracesValidated++
		layer := "dir-" + c.mode
		m, err := c17DParseModel(ans[k])
		if err != nil {
			res.Broken = err.Error()
			return
		}
		res.Count("dir_cases_"+c.mode, 1)
		if c.sc != nil {
			res.Count("dir_"+c.mode+"_shape_"+c.sc.Shape, 1)
		}
		if strings.HasPrefix(strings.Fields(ans[k] + " -")[1], "g") && strings.Fields(ans[k] + " -")[1] != "g-" && c.mode == "file" {
			res.Count("dir_file_guard_line_found", 1)
		}
		if (c.pan != "") != m.panicked {
			res.AddViolation(Violation{Key: "C17/correspondence/panic-" + layer,
				What:       fmt.Sprintf("model panics: %v, code: %q on %s", m.panicked, c.pan, c.seen.String()),
				FoundInput: false, Size: 500 + len(c.seen.Lines), Replay: c17DReplay(c.sc, c.seen, c.mode, map[string]any{"broken": "panic behaviour differs"})})
			continue
		}
		if m.panicked {
			continue
		}
		obs, unloc := c17DParseDiags(c.seen, c.out)
		var ms, os_ []string
		pred := map[string]bool{}
		for _, v := range m.verdicts {
			ms = append(ms, v.c17Verdict.String())
			pred[v.c17Verdict.String()] = true
			res.Count("dir_model_verdicts_"+c.mode, 1)
		}
		for _, v := range obs {
			os_ = append(os_, v.String())
		}
		if len(m.verdicts) > 0 {
			res.Count("dir_"+c.mode+"_cases_with_verdicts", 1)
			if c.sc != nil {
				res.Count("dir_"+c.mode+"_with_verdicts_shape_"+c.sc.Shape, 1)
			}
		}
		sort.Strings(os_)
		if strings.Join(ms, " ") != strings.Join(os_, " ") || len(unloc) > 0 {
			res.AddViolation(Violation{Key: "C17/correspondence/verdicts-" + layer,
				What:       fmt.Sprintf("verdicts of the code %v %v differ from the model %v on %s", os_, unloc, ms, c.seen.String()),
				FoundInput: false, Size: 500 + len(c.seen.Lines),
				Replay: c17DReplay(c.sc, c.seen, c.mode, map[string]any{"broken": "correspondence RedundantScope with directives (" + c.mode + ")", "impl": os_, "model": ms})})
		}
		// the property on the code's verdicts, in the program make reads
		for _, v := range obs {
			fl, be := c.seen.Lines[v.Flagged], c.seen.Lines[v.Because]
			fi := c.read.indices(c.seen.Files[fl.File], fl.Lineno)
			bi := c.read.indices(c.seen.Files[be.File], be.Lineno)
			if len(fi) == 0 || len(bi) == 0 {
				continue
			}
			is := make([]string, len(fi))
			for j, i := range fi {
				is[j] = strconv.Itoa(i)
			}
			qs = append(qs, question{k, c17Verdict{fi[0], bi[0], v.Kind}, pred[v.String()]})
			qreqs = append(qreqs, fmt.Sprintf("sndd %d %s %s", c.read.fuel(), strings.Join(is, ","), c.read.words()))
		}
	}
	ans2, err := runOracle(ctx, "c17", qreqs)
	if err != nil {
		res.Broken = err.Error()
		return
	}
	for k, qn := range qs {
		c := cases[qn.c]
		res.Count("dir_verdicts_judged_"+c.mode, 1)
		res.Count("dir_verdicts_judged_"+string(qn.v.Kind), 1)
		if ans2[k] == "S" {
			continue
		}
		if !strings.HasPrefix(ans2[k], "U:") {
			res.Broken = "oracle answer " + q(ans2[k])
			return
		}
		var vars []string
		for _, h := range strings.Split(ans2[k][2:], ",") {
			vars = append(vars, unhx(h))
		}
		class := c17DClass(c.read, qn.v)
		key := "C17/unsound/directives/" + class
		if !qn.predicted {
			key += "/not-in-model"
		}
		res.Count("unsound_dir_"+class, 1)
		kind := map[byte]string{'R': "is redundant", 'N': "has no effect", 'O': "is overwritten"}[qn.v.Kind]
		fl, be := c.read.Lines[qn.v.Flagged], c.read.Lines[qn.v.Because]
		res.AddViolation(Violation{Key: key,
			What: fmt.Sprintf("pkglint (%s) says %s:%d %s (because of %s:%d), but deleting it changes the final value of %s; as make reads it: %s",
				c.mode, c.read.Files[fl.File], fl.Lineno, kind, c.read.Files[be.File], be.Lineno, strings.Join(vars, ","), c.read.String()),
			FoundInput: true, Size: 500 + 10*len(c.read.Lines),
			Replay: c17DReplay(c.sc, c.seen, c.mode, map[string]any{"verdict": qn.v.String(), "changed": vars})})
	}
}

// unit layer, runs inside a shard process
func c17DUnit(ctx *Ctx, res *Result, rng *Rng) {
	n := 1500
	if ctx.Tier == "thorough" {
		n = 15000
	}
	var cases []c17DCase
	fixed := c17DFixedScenarios()
	for i := 0; i < n+len(fixed); i++ {
		var sc c17DScenario
		if i < len(fixed) {
			sc = fixed[i]
		} else {
			sc = c17DRandomScenario(rng)
		}
		seen, read := sc.view(true, false, "cat"), sc.view(false, false, "cat")
		out, pan := c17DRunShim(seen, true)
		scc := sc
		cases = append(cases, c17DCase{&scc, "pkg", seen, read, out, pan})
		// every fragment on its own, as one MkLines (its guard line is honoured)
		for k := range sc.Frags {
			alone := sc.fragAlone(k, "cat")
			out, pan := c17DRunShim(alone, false)
			cases = append(cases, c17DCase{nil, "file", alone, alone, out, pan})
		}
		res.Evaluations += 1 + len(sc.Frags)
	}
	c17DJudge(ctx, res, cases)
}

// ---------- tree layer: the real binary ----------

func c17DTreeWrite(root, cat string, sc c17DScenario) error {
	os.RemoveAll(filepath.Join(root, cat))
	if err := c17WriteFile(filepath.Join(root, cat, "Makefile"),
		"# $NetBSD$\n\nCOMMENT=\tComment for the category\n\nSUBDIR+=\tpa\n\n.include \"../mk/misc/category.mk\"\n"); err != nil {
		return err
	}
	if err := c17WritePackage(filepath.Join(root, cat, "pa"), nil); err != nil {
		return err
	}
	p := sc.view(true, true, cat)
	texts := make([]strings.Builder, len(p.Files))
	for _, l := range p.Lines {
		texts[l.File].WriteString(l.Text() + "\n")
	}
	for i, f := range p.Files {
		if err := c17WriteFile(filepath.Join(root, f), texts[i].String()); err != nil {
			return err
		}
	}
	return nil
}

func c17DTreeRun(ctx *Ctx, root, cat string, sc c17DScenario) (c17DCase, error) {
	scc := sc
	c := c17DCase{sc: &scc, mode: "binary", seen: sc.view(true, true, cat), read: sc.view(false, true, cat)}
	if err := c17DTreeWrite(root, cat, sc); err != nil {
		return c, err
	}
	out, crashed, err := c17RunBinaryArgs(ctx, root, []string{"-Wall", cat + "/pa"})
	if err != nil {
		return c, fmt.Errorf("%v: %s", err, out)
	}
	c.out, c.pan = out, crashed
	for _, f := range sc.Frags {
		if strings.HasPrefix(f.Name, "mk/") {
			os.Remove(filepath.Join(root, strings.ReplaceAll(f.Name, "CAT", cat)))
		}
	}
	return c, nil
}

func c17DTreeLayer(ctx *Ctx, res *Result) {
	root, err := c17PrepareTree(ctx)
	if err != nil {
		res.Broken = err.Error()
		return
	}
	nrand := 240
	if ctx.Tier == "thorough" {
		nrand = 4000
	}
	rng := NewRng(ctx.Seed ^ 0xd17)
	scs := c17DFixedScenarios()
	for i := 0; i < nrand; i++ {
		scs = append(scs, c17DRandomScenario(rng))
	}
	cases := make([]c17DCase, len(scs))
	errs := make([]string, len(scs))
	const workers = 16
	parallelFor(workers, func(w int) {
		// a pkgsrc tree of its own for every worker: pkglint reads every file below
		// mk/ when it starts, and the scenarios put files there
		cat := fmt.Sprintf("dw%d", w)
		wroot := fmt.Sprintf("%s-d%d", root, w)
		if err := c17Tree(wroot); err != nil {
			errs[w] = err.Error()
			return
		}
		for i := w; i < len(scs); i += workers {
			c, err := c17DTreeRun(ctx, wroot, cat, scs[i])
			if err != nil {
				errs[i] = err.Error()
			}
			cases[i] = c
		}
	})
	for i := range scs {
		if errs[i] != "" {
			res.Broken = "running the real binary failed: " + errs[i]
			return
		}
	}
	res.Evaluations += len(scs)
	c17DJudge(ctx, res, cases)
}

func c17DReplayRun(ctx *Ctx, res *Result, rep map[string]any) {
	mode, _ := rep["mode"].(string)
	var sc c17DScenario
	hasSc := false
	if h, _ := rep["dscenario"].(string); h != "" {
		hasSc = json.Unmarshal([]byte(unhx(h)), &sc) == nil
	}
	var p c17DProg
	if h, _ := rep["dprogram"].(string); h == "" || json.Unmarshal([]byte(unhx(h)), &p) != nil {
		res.Broken = "replay file has no d-program"
		return
	}
	res.Evaluations = 1
	switch {
	case mode == "binary" && hasSc:
		root, err := c17PrepareTree(ctx)
		if err != nil {
			res.Broken = err.Error()
			return
		}
		c, err := c17DTreeRun(ctx, root, "dw0", sc)
		if err != nil {
			res.Broken = err.Error()
			return
		}
		c17DJudge(ctx, res, []c17DCase{c})
	case mode == "pkg" && hasSc:
		seen, read := sc.view(true, false, "cat"), sc.view(false, false, "cat")
		out, pan := c17DRunShim(seen, true)
		c17DJudge(ctx, res, []c17DCase{{&sc, "pkg", seen, read, out, pan}})
	default:
		out, pan := c17DRunShim(p, mode == "pkg")
		c17DJudge(ctx, res, []c17DCase{{nil, mode, p, p, out, pan}})
	}
}

var _ = path.Clean

// ---------- extraction cross-check of the new functions ----------

func c17CoqDProgram(p c17DProg) string {
	opName := map[string]string{"=": "OpAssign", "!=": "OpShell", ":=": "OpEval", "+=": "OpAppend", "?=": "OpDefault"}
	ls := make([]string, len(p.Lines))
	for i, l := range p.Lines {
		body := "DComment"
		switch l.Kind {
		case "assign":
			cs := make([]string, len(l.Val))
			for k, c := range l.Val {
				if c.Ref {
					cs[k] = "Ref " + c17CoqBytes(c.S)
				} else {
					cs[k] = "Lit " + c17CoqBytes(c.S)
				}
			}
			body = fmt.Sprintf("(DAssign (mkAssign %s %s [%s]))", c17CoqBytes(l.Var), opName[l.Op], strings.Join(cs, "; "))
		case "include":
			body = "DInclude"
		case "undef":
			ns := make([]string, len(l.Names))
			for k, n := range l.Names {
				ns[k] = c17CoqBytes(n)
			}
			body = "(DUndef [" + strings.Join(ns, "; ") + "])"
		case "if":
			c := map[string]string{"defined": "(DCDefined " + c17CoqBytes(l.CVar) + ")", "empty": "(DCEmpty " + c17CoqBytes(l.CVar) + ")",
				"true": "(DCConst true)", "false": "(DCConst false)"}[l.Cond]
			body = fmt.Sprintf("(DIf %v %s)", l.Neg, c)
		case "else":
			body = "DElse"
		case "endif":
			body = "DEndif"
		case "for":
			body = fmt.Sprintf("(DFor [] %d%%nat)", l.N)
		case "endfor":
			body = "DEndfor"
		}
		ls[i] = fmt.Sprintf("mkDLine %d %d %v %s", l.File, l.Lineno, c17DInfra(p.Files[l.File]), body)
	}
	return "[" + strings.Join(ls, ";\n   ") + "]"
}

// c17DCrossCheck appends goals about check_pkg, check_file, find_guard and
// changed_vars_d (hence final_d, unroll, blank) to the vm_compute file; the
// expected values are the answers of the extracted oracle.
func c17DCrossCheck(ctx *Ctx, res *Result, sb *strings.Builder) int {
	rng := NewRng(ctx.Seed ^ 0xd1c)
	scs := c17DFixedScenarios()
	if len(scs) > 10 {
		scs = scs[:10]
	}
	for len(scs) < 22 {
		scs = append(scs, c17DRandomScenario(rng))
	}
	type item struct {
		p    c17DProg
		file bool
	}
	var items []item
	for _, sc := range scs {
		items = append(items, item{sc.view(false, false, "cat"), false})
		if len(sc.Frags) > 0 {
			items = append(items, item{sc.fragAlone(0, "cat"), true})
		}
	}
	reqs := make([]string, len(items))
	for i, it := range items {
		cmd := "chkk"
		if it.file {
			cmd = "chkf"
		}
		reqs[i] = fmt.Sprintf("%s %d %s", cmd, it.p.fuel(), it.p.words())
	}
	ans, err := runOracle(ctx, "c17", reqs)
	if err != nil {
		res.Broken = err.Error()
		return 0
	}
	sb.WriteString("From PV Require Import Model.RedundantDir Spec.MakeEvalDir Spec.VerdictSoundDir.\n")
	n := 0
	for i, it := range items {
		f := strings.Fields(ans[i])
		fmt.Fprintf(sb, "Definition dp%d : dprogram :=\n  %s.\n", i, c17CoqDProgram(it.p))
		fn := "check_pkg"
		if it.file {
			fn = "check_file"
		}
		if len(f) == 1 && f[0] == "panic" {
			fmt.Fprintf(sb, "Goal %s dp%d = Panic. Proof. vm_compute. reflexivity. Qed.\n", fn, i)
			n++
			continue
		}
		if len(f) < 2 || f[0] != "ok" {
			res.Broken = "oracle answer " + q(ans[i])
			return 0
		}
		g := "None"
		if f[1] != "g-" {
			g = "(Some " + f[1][1:] + "%nat)"
		}
		fmt.Fprintf(sb, "Goal find_guard dp%d = %s. Proof. vm_compute. reflexivity. Qed.\n", i, g)
		fmt.Fprintf(sb, "Goal %s dp%d = Ok %s. Proof. vm_compute. reflexivity. Qed.\n", fn, i, c17CoqVerdictList(f[2:]))
		var fl, snd []string
		for _, w := range f[2:] {
			x := strings.Split(w, ":")
			fl = append(fl, x[0]+"%nat")
			snd = append(snd, map[bool]string{true: "true", false: "false"}[x[3] == "S"])
		}
		fmt.Fprintf(sb, "Goal map (fun i => match changed_vars_d %d dp%d [i] with [] => true | _ => false end) [%s] = [%s]. Proof. vm_compute. reflexivity. Qed.\n",
			it.p.fuel(), i, strings.Join(fl, "; "), strings.Join(snd, "; "))
		n += 3
	}
	return n
}

// ---------- exhaustive small domain ----------

// c17DAlphabet: the lines of the exhaustive enumeration (one file, two variables)
func c17DAlphabet() []c17DLine {
	var al []c17DLine
	for _, v := range []string{"VA", "VB"} {
		for _, op := range []string{"=", "?="} {
			al = append(al, c17DLine{Kind: "assign", Var: v, Op: op, Val: []c17Chunk{{false, "a"}}})
		}
	}
	al = append(al,
		c17DLine{Kind: "assign", Var: "VA", Op: "=", Val: []c17Chunk{{false, "b"}}},
		c17DLine{Kind: "assign", Var: "VB", Op: "=", Val: []c17Chunk{{true, "VA"}}},
		c17DLine{Kind: "assign", Var: "VB", Op: ":=", Val: []c17Chunk{{false, "a"}}},
		c17DLine{Kind: "undef", Names: []string{"VA"}},
		c17DLine{Kind: "if", Cond: "defined", CVar: "VA"},
		c17DLine{Kind: "if", Cond: "defined", Neg: true, CVar: "VA"},
		c17DLine{Kind: "if", Cond: "defined", Neg: true, CVar: "G_MK"},
		c17DLine{Kind: "if", Cond: "empty", CVar: "VB"},
		c17DLine{Kind: "else"},
		c17DLine{Kind: "endif"},
		c17DLine{Kind: "for", N: 2},
		c17DLine{Kind: "endfor"},
		c17DLine{Kind: "comment", Raw: "# c"},
	)
	return al
}

// every sequence of exactly n lines of the alphabet (also unbalanced ones: the
// code must not panic, make aborts, nothing is deletable or everything is)
func c17DEnumerate(n int, emit func(c17DProg)) {
	al := c17DAlphabet()
	idx := make([]int, n)
	for {
		p := c17DProg{Files: []string{"cat/pa/Makefile"}}
		for k, i := range idx {
			l := al[i]
			l.File, l.Lineno = 0, k+1
			p.Lines = append(p.Lines, l)
		}
		emit(p)
		k := n - 1
		for k >= 0 {
			idx[k]++
			if idx[k] < len(al) {
				break
			}
			idx[k] = 0
			k--
		}
		if k < 0 {
			return
		}
	}
}

func c17DExhaustive(ctx *Ctx, res *Result, spec c17ShardSpec) {
	maxn := 4
	if ctx.Tier == "thorough" {
		maxn = 5
	}
	ord := 0
	var cases []c17DCase
	flush := func() {
		if len(cases) > 0 {
			c17DJudge(ctx, res, cases)
			cases = cases[:0]
		}
	}
	for n := 1; n <= maxn; n++ {
		c17DEnumerate(n, func(p c17DProg) {
			ord++
			if ord%spec.Of != spec.Index {
				return
			}
			res.Evaluations += 2
			res.Count("dir_exhaustive_programs", 1)
			out, pan := c17DRunShim(p, false)
			cases = append(cases, c17DCase{nil, "file", p, p, out, pan})
			out, pan = c17DRunShim(p, true)
			cases = append(cases, c17DCase{nil, "pkg", p, p, out, pan})
			if len(cases) >= 20000 {
				flush()
			}
		})
	}
	flush()
}
