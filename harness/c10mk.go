package main

// C10, make half (part C10mk): MkLexer.MkTokens / Expr / Varname, MkLineParser
// tokenize / unescapeComment / split / matchVarassign / getRawValueAlign,
// MkTokensLexer and VaralignSplitter.split against the extracted model
// (coq/Model/MkLexer.v, MkTokensLexer.v, MkLineSplit.v, VaralignSplit.v), and the
// partition / recombination laws of the property evaluated directly on what the
// implementation returned.
//
// The real functions share the global G (regcomp caches in a map) and may hang:
// they run in worker processes (this binary, runner "C10mk-worker"), one request
// per line on stdin, one answer per line on fd 3, under a wall-clock watchdog in
// the parent.  A worker that stops answering is killed; the request it was
// working on is recorded as a hang and a new worker continues behind it.

import (
	"bufio"
	"fmt"
	"hash/fnv"
	"os"
	"os/exec"
	"sort"
	"strings"
	"sync"
	"sync/atomic"
	"syscall"
	"time"

	pkglint "github.com/rillig/pkglint/v23"
)

// ---------------------------------------------------------------- worker

func c10mkTokens(texts []string, isExpr []bool) string {
	parts := make([]string, len(texts))
	for i, t := range texts {
		k := "T"
		if isExpr[i] {
			k = "E"
		}
		parts[i] = k + hx(t)
	}
	return strings.Join(parts, ",")
}

func b01(b bool) string {
	if b {
		return "1"
	}
	return "0"
}

var c10mkSections = []string{"mt", "ex", "vn", "tk", "tl", "uc", "s1", "s0", "v1", "v0", "va"}

// c10mkSection runs one layer of the real code on s and prints it like the oracle does.
func c10mkSection(sec string, s string) string {
	switch sec {
	case "mt":
		texts, kinds, rest, p := pkglint.VerifMkTokens(s)
		if p != "" {
			return "P"
		}
		return c10mkTokens(texts, kinds) + ";" + hx(rest)
	case "ex":
		found, rest, p := pkglint.VerifMkExpr(s)
		if p != "" {
			return "P"
		}
		if !found {
			if rest != s { // nil but the lexer moved: not expressible as N
				return "N!" + hx(rest)
			}
			return "N"
		}
		return "S" + hx(rest)
	case "vn":
		v, rest, p := pkglint.VerifMkVarname(s)
		if p != "" {
			return "P"
		}
		return hx(v) + ";" + hx(rest)
	case "tk":
		texts, kinds, p := pkglint.VerifMkTokenize(s)
		if p != "" {
			return "P"
		}
		return c10mkTokens(texts, kinds)
	case "tl":
		r0, pieces, kinds, r1, p := pkglint.VerifMkTokensLexer(s)
		if p != "" {
			return "P"
		}
		return hx(r0) + ";" + c10mkTokens(pieces, kinds) + ";" + hx(r1)
	case "uc":
		m, c, p := pkglint.VerifUnescapeComment(s)
		if p != "" {
			return "P"
		}
		return hx(m) + ";" + hx(c)
	case "s1", "s0":
		m, sp, hc, c, p := pkglint.VerifMkSplit(s, sec == "s1")
		if p != "" {
			return "P"
		}
		return hx(m) + ";" + hx(sp) + ";" + b01(hc) + ";" + hx(c)
	case "v1", "v0":
		parts, joined, p := pkglint.VerifVaralignSplit(s, sec == "v1")
		if p != "" {
			return "P"
		}
		out := make([]string, 0, 7)
		for _, x := range parts {
			out = append(out, hx(x))
		}
		if joined != strings.Join(parts[:], "") { // String() must be the concatenation of the parts
			out = append(out, "J"+hx(joined))
		}
		return strings.Join(out, ";")
	case "va":
		a, p := pkglint.VerifMatchVarassign(s)
		if p != "" {
			return "P"
		}
		if !a.Matched {
			return "N"
		}
		align := hx(a.ValueAlign)
		if a.ValueAlignPanic != "" {
			align = "P"
		}
		return strings.Join([]string{"M", b01(a.Commented), hx(a.Varname), hx(a.SpaceAfterVarname), hx(a.Op), hx(a.Value),
			hx(a.Main), hx(a.SpaceBeforeComment), b01(a.HasComment), hx(a.Comment), align}, ";")
	}
	return "?"
}

func c10mkAnswer(req string) string {
	f := strings.Fields(req)
	switch {
	case len(f) == 2 && f[0] == "all":
		s := unhx(f[1])
		out := make([]string, len(c10mkSections))
		for i, sec := range c10mkSections {
			out[i] = sec + "=" + c10mkSection(sec, s)
		}
		return strings.Join(out, " ")
	case len(f) == 3 && f[0] == "one": // one <section> <hex>: used to find out which layer hangs
		return f[1] + "=" + c10mkSection(f[1], unhx(f[2]))
	case len(f) == 2 && f[0] == "ml":
		return c10mlImplAnswer(unhx(f[1]))
	case len(f) == 3 && f[0] == "ra":
		a, p := pkglint.VerifGetRawValueAlign(unhx(f[1]), unhx(f[2]))
		if p != "" {
			return "P"
		}
		return hx(a)
	}
	return "ERR"
}

// runC10mkWorker: requests on stdin, answers on fd 3.
func runC10mkWorker(ctx *Ctx) *Result {
	out := os.NewFile(3, "answers")
	if out == nil {
		return &Result{Broken: "worker: fd 3 missing"}
	}
	w := bufio.NewWriterSize(out, 1<<16)
	var mu sync.Mutex
	go func() { // everything answered so far must be visible when a request hangs
		for {
			time.Sleep(40 * time.Millisecond)
			mu.Lock()
			w.Flush()
			mu.Unlock()
		}
	}()
	pkglint.VerifC10mkReset()
	sc := bufio.NewScanner(os.Stdin)
	sc.Buffer(make([]byte, 1<<16), 1<<24)
	n := 0
	for sc.Scan() {
		if n++; n%5000 == 0 {
			pkglint.VerifC10mkReset() // keep the logger's state small
		}
		a := c10mkAnswer(sc.Text())
		mu.Lock()
		w.WriteString(a)
		w.WriteByte('\n')
		mu.Unlock()
	}
	mu.Lock()
	w.Flush()
	mu.Unlock()
	out.Close()
	return &Result{}
}

// ---------------------------------------------------------------- parent side: workers under a watchdog

const c10mkHang = "HANG"
const c10mkCrash = "CRASH"

// c10mkRunShard answers reqs[lo:hi] into out; a request that gets no answer within
// `limit` is answered HANG (worker killed), a worker that dies is answered CRASH.
// workers killed or dead so far, in the whole run; hangs whose layer was looked up
var c10mkDeaths, c10mkLocated int64

func c10mkRunShard(reqs []string, out []string, lo, hi int, limit time.Duration, budget bool) error {
	pos := lo
	deaths := 0
	for pos < hi {
		if budget && (deaths > 1 || atomic.LoadInt64(&c10mkDeaths) > 6) { // a mutation that hangs everywhere: do not spend the whole budget on it
			for ; pos < hi; pos++ {
				out[pos] = "SKIPPED"
			}
			break
		}
		cmd := exec.Command(os.Args[0], "run", "C10mk-worker", "out=/dev/null")
		cmd.Stdin = strings.NewReader(strings.Join(reqs[pos:hi], "\n") + "\n")
		pr, pw, err := os.Pipe()
		if err != nil {
			return err
		}
		cmd.ExtraFiles = []*os.File{pw}
		if err := cmd.Start(); err != nil {
			pr.Close()
			pw.Close()
			return err
		}
		pw.Close()
		lines := make(chan string, 1024)
		go func() {
			sc := bufio.NewScanner(pr)
			sc.Buffer(make([]byte, 1<<16), 1<<26)
			for sc.Scan() {
				lines <- sc.Text()
			}
			close(lines)
		}()
		timer := time.NewTimer(limit)
		verdict := "" // why this worker stopped before the end of the shard
		for verdict == "" && pos < hi {
			select {
			case l, ok := <-lines:
				if !ok {
					verdict = c10mkCrash // the worker exited without answering reqs[pos]
					break
				}
				out[pos] = l
				pos++
				if !timer.Stop() {
					select {
					case <-timer.C:
					default:
					}
				}
				timer.Reset(limit)
			case <-timer.C:
				verdict = c10mkHang
			}
		}
		timer.Stop()
		cmd.Process.Kill()
		go func() {
			for range lines {
			}
		}()
		cmd.Wait()
		pr.Close()
		if verdict != "" && pos < hi {
			out[pos] = verdict
			pos++
			deaths++
			atomic.AddInt64(&c10mkDeaths, 1)
		}
	}
	return nil
}

// c10mkRunOne: one request on a worker of its own, outside the budget of the run
func c10mkRunOne(req string, out []string, limit time.Duration) {
	c10mkRunShard([]string{req}, out, 0, 1, limit, false)
}

func c10mkRunImpl(reqs []string, limit time.Duration) ([]string, error) {
	out := make([]string, len(reqs))
	nw := 16
	if len(reqs) < 64 {
		nw = 1
	}
	per := (len(reqs) + nw - 1) / nw
	errs := make([]error, nw)
	var wg sync.WaitGroup
	for w := 0; w < nw; w++ {
		lo, hi := w*per, (w+1)*per
		if hi > len(reqs) {
			hi = len(reqs)
		}
		if lo >= hi {
			continue
		}
		wg.Add(1)
		go func(w, lo, hi int) {
			defer wg.Done()
			errs[w] = c10mkRunShard(reqs, out, lo, hi, limit, true)
		}(w, lo, hi)
	}
	wg.Wait()
	for _, e := range errs {
		if e != nil {
			return nil, e
		}
	}
	return out, nil
}

// ---------------------------------------------------------------- the executable specification, in Go

// unescapeHash is Spec/MkPartition.v's unescape_hash (checked against the extracted
// function on every run, see c10mkSelfTest).
func unescapeHash(s string) string { return strings.ReplaceAll(s, "\\#", "#") }

type c10mkTok struct {
	text string
	expr bool
}

func c10mkParseTokens(s string) ([]c10mkTok, bool) {
	if s == "" {
		return nil, true
	}
	var toks []c10mkTok
	for _, f := range strings.Split(s, ",") {
		if len(f) < 2 || (f[0] != 'E' && f[0] != 'T') {
			return nil, false
		}
		toks = append(toks, c10mkTok{unhx(f[1:]), f[0] == 'E'})
	}
	return toks, true
}

func c10mkConcat(toks []c10mkTok) (string, bool) {
	var sb strings.Builder
	nonempty := true
	for _, t := range toks {
		if t.text == "" {
			nonempty = false
		}
		sb.WriteString(t.text)
	}
	return sb.String(), nonempty
}

func isHspaceStr(s string) bool { return strings.Trim(s, " \t") == "" }

// c10mkSpec evaluates the property on one section of the implementation's answer.
// It returns "" when the law holds, otherwise (key suffix, description).
func c10mkSpec(sec, in, ans string) (string, string) {
	if ans == c10mkHang {
		return "hang", "no answer within the watchdog limit"
	}
	if ans == c10mkCrash {
		return "crash", "the worker process died"
	}
	f := strings.Split(ans, ";")
	switch sec {
	case "mt":
		if ans == "P" {
			return "panic", "MkTokens panics"
		}
		if len(f) != 2 {
			return "format", ans
		}
		toks, ok := c10mkParseTokens(f[0])
		cat, ne := c10mkConcat(toks)
		if !ok || !ne || cat+unhx(f[1]) != in {
			return "partition", fmt.Sprintf("token texts %q + rest %q do not partition the input", cat, unhx(f[1]))
		}
	case "ex":
		if ans == "P" {
			return "panic", "Expr panics"
		}
		if ans == "N" {
			return "", ""
		}
		if strings.HasPrefix(ans, "N!") {
			return "advance", "Expr returned nil but moved the lexer"
		}
		rest := unhx(ans[1:])
		if len(rest) >= len(in) || !strings.HasSuffix(in, rest) {
			return "advance", fmt.Sprintf("Expr returned an expression but the rest %q is not a proper suffix", rest)
		}
	case "vn":
		if ans == "P" {
			return "panic", "Varname panics"
		}
		if len(f) != 2 || unhx(f[0])+unhx(f[1]) != in {
			return "partition", "Varname() + Rest() is not the input"
		}
	case "tk":
		if ans == "P" {
			return "panic", "tokenize panics"
		}
		toks, ok := c10mkParseTokens(ans)
		cat, ne := c10mkConcat(toks)
		if !ok || !ne || cat != in {
			return "partition", fmt.Sprintf("token texts %q do not partition the input", cat)
		}
	case "tl":
		if ans == "P" {
			return "panic", "MkTokensLexer panics"
		}
		if len(f) != 3 {
			return "format", ans
		}
		toks, ok := c10mkParseTokens(f[1])
		cat, ne := c10mkConcat(toks)
		if !ok || !ne || unhx(f[0]) != in || cat+unhx(f[2]) != in {
			return "rest", "Rest() of the token lexer does not reproduce the text"
		}
	case "uc":
		if ans == "P" {
			if strings.Contains(in, "\n") { // a Line.Text never contains a newline
				return "", ""
			}
			return "panic", "unescapeComment panics"
		}
		if len(f) != 2 {
			return "format", ans
		}
		main, comment := unhx(f[0]), unhx(f[1])
		if !strings.HasSuffix(in, comment) || (comment != "" && comment[0] != '#') ||
			unescapeHash(in[:len(in)-len(comment)]) != main {
			return "exact", fmt.Sprintf("main %q / comment %q are not the unescaped text before / the text from a '#'", main, comment)
		}
	case "s1", "s0":
		if ans == "P" {
			if strings.HasPrefix(in, "\t") || strings.Contains(in, "\n") {
				return "", ""
			}
			return "panic", "split panics"
		}
		if len(f) != 4 {
			return "format", ans
		}
		main, sp, hc, comment := unhx(f[0]), unhx(f[1]), f[2] == "1", unhx(f[3])
		tail := ""
		if hc {
			tail = "#" + comment
		}
		pre := strings.TrimSuffix(in, tail)
		want := pre
		if sec == "s1" {
			want = unescapeHash(pre)
		}
		if !strings.HasSuffix(in, tail) || (!hc && comment != "") || want != main+sp || !isHspaceStr(sp) ||
			(main != "" && isHspaceStr(main[len(main)-1:])) || (sec == "s0" && hc) {
			return "recombine", fmt.Sprintf("main %q + space %q + comment %q do not recombine", main, sp, tail)
		}
	case "v1", "v0":
		if ans == "P" { // the splitter asserts its precondition (an assignment line); judged against the model
			return "", ""
		}
		if len(f) != 6 {
			return "recombine", "varalignParts.String() is not the concatenation of the parts"
		}
		cat := ""
		for _, x := range f {
			cat += unhx(x)
		}
		if cat != in {
			return "recombine", fmt.Sprintf("the parts concatenate to %q", cat)
		}
	case "va":
		if ans == "P" {
			if strings.HasPrefix(in, "\t") || strings.Contains(in, "\n") {
				return "", ""
			}
			if c10mkSpaceTabComment(in) {
				return "panic-commented-line-after-space-tab", "matchVarassign re-splits text[1:], which starts with a tab: assert in split fails"
			}
			return "panic", "split/tokenize/matchVarassign panics"
		}
		if ans == "N" {
			return "", ""
		}
		if len(f) != 11 {
			return "format", ans
		}
		if strings.Contains(in, "\n") { // not a Line.Text; the splitter asserts that there is no newline
			return "", ""
		}
		varname, value, sp, hc, comment, align := unhx(f[2]), unhx(f[5]), unhx(f[7]), f[8] == "1", unhx(f[9]), f[10]
		if align == "P" {
			if strings.Contains(varname, "#") && strings.Contains(varname, "$") {
				return "valuealign-panic-hash-and-expression-in-varname", "matchVarassign accepts the line but MkLine.ValueAlign() (VaralignSplitter.split) panics"
			}
			if strings.Contains(varname, "#") {
				return "valuealign-panic-escaped-hash-in-varname", "matchVarassign accepts the line but MkLine.ValueAlign() (VaralignSplitter.split) panics"
			}
			if hc && strings.Contains(varname, "$") {
				return "valuealign-panic-expression-reads-comment", "matchVarassign accepts the line but MkLine.ValueAlign() (VaralignSplitter.split re-parses the raw line including the comment) panics"
			}
			return "valuealign-panic", "matchVarassign accepts the line but MkLine.ValueAlign() (VaralignSplitter.split) panics"
		}
		tail := ""
		if hc {
			tail = "#" + comment
		}
		al := unhx(align)
		if !strings.HasPrefix(in, al) || !strings.HasSuffix(in, tail) || len(al)+len(tail) > len(in) ||
			unescapeHash(in[len(al):len(in)-len(tail)]) != value+sp || !isHspaceStr(sp) {
			return "recombine", fmt.Sprintf("alignment %q + value %q + space %q + comment %q do not recombine", al, value, sp, tail)
		}
	}
	return "", ""
}

// c10mkSpaceTabComment: a blank that is not a tab, then a tab, then only blanks up to a
// '#' that is directly followed by something other than a blank.
func c10mkSpaceTabComment(in string) bool {
	if len(in) < 4 || in[0] != ' ' || in[1] != '\t' {
		return false
	}
	rest := strings.TrimLeft(in, " \t")
	return len(rest) >= 2 && rest[0] == '#' && rest[1] != ' ' && rest[1] != '\t'
}

// ---------------------------------------------------------------- judging one case

type c10mkCase struct {
	in   string
	kind string // generator
}

func c10mkSplitSections(line string) map[string]string {
	m := map[string]string{}
	for _, f := range strings.Fields(line) {
		if k, v, ok := strings.Cut(f, "="); ok {
			m[k] = v
		}
	}
	return m
}

var c10mkSecName = map[string]string{"mt": "mktokens", "ex": "expr", "vn": "varname", "tk": "tokenize", "tl": "tokenslexer",
	"uc": "unescapeComment", "s1": "split", "s0": "split-notrim", "v1": "varalign", "v0": "varalign-follow", "va": "varassign"}

// the model's va section carries one more field (the local variable valueAlign)
func c10mkModelVa(m string) string {
	f := strings.Split(m, ";")
	if len(f) == 11 {
		return strings.Join(f[:10], ";")
	}
	return m
}
func c10mkImplVa(a string) string {
	f := strings.Split(a, ";")
	if len(f) == 11 {
		return strings.Join(f[:10], ";")
	}
	return a
}

type c10mkJudge struct {
	ctx   *Ctx
	res   *Result
	seen  map[uint64]struct{}
	mu    sync.Mutex
	limit time.Duration
	cross [][2]string // (input, model answer) for the vm_compute cross-check of the extraction
}

func (j *c10mkJudge) hash(s string) uint64 {
	h := fnv.New64a()
	h.Write([]byte(s))
	return h.Sum64()
}

// find which layer hangs/crashes: each section on its own worker
func (j *c10mkJudge) locate(in string) map[string]string {
	out := map[string]string{}
	reqs := make([]string, len(c10mkSections))
	for i, sec := range c10mkSections {
		reqs[i] = "one " + sec + " " + hx(in)
	}
	for i, sec := range c10mkSections {
		ans := make([]string, 1)
		c10mkRunOne(reqs[i], ans, j.limit)
		if ans[0] == c10mkHang || ans[0] == c10mkCrash {
			// confirm once: "hang" = watchdog expiry twice
			c10mkRunOne(reqs[i], ans, j.limit)
		}
		if _, v, ok := strings.Cut(ans[0], "="); ok {
			out[sec] = v
		} else {
			out[sec] = ans[0]
		}
	}
	return out
}

func (j *c10mkJudge) judge(c c10mkCase, implLine, modelLine string, cnt map[string]int) {
	res := j.res
	var impl map[string]string
	if implLine == c10mkHang || implLine == c10mkCrash {
		if atomic.AddInt64(&c10mkLocated, 1) > 3 {
			cnt["hangs_or_crashes_not_looked_up"]++
			return
		}
		impl = j.locate(c.in)
	} else if implLine == "SKIPPED" {
		cnt["skipped_after_many_hangs"]++
		return
	} else {
		impl = c10mkSplitSections(implLine)
	}
	model := c10mkSplitSections(modelLine)
	nontrivial := false
	for _, sec := range c10mkSections {
		a, okA := impl[sec]
		m, okM := model[sec]
		if !okA || !okM {
			res.Broken = fmt.Sprintf("missing section %s for %q: impl %q model %q", sec, c.in, implLine, modelLine)
			return
		}
		name := c10mkSecName[sec]
		if what, desc := c10mkSpec(sec, c.in, a); what != "" {
			res.AddViolation(Violation{
				Key:        "C10/" + name + "/" + what,
				What:       fmt.Sprintf("%s(%q): %s", name, c.in, desc),
				FoundInput: true, Size: 1 + len(c.in),
				Replay: map[string]any{"kind": "all", "input": hx(c.in), "section": sec, "impl": a, "model": m},
			})
			cnt["violations_"+name]++
			continue
		}
		ca, cm := a, m
		if sec == "va" {
			ca, cm = c10mkImplVa(a), c10mkModelVa(m)
		}
		if ca != cm {
			res.AddViolation(Violation{
				Key:        "C10/correspondence/" + name,
				What:       fmt.Sprintf("model and implementation disagree on %s(%q): impl %s, model %s (the property's law still holds on the implementation's answer)", name, c.in, a, m),
				FoundInput: false, Size: 1 + len(c.in),
				Replay: map[string]any{"kind": "all", "input": hx(c.in), "section": sec, "impl": a, "model": m,
					"broken": "correspondence " + name + " = extracted model (coq/Model)"},
			})
			cnt["disagreements_"+name]++
		}
		// distribution
		switch sec {
		case "mt":
			if strings.Contains(a, "E") {
				cnt["mt_with_expression"]++
				nontrivial = true
			}
			if !strings.HasSuffix(a, ";-") {
				cnt["mt_with_rest"]++
				nontrivial = true
			}
			if strings.Contains(a, ",") {
				cnt["mt_two_or_more_tokens"]++
				nontrivial = true
			}
		case "ex":
			if a != "N" {
				cnt["expr_found"]++
			}
		case "uc":
			if !strings.HasSuffix(a, ";-") {
				cnt["uc_with_comment"]++
				nontrivial = true
			}
			if strings.Contains(c.in, "\\#") {
				cnt["uc_input_with_escaped_hash"]++
				nontrivial = true
			}
		case "v1":
			if a != "P" {
				cnt["varalign_initial_ok"]++
				if !strings.HasSuffix(a, ";-") {
					cnt["varalign_with_continuation"]++
				}
			}
		case "va":
			if strings.HasPrefix(a, "M;0") {
				cnt["varassign_matched"]++
				nontrivial = true
			}
			if strings.HasPrefix(a, "M;1") {
				cnt["varassign_matched_commented"]++
				nontrivial = true
			}
		}
	}
	cnt["cases_"+c.kind]++
	if nontrivial {
		j.mu.Lock()
		j.seen[j.hash(c.in)] = struct{}{}
		j.mu.Unlock()
	}
}

// runBatch: implementation and model on the same inputs, then the verdicts.
func (j *c10mkJudge) runBatch(cases []c10mkCase) {
	if len(cases) == 0 || j.res.Broken != "" {
		return
	}
	reqs := make([]string, len(cases))
	for i, c := range cases {
		reqs[i] = "all " + hx(c.in)
	}
	var impl, model []string
	var e1, e2 error
	var wg sync.WaitGroup
	wg.Add(2)
	go func() { defer wg.Done(); impl, e1 = c10mkRunImpl(reqs, j.limit) }()
	go func() { defer wg.Done(); model, e2 = runOracle(j.ctx, "c10mk", reqs) }()
	wg.Wait()
	if e1 != nil || e2 != nil {
		j.res.Broken = fmt.Sprintf("workers: %v; oracle: %v", e1, e2)
		return
	}
	cnts := make([]map[string]int, 16)
	parallelFor(16, func(w int) {
		cnts[w] = map[string]int{}
		for i := w; i < len(cases); i += 16 {
			j.judge(cases[i], impl[i], model[i], cnts[w])
		}
	})
	for _, cnt := range cnts {
		for k, n := range cnt {
			j.res.Count(k, n)
		}
	}
	j.res.Evaluations += len(cases) * len(c10mkSections)
	j.res.TracesValidated += len(cases)
	if k := cases[0].kind; (k == "corpus" || k == "grammar") && len(j.cross) < 150 {
		for i := 0; i < len(cases) && len(j.cross) < 150; i += 1 + len(cases)/110 {
			if len(cases[i].in) <= 32 {
				j.cross = append(j.cross, [2]string{cases[i].in, model[i]})
			}
		}
	}
	for _, i := range []int{len(cases) / 3, len(cases) - 1} {
		if len(cases[i].in) >= 4 {
			j.res.Sample(map[string]any{"input": cases[i].in, "generator": cases[i].kind, "impl": impl[i]})
		}
	}
}

// ---------------------------------------------------------------- generators

// One representative per class of bytes that the make lexers treat alike, over the
// alphabet of the property ($ { } ( ) : \ # quotes backtick ! @ [ ] = + ? space tab
// letters digits).  Only the quotes, the letters that are no modifier names, and
// the digits have more than one member; c10mkSecond is a second representative.
var c10mkClasses = []byte{'$', '{', '}', '(', ')', ':', '\\', '#', '"', '!', '@', '[', ']', '=', '+', '?', ' ', '\t', 'a', '1'}
var c10mkSecond = map[byte][]byte{'"': {'\'', '`'}, 'a': {'b', 'z'}, '1': {'2', '9'}}

// a sub-alphabet (no quote, no ], no digit) that is enumerated one byte further
var c10mkReduced = []byte{'$', '{', '}', '(', ')', ':', '\\', '#', '!', '@', '[', '=', '+', '?', ' ', '\t', 'a'}

func c10mkEnumerate(alpha []byte, length int, f func(s string)) {
	buf := make([]byte, length)
	idx := make([]int, length)
	for {
		for i := range buf {
			buf[i] = alpha[idx[i]]
		}
		f(string(buf))
		k := length - 1
		for k >= 0 {
			idx[k]++
			if idx[k] < len(alpha) {
				break
			}
			idx[k] = 0
			k--
		}
		if k < 0 {
			return
		}
	}
}

func (j *c10mkJudge) exhaustive(alpha []byte, maxLen int, kind string, skip func(string) bool) {
	var batch []c10mkCase
	flush := func() {
		j.runBatch(batch)
		batch = batch[:0]
	}
	for l := 0; l <= maxLen; l++ {
		c10mkEnumerate(alpha, l, func(s string) {
			if skip != nil && skip(s) {
				return
			}
			batch = append(batch, c10mkCase{s, kind})
			if len(batch) >= 200000 {
				flush()
			}
		})
	}
	flush()
	j.res.Count("exhaustive_"+kind+"_maxlen", maxLen)
}

// class validation: a string over all representatives and its image under
// "replace every byte by the first representative of its class" must give the
// same answers up to that replacement.
func (j *c10mkJudge) validateClasses(maxLen int) {
	var alpha []byte
	canon := map[byte]byte{}
	for _, c := range c10mkClasses {
		alpha = append(alpha, c)
		canon[c] = c
		for _, d := range c10mkSecond[c] {
			alpha = append(alpha, d)
			canon[d] = c
		}
	}
	mapStr := func(s string) string {
		b := []byte(s)
		for i := range b {
			if c, ok := canon[b[i]]; ok {
				b[i] = c
			}
		}
		return string(b)
	}
	var ins []string
	for l := 1; l <= maxLen; l++ {
		c10mkEnumerate(alpha, l, func(s string) {
			if mapStr(s) != s {
				ins = append(ins, s)
			}
		})
	}
	reqs := make([]string, 0, 2*len(ins))
	for _, s := range ins {
		reqs = append(reqs, "all "+hx(s), "all "+hx(mapStr(s)))
	}
	ans, err := c10mkRunImpl(reqs, j.limit)
	if err != nil {
		j.res.Broken = err.Error()
		return
	}
	bad := 0
	for i, s := range ins {
		got := c10mkMapAnswer(ans[2*i], mapStr)
		if got != ans[2*i+1] {
			bad++
			if bad == 1 {
				j.res.AddViolation(Violation{
					Key:        "C10/correspondence/byte-classes",
					What:       fmt.Sprintf("the byte classes of the exhaustive run are no longer respected by the lexers: %q and %q are treated differently", s, mapStr(s)),
					FoundInput: false, Size: 1 + len(s),
					Replay: map[string]any{"kind": "classes", "input": hx(s), "canonical": hx(mapStr(s)), "impl": ans[2*i], "impl_canonical": ans[2*i+1],
						"broken": "grouping of the property's alphabet into byte classes (exhaustive enumeration uses one representative per class)"},
				})
			}
		}
	}
	j.res.Count("class_validation_pairs", len(ins))
	j.res.Evaluations += 2 * len(ins) * len(c10mkSections)
}

// c10mkMapAnswer applies a byte substitution to every hex-encoded field of an answer line.
func c10mkMapAnswer(line string, f func(string) string) string {
	var sb strings.Builder
	i := 0
	isHex := func(c byte) bool { return (c >= '0' && c <= '9') || (c >= 'a' && c <= 'f') }
	for i < len(line) {
		// section name up to '='
		if line[i] == ' ' || i == 0 {
			k := strings.IndexByte(line[i:], '=')
			if k < 0 {
				sb.WriteString(line[i:])
				break
			}
			sb.WriteString(line[i : i+k+1])
			i += k + 1
			continue
		}
		if isHex(line[i]) {
			k := i
			for k < len(line) && isHex(line[k]) {
				k++
			}
			if (k-i)%2 == 0 {
				sb.WriteString(hx(f(unhx(line[i:k]))))
			} else {
				sb.WriteString(line[i:k])
			}
			i = k
			continue
		}
		sb.WriteByte(line[i])
		i++
	}
	return sb.String()
}

// ---- grammar-guided expressions: every modifier kind, nesting <= depth

type c10mkGen struct {
	rng   *Rng
	kinds map[string]int
}

var c10mkNames = []string{"VAR", "A", "v", "SITES_x", "PKG.a", ".TARGET", "a-b", "X_1", "", "@", "<", "a+b", "P.${o}", "${n}"}
var c10mkWords = []string{"a", "b1", "x y", "*.c", "%.o", "-", ".", "/", ",", "1", "g", "W", "^a", "a$", "\\:", "\\}", "\\\\", "$$", "$$x", "\\$", "&", "\\&",
	"[", "]", "(", ")", "{", "}", "#", "\\#", "=", "!", "@", "?", "+", ":", "\"q\"", "'s'", "`b`", " ", "\t", "$", "\\", "_", "%", "<", ">", "*", "~", "é"}

func (g *c10mkGen) word(depth int) string {
	if depth > 0 && g.rng.Chance(22) {
		return g.expr(depth - 1)
	}
	return Pick(g.rng, c10mkWords)
}
func (g *c10mkGen) text(depth int) string {
	n := g.rng.Intn(3)
	s := ""
	for i := 0; i <= n; i++ {
		s += g.word(depth)
	}
	return s
}

func (g *c10mkGen) modifier(depth int, closing string) string {
	k := g.rng.Intn(17)
	note := func(n string) { g.kinds[n]++ }
	switch k {
	case 0:
		note("simple")
		return Pick(g.rng, []string{"E", "H", "L", "O", "Ox", "Q", "R", "T", "sh", "tA", "tW", "tl", "tu", "tw", "u", "Oq", "tx", "uu", "Q1"})
	case 1:
		note("ts")
		return "ts" + Pick(g.rng, []string{"", ",", ":", "\\n", "\\012", "ab", "x", "${s}", "\\:"})
	case 2:
		note("D/U")
		return Pick(g.rng, []string{"D", "U"}) + g.text(depth)
	case 3:
		note("M/N")
		return Pick(g.rng, []string{"M", "N"}) + Pick(g.rng, []string{g.text(depth), "*", "[a-z]*", "{a,b}", "(x)", "\\:", "\\" + closing, "a\\", "{", "((", "${:Ux}"})
	case 4:
		note("S/C")
		sep := Pick(g.rng, []string{",", "|", "/", "\\", "$", ":", "a", closing, "@", "^"})
		flags := Pick(g.rng, []string{"", "g", "1", "W", "gW1", "x"})
		kind := Pick(g.rng, []string{"S", "C"})
		switch g.rng.Intn(6) {
		case 0:
			return kind + sep + g.text(depth) + sep + g.text(depth) // missing final separator
		case 1:
			return kind + sep + "^" + g.text(depth) + "$" + sep + g.text(depth) + sep + flags
		case 2:
			return kind // nothing after S
		case 3: // two in a row without a colon
			return kind + sep + g.word(depth) + sep + g.word(depth) + sep + flags + "S" + sep + "x" + sep + "y" + sep
		}
		return kind + sep + g.text(depth) + sep + g.text(depth) + sep + flags
	case 5:
		note("!cmd!")
		return "!" + g.text(depth) + Pick(g.rng, []string{"!", "!", "!", "", "$$!", "$!", "\\!!", "$"})
	case 6:
		note("@loop@")
		return "@" + Pick(g.rng, []string{"v", "i.j", "", "x y"}) + Pick(g.rng, []string{"@", "@", ""}) + g.text(depth) + Pick(g.rng, []string{"@", "@", "", "$$@"})
	case 7:
		note("[index]")
		return Pick(g.rng, []string{"[1]", "[#]", "[-1]", "[1..3]", "[*]", "[", "[]", "[#", "[1", "[a]", "[@]", "[1]x"})
	case 8:
		note("?:")
		return "?" + g.text(depth) + Pick(g.rng, []string{":", ":", ""}) + g.text(depth)
	case 9:
		note("::=")
		return ":" + Pick(g.rng, []string{"=", "!=", "+=", "?=", "x=", "", "!", ":="}) + g.text(depth)
	case 10:
		note("sysv")
		return g.text(depth) + "=" + g.text(depth)
	case 11:
		note("indirect")
		if depth > 0 {
			return g.expr(depth-1) + Pick(g.rng, []string{"", "", "x"})
		}
		return "${M}"
	case 12:
		note("!text!")
		return Pick(g.rng, []string{"!", "!x!", "!a b!", "!" + g.text(depth) + "!"})
	case 13:
		note("empty")
		return ""
	case 14:
		note("invalid")
		return g.text(depth)
	case 15:
		note("L-text")
		return "L"
	}
	note("other-letter")
	return Pick(g.rng, []string{"tsx", "sx", "tt", "Ea", "u1", "s", "t", "H.", "R}"})
}

func (g *c10mkGen) expr(depth int) string {
	switch g.rng.Intn(12) {
	case 0:
		g.kinds["$x"]++
		return "$" + Pick(g.rng, []string{"@", "<", ">", "!", "%", "?", "*", "x", "1", "_", "ab", "-", ".", "/", " ", "\"", "#", "\\", "=", "[", ":"})
	case 1:
		g.kinds["$$"]++
		return "$$" + Pick(g.rng, []string{"", "x", "{x}", "$"})
	}
	open, closing := "{", "}"
	if g.rng.Chance(20) {
		open, closing = "(", ")"
		g.kinds["$()"]++
	} else {
		g.kinds["${}"]++
	}
	name := Pick(g.rng, c10mkNames)
	if depth > 0 && g.rng.Chance(20) {
		name += g.expr(depth - 1)
	}
	if g.rng.Chance(8) {
		name += Pick(g.rng, []string{" text", "\\:", "$$", ".", "..", "#", "[", "\\"})
	}
	s := "$" + open + name
	nmod := g.rng.Intn(4)
	for i := 0; i < nmod; i++ {
		s += ":" + g.modifier(depth, closing)
	}
	switch {
	case g.rng.Chance(85):
		s += closing
	case g.rng.Chance(50):
		g.kinds["unclosed"]++
	default:
		s += Pick(g.rng, []string{")", "}", ":"})
	}
	return s
}

// a line around expressions: assignments (all operators, commented, comments, escaped #), plain text
func (g *c10mkGen) line(depth int) string {
	val := func() string {
		s := ""
		for i := g.rng.Intn(3); i >= 0; i-- {
			if g.rng.Chance(60) {
				s += g.expr(depth)
			} else {
				s += Pick(g.rng, c10mkWords)
			}
			if g.rng.Chance(30) {
				s += " "
			}
		}
		return s
	}
	switch g.rng.Intn(10) {
	case 0, 1, 2, 3:
		g.kinds["line:assignment"]++
		lead := Pick(g.rng, []string{"", "", "", "#", " ", "  ", "# ", "#\t", " #"})
		name := Pick(g.rng, []string{"VAR", "A.b", "A.${p}", "SITES_x", "A+", "A.\\#", "A.[", "a-b,c", ".x", "${v}", "A.b.c", "P.$$", "@", "A B", "A\\#"})
		sp := Pick(g.rng, []string{"", "", "", " ", "\t", "  "})
		op := Pick(g.rng, []string{"=", "+=", "?=", ":=", "!=", "==", "", "=", "+", "<="})
		sp2 := Pick(g.rng, []string{"", "\t", " ", "\t\t", " \t"})
		cm := Pick(g.rng, []string{"", "", " # c", "# c", "\t#", " \\# x", "#", "\\", "\\\\", " \\", "[#]", " #\\#"})
		return lead + name + sp + op + sp2 + val() + cm
	case 4:
		g.kinds["line:expr-only"]++
		return g.expr(depth)
	case 5, 6:
		g.kinds["line:text"]++
		return val() + Pick(g.rng, []string{"", "#c", " # c", "\\#x", "\\\\#x", "[#x", "\\", "\\\\", "$"})
	}
	g.kinds["line:mixed"]++
	return Pick(g.rng, c10mkWords) + g.expr(depth) + val()
}

var c10mkRandomAlphabet = []byte("$$$${{}}(()):::\\\\##\"'`!!@@[[]]==++??  \t\tabxyzSCMNDULQOEHRTstuwhgW019_.,-/*%<>^&~|;")

func c10mkRandomString(rng *Rng) string {
	n := 1 + rng.Intn(60)
	b := make([]byte, n)
	for i := range b {
		switch {
		case rng.Chance(1):
			b[i] = byte(128 + rng.Intn(128))
		case rng.Chance(1):
			b[i] = byte(1 + rng.Intn(31)) // control bytes, incl. an occasional newline
		default:
			b[i] = c10mkRandomAlphabet[rng.Intn(len(c10mkRandomAlphabet))]
		}
	}
	return string(b)
}

// templates: the regular expressions of mklexer.go on all short strings over their own alphabet,
// and the modifier switch on all short modifier texts
type c10mkTemplate struct {
	name, pre, post string
	alpha           []byte
	maxLen          int
}

func c10mkTemplates(thorough bool) []c10mkTemplate {
	x := 0
	if thorough {
		x = 1
	}
	return []c10mkTemplate{
		{"re-text", "${", "}", []byte("$:\\}{)a\n"), 4 + x},
		{"re-text-paren", "$(", ")", []byte("$:\\)(}a\n"), 4 + x},
		{"re-sysv", "${a:", "}", []byte("$:\\}=a\n"), 4 + x},
		{"re-at", "${a:@v@", "@}", []byte("$@\\}a\n:"), 4 + x},
		{"re-index", "${a:", "}", []byte("[]-.1#a"), 5 + x},
		{"re-assign-op", "${a::", "}", []byte("!+?=a:"), 4 + x},
		{"modifier-switch", "${a:", "}", []byte("SCMtsDU!@?:=,a$\\"), 4 + x},
		{"modifier-subst", "${a:S", "}", []byte(",$\\^a}:1gW&"), 5 + x},
		{"modifier-match", "${a:M", "}b}", []byte("\\:{}()a$"), 4 + x},
		{"modifier-bang", "${a:!", "}", []byte("!$\\a}&{"), 5 + x},
		{"varname", "", "=v", []byte("$.aS_[+#\\ {}"), 4 + x},
		{"comment", "a", "", []byte("\\#[a \t$"), 5 + x},
		{"varalign-tail", "A=", "", []byte("\\#[a \t"), 5 + x},
	}
}

// ---------------------------------------------------------------- self tests of the harness' own spec code

func c10mkSelfTest(ctx *Ctx, res *Result) {
	var reqs, ins []string
	for l := 0; l <= 6; l++ {
		c10mkEnumerate([]byte("\\#a"), l, func(s string) {
			ins = append(ins, s)
			reqs = append(reqs, "uh "+hx(s))
		})
	}
	ans, err := runOracle(ctx, "c10mk", reqs)
	if err != nil {
		res.Broken = err.Error()
		return
	}
	for i, s := range ins {
		if unhx(ans[i]) != unescapeHash(s) {
			res.Broken = fmt.Sprintf("harness unescapeHash(%q) differs from Spec.unescape_hash: %q", s, unhx(ans[i]))
			return
		}
	}
	res.Count("selftest_unescape_hash", len(ins))
}

// getRawValueAlign on pairs (raw, parsed)
func c10mkRawAlign(ctx *Ctx, res *Result, rng *Rng, limit time.Duration, maxLen int, nrand int) {
	var strs []string
	for l := 0; l <= maxLen; l++ {
		c10mkEnumerate([]byte("a \t#\\="), l, func(s string) { strs = append(strs, s) })
	}
	var reqs []string
	var pairs [][2]string
	for _, r := range strs {
		for _, p := range strs {
			pairs = append(pairs, [2]string{r, p})
		}
	}
	alpha := []byte("aA= \t#\\[")
	for i := 0; i < nrand; i++ { // parsed = unescaped prefix of raw, with blanks changed now and then
		n := 1 + rng.Intn(12)
		b := make([]byte, n)
		for k := range b {
			b[k] = alpha[rng.Intn(len(alpha))]
		}
		raw := string(b)
		p := unescapeHash(raw[:rng.Intn(n+1)])
		if rng.Chance(30) {
			p = strings.ReplaceAll(p, " ", "\t")
		}
		if rng.Chance(20) {
			p = "#" + p
		}
		pairs = append(pairs, [2]string{raw, p})
	}
	for _, p := range pairs {
		reqs = append(reqs, "ra "+hx(p[0])+" "+hx(p[1]))
	}
	var impl, model []string
	var e1, e2 error
	var wg sync.WaitGroup
	wg.Add(2)
	go func() { defer wg.Done(); impl, e1 = c10mkRunImpl(reqs, limit) }()
	go func() { defer wg.Done(); model, e2 = runOracle(ctx, "c10mk", reqs) }()
	wg.Wait()
	if e1 != nil || e2 != nil {
		res.Broken = fmt.Sprintf("workers: %v; oracle: %v", e1, e2)
		return
	}
	for i, p := range pairs {
		if impl[i] != model[i] {
			what := "correspondence/getRawValueAlign"
			found := false
			if impl[i] == c10mkHang {
				what, found = "getRawValueAlign/hang", true
			}
			res.AddViolation(Violation{
				Key:        "C10/" + what,
				What:       fmt.Sprintf("getRawValueAlign(%q, %q): impl %s, model %s", p[0], p[1], impl[i], model[i]),
				FoundInput: found, Size: 1 + len(p[0]) + len(p[1]),
				Replay: map[string]any{"kind": "ra", "raw": hx(p[0]), "parsed": hx(p[1]), "impl": impl[i], "model": model[i],
					"broken": "correspondence getRawValueAlign = extracted model"},
			})
		}
		if impl[i] != "P" {
			res.Count("rawalign_ok", 1)
		} else {
			res.Count("rawalign_assert", 1)
		}
	}
	res.Evaluations += len(pairs)
	res.TracesValidated += len(pairs)
}

// ---------------------------------------------------------------- the extraction, cross-checked by coqc

func coqStr(s string) string {
	parts := make([]string, len(s))
	for i := 0; i < len(s); i++ {
		parts[i] = fmt.Sprint(int(s[i]))
	}
	return "[" + strings.Join(parts, "; ") + "]"
}

func coqTokens(sec string) (string, bool) {
	toks, ok := c10mkParseTokens(sec)
	if !ok {
		return "", false
	}
	parts := make([]string, len(toks))
	for i, t := range toks {
		parts[i] = fmt.Sprintf("(%s, %v)", coqStr(t.text), t.expr)
	}
	return "[" + strings.Join(parts, "; ") + "]", true
}

// c10mkCrossCheck lets coqc evaluate the model itself (vm_compute) on a sample of the
// cases; the results must be what the extracted OCaml oracle answered.
func c10mkCrossCheck(ctx *Ctx, res *Result, cross [][2]string) {
	var sb strings.Builder
	sb.WriteString("From PV Require Import Lib.Bytes Model.MkLexPrim Model.MkLexer Model.MkLineSplit.\nOpen Scope N_scope.\n")
	n := 0
	for i, c := range cross {
		m := c10mkSplitSections(c[1])
		rhs := func(v string, ok func(string) (string, bool)) (string, bool) {
			switch v {
			case "P":
				return "Panic", true
			case "F":
				return "OutOfFuel", true
			}
			r, good := ok(v)
			return "Ok " + r, good
		}
		mt, ok1 := rhs(m["mt"], func(v string) (string, bool) {
			f := strings.Split(v, ";")
			if len(f) != 2 {
				return "", false
			}
			t, ok := coqTokens(f[0])
			return "(" + t + ", " + coqStr(unhx(f[1])) + ")", ok
		})
		uc, ok2 := rhs(m["uc"], func(v string) (string, bool) {
			f := strings.Split(v, ";")
			if len(f) != 2 {
				return "", false
			}
			return "(" + coqStr(unhx(f[0])) + ", " + coqStr(unhx(f[1])) + ")", true
		})
		tk, ok3 := rhs(m["tk"], coqTokens)
		if !ok1 || !ok2 || !ok3 {
			res.Broken = "cross-check: cannot read the oracle's answer " + q(c[1])
			return
		}
		in := coqStr(c[0])
		fmt.Fprintf(&sb, "Example mt%d : MkTokens %s = %s.\nProof. vm_compute. reflexivity. Qed.\n", i, in, mt)
		fmt.Fprintf(&sb, "Example uc%d : unescape_comment %s = %s.\nProof. vm_compute. reflexivity. Qed.\n", i, in, uc)
		fmt.Fprintf(&sb, "Example tk%d : tokenize %s = %s.\nProof. vm_compute. reflexivity. Qed.\n", i, in, tk)
		n += 3
	}
	file := ctx.Work + "/cases.v"
	if err := os.WriteFile(file, []byte(sb.String()), 0o644); err != nil {
		res.Broken = err.Error()
		return
	}
	// the .vo files must not be rebuilt by another check meanwhile: bin/check's coq lock
	lock, err := os.OpenFile(ctx.Verif+"/.cache/coq.lock", os.O_CREATE|os.O_RDWR, 0o644)
	if err == nil {
		syscall.Flock(int(lock.Fd()), syscall.LOCK_EX)
		defer func() { syscall.Flock(int(lock.Fd()), syscall.LOCK_UN); lock.Close() }()
	}
	cmd := exec.Command("timeout", "600", "coqc", "-Q", ctx.Verif+"/coq", "PV", file)
	cmd.Dir = ctx.Work
	out, err := cmd.CombinedOutput()
	if err != nil {
		msg := string(out)
		if len(msg) > 600 {
			msg = msg[:600]
		}
		res.AddViolation(Violation{
			Key:        "C10/correspondence/extraction",
			What:       "the extracted oracle and coqc (vm_compute) evaluate the model differently: " + strings.Join(strings.Fields(msg), " "),
			FoundInput: false,
			Replay:     map[string]any{"kind": "extraction", "broken": "extracted OCaml model = Gallina model (vm_compute cross-check on sampled cases)", "coqc": msg},
		})
		return
	}
	res.Count("extraction_cross_checked_by_coqc", n)
}

// ---------------------------------------------------------------- runner

func runC10mk(ctx *Ctx) *Result {
	res := &Result{Rule: "inputs: (1) every string up to length L over one representative per byte class of the property's alphabet " +
		"(all 20 classes to length 4 quick / 5 thorough; the 17 of them other than quote, ] and digit to length 5 / 6), (2) every short string over the own alphabet of each regular expression / modifier parser inside a fixed context, " +
		"(3) seeded grammar-guided lines with expressions of nesting <= 4 using every modifier kind, (4) seeded random strings of 1..60 bytes; " +
		"each input goes through MkTokens, Expr, Varname, tokenize, MkTokensLexer, unescapeComment, split (both modes), VaralignSplitter.split (both modes) and matchVarassign; " +
		"non-trivial = an input on which MkTokens yields an expression, two or more tokens or a non-empty rest, or that has a comment or an escaped #, or that is accepted as a variable assignment; distinct by input bytes"}
	thorough := ctx.Tier == "thorough"
	j := &c10mkJudge{ctx: ctx, res: res, seen: map[uint64]struct{}{}, limit: 3 * time.Second}
	if thorough {
		j.limit = 20 * time.Second
	}
	rng := NewRng(ctx.Seed)

	c10mkSelfTest(ctx, res)
	if res.Broken != "" {
		return res
	}
	if os.Getenv("VERIF_C10MK_LAYERS") == "ml" { // development aid for mutation trials: only the multi-line layer (no floors, evidence says so)
		c10mlRun(ctx, res, rng.Fork(), &c10mkGen{rng: rng.Fork(), kinds: map[string]int{}}, j.limit)
		res.Count("only_layer_ml_requested_by_environment", 1)
		res.Rule = "DEVELOPMENT RUN, multi-line layer only: " + res.Rule
		return res
	}

	// corpus: inputs that once mattered
	corpus := []string{"A.\\#=v", " \t#x", "$\\#=v", "${a:C\\x\\#\\g\\}=v", "${A:S,a,b}=v # ,}", "A.\\#\\#b${c}\\# =v", "X= ${VAR:!echo $$x!}", "${A:!$", "${A:!a$$!}", "${A:x${A:x${A:x${A:x}}}}", "a$", "$", "$$", "${", "$(", "${}", "${:}", "${A:S}",
		"${A:S,a,b,S,c,d,}", "${A:S=x}", "${A:ts}", "${A:ts:}", "${A:@v@$v@}", "${A:[#]}", "${A::=x}", "${:!x!}", "#A=v", "# A=v", " A=v", "A=v # c", "A=\\#x #y", "A= [#] #c",
		"A=v\\", "A=v \\\\", "\tA=v", "A+=v", "A+ =v", "A =v", "SITES_a.b=c", "A=#", "A= #", "A=\\"}
	var cs []c10mkCase
	for _, s := range corpus {
		cs = append(cs, c10mkCase{s, "corpus"})
	}
	j.runBatch(cs)

	// (0) the grouping into byte classes
	if thorough {
		j.validateClasses(4)
	} else {
		j.validateClasses(3)
	}

	// (1) exhaustive
	full, reduced := 4, 5
	if thorough {
		full, reduced = 5, 6
	}
	j.exhaustive(c10mkClasses, full, "exhaustive-20-classes", nil)
	inFull := func(s string) bool { return len(s) <= full } // already covered
	j.exhaustive(c10mkReduced, reduced, "exhaustive-17-classes", inFull)

	// (2) templates
	for _, t := range c10mkTemplates(thorough) {
		var batch []c10mkCase
		for l := 0; l <= t.maxLen; l++ {
			c10mkEnumerate(t.alpha, l, func(s string) { batch = append(batch, c10mkCase{t.pre + s + t.post, "template-" + t.name}) })
		}
		j.runBatch(batch)
	}

	// (3) grammar-guided, (4) random
	ngram, nrand := 30000, 30000
	if thorough {
		ngram, nrand = 1500000, 1500000
	}
	g := &c10mkGen{rng: rng.Fork(), kinds: map[string]int{}}
	for done := 0; done < ngram; {
		var batch []c10mkCase
		for i := 0; i < 200000 && done < ngram; i++ {
			depth := 1 + g.rng.Intn(4)
			s := g.line(depth)
			if len(s) > 160 {
				continue
			}
			batch = append(batch, c10mkCase{s, "grammar"})
			done++
		}
		j.runBatch(batch)
	}
	for _, k := range sortedKeys(g.kinds) {
		res.Count("grammar_kind_"+k, g.kinds[k])
	}
	r2 := rng.Fork()
	for done := 0; done < nrand; {
		var batch []c10mkCase
		for i := 0; i < 200000 && done < nrand; i++ {
			batch = append(batch, c10mkCase{c10mkRandomString(r2), "random"})
			done++
		}
		j.runBatch(batch)
	}

	// getRawValueAlign
	if thorough {
		c10mkRawAlign(ctx, res, rng.Fork(), j.limit, 4, 200000)
	} else {
		c10mkRawAlign(ctx, res, rng.Fork(), j.limit, 3, 20000)
	}

	// matchVarassign on logical lines made of several raw lines (harness/c10ml.go)
	if res.Broken == "" {
		c10mlRun(ctx, res, rng.Fork(), g, j.limit)
	}

	if res.Broken == "" {
		c10mkCrossCheck(ctx, res, j.cross)
	}

	res.DistinctNontrivial = len(j.seen)
	res.Exhaustive = false

	// coverage floors: the check is vacuous when the generators stop reaching these
	if res.Broken == "" {
		floors := map[string]int{"mt_with_expression": 20000, "mt_with_rest": 1000, "uc_with_comment": 20000, "uc_input_with_escaped_hash": 5000,
			"varassign_matched": 10000, "varassign_matched_commented": 300, "varalign_initial_ok": 10000, "varalign_with_continuation": 300,
			"expr_found": 20000, "rawalign_ok": 500, "rawalign_assert": 500,
			"ml_lines_multiline": 50000, "ml_multiline_matched": 2000, "ml_multiline_matched_commented": 100, "ml_multiline_rejected_by_guard": 1000, "ml_multiline_rejected_by_guard_despite_equals_in_first_raw_line": 100,
			"ml_multiline_equals_only_in_continuation": 1000, "ml_multiline_break_inside_expression": 300, "ml_three_raw_lines": 5000}
		for _, k := range []string{"simple", "ts", "D/U", "M/N", "S/C", "!cmd!", "@loop@", "[index]", "?:", "::=", "sysv", "indirect", "!text!", "empty", "invalid"} {
			floors["grammar_kind_"+k] = 300
		}
		var missed []string
		for _, k := range sortedKeys(floors) {
			c, _ := res.Distribution[k].(int)
			if c < floors[k] {
				missed = append(missed, fmt.Sprintf("%s=%d<%d", k, c, floors[k]))
			}
		}
		sort.Strings(missed)
		if len(missed) > 0 {
			if len(res.Violations) == 0 {
				res.Broken = "coverage floor missed: " + strings.Join(missed, ", ")
			} else {
				res.Count("coverage_floors_missed", len(missed))
			}
		}
	}
	res.Assumptions = []string{
		"bytes: the exhaustive runs use the property's ASCII alphabet; random strings add other printable ASCII, about 1% control bytes and 1% bytes >= 0x80",
		"unescapeComment, split and matchVarassign are applied to texts without newline (a Line.Text never contains one); with a newline the Go code asserts, and so does the model",
		"matchVarassign is driven as MkLineParser.Parse does (split, tokenize, matchVarassign; no directive/shell-command dispatch) on logical lines of one raw line, and, in the ml layer, on every logical line that convertToLogicalLines builds from a file text",
	}
	return res
}

func replayC10mk(ctx *Ctx, rep map[string]any) *Result {
	res := &Result{Rule: "replay"}
	j := &c10mkJudge{ctx: ctx, res: res, seen: map[uint64]struct{}{}, limit: 10 * time.Second}
	switch rep["kind"] {
	case "all", "classes":
		in, _ := rep["input"].(string)
		j.runBatch([]c10mkCase{{unhx(in), "replay"}})
		if rep["kind"] == "classes" {
			j.validateClasses(3)
		}
	case "ml":
		in, _ := rep["input"].(string)
		c10mlBatch(ctx, res, []c10mlCase{{unhx(in), "replay"}}, j.limit, nil)
	case "ra":
		raw, _ := rep["raw"].(string)
		parsed, _ := rep["parsed"].(string)
		reqs := []string{"ra " + raw + " " + parsed}
		impl, e1 := c10mkRunImpl(reqs, j.limit)
		model, e2 := runOracle(ctx, "c10mk", reqs)
		if e1 != nil || e2 != nil {
			res.Broken = fmt.Sprintf("%v %v", e1, e2)
		} else if impl[0] != model[0] {
			res.AddViolation(Violation{Key: "C10/correspondence/getRawValueAlign", What: fmt.Sprintf("getRawValueAlign(%q,%q): impl %s, model %s", unhx(raw), unhx(parsed), impl[0], model[0]),
				Replay: map[string]any{"kind": "ra", "raw": raw, "parsed": parsed, "broken": "correspondence getRawValueAlign = extracted model"}})
		}
	default:
		res.Broken = "replay file names no input (a proof obligation or a build step failed): nothing to re-execute"
	}
	return res
}

func init() {
	register("C10mk", runC10mk, replayC10mk)
	register("C10mk-worker", runC10mkWorker, nil)
}
