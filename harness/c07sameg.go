package main

// C07, in-process layer on ONE G (round 4, goal 4).  The other in-process
// runs create a fresh G per run (VerifRunMain), so nothing that lives in G
// survives.  Here several Mains run on the same G, the way the test suite's
// Tester.Main does it (shim VerifRunMainSameG): a *.mk file of a package is
// named directly on the command line, twice in a row (A,A) and with another
// file in between (A,B,A; B,A,B,A), with diagnostics that are guarded by the
// per-line Once set (Line.once): "Switch to set -e mode" (ShellLineChecker.
// checkSetE) and "may lead to unintended file globbing" (MkLine.
// checkFileGlobbing).  Every run must print what a fresh process prints.
// What survives legitimately is only a cache (G.fileCache, interner, regex
// registry): a Load served from the cache must hand out lines that carry no
// state of an earlier run (seeded C07-r3m2).

import (
	"fmt"
	"path/filepath"
	"strings"
)

const c07SameGFragA = "# $" + "NetBSD$\n\npre-install:\n\tcd ${WRKSRC}; ${INSTALL_MAN} package.1 ${DESTDIR}${PREFIX}/${PKGMANDIR}/man1/\n\npost-install:\n\tcd ${WRKSRC}/doc; ${INSTALL_DATA} README ${DESTDIR}${PREFIX}/share/doc/package/\n"
const c07SameGFragB = "# $" + "NetBSD$\n\nSUBST_CLASSES+=\tfix\nSUBST_STAGE.fix=\tpre-configure\nSUBST_FILES.fix=\t*.c\nSUBST_SED.fix=\t-e s,a*b,c,\nSUBST_SED.fix+=\t-e s,x?y,z,\n\ndo-build:\n\tcd ${WRKSRC}/src; ${MAKE_PROGRAM} all\n"

func c07SameGTree(root string, variant int) *Tree {
	t := NewBaseTree(root)
	a, b := c07SameGFragA, c07SameGFragB
	if variant%2 == 1 { // more lines of each kind, other line numbers
		a = strings.Replace(a, "\npost-install:", "\npre-build:\n\tcd ${WRKSRC}/po; ${MAKE_PROGRAM} update\n\npost-install:", 1)
		b = strings.Replace(b, "\ndo-build:", "SUBST_SED.fix+=\t-e s,[ab]c,d,\n\ndo-build:", 1)
	}
	t.Write("cat/pkg/build.mk", a)
	t.Write("cat/pkg/subst.mk", b)
	return t
}

var c07SameGSeqs = [][]string{
	{"A", "A"}, {"A", "B", "A"}, {"B", "A", "B", "A"}, {"A", "A", "A"}, {"B", "B"}, {"AB", "A", "B"}, {"P", "A", "P"},
}

var c07SameGOpts = [][]string{{"-Wall"}, {"-Wall", "-s"}, {"-Wall", "-e"}, {"-Wall,error"}}

func c07SameGCase(tree int, root string, opts []string, what string) c07Case {
	args := append([]string{}, opts...)
	switch what {
	case "A":
		args = append(args, "cat/pkg/build.mk")
	case "B":
		args = append(args, "cat/pkg/subst.mk")
	case "AB":
		args = append(args, "cat/pkg/build.mk", "cat/pkg/subst.mk")
	case "P":
		args = append(args, "cat/pkg")
	}
	return c07Case{Tree: tree, Root: root, Cwd: ".", Args: args}
}

func c07SameGStage(ctx *Ctx, res *Result) {
	ntrees := 2
	if ctx.Tier == "thorough" {
		ntrees = 4
	}
	for ti := 0; ti < ntrees && res.Broken == ""; ti++ {
		root := filepath.Join(ctx.Work, fmt.Sprintf("sameg%d", ti))
		c07SameGTree(root, ti)
		for oi, opts := range c07SameGOpts {
			fresh := map[string]c07Out{}
			for _, w := range []string{"A", "B", "AB", "P"} {
				c := c07SameGCase(ti, root, opts, w)
				fresh[w] = c07Fresh(ctx, c, "sg")
				if again := c07Fresh(ctx, c, "sg2"); !again.same(fresh[w]) {
					c07ReportNondet(ctx, res, c, fresh[w], again, "fresh processes")
					return
				}
				res.Evaluations += 2
				res.Count("same-g.once-guarded.set-e", strings.Count(fresh[w].Stdout, "Switch to \"set -e\" mode"))
				res.Count("same-g.once-guarded.globbing", strings.Count(fresh[w].Stdout, "may lead to unintended file globbing"))
			}
			for si, seq := range c07SameGSeqs {
				steps := make([]c07Case, len(seq))
				for i, w := range seq {
					steps[i] = c07SameGCase(ti, root, opts, w)
				}
				outs, err := c07SeqG(ctx, fmt.Sprintf("sameg-%d-%d-%d", ti, oi, si), steps, true)
				if err != nil {
					res.AddViolation(Violation{Key: "C07/inprocess-same-g/crash",
						What:       fmt.Sprintf("Mains [%s] with options %v on one G: %v", strings.Join(seq, ","), opts, err),
						FoundInput: false, Size: len(seq),
						Replay:     map[string]any{"kind": "same-g-crash", "broken": "the child process running several Mains on one G died", "seq": strings.Join(seq, ","), "opts": strings.Join(opts, " ")}})
					continue
				}
				for i, o := range outs {
					res.Evaluations++
					res.TracesValidated++
					res.Count("same-g.runs", 1)
					if i > 0 {
						res.Count("same-g.runs-with-predecessors", 1)
					}
					if i > 0 && seq[i] == seq[i-1] {
						res.Count("same-g.same-file-twice-in-a-row", 1)
					}
					if o.same(fresh[seq[i]]) {
						continue
					}
					c07ReportSameG(ctx, res, ti, opts, seq[:i+1], o, fresh[seq[i]])
					break
				}
			}
		}
	}
	if len(res.Violations) == 0 {
		for k, floor := range map[string]int{"same-g.runs-with-predecessors": 50, "same-g.same-file-twice-in-a-row": 15,
			"same-g.once-guarded.set-e": 20, "same-g.once-guarded.globbing": 10} {
			if n, _ := res.Distribution[k].(int); n < floor {
				res.AddViolation(Violation{Key: "C07/correspondence/same-g-floor/" + k,
					What:       fmt.Sprintf("coverage floor missed: %s = %d < %d", k, n, floor),
					FoundInput: false, Size: 1,
					Replay:     map[string]any{"kind": "floor", "broken": "the same-G stage no longer reaches " + k}})
			}
		}
	}
}

// c07ReportSameG: the last run of seq differs from its fresh-process run.
func c07ReportSameG(ctx *Ctx, res *Result, tree int, opts []string, seq []string, got, want c07Out) {
	root := filepath.Join(ctx.Work, fmt.Sprintf("sameg%d", tree))
	mk := func(ws []string) []c07Case {
		cs := make([]c07Case, len(ws))
		for i, w := range ws {
			cs[i] = c07SameGCase(tree, root, opts, w)
		}
		return cs
	}
	target := seq[len(seq)-1]
	// the shim alone (a new G, no predecessor) must equal the binary
	if outs, err := c07SeqG(ctx, "sameg-alone", mk([]string{target}), true); err != nil || !outs[0].same(want) {
		res.AddViolation(Violation{Key: "C07/correspondence/shim-run-same-g",
			What:       fmt.Sprintf("VerifRunMainSameG on a new G differs from the binary for `pkglint %s`", strings.Join(mk([]string{target})[0].Args, " ")),
			FoundInput: false, Size: 1,
			Replay:     map[string]any{"kind": "shim", "broken": "shim VerifRunMainSameG(fresh) = cmd/pkglint main"}})
		return
	}
	// again, and shrunk to one predecessor
	best := seq
	repro := false
	if outs, err := c07SeqG(ctx, "sameg-again", mk(seq), true); err == nil && !outs[len(outs)-1].same(want) {
		repro = true
		got = outs[len(outs)-1]
	}
	for i := 0; i < len(seq)-1; i++ {
		try := []string{seq[i], target}
		if outs, err := c07SeqG(ctx, fmt.Sprintf("sameg-min-%d", i), mk(try), true); err == nil && !outs[1].same(want) {
			best, got, repro = try, outs[1], true
			break
		}
	}
	var rsteps []map[string]any
	for _, c := range mk(best) {
		rsteps = append(rsteps, map[string]any{"args": c.Args})
	}
	for _, d := range c07Compare(want, got) {
		key := "C07/inprocess-same-g/" + d.key()
		if !repro {
			key = "C07/inprocess-same-g-unstable/" + d.key()
		}
		res.AddViolation(Violation{
			Key: key,
			What: fmt.Sprintf("`pkglint %s` as run %d of [%s] on ONE G (Main called repeatedly, as the test suite does) gives a different result than in a fresh process: %s",
				strings.Join(mk([]string{target})[0].Args, " "), len(best), strings.Join(best, ","), c07Where(want, got)),
			FoundInput: repro,
			Size:       len(best)*100000 + len(want.Stdout),
			Replay: map[string]any{"kind": "same-g", "files": c07TreeFiles(root), "steps": rsteps, "stdout_fresh": want.Stdout, "stdout_same_g": got.Stdout,
				"diff": d.what + "/" + d.kind},
		})
	}
}

func replayC07SameG(ctx *Ctx, rep map[string]any) *Result {
	res := &Result{Rule: "replay"}
	root := filepath.Join(ctx.Work, "replay-sameg")
	files, _ := rep["files"].(map[string]any)
	c07WriteFiles(root, files)
	var cases []c07Case
	steps, _ := rep["steps"].([]any)
	for i, s := range steps {
		m, _ := s.(map[string]any)
		cases = append(cases, c07Case{Tree: i, Root: root, Cwd: ".", Args: c07Strings(m["args"])})
	}
	if len(cases) == 0 {
		res.Broken = "replay file without steps"
		return res
	}
	want := c07Fresh(ctx, cases[len(cases)-1], "want")
	outs, err := c07SeqG(ctx, "replay-sameg", cases, true)
	if err != nil {
		res.Broken = err.Error()
		return res
	}
	res.Evaluations = len(cases) + 1
	if got := outs[len(outs)-1]; !got.same(want) {
		for _, d := range c07Compare(want, got) {
			res.AddViolation(Violation{Key: "C07/inprocess-same-g/" + d.key(),
				What:       fmt.Sprintf("`pkglint %s` after %d earlier Main(s) on the same G differs from a fresh process: %s", strings.Join(cases[len(cases)-1].Args, " "), len(cases)-1, c07Where(want, got)),
				FoundInput: true, Size: len(cases),
				Replay:     rep})
		}
	}
	return res
}
