package main

// C04: default, --show-autofix and --autofix tell one consistent story.
//
// Whole-run part (the property itself): on identical copies of a generated
// tree the real binary is run in the modes default, -f, -F, -f -F, with and
// without -s and --only; the outputs are related as the property demands.
// Unit part (c04_unit.go): random event scripts through the real
// Logger+Autofix versus the extracted mode machine (coq/Model/Modes.v).

import (
	"bytes"
	"fmt"
	"os"
	"os/exec"
	"path/filepath"
	"regexp"
	"sort"
	"strings"
	"time"
)

type c04Cfg struct {
	Source  bool
	Only    []string
	Targets []string // command-line targets relative to the pkgsrc root; empty = "-r ."
}

func (c c04Cfg) String() string {
	s := ""
	if c.Source {
		s += "-s "
	}
	for _, o := range c.Only {
		s += "--only " + q(o) + " "
	}
	if len(c.Targets) > 0 {
		s += strings.Join(c.Targets, " ")
	} else {
		s += "-r ."
	}
	return strings.TrimSpace(s)
}

// TargetKind classifies the command-line targets for the coverage statistics.
func (c c04Cfg) TargetKind(tf c04Files) string {
	switch {
	case len(c.Targets) == 0:
		return "-r ."
	case len(c.Targets) > 1:
		return "several targets"
	}
	if _, isFile := tf[c.Targets[0]]; isFile {
		k := c04FileKind(c.Targets[0])
		if c.Targets[0] == "cat/Makefile" {
			k = "category Makefile"
		}
		return "file " + k
	}
	return "directory"
}

var c04Modes = []string{"default", "show", "fix", "both"}

func (c c04Cfg) Args(mode string) []string {
	a := []string{"-Wall"}
	switch mode {
	case "show":
		a = append(a, "-f")
	case "fix":
		a = append(a, "-F")
	case "both":
		a = append(a, "-f", "-F")
	}
	if c.Source {
		a = append(a, "-s")
	}
	for _, o := range c.Only {
		a = append(a, "--only", o)
	}
	if len(c.Targets) > 0 {
		return append(a, c.Targets...)
	}
	return append(a, "-r", ".")
}

type c04Out struct {
	Mode     string
	Res      RunResult
	Diags    []Diag // everything but AUTOFIX
	Fixes    []Diag // AUTOFIX lines, in output order
	HintShow bool   // (Run "... -fs ..." to show what can be fixed automatically.)
	HintFix  bool   // (Run "... -F ..." to automatically fix some issues.)
	After    c04Files
	Changed  []string
}

func c04Run(ctx *Ctx, dir string, tf c04Files, cfg c04Cfg, mode string) *c04Out {
	tf.Materialize(dir)
	o := &c04Out{Mode: mode}
	o.Res = RunPkglint(ctx, dir, 20*time.Second, cfg.Args(mode)...)
	for _, l := range strings.Split(o.Res.Stdout, "\n") {
		if d, ok := ParseDiag(l); ok {
			if d.Level == "AUTOFIX" {
				o.Fixes = append(o.Fixes, d)
			} else {
				o.Diags = append(o.Diags, d)
			}
			continue
		}
		if strings.HasPrefix(l, "(Run \"") {
			if strings.HasSuffix(l, "to show what can be fixed automatically.)") {
				o.HintShow = true
			}
			if strings.HasSuffix(l, "to automatically fix some issues.)") {
				o.HintFix = true
			}
		}
	}
	o.Diags, o.Fixes = c04Canon(o.Diags), c04Canon(o.Fixes)
	o.After = c04ReadTree(dir)
	o.Changed = tf.Diff(o.After)
	return o
}

func c04FileKind(p string) string {
	b := filepath.Base(p)
	switch {
	case strings.HasPrefix(b, "patch-"):
		return "patch"
	case strings.HasPrefix(b, "PLIST"):
		return "PLIST"
	case strings.HasSuffix(b, ".mk"):
		return "*.mk"
	case strings.HasPrefix(b, "Makefile."):
		return "Makefile.*"
	}
	return b
}

var reGoQuoted = regexp.MustCompile(`"(?:[^"\\]|\\.)*"`)

// c04NoopAction: "Replacing x with x." changes nothing by itself.
func c04NoopAction(msg string) bool {
	if !strings.HasPrefix(msg, "Replacing ") {
		return false
	}
	m := reGoQuoted.FindAllString(msg, -1)
	return len(m) == 2 && m[0] == m[1]
}

func c04CountPath(ds []Diag, p string) int {
	n := 0
	for _, d := range ds {
		if filepath.Clean(d.Path) == p {
			n++
		}
	}
	return n
}

func c04Kinds(ds []Diag) string {
	m := map[string]bool{}
	for _, d := range ds {
		m[c04FileKind(d.Path)] = true
	}
	return strings.Join(sortedKeys(m), "+")
}

func c04Multiset(ds []Diag) map[string]int {
	m := map[string]int{}
	for _, d := range ds {
		m[d.Key()]++
	}
	return m
}

// c04Canon: the location of a diagnostic is the file it names, however the
// path is spelled (an included file is printed as cat/p1/../../cat/common/x.mk)
func c04Canon(ds []Diag) []Diag {
	out := make([]Diag, len(ds))
	for i, d := range ds {
		if d.Path != "" {
			d.Path = filepath.Clean(d.Path)
		}
		out[i] = d
	}
	return out
}

type c04Finding struct {
	Key  string
	What string
}

type c04Obs struct {
	Outs               map[string]*c04Out
	Diverged           int // number of AUTOFIX lines in the symmetric difference of -f and -F
	Exempted           int // of these, exempt because a rewritten file had been read again
	StaleReads         int
	TraceErr           string
	FixButNoHint       string
	LoggedNotPerformed int
	Rewritten          int
}

func (o *c04Out) crashed() bool {
	return o.Res.TimedOut || o.Res.Signal != "" || (o.Res.Exit != 0 && o.Res.Exit != 1)
}

// c04Evaluate runs the four modes on identical copies and returns what
// contradicts the property.
func c04Evaluate(ctx *Ctx, dir string, tf c04Files, cfg c04Cfg) ([]c04Finding, *c04Obs) {
	obs := &c04Obs{Outs: map[string]*c04Out{}}
	for _, m := range c04Modes {
		obs.Outs[m] = c04Run(ctx, filepath.Join(dir, m), tf, cfg, m)
	}
	def, show, fix, both := obs.Outs["default"], obs.Outs["show"], obs.Outs["fix"], obs.Outs["both"]
	var fs []c04Finding
	add := func(key, what string) { fs = append(fs, c04Finding{key, what}) }
	for _, m := range c04Modes {
		if obs.Outs[m].crashed() {
			// a crash is C01's finding; the modes cannot be compared
			return nil, obs
		}
	}
	obs.Rewritten = len(fix.Changed)

	// (a) -f announces what -F performs
	ms, mf := c04Multiset(show.Fixes), c04Multiset(fix.Fixes)
	var onlyShow, onlyFix []int
	seen := map[string]int{}
	for i, d := range show.Fixes {
		seen[d.Key()]++
		if seen[d.Key()] > mf[d.Key()] {
			onlyShow = append(onlyShow, i)
		}
	}
	seen = map[string]int{}
	for j, d := range fix.Fixes {
		seen[d.Key()]++
		if seen[d.Key()] > ms[d.Key()] {
			onlyFix = append(onlyFix, j)
		}
	}
	obs.Diverged = len(onlyShow) + len(onlyFix)
	if obs.Diverged > 0 {
		exShow, exFix := map[int]bool{}, map[int]bool{}
		evs, traced, err := c04Trace(ctx, filepath.Join(dir, "traced"), tf, cfg)
		switch {
		case err != nil:
			obs.TraceErr = err.Error()
		case len(traced.Fixes) != len(fix.Fixes):
			obs.TraceErr = "traced -F run printed a different number of AUTOFIX lines"
		default:
			exShow, exFix, obs.StaleReads = c04Exempt(evs, show.Fixes, fix.Fixes, onlyShow, onlyFix)
		}
		for _, i := range onlyShow {
			d := show.Fixes[i]
			if exShow[i] {
				obs.Exempted++
				continue
			}
			add("C04/a/announced-not-performed/"+c04FileKind(d.Path)+"/"+MsgKind(d.Msg),
				fmt.Sprintf("[%s] -f announces %q but -F (which rewrote %v) does not log it, and no rewritten file was read again before", cfg, d.Raw, fix.Changed))
			break
		}
		for _, j := range onlyFix {
			d := fix.Fixes[j]
			if exFix[j] {
				obs.Exempted++
				continue
			}
			add("C04/a/performed-not-announced/"+c04FileKind(d.Path)+"/"+MsgKind(d.Msg),
				fmt.Sprintf("[%s] -F logs %q (rewrote %v) but -f does not announce it, and no rewritten file was read again before", cfg, d.Raw, fix.Changed))
			break
		}
	}
	// (a') "performs": an AUTOFIX line that -F (or -f -F) logs for a file which is
	// byte-identical before and after the run announces something that was not
	// performed -- unless the logged action is a no-op by itself
	owners := map[string]string{} // AUTOFIX line -> kind of the diagnostic it belongs to (from -f -F, else -f)
	for _, src := range []*c04Out{show, both} {
		for _, st := range c16Owners(src.Res.Stdout) {
			owners[st.fix.Key()] = st.owner
		}
	}
	for _, o := range []*c04Out{fix, both} {
		seenKey := map[string]bool{}
		for _, d := range o.Fixes {
			p := filepath.Clean(d.Path)
			before, okB := tf[p]
			after, okA := o.After[p]
			if !okB || !okA || before != after || c04NoopAction(d.Msg) {
				continue
			}
			owner := owners[d.Key()]
			if owner == "" {
				owner = "(not announced by -f) " + MsgKind(d.Msg)
			}
			key := "C04/a/announced-not-performed/file-unchanged/" + c16FileKind(p) + "/" + owner
			if seenKey[key] {
				continue
			}
			seenKey[key] = true
			obs.LoggedNotPerformed++
			add(key, fmt.Sprintf("[%s] pkglint %s logs %q but leaves %s byte-identical (-f announces %d AUTOFIX lines for it)",
				cfg, strings.Join(cfg.Args(o.Mode), " "), d.Raw, p, c04CountPath(show.Fixes, p)))
		}
	}

	// (b) every diagnostic of -f is a diagnostic of the default run
	defSet := c04Multiset(def.Diags)
	bKeys := map[string]bool{}
	for _, d := range show.Diags {
		if defSet[d.Key()] == 0 {
			key, cause := c04StaleTextCause(ctx, dir, tf, cfg, show.Res.Stdout, d)
			if bKeys[key] {
				continue
			}
			bKeys[key] = true
			add(key, fmt.Sprintf("[%s] -f prints %q, the default run does not%s", cfg, d.Raw, cause))
		}
	}

	// (c) the default run advertises fixing only when -f has something to show
	// (the converse is not part of the property: it is counted, not judged)
	hasFix := len(show.Fixes) > 0
	switch {
	case def.HintShow != def.HintFix:
		add("C04/c/half-hint", fmt.Sprintf("[%s] default run prints only one of the two hints (fs=%v F=%v)", cfg, def.HintShow, def.HintFix))
	case def.HintFix && !hasFix:
		add("C04/c/hint-but-nothing-to-show", fmt.Sprintf("[%s] default run advertises -fs/-F but -f prints no AUTOFIX line", cfg))
	case !def.HintFix && hasFix:
		obs.FixButNoHint = c04Kinds(show.Fixes)
	}
	// the -f run's own "-F" hint follows the same rule
	if show.HintFix && !hasFix {
		add("C04/c/show-mode-hint-but-nothing-shown", fmt.Sprintf("[%s] -f run advertises -F but prints no AUTOFIX line", cfg))
	}

	// (d) -f -F performs exactly what -F performs
	if len(both.Changed) != len(fix.Changed) || len(fix.After.Diff(both.After)) > 0 {
		add("C04/d/both-vs-fix/tree", fmt.Sprintf("[%s] -F and -f -F leave different trees: %v", cfg, fix.After.Diff(both.After)))
	}
	mb := c04Multiset(both.Fixes)
	for k, n := range mf {
		if mb[k] != n {
			add("C04/d/both-vs-fix/log", fmt.Sprintf("[%s] AUTOFIX line %q: %d times with -F, %d times with -f -F", cfg, k, n, mb[k]))
			break
		}
	}
	if len(mb) != len(mf) && len(fs) == 0 {
		add("C04/d/both-vs-fix/log", fmt.Sprintf("[%s] -f -F logs %d distinct AUTOFIX lines, -F %d", cfg, len(mb), len(mf)))
	}
	return fs, obs
}

// ---------- the exemption of C04(a), decided on a system-call trace ----------
//
// The property exempts "every action that depends on a file --autofix has
// already rewritten earlier in the same run". This is decided on facts, not
// guessed: when the AUTOFIX lines of -f and -F differ, the -F run is repeated
// on a fresh copy under strace (openat / rename* / write(1)), which orders the
// printed AUTOFIX lines, the saves (rename of <file>.pkglint.tmp onto <file>)
// and the loads (open for reading).
//
//   stale read  = an open of r at time t2 after a rename onto r at t1 < t2
//   item(p)     = the directory pkglint checks p with (dir(p), "patches" stripped)
//   start(D)    = the first open of anything below D
//
//   an AUTOFIX line of -F printed at time t for path p is exempt iff there is a
//   stale read at t2 with start(item(p)) <= t2 <= t;
//   an AUTOFIX line that only -f prints, for path p, is exempt iff there is a
//   stale read at t2 with start(item(p)) <= t2 <= (time at which -F printed the
//   next line that both runs have in common, or the end of the run).
//
// Everything else must agree exactly.

type c04Ev struct {
	kind byte // 'o' open for reading, 'r' rename onto path, 'w' AUTOFIX line written to stdout
	path string
}

// a call that strace prints as "<unfinished ...>" is taken as successful (that
// can only add exemptions, and an open of a file that was just renamed into
// place does not fail)
var reStraceOpen = regexp.MustCompile(`^\d+ +openat\(AT_FDCWD, "((?:[^"\\]|\\.)*)", ([A-Z_|]+)`)
var reStraceRename = regexp.MustCompile(`^\d+ +rename(?:at2?)?\((?:AT_FDCWD, )?"((?:[^"\\]|\\.)*)", (?:AT_FDCWD, )?"((?:[^"\\]|\\.)*)"`)
var reStraceWrite = regexp.MustCompile(`^\d+ +write\(1, "AUTOFIX: `)

func c04Trace(ctx *Ctx, dir string, tf c04Files, cfg c04Cfg) ([]c04Ev, *c04Out, error) {
	strace, err := exec.LookPath("strace")
	if err != nil {
		return nil, nil, err
	}
	tf.Materialize(dir)
	tracefile := dir + ".strace"
	defer os.Remove(tracefile)
	args := append([]string{"-f", "-s", "64", "-e", "trace=openat,rename,renameat,renameat2,write", "-o", tracefile, ctx.Pkglint}, cfg.Args("fix")...)
	cmd := exec.Command(strace, args...)
	cmd.Dir = dir
	cmd.Env = append(os.Environ(), "PKGSRCDIR=", "HOME="+dir, "GOMAXPROCS=2", "GOMEMLIMIT=2GiB")
	var ob bytes.Buffer
	cmd.Stdout = &ob
	done := make(chan error, 1)
	if err := cmd.Start(); err != nil {
		return nil, nil, err
	}
	go func() { done <- cmd.Wait() }()
	select {
	case <-done:
	case <-time.After(60 * time.Second):
		cmd.Process.Kill()
		return nil, nil, fmt.Errorf("strace run timed out")
	}
	o := &c04Out{Mode: "fix"}
	o.Res.Stdout = ob.String()
	for _, d := range ParseDiags(o.Res.Stdout) {
		if d.Level == "AUTOFIX" {
			o.Fixes = append(o.Fixes, d)
		}
	}
	o.Fixes = c04Canon(o.Fixes)
	o.After = c04ReadTree(dir)
	o.Changed = tf.Diff(o.After)
	data, err := os.ReadFile(tracefile)
	if err != nil {
		return nil, nil, err
	}
	var evs []c04Ev
	for _, l := range strings.Split(string(data), "\n") {
		if strings.Contains(l, ") = -1 ") {
			continue
		}
		if m := reStraceOpen.FindStringSubmatch(l); m != nil {
			if !strings.Contains(m[2], "O_WRONLY") && !strings.Contains(m[2], "O_RDWR") {
				evs = append(evs, c04Ev{'o', filepath.Clean(m[1])})
			}
		} else if m := reStraceRename.FindStringSubmatch(l); m != nil {
			evs = append(evs, c04Ev{'r', filepath.Clean(m[2])})
		} else if reStraceWrite.MatchString(l) {
			evs = append(evs, c04Ev{'w', ""})
		}
	}
	return evs, o, nil
}

func c04Item(p string) string {
	d := filepath.Dir(filepath.Clean(p))
	if filepath.Base(d) == "patches" {
		d = filepath.Dir(d)
	}
	return d
}

// c04Exempt returns, for the diverging lines (indices into show.Fixes and
// fix.Fixes), whether each one is exempt; fixTimes are the trace times of the
// AUTOFIX lines of the -F run.
func c04Exempt(evs []c04Ev, show, fix []Diag, onlyShowIdx, onlyFixIdx []int) (exShow, exFix map[int]bool, staleReads int) {
	exShow, exFix = map[int]bool{}, map[int]bool{}
	renamed := map[string]bool{}
	var stale []int
	start := map[string]int{}
	var wtimes []int
	for t, e := range evs {
		switch e.kind {
		case 'r':
			renamed[e.path] = true
		case 'o':
			if renamed[e.path] {
				stale = append(stale, t)
			}
			for d := filepath.Dir(e.path); ; d = filepath.Dir(d) {
				if _, ok := start[d]; !ok {
					start[d] = t
				}
				if d == "." || d == "/" {
					break
				}
			}
		case 'w':
			wtimes = append(wtimes, t)
		}
	}
	staleReads = len(stale)
	if len(wtimes) != len(fix) {
		return // the trace does not line up with the output: nothing is exempt
	}
	between := func(lo, hi int) bool {
		for _, t := range stale {
			if lo <= t && t <= hi {
				return true
			}
		}
		return false
	}
	startOf := func(p string) int {
		if t, ok := start[c04Item(p)]; ok {
			return t
		}
		return len(evs) + 1 // never opened anything there: nothing can be stale
	}
	isOnlyFix := map[int]bool{}
	for _, j := range onlyFixIdx {
		isOnlyFix[j] = true
		exFix[j] = between(startOf(fix[j].Path), wtimes[j])
	}
	// pair the common lines: k-th occurrence of a key in -f <-> k-th common occurrence in -F
	isOnlyShow := map[int]bool{}
	for _, i := range onlyShowIdx {
		isOnlyShow[i] = true
	}
	commonF := map[string][]int{}
	for j, d := range fix {
		if !isOnlyFix[j] {
			commonF[d.Key()] = append(commonF[d.Key()], j)
		}
	}
	partner := map[int]int{}
	used := map[string]int{}
	for i, d := range show {
		if !isOnlyShow[i] {
			k := d.Key()
			if used[k] < len(commonF[k]) {
				partner[i] = commonF[k][used[k]]
				used[k]++
			}
		}
	}
	for _, i := range onlyShowIdx {
		hi := len(evs)
		for i2 := i + 1; i2 < len(show); i2++ {
			if j, ok := partner[i2]; ok {
				hi = wtimes[j]
				break
			}
		}
		exShow[i] = between(startOf(show[i].Path), hi)
	}
	return
}

// c04StaleTextCause explains a diagnostic d that -f prints and the default run
// does not. Candidates are the diagnostics that, earlier in the -f output,
// replaced text in the same file: the -f run checked the replaced text while
// the default run (where Replace/ReplaceAfter leave Line.Text alone) checked
// the original one. A candidate is confirmed by experiment: its fix alone is
// applied to a copy (pkglint -F --only <candidate>), and the default run on
// that copy must print d. The key names the confirmed cause.
func c04StaleTextCause(ctx *Ctx, dir string, tf c04Files, cfg c04Cfg, showStdout string, d Diag) (key, cause string) {
	var owner *Diag
	var cands []Diag
	seen := map[string]bool{}
	for _, l := range strings.Split(showStdout, "\n") {
		x, ok := ParseDiag(l)
		if !ok {
			continue
		}
		x.Path = filepath.Clean(x.Path)
		if x.Level != "AUTOFIX" {
			if x.Key() == d.Key() {
				break
			}
			y := x
			owner = &y
			continue
		}
		if owner != nil && x.Path == d.Path && strings.HasPrefix(x.Msg, "Replacing ") && MsgKind(owner.Msg) != MsgKind(d.Msg) && !seen[MsgKind(owner.Msg)] {
			seen[MsgKind(owner.Msg)] = true
			cands = append(cands, *owner)
		}
	}
	for _, c := range cands {
		pat := c04OnlyPattern(nil, c.Msg)
		if pat == "" {
			continue
		}
		fixed := c04Run(ctx, filepath.Join(dir, "cause-fix"), tf, c04Cfg{Only: []string{pat}, Targets: cfg.Targets}, "fix")
		if len(fixed.Changed) == 0 {
			continue
		}
		after := c04Run(ctx, filepath.Join(dir, "cause-default"), fixed.After, cfg, "default")
		for _, x := range after.Diags {
			if x.Key() == d.Key() {
				return "C04/b/f-diag-not-in-default/after-ReplaceAfter-fix-in-same-file(confirmed)/cause=" + MsgKind(c.Msg),
					fmt.Sprintf("; cause: %q replaces text of that file with Replace/ReplaceAfter, which updates Line.Text only with -f/-F; once that fix alone is applied (pkglint -F --only %q) the default run prints the diagnostic too", c.Raw, pat)
			}
		}
	}
	return "C04/b/f-diag-not-in-default/" + MsgKind(d.Msg), ""
}

// c04OnlyPattern derives a --only argument from a message the tree triggers:
// the longest stretch of the message between two quoted/numeric arguments is a
// substring of the format string.
func c04OnlyPattern(rng *Rng, msg string) string {
	parts := strings.Split(MsgKind(msg), "_")
	best := ""
	for _, p := range parts {
		p = strings.TrimSpace(p)
		if len(p) > len(best) {
			best = p
		}
	}
	ws := strings.Fields(best)
	if rng != nil && len(ws) > 3 && rng.Chance(50) {
		i := rng.Intn(len(ws) - 2)
		best = strings.Join(ws[i:i+2], " ")
	}
	return best
}

// c04Targets: the files below cat/ that can be given to pkglint on their own, by kind.
func c04Targets(tf c04Files) (byKind map[string][]string, pkgs []string) {
	byKind = map[string][]string{}
	seenPkg := map[string]bool{}
	for _, k := range sortedKeys(tf) {
		if !strings.HasPrefix(k, "cat/") {
			continue
		}
		kind := c04FileKind(k)
		if k == "cat/Makefile" {
			kind = "category Makefile"
		}
		byKind[kind] = append(byKind[kind], k)
		parts := strings.Split(k, "/")
		if len(parts) >= 3 && parts[2] == "Makefile" && !seenPkg[parts[1]] {
			seenPkg[parts[1]] = true
			pkgs = append(pkgs, "cat/"+parts[1])
		}
	}
	return
}

// c04TargetConfigs: besides "-r .", run on a package directory, on one file
// (the kind of file rotates with the tree index, so that every kind the
// generator writes is reached), and on several targets at once.
func c04TargetConfigs(rng *Rng, tf c04Files, idx int) []c04Cfg {
	byKind, pkgs := c04Targets(tf)
	var cfgs []c04Cfg
	if len(pkgs) > 0 {
		cfgs = append(cfgs, c04Cfg{Targets: []string{Pick(rng, pkgs)}, Source: rng.Chance(20)})
	}
	kinds := sortedKeys(byKind)
	var all []string
	for _, k := range kinds {
		all = append(all, byKind[k]...)
	}
	if len(kinds) > 0 {
		k := kinds[idx%len(kinds)]
		cfgs = append(cfgs, c04Cfg{Targets: []string{Pick(rng, byKind[k])}, Source: rng.Chance(20)})
		if rng.Chance(50) { // a second single file, of a random kind
			cfgs = append(cfgs, c04Cfg{Targets: []string{Pick(rng, all)}})
		}
	}
	if len(all) > 1 {
		n := 2 + rng.Intn(2)
		var ts []string
		seen := map[string]bool{}
		for len(ts) < n {
			t := Pick(rng, append(append([]string{}, all...), pkgs...))
			if !seen[t] {
				seen[t] = true
				ts = append(ts, t)
			}
			if len(seen) >= len(all)+len(pkgs) {
				break
			}
		}
		cfgs = append(cfgs, c04Cfg{Targets: ts})
	}
	return cfgs
}

func c04Configs(ctx *Ctx, rng *Rng, dir string, tf c04Files, idx int) []c04Cfg {
	cfgs := []c04Cfg{{}, {Source: true}}
	// what does the tree trigger?
	probe := c04Run(ctx, filepath.Join(dir, "probe-default"), tf, c04Cfg{}, "default")
	probeShow := c04Run(ctx, filepath.Join(dir, "probe-show"), tf, c04Cfg{}, "show")
	pool := probe.Diags
	if len(probeShow.Diags) > 0 && rng.Chance(60) {
		pool = probeShow.Diags // diagnostics that come with a fix
	}
	if len(pool) > 0 {
		p := c04OnlyPattern(rng, Pick(rng, pool).Msg)
		if p != "" {
			cfgs = append(cfgs, c04Cfg{Only: []string{p}, Source: rng.Chance(30)})
		}
		if rng.Chance(40) {
			p2 := c04OnlyPattern(rng, Pick(rng, probe.Diags).Msg)
			if p2 != "" && p != "" {
				cfgs = append(cfgs, c04Cfg{Only: []string{p, p2}, Source: rng.Chance(30)})
			}
		}
	}
	return append(cfgs, c04TargetConfigs(rng, tf, idx)...)
}

type c04Case struct {
	tree c04Files
	cfg  c04Cfg
	feat map[string]int
}

func c04WholeRun(ctx *Ctx, res *Result, rng *Rng, ntrees int) {
	base := c04BaseTree(ctx.Work)
	type job struct {
		idx  int
		rng  *Rng
		opts GenOpts
	}
	jobs := make([]job, ntrees)
	for i := range jobs {
		jobs[i] = job{i, rng.Fork(), GenOpts{Packages: 1 + i%3, Density: 25 + 15*(i%4), Rich: i%11 == 10}}
	}
	type outcome struct {
		findings []c04Finding
		cfg      c04Cfg
		tree     c04Files
	}
	outcomes := make([][]outcome, ntrees)
	parallelFor(ntrees, func(i int) {
		j := jobs[i]
		dir := filepath.Join(ctx.Work, fmt.Sprintf("c04w%d", i))
		defer os.RemoveAll(dir)
		g := GenerateTree(j.rng.Fork(), filepath.Join(dir, "gen"), j.opts)
		tf := c04ReadTree(g.Root)
		os.RemoveAll(g.Root)
		if i%3 != 0 {
			c04Augment(j.rng.Fork(), tf, g.Pkgs, j.opts.Density, g.Features)
			c04Augment2(j.rng.Fork(), tf, g.Pkgs, j.opts.Density, g.Features)
		}
		if i%2 == 1 {
			// fixes that interact inside one aligned paragraph (c04_inter.go)
			c04Augment3(j.rng.Fork(), tf, g.Pkgs, g.Features)
			for k, n := range g.Features {
				if strings.HasPrefix(k, "inter.") {
					res.Count("whole.feature "+k, n)
				}
			}
		}
		for _, cfg := range c04Configs(ctx, j.rng, dir, tf, i) {
			fs, obs := c04Evaluate(ctx, dir, tf, cfg)
			res.mu.Lock()
			res.Evaluations++
			res.TracesValidated += 4
			res.mu.Unlock()
			show := obs.Outs["show"]
			if show.crashed() {
				res.Count("whole.crashed-runs(skipped)", 1)
				continue
			}
			tk := cfg.TargetKind(tf)
			res.Count("whole.target "+tk, 1)
			if len(show.Fixes) > 0 {
				res.Count("whole.target-with-AUTOFIX "+tk, 1)
			}
			if len(show.Fixes) > 0 {
				res.Count("whole.evaluations-with-AUTOFIX", 1)
				res.mu.Lock()
				res.DistinctNontrivial++
				res.mu.Unlock()
			}
			switch n := obs.Rewritten; {
			case n == 0:
				res.Count("whole.F-rewrote-0-files", 1)
			case n == 1:
				res.Count("whole.F-rewrote-1-file", 1)
			default:
				res.Count("whole.F-rewrote-2+-files", 1)
			}
			if obs.Diverged > 0 {
				res.Count("whole.f-vs-F-diverging-evaluations", 1)
				res.Count("whole.f-vs-F-diverging-lines", obs.Diverged)
				res.Count("whole.f-vs-F-diverging-lines-exempt(stale read traced)", obs.Exempted)
				if obs.TraceErr != "" {
					res.Count("whole.trace-error: "+obs.TraceErr, 1)
				}
			}
			if len(cfg.Only) > 0 {
				res.Count("whole.only-runs", 1)
				if len(show.Fixes) > 0 {
					res.Count("whole.only-runs-with-AUTOFIX", 1)
				}
			}
			if cfg.Source {
				res.Count("whole.source-runs", 1)
			}
			if obs.FixButNoHint != "" {
				res.Count("whole.converse-of-(c): -f shows AUTOFIX, default gives no hint: "+obs.FixButNoHint, 1)
			}
			if obs.Outs["default"].HintFix {
				res.Count("whole.default-runs-with-hint", 1)
			}
			for _, d := range show.Fixes {
				res.Count("whole.action "+MsgKind(d.Msg), 1)
			}
			kinds := map[string]bool{}
			for _, d := range show.Diags {
				kinds[MsgKind(d.Msg)] = true
			}
			for k := range kinds {
				res.Count("whole.fixdiag "+k, 1)
			}
			// a paragraph that -f leaves to the next run (VaralignBlock.Finish gives
			// up): the default run has an alignment note for a line of a file in
			// which -f replaces text, and -f prints no alignment note for that line
			{
				showAlign := map[string]bool{}
				for _, d := range show.Diags {
					if strings.HasPrefix(d.Msg, "This variable value should be aligned") {
						showAlign[fmt.Sprintf("%s:%d", d.Path, d.Line1)] = true
					}
				}
				replaced := map[string]bool{}
				for _, d := range show.Fixes {
					if strings.HasPrefix(d.Msg, "Replacing ") {
						replaced[d.Path] = true
					}
				}
				for _, d := range obs.Outs["default"].Diags {
					if strings.HasPrefix(d.Msg, "This variable value should be aligned") && replaced[d.Path] && !showAlign[fmt.Sprintf("%s:%d", d.Path, d.Line1)] {
						res.Count("whole.f-leaves-paragraph-to-next-run", 1)
						break
					}
				}
			}
			if len(fs) > 0 {
				outcomes[i] = append(outcomes[i], outcome{fs, cfg, tf})
			}
			if i < 3 && len(cfg.Only) == 0 && !cfg.Source {
				res.Sample(map[string]any{"tree": tf.Hash(), "features": g.Features, "cfg": cfg.String(),
					"autofix_lines_f": len(show.Fixes), "autofix_lines_F": len(obs.Outs["fix"].Fixes), "diags_f": len(show.Diags),
					"diags_default": len(obs.Outs["default"].Diags), "rewritten": obs.Outs["fix"].Changed, "hint": obs.Outs["default"].HintFix})
			}
		}
	})
	// report: shrink the first tree per key
	doneKeys := map[string]bool{}
	for i := range outcomes {
		for _, oc := range outcomes[i] {
			for _, f := range oc.findings {
				if doneKeys[f.Key] {
					continue
				}
				doneKeys[f.Key] = true
				dir := filepath.Join(ctx.Work, "c04shrink")
				has := func(t c04Files) bool {
					fs, _ := c04Evaluate(ctx, dir, t, oc.cfg)
					for _, g := range fs {
						if g.Key == f.Key {
							return true
						}
					}
					return false
				}
				small := c04ShrinkTree(oc.tree, base, 250, has)
				what := f.What
				if fs, _ := c04Evaluate(ctx, dir, small, oc.cfg); true {
					for _, g := range fs {
						if g.Key == f.Key {
							what = g.What
						}
					}
				}
				os.RemoveAll(dir)
				rep := small.ToReplay(base)
				rep["kind"] = "whole"
				rep["source"] = oc.cfg.Source
				only := []any{}
				for _, o := range oc.cfg.Only {
					only = append(only, hx(o))
				}
				rep["only"] = only
				tg := []any{}
				for _, t := range oc.cfg.Targets {
					tg = append(tg, t)
				}
				rep["targets"] = tg
				rep["argv_default"] = strings.Join(oc.cfg.Args("default"), " ")
				rep["argv_show"] = strings.Join(oc.cfg.Args("show"), " ")
				rep["argv_fix"] = strings.Join(oc.cfg.Args("fix"), " ")
				res.AddViolation(Violation{Key: f.Key, What: what, FoundInput: true, Size: small.Size(), Replay: rep})
			}
		}
	}
}

func c04ReplayWhole(ctx *Ctx, res *Result, rep map[string]any) {
	base := c04BaseTree(ctx.Work)
	tf := c04TreeFromReplay(base, rep)
	cfg := c04Cfg{}
	cfg.Source, _ = rep["source"].(bool)
	if os, ok := rep["only"].([]any); ok {
		for _, o := range os {
			if s, ok := o.(string); ok {
				cfg.Only = append(cfg.Only, unhx(s))
			}
		}
	}
	if ts, ok := rep["targets"].([]any); ok {
		for _, t := range ts {
			if s, ok := t.(string); ok {
				cfg.Targets = append(cfg.Targets, s)
			}
		}
	}
	dir := filepath.Join(ctx.Work, "c04replay")
	fs, obs := c04Evaluate(ctx, dir, tf, cfg)
	res.Evaluations++
	for _, m := range c04Modes {
		o := obs.Outs[m]
		fmt.Printf("== pkglint %s   (exit %d)\n%s", strings.Join(cfg.Args(m), " "), o.Res.Exit, o.Res.Stdout)
		if len(o.Changed) > 0 {
			fmt.Printf("-- rewritten: %v\n", o.Changed)
		}
	}
	for _, f := range fs {
		rep2 := tf.ToReplay(base)
		for _, k := range []string{"kind", "source", "only", "targets"} {
			rep2[k] = rep[k]
		}
		res.AddViolation(Violation{Key: f.Key, What: f.What, FoundInput: true, Size: tf.Size(), Replay: rep2})
	}
}

func c04SortedCounts(m map[string]int) []string {
	ks := sortedKeys(m)
	sort.Slice(ks, func(i, j int) bool { return m[ks[i]] > m[ks[j]] })
	return ks
}

func runC04(ctx *Ctx) *Result {
	res := &Result{Rule: "whole runs: one evaluation = one generated tree x one option set {-s, --only p...} run in the four modes default/-f/-F/-f -F on identical copies; non-trivial = an evaluation in which -f prints at least one AUTOFIX line (counted per tree x option set). unit: see c04_unit.go"}
	rng := NewRng(ctx.Seed)
	ntrees := 150
	if ctx.Tier == "thorough" {
		ntrees = 3000
	}
	nscripts := 3000
	if ctx.Tier == "thorough" {
		nscripts = 100000
	}
	c04Unit(ctx, res, rng.Fork(), nscripts)
	c04WholeRun(ctx, res, rng.Fork(), ntrees)
	nparas := 600
	if ctx.Tier == "thorough" {
		nparas = 20000
	}
	c04ParaUnit(ctx, res, rng.Fork(), nparas)
	c04Floors(res)
	return res
}

// coverage floors: what the property names must really have been reached
func c04Floors(res *Result) {
	// a missed floor next to a violation is explained by the violation
	if res.Broken != "" || len(res.Violations) > 0 {
		return
	}
	floor := func(key string, min int) {
		n, _ := res.Distribution[key].(int)
		if n < min && res.Broken == "" {
			res.Broken = fmt.Sprintf("coverage floor missed: %s = %d < %d", key, n, min)
		}
	}
	floor("unit.item AUTOFIX Replacing _ with _.", 200)
	floor("unit.item AUTOFIX Inserting a line _ above this line.", 50)
	floor("unit.item AUTOFIX Inserting a line _ below this line.", 20)
	floor("unit.item AUTOFIX Deleting this line.", 20)
	floor("unit.item AUTOFIX Sorting the whole file.", 10)
	floor("unit.item diagnostic", 500)
	floor("unit.item HF", 50)
	floor("unit.item HS", 20)
	floor("unit.panics (assertions of Autofix reached)", 20)
	floor("whole.evaluations-with-AUTOFIX", 100)
	floor("whole.only-runs-with-AUTOFIX", 20)
	floor("whole.source-runs", 50)
	floor("whole.F-rewrote-1-file", 10)
	floor("whole.F-rewrote-2+-files", 50)
	floor("whole.default-runs-with-hint", 100)
	floor("whole.f-vs-F-diverging-lines-exempt(stale read traced)", 5)
	for _, k := range []string{"Makefile", "*.mk", "PLIST", "distinfo", "DESCR", "patch", "category Makefile"} {
		floor("whole.target file "+k, 5)
	}
	for _, k := range []string{"Makefile", "*.mk", "PLIST", "distinfo"} {
		floor("whole.target-with-AUTOFIX file "+k, 3)
	}
	floor("whole.target file ALTERNATIVES", 2)
	floor("para.mode default finish-goes-on=true", 300)
	floor("para.mode -f finish-goes-on=false", 50)
	floor("para.mode -f finish-goes-on=true", 50)
	floor("para.mode -F a line changed between Process and Finish", 50)
	floor("whole.feature inter.crossing", 30)
	floor("whole.feature inter.subst-dup-assign", 10)
	floor("whole.feature inter.subst-sed-to-vars", 5)
	floor("whole.fixdiag All but the first assignment to _ should use the _ operator.", 10)
	floor("whole.f-leaves-paragraph-to-next-run", 20)
	floor("whole.target directory", 50)
	floor("whole.target several targets", 50)
	for _, a := range []string{"Replacing _ with _.", "Inserting a line _ above this line.", "Deleting this line.", "Sorting the whole file."} {
		floor("whole.action "+a, 10)
	}
}

func replayC04(ctx *Ctx, rep map[string]any) *Result {
	res := &Result{Rule: "replay"}
	switch rep["kind"] {
	case "whole":
		c04ReplayWhole(ctx, res, rep)
	case "para":
		c04CheckParas(ctx, res, []c04Para{c04ParaFromReplay(rep)})
	case "script":
		dir := filepath.Join(ctx.Work, "c04unit")
		src, _ := rep["source"].(bool)
		c04CheckScripts(ctx, res, []c04Script{c04ScriptFromReplay(rep, dir)}, []bool{src})
	}
	return res
}

func init() { register("C04", runC04, replayC04) }
