package main

// C11: valid POSIX shell command lines are never reported as unparseable.
//
// Programs are abstract syntax trees of Spec/PosixSh.v, built here in the
// prefix serialisation that oracle/c11.ml reads; the *oracle* prints them
// (Spec.PosixSh.tokens), so the text judged by sh/bash and parsed by pkglint
// is the text the Coq theorem talks about.  For every program:
//
//	judges      sh -n -c and bash -n -c on the text with $$ -> $
//	real code   parseShellProgram (shim VerifParseShell), splitIntoShellTokens,
//	            ShellLexer.Lex call by call; later the real binary on a package
//	            Makefile holding the program as a target command
//	model       Model.ShellLex.shell_lex, Model.ShellLR.lr_parse_terms,
//	            Spec.Derivation.check_trace, Spec.PosixSh.{wf_words,supported,terms}
//
// Property: judges accept  =>  pkglint reports no parse error.
// Correspondences: tokens, terminals (Lex), accept/reject (tables), theorem
// instances (supported && wf_words => lexed = intended, tables accept, the
// trace is a derivation), goyacc(shell.y) = tables of shellyacc.go.

import (
	"fmt"
	"go/ast"
	"go/parser"
	"go/token"
	"os"
	"os/exec"
	"path/filepath"
	"regexp"
	"sort"
	"strconv"
	"strings"
	"sync"
	"time"

	pkglint "github.com/rillig/pkglint/v23"
)

// ---------- enumeration of AST shapes by number of tokens ----------

// A shape is a serialised AST whose words are holes:
//
//	@N command/function name   @M command name after an assignment   @A argument   @S assignment   @P case pattern
//	@V for variable            @C case subject               @D @O @T redirection fd, operator, target
type c11Enum struct {
	memo    map[string][][]string
	reduced bool // only `;`, `&&`, no `!`, no until: the operators that pkglint treats exactly like their siblings
}

func (e *c11Enum) get(cat string, n int, f func() []string) []string {
	if e.memo == nil {
		e.memo = map[string][][]string{}
	}
	m := e.memo[cat]
	for len(m) <= n {
		m = append(m, nil)
	}
	if n < 0 {
		return nil
	}
	if m[n] == nil {
		r := f()
		if r == nil {
			r = []string{}
		}
		m = e.memo[cat]
		for len(m) <= n {
			m = append(m, nil)
		}
		m[n] = r
		e.memo[cat] = m
	}
	e.memo[cat] = m
	return m[n]
}

func c11Cross(as, bs []string, f func(a, b string) string) []string {
	var out []string
	for _, a := range as {
		for _, b := range bs {
			out = append(out, f(a, b))
		}
	}
	return out
}

// item sequences of exactly n tokens: W = 1 token, R = 2 tokens.  The result
// is the list of item-kind strings such as "WRW".
func c11ItemSeqs(n int) []string {
	if n == 0 {
		return []string{""}
	}
	var out []string
	for _, s := range c11ItemSeqs(n - 1) {
		out = append(out, s+"W")
	}
	if n >= 2 {
		for _, s := range c11ItemSeqs(n - 2) {
			out = append(out, s+"R")
		}
	}
	return out
}

const c11RedirHole = "@D @O @T"

func c11Redirs(r int) string {
	s := strconv.Itoa(r)
	for i := 0; i < r; i++ {
		s += " " + c11RedirHole
	}
	return s
}

func (e *c11Enum) simple(n int) []string {
	return e.get("simple", n, func() []string {
		var out []string
		for a := 0; a <= n; a++ {
			for _, seq := range c11ItemSeqs(n - a) {
				if a == 0 && seq == "" {
					continue
				}
				s := "CS " + strconv.Itoa(a) + strings.Repeat(" @S", a) + " " + strconv.Itoa(len(seq))
				first := true
				for _, k := range seq {
					if k == 'W' {
						if first && a > 0 {
							s += " W @M"
							first = false
						} else if first {
							s += " W @N"
							first = false
						} else {
							s += " W @A"
						}
					} else {
						s += " R " + c11RedirHole
					}
				}
				out = append(out, s)
			}
		}
		return out
	})
}

func (e *c11Enum) cmd(n int) []string {
	return e.get("cmd", n, func() []string {
		out := append([]string(nil), e.simple(n)...)
		for r := 0; 2*r < n; r++ {
			for _, k := range e.compound(n - 2*r) {
				out = append(out, "CC "+k+" "+c11Redirs(r))
			}
			for _, k := range e.compound(n - 2*r - 3) {
				out = append(out, "CF @N "+k+" "+c11Redirs(r))
			}
		}
		return out
	})
}

func (e *c11Enum) elsePart(n int) []string {
	return e.get("else", n, func() []string {
		var out []string
		if n == 1 {
			out = append(out, "EN")
		}
		for _, l := range e.clist(n - 2) {
			out = append(out, "EE "+l)
		}
		for c := 1; c <= n-5; c++ {
			for t := 1; t <= n-4-c; t++ {
				cs, ts, es := e.clist(c), e.clist(t), e.elsePart(n-2-c-t)
				for _, x := range cs {
					for _, y := range ts {
						for _, z := range es {
							out = append(out, "EI "+x+" "+y+" "+z)
						}
					}
				}
			}
		}
		return out
	})
}

func (e *c11Enum) items(n int) []string {
	return e.get("items", n, func() []string {
		var out []string
		if n == 1 {
			out = append(out, "IN")
		}
		for lp := 0; lp <= 1; lp++ {
			for np := 0; np <= 2; np++ {
				sel := lp + 1 + 2*np + 1
				head := fmt.Sprintf("%d @P %d%s", lp, np, strings.Repeat(" @P", np))
				// last item without ;;
				if n-sel-1 == 0 {
					out = append(out, "IL "+head+" BN")
				}
				for _, l := range e.clist(n - sel - 1) {
					out = append(out, "IL "+head+" BS "+l)
				}
				// item ;; rest
				for b := 0; b <= n-sel-2; b++ {
					rest := e.items(n - sel - 1 - b)
					if len(rest) == 0 {
						continue
					}
					if b == 0 {
						for _, r := range rest {
							out = append(out, "IC "+head+" BN "+r)
						}
					} else {
						for _, l := range e.clist(b) {
							for _, r := range rest {
								out = append(out, "IC "+head+" BS "+l+" "+r)
							}
						}
					}
				}
			}
		}
		return out
	})
}

func (e *c11Enum) compound(n int) []string {
	return e.get("compound", n, func() []string {
		var out []string
		for _, l := range e.clist(n - 2) {
			out = append(out, "KB "+l, "KS "+l)
		}
		for _, l := range e.clist(n - 4) {
			out = append(out, "KF @V FD "+l)
		}
		for _, l := range e.clist(n - 5) {
			out = append(out, "KF @V FS "+l)
		}
		for k := 0; k <= 2; k++ {
			for _, l := range e.clist(n - 6 - k) {
				out = append(out, fmt.Sprintf("KF @V FI %d%s %s", k, strings.Repeat(" @A", k), l))
			}
		}
		for _, it := range e.items(n - 3) {
			out = append(out, "KC @C "+it)
		}
		for c := 1; c <= n-4; c++ {
			for t := 1; t <= n-3-c; t++ {
				cs, ts, es := e.clist(c), e.clist(t), e.elsePart(n-2-c-t)
				for _, x := range cs {
					for _, y := range ts {
						for _, z := range es {
							out = append(out, "KI "+x+" "+y+" "+z)
						}
					}
				}
			}
		}
		for c := 1; c <= n-4; c++ {
			for _, x := range e.clist(c) {
				for _, y := range e.clist(n - 3 - c) {
					out = append(out, "KW "+x+" "+y)
					if !e.reduced {
						out = append(out, "KU "+x+" "+y)
					}
				}
			}
		}
		return out
	})
}

func (e *c11Enum) pipe(n int) []string {
	return e.get("pipe", n, func() []string {
		var out []string
		for _, c := range e.cmd(n) {
			out = append(out, "P1 "+c)
		}
		for k := 1; k <= n-2; k++ {
			out = append(out, c11Cross(e.pipe(k), e.cmd(n-k-1), func(a, b string) string { return "PP " + a + " " + b })...)
		}
		return out
	})
}

func (e *c11Enum) andor(n int) []string {
	return e.get("andor", n, func() []string {
		var out []string
		for b := 0; b <= 1; b++ {
			if b == 1 && e.reduced {
				continue
			}
			for _, p := range e.pipe(n - b) {
				out = append(out, fmt.Sprintf("A1 %d %s", b, p))
			}
			for k := 1; k <= n-2-b; k++ {
				for _, op := range []string{"AA", "AO"} {
					op := op
					if op == "AO" && e.reduced {
						continue
					}
					b := b
					out = append(out, c11Cross(e.andor(k), e.pipe(n-k-1-b), func(x, y string) string {
						return fmt.Sprintf("%s %s %d %s", op, x, b, y)
					})...)
				}
			}
		}
		return out
	})
}

func (e *c11Enum) seq(n int) []string {
	return e.get("seq", n, func() []string {
		var out []string
		for _, a := range e.andor(n) {
			out = append(out, "Q1 "+a)
		}
		for k := 1; k <= n-2; k++ {
			for _, s := range []string{"S", "A"} {
				s := s
				if s == "A" && e.reduced {
					continue
				}
				out = append(out, c11Cross(e.seq(k), e.andor(n-k-1), func(x, y string) string {
					return "QS " + x + " " + s + " " + y
				})...)
			}
		}
		return out
	})
}

func (e *c11Enum) clist(n int) []string {
	return e.get("clist", n, func() []string {
		var out []string
		for _, q := range e.seq(n) {
			out = append(out, "CL "+q+" N")
		}
		for _, q := range e.seq(n - 1) {
			out = append(out, "CL "+q+" S")
			if !e.reduced {
				out = append(out, "CL "+q+" A")
			}
		}
		return out
	})
}

// ---------- random deeper ASTs (holes as above) ----------

type c11Gen struct {
	r *Rng
}

func (g *c11Gen) redirs(max int) string {
	n := 0
	if g.r.Chance(25) {
		n = 1 + g.r.Intn(max)
	}
	return c11Redirs(n)
}

func (g *c11Gen) simple() string {
	a := 0
	if g.r.Chance(25) {
		a = 1 + g.r.Intn(2)
	}
	m := g.r.Intn(5)
	if a == 0 && m == 0 {
		m = 1
	}
	s := "CS " + strconv.Itoa(a) + strings.Repeat(" @S", a) + " " + strconv.Itoa(m)
	first := true
	for i := 0; i < m; i++ {
		if g.r.Chance(22) {
			s += " R " + c11RedirHole
		} else if first && a > 0 {
			s += " W @M"
			first = false
		} else if first {
			s += " W @N"
			first = false
		} else {
			s += " W @A"
		}
	}
	return s
}

func (g *c11Gen) cmd(d int) string {
	if d <= 0 || g.r.Chance(45) {
		return g.simple()
	}
	if g.r.Chance(8) {
		return "CF @N " + g.compound(d-1) + " " + g.redirs(1)
	}
	return "CC " + g.compound(d-1) + " " + g.redirs(2)
}

func (g *c11Gen) body(d int) string {
	if g.r.Chance(15) {
		return "BN"
	}
	return "BS " + g.clist(d)
}

func (g *c11Gen) items(d int, n int) string {
	if n <= 0 {
		return "IN"
	}
	np := 0
	if g.r.Chance(30) {
		np = 1 + g.r.Intn(2)
	}
	lp := 0
	if g.r.Chance(25) {
		lp = 1
	}
	head := fmt.Sprintf("%d @P %d%s", lp, np, strings.Repeat(" @P", np))
	if n == 1 && g.r.Chance(40) {
		return "IL " + head + " " + g.body(d)
	}
	return "IC " + head + " " + g.body(d) + " " + g.items(d, n-1)
}

func (g *c11Gen) elsePart(d int) string {
	switch {
	case g.r.Chance(50):
		return "EN"
	case g.r.Chance(50):
		return "EE " + g.clist(d)
	default:
		return "EI " + g.clist(d) + " " + g.clist(d) + " " + g.elsePart(d)
	}
}

func (g *c11Gen) compound(d int) string {
	switch g.r.Intn(9) {
	case 0:
		return "KB " + g.clist(d)
	case 1:
		return "KS " + g.clist(d)
	case 2:
		switch {
		case g.r.Chance(25):
			return "KF @V FD " + g.clist(d)
		case g.r.Chance(8):
			return "KF @V FS " + g.clist(d)
		default:
			k := g.r.Intn(4)
			return fmt.Sprintf("KF @V FI %d%s %s", k, strings.Repeat(" @A", k), g.clist(d))
		}
	case 3, 4:
		return "KC @C " + g.items(d, g.r.Intn(4))
	case 5, 6:
		return "KI " + g.clist(d) + " " + g.clist(d) + " " + g.elsePart(d)
	case 7:
		return "KW " + g.clist(d) + " " + g.clist(d)
	default:
		return "KU " + g.clist(d) + " " + g.clist(d)
	}
}

func (g *c11Gen) pipe(d int) string {
	s := "P1 " + g.cmd(d)
	for g.r.Chance(18) {
		s = "PP " + s + " " + g.cmd(d)
	}
	return s
}

func (g *c11Gen) bang() string {
	if g.r.Chance(8) {
		return "1"
	}
	return "0"
}

func (g *c11Gen) andor(d int) string {
	s := "A1 " + g.bang() + " " + g.pipe(d)
	for g.r.Chance(18) {
		op := "AA"
		if g.r.Bool() {
			op = "AO"
		}
		s = op + " " + s + " " + g.bang() + " " + g.pipe(d)
	}
	return s
}

func (g *c11Gen) clist(d int) string {
	s := "Q1 " + g.andor(d)
	for g.r.Chance(22) {
		sep := "S"
		if g.r.Chance(20) {
			sep = "A"
		}
		s = "QS " + s + " " + sep + " " + g.andor(d)
	}
	last := "S"
	switch {
	case g.r.Chance(25):
		last = "N"
	case g.r.Chance(8):
		last = "A"
	}
	return "CL " + s + " " + last
}

// ---------- filling the holes ----------

var c11Names = []string{"echo", "${ECHO}", "\"my cmd\"", "$$cmd", ":", "true", "'x y'", "./configure", "[", "${TOOLS_PLATFORM.sed}", "cd", "test", "exit", "read"}
var c11Keywords = []string{"if", "then", "elif", "else", "fi", "for", "while", "until", "do", "done", "in", "case", "esac", "{", "}", "!"}
var c11Args = []string{"${X}#y", "a#b", "\"q\"#r", "arg", "\"a b\"", "'c d'", "$$var", "$${var}", "${MAKEVAR}", "\"$$x\"", "${VAR:Q}", "-o", "--", "1", "a=b", "*.c", "$$@", "\"$${x:-default}\"", "'a;b'", "\"|\"", "x\\ y", "${WRKSRC}/file", "-"}
var c11Assigns = []string{"VAR=x", "A=", "_x1=\"a b\"", "V=$$v", "PATH=${PREFIX}/bin:$$PATH", "i=1"}
var c11Patterns = []string{"if", "then", "do", "done", "fi", "for", "in", "{", "}", "!", "b=c", "x=", "a", "*", "*.c", "\"x\"", "$$pat", "${P}", "[0-9]*", "-*", "yes", "'no'"}
var c11ForVars = []string{"i", "var", "f_1", "in", "do", "x"}
var c11Subjects = []string{"$$x", "\"$$1\"", "${OPSYS}", "x", "in", "if", "esac", "\"$${a}-$${b}\""}
var c11Fds = []string{"-", "-", "-", "2", "1", "0", "10"}
var c11Ops = []string{"gt", "gt", "gt", "lt", "gtgt", "gtand", "ltand", "ltgt", "gtpipe", "ltlt", "ltltdash"}
var c11Targets = []string{"out", "/dev/null", "$$out", "${WRKDIR}/log", "\"$$f\"", "in", "do", "esac", "done", "file.txt"}
var c11DupTargets = []string{"2", "1", "-", "$$fd"}

func c11Fill(shape string, r *Rng, canonical bool) string {
	fs := strings.Fields(shape)
	lastOp := ""
	for i, f := range fs {
		if len(f) != 2 || f[0] != '@' {
			continue
		}
		pick := func(canon string, pools ...[]string) string {
			if canonical || r == nil {
				return canon
			}
			p := pools[r.Intn(len(pools))]
			return p[r.Intn(len(p))]
		}
		switch f[1] {
		case 'N':
			fs[i] = hx(pick("echo", c11Names))
		case 'M':
			fs[i] = hx(pick("echo", c11Names, c11Names, c11Keywords))
		case 'A':
			fs[i] = hx(pick("arg", c11Args, c11Args, c11Keywords, c11Names))
		case 'S':
			fs[i] = hx(pick("VAR=x", c11Assigns))
		case 'P':
			fs[i] = hx(pick("pat", c11Patterns))
		case 'V':
			fs[i] = hx(pick("i", c11ForVars))
		case 'C':
			fs[i] = hx(pick("$$x", c11Subjects, c11Args))
		case 'D':
			d := pick("-", c11Fds)
			if d != "-" {
				d = hx(d)
			}
			fs[i] = d
		case 'O':
			lastOp = pick("gt", c11Ops)
			fs[i] = lastOp
		case 'T':
			if lastOp == "gtand" || lastOp == "ltand" {
				fs[i] = hx(pick("2", c11DupTargets))
			} else {
				fs[i] = hx(pick("out", c11Targets))
			}
		}
	}
	return strings.Join(fs, " ")
}

// ---------- one program through everything ----------

type c11Case struct {
	ser    string // serialised AST (no holes)
	origin string // enum|variant|random
	// from the oracle
	wf, supported bool
	faithful      bool
	flow          string
	tokens        []string
	intended      []int
	lexed         []int
	lexState      string // L PANIC FUEL
	lr            string // A R<n> P F -
	cert          string
	lrIntended    string
	// rendering
	line    string // make-level text ($$)
	compact bool
	// judges
	valid bool
	// real code
	accepted   bool
	remaining  int // tokens left when the real parser gave up (the first one is the offending token)
	rejectKind string
	errText    string
	realTokens []string
	realRest   string
	realKinds  []int
	realTypes  []int
	realPanic  string
}

func c11ParseCodes(s string) []int {
	if s == "-" || s == "" {
		return nil
	}
	var out []int
	for _, p := range strings.Split(s, ",") {
		n, _ := strconv.Atoi(p)
		out = append(out, n)
	}
	return out
}

// c11RunOracle spreads the requests over 16 oracle processes (runOracle starts
// one process per 20000 requests; the parser model is slower than that budget assumes).
func c11RunOracle(ctx *Ctx, reqs []string) ([]string, error) {
	const parts = 16
	if len(reqs) < 256 {
		return runOracle(ctx, "c11", reqs)
	}
	out := make([]string, len(reqs))
	errs := make([]error, parts)
	var wg sync.WaitGroup
	for p := 0; p < parts; p++ {
		wg.Add(1)
		go func(p int) {
			defer wg.Done()
			lo, hi := p*len(reqs)/parts, (p+1)*len(reqs)/parts
			a, err := runOracle(ctx, "c11", reqs[lo:hi])
			if err != nil {
				errs[p] = err
				return
			}
			copy(out[lo:hi], a)
		}(p)
	}
	wg.Wait()
	for _, e := range errs {
		if e != nil {
			return nil, e
		}
	}
	return out, nil
}

func c11Oracle(ctx *Ctx, cases []*c11Case) error {
	reqs := make([]string, len(cases))
	for i, c := range cases {
		reqs[i] = "ast " + c.ser
	}
	ans, err := c11RunOracle(ctx, reqs)
	if err != nil {
		return err
	}
	for i, c := range cases {
		f := strings.Fields(ans[i])
		if len(f) != 9 {
			return fmt.Errorf("oracle answer %q for %q", ans[i], c.ser)
		}
		c.wf, c.supported, c.flow = f[0] == "1", f[1] == "1", f[2]
		c.faithful = strings.HasSuffix(f[2], "f")
		c.tokens = nil
		for _, h := range strings.Split(f[3], ",") {
			c.tokens = append(c.tokens, unhx(h))
		}
		c.intended = c11ParseCodes(f[4])
		c.lexState = f[5]
		if strings.HasPrefix(f[5], "L:") {
			c.lexState = "L"
			c.lexed = c11ParseCodes(f[5][2:])
		}
		c.lr, c.cert, c.lrIntended = f[6], f[7], f[8]
	}
	return nil
}

var c11OperatorTokens = map[string]bool{";": true, ";;": true, "&": true, "|": true, "(": true, ")": true, "&&": true, "||": true,
	">": true, ">&": true, "<": true, "<&": true, "<>": true, ">>": true, "<<": true, "<<-": true, ">|": true}

// c11Render joins the tokens: with single blanks, or (compact) without blanks
// around operators wherever that cannot merge two tokens.
func c11Render(tokens []string, compact bool) string {
	if !compact {
		return strings.Join(tokens, " ")
	}
	var sb strings.Builder
	for i, t := range tokens {
		if i > 0 {
			p := tokens[i-1]
			glue := (c11OperatorTokens[t] || c11OperatorTokens[p]) && !(c11OperatorTokens[t] && c11OperatorTokens[p])
			if glue {
				// a word ending in a digit before a redirection would become an io-number; a
				// word starting with & or - after >& <& << is fine; keep "<<" + "-x" apart
				last := p[len(p)-1]
				if c11OperatorTokens[t] && (last >= '0' && last <= '9' || last == '\\' || last == '$') {
					glue = false
				}
				if (p == "<<" || p == "<" || p == ">") && (t[0] == '-' || t[0] == '&' || t[0] == '>' || t[0] == '<' || t[0] == '|' || t[0] == '(') {
					glue = false
				}
				// an io-number token ("2>") is glued to a preceding OPERATOR (")2>", ";2>", "|2>"): there the
				// digits cannot merge with a word; after a word it is never glued (t is not an operator token)
			}
			if !glue {
				sb.WriteByte(' ')
			}
		}
		sb.WriteString(t)
	}
	return sb.String()
}

func c11ShText(line string) string { return strings.ReplaceAll(line, "$$", "$") }

type c11Judge struct {
	mu    sync.Mutex
	cache map[string]bool
	calls int
}

// c11JudgeScript runs inside one helper process per worker: Go serialises
// fork/exec, a shell loop does not.  One program per input line, one verdict
// per output line.
const c11JudgeScript = `while IFS= read -r line; do
if /bin/sh -n -c "$line" >/dev/null 2>&1 && bash -n -c "$line" >/dev/null 2>&1; then echo 1; else echo 0; fi
done`

// judgeAll fills c.valid for every case: accepted by both /bin/sh -n and bash -n.
func (j *c11Judge) judgeAll(cases []*c11Case) error {
	if j.cache == nil {
		j.cache = map[string]bool{}
	}
	var texts []string
	seen := map[string]bool{}
	for _, c := range cases {
		t := c11ShText(c.line)
		if strings.ContainsAny(t, "\n\r\x00") {
			j.cache[t] = false // not a one-line program
			continue
		}
		if _, ok := j.cache[t]; !ok && !seen[t] {
			seen[t] = true
			texts = append(texts, t)
		}
	}
	res := make([]bool, len(texts))
	workers := 16
	if len(texts) < 64 {
		workers = 1
	}
	errs := make([]error, workers)
	var wg sync.WaitGroup
	for w := 0; w < workers; w++ {
		wg.Add(1)
		go func(w int) {
			defer wg.Done()
			var in strings.Builder
			n := 0
			for i := w; i < len(texts); i += workers {
				in.WriteString(texts[i])
				in.WriteByte('\n')
				n++
			}
			if n == 0 {
				return
			}
			cmd := exec.Command("bash", "-c", c11JudgeScript)
			cmd.Env = []string{"PATH=/usr/bin:/bin", "LC_ALL=C"}
			cmd.Stdin = strings.NewReader(in.String())
			out, err := cmd.Output()
			if err != nil {
				errs[w] = fmt.Errorf("judge helper: %v", err)
				return
			}
			verdicts := strings.Fields(string(out))
			if len(verdicts) != n {
				errs[w] = fmt.Errorf("judge helper: %d verdicts for %d programs", len(verdicts), n)
				return
			}
			k := 0
			for i := w; i < len(texts); i += workers {
				res[i] = verdicts[k] == "1"
				k++
			}
		}(w)
	}
	wg.Wait()
	for _, e := range errs {
		if e != nil {
			return e
		}
	}
	for i, t := range texts {
		j.cache[t] = res[i]
	}
	j.calls += len(texts)
	for _, c := range cases {
		c.valid = j.cache[c11ShText(c.line)]
	}
	return nil
}

func c11Real(c *c11Case) {
	c.accepted, c.rejectKind, c.errText, _, c.remaining = pkglint.VerifParseShell2(c.line)
	c.realTokens, c.realRest, c.realKinds, c.realPanic = pkglint.VerifShellSplit(c.line)
	if c.realPanic == "" {
		c.realTypes, c.realPanic = pkglint.VerifShellLexTokens(c.realTokens)
	}
}

func c11Name(code int) string {
	return strings.TrimPrefix(pkglint.VerifShellTokenName(code), "tk")
}

func c11Names2(codes []int) string {
	var s []string
	for _, c := range codes {
		s = append(s, c11Name(c))
	}
	return strings.Join(s, " ")
}

func c11EqInts(a, b []int) bool {
	if len(a) != len(b) {
		return false
	}
	for i := range a {
		if a[i] != b[i] {
			return false
		}
	}
	return true
}

func c11EqStrs(a, b []string) bool {
	if len(a) != len(b) {
		return false
	}
	for i := range a {
		if a[i] != b[i] {
			return false
		}
	}
	return true
}

var c11KeywordTerminals = map[string]bool{"IF": true, "THEN": true, "ELSE": true, "ELIF": true, "FI": true, "DO": true, "DONE": true,
	"CASE": true, "ESAC": true, "WHILE": true, "UNTIL": true, "FOR": true, "LBRACE": true, "RBRACE": true, "EXCLAM": true, "IN": true}

var c11ReservedWords = map[string]bool{"if": true, "then": true, "elif": true, "else": true, "fi": true, "for": true, "while": true, "until": true,
	"do": true, "done": true, "in": true, "case": true, "esac": true, "{": true, "}": true, "!": true}
var c11ReIONumber = regexp.MustCompile(`^[0-9]+(<<-|<<|<>|<&|>>|>&|>\||<|>)$`)
var c11RedirTerminals = map[string]bool{"LT": true, "GT": true, "LTLT": true, "GTGT": true, "LTAND": true, "GTAND": true, "LTGT": true, "LTLTDASH": true, "GTPIPE": true, "IO_NUMBER": true}

// c11RejectKey names the construct at which a valid program is lost.  It looks
// only at what the real code did (its tokens, what Lex returned) and at where
// the table-driven parser gives up; the known lexer weaknesses are recognised
// by their trigger, everything else gets a key made of the terminals around
// the error.
func c11RejectKey(c *c11Case) string {
	switch c.rejectKind {
	case "panic":
		return "C11/reject/panic"
	case "rest":
		return "C11/reject/tokenizer-rest"
	case "nil":
		return "C11/reject/nil-result"
	}
	types := c.realTypes
	if n := len(types); n > 0 && types[n-1] == 0 {
		types = types[:n-1]
	}
	// the token text behind every terminal
	var text []string
	for _, t := range c.realTokens {
		text = append(text, t)
		if c11ReIONumber.MatchString(t) {
			text = append(text, t)
		}
	}
	// the terminal at which the real parser gave up: the last one Lex returned for
	// the first of the remaining tokens
	errPos := len(types)
	if c.remaining > 0 && c.remaining <= len(c.realTokens) {
		errPos = 0
		for _, t := range c.realTokens[:len(c.realTokens)-c.remaining] {
			errPos++
			if c11ReIONumber.MatchString(t) {
				errPos++
			}
		}
		// an io-number token yields two terminals; the parser may have choked on the second
		if c11ReIONumber.MatchString(c.realTokens[len(c.realTokens)-c.remaining]) && errPos+1 < len(types) &&
			strings.HasPrefix(c.lr, "R") && c.lr == "R"+strconv.Itoa(errPos+1) {
			errPos++
		}
	}
	name := func(i int) string {
		switch {
		case i < 0:
			return "START"
		case i >= len(types):
			return "END"
		}
		return c11Name(types[i])
	}
	// Follow the two lexer flags that the terminals determine (this is only used
	// to name the key): acs = "at command start", icp = "in case pattern";
	// noReset = no word or reserved word has been read at command start yet, so
	// sinceFor/sinceCase still count from their initial value 0.
	acs, icp, noReset := true, false, true
	acsTrue := map[string]bool{"SEMI": true, "SEMISEMI": true, "NEWLINE": true, "BACKGROUND": true, "RPAREN": true, "AND": true, "OR": true, "DO": true}
	acsFalse := map[string]bool{"FOR": true, "IN": true, "CASE": true, "ESAC": true, "WORD": true}
	operators := map[string]bool{"SEMI": true, "SEMISEMI": true, "NEWLINE": true, "BACKGROUND": true, "RPAREN": true, "AND": true, "OR": true, "PIPE": true, "LPAREN": true}
	for i := 0; i < len(types) && i <= errPos && i < len(text); i++ {
		n, prev := name(i), name(i-1)
		switch {
		case n == "WORD" && c11ReservedWords[text[i]] && prev == "ESAC":
			return "C11/reject/lex/reserved-word-after-esac"
		case n == "WORD" && c11ReservedWords[text[i]] && (prev == "PIPE" || prev == "LPAREN") && icp:
			return "C11/reject/lex/reserved-word-after-" + prev + "-following-case-item"
		case c11KeywordTerminals[n] && prev == "ASSIGNMENT_WORD" && n != "IN":
			// POSIX: after an assignment word the next word is a command name, never a reserved word
			return "C11/reject/lex/command-name-after-assignment-lexed-as-reserved-word"
		case (n == "IN" || n == "DO" || n == "ESAC") && noReset && !acs:
			return "C11/reject/lex/word-" + text[i] + "-lexed-as-" + n + "-counting-from-program-start"
		}
		isOp := operators[n] || c11RedirTerminals[n]
		if acs && !isOp {
			noReset = false
		}
		switch {
		case n == "SEMISEMI", n == "IN" && name(i-2) == "CASE":
			icp = true
		case n == "RPAREN":
			icp = false
		}
		switch {
		case acsTrue[n]:
			acs = true
		case n == "PIPE" || n == "LPAREN":
			acs = !icp
		case acsFalse[n] || c11RedirTerminals[n] && n != "IO_NUMBER":
			acs = false
		}
	}
	return "C11/reject/parse/" + name(errPos-2) + "." + name(errPos-1) + "." + name(errPos)
}

// tokenAt: the printed token that yields intended terminal i (io-numbers yield two)
func (c *c11Case) tokenAt(i int) string {
	k := 0
	for _, t := range c.tokens {
		n := 1
		if len(t) > 1 && t[0] >= '0' && t[0] <= '9' && strings.ContainsAny(t[len(t)-1:], "<>&-|") {
			n = 2
		}
		if i < k+n {
			return t
		}
		k += n
	}
	return "?"
}

func c11Replay(c *c11Case, extra map[string]any) map[string]any {
	m := map[string]any{"kind": "ast", "ser": c.ser, "compact": c.compact, "line": hx(c.line), "line_text": c.line,
		"sh_text": c11ShText(c.line), "valid": c.valid, "pkglint_accepted": c.accepted, "error": c.errText,
		"intended": c11Names2(c.intended), "real_lex": c11Names2(c.realTypes), "model_lex": c11Names2(c.lexed),
		"wf_words": c.wf, "supported": c.supported}
	for k, v := range extra {
		m[k] = v
	}
	return m
}

// c11Check compares one judged, executed case; returns true when the program counts as validated.
func c11Check(res *Result, c *c11Case) {
	size := len(c.tokens)
	// --- the property: valid => no parse error (unit level; the whole-run layer re-checks with the binary)
	if c.valid && !c.accepted {
		res.AddViolation(Violation{Key: c11RejectKey(c), FoundInput: true, Size: size,
			What:   fmt.Sprintf("sh -n and bash -n accept %q but parseShellProgram reports: %s", c11ShText(c.line), c.errText),
			Replay: c11Replay(c, nil)})
		res.Count("valid_rejected", 1)
	}
	// --- correspondence: tokens
	typesNoEOF := c.realTypes
	if n := len(typesNoEOF); n > 0 && typesNoEOF[n-1] == 0 {
		typesNoEOF = typesNoEOF[:n-1]
	}
	tokOK := c11EqStrs(c.realTokens, c.tokens) && c.realRest == ""
	for _, k := range c.realKinds {
		if k != 0 {
			tokOK = false
		}
	}
	if !tokOK {
		if c.valid {
			res.AddViolation(Violation{Key: "C11/correspondence/tokens", FoundInput: false, Size: size,
				What:   fmt.Sprintf("splitIntoShellTokens(%q) = %q rest %q kinds %v, the printer gave %q", c.line, c.realTokens, c.realRest, c.realKinds, c.tokens),
				Replay: c11Replay(c, map[string]any{"broken": "printed token list = splitIntoShellTokens(text), all words plain"})})
		}
		res.Count("tokenizer_differs", 1)
		return
	}
	// --- correspondence: Lex
	if c.realPanic != "" || c.lexState != "L" {
		if !(c.realPanic != "" && c.lexState == "PANIC") {
			res.AddViolation(Violation{Key: "C11/correspondence/lex-panic", FoundInput: false, Size: size,
				What:   fmt.Sprintf("Lex on %q: real %q, model %s", c.tokens, c.realPanic, c.lexState),
				Replay: c11Replay(c, map[string]any{"broken": "ShellLexer.Lex = Model.ShellLex.Lex (panic/fuel)"})})
		}
		return
	}
	if !c11EqInts(typesNoEOF, c.lexed) {
		res.AddViolation(Violation{Key: "C11/correspondence/lex", FoundInput: false, Size: size,
			What:   fmt.Sprintf("Lex on %q: real [%s], model [%s]", c.tokens, c11Names2(typesNoEOF), c11Names2(c.lexed)),
			Replay: c11Replay(c, map[string]any{"broken": "ShellLexer.Lex = Model.ShellLex.Lex"})})
		return
	}
	// --- correspondence: the table-driven parser
	modelAccept := c.lr == "A"
	if c.rejectKind == "" || c.rejectKind == "parse" {
		if modelAccept != c.accepted {
			res.AddViolation(Violation{Key: "C11/correspondence/parse", FoundInput: false, Size: size,
				What:   fmt.Sprintf("shyyParse on [%s]: real accepted=%v, model %s", c11Names2(c.lexed), c.accepted, c.lr),
				Replay: c11Replay(c, map[string]any{"broken": "shyyParse = Model.ShellLR.lr_parse over the regenerated tables"})})
			return
		}
	}
	if c.lr == "P" || c.lr == "F" {
		res.AddViolation(Violation{Key: "C11/correspondence/parse-panic-or-fuel", FoundInput: false, Size: size,
			What:   fmt.Sprintf("model parser result %s on [%s]", c.lr, c11Names2(c.lexed)),
			Replay: c11Replay(c, map[string]any{"broken": "Model.ShellLR.lr_parse terminates without index panic"})})
		return
	}
	// --- tables vs grammar
	c11GrammarVsTables(res, c.lexed, modelAccept, c11Replay(c, nil), size)
	if modelAccept && c.cert != "1" {
		res.AddViolation(Violation{Key: "C11/tables-vs-grammar/trace-is-no-derivation", FoundInput: false, Size: size,
			What:   fmt.Sprintf("the tables accept [%s] but the shift/reduce trace is not a derivation of shell.y", c11Names2(c.lexed)),
			Replay: c11Replay(c, map[string]any{"broken": "accepted by the tables => derivable in shell.y (check_trace)"})})
	}
	// --- instances of the Coq theorem
	if c.wf && c.supported {
		res.Count("theorem_instances", 1)
		if !c11EqInts(c.lexed, c.intended) || !modelAccept {
			res.AddViolation(Violation{Key: "C11/tables-vs-grammar/theorem-instance", FoundInput: false, Size: size,
				What:   fmt.Sprintf("supported && wf_words, yet lexed [%s] intended [%s] tables %s", c11Names2(c.lexed), c11Names2(c.intended), c.lr),
				Replay: c11Replay(c, map[string]any{"broken": "derivable in shell.y (posix_accepted) => accepted by the tables"})})
		}
	}
	if c11EqInts(c.lexed, c.intended) && (c.lrIntended == "A") != modelAccept {
		res.AddViolation(Violation{Key: "C11/correspondence/oracle-inconsistent", FoundInput: false, Size: size,
			What: "lr on intended differs from lr on equal lexed terminals", Replay: c11Replay(c, map[string]any{"broken": "oracle"})})
	}
}

// ---------- goyacc: shell.y -> tables, compared with shellyacc.go ----------

func c11ReadTables(path string) (map[string][]int, error) {
	fset := token.NewFileSet()
	f, err := parser.ParseFile(fset, path, nil, 0)
	if err != nil {
		return nil, err
	}
	out := map[string][]int{}
	intVal := func(e ast.Expr) (int, bool) {
		neg := false
		if u, ok := e.(*ast.UnaryExpr); ok && u.Op == token.SUB {
			neg = true
			e = u.X
		}
		bl, ok := e.(*ast.BasicLit)
		if !ok || bl.Kind != token.INT {
			return 0, false
		}
		n, err := strconv.ParseInt(bl.Value, 0, 64)
		if err != nil {
			return 0, false
		}
		if neg {
			n = -n
		}
		return int(n), true
	}
	for _, d := range f.Decls {
		gd, ok := d.(*ast.GenDecl)
		if !ok {
			continue
		}
		for _, sp := range gd.Specs {
			vs, ok := sp.(*ast.ValueSpec)
			if !ok {
				continue
			}
			for k, name := range vs.Names {
				if k >= len(vs.Values) || !strings.HasPrefix(name.Name, "shyy") && !strings.HasPrefix(name.Name, "tk") {
					continue
				}
				if n, ok := intVal(vs.Values[k]); ok {
					out[name.Name] = []int{n}
					continue
				}
				cl, ok := vs.Values[k].(*ast.CompositeLit)
				if !ok {
					continue
				}
				var vals []int
				good := true
				for _, e := range cl.Elts {
					n, ok := intVal(e)
					if !ok {
						good = false
						break
					}
					vals = append(vals, n)
				}
				if good && len(cl.Elts) > 0 {
					out[name.Name] = vals
				}
			}
		}
	}
	return out, nil
}

func c11Goyacc(ctx *Ctx, res *Result) {
	src := filepath.Join(ctx.Repo, "v23")
	modcache, err := exec.Command("go", "env", "GOMODCACHE").Output()
	if err != nil {
		res.Broken = "go env GOMODCACHE: " + err.Error()
		return
	}
	tools := filepath.Join(strings.TrimSpace(string(modcache)), "golang.org/x/tools@v0.29.0")
	if _, err := os.Stat(filepath.Join(tools, "cmd/goyacc/yacc.go")); err != nil {
		res.Broken = "goyacc source not in the module cache: " + err.Error()
		return
	}
	dir := filepath.Join(ctx.Work, "goyacc")
	os.MkdirAll(dir, 0o755)
	bin := filepath.Join(dir, "goyacc")
	build := exec.Command("go", "build", "-o", bin, "./cmd/goyacc")
	build.Dir = tools
	if out, err := build.CombinedOutput(); err != nil {
		res.Broken = "building goyacc: " + err.Error() + ": " + string(out)
		return
	}
	y, err := os.ReadFile(filepath.Join(src, "shell.y"))
	if err != nil {
		res.Broken = err.Error()
		return
	}
	os.WriteFile(filepath.Join(dir, "shell.y"), y, 0o644)
	run := exec.Command(bin, "-o", "shellyacc.go", "-v", "shellyacc.log", "-p", "shyy", "shell.y")
	run.Dir = dir
	if out, err := run.CombinedOutput(); err != nil {
		res.AddViolation(Violation{Key: "C11/tables-vs-goyacc", FoundInput: false,
			What:   "goyacc does not accept shell.y: " + strings.TrimSpace(string(out)),
			Replay: map[string]any{"kind": "goyacc", "broken": "goyacc(shell.y) = tables of shellyacc.go"}})
		return
	}
	logText, _ := os.ReadFile(filepath.Join(dir, "shellyacc.log"))
	if m := regexp.MustCompile(`(\d+) shift/reduce, (\d+) reduce/reduce conflicts reported`).FindStringSubmatch(string(logText)); m != nil {
		res.Count("goyacc_shift_reduce_conflicts", atoi(m[1]))
		res.Count("goyacc_reduce_reduce_conflicts", atoi(m[2]))
		if m[1] != "0" || m[2] != "0" {
			res.AddViolation(Violation{Key: "C11/tables-vs-grammar/conflicts", FoundInput: false,
				What:   "goyacc reports conflicts for shell.y: the tables then accept less than the grammar derives: " + m[0],
				Replay: map[string]any{"kind": "goyacc", "broken": "shell.y is LALR(1) without conflicts"}})
		}
	}
	fresh, err1 := c11ReadTables(filepath.Join(dir, "shellyacc.go"))
	committed, err2 := c11ReadTables(filepath.Join(src, "shellyacc.go"))
	if err1 != nil || err2 != nil {
		res.Broken = fmt.Sprintf("reading tables: %v %v", err1, err2)
		return
	}
	var diffs []string
	for _, k := range sortedKeys(fresh) {
		if !c11EqInts(fresh[k], committed[k]) {
			diffs = append(diffs, k)
		}
	}
	for _, k := range sortedKeys(committed) {
		if _, ok := fresh[k]; !ok {
			diffs = append(diffs, k+"(missing in regenerated)")
		}
	}
	res.Count("goyacc_tables_compared", len(fresh))
	if len(fresh) < 40 {
		res.Broken = fmt.Sprintf("only %d tables/constants found in the regenerated parser", len(fresh))
		return
	}
	if len(diffs) > 0 {
		res.AddViolation(Violation{Key: "C11/tables-vs-goyacc", FoundInput: false,
			What:   "shellyacc.go is not what goyacc generates from shell.y; differing: " + strings.Join(diffs, ", "),
			Replay: map[string]any{"kind": "goyacc", "broken": "goyacc(shell.y) = tables of shellyacc.go", "differing": diffs}})
	}
}

func atoi(s string) int { n, _ := strconv.Atoi(s); return n }

// ---------- arbitrary token lists: Lex and the parser against the model ----------

var c11TokenAlphabet = []string{";", ";;", "&", "|", "(", ")", "&&", "||", ">", ">&", "<", "<&", "<>", ">>", "<<", "<<-", ">|",
	"if", "then", "elif", "else", "fi", "for", "while", "until", "do", "done", "in", "case", "esac", "{", "}", "!",
	"echo", "x", "a=b", "VAR=", "2>", "1>&", "0<", "12>>", "3<>", "2>|", "2", "#c", "# comment", "\n",
	"${V}", "${V:@p@${p}@}", "${V:=x}", "${V:S,a,b,}", "$$x", "\"q\"", "${_ULIMIT_CMD}", "in", "do", "esac", "x", "echo"}

func c11TokenLists(ctx *Ctx, res *Result, rng *Rng, exhaustiveLen, nrand int) {
	var lists [][]string
	// all lists up to exhaustiveLen over a reduced alphabet that reaches every switch arm
	small := []string{";", ";;", "|", "(", ")", ">", "2>", "for", "in", "do", "done", "case", "esac", "x", "a=b", "{", "}", "#c", "${V:@p@${p}@}"}
	var rec func(prefix []string, n int)
	rec = func(prefix []string, n int) {
		lists = append(lists, append([]string(nil), prefix...))
		if n == 0 {
			return
		}
		for _, t := range small {
			rec(append(prefix, t), n-1)
		}
	}
	rec(nil, exhaustiveLen)
	for i := 0; i < nrand; i++ {
		n := 1 + rng.Intn(12)
		l := make([]string, n)
		for k := range l {
			l[k] = Pick(rng, c11TokenAlphabet)
		}
		lists = append(lists, l)
	}
	kinds := map[string]int{}
	for _, t := range append(append([]string(nil), c11TokenAlphabet...), small...) {
		if _, ok := kinds[t]; !ok {
			kinds[t] = pkglint.VerifWordKind(t)
		}
	}
	reqs := make([]string, len(lists))
	for i, l := range lists {
		var sb strings.Builder
		sb.WriteString("toks")
		for _, t := range l {
			sb.WriteString(" " + hx(t) + ":" + strconv.Itoa(kinds[t]))
		}
		reqs[i] = sb.String()
	}
	ans, err := c11RunOracle(ctx, reqs)
	if err != nil {
		res.Broken = err.Error()
		return
	}
	for i, l := range lists {
		types, p1 := pkglint.VerifShellLexTokens(l)
		result, p2 := pkglint.VerifShellParseTokens(l)
		f := strings.Fields(ans[i])
		if len(f) != 3 {
			res.Broken = "oracle answer " + q(ans[i])
			return
		}
		res.Evaluations++
		res.TracesValidated++
		var got string
		switch {
		case p1 != "":
			got = "PANIC"
		default:
			if n := len(types); n > 0 && types[n-1] == 0 {
				types = types[:n-1]
			}
			var s []string
			for _, t := range types {
				s = append(s, strconv.Itoa(t))
			}
			got = "L:" + strings.Join(s, ",")
			if len(s) == 0 {
				got = "L:-"
			}
		}
		rep := map[string]any{"kind": "toks", "tokens": l}
		if got != f[0] {
			rep["broken"] = "ShellLexer.Lex = Model.ShellLex.Lex"
			res.AddViolation(Violation{Key: "C11/correspondence/lex-tokenlist", FoundInput: false, Size: len(l),
				What: fmt.Sprintf("Lex on %q: real %s, model %s", l, got, f[0]), Replay: rep})
			continue
		}
		if got == "PANIC" {
			res.Count("tokenlists_lex_panic", 1)
			continue
		}
		want := map[string]int{"A": 0, "P": -1, "F": -2}
		w, ok := want[f[1]]
		if strings.HasPrefix(f[1], "R") {
			w, ok = 1, true
		}
		_ = p2
		if !ok || w != result {
			rep["broken"] = "shyyParse = Model.ShellLR.lr_parse"
			res.AddViolation(Violation{Key: "C11/correspondence/parse-tokenlist", FoundInput: false, Size: len(l),
				What: fmt.Sprintf("Parse on %q: real %d (%s), model %s", l, result, p2, f[1]), Replay: rep})
			continue
		}
		if strings.HasPrefix(f[0], "L:") && (f[1] == "A" || strings.HasPrefix(f[1], "R")) {
			c11GrammarVsTables(res, c11ParseCodes(f[0][2:]), f[1] == "A", map[string]any{"kind": "toks", "tokens": l}, len(l))
		}
		if f[1] == "A" {
			res.Count("tokenlists_accepted", 1)
			if f[2] != "1" {
				rep["broken"] = "accepted by the tables => derivable in shell.y (check_trace)"
				res.AddViolation(Violation{Key: "C11/tables-vs-grammar/trace-is-no-derivation", FoundInput: false, Size: len(l),
					What: fmt.Sprintf("the tables accept %q but the trace is no derivation", l), Replay: rep})
			}
		} else {
			res.Count("tokenlists_rejected", 1)
		}
	}
	res.Count("tokenlists", len(lists))
}

// ---------- whole runs ----------

var c11ReParseFamily = regexp.MustCompile(`(?i)parse error|internal pkglint error|pkglint internal error|couldn't parse|Pkglint ShellLine\.CheckShellCommand|Pkglint parse|Unparseable shell`)

// c11WholeRun puts the programs into package Makefiles (as commands of
// do-build / post-install) and runs the real binary.  Returns, per case,
// the parse-family diagnostics on its line.
func c11WholeRun(ctx *Ctx, res *Result, cases []*c11Case, perFile int, tag string) map[*c11Case][]string {
	out := map[*c11Case][]string{}
	var mu sync.Mutex
	nfiles := (len(cases) + perFile - 1) / perFile
	root := filepath.Join(ctx.Work, "c11-"+tag)
	parallelFor(nfiles, func(fi int) {
		lo, hi := fi*perFile, (fi+1)*perFile
		if hi > len(cases) {
			hi = len(cases)
		}
		t := NewBaseTree(filepath.Join(root, fmt.Sprintf("t%d", fi)))
		var extra []string
		lineOf := map[int]*c11Case{}
		// header of WritePackage: 11 lines before the extra lines
		ln := 12
		half := lo + (hi-lo+1)/2
		extra = append(extra, "do-build:")
		ln++
		for i := lo; i < hi; i++ {
			if i == half {
				extra = append(extra, "", "post-install:")
				ln += 2
			}
			extra = append(extra, "\t"+cases[i].line)
			lineOf[ln] = cases[i]
			ln++
		}
		t.WritePackage("cat/pkg", extra)
		// verify our line arithmetic against the file
		mk := strings.Split(t.Read("cat/pkg/Makefile"), "\n")
		for n, c := range lineOf {
			if n-1 >= len(mk) || mk[n-1] != "\t"+c.line {
				mu.Lock()
				res.Broken = fmt.Sprintf("whole-run line bookkeeping is off at line %d", n)
				mu.Unlock()
				return
			}
		}
		r := RunPkglint(ctx, t.Root, 60*time.Second, "-Wall", "cat/pkg")
		mu.Lock()
		defer mu.Unlock()
		res.Count("whole_runs", 1)
		if r.TimedOut || r.Exit < 0 || r.Exit > 1 || strings.Contains(r.Stderr, "internal error") || strings.Contains(r.Stdout, "panic") {
			// a crash: attribute it to every case of the file; the caller narrows it down
			for i := lo; i < hi; i++ {
				out[cases[i]] = append(out[cases[i]], fmt.Sprintf("CRASH exit=%d timeout=%v stderr=%s", r.Exit, r.TimedOut, firstN(r.Stderr, 300)))
			}
			return
		}
		for _, d := range ParseDiags(r.Stdout) {
			if !strings.HasSuffix(d.Path, "Makefile") {
				continue
			}
			if c11ReParseFamily.MatchString(d.Msg) {
				if c := lineOf[d.Line1]; c != nil {
					out[c] = append(out[c], d.Msg)
				} else {
					res.Count("parse_family_diag_on_other_line", 1)
				}
			}
		}
		os.RemoveAll(t.Root)
	})
	return out
}

func firstN(s string, n int) string {
	if len(s) > n {
		return s[:n]
	}
	return s
}

// ---------- an independent recogniser for shell.y (Earley), fed with the generated production list ----------

type c11Grammar struct {
	start    int
	lhs      []int
	rhs      [][]int // terminals = the values Lex returns (> 50000), nonterminals = goyacc's numbers (< 1000)
	byLhs    map[int][]int
	nullable map[int]bool
}

func c11IsTerminal(sym int) bool { return sym >= 50000 }

func c11LoadGrammar(ctx *Ctx) (*c11Grammar, error) {
	ans, err := runOracle(ctx, "c11", []string{"grammar"})
	if err != nil {
		return nil, err
	}
	parts := strings.Split(ans[0], ";")
	if len(parts) < 10 || !strings.HasPrefix(parts[0], "N") {
		return nil, fmt.Errorf("oracle grammar answer %q", firstN(ans[0], 80))
	}
	sym := func(s string) (int, error) {
		n, err := strconv.Atoi(s[1:])
		if err != nil || s[0] != 'N' && s[0] != 'T' {
			return 0, fmt.Errorf("symbol %q", s)
		}
		if (s[0] == 'T') != c11IsTerminal(n) {
			return 0, fmt.Errorf("symbol %q breaks the terminal/nonterminal number ranges", s)
		}
		return n, nil
	}
	g := &c11Grammar{byLhs: map[int][]int{}, nullable: map[int]bool{}}
	if g.start, err = sym(parts[0]); err != nil {
		return nil, err
	}
	for _, p := range parts[1:] {
		l, r, ok := strings.Cut(p, ":")
		if !ok {
			return nil, fmt.Errorf("production %q", p)
		}
		lhs, err := sym(l)
		if err != nil {
			return nil, err
		}
		var rhs []int
		if r != "" {
			for _, x := range strings.Split(r, ",") {
				n, err := sym(x)
				if err != nil {
					return nil, err
				}
				rhs = append(rhs, n)
			}
		}
		g.byLhs[lhs] = append(g.byLhs[lhs], len(g.lhs))
		g.lhs = append(g.lhs, lhs)
		g.rhs = append(g.rhs, rhs)
	}
	for changed := true; changed; {
		changed = false
		for i, rhs := range g.rhs {
			if g.nullable[g.lhs[i]] {
				continue
			}
			all := true
			for _, x := range rhs {
				if c11IsTerminal(x) || !g.nullable[x] {
					all = false
					break
				}
			}
			if all {
				g.nullable[g.lhs[i]] = true
				changed = true
			}
		}
	}
	return g, nil
}

type c11Item struct{ prod, dot, origin int }

// derives reports whether the start symbol derives the terminal string (Earley,
// with the Aycock-Horspool treatment of nullable nonterminals).
func (g *c11Grammar) derives(input []int) bool {
	n := len(input)
	sets := make([][]c11Item, n+1)
	seen := make([]map[c11Item]bool, n+1)
	for i := range seen {
		seen[i] = map[c11Item]bool{}
	}
	add := func(i int, it c11Item) {
		if !seen[i][it] {
			seen[i][it] = true
			sets[i] = append(sets[i], it)
		}
	}
	for _, p := range g.byLhs[g.start] {
		add(0, c11Item{p, 0, 0})
	}
	for i := 0; i <= n; i++ {
		for k := 0; k < len(sets[i]); k++ {
			it := sets[i][k]
			rhs := g.rhs[it.prod]
			if it.dot < len(rhs) {
				x := rhs[it.dot]
				if c11IsTerminal(x) {
					if i < n && input[i] == x {
						add(i+1, c11Item{it.prod, it.dot + 1, it.origin})
					}
					continue
				}
				for _, p := range g.byLhs[x] {
					add(i, c11Item{p, 0, i})
				}
				if g.nullable[x] {
					add(i, c11Item{it.prod, it.dot + 1, it.origin})
				}
				continue
			}
			lhs := g.lhs[it.prod]
			for _, o := range sets[it.origin] {
				r := g.rhs[o.prod]
				if o.dot < len(r) && r[o.dot] == lhs {
					add(i, c11Item{o.prod, o.dot + 1, o.origin})
				}
			}
		}
	}
	for _, it := range sets[n] {
		if it.origin == 0 && it.dot == len(g.rhs[it.prod]) && g.lhs[it.prod] == g.start {
			return true
		}
	}
	return false
}

var c11TheGrammar *c11Grammar

// c11GrammarVsTables: the tables accept exactly what shell.y derives, on this terminal string
func c11GrammarVsTables(res *Result, terminals []int, tablesAccept bool, rep map[string]any, size int) {
	if c11TheGrammar == nil {
		return
	}
	res.Count("earley_runs", 1)
	if g := c11TheGrammar.derives(terminals); g != tablesAccept {
		rep["broken"] = "the goyacc tables accept exactly the sentences of shell.y (Earley recogniser over the generated productions)"
		res.AddViolation(Violation{Key: "C11/tables-vs-grammar/earley-disagrees", FoundInput: false, Size: size,
			What:   fmt.Sprintf("on [%s]: shell.y derives it = %v, the tables accept it = %v", c11Names2(terminals), g, tablesAccept),
			Replay: rep})
	}
}

// ---------- corpus: the witnesses of Props/C11.v and the hand-reproduced findings ----------

func c11Corpus() []string {
	w := func(s string) string { return hx(s) }
	echo := "CL Q1 A1 0 P1 CS 0 1 W " + w("echo") + " S"
	caseA := "KC " + w("$$x") + " IC 0 " + w("a") + " 0 BS CL Q1 A1 0 P1 CS 0 2 W " + w("echo") + " W " + w("a") + " N IN"
	return []string{
		// for i ; do echo ; done
		"CL Q1 A1 0 P1 CC KF " + w("i") + " FS " + echo + " 0 N",
		// { case x in esac }
		"CL Q1 A1 0 P1 CC KB CL Q1 A1 0 P1 CC KC " + w("x") + " IN 0 N 0 N",
		// case x in esac | { echo ; }
		"CL Q1 A1 0 PP P1 CC KC " + w("x") + " IN 0 CC KB " + echo + " 0 N",
		// case x in a ) echo ;; esac ; ( { echo ; } )
		"CL QS Q1 A1 0 P1 CC KC " + w("x") + " IC 0 " + w("a") + " 0 BS CL Q1 A1 0 P1 CS 0 1 W " + w("echo") + " N IN 0 S A1 0 P1 CC KS CL Q1 A1 0 P1 CC KB " + echo + " 0 N 0 N",
		// > out echo esac
		"CL Q1 A1 0 P1 CS 0 3 R - gt " + w("out") + " W " + w("echo") + " W " + w("esac") + " N",
		// > out in x      2>& 1 do x
		"CL Q1 A1 0 P1 CS 0 3 R - gt " + w("out") + " W " + w("in") + " W " + w("x") + " N",
		"CL Q1 A1 0 P1 CS 0 3 R " + w("2") + " gtand " + w("1") + " W " + w("do") + " W " + w("x") + " N",
		// case $$x in a ) ;; if ) echo ;; esac        if echo ${X}#y ; then : ; fi
		"CL Q1 A1 0 P1 CC KC " + w("$$x") + " IC 0 " + w("a") + " 0 BN IC 0 " + w("if") + " 0 BS " + "CL Q1 A1 0 P1 CS 0 1 W " + w("echo") + " N" + " IN 0 N",
		"CL Q1 A1 0 P1 CC KI CL Q1 A1 0 P1 CS 0 2 W " + w("echo") + " W " + w("${X}#y") + " S CL Q1 A1 0 P1 CS 0 1 W " + w(":") + " S EN 0 N",
		// VAR=x fi
		"CL Q1 A1 0 P1 CS 1 " + w("VAR=x") + " 1 W " + w("fi") + " N",
		// for f in a b ; do case $$x in a ) echo a ;; esac done
		"CL Q1 A1 0 P1 CC KF " + w("f") + " FI 2 " + w("a") + " " + w("b") + " CL Q1 A1 0 P1 CC " + caseA + " 0 N 0 N",
		// case $$x in a ) echo a ;; esac | while read line ; do echo ; done
		"CL Q1 A1 0 PP P1 CC " + caseA + " 0 CC KW CL Q1 A1 0 P1 CS 0 2 W " + w("read") + " W " + w("line") + " S " + echo + " 0 N",
		// case $$x in a ) echo a ;; esac ; ( if true ; then echo ; fi )
		"CL QS Q1 A1 0 P1 CC " + caseA + " 0 S A1 0 P1 CC KS CL Q1 A1 0 P1 CC KI CL Q1 A1 0 P1 CS 0 1 W " + w("true") + " S " + echo + " EN 0 N 0 N",
	}
}

// ---------- the extraction itself: a sample re-evaluated by coqc with vm_compute ----------

func c11CoqBytes(s string) string {
	parts := make([]string, len(s))
	for i := 0; i < len(s); i++ {
		parts[i] = strconv.Itoa(int(s[i]))
	}
	return "[" + strings.Join(parts, "; ") + "]%N"
}

func c11VmCompute(ctx *Ctx, res *Result, cases []*c11Case, rng *Rng, n int) {
	var sb strings.Builder
	sb.WriteString("From Coq Require Import ZArith NArith List.\nImport ListNotations.\n")
	sb.WriteString("From PV Require Import Lib.Bytes Gen.ShellGrammar Gen.ShellTables Model.ShellLex Model.ShellLR.\n")
	sb.WriteString("Definition lex_codes (l : list tok) : option (list Z) := match shell_lex l with Lexed ts => Some (map tok_code ts) | _ => None end.\n")
	sb.WriteString("Definition acc (l : list tok) : bool := match shell_lex l with Lexed ts => lr_accepts ts | _ => false end.\n")
	count := 0
	for tries := 0; count < n && tries < 20*n && len(cases) > 0; tries++ {
		c := cases[rng.Intn(len(cases))]
		if c.lexState != "L" || len(c.tokens) > 40 {
			continue
		}
		var toks, codes []string
		for _, t := range c.tokens {
			toks = append(toks, "mkTok "+c11CoqBytes(t)+" WkPlain")
		}
		for _, k := range c.lexed {
			codes = append(codes, strconv.Itoa(k)+"%Z")
		}
		fmt.Fprintf(&sb, "Example e%d : lex_codes [%s] = Some [%s] /\\ acc [%s] = %v.\nProof. split; vm_compute; reflexivity. Qed.\n",
			count, strings.Join(toks, "; "), strings.Join(codes, "; "), strings.Join(toks, "; "), c.lr == "A")
		count++
	}
	dir := filepath.Join(ctx.Work, "vmcompute")
	os.MkdirAll(dir, 0o755)
	file := filepath.Join(dir, "cases.v")
	if err := os.WriteFile(file, []byte(sb.String()), 0o644); err != nil {
		res.Broken = err.Error()
		return
	}
	cmd := exec.Command("coqc", "-Q", filepath.Join(ctx.Verif, "coq"), "PV", file)
	cmd.Dir = dir
	out, err := cmd.CombinedOutput()
	res.Count("vm_compute_cross_checks", count)
	if err != nil {
		res.AddViolation(Violation{Key: "C11/extraction-vs-vm_compute", FoundInput: false,
			What:   "coqc (vm_compute) disagrees with the extracted oracle on a sample: " + firstN(strings.TrimSpace(string(out)), 400),
			Replay: map[string]any{"kind": "goyacc", "broken": "extracted OCaml model = Gallina model under vm_compute"}})
	}
}

// ---------- the run ----------

func c11Kinds(ser string) []string {
	var ks []string
	for _, k := range []struct{ tag, name string }{{"KB ", "brace"}, {"KS ", "subshell"}, {"KF ", "for"}, {" FD ", "for-do"}, {" FS ", "for-semi-do"},
		{" FI ", "for-in"}, {"KC ", "case"}, {"KI ", "if"}, {"KW ", "while"}, {"KU ", "until"}, {"CF ", "funcdef"}, {"PP ", "pipeline"},
		{"AA ", "and"}, {"AO ", "or"}, {"QS ", "sequence"}, {" R ", "redirection"}, {"EI ", "elif"}, {"EE ", "else"}, {"IL ", "case-last-item-without-dsemi"},
		{"IC ", "case-item-dsemi"}, {"IN", "case-esac"}, {"IC 1", "case-lparen"}, {"IL 1", "case-lparen"}} {
		if strings.Contains(ser, k.tag) {
			ks = append(ks, k.name)
		}
	}
	return ks
}

func c11IsCompound(ser string) bool {
	return strings.Contains(ser, "CC ") || strings.Contains(ser, "CF ")
}

func c11Process(ctx *Ctx, res *Result, judge *c11Judge, cases []*c11Case) bool {
	if err := c11Oracle(ctx, cases); err != nil {
		res.Broken = err.Error()
		return false
	}
	for _, c := range cases {
		c.line = c11Render(c.tokens, c.compact)
	}
	c11Lap("oracle")
	if err := judge.judgeAll(cases); err != nil {
		res.Broken = err.Error()
		return false
	}
	c11Lap("judged")
	for _, c := range cases {
		c11Real(c)
		res.Evaluations++
		res.TracesValidated++
		c11Check(res, c)
		res.Count("programs_"+c.origin, 1)
		if c.valid {
			res.Count("valid", 1)
			switch {
			case c.wf && c.supported:
				res.Count("valid_in_proved_fragment", 1)
				if !c.faithful {
					// e.g. `then VAR=x fi`: pkglint reads fi as reserved word after an assignment, POSIX does not
					res.Count("valid_in_fragment_but_tree_not_posix_reading", 1)
				}
			case c.accepted:
				res.Count("valid_outside_fragment_accepted", 1)
			default:
				res.Count("valid_outside_fragment_rejected", 1)
			}
			if c.faithful {
				res.Count("valid_and_tree_is_posix_reading", 1)
			}
			for _, k := range c11Kinds(c.ser) {
				res.Count("valid_with_"+k, 1)
			}
		} else {
			res.Count("invalid_per_sh_or_bash", 1)
			if c.wf && c.supported {
				res.Count("invalid_but_in_fragment", 1)
			}
		}
	}
	return true
}

var c11T0 = time.Now()

func c11Lap(what string) {
	if os.Getenv("C11_TIMING") != "" {
		fmt.Fprintf(os.Stderr, "[c11] %6.1fs %s\n", time.Since(c11T0).Seconds(), what)
	}
}

func runC11(ctx *Ctx) *Result {
	res := &Result{Rule: "programs = ASTs of Spec/PosixSh.v printed by the extracted printer: every AST shape with <= N tokens (N=6 quick, 7 thorough) with canonical words, every shape with N+1 tokens over the reduced operator set (`;` `&&`, no `!`, no until) and those with N+2 tokens (a sample of 4000 in quick), word variants of a sample of shapes (plain, quoted, $$var, ${MAKEVAR}, reserved words in argument position, as command name after an assignment and as case pattern, assignment-shaped arguments and patterns, words with an inner #, io-numbers), random ASTs up to depth 3 (quick) / 4 (thorough); only programs accepted by both sh -n and bash -n count; non-trivial = valid program with at least one compound command or function definition, distinct by program text"}
	rng := NewRng(ctx.Seed)
	thorough := ctx.Tier == "thorough"

	c11Goyacc(ctx, res)
	if res.Broken != "" {
		return res
	}
	c11Lap("goyacc")
	if g, err := c11LoadGrammar(ctx); err != nil {
		res.Broken = "grammar from the oracle: " + err.Error()
		return res
	} else {
		c11TheGrammar = g
	}

	maxTok, nVariants, nRandom, randDepth, tokLen, tokRand, sampleBeyond := 6, 10000, 5000, 3, 3, 30000, 4000
	if thorough {
		maxTok, nVariants, nRandom, randDepth, tokLen, tokRand = 7, 150000, 120000, 4, 4, 400000
	}
	c11TokenLists(ctx, res, rng.Fork(), tokLen, tokRand)
	if res.Broken != "" {
		return res
	}

	c11Lap("token lists")
	en := &c11Enum{}
	er := &c11Enum{reduced: true}
	var shapes []string
	for n := 1; n <= maxTok; n++ {
		shapes = append(shapes, en.clist(n)...)
		res.Count(fmt.Sprintf("shapes_with_%d_tokens", n), len(en.clist(n)))
	}
	// one and two tokens more with the reduced operator set (`;` `&&`, no `!`, no until):
	// all of them with maxTok+1 tokens, a seeded sample (quick) / all (thorough) with maxTok+2
	r1 := rng.Fork()
	for _, s := range er.clist(maxTok + 1) {
		shapes = append(shapes, s)
	}
	res.Count(fmt.Sprintf("shapes_with_%d_tokens_reduced_operators", maxTok+1), len(er.clist(maxTok+1)))
	nBeyond := 0
	for _, s := range er.clist(maxTok + 2) {
		if thorough || r1.Intn(len(er.clist(maxTok+2))) < sampleBeyond {
			shapes = append(shapes, s)
			nBeyond++
		}
	}
	res.Count(fmt.Sprintf("shapes_with_%d_tokens_reduced_operators_sampled", maxTok+2), nBeyond)
	// sampled beyond: shapes with more tokens for the word variants
	var beyond []string
	for n := maxTok + 1; n <= maxTok+2; n++ {
		beyond = append(beyond, er.clist(n)...)
	}
	var cases []*c11Case
	for _, s := range c11Corpus() {
		cases = append(cases, &c11Case{ser: s, origin: "corpus"})
	}
	for _, s := range shapes {
		cases = append(cases, &c11Case{ser: c11Fill(s, nil, true), origin: "enumerated"})
	}
	r2 := rng.Fork()
	for i := 0; i < nVariants; i++ {
		var s string
		if i%2 == 0 || len(beyond) == 0 {
			s = Pick(r2, shapes)
		} else {
			s = Pick(r2, beyond)
		}
		cases = append(cases, &c11Case{ser: c11Fill(s, r2, false), origin: "variant", compact: r2.Chance(15)})
	}
	g := &c11Gen{r: rng.Fork()}
	for i := 0; i < nRandom; i++ {
		d := 1 + g.r.Intn(randDepth)
		cases = append(cases, &c11Case{ser: c11Fill(g.clist(d), g.r, g.r.Chance(20)), origin: "random", compact: g.r.Chance(15)})
	}
	// distinct by serialisation + rendering
	seen := map[string]bool{}
	uniq := cases[:0]
	for _, c := range cases {
		k := c.ser
		if c.compact {
			k += " #compact"
		}
		if !seen[k] {
			seen[k] = true
			uniq = append(uniq, c)
		}
	}
	cases = uniq

	c11Lap("generated")
	judge := &c11Judge{}
	if !c11Process(ctx, res, judge, cases) {
		return res
	}
	res.Count("judge_calls", judge.calls)
	c11Lap("processed")
	c11VmCompute(ctx, res, cases, rng.Fork(), 150)
	c11Lap("vm_compute sample")

	// whole runs: every valid program (quick: a bounded sample of the accepted ones, all rejected ones)
	var wr []*c11Case
	texts := map[string]bool{}
	nontrivial := map[string]bool{}
	for _, c := range cases {
		if !c.valid {
			continue
		}
		if c11IsCompound(c.ser) {
			nontrivial[c.line] = true
		}
		if texts[c.line] {
			continue
		}
		texts[c.line] = true
		wr = append(wr, c)
	}
	res.DistinctNontrivial = len(nontrivial)
	limit := 30000
	if thorough {
		limit = 400000
	}
	if len(wr) > limit {
		// keep all rejected ones and a seeded sample of the rest
		r3 := rng.Fork()
		var keep []*c11Case
		for _, c := range wr {
			if !c.accepted || r3.Intn(len(wr)) < limit {
				keep = append(keep, c)
			}
		}
		wr = keep
	}
	diags := c11WholeRun(ctx, res, wr, 150, "wr")
	if res.Broken != "" {
		return res
	}
	for _, c := range wr {
		ds := diags[c]
		res.Count("whole_run_programs", 1)
		crash := len(ds) > 0 && strings.HasPrefix(ds[0], "CRASH")
		if crash {
			// narrow down: rerun alone
			ds = c11WholeRun(ctx, res, []*c11Case{c}, 1, "single")[c]
			crash = len(ds) > 0 && strings.HasPrefix(ds[0], "CRASH")
		}
		switch {
		case crash:
			res.AddViolation(Violation{Key: "C11/reject/crash", FoundInput: true, Size: len(c.tokens),
				What: fmt.Sprintf("pkglint crashes on the target command %q: %s", c.line, ds[0]), Replay: c11Replay(c, map[string]any{"whole_run": ds})})
		case len(ds) > 0 && c.accepted:
			res.AddViolation(Violation{Key: "C11/reject/whole-run/" + c11DiagKind(ds[0]), FoundInput: true, Size: len(c.tokens),
				What:   fmt.Sprintf("sh -n and bash -n accept %q, parseShellProgram accepts it, but the pkglint run reports: %s", c11ShText(c.line), ds[0]),
				Replay: c11Replay(c, map[string]any{"whole_run": ds})})
		case len(ds) == 0 && !c.accepted:
			res.AddViolation(Violation{Key: "C11/correspondence/whole-run-vs-unit", FoundInput: false, Size: len(c.tokens),
				What:   fmt.Sprintf("parseShellProgram rejects %q (%s) but the pkglint run prints no parse diagnostic for that line", c.line, c.errText),
				Replay: c11Replay(c, map[string]any{"broken": "unit observation = whole-run observation"})})
		case len(ds) > 0:
			res.Count("whole_run_confirms_unit_reject", 1)
		}
	}

	c11Lap("whole runs")
	c11CapUnknownRejects(ctx, res, 8)
	// coverage floors: the branches the property names
	for _, k := range []string{"valid_with_for-do", "valid_with_for-in", "valid_with_case", "valid_with_case-lparen", "valid_with_case-last-item-without-dsemi",
		"valid_with_case-item-dsemi", "valid_with_if", "valid_with_elif", "valid_with_else", "valid_with_while", "valid_with_until", "valid_with_brace", "valid_with_subshell",
		"valid_with_funcdef", "valid_with_pipeline", "valid_with_and", "valid_with_or", "valid_with_sequence", "valid_with_redirection", "theorem_instances", "tokenlists_accepted"} {
		n, _ := res.Distribution[k].(int)
		if n < 20 {
			res.Broken = fmt.Sprintf("coverage floor missed: %s = %d (< 20)", k, n)
		}
	}
	// samples
	shown := 0
	for _, c := range cases {
		if c.valid && c11IsCompound(c.ser) && len(c.tokens) >= 8 && shown < 6 {
			shown++
			res.Sample(map[string]any{"program": c.line, "sh_and_bash": c.valid, "pkglint_accepts": c.accepted, "in_proved_fragment": c.wf && c.supported,
				"terminals": c11Names2(c.lexed)})
		}
	}
	res.Exhaustive = false
	res.Assumptions = []string{"the judges are dash 0.5.12 (/bin/sh) and bash 5.2 with -n; a program counts only when both accept it",
		"words come from the stated pools; none is a ${VAR:@...@} loop expression (wkind plain), checked per program against the real tokenizer"}
	return res
}

// c11CapUnknownRejects keeps every violation whose key is recorded in
// known-findings.json and at most `max` others of the C11/reject family (the
// smallest ones): one defect shows up under many error contexts.
func c11CapUnknownRejects(ctx *Ctx, res *Result, max int) {
	known := map[string]bool{}
	if data, err := os.ReadFile(filepath.Join(ctx.Verif, "known-findings.json")); err == nil {
		for _, m := range regexp.MustCompile(`"key":\s*"([^"]+)"`).FindAllStringSubmatch(string(data), -1) {
			known[m[1]] = true
		}
	}
	var keep, unknown []Violation
	for _, v := range res.Violations {
		if strings.HasPrefix(v.Key, "C11/reject/") && !known[v.Key] {
			unknown = append(unknown, v)
		} else {
			keep = append(keep, v)
		}
	}
	sort.SliceStable(unknown, func(i, j int) bool { return unknown[i].Size < unknown[j].Size })
	if len(unknown) > max {
		res.Count("unknown_reject_keys_not_reported", len(unknown)-max)
		unknown = unknown[:max]
	}
	res.Violations = append(keep, unknown...)
}

func c11DiagKind(msg string) string {
	switch {
	case strings.Contains(msg, "parse error"):
		return "parse-error"
	case strings.Contains(msg, "couldn't parse"):
		return "tokenizer-rest"
	case strings.Contains(strings.ToLower(msg), "internal pkglint error"):
		m := regexp.MustCompile(`in ([A-Za-z.]+)`).FindStringSubmatch(msg)
		if m != nil {
			return "internal-error-" + m[1]
		}
		return "internal-error"
	}
	return "other"
}

func replayC11(ctx *Ctx, rep map[string]any) *Result {
	res := &Result{Rule: "replay"}
	if g, err := c11LoadGrammar(ctx); err == nil {
		c11TheGrammar = g
	}
	switch rep["kind"] {
	case "goyacc":
		c11Goyacc(ctx, res)
	case "toks":
		var l []string
		if xs, ok := rep["tokens"].([]any); ok {
			for _, x := range xs {
				s, _ := x.(string)
				l = append(l, s)
			}
		}
		// re-run exactly this list through the same comparison
		save := c11TokenAlphabet
		c11ReplayList(ctx, res, l)
		c11TokenAlphabet = save
	case "ast":
		ser, _ := rep["ser"].(string)
		compact, _ := rep["compact"].(bool)
		c := &c11Case{ser: ser, origin: "replay", compact: compact}
		judge := &c11Judge{}
		if !c11Process(ctx, res, judge, []*c11Case{c}) {
			return res
		}
		if c.valid {
			ds := c11WholeRun(ctx, res, []*c11Case{c}, 1, "replay")[c]
			if len(ds) > 0 && c.accepted {
				res.AddViolation(Violation{Key: "C11/reject/whole-run/" + c11DiagKind(ds[0]), FoundInput: true, Size: len(c.tokens),
					What: fmt.Sprintf("the pkglint run reports for %q: %s", c.line, ds[0]), Replay: c11Replay(c, map[string]any{"whole_run": ds})})
			}
			if len(ds) == 0 && !c.accepted {
				res.AddViolation(Violation{Key: "C11/correspondence/whole-run-vs-unit", FoundInput: false, Size: len(c.tokens),
					What: "unit rejects, whole run prints nothing", Replay: c11Replay(c, map[string]any{"broken": "unit observation = whole-run observation"})})
			}
		}
	default:
		res.Broken = "replay file of unknown kind"
	}
	return res
}

func c11ReplayList(ctx *Ctx, res *Result, l []string) {
	kinds := make([]string, len(l))
	req := "toks"
	for i, t := range l {
		kinds[i] = strconv.Itoa(pkglint.VerifWordKind(t))
		req += " " + hx(t) + ":" + kinds[i]
	}
	ans, err := runOracle(ctx, "c11", []string{req})
	if err != nil {
		res.Broken = err.Error()
		return
	}
	types, p1 := pkglint.VerifShellLexTokens(l)
	result, p2 := pkglint.VerifShellParseTokens(l)
	f := strings.Fields(ans[0])
	res.Evaluations++
	got := "PANIC"
	if p1 == "" {
		if n := len(types); n > 0 && types[n-1] == 0 {
			types = types[:n-1]
		}
		var s []string
		for _, t := range types {
			s = append(s, strconv.Itoa(t))
		}
		got = "L:" + strings.Join(s, ",")
		if len(s) == 0 {
			got = "L:-"
		}
	}
	rep := map[string]any{"kind": "toks", "tokens": l}
	if len(f) != 3 || got != f[0] {
		rep["broken"] = "ShellLexer.Lex = Model.ShellLex.Lex"
		res.AddViolation(Violation{Key: "C11/correspondence/lex-tokenlist", What: fmt.Sprintf("Lex on %q: real %s, model %s", l, got, ans[0]), Replay: rep})
		return
	}
	if got == "PANIC" {
		return
	}
	w := map[string]int{"A": 0, "P": -1, "F": -2}[f[1]]
	if strings.HasPrefix(f[1], "R") {
		w = 1
	}
	if w != result {
		rep["broken"] = "shyyParse = Model.ShellLR.lr_parse"
		res.AddViolation(Violation{Key: "C11/correspondence/parse-tokenlist", What: fmt.Sprintf("Parse on %q: real %d (%s), model %s", l, result, p2, f[1]), Replay: rep})
	}
}

func init() {
	register("C11", runC11, replayC11)
	// vharness run tool-c11count : number of shapes per token count (sizing aid)
	register("tool-c11count", func(ctx *Ctx) *Result {
		en := &c11Enum{}
		er := &c11Enum{reduced: true}
		for n := 1; n <= 9; n++ {
			fmt.Printf("clist(%d) = %d shapes, reduced %d\n", n, len(en.clist(n)), len(er.clist(n)))
		}
		return &Result{}
	}, nil)
	_ = sort.Strings
}
