package main

// C06run -- the whole-run part of C06: the real binary on generated trees with
// hostile content in every file kind and hostile file names, under
// {-g, -s, -e, -q, -Werror, -f, -F, --only p} and several ways of naming the
// targets. Checked on every run:
//
//  (a) every byte of stdout and stderr is printable ASCII, tab or newline;
//  (b) every stdout line is recognised by the extracted grammar (Spec/OutputGrammar.v: classify);
//  (c) every diagnostic line with a line number names (after un-escaping the
//      path) an existing regular file, and 1 <= N <= M <= its number of
//      physical lines; with :EOF the file exists;
//  (c') (beyond the property statement, cheap) with -s: the ">" source lines
//      printed directly above such a diagnostic are, un-escaped, consecutive
//      physical lines of that file that include N..M;
//  (d) the extracted accounting predicate holds: summary counts = numbers of
//      ERROR/WARN/NOTE lines, "Looks fine." iff no errors and warnings, exactly
//      one final line (none with -q/-F), nothing but hints after it, exit
//      status 1 iff errors (or warnings with -Werror).
//
// All failures are FoundInput:true (the input was executed on the real binary
// and contradicts the property itself); the replay holds the tree and argv.

import (
	"fmt"
	"os"
	"path/filepath"
	"regexp"
	"strconv"
	"strings"
	"time"
	"unicode/utf8"
)

type c06Case struct {
	Tree   int
	Root   string
	Cwd    string
	Args   []string
	Gcc    bool
	NoSum  bool // -q or -F
	Werror bool
	FixF   bool // -F: runs on a copy, line numbers are checked against the original
	WShape string
}

// ---------- reference semantics of the -W group (independent of getopt.go) ----------
//
// Documented behaviour: the arguments of -W / --warning are processed from left to right; an
// argument is a comma separated list; each name switches its own flag on, "no-<name>" switches it
// off; "all" / "none" switch every flag on / off EXCEPT "error" (-Wall does not imply -Werror, and
// neither -Wall nor -Wnone takes a -Werror back). All flags start switched off.
type c06WFlags struct{ Error, Extra, Perm, Quoting bool }

func (f *c06WFlags) apply(list string) {
	for _, el := range strings.Split(list, ",") {
		on := !strings.HasPrefix(el, "no-")
		switch strings.TrimPrefix(el, "no-") {
		case "all":
			f.Extra, f.Perm, f.Quoting = true, true, true
		case "none":
			f.Extra, f.Perm, f.Quoting = false, false, false
		case "error":
			f.Error = on
		case "extra":
			f.Extra = on
		case "perm":
			f.Perm = on
		case "quoting":
			f.Quoting = on
		}
	}
}

// c06WGroups draws 1-3 -W arguments in every order and spelling the option syntax allows and
// returns them with the effective flags according to the reference above.
func c06WGroups(r *Rng) (groups [][]string, eff c06WFlags, shape string) {
	names := []string{"all", "all", "none", "error", "error", "no-error", "extra", "no-extra", "perm", "no-perm", "quoting", "no-quoting"}
	var lists []string
	switch r.Intn(10) {
	case 0:
		lists = []string{"all"}
	case 1:
		lists = []string{"error", "all"} // -Werror -Wall
	case 2:
		lists = []string{"all", "error"} // -Wall -Werror
	case 3:
		lists = []string{"error,all"}
	case 4:
		lists = []string{Pick(r, []string{"all,error", "none,error", "error,none", "error,extra", "all,no-error,error", "error,all,no-extra"})}
	case 5:
		lists = []string{"error", Pick(r, []string{"none", "none,extra", "all,no-perm"}), "perm"}
	default:
		for n := 1 + r.Intn(3); n > 0; n-- {
			l := Pick(r, names)
			for k := r.Intn(3); k > 0; k-- {
				l += "," + Pick(r, names)
			}
			lists = append(lists, l)
		}
	}
	sawError, errorBeforeAll := false, false
	for _, l := range lists {
		eff.apply(l)
		for _, el := range strings.Split(l, ",") {
			if el == "error" {
				sawError = true
			}
			if (el == "all" || el == "none") && sawError {
				errorBeforeAll = true
			}
		}
		switch r.Intn(6) {
		case 0, 1, 2:
			groups = append(groups, []string{"-W" + l})
		case 3:
			groups = append(groups, []string{"-W", l})
		case 4:
			groups = append(groups, []string{Pick(r, []string{"--warning=", "--warn="}) + l})
		case 5:
			groups = append(groups, []string{"--warning", l})
		}
	}
	switch {
	case errorBeforeAll && eff.Error:
		shape = "error-then-all/none, effective"
	case eff.Error:
		shape = "error effective"
	case sawError:
		shape = "error given, switched off again"
	default:
		shape = "no error flag"
	}
	return groups, eff, shape
}

func c06Flags(r *Rng) (args []string, c c06Case) {
	wgroups, eff, shape := c06WGroups(r)
	c.Werror, c.WShape = eff.Error, shape
	var other [][]string // the remaining options, each with its argument
	if r.Chance(50) {
		other = append(other, Pick(r, [][]string{{"-Cglobal"}, {"-Cglobal"}, {"--check=global"}, {"-Call"}, {"-C", "global"}, {"-Cnone,global"}}))
	}
	if r.Chance(35) {
		other = append(other, []string{Pick(r, []string{"-g", "--gcc-output-format"})})
		c.Gcc = true
	}
	if r.Chance(40) {
		other = append(other, []string{"-s"})
	}
	if r.Chance(40) {
		other = append(other, []string{"-e"})
	}
	if r.Chance(25) {
		other = append(other, []string{"-q"})
		c.NoSum = true
	}
	switch r.Intn(6) {
	case 0, 1:
		other = append(other, []string{"-f"})
	case 2:
		other = append(other, []string{"-F"})
		c.NoSum, c.FixF = true, true
	}
	if r.Chance(25) {
		other = append(other, []string{"--only", Pick(r, []string{"should", "must", "Unknown", "defined", ":", "%", "aligned", "newline"})})
	}
	// the -W arguments keep their relative order (it is significant), everything else goes anywhere between them
	slots := make([][][]string, len(wgroups)+1)
	for _, o := range other {
		k := r.Intn(len(slots))
		slots[k] = append(slots[k], o)
	}
	for i := range slots {
		for _, o := range slots[i] {
			args = append(args, o...)
		}
		if i < len(wgroups) {
			args = append(args, wgroups[i]...)
		}
	}
	return args, c
}

func c06PickCases(r *Rng, t *c06Tree, tree int, n int) []c06Case {
	var cs []c06Case
	for i := 0; i < n; i++ {
		args, c := c06Flags(r)
		c.Tree, c.Root, c.Cwd = tree, t.Root, "."
		pkg := Pick(r, t.Pkgs)
		switch k := r.Intn(10); {
		case k < 3:
			args = append(args, "-r", ".")
		case k < 5:
			args = append(args, pkg)
		case k == 5:
			c.Cwd = pkg
		case k == 6:
			c.Cwd = "cat"
			args = append(args, "-r", ".")
		case k == 7 && len(t.HostileFiles) > 0:
			args = append(args, Pick(r, t.HostileFiles))
		case k == 8 && t.HostilePkg != "":
			if r.Bool() {
				args = append(args, t.HostilePkg)
			} else {
				c.Cwd = t.HostilePkg
			}
		default:
			args = append(args, pkg, "cat", "does-not-exist")
		}
		c.Args = args
		cs = append(cs, c)
	}
	return cs
}

// ---------- helpers ----------

var c06ReEsc = regexp.MustCompile(`<U\+([0-9A-F]{4,6})>|<0x([0-9A-F]{2})>`)

// c06Unescape reverses escapePrintable (unambiguous as long as the original contains no '<').
func c06Unescape(s string) string {
	return c06ReEsc.ReplaceAllStringFunc(s, func(m string) string {
		sub := c06ReEsc.FindStringSubmatch(m)
		if sub[1] != "" {
			v, _ := strconv.ParseUint(sub[1], 16, 32)
			var buf [4]byte
			n := utf8.EncodeRune(buf[:], rune(v))
			return string(buf[:n])
		}
		v, _ := strconv.ParseUint(sub[2], 16, 8)
		return string([]byte{byte(v)})
	})
}

func c06SafeByte(b byte) bool { return b == '\t' || b == '\n' || (b >= 32 && b <= 126) }

type c06Line struct {
	kind    string // diag source indented empty summary looksfine hint unknown
	level   string
	path    string // escaped, "" if none
	hasPath bool
	lnKind  string // none eof num range
	n, m    int
	msg     string
}

func c06ParseAnswer(a string) c06Line {
	f := strings.Fields(a)
	l := c06Line{kind: f[0]}
	if l.kind == "diag" && len(f) == 7 {
		l.level = f[1]
		if f[2] != "~" {
			l.path, l.hasPath = unhx(f[2]), true
		}
		l.lnKind = f[3]
		l.n, _ = strconv.Atoi(f[4])
		l.m, _ = strconv.Atoi(f[5])
		l.msg = unhx(f[6])
	}
	return l
}

func c06LineWhere(l c06Line, raw string) string {
	switch l.kind {
	case "diag":
		return "diag/" + c07Norm(l.msg)
	case "unknown":
		return "unknown/" + c07Norm(trunc(raw, 40))
	}
	return l.kind
}

// ---------- the checks on one run ----------

type c06Checker struct {
	ctx   *Ctx
	res   *Result
	cache map[string]c06Line // "gcc|line" -> classification (filled in batches)
}

func (ck *c06Checker) classifyAll(cases []c06Case, outs []RunResult) error {
	var reqs []string
	var keys []string
	for i, c := range cases {
		g := "0"
		if c.Gcc {
			g = "1"
		}
		for _, l := range strings.Split(strings.TrimSuffix(outs[i].Stdout, "\n"), "\n") {
			k := g + "|" + l
			if _, ok := ck.cache[k]; !ok {
				ck.cache[k] = c06Line{}
				keys = append(keys, k)
				reqs = append(reqs, "cl "+g+" "+hx(l))
			}
		}
	}
	ans, err := runOracle(ck.ctx, "c06run", reqs)
	if err != nil {
		return err
	}
	for i, k := range keys {
		if strings.HasPrefix(ans[i], "ERR") || strings.HasPrefix(ans[i], "EXC") || ans[i] == "" {
			return fmt.Errorf("oracle answer %q for %q", ans[i], reqs[i])
		}
		ck.cache[k] = c06ParseAnswer(ans[i])
	}
	return nil
}

func (ck *c06Checker) violation(c c06Case, out RunResult, key, what string) {
	files := c07TreeFiles(c.Root)
	ck.res.AddViolation(Violation{Key: key, What: fmt.Sprintf("`pkglint %s` (cwd %s): %s", strings.Join(c.Args, " "), c.Cwd, what), FoundInput: true,
		Size: len(out.Stdout) + 50*len(files),
		Replay: map[string]any{"kind": "run", "cwd": c.Cwd, "args": c.Args, "cwd_hex": hx(c.Cwd), "args_hex": c06HexAll(c.Args), "files": files, "gcc": c.Gcc, "nosum": c.NoSum, "werror": c.Werror, "fixF": c.FixF,
			"stdout": out.Stdout, "stderr": out.Stderr, "exit": out.Exit}})
}

// check applies (a)-(d) to one finished run. accAnswer is the oracle's answer to the acc request.
func (ck *c06Checker) check(c c06Case, out RunResult, accAnswer string, afterRoot string) {
	res := ck.res
	g := "0"
	if c.Gcc {
		g = "1"
	}
	stdoutLines := strings.Split(strings.TrimSuffix(out.Stdout, "\n"), "\n")
	if out.Stdout == "" {
		stdoutLines = nil
	}
	// (a) bytes
	for _, stream := range []struct{ name, text string }{{"stdout", out.Stdout}, {"stderr", out.Stderr}} {
		for i := 0; i < len(stream.text); i++ {
			if !c06SafeByte(stream.text[i]) {
				lineStart := strings.LastIndexByte(stream.text[:i], '\n') + 1
				lineEnd := strings.IndexByte(stream.text[i:], '\n')
				if lineEnd < 0 {
					lineEnd = len(stream.text)
				} else {
					lineEnd += i
				}
				raw := stream.text[lineStart:lineEnd]
				where := "stderr-line/" + c07Norm(trunc(raw, 40))
				if stream.name == "stdout" {
					// classify the line as far as its safe prefix allows
					if d, ok := ParseDiag(raw); ok {
						where = "diag-msg/" + c07Norm(d.Msg)
						for k := 0; k < len(d.Path); k++ {
							if !c06SafeByte(d.Path[k]) {
								where = "diag-path"
							}
						}
					} else if c07IsSourceLine(raw) {
						where = "source"
					} else if strings.HasPrefix(raw, "\t") {
						where = "indented"
					} else if strings.HasPrefix(raw, "(Run ") {
						where = "hint"
					} else {
						where = "other/" + c07Norm(trunc(raw, 40))
					}
				}
				ck.violation(c, out, "C06/rawbyte/"+stream.name+"/"+where, fmt.Sprintf("raw byte 0x%02x on %s in line %q", stream.text[i], stream.name, trunc(raw, 200)))
				break
			}
		}
	}
	if out.Stdout != "" && !strings.HasSuffix(out.Stdout, "\n") {
		ck.violation(c, out, "C06/unterminated-last-line", "stdout does not end with a newline")
	}
	// (b) + (c)
	fatal := strings.Contains(out.Stderr, "FATAL: ")
	showsSource, autofixMode := false, false
	for _, a := range c.Args {
		showsSource = showsSource || a == "-s"
		autofixMode = autofixMode || a == "-f" || a == "-F"
	}
	for li, raw := range stdoutLines {
		l := ck.cache[g+"|"+raw]
		res.Count("line."+l.kind, 1)
		if l.kind == "diag" && showsSource && !autofixMode && l.hasPath && (l.lnKind == "num" || l.lnKind == "range") {
			// (c') the ">" source lines printed directly above a diagnostic are the physical lines N..M of that file
			first := li
			for first > 0 && strings.HasPrefix(stdoutLines[first-1], ">\t") {
				first--
			}
			if first < li {
				full := filepath.Join(c.Root, c.Cwd, c06Unescape(l.path))
				if data, err := os.ReadFile(full); err == nil {
					phys := strings.SplitAfter(string(data), "\n")
					// the block shows the whole logical line, physical lines S..S+k-1; a diagnostic of an
					// autofix reports only the physical lines it touches, so N..M must lie inside the block
					k := li - first
					ok := false
					for S := l.m - k + 1; S <= l.n && !ok; S++ {
						if S < 1 || S+k-1 > len(phys) {
							continue
						}
						ok = true
						for j := 0; ok && j < k; j++ {
							ok = c06Unescape(strings.TrimPrefix(stdoutLines[first+j], ">\t")) == strings.TrimSuffix(phys[S-1+j], "\n")
						}
					}
					res.Count("source-block.checked", 1)
					if k > 1 {
						res.Count("source-block.multi-line", 1)
					}
					if !ok {
						ck.violation(c, out, "C06/source-lines-mismatch/"+c07Norm(l.msg), fmt.Sprintf("the %d source line(s) shown above %q are not physical lines of %q that include %d..%d", k, trunc(raw, 160), c06Unescape(l.path), l.n, l.m))
					}
				}
			}
		}
		if l.kind == "unknown" {
			ck.violation(c, out, "C06/unrecognised-line/"+c07Norm(trunc(raw, 40)), fmt.Sprintf("stdout line %q is not in the grammar", trunc(raw, 200)))
			continue
		}
		if l.kind != "diag" {
			continue
		}
		res.Count("diag."+l.level, 1)
		if strings.Contains(raw, "<U+") || strings.Contains(raw, "<0x") {
			res.Count("diag.with-escaped-byte", 1)
		}
		if !l.hasPath || l.lnKind == "none" {
			res.Count("diag.without-lineno", 1)
			continue
		}
		res.Count("diag.lineno."+l.lnKind, 1)
		rel := c06Unescape(l.path)
		if rel != l.path {
			res.Count("diag.lineno-with-escaped-path", 1)
		}
		full := filepath.Join(c.Root, c.Cwd, rel)
		fi, err := os.Stat(full)
		if err != nil || !fi.Mode().IsRegular() {
			ck.violation(c, out, "C06/path-missing/"+c07Norm(l.msg), fmt.Sprintf("line %q: %q (un-escaped %q) is not an existing regular file", trunc(raw, 200), l.path, rel))
			continue
		}
		if l.lnKind == "eof" {
			continue
		}
		nlines, _ := c06CountLines(full)
		if c.FixF && afterRoot != "" {
			// -F rewrites files while it runs and may load and fix a file again: a line number
			// refers to the file as it was at that moment, which lies between "before" and "after"
			if n2, ok := c06CountLines(filepath.Join(afterRoot, c.Cwd, rel)); ok && n2 > nlines {
				nlines = n2
				res.Count("diag.lineno.F-file-grew", 1)
			}
		}
		if !(1 <= l.n && l.n <= l.m && l.m <= nlines) {
			ck.violation(c, out, "C06/lineno-out-of-range/"+c07Norm(l.msg), fmt.Sprintf("line %q: %d--%d is not within 1..%d (physical lines of %q)", trunc(raw, 200), l.n, l.m, nlines, rel))
		} else if l.lnKind == "range" {
			res.Count("diag.lineno.range-valid", 1)
		}
	}
	// (d)
	switch {
	case out.TimedOut || out.Signal != "" || out.Exit > 1 || out.Exit < 0:
		res.Count("run.abnormal (C01's business)", 1)
		res.Sample(map[string]any{"abnormal": true, "cwd": c.Cwd, "args": c.Args, "exit": out.Exit, "signal": out.Signal, "timeout": out.TimedOut, "stderr": firstLines(out.Stderr, 16)})
	case fatal:
		res.Count("run.fatal", 1)
		if out.Exit != 1 {
			ck.violation(c, out, "C06/exit-mismatch/fatal", fmt.Sprintf("FATAL on stderr but exit status %d", out.Exit))
		}
	default:
		var clause, e, w, n, want int
		if k, _ := fmt.Sscan(accAnswer, &clause, &e, &w, &n, &want); k != 5 {
			res.Broken = "oracle acc answer " + q(accAnswer)
			return
		}
		res.Count("run.accounted", 1)
		if e > 0 {
			res.Count("run.with-errors", 1)
		} else if w > 0 {
			res.Count("run.warnings-only", 1)
			if c.Werror {
				res.Count("run.warnings-only-Werror", 1)
			}
			res.Count("run.warnings-only/-W shape: "+c.WShape, 1)
		} else if n > 0 {
			res.Count("run.notes-only", 1)
		} else {
			res.Count("run.clean", 1)
		}
		opts := ""
		if c.NoSum {
			opts += "nosummary"
		}
		if c.Werror {
			opts += "+Werror"
		}
		switch clause {
		case 0:
		case 1: // reported by (b)
		case 2:
			ck.violation(c, out, "C06/summary-presence/"+opts, fmt.Sprintf("the summary / 'Looks fine.' line is missing, repeated, or present although -q/-F was given (%d errors, %d warnings, %d notes counted)", e, w, n))
		case 3:
			ck.violation(c, out, "C06/count-mismatch", fmt.Sprintf("the final line %q disagrees with the %d ERROR, %d WARN and %d NOTE lines printed", c06FinalLine(stdoutLines), e, w, n))
		case 4:
			ck.violation(c, out, "C06/summary-not-last", "diagnostic output after the summary line, or a hint before it")
		case 5:
			ck.violation(c, out, "C06/exit-mismatch/"+opts, fmt.Sprintf("exit status %d, but %d ERROR and %d WARN lines were printed (expected %d)", out.Exit, e, w, want))
		}
	}
}

func c06HexAll(xs []string) []string {
	out := make([]string, len(xs))
	for i, x := range xs {
		out[i] = hx(x)
	}
	return out
}

func c06FinalLine(ls []string) string {
	for i := len(ls) - 1; i >= 0; i-- {
		if strings.HasSuffix(ls[i], " found.") || ls[i] == "Looks fine." {
			return ls[i]
		}
	}
	return ""
}

func c06AccRequest(c c06Case, out RunResult) string {
	b := func(x bool) string {
		if x {
			return "1"
		}
		return "0"
	}
	var sb strings.Builder
	fmt.Fprintf(&sb, "acc %s %s %s %d", b(c.Gcc), b(c.NoSum), b(c.Werror), imax0(out.Exit))
	if out.Stdout != "" {
		for _, l := range strings.Split(strings.TrimSuffix(out.Stdout, "\n"), "\n") {
			sb.WriteString(" " + hx(l))
		}
	}
	return sb.String()
}

func imax0(i int) int {
	if i < 0 {
		return 99
	}
	return i
}

// c06Run runs the case; for -F it runs on a copy, whose root is returned (the caller removes it).
func c06Run(ctx *Ctx, c c06Case, tag string) (RunResult, string) {
	root := c.Root
	if c.FixF {
		root = c.Root + ".F." + tag
		os.RemoveAll(root)
		if err := CopyTree(c.Root, root); err != nil {
			return RunResult{Stderr: "copy failed: " + err.Error(), Exit: -2}, ""
		}
	}
	return RunPkglint(ctx, filepath.Join(root, c.Cwd), 60*time.Second, c.Args...), root
}

func (ck *c06Checker) runAndCheck(cases []c06Case) {
	outs := make([]RunResult, len(cases))
	after := make([]string, len(cases)) // root of the tree after the run (differs from Root only for -F)
	parallelFor(len(cases), func(i int) { outs[i], after[i] = c06Run(ck.ctx, cases[i], fmt.Sprint(i)) })
	defer func() {
		for i, a := range after {
			if a != "" && a != cases[i].Root {
				os.RemoveAll(a)
			}
		}
	}()
	if err := ck.classifyAll(cases, outs); err != nil {
		ck.res.Broken = err.Error()
		return
	}
	reqs := make([]string, len(cases))
	for i := range cases {
		reqs[i] = c06AccRequest(cases[i], outs[i])
	}
	ans, err := runOracle(ck.ctx, "c06run", reqs)
	if err != nil {
		ck.res.Broken = err.Error()
		return
	}
	for i := range cases {
		ck.check(cases[i], outs[i], ans[i], after[i])
		ck.res.Evaluations++
		if c06NontrivialRe.MatchString(outs[i].Stdout) {
			ck.res.Count("runs.nontrivial", 1)
		}
	}
}

// unit part: the spec's summary printer against the real summary lines is covered by (d);
// here the spec's own print/parse pair is exercised through the extracted code (cheap sanity
// of the extraction; the theorem is C06run_summary_line_roundtrip).
var c06NontrivialRe = regexp.MustCompile(`<U\+[0-9A-F]{4,}>|<0x[0-9A-F]{2}>|:\d+--\d+:`)

func c06SpecSelfTest(ctx *Ctx, res *Result) {
	var reqs []string
	type ewn struct{ e, w, n int }
	var cs []ewn
	for _, e := range []int{0, 1, 2, 10, 123} {
		for _, w := range []int{0, 1, 2, 99} {
			for _, n := range []int{0, 1, 7} {
				if e+w+n > 0 {
					cs = append(cs, ewn{e, w, n})
					reqs = append(reqs, fmt.Sprintf("ps %d %d %d", e, w, n))
				}
			}
		}
	}
	ans, err := runOracle(ctx, "c06run", reqs)
	if err != nil {
		res.Broken = err.Error()
		return
	}
	var reqs2 []string
	for _, a := range ans {
		reqs2 = append(reqs2, "pp "+a)
	}
	ans2, err := runOracle(ctx, "c06run", reqs2)
	if err != nil {
		res.Broken = err.Error()
		return
	}
	for i, c := range cs {
		if ans2[i] != fmt.Sprintf("%d %d %d", c.e, c.w, c.n) {
			res.Broken = fmt.Sprintf("extracted parse_summary(print_summary %v) = %s", c, ans2[i])
		}
	}
	res.Count("spec.summary-roundtrips", len(cs))
}

func runC06run(ctx *Ctx) *Result {
	res := &Result{}
	ntrees, perTree := 250, 8
	if ctx.Tier == "thorough" {
		ntrees, perTree = 1200, 10
	}
	rng := NewRng(ctx.Seed)
	c06SpecSelfTest(ctx, res)
	trees := make([]*c06Tree, ntrees)
	rngs := make([]*Rng, ntrees)
	for i := range rngs {
		rngs[i] = rng.Fork()
	}
	parallelFor(ntrees, func(i int) { trees[i] = c06GenTree(rngs[i], filepath.Join(ctx.Work, fmt.Sprintf("t%d", i)), i) })
	var cases []c06Case
	for i, t := range trees {
		cases = append(cases, c06PickCases(rng, t, i, perTree)...)
		for k, v := range t.Features {
			if strings.HasPrefix(k, "c06.") {
				res.Count("feature."+k, v)
			}
		}
	}
	// diagnostics that are emitted AFTER the last command line argument has been checked (the inter-package checks of
	// -Cglobal at the end of a -r run over the whole tree): on the pristine base fixture they are the only diagnostics of
	// the run, so the exit status, the summary and "Looks fine." depend on them alone
	{
		late := NewBaseTree(filepath.Join(ctx.Work, "late"))
		late.Write("licenses/unused-license", "An unused license\n")
		late.Write("Makefile", lines(cvsID, "", "SUBDIR+=\tcat", ""))
		for _, extra := range [][]string{{"-Werror"}, {"-Wall", "-Werror"}, {}, {"-Werror", "-q"}, {"-Werror", "-g"}, {"-Werror", "-s"}, {"-Wall,no-error"}, {"-Werror", "-e"}} {
			c := c06Case{Tree: -1, Root: late.Root, Cwd: "."}
			for _, a := range extra {
				switch {
				case a == "-g":
					c.Gcc = true
				case a == "-q":
					c.NoSum = true
				}
			}
			var eff c06WFlags
			for _, a := range extra {
				if strings.HasPrefix(a, "-W") {
					eff.apply(a[2:])
				}
			}
			c.Werror = eff.Error
			c.Args = append(append([]string{}, extra...), "-Cglobal", "-r", ".")
			cases = append(cases, c)
			res.Count("run.late-diagnostics-only", 1)
		}
	}
	ck := &c06Checker{ctx: ctx, res: res, cache: map[string]c06Line{}}
	ck.runAndCheck(cases)
	for _, c := range cases {
		for _, a := range c.Args {
			if strings.HasPrefix(a, "-W") || strings.HasPrefix(a, "--warn") {
				res.Count("option.-W/--warning", 1)
			} else if strings.HasPrefix(a, "-C") || strings.HasPrefix(a, "--check") {
				res.Count("option.-C/--check", 1)
			} else if strings.HasPrefix(a, "-") {
				res.Count("option."+a, 1)
			}
		}
	}
	d := func(k string) int { v, _ := res.Distribution[k].(int); return v }
	res.DistinctNontrivial = d("runs.nontrivial")
	res.TracesValidated = res.Evaluations
	res.Rule = "a case = (generated hostile tree, cwd, argv with a random subset of -g -s -e -q -Werror -f|-F --only p and one of 9 ways of naming the targets); checks (a)-(d) of docs/C06run.md on every run; non-trivial (counted) = runs (cases are distinct by construction) whose stdout has at least one line with an escaped byte (<U+XXXX> / <0xNN>) or an N--M line range; the numbers of such lines are in the distribution"
	for _, i := range []int{0, len(cases) / 3, len(cases) - 1} {
		res.Sample(map[string]any{"cwd": cases[i].Cwd, "args": cases[i].Args})
	}
	// coverage floors
	floors := map[string]int{"diag.with-escaped-byte": 200, "diag.lineno.range-valid": 30, "diag.lineno-with-escaped-path": 30, "line.source": 100, "line.indented": 100,
		"line.summary": 50, "line.looksfine": 1, "line.hint": 50, "diag.AUTOFIX": 20, "diag.NOTE": 20, "run.warnings-only-Werror": 10, "run.late-diagnostics-only": 8, "run.warnings-only/-W shape: error-then-all/none, effective": 4, "run.warnings-only/-W shape: error given, switched off again": 2, "option.-q": 10, "option.-F": 10, "option.--only": 10}
	for _, k := range sortedKeys(floors) {
		// a missed floor makes a PASS meaningless; when violations were found they are the result
		if d(k) < floors[k] && len(res.Violations) == 0 {
			res.Broken = fmt.Sprintf("coverage floor missed: %s = %d < %d", k, d(k), floors[k])
		}
	}
	res.Assumptions = []string{"file names contain no '<' (the un-escaping of <U+XXXX>/<0xNN> is then unambiguous), no ':' and no newline",
		"-F runs on a copy of the tree; a line number printed under -F is accepted when it lies within the file before OR after the run (a file can be fixed, saved, loaded again and fixed again in one run)"}
	return res
}

func replayC06run(ctx *Ctx, rep map[string]any) *Result {
	res := &Result{Rule: "replay"}
	if rep["kind"] != "run" {
		res.Broken = fmt.Sprintf("nothing to re-execute for replay kind %v", rep["kind"])
		return res
	}
	root := filepath.Join(ctx.Work, "replay")
	files, _ := rep["files"].(map[string]any)
	c07WriteFiles(root, files)
	bo := func(k string) bool { v, _ := rep[k].(bool); return v }
	cwdHex, _ := rep["cwd_hex"].(string)
	cwd := unhx(cwdHex)
	var args []string
	for _, a := range c07Strings(rep["args_hex"]) {
		args = append(args, unhx(a))
	}
	c := c06Case{Root: root, Cwd: cwd, Args: args, Gcc: bo("gcc"), NoSum: bo("nosum"), Werror: bo("werror"), FixF: bo("fixF")}
	ck := &c06Checker{ctx: ctx, res: res, cache: map[string]c06Line{}}
	ck.runAndCheck([]c06Case{c})
	return res
}

func init() { register("C06run", runC06run, replayC06run) }
