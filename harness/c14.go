package main

import (
	"encoding/json"
	"fmt"
	"os"
	"os/exec"
	"path/filepath"
	"regexp"
	"sort"
	"strconv"
	"strings"

	pkglint "github.com/rillig/pkglint/v23"
)

// C14: condition rewrites offered as simplifications preserve the condition's value.
//
// Unit layer: conditions are generated structurally (typed variable x pattern x
// :M/:N x prefix modifier x form, plus compound shapes), given to the real
// MkCondChecker through the shim VerifCondSimplify (--autofix mode, nothing on
// disk), and
//   (a) the rewrites the real code logged and the rewritten line are compared
//       with the extracted model (Model/CondSimp.v: walk + Autofix.Replace);
//   (b) the property itself: the original and the rewritten condition text are
//       evaluated by the extracted specification (Spec/BmakeCond.v: its own
//       reader + three-valued evaluator) for every value of the property's value
//       set that the variable's declared type admits.  A differing truth value,
//       or valid -> malformed, is a counterexample (found_input = true);
//   (c) the one input the theorems take on trust, mayMatchNumber(pattern) = false
//       => no word matching the pattern is a number, is tested against the
//       spec's Str_Match and TryParseNumber on all short numeric words, and the
//       words found are added to the value set of that pattern.
// Whole-run layer: the real binary with -F on a package Makefile holding
// generated .if lines; the rewritten file is read back and judged by (b).

// ---------- variables ----------

type c14Var struct {
	Name string `json:"name"`
	Kind string `json:"kind"` // see shim: enum:..., yesno, ident, version, unknown, none (untyped)
	List bool   `json:"list"`
	Def  string `json:"def"` // D P U L (declaration), or "real" = a variable of pkglint's own table
	// what the generated file says before the condition (c14Spec.Ctx), and the
	// name the type is registered under (NAME or NAME.* for a parameterised variable)
	Ctx    string `json:"ctx,omitempty"`
	Family string `json:"family,omitempty"`
	// declared NonemptyIfDefined: the declaration is the ground truth, the empty value is not admitted
	Nonempty bool `json:"nonempty,omitempty"`
}

// the contexts that can precede the condition in the generated file
//
//	""          nothing
//	self=       SUBJECT=  value   (also self?= and self+=)
//	sibling     BASE.sib?= value  (another parameter of the same family; only for BASE.param subjects)
//	unrelated   C14UNREL= value
//	nested      the condition is inside .if defined(SUBJECT)
//	cond-self   SUBJECT= value, but inside .if defined(C14OTHER) ... .endif
//	for-self    SUBJECT= value, but inside .for c14i in ${C14LIST} ... .endfor (the list may be empty)
//	guarded     the whole fragment is wrapped in .if !defined(C14_GUARD_MK) ... .endif and assigns SUBJECT inside:
//	            a multiple-inclusion guard (Indentation level with guard = true) when nothing precedes it
//	undef-self  SUBJECT= value, then .undef SUBJECT
var c14Contexts = []string{"", "self=", "self?=", "self+=", "sibling", "unrelated", "nested", "cond-self", "for-self", "guarded", "undef-self"}

// MkLines.checkAllData.vars.IsDefined(varname): the exact name was assigned on an
// earlier line of the file (any operator) outside of .if and .for blocks
func (v c14Var) assignedEarlier() bool {
	switch v.Ctx {
	case "self=", "self?=", "self+=":
		return true
	}
	return false
}

// a value the type admits, used in the generated assignments
func (v c14Var) sampleValue() string {
	switch {
	case strings.HasPrefix(v.Kind, "enum:"):
		return strings.Fields(v.Kind[5:])[0]
	case v.Kind == "yesno":
		return "no"
	case v.Kind == "version", v.Kind == "integer":
		return "10"
	}
	return "alpha"
}

var c14Kinds = []struct {
	tag, kind string
	list      bool
}{
	{"EA", "enum:alpha beta gamma", false},
	{"EN", "enum:0 1 10 16", false},
	{"YN", "yesno", false},
	{"ID", "ident", false},
	{"VR", "version", false},
	{"LI", "ident", true},
	{"LY", "yesno", true},
	{"UK", "unknown", false},
	{"NT", "none", false},
}

func c14MkVar(tag, def string) c14Var {
	for _, k := range c14Kinds {
		if k.tag == tag {
			return c14Var{Name: "C14" + tag + "_" + def, Kind: k.kind, List: k.list, Def: def, Nonempty: def == "N" && k.kind != "none"}
		}
	}
	panic("c14: unknown kind " + tag)
}

// the seven facts Model/CondSimp.v asks about a variable, as declared to the shim
func (v c14Var) flags() string {
	b := func(x bool) string {
		if x {
			return "1"
		}
		return "0"
	}
	typed := v.Kind != "none"
	return b(typed) + b(v.Kind == "unknown") + b(v.List) +
		b(typed && (v.Def == "D" || v.Def == "N")) +
		b(typed && (v.Def == "D" || v.Def == "P" || v.Def == "L" || v.Def == "N")) +
		b(v.assignedEarlier()) +
		b(typed && v.Def != "L") +
		b(typed && v.Def == "N")
}

// ground truth, independent of pkglint's isDefined: can the variable be
// undefined when bmake evaluates the condition (at load time)?
func (v c14Var) mayBeUndefined(prefs bool) bool {
	switch v.Ctx {
	case "self=", "self?=", "self+=", "nested", "really-guarded":
		// assigned unconditionally before the condition, or guarded by .if defined(SUBJECT)
		return false
	}
	if v.Def == "real" {
		for _, rv := range c14RealVars {
			if rv.name == v.Name || strings.HasPrefix(v.Name, rv.name+".") && rv.param {
				// before the preferences are loaded only the variables vardefs.go declares AlwaysInScope are there
				return rv.undef || !prefs && rv.name != "MACHINE_ARCH"
			}
		}
	}
	switch v.Def {
	case "D", "N":
		return false
	case "P":
		return !prefs || v.Kind == "none"
	}
	return true
}

var (
	c14ReIdent         = regexp.MustCompile(`^[+\-.\w]+$`)
	c14ReVersion       = regexp.MustCompile(`^\d[\w.]*$`)
	c14ReYesNo         = regexp.MustCompile(`^(?:YES|yes|NO|no)$`)
	c14ReInteger       = regexp.MustCompile(`^\d+$`)
	c14ReOption        = regexp.MustCompile(`^[a-z][-0-9a-z_+]*$`)
	c14ReHexFloatNoExp = regexp.MustCompile(`^[+-]?0[xX][0-9a-fA-F]*\.[0-9a-fA-F]*$`)
	c14ReDigits        = regexp.MustCompile(`^\d+\.?\d*$`)
)

func c14WordAdmitted(kind, w string) bool {
	switch {
	case strings.HasPrefix(kind, "enum:"):
		for _, e := range strings.Fields(kind[5:]) {
			if e == w {
				return true
			}
		}
		return false
	case kind == "yesno":
		return c14ReYesNo.MatchString(w)
	case kind == "ident":
		return c14ReIdent.MatchString(w)
	case kind == "version":
		return c14ReVersion.MatchString(w)
	case kind == "integer":
		return c14ReInteger.MatchString(w)
	case kind == "option":
		return c14ReOption.MatchString(w)
	}
	return true // unknown / untyped: no declared restriction
}

// admitted: the empty value always (VAR= is accepted for every type), a single
// word the basic type accepts, several such words only for list types (and for
// variables without a declared type)
func (v c14Var) admits(value string) bool {
	ws := strings.Fields(value)
	if len(ws) == 0 && v.Nonempty {
		return false
	}
	if len(ws) > 1 && !v.List && v.Kind != "unknown" && v.Kind != "none" {
		return false
	}
	for _, w := range ws {
		if !c14WordAdmitted(v.Kind, w) {
			return false
		}
	}
	return true
}

// ---------- conditions ----------

type c14Node struct {
	K    byte // O A N P D E T Q(uoted term) X
	Kids []*c14Node
	Var  string
	Mods []string
	Text string // X only
}

func (n *c14Node) text() string {
	switch n.K {
	case 'O', 'A':
		parts := make([]string, len(n.Kids))
		for i, k := range n.Kids {
			parts[i] = k.text()
		}
		if n.K == 'O' {
			return strings.Join(parts, " || ")
		}
		return strings.Join(parts, " && ")
	case 'N':
		return "!" + n.Kids[0].text()
	case 'P':
		return "(" + n.Kids[0].text() + ")"
	case 'D':
		return "defined(" + n.Var + ")"
	case 'E':
		return "empty(" + n.Var + c14ModText(n.Mods) + ")"
	case 'T':
		return "${" + n.Var + c14ModText(n.Mods) + "}"
	case 'Q':
		return "\"${" + n.Var + c14ModText(n.Mods) + "}\""
	}
	return n.Text
}

func c14ModText(ms []string) string {
	var sb strings.Builder
	for _, m := range ms {
		sb.WriteString(":" + m)
	}
	return sb.String()
}

func (n *c14Node) tokens(out *[]string) {
	switch n.K {
	case 'O', 'A':
		*out = append(*out, string(n.K), fmt.Sprint(len(n.Kids)))
		for _, k := range n.Kids {
			k.tokens(out)
		}
	case 'N', 'P':
		*out = append(*out, string(n.K))
		n.Kids[0].tokens(out)
	case 'D':
		*out = append(*out, "D", hx(n.Var))
	case 'E', 'T', 'Q':
		k := string(n.K)
		if n.K == 'Q' {
			k = "T" // MkCondTerm{Expr} for both ${..} and "${..}"
		}
		*out = append(*out, k, hx(n.Var), fmt.Sprint(len(n.Mods)))
		for _, m := range n.Mods {
			*out = append(*out, hx(m))
		}
	default:
		*out = append(*out, "X")
	}
}

func (n *c14Node) patterns(out map[string]bool) {
	for _, k := range n.Kids {
		k.patterns(out)
	}
	for _, m := range n.Mods {
		if strings.HasPrefix(m, "M") || strings.HasPrefix(m, "N") {
			out[m[1:]] = true
		}
	}
}

// c14Spec is everything needed to rebuild one generated condition (also the replay format).
type c14Spec struct {
	Shape    string `json:"shape"` // plain | defined-and | defined-other-and | quoted | not-quoted | double-not | paren | not-paren | or-two | and-two | same-twice | and-three | defined-mid-and | and-wrong-occurrence
	Form     string `json:"form"`  // bare | not-bare | empty | not-empty
	Pat      string `json:"pat"`   // hex in the replay file
	Positive bool   `json:"positive"`
	Prefix   string `json:"prefix"` // "" | tl | U
	Tag      string `json:"tag"`
	Def      string `json:"def"`
	Prefs    bool   `json:"prefs"`
	Real     int    `json:"real,omitempty"`  // 1 + index into c14RealVars (whole-run layer), 0 = a variable declared through the shim
	Param    string `json:"param,omitempty"` // the subject is BASE.<param>
	Ctx      string `json:"ctx,omitempty"`   // see c14Contexts
	// an .include line near the condition: "<where>|<path>", where = before (unconditional, before the
	// condition) | cond (before it, inside .if defined(C14OTHER) ... .endif) | after (after the condition)
	Inc string `json:"inc,omitempty"`
	// the fragment is a hacks.mk (MkLines.checkAll sets Tools.SeenPrefs before every line)
	Hacks bool `json:"hacks,omitempty"`
}

func (s c14Spec) variable() c14Var {
	if s.Real > 0 {
		rv := c14RealVars[s.Real-1]
		v := c14Var{Name: rv.name, Kind: rv.kind, List: rv.list, Def: "real", Ctx: s.Ctx, Family: rv.name, Nonempty: rv.nonempty}
		if rv.param && s.Param != "" {
			v.Name, v.Family = rv.name+"."+s.Param, rv.name+".*"
		}
		return v
	}
	v := c14MkVar(s.Tag, s.Def)
	v.Ctx, v.Family = s.Ctx, v.Name
	if s.Param != "" {
		v.Name, v.Family = v.Name+"."+s.Param, v.Name+".*"
	}
	return v
}

// the lines of the generated file around the condition
func (s c14Spec) context(cond string) (pre []string, line string, post []string) {
	v := s.variable()
	val := v.sampleValue()
	base := strings.SplitN(v.Name, ".", 2)[0]
	line, post = ".if "+cond, []string{".endif"}
	switch s.Ctx {
	case "self=", "self?=", "self+=":
		pre = []string{v.Name + s.Ctx[4:] + "\t" + val}
	case "sibling":
		if s.Param != "" {
			pre = []string{base + ".sib" + s.Param + "?=\t" + val}
		} else {
			pre = []string{"C14UNREL=\t" + val}
		}
	case "unrelated":
		pre = []string{"C14UNREL=\t" + val}
	case "nested":
		pre = []string{".if defined(" + v.Name + ")"}
		line, post = ".  if "+cond, []string{".  endif", ".endif"}
	case "cond-self":
		pre = []string{".if defined(C14OTHER)", v.Name + "=\t" + val, ".endif"}
	case "for-self":
		pre = []string{".for c14i in ${C14LIST}", v.Name + "=\t" + val, ".endfor"}
	case "undef-self":
		pre = []string{v.Name + "=\t" + val, ".undef " + v.Name}
	case "guarded":
		pre = []string{".if !defined(C14_GUARD_MK)", "C14_GUARD_MK=\t# defined", v.Name + "=\t" + val}
		line, post = ".  if "+cond, []string{".  endif", ".endif"}
	}
	if where, path, ok := strings.Cut(s.Inc, "|"); ok {
		inc := ".include \"" + path + "\""
		switch where {
		case "before":
			pre = append([]string{inc}, pre...)
		case "cond":
			pre = append([]string{".if defined(C14OTHER)", inc, ".endif"}, pre...)
		case "for":
			pre = append([]string{".for c14i in ${C14LIST}", inc, ".endfor"}, pre...)
		case "after":
			post = append(post, inc)
		}
	}
	return
}

// ---------- what the lines before a condition guarantee (ground truth, independent of pkglint and of the Coq files) ----------

// the files that load the user preferences when they are included (pkgsrc facts, see Spec/PrefsFile.v and docs/C14.md)
var c14PrefsFiles = map[string]bool{"bsd.prefs.mk": true, "bsd.fast.prefs.mk": true, "bsd.builtin.mk": true, "pkgconfig-builtin.mk": true,
	"pkg-build-options.mk": true, "compiler.mk": true, "options.mk": true, "bsd.options.mk": true}

func c14ReallyLoadsPrefs(path string) bool {
	var parts []string
	for _, p := range strings.Split(path, "/") {
		if p != "" {
			parts = append(parts, p)
		}
	}
	for _, p := range parts {
		if p == "mk" {
			return true // pkglint's standing assumption about the infrastructure, taken over as a reference fact
		}
	}
	return len(parts) > 0 && c14PrefsFiles[parts[len(parts)-1]]
}

var (
	c14ReInclude = regexp.MustCompile(`^\.[ \t]*(?:s|-)?include[ \t]+"([^"]+)"[ \t]*$`)
	c14ReAssign  = regexp.MustCompile(`^([A-Za-z_][-+.\w]*?)[ \t]*(?:[?+:!])?=`)
	c14ReOpen    = regexp.MustCompile(`^\.[ \t]*(?:if|ifdef|ifndef|ifmake|ifnmake|for)\b`)
	c14ReClose   = regexp.MustCompile(`^\.[ \t]*(?:endif|endfor)\b`)
	c14ReUndef   = regexp.MustCompile(`^\.[ \t]*undef[ \t]+([^ \t]+)[ \t]*$`)
)

// one generated line as Spec/PrefsFile.v's fline (none of the generated fragments has a multiple-inclusion guard)
func c14Fline(line string) string {
	if m := c14ReInclude.FindStringSubmatch(line); m != nil {
		return "I" + hx(m[1])
	}
	if c14ReOpen.MatchString(line) {
		return "O0"
	}
	if c14ReClose.MatchString(line) {
		return "C"
	}
	if m := c14ReUndef.FindStringSubmatch(line); m != nil {
		return "U" + hx(m[1])
	}
	if m := c14ReAssign.FindStringSubmatch(line); m != nil {
		return "A" + hx(m[1])
	}
	return "X"
}

// the guard line of a really guarded fragment opens a level that does not count as a condition
func (c *c14Case) fline(l string) string {
	if c.spec.realGuard() && l == ".if !defined(C14_GUARD_MK)" {
		return "O1"
	}
	return c14Fline(l)
}

// are the preferences loaded for sure when bmake reaches the line after [pre]; is there a prefs include that may or may not happen
func c14PrefsSure(pre []string) (sure bool, conditional bool) {
	depth := 0
	for _, l := range pre {
		switch {
		case c14ReOpen.MatchString(l):
			depth++
		case c14ReClose.MatchString(l):
			if depth > 0 {
				depth--
			}
		default:
			if m := c14ReInclude.FindStringSubmatch(l); m != nil && c14ReallyLoadsPrefs(m[1]) {
				if depth == 0 {
					sure = true
				} else {
					conditional = true
				}
			}
		}
	}
	return
}

func c14Atom(v string, form string, mods []string) *c14Node {
	switch form {
	case "bare":
		return &c14Node{K: 'T', Var: v, Mods: mods}
	case "not-bare":
		return &c14Node{K: 'N', Kids: []*c14Node{{K: 'T', Var: v, Mods: mods}}}
	case "empty":
		return &c14Node{K: 'E', Var: v, Mods: mods}
	}
	return &c14Node{K: 'N', Kids: []*c14Node{{K: 'E', Var: v, Mods: mods}}}
}

func (s c14Spec) mods(pat string) []string {
	var ms []string
	if s.Prefix == "-" {
		return nil // no modifier at all: ${V}, empty(V) -- the n == 0 exits of the three simplifiers
	}
	if s.Prefix != "" {
		ms = append(ms, s.Prefix)
	}
	if s.Positive {
		return append(ms, "M"+pat)
	}
	return append(ms, "N"+pat)
}

func (s c14Spec) build() (cond string, tree *c14Node) {
	v := s.variable().Name
	atom := c14Atom(v, s.Form, s.mods(s.Pat))
	x1 := &c14Node{K: 'X', Text: "1"}
	switch s.Shape {
	case "plain":
		tree = atom
	case "defined-and":
		tree = &c14Node{K: 'A', Kids: []*c14Node{{K: 'D', Var: v}, atom}}
	case "defined-other-and":
		tree = &c14Node{K: 'A', Kids: []*c14Node{{K: 'D', Var: "C14OTHER"}, atom}}
	case "quoted":
		tree = &c14Node{K: 'Q', Var: v, Mods: s.mods(s.Pat)}
	case "not-quoted":
		tree = &c14Node{K: 'N', Kids: []*c14Node{{K: 'Q', Var: v, Mods: s.mods(s.Pat)}}}
	case "double-not":
		tree = &c14Node{K: 'N', Kids: []*c14Node{atom}}
	case "paren":
		tree = &c14Node{K: 'P', Kids: []*c14Node{atom}}
	case "not-paren":
		tree = &c14Node{K: 'N', Kids: []*c14Node{{K: 'P', Kids: []*c14Node{atom}}}}
	case "or-two":
		tree = &c14Node{K: 'O', Kids: []*c14Node{atom, c14Atom(v, "not-empty", s.mods("other"))}}
	case "and-two":
		tree = &c14Node{K: 'A', Kids: []*c14Node{atom, c14Atom(v, "bare", s.mods("other"))}}
	case "same-twice":
		tree = &c14Node{K: 'O', Kids: []*c14Node{atom, c14Atom(v, s.Form, s.mods(s.Pat))}}
	case "and-three":
		tree = &c14Node{K: 'A', Kids: []*c14Node{{K: 'D', Var: v}, atom, x1}}
	case "defined-mid-and":
		// defined(V) && ${V} != "zzz" && <atom>: the middle part is only evaluated when V is defined
		mid := &c14Node{K: 'X', Text: "${" + v + "} != \"zzz\""}
		tree = &c14Node{K: 'A', Kids: []*c14Node{{K: 'D', Var: v}, mid, atom}}
	case "and-wrong-occurrence":
		// !defined(V) && 1 || defined(V)  && <atom>   (two blanks in the second conjunction)
		left := &c14Node{K: 'A', Kids: []*c14Node{{K: 'N', Kids: []*c14Node{{K: 'D', Var: v}}}, x1}}
		right := &c14Node{K: 'A', Kids: []*c14Node{{K: 'D', Var: v}, atom}}
		tree = &c14Node{K: 'O', Kids: []*c14Node{left, right}}
		return left.text() + " || defined(" + v + ")  && " + atom.text(), tree
	default:
		tree = atom
	}
	return tree.text(), tree
}

// ---------- pattern and value pools ----------

var c14CorePatterns = []string{"alpha", "0", "1e1", "al*", "[0-9]*", "[yY][eE][sS]", "[Nn][Oo]", ""}

var c14Patterns = []string{
	// literals
	"alpha", "foo", "yes", "a.c", "a,b/c+d", "<=>", "Alpha",
	// literals that look like numbers
	"0", "1", "10", "16", "00", "0.0", "1.0", "1e1", "0e0", "0x10", "0x0", "-1", "+1", "+0", ".5", ".0", "1.", "1e", "0X10",
	// globs
	"al*", "*", "?lpha", "[a-f]*", "[0-9]*", "[0-9].*", "[1-9]", "*.c", "0x0.?", "1e?", "*[0-9]", "[ab]lpha", "0x[0-9].", "0x[0-9].[0-9]", "[0-9]e[0-9]", "[0-9].[0-9]",
	// yes/no classes and near misses
	"[yY][eE][sS]", "[Yy][Ee][Ss]", "[nN][oO]", "[Nn][Oo]", "[yY][eE][s]", "[yY]", "[yY][eE][sS]*", "[yY][Ee][sS]", "[yy][eE][sS]",
	// nested references: bmake expands them before matching, mayMatchNumber sees the text
	"${C14LV}", "${C14LV}*", "[${C14LV}]", "*${C14LV}", "al${C14LV}", "${C14LV}.${C14LW}", "${C14LV}[0-9]", "${C14LV}${C14LW}",
	// patterns makepat.Compile rejects (mayMatchNumber's error exit), literals with a byte outside mkCondModifierPatternLiteral
	"[a", "al[", "[0-", "a~b", "x%y",
	// empty
	"",
}

// the variables that patterns refer to, and the values they take when a rewritten
// condition is judged (nil = undefined): number-like words, glob metacharacters,
// the empty string, plain words
var c14NestedVars = []string{"C14LV", "C14LW"}

var c14NestedValues = []*string{nil, sp(""), sp("0"), sp("0x0"), sp("0.0"), sp("+0"), sp("00"), sp("1"), sp("*"), sp("[0-9]"), sp("?"), sp("al"), sp("alpha"), sp("pha"), sp("e"), sp("x")}

func sp(s string) *string { return &s }

// the nested variables a condition text mentions
func c14NestedIn(text string) []string {
	var out []string
	for _, n := range c14NestedVars {
		if strings.Contains(text, "${"+n+"}") {
			out = append(out, n)
		}
	}
	return out
}

// the environments of the nested variables a step is judged under: every value for
// one variable; for two, every value of the first against a rotating value of the second
// plus the diagonal
func c14NestedBindings(names []string) [][]*string {
	var out [][]*string
	switch len(names) {
	case 0:
		return nil
	case 1:
		for _, v := range c14NestedValues {
			out = append(out, []*string{v})
		}
	default:
		n := len(c14NestedValues)
		for i, v := range c14NestedValues {
			out = append(out, []*string{v, c14NestedValues[i]}, []*string{v, c14NestedValues[(i+3)%n]}, []*string{v, c14NestedValues[(2*i+1)%n]})
		}
	}
	return out
}

func c14ValTok(v *string) string {
	if v == nil {
		return "U"
	}
	return "V" + hx(*v)
}

var c14Values = []string{
	"", "alpha", "beta", "gamma", "ALPHA", "Alpha", "foo", "other", "a.c", "a,b/c+d", "<=>",
	"yes", "no", "YES", "NO", "Yes", "yEs", "yess",
	"0", "0.0", "0x0", "1e0", "1", "10", "16", "00", "1.0", "1e1", "0e0", "0x10", "-1", "-1.0", "+1", "+0", "-0", ".5", "0.5", ".0", "1.", "1e", "0X10", "0x0.0", "1e2", "10.0", "1.00",
	"alpha beta", "beta alpha", "0 0", "foo 0", "yes no", "a 0 b", "alpha alpha", "other 10",
}

func c14PatClass(pat string, num map[string]int) string {
	switch {
	case pat == "":
		return "empty-pattern"
	case c14YesNoLower(pat) != "":
		return "yesno-class"
	case strings.Contains(pat, "$"):
		return "nested-ref"
	case strings.ContainsAny(pat, "*?[\\$"):
		return "glob"
	case c14ReDigits.MatchString(pat):
		return "numeric-literal-quoted"
	case num[pat] > 0:
		return "numeric-literal-unquoted"
	}
	return "literal"
}

func c14ValClass(v *string, num map[string]int) string {
	switch {
	case v == nil:
		return "undefined"
	case strings.TrimSpace(*v) == "":
		return "empty"
	case len(strings.Fields(*v)) > 1:
		return "several-words"
	case num[strings.TrimSpace(*v)] == 2 && c14ReHexFloatNoExp.MatchString(strings.TrimSpace(*v)):
		return "number-zero-hexfloat" // 0x0.0, 0x0. : a number only for strtod, not in C source syntax
	case num[strings.TrimSpace(*v)] == 2:
		return "number-zero"
	case num[strings.TrimSpace(*v)] == 1:
		return "number"
	}
	return "word"
}

// independent re-statement of "[xX]..." -> "x..." used only for naming keys
func c14YesNoLower(p string) string {
	var sb strings.Builder
	for len(p) >= 4 && p[0] == '[' && p[3] == ']' {
		a, b := p[1], p[2]
		switch {
		case a >= 'A' && a <= 'Z' && b == a+32:
			sb.WriteByte(b)
		case a >= 'a' && a <= 'z' && b == a-32:
			sb.WriteByte(a)
		default:
			return ""
		}
		p = p[4:]
	}
	if p != "" {
		return ""
	}
	return sb.String()
}

// ---------- one batch of conditions through the real code, the model and the spec ----------

type c14Case struct {
	spec      c14Spec
	layer     string   // unit | wholerun
	line      string   // the directive line holding the condition
	pre       []string // the lines before it (after the optional bsd.prefs.mk include)
	post      []string // the lines closing it
	tree      *c14Node
	v         c14Var
	newLine   string      // what the real code made of the line
	fixes     [][2]string // the from/to it logged
	panicked  string
	mmn       map[string]string // pattern -> 0 err | 1 no | 2 yes
	prefsSure bool              // ground truth: the preferences are loaded for sure before the condition
	condInc   bool              // ... or by an include that may or may not happen
	hasModel  bool
	model     struct {
		seenPrefs, specPrefs, specCondInc, specUndef bool
		newLine                                      string
		offered                                      int
		applied                                      []c14Fix
	}
}

type c14Fix struct{ kind, from, to, ast string }

type c14State struct {
	ctx      *Ctx
	res      *Result
	num      map[string]int      // word -> 0 not a number, 1 number, 2 zero (by the spec)
	extraVal map[string][]string // pattern -> numeric words it matches although mayMatchNumber says no
	mmnCache map[string]string
	distinct map[string]bool
	cross    []c14Cross // evaluation requests kept for the extraction cross-check
	crossN   int
	crossF   []*c14Case // model runs (check_file_line) kept for the extraction cross-check
	crossL   []string   // Coq examples about loads_prefs / really_loads_prefs / path_base
}

// one evaluation request and the extracted oracle's answer to it
type c14Cross struct {
	a, b, name string
	nnames     []string
	nvals      []*string
	values     []*string
	answer     string
}

func c14MmnCode(pat string) string {
	may, errText := pkglint.VerifMayMatchNumber14(pat)
	switch {
	case errText != "":
		return "0"
	case may:
		return "2"
	}
	return "1"
}

func (st *c14State) mmn(pat string) string {
	if c, ok := st.mmnCache[pat]; ok {
		return c
	}
	c := c14MmnCode(pat)
	st.mmnCache[pat] = c
	return c
}

// classify words as numbers with the spec's TryParseNumber
func (st *c14State) classifyNumbers(words []string) error {
	var reqs []string
	var asked []string
	for _, w := range words {
		w = strings.TrimSpace(w)
		if _, ok := st.num[w]; ok || w == "" || strings.ContainsAny(w, " \t") {
			continue
		}
		st.num[w] = 0
		asked = append(asked, w)
		reqs = append(reqs, "z "+hx("*")+" "+hx(w))
	}
	ans, err := runOracle(st.ctx, "c14", reqs)
	if err != nil {
		return err
	}
	for i, a := range ans {
		var n, z int
		if k, _ := fmt.Sscan(a, &n, &z); k != 2 {
			return fmt.Errorf("oracle z answer %q", a)
		}
		if z == 0 {
			st.num[asked[i]] = 2
		} else if n == 0 {
			st.num[asked[i]] = 1
		}
	}
	return nil
}

func c14RunImpl(c *c14Case) {
	var vars []pkglint.VerifCondVar
	if c.v.Kind != "none" {
		vars = append(vars, pkglint.VerifCondVar{Name: c.v.Family, Kind: c.v.Kind, List: c.v.List, Def: c.v.Def})
	}
	lines := c.before()
	idx := len(lines)
	lines = append(lines, c.line)
	lines = append(lines, c.post...)
	basename := "filename.mk"
	if c.spec.Hacks {
		basename = "hacks.mk"
	}
	r := pkglint.VerifCondSimplifyFile(vars, basename, lines, idx)
	c.newLine, c.fixes, c.panicked = r.NewLine, r.Fixes, r.Panicked
}

// unit layer: the real code through the shim, then the model; then judge
func (st *c14State) runCases(cases []*c14Case) {
	res := st.res
	// 1. the real code (sequential: the shim replaces the package-global G)
	for _, c := range cases {
		c14RunImpl(c)
		pats := map[string]bool{}
		c.tree.patterns(pats)
		c.mmn = map[string]string{}
		for p := range pats {
			c.mmn[p] = st.mmn(p)
		}
	}
	// 2. the model
	reqs := make([]string, len(cases))
	for i, c := range cases {
		// the model reads the lines itself: SeenPrefs and vars.IsDefined are no longer inputs
		before := c.before()
		toks := []string{"f", map[bool]string{true: "1", false: "0"}[c.spec.Hacks], fmt.Sprint(len(before))}
		for _, l := range before {
			toks = append(toks, c.fline(l))
		}
		toks = append(toks, hx(c.line), "1", hx(c.v.Name), c.v.flags(), fmt.Sprint(len(c.mmn)))
		for _, p := range sortedKeys(c.mmn) {
			toks = append(toks, hx(p), c.mmn[p])
		}
		c.tree.tokens(&toks)
		reqs[i] = strings.Join(toks, " ")
	}
	ans, err := runOracle(st.ctx, "c14", reqs)
	if err != nil {
		res.Broken = err.Error()
		return
	}
	for i, c := range cases {
		f := strings.Fields(ans[i])
		if len(f) < 7 || strings.HasPrefix(ans[i], "ERR") || strings.HasPrefix(ans[i], "EXC") {
			res.Broken = "oracle f answer " + q(ans[i]) + " for " + q(c.line)
			return
		}
		c.model.seenPrefs, c.model.specPrefs, c.model.specCondInc, c.model.specUndef = f[0] == "1", f[1] == "1", f[2] == "1", f[3] == "1"
		f = f[4:]
		c.hasModel = true
		c.model.newLine = unhx(f[0])
		fmt.Sscan(f[1], &c.model.offered)
		var n int
		fmt.Sscan(f[2], &n)
		if len(f) != 3+4*n {
			res.Broken = "oracle w answer " + q(ans[i])
			return
		}
		for k := 0; k < n; k++ {
			c.model.applied = append(c.model.applied, c14Fix{f[3+4*k], unhx(f[4+4*k]), unhx(f[5+4*k]), f[6+4*k]})
		}
		// a sample of the model's runs for the extraction cross-check: rewritten ones, include contexts preferred
		if len(st.crossF) < 60 && n > 0 && !c.spec.Hacks && !strings.Contains(c.line, "$$") && (c.spec.Inc != "" && i%37 == 0 || i%1499 == 0) {
			st.crossF = append(st.crossF, c)
		}
	}
	// 3. correspondence model = implementation
	for _, c := range cases {
		res.TracesValidated++
		// the harness' own reading of the lines before the condition against the Coq spec's (Spec/PrefsFile.v sure_after)
		if (c.v.Ctx == "undef-self") != c.model.specUndef {
			res.AddViolation(Violation{Key: "C14/correspondence/ground-truth-prefs",
				What:       fmt.Sprintf("after the lines %q the harness takes %s as touched by .undef = %v, Spec/PrefsFile.v says %v", c.before(), c.v.Name, c.v.Ctx == "undef-self", c.model.specUndef),
				FoundInput: false, Size: len(c.line), Replay: c.replayBroken(nil, "harness ground truth = Spec.PrefsFile.sure_after su_undef")})
		}
		if c.v.Ctx == "undef-self" {
			res.Count("undef_after_assignment_cases", 1)
		}
		if c.spec.realGuard() {
			res.Count("guarded_fragment_cases", 1)
			if c.newLine != c.line && !strings.Contains(c.newLine, ":U") {
				res.Count("guarded_fragment_rewritten_without_U", 1)
			}
		}
		if c.spec.Hacks {
			res.Count("hacks_mk_cases", 1)
		} else if c.prefsSure != c.model.specPrefs || c.condInc != c.model.specCondInc {
			res.AddViolation(Violation{Key: "C14/correspondence/ground-truth-prefs",
				What: fmt.Sprintf("after the lines %q the harness takes the preferences as loaded for sure = %v (conditionally = %v), Spec/PrefsFile.v says %v (%v)",
					c.before(), c.prefsSure, c.condInc, c.model.specPrefs, c.model.specCondInc),
				FoundInput: false, Size: len(c.line), Replay: c.replayBroken(nil, "harness ground truth c14PrefsSure = Spec.PrefsFile.sure_after")})
		}
		if c.spec.Inc != "" {
			res.Count("include_context_cases", 1)
			res.Count("include_"+strings.SplitN(c.spec.Inc, "|", 2)[0]+map[bool]string{true: "_loads", false: "_nearmiss"}[c14ReallyLoadsPrefs(strings.SplitN(c.spec.Inc, "|", 2)[1])], 1)
		}
		switch {
		case c.spec.Hacks:
			res.Count("seenprefs_hacks_mk_"+c14CoqBool(c.model.seenPrefs), 1)
		case c.model.seenPrefs && c.model.specPrefs:
			res.Count("seenprefs_and_really_loaded", 1)
		case c.model.seenPrefs && c.model.specCondInc:
			res.Count("seenprefs_by_conditional_include", 1)
		case c.model.seenPrefs:
			res.Count("seenprefs_but_not_loaded", 1) // the model of the code says loaded, the reference says no (a widened table)
		case c.model.specPrefs:
			res.Count("loaded_but_not_seenprefs", 1) // harmless direction: a superfluous :U
		default:
			res.Count("seenprefs_no", 1)
		}
		if strings.Contains(c.spec.Pat, "$") {
			res.Count("nested_pattern_cases", 1)
			if c.newLine == c.line {
				res.Count("nested_pattern_left_alone", 1)
			}
		}
		if c.panicked != "" {
			res.AddViolation(Violation{Key: "C14/panic", What: fmt.Sprintf("MkCondChecker.Check panics on %q: %s", c.line, c.panicked),
				FoundInput: true, Size: len(c.line), Replay: c.replay(nil)})
			continue
		}
		if c.modelAgrees() {
			for _, a := range c.model.applied {
				res.Count("rewrite_"+a.kind, 1)
				if a.kind == "yesno" && strings.Contains(a.from, ":N") {
					res.Count("rewrite_yesno_N", 1) // only for variables declared NonemptyIfDefined
				}
				if a.ast == "0" {
					res.AddViolation(Violation{Key: "C14/correspondence/text-vs-tree/" + a.kind,
						What:       fmt.Sprintf("the spec's reader does not map the model's text %q -> %q to the model's syntax trees (condition %q)", a.from, a.to, c.line),
						FoundInput: false, Size: len(c.line),
						Replay: c.replayBroken(nil, "Model/CondSimp.v rw_from_c/rw_to_c = Spec parse_cond of rw_from/rw_to")})
				}
			}
		} else {
			res.AddViolation(Violation{Key: "C14/correspondence/" + c.spec.Shape + "/" + c14PatClass(c.spec.Pat, st.num),
				What: fmt.Sprintf("model and implementation disagree on %q: implementation %q fixes %q, model %q fixes %v",
					c.line, c.newLine, c.fixes, c.model.newLine, c.model.applied),
				FoundInput: false, Size: len(c.line),
				Replay: c.replayBroken(nil, "correspondence MkCondChecker.Check (rewrites + rewritten line) = Model.CondSimp.check_line")})
		}
	}
	st.judge(cases)
}

func (c *c14Case) modelAgrees() bool {
	if !c.hasModel || c.newLine != c.model.newLine || len(c.fixes) != len(c.model.applied) {
		return false
	}
	for k, fx := range c.fixes {
		if fx[0] != c.model.applied[k].from || fx[1] != c.model.applied[k].to {
			return false
		}
	}
	return true
}

// which rewrite a from/to pair is, from its text alone (used when there is no model verdict)
func c14GuessKind(from, to string) string {
	switch {
	case strings.HasPrefix(from, "defined(") && to == "":
		return "and"
	case strings.HasSuffix(to, "}") || strings.HasSuffix(to, "} != \"\""):
		return "match"
	case strings.Contains(from, "["):
		return "yesno"
	}
	return "word"
}

// the atom a from-text talks about: bare or empty() form, :M or :N, the pattern
func c14FromShape(from string) (bare bool, positive bool, pat string) {
	f := strings.TrimPrefix(from, "!")
	bare = !strings.HasPrefix(f, "empty(")
	if len(f) > 0 {
		f = f[:len(f)-1]
	}
	im, in := strings.LastIndex(f, ":M"), strings.LastIndex(f, ":N")
	switch {
	case im < 0 && in < 0:
		return bare, true, ""
	case im > in:
		return bare, true, f[im+2:]
	}
	return bare, false, f[in+2:]
}

// the root cause a counterexample is filed under (the narrow key)
func (st *c14State) cause(c *c14Case, kind, from string, v *string, n byte) string {
	vc := c14ValClass(v, st.num)
	if v == nil && n == 'M' && c.condInc && !c.prefsSure && kind != "and" {
		// Tools.SeenPrefs is set by an include inside a conditional block, which may or may not happen
		return kind + "/undefined/conditional-include"
	}
	if v == nil && n == 'M' && c.v.Ctx == "undef-self" && kind != "and" {
		// vars.IsDefined still knows a variable that an .undef has removed
		return kind + "/undefined/undef-after-assignment"
	}
	if v == nil && n == 'M' && (c.v.Ctx == "cond-self" || c.v.Ctx == "for-self") && c.spec.Inc == "" && kind != "and" {
		// isDefined takes an assignment inside a conditional block as a guarantee
		return kind + "/undefined/conditional-assignment"
	}
	if kind == "and" {
		if c.spec.Shape == "and-wrong-occurrence" {
			return "and/wrong-occurrence"
		}
		return "and/" + vc
	}
	if c.spec.Shape == "quoted" || c.spec.Shape == "not-quoted" {
		return kind + "/quoted-term"
	}
	bare, positive, pat := c14FromShape(from)
	mn := map[bool]string{true: "M", false: "N"}[positive]
	pc := c14PatClass(pat, st.num)
	if kind == "word" || kind == "yesno" {
		switch {
		case !positive && vc == "empty":
			return kind + "/N/empty-value"
		case pc == "numeric-literal-unquoted" && (vc == "number" || strings.HasPrefix(vc, "number-zero") || vc == "empty" || vc == "undefined"):
			return kind + "/" + mn + "/unquoted-numeric-literal"
		case bare && strings.HasPrefix(vc, "number-zero"):
			return kind + "/" + mn + "/bare-zero-value"
		}
	}
	form := map[bool]string{true: "bare", false: "empty()"}[bare]
	return kind + "/" + form + "/" + mn + "-" + pc + "/" + vc
}

// the property: every single rewrite step keeps the value, for every admitted value
func (st *c14State) judge(cases []*c14Case) {
	res := st.res
	type step struct {
		c        *c14Case
		kind     string
		from, to string // the fix
		a, b     string // condition text before and after
		values   []*string
		nnames   []string  // the nested variables the condition mentions ...
		nvals    []*string // ... and their values in this evaluation
	}
	var steps []step
	var ereqs []string
	for _, c := range cases {
		if c.panicked != "" {
			continue
		}
		if c.newLine == c.line {
			res.Count(c.layer+"_unchanged", 1)
			continue
		}
		res.Count(c.layer+"_rewritten", 1)
		st.distinct[c.line] = true
		// values: the pool, plus numeric words found for patterns with mayMatchNumber = no
		var vals []*string
		if c.v.mayBeUndefined(c.prefsSure) {
			vals = append(vals, nil)
		}
		pool := c14Values
		for p := range c.mmn {
			pool = append(pool[:len(pool):len(pool)], st.extraVal[p]...)
		}
		if c.v.Ctx == "self=" {
			// SUBJECT= value right before the condition: that is the value
			pool = []string{c.v.sampleValue()}
		}
		for i := range pool {
			if c.v.admits(pool[i]) {
				vals = append(vals, &pool[i])
			}
		}
		// the chain of lines line = L0 -> L1 -> ... -> Ln = newLine, one logged fix each
		agrees := c.modelAgrees()
		var chain []step
		cur := c.line
		ok := true
		for k, fx := range c.fixes {
			if strings.Count(cur, fx[0]) < 1 {
				ok = false
				break
			}
			next := strings.Replace(cur, fx[0], fx[1], 1)
			kind := c14GuessKind(fx[0], fx[1])
			if agrees {
				kind = c.model.applied[k].kind
			}
			chain = append(chain, step{c, kind, fx[0], fx[1], cur, next, vals, nil, nil})
			cur = next
		}
		if !ok || cur != c.newLine || len(chain) == 0 {
			chain = []step{{c, "unexplained", "", "", c.line, c.newLine, vals, nil, nil}}
		}
		for _, s := range chain {
			names := c14NestedIn(s.a + " " + s.b)
			if len(names) == 0 {
				toks := []string{"e", hx(c14CondText(s.a)), hx(c14CondText(s.b)), hx(c.v.Name)}
				for _, v := range vals {
					toks = append(toks, c14ValTok(v))
				}
				steps = append(steps, s)
				ereqs = append(ereqs, strings.Join(toks, " "))
				continue
			}
			// a pattern with nested references: one evaluation per environment of the nested variables
			res.Count(c.layer+"_nested_rewritten", 1)
			for _, bind := range c14NestedBindings(names) {
				toks := []string{"E", hx(c14CondText(s.a)), hx(c14CondText(s.b)), hx(c.v.Name), fmt.Sprint(len(names))}
				for i, n := range names {
					toks = append(toks, hx(n), c14ValTok(bind[i]))
				}
				for _, v := range vals {
					toks = append(toks, c14ValTok(v))
				}
				s2 := s
				s2.nnames, s2.nvals = names, bind
				steps = append(steps, s2)
				ereqs = append(ereqs, strings.Join(toks, " "))
			}
		}
	}
	eans, err := runOracle(st.ctx, "c14", ereqs)
	if err != nil {
		res.Broken = err.Error()
		return
	}
	tr := map[byte]string{'T': "true", 'F': "false", 'M': "malformed"}
	for i, s := range steps {
		c := s.c
		pairs := strings.Fields(eans[i])
		if len(pairs) != len(s.values) {
			res.Broken = "oracle e answer " + q(eans[i])
			return
		}
		// keep some requests (nested environments preferred) for the extraction cross-check
		st.crossN++
		if len(s.values) > 0 && (len(s.nnames) > 0 && len(st.cross) < 120 && st.crossN%7 == 0 || len(s.nnames) == 0 && len(st.cross) < 160 && st.crossN%97 == 0) {
			st.cross = append(st.cross, c14Cross{c14CondText(s.a), c14CondText(s.b), c.v.Name, s.nnames, s.nvals, s.values, eans[i]})
		}
		for k, pr := range pairs {
			res.Evaluations++
			o, n := pr[0], pr[1]
			v := s.values[k]
			switch {
			case o == 'X':
				res.Count("orig_outside_fragment", 1)
				if res.Broken == "" {
					res.Broken = "generated condition is outside the evaluator's fragment: " + q(s.a)
				}
			case n == 'X':
				res.AddViolation(Violation{Key: "C14/rewritten-text-unreadable/" + s.kind,
					What:       fmt.Sprintf("%q was rewritten to %q, which the reference evaluator cannot read", s.a, s.b),
					FoundInput: false, Size: len(c.line),
					Replay: c.replayBroken(v, "the rewritten condition is outside the fragment of Spec/BmakeCond.v")})
			case o == 'M':
				res.Count("orig_malformed", 1) // nothing to preserve
			case o != n:
				res.Count("counterexamples", 1)
				vs := "undefined"
				if v != nil {
					vs = q(*v)
				}
				size := len(c.line) + len(vs)
				if c.layer == "wholerun" {
					size += 1000
				}
				what := fmt.Sprintf("%s is rewritten to %s", q(s.a), q(s.b))
				if len(c.pre) > 0 {
					what = fmt.Sprintf("after the lines %q, %s", c.pre, what)
				}
				if !c.prefsSure {
					what += " (the preferences are not loaded for sure at that line: " + map[bool]string{true: "the include that loads them may or may not happen", false: "no earlier include loads them"}[c.condInc] + ")"
				}
				if c.layer == "wholerun" {
					what = "pkglint -F: " + what
				}
				rep := c.replay(v)
				nest := ""
				if len(s.nnames) > 0 {
					res.Count("nested_counterexamples", 1)
					nm := map[string]string{}
					for i, nn := range s.nnames {
						nm[nn] = c14ValTok(s.nvals[i])
						nv := "undefined"
						if s.nvals[i] != nil {
							nv = q(*s.nvals[i])
						}
						nest += fmt.Sprintf(", %s = %s", nn, nv)
						size += len(nv)
					}
					rep["nested"] = nm
				}
				res.AddViolation(Violation{Key: "C14/" + st.cause(c, s.kind, s.from, v, n),
					What: fmt.Sprintf("%s; with %s = %s (%s)%s the original is %s, the rewritten condition is %s",
						what, c.v.Name, vs, c.v.Kind, nest, tr[o], tr[n]),
					FoundInput: true, Size: size, Replay: rep})
			default:
				res.Count("preserved_"+string(o), 1)
				if len(s.nnames) > 0 {
					res.Count("nested_preserved", 1)
				}
			}
		}
	}
}

func (c *c14Case) replay(v *string) map[string]any {
	s := c.spec
	s.Pat = hx(s.Pat)
	m := map[string]any{"kind": c.layer, "spec": s, "line": hx(c.line), "new_line": hx(c.newLine)}
	if v == nil {
		m["value"] = "U"
	} else {
		m["value"] = "V" + hx(*v)
	}
	return m
}

func (c *c14Case) replayBroken(v *string, what string) map[string]any {
	m := c.replay(v)
	m["broken"] = what
	return m
}

func c14NewCase(s c14Spec) *c14Case {
	cond, tree := s.build()
	pre, line, post := s.context(cond)
	c := &c14Case{spec: s, layer: "unit", line: line, pre: pre, post: post, tree: tree, v: s.variable()}
	if s.realGuard() {
		c.v.Ctx = "really-guarded" // assigned for sure: the guard's condition holds whenever the file is read
	}
	c.prefsSure, c.condInc = c14PrefsSure(c.before())
	if s.Hacks {
		// mk/bsd.hacks.mk, which reads the package's hacks.mk, is included by bsd.pkg.mk after bsd.prefs.mk
		c.prefsSure = true
	}
	return c
}

// findGuardLine: the .if !defined(X) is the file's multiple-inclusion guard iff it is the only statement of the file
func (s c14Spec) realGuard() bool {
	return s.Ctx == "guarded" && !s.Prefs && s.Inc == ""
}

// the lines of the generated fragment before the condition (after the CVS id line)
func (c *c14Case) before() []string {
	first := ""
	if c.spec.Prefs {
		first = ".include \"../../mk/bsd.prefs.mk\""
	}
	return append([]string{first}, c.pre...)
}

var c14ReDirective = regexp.MustCompile(`^\.[ \t]*(?:el)?if[ \t]+`)

// the condition of a directive line
func c14CondText(line string) string { return c14ReDirective.ReplaceAllString(line, "") }

// ---------- generators ----------

var c14Combos = []struct {
	def   string
	prefs bool
}{{"D", true}, {"P", true}, {"P", false}, {"U", true}, {"L", true}, {"F", true}, {"N", true}} // F = U + "SUBJECT= value" before the condition; N = D + NonemptyIfDefined

func c14Exhaustive(thorough bool) []c14Spec {
	var out []c14Spec
	seen := map[c14Spec]bool{}
	add := func(s c14Spec) {
		if s.Tag == "NT" {
			s.Def = "U"
		}
		if s.Def == "F" {
			s.Def, s.Ctx = "U", "self="
		}
		if !seen[s] {
			seen[s] = true
			out = append(out, s)
		}
	}
	forms := []string{"bare", "not-bare", "empty", "not-empty"}
	prefixes := []string{"", "tl", "U"}
	// every kind x every definedness combination x core patterns
	for _, k := range c14Kinds {
		for _, cb := range c14Combos {
			for _, p := range c14CorePatterns {
				for _, pos := range []bool{true, false} {
					for _, pre := range prefixes {
						for _, f := range forms {
							add(c14Spec{"plain", f, p, pos, pre, k.tag, cb.def, cb.prefs, 0, "", "", "", false})
						}
					}
				}
			}
		}
	}
	// every kind x {always defined, possibly undefined} x every pattern
	for _, k := range c14Kinds {
		for _, def := range []string{"D", "U"} {
			for _, p := range c14Patterns {
				for _, pos := range []bool{true, false} {
					for _, pre := range prefixes {
						if !thorough && pre == "U" && def == "D" && k.tag != "EA" && k.tag != "ID" {
							continue
						}
						for _, f := range forms {
							add(c14Spec{"plain", f, p, pos, pre, k.tag, def, true, 0, "", "", "", false})
						}
					}
				}
			}
		}
	}
	// no modifier at all
	for _, k := range c14Kinds {
		for _, def := range []string{"D", "U"} {
			for _, f := range forms {
				add(c14Spec{"plain", f, "", true, "-", k.tag, def, true, 0, "", "", "", false})
				add(c14Spec{"defined-and", f, "", true, "-", k.tag, def, true, 0, "", "", "", false})
			}
		}
	}
	// compound shapes
	shapes := []string{"defined-and", "defined-other-and", "quoted", "not-quoted", "double-not", "paren", "not-paren",
		"or-two", "and-two", "same-twice", "and-three", "defined-mid-and", "and-wrong-occurrence"}
	for _, sh := range shapes {
		for _, tag := range []string{"EA", "ID", "YN", "LI", "UK"} {
			for _, def := range []string{"D", "U"} {
				for _, p := range []string{"alpha", "0", "al*", "[0-9]*", "[yY][eE][sS]", "", "${C14LV}*", "${C14LV}"} {
					for _, pos := range []bool{true, false} {
						for _, f := range forms {
							add(c14Spec{sh, f, p, pos, "", tag, def, true, 0, "", "", "", false})
							if sh == "defined-and" {
								// a default value in :U makes the expression non-empty although the variable is undefined
								add(c14Spec{sh, f, p, pos, "Ualpha", tag, def, true, 0, "", "", "", false})
							}
						}
					}
				}
			}
		}
	}
	// what feeds isDefined: the lines before the condition x plain / parameterised subject
	// x declaration x bsd.prefs.mk included or not
	for _, tag := range []string{"EA", "YN", "ID", "VR", "LI", "UK", "NT"} {
		for _, cb := range []struct {
			def   string
			prefs bool
		}{{"U", true}, {"P", true}, {"P", false}, {"D", true}, {"N", true}, {"U", false}} {
			if (cb.def == "D" || cb.def == "N") && tag != "YN" && tag != "EA" {
				continue
			}
			for _, param := range []string{"", "foo"} {
				for _, cx := range c14Contexts {
					for _, p := range []string{"alpha", "[nN][oO]", "al*", "0", "[0-9]*"} {
						for _, pos := range []bool{true, false} {
							for _, f := range forms {
								add(c14Spec{"plain", f, p, pos, "", tag, cb.def, cb.prefs, 0, param, cx, "", false})
							}
						}
					}
				}
			}
		}
	}
	// what feeds Tools.SeenPrefs: an .include of every file name LoadsPrefs knows and of near misses,
	// before the condition / before it inside a conditional block / after it
	for _, inc := range c14IncludeContexts() {
		_, path, _ := strings.Cut(inc, "|")
		few := path == "../../mk/bsd.prefs.mk" || path == "../../devel/libfoo/buildlink3.mk" || path == "options.mk" || path == "../../devel/libfoo/Makefile.common"
		for _, tag := range []string{"EA", "YN", "ID"} {
			for _, def := range []string{"P", "U", "D"} {
				if def != "P" && !few {
					continue
				}
				for _, p := range []string{"alpha", "[nN][oO]", "al*"} {
					for _, pos := range []bool{true, false} {
						if !pos && p != "alpha" {
							continue
						}
						for _, f := range forms {
							add(c14Spec{Shape: "plain", Form: f, Pat: p, Positive: pos, Tag: tag, Def: def, Inc: inc})
						}
					}
				}
			}
		}
		// together with the other things that feed isDefined
		if few {
			for _, cx := range []string{"self=", "sibling", "nested", "cond-self"} {
				for _, f := range forms {
					add(c14Spec{Shape: "plain", Form: f, Pat: "alpha", Positive: true, Tag: "EA", Def: "P", Param: "foo", Ctx: cx, Inc: inc})
					add(c14Spec{Shape: "defined-and", Form: f, Pat: "alpha", Positive: true, Tag: "YN", Def: "P", Ctx: cx, Inc: inc})
				}
			}
		}
	}
	// a hacks.mk: SeenPrefs from the first line on, with and without includes
	for _, inc := range []string{"", "before|../../devel/libfoo/buildlink3.mk", "after|../../mk/bsd.prefs.mk"} {
		for _, tag := range []string{"EA", "YN", "ID"} {
			for _, def := range []string{"P", "U", "D", "L"} {
				for _, p := range []string{"alpha", "[nN][oO]", "al*"} {
					for _, f := range forms {
						add(c14Spec{Shape: "plain", Form: f, Pat: p, Positive: true, Tag: tag, Def: def, Inc: inc, Hacks: true})
					}
				}
			}
		}
	}
	// ... and under the compound shapes that mention defined()
	for _, sh := range []string{"defined-and", "paren", "double-not"} {
		for _, tag := range []string{"EA", "YN"} {
			for _, cx := range c14Contexts {
				for _, p := range []string{"alpha", "[nN][oO]", "al*"} {
					for _, f := range forms {
						add(c14Spec{sh, f, p, true, "", tag, "U", true, 0, "foo", cx, "", false})
					}
				}
			}
		}
	}
	return out
}

// the included files: every basename LoadsPrefs knows (in its usual place and elsewhere), files below mk/,
// and near misses (fragments of package directories, names that only resemble a prefs file)
var c14IncludePaths = []string{
	"../../mk/bsd.prefs.mk", "../../mk/bsd.fast.prefs.mk", "../../mk/buildlink3/bsd.builtin.mk", "../../mk/buildlink3/pkgconfig-builtin.mk",
	"../../mk/pkg-build-options.mk", "../../mk/compiler.mk", "../../mk/bsd.options.mk", "options.mk", "../../devel/libfoo/options.mk",
	"bsd.prefs.mk", "../../devel/libfoo/compiler.mk", "../../mk/fetch/sites.mk", "../../wip/mk/git-package.mk", "../../devel/mk/buildlink3.mk",
	// near misses
	"../../devel/libfoo/buildlink3.mk", "../../devel/libfoo/builtin.mk", "../../devel/libfoo/Makefile.common", "Makefile.common",
	"../../devel/libfoo/version.mk", "../../lang/python/pyversion.mk", "../../devel/cmake/build.mk", "../../devel/libfoo/my-options.mk",
	"../../devel/libfoo/options.mk.in", "../../devel/libfoo/xbsd.prefs.mk", "../../devel/libfoo/bsd.prefs.mk.orig", "../../devel/libfoo/prefs.mk",
	"../../devel/mkfoo/hacks.mk", "../../devel/libfoo/mk.conf", "hacks.mk", "../../x11/modular-xorg-server/buildlink3.mk",
}

func c14IncludeContexts() []string {
	var out []string
	for _, where := range []string{"before", "cond", "after"} {
		for _, p := range c14IncludePaths {
			out = append(out, where+"|"+p)
		}
	}
	for _, p := range []string{"../../mk/bsd.prefs.mk", "../../devel/libfoo/buildlink3.mk", "options.mk", "../../devel/libfoo/Makefile.common"} {
		out = append(out, "for|"+p)
	}
	return out
}

func c14Random(rng *Rng, n int) []c14Spec {
	// random patterns from pieces, so that literal / numeric / glob / class boundaries are crossed
	pieces := []string{"a", "b", "Z", "0", "1", "9", ".", "e", "x", "-", "+", "*", "?", "[0-9]", "[a-z]", "[yY]", "[Ee]", "[sS]", "[nN]", "[oO]", ",", "/", "_", "<", "@", "${C14LV}", "${C14LW}"}
	shapes := []string{"plain", "plain", "plain", "plain", "defined-and", "quoted", "double-not", "paren", "or-two", "and-two"}
	var out []c14Spec
	for i := 0; i < n; i++ {
		var sb strings.Builder
		for k := 1 + rng.Intn(4); k > 0; k-- {
			sb.WriteString(Pick(rng, pieces))
		}
		cb := Pick(rng, c14Combos)
		k := Pick(rng, c14Kinds)
		s := c14Spec{Pick(rng, shapes), Pick(rng, []string{"bare", "not-bare", "empty", "not-empty"}), sb.String(), !rng.Chance(25),
			Pick(rng, []string{"", "", "tl", "U"}), k.tag, cb.def, cb.prefs, 0,
			Pick(rng, []string{"", "", "foo", "x11"}), Pick(rng, append([]string{"", "", ""}, c14Contexts...)), "", false}
		if s.Def == "F" {
			s.Def, s.Ctx = "U", "self="
		}
		if s.Tag == "NT" {
			s.Def = "U"
		}
		if rng.Chance(30) {
			s.Prefs = false
			s.Inc = Pick(rng, c14IncludeContexts())
		}
		if s.Shape == "quoted" && strings.ContainsAny(s.Pat, "<=>") {
			// the replacement lands inside the quotes (known finding C14/*/quoted-term); with an
			// operator byte in the literal the resulting line is a syntax error of a kind the
			// reference reader does not classify, so these patterns keep the plain shape
			s.Shape = "plain"
		}
		out = append(out, s)
	}
	return out
}

// all short words over the bytes numbers are made of
func c14NumericCorpus() []string {
	alpha := []string{"0", "1", ".", "e", "x", "-", "+", "p", "a"}
	out := []string{}
	prev := []string{""}
	for n := 1; n <= 5; n++ {
		var next []string
		for _, p := range prev {
			for _, a := range alpha {
				if n >= 4 && (a == "a" || a == "+") {
					continue
				}
				next = append(next, p+a)
			}
		}
		out = append(out, next...)
		prev = next
	}
	return out
}

// (c) mayMatchNumber(pattern) = false  =>  no numeric word matches the pattern
func (st *c14State) checkMayMatchNumber(patterns []string) {
	corpus := c14NumericCorpus()
	hexCorpus := make([]string, len(corpus))
	for i, w := range corpus {
		hexCorpus[i] = hx(w)
	}
	tail := strings.Join(hexCorpus, " ")
	var reqs []string
	var asked []string
	for _, p := range patterns {
		if p == "" || st.mmn(p) != "1" {
			continue
		}
		asked = append(asked, p)
		reqs = append(reqs, "z "+hx(p)+" "+tail)
	}
	ans, err := runOracle(st.ctx, "c14", reqs)
	if err != nil {
		st.res.Broken = err.Error()
		return
	}
	for i, a := range ans {
		var n, z int
		if k, _ := fmt.Sscan(a, &n, &z); k != 2 {
			st.res.Broken = "oracle z answer " + q(a)
			return
		}
		st.res.Count("maymatchnumber_no_checked", 1)
		if n >= 0 {
			st.res.Count("maymatchnumber_no_but_number_matches", 1)
			st.extraVal[asked[i]] = append(st.extraVal[asked[i]], corpus[n])
			if z >= 0 && z != n {
				st.extraVal[asked[i]] = append(st.extraVal[asked[i]], corpus[z])
			}
		}
	}
}

// ---------- extraction cross-check ----------

func c14CoqOpt(v *string) string {
	if v == nil {
		return "None"
	}
	return "(Some " + c09CoqStr(*v) + ")"
}

func (n *c14Node) coq() string {
	kids := func() string {
		parts := make([]string, len(n.Kids))
		for i, k := range n.Kids {
			parts[i] = k.coq()
		}
		return "[" + strings.Join(parts, "; ") + "]"
	}
	mods := func() string {
		parts := make([]string, len(n.Mods))
		for i, m := range n.Mods {
			parts[i] = c09CoqStr(m)
		}
		return "[" + strings.Join(parts, "; ") + "]"
	}
	switch n.K {
	case 'O':
		return "(MOr " + kids() + ")"
	case 'A':
		return "(MAnd " + kids() + ")"
	case 'N':
		return "(MNot " + n.Kids[0].coq() + ")"
	case 'P':
		return "(MParen " + n.Kids[0].coq() + ")"
	case 'D':
		return "(MDefined " + c09CoqStr(n.Var) + ")"
	case 'E':
		return "(MEmpty " + c09CoqStr(n.Var) + " " + mods() + ")"
	case 'T', 'Q':
		return "(MTerm " + c09CoqStr(n.Var) + " " + mods() + ")"
	}
	return "MOther"
}

func c14CoqFline(tok string) string {
	switch {
	case tok == "C":
		return "FClose"
	case tok == "X":
		return "FOther"
	case tok == "O0":
		return "FOpen false"
	case tok == "O1":
		return "FOpen true"
	case tok[0] == 'I':
		return "FInclude " + c09CoqStr(unhx(tok[1:]))
	case tok[0] == 'U':
		return "FUndef " + c09CoqStr(unhx(tok[1:]))
	}
	return "FAssign " + c09CoqStr(unhx(tok[1:]))
}

func c14CoqBool(b bool) string {
	if b {
		return "true"
	}
	return "false"
}

// the model's own run (check_file_line = scan + file_ctx + check_line: walk, the three simplifiers, checkAnd,
// Autofix.Replace) and the spec's reading of the lines, as Coq examples against the extracted oracle's answers
func (st *c14State) crossFileCases(sb *strings.Builder) int {
	n := 0
	for i, c := range st.crossF {
		var fl []string
		for _, l := range c.before() {
			fl = append(fl, c14CoqFline(c.fline(l)))
		}
		fg := c.v.flags()
		var vi []string
		for k := 0; k < 8; k++ {
			vi = append(vi, c14CoqBool(fg[k] == '1'))
		}
		mm := "MmnErr"
		for _, p := range sortedKeys(c.mmn) {
			mm = fmt.Sprintf("if str_eqb p %s then %s else %s", c09CoqStr(p), map[string]string{"0": "MmnErr", "1": "MmnNo", "2": "MmnYes"}[c.mmn[p]], mm)
		}
		var fixes []string
		for _, a := range c.model.applied {
			fixes = append(fixes, "("+map[string]string{"word": "KWord", "yesno": "KYesNo", "match": "KMatch", "and": "KAnd"}[a.kind]+", "+c09CoqStr(a.from)+", "+c09CoqStr(a.to)+")")
		}
		fmt.Fprintf(sb, "Definition f_pre_%d : list fline := [%s].\n", i, strings.Join(fl, "; "))
		fmt.Fprintf(sb, "Definition f_decl_%d : str -> varinfo := fun n => if str_eqb n %s then mkvarinfo %s else mkvarinfo false false false false false false false false.\n",
			i, c09CoqStr(c.v.Name), strings.Join(vi, " "))
		fmt.Fprintf(sb, "Definition f_mmn_%d : str -> mmn := fun p => %s.\n", i, mm)
		fmt.Fprintf(sb, "Definition f_line_%d : str := %s.\nDefinition f_tree_%d : mkcond := %s.\n", i, c09CoqStr(c.line), i, c.tree.coq())
		fmt.Fprintf(sb, "Example fcase_%d : (fs_seen_prefs (scan (init_state false) f_pre_%d), su_prefs (sure_after f_pre_%d), conditional_prefs_include (mksure false [] [] []) f_pre_%d,\n"+
			"  let (nl, applied) := check_file_line f_decl_%d f_mmn_%d false f_pre_%d f_line_%d f_tree_%d in (nl, map (fun rw => (rw_kind rw, rw_from rw, rw_to rw)) applied))\n"+
			"  = (%s, %s, %s, (%s, [%s])).\nProof. vm_compute. reflexivity. Qed.\n",
			i, i, i, i, i, i, i, i, i, c14CoqBool(c.model.seenPrefs), c14CoqBool(c.model.specPrefs), c14CoqBool(c.model.specCondInc), c09CoqStr(c.model.newLine), strings.Join(fixes, "; "))
		n++
	}
	for _, l := range st.crossL {
		sb.WriteString(l)
		n++
	}
	return n
}

// c14CrossCheckExtraction re-evaluates up to 160 of the oracle's evaluation requests
// (the spec's reader and evaluator incl. expand_pat / env_of, as extracted to OCaml)
// and a fixed set of pattern expansions with coqc's vm_compute on the Gallina definitions.
func (st *c14State) c14CrossCheckExtraction() {
	ctx, res := st.ctx, st.res
	tri := map[byte]string{'T': "Some TTrue", 'F': "Some TFalse", 'M': "Some TMalformed", 'X': "None"}
	var sb strings.Builder
	sb.WriteString("From PV Require Import Lib.Bytes Spec.BmakeCond Spec.PrefsFile Model.CondSimp Model.CondFile.\nOpen Scope N_scope.\n")
	n := st.crossFileCases(&sb)
	res.Count("vm_compute_cross_checked_model_runs", len(st.crossF))
	for i, c := range st.cross {
		pairs := strings.Fields(c.answer)
		if len(pairs) != len(c.values) {
			continue
		}
		var nested, vals, want []string
		for k, nn := range c.nnames {
			nested = append(nested, "("+c09CoqStr(nn)+", "+c14CoqOpt(c.nvals[k])+")")
		}
		for k, v := range c.values {
			if k >= 12 {
				break
			}
			vals = append(vals, c14CoqOpt(v))
			want = append(want, "("+tri[pairs[k][0]]+", "+tri[pairs[k][1]]+")")
		}
		fmt.Fprintf(&sb, "Definition a_%d : str := %s.\nDefinition b_%d : str := %s.\n", i, c09CoqStr(c.a), i, c09CoqStr(c.b))
		fmt.Fprintf(&sb, "Example case_%d : map (fun v => let bs := (%s, v) :: [%s] in (eval_text_env a_%d bs, eval_text_env b_%d bs)) [%s] = [%s].\nProof. vm_compute. reflexivity. Qed.\n",
			i, c09CoqStr(c.name), strings.Join(nested, "; "), i, i, strings.Join(vals, "; "), strings.Join(want, "; "))
		n++
	}
	// pattern expansion on its own
	pats := []string{"${C14LV}*", "[${C14LV}]", "al${C14LV}", "${C14LV}.${C14LW}", "al*", "", "$$", "${C14LV:tl}", "${C14LV", "$", "a${}b"}
	var reqs []string
	type xc struct {
		pat  string
		bind []*string
	}
	var xcs []xc
	for _, p := range pats {
		for k, b := range c14NestedBindings(c14NestedVars) {
			if k%5 != 0 {
				continue
			}
			xcs = append(xcs, xc{p, b})
			reqs = append(reqs, fmt.Sprintf("x %s 2 %s %s %s %s", hx(p), hx(c14NestedVars[0]), c14ValTok(b[0]), hx(c14NestedVars[1]), c14ValTok(b[1])))
		}
	}
	ans, err := runOracle(ctx, "c14", reqs)
	if err != nil {
		res.Broken = err.Error()
		return
	}
	for i, x := range xcs {
		want := "None"
		if strings.HasPrefix(ans[i], "S") {
			want = "Some " + c09CoqStr(unhx(ans[i][1:]))
		} else if ans[i] != "N" {
			res.Broken = "oracle x answer " + q(ans[i])
			return
		}
		fmt.Fprintf(&sb, "Example xcase_%d : expand_pat (env_of [(%s, %s); (%s, %s)]) %s = %s.\nProof. vm_compute. reflexivity. Qed.\n",
			i, c09CoqStr(c14NestedVars[0]), c14CoqOpt(x.bind[0]), c09CoqStr(c14NestedVars[1]), c14CoqOpt(x.bind[1]), c09CoqStr(x.pat), want)
		n++
	}
	file := filepath.Join(ctx.Work, "c14cases.v")
	if err := os.WriteFile(file, []byte(sb.String()), 0o644); err != nil {
		res.Broken = err.Error()
		return
	}
	cmd := exec.Command("timeout", "900", "coqc", "-Q", filepath.Join(ctx.Verif, "coq"), "PV", file)
	cmd.Dir = ctx.Work
	out, err := cmd.CombinedOutput()
	if err != nil {
		msg := string(out)
		if len(msg) > 600 {
			msg = msg[:600]
		}
		res.AddViolation(Violation{Key: "C14/extraction-vs-vm_compute",
			What:       "the extracted oracle and coqc's vm_compute disagree on the specification's evaluator (or coqc failed): " + msg,
			FoundInput: false, Replay: map[string]any{"broken": "extraction cross-check", "detail": msg}})
		return
	}
	res.Count("vm_compute_cross_checked", n)
}

// ---------- whole-run layer ----------

func c14WriteFile(path, content string) error {
	if err := os.MkdirAll(filepath.Dir(path), 0o755); err != nil {
		return err
	}
	return os.WriteFile(path, []byte(content), 0o644)
}

// the minimal pkgsrc tree of DESIGN.md appendix A, with one extra makefile fragment
func c14WriteTree(root string, fragment string) error {
	id := "# $" + "NetBSD$\n"
	files := map[string]string{
		"mk/bsd.pkg.mk": id, "mk/bsd.prefs.mk": id, "mk/bsd.fast.prefs.mk": id, "mk/fetch/sites.mk": id,
		"mk/fetch/fetch.mk": id, "mk/defaults/mk.conf": id, "mk/tools/defaults.mk": id,
		"mk/platform/NetBSD.mk": id, "mk/platform/Linux.mk": id,
		"mk/tools/bsd.tools.mk":           ".include \"defaults.mk\"\n",
		"mk/misc/category.mk":             "",
		"mk/defaults/options.description": "example-option   Description\n",
		"mk/compiler.mk": "_CXX_STD_VERSIONS=\tc++ c++14\n.if ${USE_LANGUAGES:Mada} || ${USE_LANGUAGES:Mc} || ${USE_LANGUAGES:Mc99}\n.endif\n" +
			"_COMPILERS=\tgcc clang\n_PSEUDO_COMPILERS=\tccache\n",
		"mk/compiler/gcc.mk":              id + ".if ${_PKGSRC_USE_FORTIFY:Mweak}\n.endif\n",
		"mk/java-vm.mk":                   id + "_PKG_JVMS.8=\topenjdk8 oracle-jdk8\n",
		"mk/mysql.buildlink3.mk":          "MYSQL_VERSIONS_ACCEPTED=\t57 56\n",
		"mk/pgsql.buildlink3.mk":          "PGSQL_VERSIONS_ACCEPTED=\t10 96\nPGSQL_TYPE?=\tpostgresql11-client\n",
		"editors/emacs/modules.mk":        "_EMACS_VERSIONS_ALL=\temacs25 emacs21\n",
		"doc/CHANGES-2018":                "$" + "NetBSD$\n",
		"doc/TODO":                        "$" + "NetBSD$\n",
		"licenses/2-clause-bsd":           "The 2-clause BSD license\n",
		"licenses/gnu-gpl-v2":             "The GNU GPL 2\n",
		"lang/lua54/Makefile":             id,
		"lang/nodejs20/Makefile":          id,
		"lang/php82/Makefile":             id,
		"lang/python312/Makefile":         id,
		"lang/ruby32/Makefile":            id,
		"emulators/suse131_base/Makefile": id,
		"cat/Makefile":                    id + "\nCOMMENT=\tComment for the category\n\nSUBDIR+=\tpkg\n\n.include \"../mk/misc/category.mk\"\n",
		"cat/pkg/Makefile": id + "\nDISTNAME=\tpkg-1.0\nCATEGORIES=\tcat\nMASTER_SITES=\t# none\n\n" +
			"MAINTAINER=\tpkgsrc-users@NetBSD.org\nHOMEPAGE=\t# none\nCOMMENT=\tDummy package\nLICENSE=\t2-clause-bsd\n\n" +
			".include \"../../mk/bsd.pkg.mk\"\n",
		"cat/pkg/DESCR":      "Package description\n",
		"cat/pkg/PLIST":      "@comment $" + "NetBSD$\nbin/program\n",
		"cat/pkg/distinfo":   "$" + "NetBSD$\n\nBLAKE2s (distfile-1.0.tar.gz) = 12341234\nSHA512 (distfile-1.0.tar.gz) = 12341234\nSize (distfile-1.0.tar.gz) = 12341234\n",
		"cat/pkg/c14cond.mk": fragment,
	}
	for name, content := range files {
		if err := c14WriteFile(filepath.Join(root, name), content); err != nil {
			return err
		}
	}
	return nil
}

// variables with a declared type in pkglint's own table (vardefs.go), the words
// this check takes as admitted (a subset of what the declared type accepts), and
// whether the variable can be undefined after bsd.prefs.mk.  Variables that
// vardefs.go declares DefinedIfInScope are taken as defined (the declaration is
// the ground truth here, not pkglint's use of it).
var c14RealVars = []struct {
	name, kind string
	list       bool
	undef      bool
	param      bool // declared as NAME.*: the subject is NAME.<param>
	nonempty   bool // declared NonemptyIfDefined
}{
	{"OPSYS", "enum:Linux NetBSD", false, false, false, true},                       // sysloadbl3, enum from mk/platform/*.mk, DefinedIfInScope
	{"MACHINE_ARCH", "enum:i386 x86_64 aarch64 sparc64", false, false, false, true}, // AlwaysInScope|DefinedIfInScope
	{"X11_TYPE", "enum:modular native", false, false, false, true},                  // DefinedIfInScope
	{"OS_VERSION", "version", false, true, false, false},                            // sysloadbl3 BtVersion, not DefinedIfInScope
	{"LOWER_OPSYS", "ident", false, true, false, false},                             // BtIdentifierDirect
	{"PKG_OPTIONS", "option", true, false, false, true},                             // list of BtOption, DefinedIfInScope
	{"PKG_DEVELOPER", "yesno", false, true, false, false},                           // usr BtYesNo
	{"ABI", "enum:32 64", false, true, false, false},                                // usr enum
	{"MAKE_JOBS", "integer", false, true, false, false},                             // usr BtInteger
	{"USE_LANGUAGES", "enum:ada c c99 c++ c++14", true, true, false, false},         // pkglist, enum from mk/compiler.mk
	{"CHECK_BUILTIN", "yesno", false, true, true, false},                            // CHECK_BUILTIN.*: BtYesNo, PackageSettable, "*: use-loadtime"
	{"USE_BUILTIN", "yesno", false, false, true, true},                              // USE_BUILTIN.*: BtYesNoIndirectly, DefinedIfInScope|NonemptyIfDefined
	{"BUILDLINK_PREFIX", "ident", false, true, true, false},                         // BUILDLINK_PREFIX.*: BtPathname, use only
	{"PKG_OPTIONS", "option", true, true, true, false},                              // PKG_OPTIONS.*: usrlist BtOption
}

var c14ReAutofix = regexp.MustCompile(`^AUTOFIX: [^:]+:(\d+): Replacing (".*") with (".*")\.$`)

func (st *c14State) wholeRunCases(cases []*c14Case, tag string) {
	res := st.res
	ctx := st.ctx
	root := filepath.Join(ctx.Work, "c14tree"+tag)
	var sb strings.Builder
	sb.WriteString("# $" + "NetBSD$\n\n.include \"../../mk/bsd.prefs.mk\"\n\n")
	lineOf := map[int]*c14Case{}
	lineno := 4
	for _, c := range cases {
		for _, l := range c.pre {
			sb.WriteString(l + "\n")
			lineno++
		}
		sb.WriteString(c.line + "\n")
		lineno++
		lineOf[lineno] = c
		for _, l := range c.post {
			sb.WriteString(l + "\n")
			lineno++
		}
	}
	if err := c14WriteTree(root, sb.String()); err != nil {
		res.Broken = "whole-run: " + err.Error()
		return
	}
	defer os.RemoveAll(root)
	target := filepath.Join(root, "cat/pkg/c14cond.mk")
	cmd := exec.Command(ctx.Pkglint, "-Wall", "-F", "c14cond.mk")
	cmd.Dir = filepath.Join(root, "cat/pkg")
	outb, _ := cmd.CombinedOutput()
	after, err := os.ReadFile(target)
	if err != nil {
		st.implBroke("whole-run: the rewritten file cannot be read back: " + err.Error())
		return
	}
	if strings.Contains(string(outb), "FATAL") || strings.Contains(string(outb), "panic: ") || strings.Contains(string(outb), "goroutine ") {
		st.implBroke("whole-run: pkglint failed on the generated tree: " + string(outb))
		return
	}
	alines := strings.Split(string(after), "\n")
	for ln, c := range lineOf {
		if ln-1 >= len(alines) || !c14ReDirective.MatchString(alines[ln-1]) {
			st.implBroke(fmt.Sprintf("whole-run: line %d of the rewritten file is not an .if line", ln))
			return
		}
		c.newLine = alines[ln-1]
	}
	for _, l := range strings.Split(string(outb), "\n") {
		m := c14ReAutofix.FindStringSubmatch(l)
		if m == nil {
			continue
		}
		var ln int
		fmt.Sscan(m[1], &ln)
		c := lineOf[ln]
		if c == nil {
			continue
		}
		// "from" with "to": both %q; split at the first `" with "` that leaves two valid quoted strings
		from, err1 := strconv.Unquote(m[2])
		to, err2 := strconv.Unquote(m[3])
		if err1 != nil || err2 != nil {
			both := m[2] + " with " + m[3]
			for i := 0; i+8 <= len(both); i++ {
				if both[i:i+8] == "\" with \"" {
					f, e1 := strconv.Unquote(both[:i+1])
					t, e2 := strconv.Unquote(both[i+7:])
					if e1 == nil && e2 == nil {
						from, to, err1, err2 = f, t, nil, nil
						break
					}
				}
			}
		}
		if err1 == nil && err2 == nil {
			c.fixes = append(c.fixes, [2]string{from, to})
		}
	}
	for _, c := range cases {
		res.Count("wholerun_conditions", 1)
		c.mmn = map[string]string{}
	}
	st.judge(cases)
}

func c14WholeRunSpecs(rng *Rng, n int) []c14Spec {
	forms := []string{"bare", "not-bare", "empty", "not-empty"}
	pats := []string{"alpha", "NetBSD", "native", "64", "0", "10", "1e1", "-1", "0x10", "al*", "Net*", "[0-9]*", "[yY][eE][sS]", "[nN][oO]", "*.c", "c++", "c99",
		"${C14LV}*", "${C14LV}", "[${C14LV}]", "${C14LV}.${C14LW}"}
	shapes := []string{"plain", "plain", "plain", "plain", "plain", "defined-and", "paren", "double-not", "quoted"}
	var out []c14Spec
	for i := 0; i < n; i++ {
		s := c14Spec{Shape: Pick(rng, shapes), Form: Pick(rng, forms), Pat: Pick(rng, pats), Positive: !rng.Chance(25),
			Prefix: Pick(rng, []string{"", "", "tl", "U"}), Prefs: true, Real: 1 + rng.Intn(len(c14RealVars))}
		if rng.Chance(40) {
			s.Real = len(c14RealVars) - rng.Intn(4) // the parameterised families
		}
		if c14RealVars[s.Real-1].param {
			// a parameter of its own per condition: what one condition's context assigns
			// must not define the subject of another one further down in the same file
			s.Param = fmt.Sprintf("p%d", i)
			s.Ctx = Pick(rng, c14Contexts)
		} else {
			s.Ctx = Pick(rng, []string{"", "", "unrelated", "nested"})
		}
		out = append(out, s)
	}
	return out
}

func (st *c14State) wholeRun(rng *Rng, nfiles, perFile int) {
	for fi := 0; fi < nfiles && st.res.Broken == ""; fi++ {
		specs := c14WholeRunSpecs(rng, perFile)
		cases := make([]*c14Case, len(specs))
		for i, s := range specs {
			cases[i] = c14NewCase(s)
			cases[i].layer = "wholerun"
		}
		st.wholeRunCases(cases, fmt.Sprint(fi))
	}
}

// a failure of the whole-run machinery that the implementation under test caused (the binary died, the rewritten file
// lost a line): a broken correspondence, reported as a violation without a failing input -- never res.Broken (exit 2)
func (st *c14State) implBroke(what string) {
	if len(what) > 1500 {
		what = what[:1500]
	}
	st.res.AddViolation(Violation{Key: "C14/wholerun/pkglint-failed", What: what, FoundInput: false,
		Replay: map[string]any{"broken": "whole run of the real binary on the generated tree", "detail": what}})
}

// ---------- LoadsPrefs: real code = model (Model/CondFile.v loads_prefs), model within the reference (Spec/PrefsFile.v) ----------

// every relative path of <= 6 bytes over { / . m k a } (what Base and ContainsPath("mk") can tell apart), the include
// pool, and every table/near-miss basename under a few directory shapes
func c14LoadsPrefsPaths() []string {
	var out []string
	alpha := "/.mka"
	var rec func(prefix string, n int)
	rec = func(prefix string, n int) {
		if prefix != "" {
			out = append(out, prefix)
		}
		if n == 0 {
			return
		}
		for i := 0; i < len(alpha); i++ {
			if prefix == "" && alpha[i] == '/' {
				continue // MatchMkInclude refuses absolute paths (NewRelPath asserts)
			}
			rec(prefix+string(alpha[i]), n-1)
		}
	}
	rec("", 6)
	out = append(out, c14IncludePaths...)
	names := []string{"buildlink3.mk", "builtin.mk", "Makefile.common", "Makefile", "version.mk", "hacks.mk", "mk", "mk.mk", "prefs.mk", "bsd.mk", "bsd.pkg.mk",
		"options.mk.in", "my-options.mk", "xoptions.mk", "compiler.mk.orig", "bsd.prefs.mk~", "Bsd.Prefs.Mk", "bsd.prefs.mk ", "bsd-prefs.mk", "pkg-build-options", "builtin-pkgconfig.mk"}
	for n := range c14PrefsFiles {
		names = append(names, n)
	}
	sort.Strings(names)
	for _, n := range names {
		for _, d := range []string{"", "../../mk/", "../../devel/libfoo/", "./", "../", "../../mk/buildlink3/", "mk/", "../../devel/cmake/", "../../devel/mk/", "../../devel/libfoo//", "../../devel/mkx/", "../../devel/xmk/", "../../devel/.mk/", "../../devel/mk./"} {
			out = append(out, d+n, d+n+"/", d+n+"/.")
		}
	}
	return out
}

func (st *c14State) checkLoadsPrefs() {
	res := st.res
	paths := c14LoadsPrefsPaths()
	reqs := make([]string, len(paths))
	for i, p := range paths {
		reqs[i] = "l " + hx(p)
	}
	ans, err := runOracle(st.ctx, "c14", reqs)
	if err != nil {
		res.Broken = err.Error()
		return
	}
	for i, p := range paths {
		f := strings.Fields(ans[i])
		if len(f) != 3 {
			res.Broken = "oracle l answer " + q(ans[i])
			return
		}
		model, spec, mbase := f[0] == "1", f[1] == "1", unhx(f[2])
		impl, ibase, panicked := pkglint.VerifLoadsPrefs14(p)
		res.TracesValidated++
		rep := map[string]any{"kind": "loadsprefs", "path": hx(p)}
		switch {
		case panicked != "":
			rep["broken"] = "LoadsPrefs panics"
			res.AddViolation(Violation{Key: "C14/correspondence/loads-prefs/panic", What: fmt.Sprintf("LoadsPrefs(%q) panics: %s", p, panicked), FoundInput: false, Size: len(p), Replay: rep})
		case impl != model || ibase != mbase:
			rep["broken"] = "correspondence LoadsPrefs / Path.Base = Model.CondFile.loads_prefs / path_base"
			res.AddViolation(Violation{Key: "C14/correspondence/loads-prefs", What: fmt.Sprintf("LoadsPrefs(%q) = %v (Base %q), the model says %v (path_base %q)", p, impl, ibase, model, mbase),
				FoundInput: false, Size: len(p), Replay: rep})
		case spec != c14ReallyLoadsPrefs(p):
			rep["broken"] = "harness ground truth c14ReallyLoadsPrefs = Spec.PrefsFile.really_loads_prefs"
			res.AddViolation(Violation{Key: "C14/correspondence/ground-truth-prefs", What: fmt.Sprintf("really_loads_prefs(%q) = %v in Spec/PrefsFile.v, the harness says %v", p, spec, !spec),
				FoundInput: false, Size: len(p), Replay: rep})
		case impl && !spec:
			// the theorem C14_loads_prefs_within_reference is about all paths, so this cannot happen while the proofs build
			rep["broken"] = "LoadsPrefs accepts a file outside the reference list of Spec/PrefsFile.v"
			res.AddViolation(Violation{Key: "C14/loads-prefs/outside-reference", What: fmt.Sprintf("LoadsPrefs(%q) = true, but including that file does not load the preferences (Spec/PrefsFile.v)", p),
				FoundInput: false, Size: len(p), Replay: rep})
		}
		if len(st.crossL) < 40 && (i%431 == 0 || i >= len(paths)-12) {
			st.crossL = append(st.crossL, fmt.Sprintf("Example lcase_%d : (loads_prefs %s, really_loads_prefs %s, path_base %s) = (%s, %s, %s).\nProof. vm_compute. reflexivity. Qed.\n",
				i, c09CoqStr(p), c09CoqStr(p), c09CoqStr(p), c14CoqBool(model), c14CoqBool(spec), c09CoqStr(mbase)))
		}
		switch {
		case impl:
			res.Count("loadsprefs_true", 1)
		case spec:
			res.Count("loadsprefs_false_but_reference_true", 1)
		default:
			res.Count("loadsprefs_false", 1)
		}
	}
}

// ---------- whole runs: includes before / after conditions, in fragments and in a package Makefile ----------

var c14IncVars = []struct {
	name, pat string
	always    bool // vardefs.go: AlwaysInScope
}{
	{"OPSYS", "NetBSD", false}, {"PKGPATH", "cat/pkg", false}, {"X11_TYPE", "native", false}, {"MACHINE_ARCH", "x86_64", true},
	{"OS_VARIANT", "SmartOS", false}, {"PKG_OPTIONS", "opt", false}, {"LOWER_OPSYS", "netbsd", false}, {"OS_VERSION", "10", false},
}

type c14IncCond struct {
	file   string
	lineno int
	name   string
	line   string
	sure   bool // the preferences are loaded for sure at that line
	cond   bool // by an include that may or may not happen
	always bool
}

func (st *c14State) wholeRunIncludes(rng *Rng, tag string) {
	res := st.res
	ctx := st.ctx
	root := filepath.Join(ctx.Work, "c14inctree"+tag)
	if err := c14WriteTree(root, "# $"+"NetBSD$\n"); err != nil {
		res.Broken = "whole-run includes: " + err.Error()
		return
	}
	defer os.RemoveAll(root)
	id := "# $" + "NetBSD$\n"
	// the included files exist (empty fragments), so that nothing but the names matters
	for _, p := range c14IncludePaths {
		full := filepath.Join(root, "cat/pkg", p)
		if _, err := os.Stat(full); err != nil {
			if err := c14WriteFile(full, id); err != nil {
				res.Broken = "whole-run includes: " + err.Error()
				return
			}
		}
	}
	forms := []string{".if !empty(%s:M%s)", ".if empty(%s:M%s)", ".if ${%s:M%s}", ".if !empty(%s:M[yY][eE][sS])", ".if !empty(%s:M*%s)", ".if !${%s:M%s}"}
	var conds []*c14IncCond
	byLine := map[string]*c14IncCond{}
	var files []string
	build := func(file string, header []string, path string, where string, footer []string) {
		lines := append([]string{}, header...)
		var before []string
		emit := func(n int) {
			for k := 0; k < n; k++ {
				v := Pick(rng, c14IncVars)
				form := Pick(rng, forms)
				if file == "hacks.mk" {
					v, form = c14IncVars[2*(k%2)], forms[k%2] // OPSYS, X11_TYPE: DefinedIfInScope, usable at load time
				}
				var l string
				if strings.Count(form, "%s") == 2 {
					l = fmt.Sprintf(form, v.name, v.pat)
				} else {
					l = fmt.Sprintf(form, v.name)
				}
				sure, cnd := c14PrefsSure(before)
				if file == "hacks.mk" {
					sure = true // read through mk/bsd.hacks.mk, which bsd.pkg.mk includes after bsd.prefs.mk
				}
				c := &c14IncCond{file: file, lineno: len(lines) + 1, name: v.name, line: l, sure: sure, cond: cnd, always: v.always}
				conds = append(conds, c)
				byLine[fmt.Sprintf("%s:%d", file, c.lineno)] = c
				lines = append(lines, l, ".endif")
				before = append(before, l, ".endif")
			}
		}
		emit(2)
		inc := ".include \"" + path + "\""
		if where == "cond" {
			lines = append(lines, ".if defined(C14OTHER)", inc, ".endif")
			before = append(before, ".if defined(C14OTHER)", inc, ".endif")
		} else {
			lines = append(lines, inc)
			before = append(before, inc)
		}
		emit(3)
		lines = append(lines, footer...)
		if err := c14WriteFile(filepath.Join(root, "cat/pkg", file), strings.Join(lines, "\n")+"\n"); err != nil {
			res.Broken = "whole-run includes: " + err.Error()
		}
		files = append(files, file)
	}
	for i, p := range c14IncludePaths {
		where := "before"
		if i%5 == 4 {
			where = "cond"
		}
		build(fmt.Sprintf("c14inc%02d.mk", i), []string{"# $" + "NetBSD$", ""}, p, where, nil)
	}
	build("hacks.mk", []string{"# $" + "NetBSD$", ""}, "../../devel/libfoo/buildlink3.mk", "before", nil)
	if res.Broken != "" {
		return
	}
	cmd := exec.Command(ctx.Pkglint, append([]string{"-Wall", "-F"}, files...)...)
	cmd.Dir = filepath.Join(root, "cat/pkg")
	outb, _ := cmd.CombinedOutput()
	if strings.Contains(string(outb), "FATAL") || strings.Contains(string(outb), "panic: ") || strings.Contains(string(outb), "goroutine ") {
		st.implBroke("whole-run includes: pkglint failed on the generated tree: " + string(outb))
		return
	}
	st.judgeIncludes(root, conds)
}

// the package Makefile of the Appendix-A tree with conditions before and after an include
func (st *c14State) wholeRunMakefiles(rng *Rng, tag string) {
	res := st.res
	ctx := st.ctx
	paths := []string{"../../mk/bsd.prefs.mk", "../../devel/libfoo/buildlink3.mk", "options.mk", "../../devel/libfoo/Makefile.common", "../../mk/compiler.mk", "../../devel/libfoo/builtin.mk"}
	for i, p := range paths {
		if res.Broken != "" {
			return
		}
		root := filepath.Join(ctx.Work, fmt.Sprintf("c14mktree%s_%d", tag, i))
		if err := c14WriteTree(root, "# $"+"NetBSD$\n"); err != nil {
			res.Broken = "whole-run makefiles: " + err.Error()
			return
		}
		id := "# $" + "NetBSD$\n"
		for _, ip := range c14IncludePaths {
			full := filepath.Join(root, "cat/pkg", ip)
			if _, err := os.Stat(full); err != nil {
				c14WriteFile(full, id)
			}
		}
		header := []string{"# $" + "NetBSD$", "", "DISTNAME=\tpkg-1.0", "CATEGORIES=\tcat", "MASTER_SITES=\t# none", "",
			"MAINTAINER=\tpkgsrc-users@NetBSD.org", "HOMEPAGE=\t# none", "COMMENT=\tDummy package", "LICENSE=\t2-clause-bsd", ""}
		lines := append([]string{}, header...)
		var before []string
		var conds []*c14IncCond
		emit := func(n int) {
			for k := 0; k < n; k++ {
				v := Pick(rng, c14IncVars[:4])
				l := fmt.Sprintf(Pick(rng, []string{".if !empty(%s:M%s)", ".if empty(%s:M%s)", ".if ${%s:M%s}"}), v.name, v.pat)
				sure, cnd := c14PrefsSure(before)
				conds = append(conds, &c14IncCond{file: "Makefile", lineno: len(lines) + 1, name: v.name, line: l, sure: sure, cond: cnd, always: v.always})
				lines = append(lines, l, ".endif")
				before = append(before, l, ".endif")
			}
		}
		emit(2)
		lines = append(lines, ".include \""+p+"\"")
		before = append(before, ".include \""+p+"\"")
		emit(2)
		lines = append(lines, "", ".include \"../../mk/bsd.pkg.mk\"")
		if err := c14WriteFile(filepath.Join(root, "cat/pkg/Makefile"), strings.Join(lines, "\n")+"\n"); err != nil {
			res.Broken = "whole-run makefiles: " + err.Error()
			return
		}
		cmd := exec.Command(ctx.Pkglint, "-Wall", "-F")
		cmd.Dir = filepath.Join(root, "cat/pkg")
		outb, _ := cmd.CombinedOutput()
		if strings.Contains(string(outb), "FATAL") || strings.Contains(string(outb), "panic: ") || strings.Contains(string(outb), "goroutine ") {
			st.implBroke("whole-run makefiles: pkglint failed on the generated tree: " + string(outb))
			os.RemoveAll(root)
			return
		}
		st.judgeIncludes(root, conds)
		os.RemoveAll(root)
	}
}

// read the rewritten files back and evaluate original against rewritten condition; the variable may be undefined
// unless the preferences are loaded for sure (or it is AlwaysInScope)
func (st *c14State) judgeIncludes(root string, conds []*c14IncCond) {
	res := st.res
	cache := map[string][]string{}
	var reqs []string
	var asked []*c14IncCond
	var news []string
	for _, c := range conds {
		ls, ok := cache[c.file]
		if !ok {
			b, err := os.ReadFile(filepath.Join(root, "cat/pkg", c.file))
			if err != nil {
				st.implBroke("whole-run includes: the rewritten file cannot be read back: " + err.Error())
				return
			}
			ls = strings.Split(string(b), "\n")
			cache[c.file] = ls
		}
		if c.lineno-1 >= len(ls) || !c14ReDirective.MatchString(ls[c.lineno-1]) {
			st.implBroke(fmt.Sprintf("whole-run includes: line %d of the rewritten %s is not an .if line", c.lineno, c.file))
			return
		}
		nl := ls[c.lineno-1]
		res.Count("wholerun_include_conditions", 1)
		if nl == c.line {
			res.Count("wholerun_include_unchanged", 1)
			continue
		}
		res.Count("wholerun_include_rewritten", 1)
		if !strings.Contains(nl, ":U") && !c.always {
			res.Count("wholerun_include_rewritten_without_U", 1)
			if c.file == "hacks.mk" {
				res.Count("wholerun_hacks_rewritten_without_U", 1)
			}
		} else if !c.always {
			res.Count("wholerun_include_rewritten_with_U", 1)
		}
		toks := []string{"e", hx(c14CondText(c.line)), hx(c14CondText(nl)), hx(c.name)}
		if !c.always && !c.sure {
			toks = append(toks, "U")
		}
		toks = append(toks, "V"+hx("NetBSD"), "V"+hx("native"), "V"+hx("cat/pkg"), "V"+hx("x86_64"), "V"+hx("other"))
		reqs = append(reqs, strings.Join(toks, " "))
		asked = append(asked, c)
		news = append(news, nl)
	}
	ans, err := runOracle(st.ctx, "c14", reqs)
	if err != nil {
		res.Broken = err.Error()
		return
	}
	for i, c := range asked {
		pairs := strings.Fields(ans[i])
		vals := []string{"NetBSD", "native", "cat/pkg", "x86_64", "other"}
		undef := !c.always && !c.sure
		for k, pr := range pairs {
			res.Evaluations++
			vs := ""
			isUndef := undef && k == 0
			if isUndef {
				vs = "undefined"
			} else if undef {
				vs = q(vals[k-1])
			} else {
				vs = q(vals[k])
			}
			o, n := pr[0], pr[1]
			if o == 'X' || n == 'X' || o == 'M' || o == n {
				if o == n {
					res.Count("wholerun_include_preserved", 1)
				}
				continue
			}
			key := "C14/wholerun-include/" + map[bool]string{true: "undefined", false: "value"}[isUndef]
			if isUndef && c.cond {
				key = "C14/word/undefined/conditional-include"
			}
			tr := map[byte]string{'T': "true", 'F': "false", 'M': "malformed"}
			res.AddViolation(Violation{Key: key,
				What: fmt.Sprintf("pkglint -F %s: line %d %q is rewritten to %q although the preferences are not loaded for sure at that line; with %s = %s the original is %s, the rewritten condition is %s",
					c.file, c.lineno, c.line, news[i], c.name, vs, tr[o], tr[n]),
				FoundInput: true, Size: 2000 + len(c.line),
				Replay: map[string]any{"kind": "wholerun-include", "file": c.file, "line": hx(c.line), "new_line": hx(news[i])}})
		}
	}
}

// ---------- entry points ----------

func c14NewState(ctx *Ctx, res *Result) *c14State {
	return &c14State{ctx: ctx, res: res, num: map[string]int{}, extraVal: map[string][]string{}, mmnCache: map[string]string{}, distinct: map[string]bool{}}
}

func runC14(ctx *Ctx) *Result {
	res := &Result{Rule: "conditions: typed variable (9 kinds x 6 definedness combinations) x pattern (literal, numeric-looking, glob, yes/no class, empty) x {:M,:N} x prefix {none,:tl,:U} x {${..}, !${..}, empty(..), !empty(..)} enumerated exhaustively over the listed pools, plus 12 compound shapes, plus seeded random patterns; non-trivial = a distinct condition line that the real code rewrote (each is then evaluated, original vs rewritten text, on every admitted value of the value set)"}
	st := c14NewState(ctx, res)
	rng := NewRng(ctx.Seed)
	thorough := ctx.Tier == "thorough"

	specs := c14Exhaustive(thorough)
	nexh := len(specs)
	nrand := 3000
	if thorough {
		nrand = 60000
	}
	specs = append(specs, c14Random(rng, nrand)...)

	// numbers among patterns and values, by the spec
	allPats := map[string]bool{"other": true}
	for _, s := range specs {
		allPats[s.Pat] = true
	}
	words := append([]string{}, c14Values...)
	words = append(words, sortedKeys(allPats)...)
	words = append(words, c14NumericCorpus()...)
	if err := st.classifyNumbers(words); err != nil {
		res.Broken = err.Error()
		return res
	}
	st.checkMayMatchNumber(sortedKeys(allPats))
	if res.Broken != "" {
		return res
	}
	for _, ws := range st.extraVal {
		if err := st.classifyNumbers(ws); err != nil {
			res.Broken = err.Error()
			return res
		}
	}

	cases := make([]*c14Case, len(specs))
	for i, s := range specs {
		cases[i] = c14NewCase(s)
	}
	st.runCases(cases)
	res.Count("exhaustive_conditions", nexh)
	res.Count("random_conditions", len(specs)-nexh)

	if res.Broken == "" {
		nf, per := 12, 60
		if thorough {
			nf, per = 120, 100
		}
		st.wholeRun(rng, nf, per)
	}

	if res.Broken == "" {
		st.checkLoadsPrefs()
	}
	if res.Broken == "" {
		st.wholeRunIncludes(rng, "a")
	}
	if res.Broken == "" {
		st.wholeRunMakefiles(rng, "a")
	}
	if res.Broken == "" {
		st.c14CrossCheckExtraction()
	}

	res.DistinctNontrivial = len(st.distinct)
	res.Exhaustive = false
	for _, i := range []int{3, 1201, 4007, nexh + 5} {
		if i < len(cases) {
			c := cases[i]
			res.Sample(map[string]any{"line": c.line, "var": c.v, "prefs": c.spec.Prefs, "impl": c.newLine, "fixes": c.fixes})
		}
	}
	// coverage floors: every rewrite kind the property names must have been exercised
	unexplained := 0
	for _, v := range res.Violations {
		if !v.FoundInput {
			unexplained++
		}
	}
	if res.Broken == "" && unexplained == 0 {
		for _, fl := range []struct {
			key string
			min int
		}{{"rewrite_word", 300}, {"rewrite_yesno", 60}, {"rewrite_match", 100}, {"rewrite_and", 20}, {"rewrite_yesno_N", 10}, {"wholerun_rewritten", 100}, {"maymatchnumber_no_checked", 5},
			{"nested_pattern_cases", 2000}, {"nested_preserved", 500},
			// what feeds isDefined: includes of prefs files and near misses, before / conditionally before / after the condition
			{"include_context_cases", 3000}, {"include_before_loads", 400}, {"include_before_nearmiss", 400}, {"include_cond_loads", 400}, {"include_after_loads", 400},
			{"seenprefs_no", 2000}, {"seenprefs_and_really_loaded", 2000}, {"loadsprefs_true", 300}, {"loadsprefs_false", 5000}, {"hacks_mk_cases", 100}, {"guarded_fragment_cases", 200}, {"guarded_fragment_rewritten_without_U", 50}, {"undef_after_assignment_cases", 200},
			{"wholerun_include_rewritten", 60}, {"wholerun_include_rewritten_with_U", 20}, {"wholerun_include_rewritten_without_U", 5}, {"wholerun_hacks_rewritten_without_U", 2},
			{"vm_compute_cross_checked_model_runs", 20}} {
			n, _ := res.Distribution[fl.key].(int)
			if n < fl.min {
				res.Broken = fmt.Sprintf("coverage floor missed: %s = %d < %d", fl.key, n, fl.min)
			}
		}
	}
	res.Assumptions = []string{
		"variable values contain no quotes or backslashes (bmake's Str_Words would group them); patterns contain no : \\ ( ) and '$' only as a nested reference ${NAME} (expanded before matching; an undefined nested variable expands to nothing)",
		"numbers are exact rationals: double rounding, overflow and underflow of strtod are not modelled",
		"strtod accepts hexadecimal floating constants without exponent (C99 7.20.1.3; glibc and NetBSD libc do)",
	}
	sort.Slice(res.Violations, func(i, j int) bool { return res.Violations[i].Key < res.Violations[j].Key })
	return res
}

func replayC14(ctx *Ctx, rep map[string]any) *Result {
	res := &Result{Rule: "replay"}
	st := c14NewState(ctx, res)
	switch rep["kind"] {
	case "unit":
		raw, _ := json.Marshal(rep["spec"])
		var s c14Spec
		if err := json.Unmarshal(raw, &s); err != nil {
			res.Broken = "replay: " + err.Error()
			return res
		}
		s.Pat = unhx(s.Pat)
		words := append([]string{s.Pat}, c14Values...)
		if err := st.classifyNumbers(words); err != nil {
			res.Broken = err.Error()
			return res
		}
		st.checkMayMatchNumber([]string{s.Pat})
		for _, ws := range st.extraVal {
			st.classifyNumbers(ws)
		}
		st.runCases([]*c14Case{c14NewCase(s)})
	case "wholerun":
		raw, _ := json.Marshal(rep["spec"])
		var s c14Spec
		if err := json.Unmarshal(raw, &s); err != nil || s.Real < 1 || s.Real > len(c14RealVars) {
			res.Broken = fmt.Sprint("replay: bad spec ", err)
			return res
		}
		s.Pat = unhx(s.Pat)
		if err := st.classifyNumbers(append([]string{s.Pat}, c14Values...)); err != nil {
			res.Broken = err.Error()
			return res
		}
		c := c14NewCase(s)
		c.layer = "wholerun"
		st.wholeRunCases([]*c14Case{c}, "replay")
	}
	return res
}

func init() { register("C14", runC14, replayC14) }
