package main

// C09, whole runs, round 4: a Makefile fragment that is checked twice in ONE
// pkglint -F process (as part of its package and by name, or named twice).
// The second check must see the file as the first check left it: the result
// must be that of one fresh process per argument, and a second round of the
// same command must behave like a second round of the separate processes.
// (Seeded C09-r3m2: the saved file stayed in the file cache when all fixes were
// in place; the second check re-saved the pre-fix raw lines.)

import (
	"fmt"
	"os"
	"path/filepath"
	"strings"
)

// paragraphs of the fragment: fixes that pkglint detects from Line.Text (T),
// from the raw line (R), and lines without any fix (N)
var c09TwiceParagraphs = []struct{ kind, text string }{
	{"T", "REPLACE_PERL+=\t${WRKSRC}/script%d.pl\n"},
	{"T", "REPLACE_PERL+=\t${WRKSRC}/bin/tool%d ${WRKSRC}/lib/helper%d.pl\n"},
	{"R", "SECOND%d=\tsecond value  \n"},
	{"R", "CFLAGS+= -O%d\n"},
	{"R", "CONFIGURE_ARGS+=\t--first%d \\\n\t\t--second  \n"},
	{"R", "THIRD%d=\tvalue \\\n  continued\t\n"},
	{"N", "FOURTH%d=\t\tvalue\n"},
	{"N", "# comment %d \\\n# continued\n"},
	{"N", "USE_TOOLS+=\t\tgmake%d \\\n\t\t\tperl\n"},
}

func c09TwiceModule(rng *Rng) (text string, kinds string) {
	var sb strings.Builder
	sb.WriteString("# $" + "NetBSD$\n\n")
	n := 2 + rng.Intn(5)
	for i := 0; i < n; i++ {
		p := Pick(rng, c09TwiceParagraphs)
		sb.WriteString(strings.ReplaceAll(p.text, "%d", fmt.Sprint(i)))
		kinds += p.kind
		if rng.Chance(50) {
			sb.WriteString("\n")
		}
	}
	return sb.String(), kinds
}

func c09NamedTwiceRuns(ctx *Ctx, res *Result, rng *Rng, n int) {
	cmds := [][]string{
		{"cat/pkg", "cat/pkg/module.mk"},
		{"cat/pkg/module.mk", "cat/pkg/module.mk"},
		{"cat/pkg/module.mk", "cat/pkg"},
		{"cat/pkg", "cat/pkg/module.mk", "cat/pkg/module.mk"},
	}
	// the seed's shape first, then generated fragments
	c09NamedTwice(ctx, res, "# $"+"NetBSD$\n\nREPLACE_PERL+=\t${WRKSRC}/script.pl\n\nSECOND=\tsecond value  \n", cmds[0])
	for i := 0; i < n && res.Broken == ""; i++ {
		mod, kinds := c09TwiceModule(rng)
		if strings.Contains(kinds, "T") && strings.Contains(kinds, "R") {
			res.Count("w2.runs_with_text_and_raw_detected_fixes", 1)
		}
		c09NamedTwice(ctx, res, mod, cmds[i%len(cmds)])
	}
}

func c09TwiceTree(root, module string) error {
	if err := os.RemoveAll(root); err != nil {
		return err
	}
	if err := c18WriteTree(root); err != nil {
		return err
	}
	mf := strings.Replace(c09MakefileHead, "LICENSE=", "LICENSE=", 1) + ".include \"module.mk\"\n.include \"../../mk/bsd.pkg.mk\"\n"
	if err := os.WriteFile(filepath.Join(root, "cat/pkg/Makefile"), []byte(mf), 0o644); err != nil {
		return err
	}
	return os.WriteFile(filepath.Join(root, "cat/pkg/module.mk"), []byte(module), 0o644)
}

func c09NamedTwice(ctx *Ctx, res *Result, module string, args []string) {
	comb := filepath.Join(ctx.Work, "c09twice-combined")
	sep := filepath.Join(ctx.Work, "c09twice-separate")
	if err := c09TwiceTree(comb, module); err != nil {
		res.Broken = err.Error()
		return
	}
	if err := c09TwiceTree(sep, module); err != nil {
		res.Broken = err.Error()
		return
	}
	read := func(root string) string {
		a, _ := os.ReadFile(filepath.Join(root, "cat/pkg/module.mk"))
		b, _ := os.ReadFile(filepath.Join(root, "cat/pkg/Makefile"))
		return string(a) + "\x00" + string(b)
	}
	var log []string
	for round := 1; round <= 2; round++ {
		outC, exitC, err := c18RunPkglint(ctx, comb, append([]string{"-Wall", "-F"}, args...)...)
		if err != nil || exitC < 0 || exitC > 1 {
			if strings.Contains(outC, "internal error") || strings.Contains(outC, "panic:") {
				res.AddViolation(Violation{Key: "C09/whole-run/named-twice/crash",
					What:       fmt.Sprintf("pkglint -Wall -F %s (round %d) on module.mk %q crashed: %s", strings.Join(args, " "), round, module, c09Tail(outC)),
					FoundInput: true, Size: len(module),
					Replay:     map[string]any{"kind": "namedtwice", "module": hx(module), "args": strings.Join(args, " "), "output": q(outC)}})
				return
			}
			res.Count("w2.run_failed", 1)
			return
		}
		var outS []string
		for _, a := range args {
			before := read(sep)
			o, e, err := c18RunPkglint(ctx, sep, "-Wall", "-F", a)
			if err != nil || e < 0 || e > 1 {
				res.Count("w2.run_failed", 1)
				return
			}
			outS = append(outS, o)
			if round == 1 && a != args[0] && read(sep) == before && strings.Contains(strings.Join(outS[:len(outS)-1], ""), "AUTOFIX: cat/pkg/module.mk") {
				// a later argument was checked on the file as an earlier one had fixed it
				res.Count("w2.second_check_saw_fixed_file", 1)
			}
		}
		log = append(log, fmt.Sprintf("round %d combined:\n%s\nround %d separate:\n%s", round, outC, round, strings.Join(outS, "--\n")))
		if c, s := read(comb), read(sep); c != s {
			cm, sm := strings.SplitN(c, "\x00", 2)[0], strings.SplitN(s, "\x00", 2)[0]
			res.AddViolation(Violation{Key: "C09/whole-run/named-twice/differs-from-separate-runs",
				What: fmt.Sprintf("pkglint -Wall -F %s, round %d, on module.mk %q: one process leaves module.mk = %q, one fresh process per argument leaves %q (a file that is saved and loaded again in the same run must be loaded as it was saved)",
					strings.Join(args, " "), round, module, cm, sm),
				FoundInput: true, Size: len(module),
				Replay:     map[string]any{"kind": "namedtwice", "module": hx(module), "args": strings.Join(args, " "), "log": q(strings.Join(log, "\n"))}})
			return
		}
		if round == 2 {
			nC := strings.Count(outC, "AUTOFIX:")
			nS := strings.Count(strings.Join(outS, ""), "AUTOFIX:")
			if nS == 0 && nC != 0 {
				res.AddViolation(Violation{Key: "C09/whole-run/named-twice/second-round-not-silent",
					What: fmt.Sprintf("pkglint -Wall -F %s on module.mk %q: the second round of separate processes fixes nothing, the second round in one process logs %d AUTOFIX lines: %s",
						strings.Join(args, " "), module, nC, c09Tail(outC)),
					FoundInput: true, Size: len(module),
					Replay:     map[string]any{"kind": "namedtwice", "module": hx(module), "args": strings.Join(args, " "), "log": q(strings.Join(log, "\n"))}})
				return
			}
			if nS == 0 {
				res.Count("w2.second_round_silent", 1)
			}
		}
	}
	res.Count("w2.combined_runs", 1)
	res.Evaluations++
	res.TracesValidated++
}

func c09Tail(s string) string {
	if len(s) > 600 {
		return "..." + s[len(s)-600:]
	}
	return s
}
