package main

// Additional generator features for C03/C02 (applied after GenerateTree, which
// stays untouched): executable files (the chmod fix), distinfo files with
// missing hashes next to a real distfile (InsertAbove/InsertBelow), a package
// that includes another package's Makefile.common (a second view of one file,
// "used by" line inserted below), files without final newline, missing empty
// lines in distinfo / patches / buildlink3.mk.

import (
	"crypto/sha512"
	"fmt"
	"os"
	"path/filepath"
	"strings"
)

func (g *GenTree) rewrite(rel string, f func(string) string) bool {
	b, err := os.ReadFile(g.Path(rel))
	if err != nil {
		return false
	}
	n := f(string(b))
	if n == string(b) {
		return false
	}
	g.Write(rel, n)
	return true
}

func GenerateTreeC03(r *Rng, root string, o GenOpts) *GenTree {
	g := GenerateTree(r, root, o)
	d := o.Density
	if d == 0 {
		d = 35
	}
	// a makefile fragment outside every package directory, only ever loaded as an included file;
	// it contains fixes that are applied at parse time (space after the variable name, $(VAR))
	shared := false
	if r.Chance(d + 25) {
		ls := []string{cvsID, ""}
		for k := 0; k < 1+r.Intn(4); k++ {
			ls = append(ls, Pick(r, []string{"SHARED_VAR =\tvalue", "SHARED_ARGS=\t--prefix=$(PREFIX)", "SHARED_FLAGS +=\t-I$(LOCALBASE)/include",
				"SHARED_OK=\tyes", "SHARED_LONG_NAME=  two spaces", "SHARED_CONT=\tfirst \\\n  $(SHARED_VAR) \\\n\tlast"}))
		}
		text := strings.Join(ls, "\n") + "\n"
		if r.Chance(8) {
			text = strings.TrimSuffix(text, "\n")
			g.feat("c03.shared-mk.no-final-nl")
		}
		g.put("cat/common/shared.mk", text)
		g.feat("c03.shared-mk")
		shared = true
	}
	for i, dir := range g.Pkgs {
		name := filepath.Base(dir)
		if shared && r.Chance(70) {
			inc := ".include \"../../cat/common/shared.mk\"\n"
			if g.rewrite(dir+"/Makefile", func(s string) string {
				return strings.Replace(s, ".include \"../../mk/bsd.pkg.mk\"", inc+".include \"../../mk/bsd.pkg.mk\"", 1)
			}) {
				g.feat("c03.include-shared-mk")
			}
		}
		if r.Chance(d / 2) {
			// a real distfile; distinfo has only some of the hashes, all of them correct
			data := fmt.Sprintf("distfile of %s %d\n", name, r.Intn(1000))
			g.Write("distfiles/"+name+"-1.0.tar.gz", data)
			sum := fmt.Sprintf("%x", sha512.Sum512([]byte(data)))
			keepSize := r.Bool()
			g.rewrite(dir+"/distinfo", func(s string) string {
				var out []string
				for _, l := range strings.SplitAfter(s, "\n") {
					switch {
					case strings.HasPrefix(l, "BLAKE2s ("+name+"-1.0"):
					case strings.HasPrefix(l, "SHA512 ("+name+"-1.0"):
						out = append(out, "SHA512 ("+name+"-1.0.tar.gz) = "+sum+"\n")
					case strings.HasPrefix(l, "Size ("+name+"-1.0"):
						if keepSize {
							out = append(out, fmt.Sprintf("Size (%s-1.0.tar.gz) = %d bytes\n", name, len(data)))
						}
					default:
						out = append(out, l)
					}
				}
				return strings.Join(out, "")
			})
			g.feat("c03.distinfo.missing-hashes")
		}
		if r.Chance(d / 2) {
			g.rewrite(dir+"/distinfo", func(s string) string { return strings.Replace(s, "$\n\n", "$\n", 1) })
			g.feat("c03.distinfo.no-empty-line")
		}
		if r.Chance(d) {
			// a patch with a fixable problem (missing empty line) whose hash in distinfo MATCHES:
			// fixing the patch makes pkglint update distinfo in a silent follow-up fix (AutofixDistinfo)
			if ents, err := os.ReadDir(g.Path(dir + "/patches")); err == nil && len(ents) > 0 {
				pn := ents[r.Intn(len(ents))].Name()
				before := g.Read(dir + "/patches/" + pn)
				if g.rewrite(dir+"/patches/"+pn, func(s string) string { return strings.Replace(s, "$\n\n", "$\n", 1) }) {
					after := g.Read(dir + "/patches/" + pn)
					oldSum, newSum := netbsdFilteredSha1(before), netbsdFilteredSha1(after)
					if r.Chance(85) && g.rewrite(dir+"/distinfo", func(s string) string { return strings.Replace(s, oldSum, newSum, 1) }) {
						g.feat("c03.patch.no-empty-line.distinfo-matches")
					} else {
						g.feat("c03.patch.no-empty-line.distinfo-stale")
					}
				}
			}
		}
		if r.Chance(d) {
			// a makefile fragment with one fix that is detected from the parsed text and one from the raw text
			ls := []string{cvsID, "", "FRAG_DIR=\t$(PREFIX)/share/" + name, "FRAG_FLAG=\tvalue" + Pick(r, []string{" ", "\t", ""}), "FRAG_LONGER_NAME=  x"}
			g.put(dir+"/version.mk", strings.Join(ls, "\n")+"\n")
			g.feat("c03.fragment-mk")
		}
		if r.Chance(d / 3) {
			f := Pick(r, []string{"PLIST", "distinfo", "DESCR", "Makefile.common", "buildlink3.mk", "options.mk", "ALTERNATIVES"})
			if g.rewrite(dir+"/"+f, func(s string) string { return strings.TrimSuffix(s, "\n") }) {
				g.feat("c03.no-final-nl." + f)
			}
		}
		if i > 0 && r.Chance(d+20) {
			// include the Makefile.common of an earlier package: a second view of that file
			for _, other := range g.Pkgs[:i] {
				if _, err := os.Stat(g.Path(other + "/Makefile.common")); err != nil {
					continue
				}
				inc := ".include \"../../" + other + "/Makefile.common\"\n"
				if g.rewrite(dir+"/Makefile", func(s string) string {
					return strings.Replace(s, ".include \"../../mk/bsd.pkg.mk\"", inc+".include \"../../mk/bsd.pkg.mk\"", 1)
				}) {
					g.feat("c03.include-other-common")
					if r.Chance(50) {
						// no "used by" paragraph at all: CheckUsedBy inserts an empty line in a silent fix
						if g.rewrite(other+"/Makefile.common", func(s string) string {
							return strings.Replace(s, "# used by "+other+"/Makefile\n\n", "", 1)
						}) {
							g.feat("c03.common-without-used-by")
						}
					}
				}
				break
			}
		}
		if r.Chance(d / 2) {
			// the own Makefile.common, really included
			if _, err := os.Stat(g.Path(dir + "/Makefile.common")); err == nil {
				inc := ".include \"Makefile.common\"\n"
				if g.rewrite(dir+"/Makefile", func(s string) string {
					return strings.Replace(s, ".include \"../../mk/bsd.pkg.mk\"", inc+".include \"../../mk/bsd.pkg.mk\"", 1)
				}) {
					g.feat("c03.include-own-common")
				}
			}
		}
		if r.Chance(30) {
			g.c03LongTexts(r, dir) // fixes whose replaced text is longer than 200 bytes (c03_sizes.go)
		}
		if r.Chance(d / 2) {
			cands := []string{"Makefile", "PLIST", "DESCR", "distinfo", "Makefile.common", "buildlink3.mk"}
			if ents, err := os.ReadDir(g.Path(dir + "/patches")); err == nil {
				for _, e := range ents {
					cands = append(cands, "patches/"+e.Name())
				}
			}
			f := Pick(r, cands)
			if err := os.Chmod(g.Path(dir+"/"+f), 0o755); err == nil {
				g.feat("c03.executable")
			}
		}
	}
	return g
}
