package main

// C15: extraction cross-check.  A sample of the oracle requests of this run (every request kind, i.e. every
// extracted model function the correspondence relies on) is re-evaluated by coqc with vm_compute on the
// Gallina definitions themselves and compared with what the extracted OCaml oracle answered.

import (
	"fmt"
	"os"
	"os/exec"
	"path/filepath"
	"strconv"
	"strings"
)

type c15CrossCase struct{ req, ans string }

// crossSample remembers up to max request/answer pairs of one kind, spread over the batch
func (c *c15Checker) crossSample(kind string, reqs, ans []string, max int) {
	if c.crossSeen == nil {
		c.crossSeen = map[string]int{}
	}
	if len(reqs) == 0 || len(ans) != len(reqs) {
		return
	}
	stride := len(reqs)/max + 1
	for i := 0; i < len(reqs) && c.crossSeen[kind] < max; i += stride {
		if len(reqs[i]) > 6000 {
			continue
		}
		c.cross = append(c.cross, c15CrossCase{reqs[i], ans[i]})
		c.crossSeen[kind]++
	}
}

func c15CoqStr(h string) string { return c09CoqStr(unhx(h)) }

func c15CoqStrs(hs []string) string {
	out := make([]string, len(hs))
	for i, h := range hs {
		out[i] = c15CoqStr(h)
	}
	return "[" + strings.Join(out, "; ") + "]"
}

func c15CoqZ(s string) string { return "(" + s + ")%Z" }

func c15CoqParts(f []string) string {
	return fmt.Sprintf("(mkParts %s %s %s %s %s %s)", c15CoqStr(f[0]), c15CoqStr(f[1]), c15CoqStr(f[2]), c15CoqStr(f[3]), c15CoqStr(f[4]), c15CoqStr(f[5]))
}

func c15CoqOkLines(ans string) (string, bool) {
	if ans == "P" {
		return "Panic", true
	}
	f := strings.Fields(ans)
	if len(f) < 1 || f[0] != "ok" {
		return "", false
	}
	return "Ok " + c15CoqStrs(f[1:]), true
}

func c15CoqOptStr(ans string) string {
	if ans == "P" {
		return "None"
	}
	return "Some " + c15CoqStr(ans)
}

// c15CoqExample renders one request and the oracle's answer as a Gallina equation.
func c15CoqExample(req, ans string) (string, bool) {
	f := strings.Fields(req)
	if len(f) == 0 {
		return "", false
	}
	b := func(s string) string {
		if s == "1" {
			return "true"
		}
		return "false"
	}
	switch f[0] {
	case "twa":
		want := "None"
		if ans != "P" {
			want = "Some " + c15CoqZ(ans)
		}
		return fmt.Sprintf("tabWidthAppend %s %s = %s", c15CoqZ(f[1]), c15CoqStr(f[2]), want), true
	case "atw":
		return fmt.Sprintf("alignmentToWidths %s %s = %s", c15CoqZ(f[1]), c15CoqZ(f[2]), c15CoqOptStr(ans)), true
	case "ind":
		return fmt.Sprintf("indent %s = %s", c15CoqZ(f[1]), c15CoqOptStr(ans)), true
	case "aa":
		return fmt.Sprintf("alignmentAfter %s %s = %s", c15CoqStr(f[1]), c15CoqZ(f[2]), c15CoqOptStr(ans)), true
	case "aw":
		return fmt.Sprintf("alignWith %s %s = %s", c15CoqStr(f[1]), c15CoqStr(f[2]), c15CoqOptStr(ans)), true
	case "trim":
		n, _ := strconv.Atoi(f[1])
		want, ok := c15CoqOkLines(ans)
		if !ok || len(f) != 2+n {
			return "", false
		}
		return fmt.Sprintf("checkTrailingWhitespace %s = %s", c15CoqStrs(f[2:]), want), true
	case "shell":
		n, _ := strconv.Atoi(f[2])
		want, ok := c15CoqOkLines(ans)
		if !ok || len(f) != 3+n {
			return "", false
		}
		return fmt.Sprintf("shellTabs %s %s = %s", b(f[1]), c15CoqStrs(f[3:]), want), true
	case "dir":
		want := "Panic"
		if ans != "P" {
			want = "Ok " + c15CoqStr(ans)
		}
		return fmt.Sprintf("checkDirectiveIndentation %s %s %s %s = %s", b(f[1]), c15CoqStr(f[2]), c15CoqStr(f[3]), c15CoqZ(f[4]), want), true
	case "sav":
		n, _ := strconv.Atoi(f[1])
		want, ok := c15CoqOkLines(ans)
		if !ok || len(f) != 2+n+3+6 {
			return "", false
		}
		r := f[2+n:]
		return fmt.Sprintf("fixSpaceAfterVarname %s %s %s %s %s = %s", c15CoqStrs(f[2:2+n]), c15CoqStr(r[0]), c15CoqStr(r[1]), c15CoqStr(r[2]), c15CoqParts(r[3:]), want), true
	case "file":
		n, _ := strconv.Atoi(f[1])
		p := 2
		var fls []string
		for i := 0; i < n; i++ {
			if p+2 > len(f) {
				return "", false
			}
			k, nraw := f[p], 0
			nraw, _ = strconv.Atoi(f[p+1])
			p += 2
			kind := map[string]string{"E": "KEmpty", "N": "KNeutral", "O": "KOther"}[k]
			if kind == "" {
				if len(k) != 5 || k[0] != 'A' {
					return "", false
				}
				kind = fmt.Sprintf("(KAssign %s %s %s %s)", b(k[1:2]), b(k[2:3]), b(k[3:4]), b(k[4:5]))
			}
			var infos []string
			for j := 0; j < nraw; j++ {
				if p+7 > len(f) {
					return "", false
				}
				infos = append(infos, fmt.Sprintf("mk_info %s %s", c15CoqStr(f[p]), c15CoqParts(f[p+1:p+7])))
				p += 7
			}
			fls = append(fls, fmt.Sprintf("mkFline %s [%s]", kind, strings.Join(infos, "; ")))
		}
		want := "None"
		if ans != "P" {
			a := strings.Fields(ans)
			if len(a) < 2 || a[0] != "ok" {
				return "", false
			}
			want = fmt.Sprintf("Some (%s, %s%%nat)", c15CoqStrs(a[2:]), a[1])
		}
		return fmt.Sprintf("c15_file_view (process_file [%s] [] false) = %s", strings.Join(fls, "; "), want), true
	}
	return "", false
}

func c15CrossCheckExtraction(c *c15Checker) {
	ctx, res := c.ctx, c.res
	var sb strings.Builder
	sb.WriteString("From PV Require Import Lib.Bytes Model.Tabs Model.Varalign Model.LayoutFix.\nOpen Scope N_scope.\n")
	// what the oracle prints for a `file` request: all raw texts and the number of logged actions
	sb.WriteString("Definition c15_file_view (r : res (list fline)) : option (list str * nat) :=\n" +
		"  match r with Panic => None | Ok out => let is := flat_map finfos out in\n" +
		"    Some (map text is, fold_left (fun a i => (a + length (log i))%nat) is 0%nat) end.\n")
	n := 0
	for _, cc := range c.cross {
		ex, ok := c15CoqExample(cc.req, cc.ans)
		if !ok {
			res.Broken = "extraction cross-check: cannot render " + q(cc.req) + " -> " + q(cc.ans)
			return
		}
		fmt.Fprintf(&sb, "Example case_%d : %s.\nProof. vm_compute. reflexivity. Qed.\n", n, ex)
		n++
		res.Count("vm_compute_cross_checked:"+strings.Fields(cc.req)[0], 1)
	}
	file := filepath.Join(ctx.Work, "c15cases.v")
	if err := os.WriteFile(file, []byte(sb.String()), 0o644); err != nil {
		res.Broken = err.Error()
		return
	}
	cmd := exec.Command("timeout", "900", "coqc", "-Q", filepath.Join(ctx.Verif, "coq"), "PV", file)
	cmd.Dir = ctx.Work
	out, err := cmd.CombinedOutput()
	if err != nil {
		msg := string(out)
		if len(msg) > 900 {
			msg = msg[:900]
		}
		res.AddViolation(Violation{Key: "C15/extraction-vs-vm_compute",
			What:       "the extracted oracle and coqc's vm_compute disagree on the model (or coqc failed): " + msg,
			FoundInput: false, Replay: map[string]any{"broken": "extraction cross-check", "detail": msg}})
		return
	}
	res.Count("vm_compute_cross_checked", n)
}
