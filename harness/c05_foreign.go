package main

// C05 (round 4): initial trees with FOREIGN entries at the temporary names.  The model's
// file system (Model/FsProto.v) is any finite map path -> (kind, bytes, mode); the
// theorems C05_foreign_entries_untouched(_crash), C05_no_created_tmp_left and
// C05_taken_tmp_refused say what happens to an entry -- of any kind -- that sits at
// F.pkglint.tmp when F is saved: nothing, at no crash point and under no fault; the save
// of F is refused with an ERROR line.  Here the real binary is started from such trees
// (every kind x every base scenario over the variants), complete / killed before every
// mutating system call / with every call failing, and the extracted specification
// Spec.CrashSpec.foreign_bad judges the resulting tree.

import (
	"fmt"
	"os"
	"os/exec"
	"path/filepath"
	"strings"
)

// kinds of pre-existing entries at a temporary name
var c05TmpKinds = []string{"empty", "nonempty", "dir", "symlink", "mixed"}
var c05ForeignBases = []string{"single-mk", "pkg4", "plist-sort", "chmod"}

// c05ForeignScenarios: for variant v every kind once, the base scenario rotating
// with kind, variant and seed (quick: each kind once per run; thorough: each kind in
// each of the 12 variants, so every kind meets every base scenario three times).
func c05ForeignScenarios(seed uint64, v int, thorough bool) []string {
	var out []string
	for i, k := range c05TmpKinds {
		if !thorough && i%2 != v%2 {
			continue // quick: every kind once per run, spread over the two variants
		}
		b := c05ForeignBases[(i+v+int(seed%4))%len(c05ForeignBases)]
		out = append(out, b+"+"+k)
	}
	return out
}

// c05PlantForeign puts an entry of the given kind at <file>.pkglint.tmp for a non-empty
// subset of the files the base scenario fixes; the twin tree (same files, no planted
// entries) defines what the saves would have installed.
func c05PlantForeign(s *c05Scenario, t *Tree, r *Rng, base, kind string, mkFixed bool) {
	var cands []string
	switch base {
	case "single-mk", "chmod":
		cands = []string{"cat/pkg/Makefile"}
	case "pkg4":
		cands = []string{"cat/pkg/Makefile", "cat/pkg/PLIST", "cat/pkg/distinfo", "cat/pkg/patches/patch-file.c"}
	case "plist-sort":
		cands = []string{"cat/pkg/PLIST"}
	}
	// pkglint reads every Makefile.* and PLIST.* of a package directory as a file and ends
	// with "FATAL: ... Cannot be read." when that is a directory or a dangling link, before
	// any fix: such entries are planted next to distinfo / the patch only, or the file is
	// given on the command line by itself (the directory is then not scanned)
	unreadable := kind == "dir" || kind == "symlink" || kind == "mixed"
	if unreadable {
		switch base {
		case "single-mk", "chmod":
			s.Args = []string{"-Wall", "-F", "cat/pkg/Makefile"}
		case "plist-sort":
			s.Args = []string{"-Wall", "-F", "cat/pkg/PLIST"}
		case "pkg4":
			cands = cands[2:]
		}
	}
	s.Twin = filepath.Join(filepath.Dir(s.Base), "twin")
	os.RemoveAll(s.Twin)
	if err := CopyTree(s.Base, s.Twin); err != nil {
		panic(err)
	}
	var chosen []string
	for _, f := range cands {
		if r.Chance(60) {
			chosen = append(chosen, f)
		}
	}
	if len(chosen) == 0 {
		chosen = []string{cands[r.Intn(len(cands))]}
	}
	s.Blocked = map[string]string{}
	for _, f := range chosen {
		k := kind
		if k == "mixed" {
			k = Pick(r, []string{"empty", "nonempty", "dir", "symlink"})
		}
		tmp := t.Path(f + ".pkglint.tmp")
		switch k {
		case "empty":
			os.WriteFile(tmp, nil, 0o644)
			os.Chmod(tmp, Pick(r, []os.FileMode{0o644, 0o600, 0o444, 0o664}))
		case "nonempty":
			os.WriteFile(tmp, []byte(strings.Repeat("precious "+fmt.Sprint(r.Intn(1000))+"\n", 1+r.Intn(60))), 0o644)
			os.Chmod(tmp, Pick(r, []os.FileMode{0o644, 0o600, 0o444, 0o640}))
		case "dir":
			os.Mkdir(tmp, 0o755)
			if r.Chance(40) {
				os.WriteFile(filepath.Join(tmp, "keep"), []byte("kept\n"), 0o644)
			}
			os.Chmod(tmp, Pick(r, []os.FileMode{0o755, 0o700, 0o750})) // CopyTree creates directories under the umask
		case "symlink":
			os.Symlink(Pick(r, []string{"DESCR", "/nonexistent/target", "../../doc/nothing-here", "."}), tmp)
		}
		s.Blocked[f] = k
		if base != "chmod" || mkFixed {
			s.ExpectErrs = append(s.ExpectErrs, "ERROR: "+f+".pkglint.tmp: Cannot write: ")
		}
	}
	inner := s.Expect
	s.Expect = func(s *c05Scenario, prog []c05Action, out string) string {
		if inner != nil {
			if why := inner(s, prog, out); why != "" {
				return why
			}
		}
		if base == "chmod" && !mkFixed {
			return ""
		}
		for f := range s.Blocked {
			refused := false
			for _, a := range prog {
				if a.Path == f && a.NoData {
					refused = true
				}
			}
			if !refused {
				return "the save of " + f + " was not refused although " + f + ".pkglint.tmp exists"
			}
		}
		return ""
	}
}

// foreignCheck asks the extracted Spec.CrashSpec.foreign_bad whether every entry of the
// tree that does not belong to the run (neither saved nor mode-fixed) is exactly as it
// was (kind, bytes, mode, or absent as before); in a crash snapshot a temporary file of
// the run's own may exist.  A violation is a found input: the real binary was run from
// that tree and the specification rejects what it left.
func (st *c05State) foreignCheck(s *c05Scenario, prog []c05Action, cur map[string]c05File, complete bool, phase string, rep map[string]any, size int, where string) bool {
	c := "0"
	if complete {
		c = "1"
	}
	req := "foreign / " + c05InitTokens(s.Old, st.umask) + " / " + c05ProgTokens(prog) + " / " + c05InitTokens(cur, st.umask) + " / " + c
	a, err := c05Oracle1(st.ctx, req)
	if err != nil {
		st.broken(err.Error())
		return false
	}
	st.mu.Lock()
	if len(st.cross) < 400 {
		st.cross = append(st.cross, c05Cross{Init: s.Old, Cur: cur, Prog: prog, Complete: complete})
	}
	st.res.Count("foreign_spec_evaluations_"+phase, 1)
	for _, k := range s.Blocked {
		st.res.Count("foreign_tmp_"+k+"_judged_"+phase, 1)
	}
	st.mu.Unlock()
	if a == "ok" {
		// link scenarios: the link-aware judge as well (targets of links: content and mode)
		return st.linkCheck(s, prog, cur, phase, rep, size, where)
	}
	bad := unhx(strings.TrimPrefix(a, "bad "))
	o, wasThere := s.Old[bad]
	n, isThere := cur[bad]
	what, desc := "modified", ""
	switch {
	case wasThere && !isThere:
		what, desc = "removed", fmt.Sprintf("the %s has disappeared", c05EntryDesc(o))
	case wasThere:
		desc = fmt.Sprintf("the %s is now a %s", c05EntryDesc(o), c05EntryDesc(n))
	case strings.HasSuffix(bad, ".pkglint.tmp"):
		what, desc = "leftover-tmp", fmt.Sprintf("a %s was left behind", c05EntryDesc(n))
	default:
		what, desc = "new-entry", fmt.Sprintf("a new %s appeared", c05EntryDesc(n))
	}
	rep["file"] = bad
	st.res.AddViolation(Violation{Key: "C05/foreign-entry/" + phase + "/" + what, FoundInput: true, Size: size, Replay: rep,
		What: fmt.Sprintf("scenario %s, %s: %s is neither saved nor mode-fixed by this run, but %s", s.Name, where, bad, desc)})
	return true
}

func c05EntryDesc(f c05File) string {
	switch f.Kind {
	case "D":
		return fmt.Sprintf("directory (mode %#o)", f.Mode)
	case "L":
		return fmt.Sprintf("symbolic link to %q", f.Data)
	}
	return fmt.Sprintf("regular file of %d bytes (mode %#o, %q)", len(f.Data), f.Mode, c05Short(f.Data))
}

// ---------- extraction cross-check ----------

// c05Cross collects (reduced) oracle requests that are re-evaluated by coqc with
// vm_compute at the end of the run: the extracted OCaml code and Coq's own evaluation of
// foreign_bad and of the run model (with entry kinds) must agree.
type c05Cross struct {
	Init, Cur map[string]c05File
	Prog      []c05Action
	Complete  bool
}

func c05Sub(m map[string]c05File) map[string]c05File {
	out := map[string]c05File{}
	for p, f := range m {
		if strings.HasPrefix(p, "cat/pkg/") && len(f.Data) <= 1500 {
			out[p] = f
		}
	}
	return out
}

func c05CoqFs(m map[string]c05File) string {
	var es []string
	for _, p := range sortedKeys(m) {
		f := m[p]
		k := "KReg"
		switch f.Kind {
		case "D":
			k = "KDir"
		case "L":
			k = "KSymlink"
		}
		es = append(es, fmt.Sprintf("(%s, mkfile %s %s %d)", c09CoqStr(p), k, c09CoqStr(f.Data), f.Mode))
	}
	return "[" + strings.Join(es, "; ") + "]"
}

func c05CoqProg(prog []c05Action) string {
	var es []string
	for _, a := range prog {
		switch a.Kind {
		case "S":
			es = append(es, fmt.Sprintf("ASave %s %s", c09CoqStr(a.Path), c09CoqStr(a.Data)))
		case "M":
			es = append(es, fmt.Sprintf("AChmod %s %d", c09CoqStr(a.Path), a.Mode))
		case "T":
			es = append(es, fmt.Sprintf("AIfSaved true %s %s", c09CoqStr(a.Path), c09CoqStr(a.Data)))
		case "E":
			es = append(es, fmt.Sprintf("AIfSaved false %s %s", c09CoqStr(a.Path), c09CoqStr(a.Data)))
		}
	}
	return "[" + strings.Join(es, "; ") + "]"
}

func c05CrossCheckExtraction(ctx *Ctx, res *Result, umask int, cases []c05Cross) {
	if len(cases) > 40 {
		cases = cases[:40]
	}
	if len(cases) == 0 {
		return
	}
	var reqs []string
	for _, c := range cases {
		cc := "0"
		if c.Complete {
			cc = "1"
		}
		init := c05InitTokens(c05Sub(c.Init), umask)
		// the data of a save does not matter to foreign_bad and to which entries survive: short contents
		var prog []c05Action
		for _, a := range c.Prog {
			if len(a.Data) > 40 {
				a.Data = a.Data[:40]
			}
			prog = append(prog, a)
		}
		reqs = append(reqs, "foreign / "+init+" / "+c05ProgTokens(prog)+" / "+c05InitTokens(c05Sub(c.Cur), umask)+" / "+cc)
		reqs = append(reqs, "fault / "+init+" / "+c05ProgTokens(prog)+" / -1 0 EIO")
	}
	ans, err := runOracle(ctx, "c05", reqs)
	if err != nil {
		res.Broken = err.Error()
		return
	}
	var sb strings.Builder
	sb.WriteString("From PV Require Import Lib.Bytes Model.FsProto Spec.CrashSpec.\nOpen Scope N_scope.\n")
	for i, c := range cases {
		var prog []c05Action
		for _, a := range c.Prog {
			if len(a.Data) > 40 {
				a.Data = a.Data[:40]
			}
			prog = append(prog, a)
		}
		want := "None"
		if a := ans[2*i]; strings.HasPrefix(a, "bad ") {
			want = "Some " + c09CoqStr(unhx(strings.TrimPrefix(a, "bad ")))
		} else if a != "ok" {
			res.Broken = "oracle answer " + q(a)
			return
		}
		fmt.Fprintf(&sb, "Definition init_%d : fsmap := %s.\nDefinition cur_%d : fsmap := %s.\nDefinition prog_%d : list action := %s.\n", i, c05CoqFs(c05Sub(c.Init)), i, c05CoqFs(c05Sub(c.Cur)), i, c05CoqProg(prog))
		fmt.Fprintf(&sb, "Example foreign_%d : foreign_bad %v init_%d prog_%d cur_%d = %s.\nProof. vm_compute. reflexivity. Qed.\n", i, c.Complete, i, i, i, want)
		parts := strings.Split(ans[2*i+1], " / ")
		fin, ok := c05ParseListing(parts[len(parts)-1])
		if !ok {
			res.Broken = "oracle answer " + q(ans[2*i+1])
			return
		}
		// the final file system of the model's run, as a set of entries (the order of the association list is the oracle's)
		fmt.Fprintf(&sb, "Example run_%d : let fs := st_fs (w_st (run prog_%d (init_world (mkstate init_%d [] %d) None))) in\n  forallb (fun pe => match lookup (fst pe) fs with Some f => match f_kind f, f_kind (snd pe) with KReg, KReg | KDir, KDir | KSymlink, KSymlink => true | _, _ => false end && str_eqb (f_data f) (f_data (snd pe)) && (f_mode f =? f_mode (snd pe)) | None => false end) %s && Nat.eqb (length fs) %d = true.\nProof. vm_compute. reflexivity. Qed.\n",
			i, i, i, umask, c05CoqFs(fin), len(fin))
	}
	file := filepath.Join(ctx.Work, "c05cases.v")
	if err := os.WriteFile(file, []byte(sb.String()), 0o644); err != nil {
		res.Broken = err.Error()
		return
	}
	cmd := exec.Command("timeout", "600", "coqc", "-Q", filepath.Join(ctx.Verif, "coq"), "PV", file)
	cmd.Dir = ctx.Work
	out, err := cmd.CombinedOutput()
	if err != nil {
		msg := string(out)
		if len(msg) > 600 {
			msg = msg[:600]
		}
		res.AddViolation(Violation{Key: "C05/extraction-vs-vm_compute",
			What:       "the extracted oracle and coqc's vm_compute disagree on foreign_bad / the run model (or coqc failed): " + msg,
			FoundInput: false, Replay: map[string]any{"broken": "extraction cross-check", "detail": msg}})
		return
	}
	res.Count("vm_compute_cross_checked", 2*len(cases))
}
