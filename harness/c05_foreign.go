package main

// C05 (round 4): initial trees with FOREIGN entries at the temporary names.  The model's
// file system (Model/FsProto.v) is any finite map path -> (kind, bytes, mode); the
// theorems C05_foreign_entries_untouched(_crash), C05_no_created_tmp_left and
// C05_taken_tmp_refused say what happens to an entry -- of any kind -- that sits at
// F.pkglint.tmp when F is saved: nothing, at no crash point and under no fault; the save
// of F is refused with an ERROR line.  Here the real binary is started from such trees
// (every kind x every base scenario over the variants), complete / killed before every
// mutating system call / with every call failing, and the extracted specification
// Spec.CrashSpec.foreign_bad judges the resulting tree.

import (
	"fmt"
	"os"
	"path/filepath"
	"strings"
)

// kinds of pre-existing entries at a temporary name
var c05TmpKinds = []string{"empty", "nonempty", "dir", "symlink", "mixed"}
var c05ForeignBases = []string{"single-mk", "pkg4", "plist-sort", "chmod"}

// c05ForeignScenarios: for variant v every kind once, the base scenario rotating
// with kind, variant and seed (quick: each kind once per run; thorough: each kind in
// each of the 12 variants, so every kind meets every base scenario three times).
func c05ForeignScenarios(seed uint64, v int, thorough bool) []string {
	var out []string
	for i, k := range c05TmpKinds {
		if !thorough && i%2 != v%2 {
			continue // quick: every kind once per run, spread over the two variants
		}
		b := c05ForeignBases[(i+v+int(seed%4))%len(c05ForeignBases)]
		out = append(out, b+"+"+k)
	}
	return out
}

// c05PlantForeign puts an entry of the given kind at <file>.pkglint.tmp for a non-empty
// subset of the files the base scenario fixes; the twin tree (same files, no planted
// entries) defines what the saves would have installed.
func c05PlantForeign(s *c05Scenario, t *Tree, r *Rng, base, kind string, mkFixed bool) {
	var cands []string
	switch base {
	case "single-mk", "chmod":
		cands = []string{"cat/pkg/Makefile"}
	case "pkg4":
		cands = []string{"cat/pkg/Makefile", "cat/pkg/PLIST", "cat/pkg/distinfo", "cat/pkg/patches/patch-file.c"}
	case "plist-sort":
		cands = []string{"cat/pkg/PLIST"}
	}
	// pkglint reads every Makefile.* and PLIST.* of a package directory as a file and ends
	// with "FATAL: ... Cannot be read." when that is a directory or a dangling link, before
	// any fix: such entries are planted next to distinfo / the patch only, or the file is
	// given on the command line by itself (the directory is then not scanned)
	unreadable := kind == "dir" || kind == "symlink" || kind == "mixed"
	if unreadable {
		switch base {
		case "single-mk", "chmod":
			s.Args = []string{"-Wall", "-F", "cat/pkg/Makefile"}
		case "plist-sort":
			s.Args = []string{"-Wall", "-F", "cat/pkg/PLIST"}
		case "pkg4":
			cands = cands[2:]
		}
	}
	s.Twin = filepath.Join(filepath.Dir(s.Base), "twin")
	os.RemoveAll(s.Twin)
	if err := CopyTree(s.Base, s.Twin); err != nil {
		panic(err)
	}
	var chosen []string
	for _, f := range cands {
		if r.Chance(60) {
			chosen = append(chosen, f)
		}
	}
	if len(chosen) == 0 {
		chosen = []string{cands[r.Intn(len(cands))]}
	}
	s.Blocked = map[string]string{}
	for _, f := range chosen {
		k := kind
		if k == "mixed" {
			k = Pick(r, []string{"empty", "nonempty", "dir", "symlink"})
		}
		tmp := t.Path(f + ".pkglint.tmp")
		switch k {
		case "empty":
			os.WriteFile(tmp, nil, 0o644)
			os.Chmod(tmp, Pick(r, []os.FileMode{0o644, 0o600, 0o444, 0o664}))
		case "nonempty":
			os.WriteFile(tmp, []byte(strings.Repeat("precious "+fmt.Sprint(r.Intn(1000))+"\n", 1+r.Intn(60))), 0o644)
			os.Chmod(tmp, Pick(r, []os.FileMode{0o644, 0o600, 0o444, 0o640}))
		case "dir":
			os.Mkdir(tmp, 0o755)
			if r.Chance(40) {
				os.WriteFile(filepath.Join(tmp, "keep"), []byte("kept\n"), 0o644)
			}
			os.Chmod(tmp, Pick(r, []os.FileMode{0o755, 0o700, 0o750})) // CopyTree creates directories under the umask
		case "symlink":
			os.Symlink(Pick(r, []string{"DESCR", "/nonexistent/target", "../../doc/nothing-here", "."}), tmp)
		}
		s.Blocked[f] = k
		if base != "chmod" || mkFixed {
			s.ExpectErrs = append(s.ExpectErrs, "ERROR: "+f+".pkglint.tmp: Cannot write: ")
		}
	}
	inner := s.Expect
	s.Expect = func(s *c05Scenario, prog []c05Action, out string) string {
		if inner != nil {
			if why := inner(s, prog, out); why != "" {
				return why
			}
		}
		if base == "chmod" && !mkFixed {
			return ""
		}
		for f := range s.Blocked {
			refused := false
			for _, a := range prog {
				if a.Path == f && a.NoData {
					refused = true
				}
			}
			if !refused {
				return "the save of " + f + " was not refused although " + f + ".pkglint.tmp exists"
			}
		}
		return ""
	}
}

// foreignCheck asks the extracted Spec.CrashSpec.foreign_bad whether every entry of the
// tree that does not belong to the run (neither saved nor mode-fixed) is exactly as it
// was (kind, bytes, mode, or absent as before); in a crash snapshot a temporary file of
// the run's own may exist.  A violation is a found input: the real binary was run from
// that tree and the specification rejects what it left.
func (st *c05State) foreignCheck(s *c05Scenario, prog []c05Action, cur map[string]c05File, complete bool, phase string, rep map[string]any, size int, where string) bool {
	c := "0"
	if complete {
		c = "1"
	}
	req := "foreign / " + c05InitTokens(s.Old, st.umask) + " / " + c05ProgTokens(prog) + " / " + c05InitTokens(cur, st.umask) + " / " + c
	a, err := c05Oracle1(st.ctx, req)
	if err != nil {
		st.broken(err.Error())
		return false
	}
	st.mu.Lock()
	st.res.Count("foreign_spec_evaluations_"+phase, 1)
	for _, k := range s.Blocked {
		st.res.Count("foreign_tmp_"+k+"_judged_"+phase, 1)
	}
	st.mu.Unlock()
	if a == "ok" {
		return false
	}
	bad := unhx(strings.TrimPrefix(a, "bad "))
	o, wasThere := s.Old[bad]
	n, isThere := cur[bad]
	what, desc := "modified", ""
	switch {
	case wasThere && !isThere:
		what, desc = "removed", fmt.Sprintf("the %s has disappeared", c05EntryDesc(o))
	case wasThere:
		desc = fmt.Sprintf("the %s is now a %s", c05EntryDesc(o), c05EntryDesc(n))
	case strings.HasSuffix(bad, ".pkglint.tmp"):
		what, desc = "leftover-tmp", fmt.Sprintf("a %s was left behind", c05EntryDesc(n))
	default:
		what, desc = "new-entry", fmt.Sprintf("a new %s appeared", c05EntryDesc(n))
	}
	rep["file"] = bad
	st.res.AddViolation(Violation{Key: "C05/foreign-entry/" + phase + "/" + what, FoundInput: true, Size: size, Replay: rep,
		What: fmt.Sprintf("scenario %s, %s: %s is neither saved nor mode-fixed by this run, but %s", s.Name, where, bad, desc)})
	return true
}

func c05EntryDesc(f c05File) string {
	switch f.Kind {
	case "D":
		return fmt.Sprintf("directory (mode %#o)", f.Mode)
	case "L":
		return fmt.Sprintf("symbolic link to %q", f.Data)
	}
	return fmt.Sprintf("regular file of %d bytes (mode %#o, %q)", len(f.Data), f.Mode, c05Short(f.Data))
}
