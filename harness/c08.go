package main

// C08: presentation options and option spelling never change what is found.
//
//  1. getopt (exported package) against Model/Getopt.v on the option table
//     regenerated from ParseCommandLine and on a second table with the cases
//     pkglint's table lacks: all argv of <= 3 arguments over a core alphabet,
//     <= 2 over the full alphabet, then random longer ones.
//  2. the real Pkglint.ParseCommandLine (shim) against the model: settings per
//     target variable, exit code, Todo.
//  3. the spelling laws themselves evaluated on the real ParseCommandLine, the
//     pairs being generated from the *documented* table (Spec/OptionsDoc.v).
//  4. Logger scripts (c08_logger.go): real Logger vs Model/Logger.v byte for byte,
//     and presentation irrelevance evaluated on the real Logger.
//  5. whole runs of the real binary on generated trees: equivalent command
//     lines give identical output; -g/-q/-s/-e on/off give the same
//     normalised diagnostic multiset and exit status; --only gives a subset.
//  6. the static audit of option reads outside logging.go.

import (
	"encoding/json"
	"fmt"
	"os"
	"path/filepath"
	"regexp"
	"sort"
	"strconv"
	"strings"
	"time"
	"unicode/utf8"

	pkglint "github.com/rillig/pkglint/v23"
	"github.com/rillig/pkglint/v23/getopt"
)

// ---------- the option table as served by the oracle ----------

type c08Flag struct {
	Name     string
	All, Def bool
	Target   string
}

type c08Opt struct {
	Short  rune
	Long   string
	Kind   string // bool str list group
	Def    bool
	Defs   string
	Target string
	Flags  []c08Flag
}

func c08FetchTable(ctx *Ctx, which string) ([]c08Opt, error) {
	ans, err := runOracle(ctx, "c08", []string{"table " + which})
	if err != nil {
		return nil, err
	}
	var tbl []c08Opt
	for _, rec := range strings.Split(ans[0], "|") {
		f := strings.Split(rec, ":")
		if len(f) != 7 {
			return nil, fmt.Errorf("oracle table record %q", rec)
		}
		sh, err := strconv.Atoi(f[0])
		if err != nil {
			return nil, fmt.Errorf("oracle table record %q", rec)
		}
		o := c08Opt{Short: rune(sh), Long: unhx(f[1]), Kind: f[2], Def: f[3] == "1", Defs: unhx(f[4]), Target: unhx(f[5])}
		if f[6] != "" {
			for _, fr := range strings.Split(f[6], ",") {
				g := strings.Split(fr, "/")
				if len(g) != 4 {
					return nil, fmt.Errorf("oracle flag record %q", fr)
				}
				o.Flags = append(o.Flags, c08Flag{Name: unhx(g[0]), All: g[1] == "1", Def: g[2] == "1", Target: unhx(g[3])})
			}
		}
		tbl = append(tbl, o)
	}
	return tbl, nil
}

// ---------- running the real getopt on a table ----------

type c08Real struct {
	Status   string // ok | panic:... | the error text
	Settings string
	Rem      string
}

func c08RealParse(tbl []c08Opt, argv []string) (r c08Real) {
	opts := getopt.NewOptions()
	bools := make([]*bool, len(tbl))
	strs := make([]*string, len(tbl))
	lists := make([]*[]string, len(tbl))
	groups := make([][]*bool, len(tbl))
	for i, o := range tbl {
		switch o.Kind {
		case "bool":
			bools[i] = new(bool)
			opts.AddFlagVar(o.Short, o.Long, bools[i], o.Def, "")
		case "str":
			strs[i] = new(string)
			opts.AddStrVar(o.Short, o.Long, strs[i], o.Defs, "")
		case "list":
			lists[i] = new([]string)
			opts.AddStrList(o.Short, o.Long, lists[i], "")
		case "group":
			g := opts.AddFlagGroup(o.Short, o.Long, "", "")
			for _, f := range o.Flags {
				b := new(bool)
				groups[i] = append(groups[i], b)
				if f.All {
					g.AddFlagVar(f.Name, b, f.Def, "")
				} else {
					g.AddFlagVarNoAll(f.Name, b, f.Def, "")
				}
			}
		}
	}
	var rem []string
	var err error
	func() {
		defer func() {
			if p := recover(); p != nil {
				r.Status = fmt.Sprintf("panic:%v", p)
			}
		}()
		rem, err = opts.Parse(argv)
	}()
	if r.Status == "" {
		if err != nil {
			r.Status = err.Error()
		} else {
			r.Status = "ok"
		}
	}
	vals := make([]string, len(tbl))
	for i, o := range tbl {
		switch o.Kind {
		case "bool":
			vals[i] = "b" + c08b01(*bools[i])
		case "str":
			vals[i] = "s" + hx(*strs[i])
		case "list":
			hs := make([]string, len(*lists[i]))
			for j, s := range *lists[i] {
				hs[j] = hx(s)
			}
			vals[i] = "l" + strings.Join(hs, ",")
		case "group":
			s := "g"
			for _, b := range groups[i] {
				s += c08b01(*b)
			}
			vals[i] = s
		}
	}
	r.Settings = strings.Join(vals, ";")
	hs := make([]string, len(rem))
	for j, s := range rem {
		hs[j] = hx(s)
	}
	r.Rem = "r" + strings.Join(hs, ",")
	return r
}

func c08b01(b bool) string {
	if b {
		return "1"
	}
	return "0"
}

// c08StatusAgree: does the real error text belong to the model's error kind
// (and name the same option)?  Message wording beyond that is not compared.
func c08StatusAgree(model string, real string, prog string) bool {
	if model == "ok" {
		return real == "ok"
	}
	if model == "panic" {
		return strings.HasPrefix(real, "panic:")
	}
	if real == "ok" || strings.HasPrefix(real, "panic:") {
		return false
	}
	msg := strings.TrimPrefix(real, prog+": ")
	f := strings.Split(model, ":")
	switch f[1] {
	case "unknownlong":
		return strings.HasPrefix(msg, "unknown option: --")
	case "unknownshort":
		r, _ := strconv.Atoi(f[2])
		return msg == "unknown option: -"+string([]rune{rune(r)})
	case "unknownflag":
		return strings.HasPrefix(msg, "unknown option: -") && strings.HasSuffix(msg, unhx(f[3]))
	case "ambiguous":
		return strings.HasPrefix(msg, "ambiguous option: --") && strings.HasSuffix(msg, " could mean --"+unhx(f[2])+" or --"+unhx(f[3]))
	case "invalidarg":
		return msg == "invalid argument for option --"+unhx(f[2])
	case "requiresarg":
		sh, _ := strconv.Atoi(f[2])
		return msg == "option requires an argument: --"+unhx(f[3]) || msg == "option requires an argument: -"+string([]rune{rune(sh)})
	}
	return false
}

func c08ErrKind(model string) string {
	f := strings.Split(model, ":")
	if len(f) > 1 {
		return f[1]
	}
	return f[0]
}

// ---------- alphabets generated from a table ----------

func c08UniquePrefixes(tbl []c08Opt, long string) []string {
	var ps []string
	for n := 1; n < len(long); n++ {
		p := long[:n]
		cnt := 0
		exact := false
		for _, o := range tbl {
			if strings.HasPrefix(o.Long, p) {
				cnt++
			}
			if o.Long == p {
				exact = true
			}
		}
		if cnt == 1 && !exact {
			ps = append(ps, p)
		}
	}
	return ps
}

func c08AmbiguousPrefixes(tbl []c08Opt) []string {
	seen := map[string]bool{}
	var ps []string
	for _, o := range tbl {
		for n := 1; n <= len(o.Long); n++ {
			p := o.Long[:n]
			cnt := 0
			exact := false
			for _, q := range tbl {
				if strings.HasPrefix(q.Long, p) {
					cnt++
				}
				if q.Long == p {
					exact = true
				}
			}
			if cnt >= 2 && !exact && !seen[p] {
				seen[p] = true
				ps = append(ps, p)
			}
		}
	}
	return ps
}

func c08Short(o c08Opt) string { return "-" + string([]rune{o.Short}) }

// c08Alphabet returns (core, full): argument strings in every spelling the
// property names.  core: every option in short form, the general tokens, and
// for a few options of each kind the long / prefix / =value / cluster / no-
// forms; full: all of those for every option.
func c08Alphabet(tbl []c08Opt) (core, full []string) {
	general := []string{"--", "-", "", "dir", "x", "--unknown", "--=x", "-\xff", "-\xc3"}
	unknownShort := "-Z"
	for _, c := range "ZYXzyx9" {
		used := false
		for _, o := range tbl {
			if o.Short == c {
				used = true
			}
		}
		if !used {
			unknownShort = "-" + string(c)
			break
		}
	}
	general = append(general, unknownShort)
	amb := c08AmbiguousPrefixes(tbl)
	for i, p := range amb {
		if i < 2 {
			general = append(general, "--"+p)
		}
		full = append(full, "--"+p, "--"+p+"=on")
	}
	var boolsSh, argsSh []string
	nb, na, ng := 0, 0, 0
	for _, o := range tbl {
		hasShort := o.Short != 0
		var forms, coreForms []string
		if hasShort {
			coreForms = append(coreForms, c08Short(o))
		}
		ups := c08UniquePrefixes(tbl, o.Long)
		up := ""
		if len(ups) > 0 {
			up = ups[0]
		}
		forms = append(forms, "--"+o.Long)
		for _, p := range ups {
			forms = append(forms, "--"+p)
		}
		var sel []string
		switch o.Kind {
		case "bool":
			forms = append(forms, "--"+o.Long+"=on", "--"+o.Long+"=off", "--"+o.Long+"=maybe", "--"+o.Long+"=", "--"+o.Long+"=yes", "--"+o.Long+"=0")
			if up != "" {
				forms = append(forms, "--"+up+"=no")
			}
			if hasShort {
				boolsSh = append(boolsSh, string([]rune{o.Short}))
			}
			sel = []string{"--" + o.Long, "--" + o.Long + "=off", "--" + o.Long + "=maybe"}
			if up != "" {
				sel = append(sel, "--"+up)
			}
			if nb < 3 {
				coreForms = append(coreForms, sel...)
			}
			nb++
		case "str", "list":
			forms = append(forms, "--"+o.Long+"=val", "--"+o.Long+"=", "--"+o.Long+"=a=b")
			if hasShort {
				forms = append(forms, c08Short(o)+"val", c08Short(o)+"-q", c08Short(o)+"=v")
				argsSh = append(argsSh, string([]rune{o.Short}))
			}
			if up != "" {
				forms = append(forms, "--"+up+"=val")
			}
			sel = []string{"--" + o.Long, "--" + o.Long + "=val"}
			if hasShort {
				sel = append(sel, c08Short(o)+"val")
			}
			if up != "" {
				sel = append(sel, "--"+up)
			}
			if na < 3 {
				coreForms = append(coreForms, sel...)
			}
			na++
		case "group":
			vals := []string{"all", "none", "bogus", "", ",", "all,none", "none,all"}
			for _, f := range o.Flags {
				vals = append(vals, f.Name, "no-"+f.Name, "all,no-"+f.Name, "none,"+f.Name, f.Name+",bogus", "bogus,"+f.Name,
					f.Name+",all", f.Name+",none", "no-"+f.Name+",all", "no-"+f.Name+",none")
			}
			if len(o.Flags) >= 2 {
				vals = append(vals, o.Flags[0].Name+","+o.Flags[1].Name, "no-"+o.Flags[1].Name+","+o.Flags[0].Name)
			}
			for _, v := range vals {
				if hasShort && v != "" {
					forms = append(forms, c08Short(o)+v)
				}
				forms = append(forms, "--"+o.Long+"="+v)
			}
			if up != "" {
				forms = append(forms, "--"+up+"=all")
			}
			if hasShort {
				argsSh = append(argsSh, string([]rune{o.Short}))
			}
			if hasShort {
				for _, f := range o.Flags { // flags exempt from all/none, alone and before/after all: both orders occur in <=3 arguments
					if !f.All {
						coreForms = append(coreForms, c08Short(o)+f.Name, c08Short(o)+f.Name+",all", c08Short(o)+"none")
					}
				}
			}
			if ng < 2 && hasShort && len(o.Flags) > 0 {
				f0 := o.Flags[len(o.Flags)-1].Name
				coreForms = append(coreForms, c08Short(o)+"all", c08Short(o)+"no-"+f0, c08Short(o)+"all,no-"+f0, c08Short(o)+f0,
					c08Short(o)+"bogus", "--"+o.Long+"=none,"+f0, "--"+o.Long)
			}
			ng++
		}
		core = append(core, coreForms...)
		full = append(full, coreForms...)
		full = append(full, forms...)
	}
	// clusters
	var clusters []string
	if len(boolsSh) >= 2 {
		a, b := boolsSh[len(boolsSh)-1], boolsSh[len(boolsSh)-2]
		clusters = append(clusters, "-"+a+b, "-"+b+a+a, "-"+a+"-"+b, "-"+a+"\xff"+b)
		if len(argsSh) >= 1 {
			o := argsSh[0]
			clusters = append(clusters, "-"+a+o, "-"+a+o+"val", "-"+a+b+o+"x,y")
		}
		for i := 0; i+1 < len(boolsSh); i++ {
			full = append(full, "-"+boolsSh[i]+boolsSh[i+1])
			for _, o := range argsSh {
				full = append(full, "-"+boolsSh[i]+o, "-"+boolsSh[i]+o+"all")
			}
		}
	}
	core = append(core, general...)
	core = append(core, clusters...)
	full = append(full, general...)
	full = append(full, clusters...)
	return c08Dedup(core), c08Dedup(full)
}

func c08Dedup(xs []string) []string {
	seen := map[string]bool{}
	var out []string
	for _, x := range xs {
		if !seen[x] {
			seen[x] = true
			out = append(out, x)
		}
	}
	return out
}

// ---------- 1. getopt correspondence ----------

func c08ParseReq(which string, argv []string) string {
	var sb strings.Builder
	sb.WriteString("parse ")
	sb.WriteString(which)
	for _, a := range argv {
		sb.WriteByte(' ')
		sb.WriteString(hx(a))
	}
	return sb.String()
}

func c08HexArgv(argv []string) []any {
	out := make([]any, len(argv))
	for i, a := range argv {
		out[i] = hx(a)
	}
	return out
}

func c08UnhexArgv(v any) []string {
	xs, _ := v.([]any)
	out := make([]string, 0, len(xs))
	for _, x := range xs {
		s, _ := x.(string)
		out = append(out, unhx(s))
	}
	return out
}

func c08ArgvSize(argv []string) int {
	n := 1
	for _, a := range argv {
		n += 1 + len(a)
	}
	return n
}

// c08CheckGetopt compares getopt.Options.Parse with the model on the given argument vectors.
func c08CheckGetopt(ctx *Ctx, res *Result, which string, tbl []c08Opt, argvs [][]string) {
	reqs := make([]string, len(argvs))
	real := make([]c08Real, len(argvs))
	parallelFor(16, func(w int) {
		for i := w; i < len(argvs); i += 16 {
			reqs[i] = c08ParseReq(which, argvs[i])
			real[i] = c08RealParse(tbl, argvs[i])
		}
	})
	ans, err := runOracle(ctx, "c08", reqs)
	if err != nil {
		res.Broken = err.Error()
		return
	}
	for i, argv := range argvs {
		f := strings.Split(ans[i], " ")
		if len(f) != 3 {
			res.Broken = "oracle answer " + q(ans[i]) + " for " + reqs[i]
			return
		}
		kind := c08ErrKind(f[0])
		res.Count("getopt."+which+".status."+kind, 1)
		what := ""
		switch {
		case f[0] == "fuel":
			what = "model ran out of fuel"
		case !c08StatusAgree(f[0], real[i].Status, argv[0]):
			what = fmt.Sprintf("status: getopt %q, model %q", real[i].Status, f[0])
		case f[0] == "panic":
			// both panic: nothing else to compare
		case f[1] != real[i].Settings:
			what = fmt.Sprintf("settings: getopt %s, model %s", real[i].Settings, f[1])
		case f[2] != real[i].Rem:
			what = fmt.Sprintf("remaining args: getopt %s, model %s", real[i].Rem, f[2])
		}
		if what != "" {
			res.AddViolation(Violation{
				Key:        "C08/correspondence/getopt-" + which,
				What:       fmt.Sprintf("getopt.Parse%q over table %s disagrees with Model/Getopt.v: %s", argv, which, what),
				FoundInput: false, Size: c08ArgvSize(argv),
				Replay: map[string]any{"kind": "getopt", "table": which, "argv": c08HexArgv(argv),
					"broken": "correspondence getopt.Options.Parse = Model.Getopt.parse"},
			})
		}
	}
	res.Evaluations += len(argvs)
	res.TracesValidated += len(argvs)
}

func c08AllArgv(alpha []string, maxArgs int) [][]string {
	out := [][]string{{"prog"}}
	prev := [][]string{{"prog"}}
	for n := 1; n <= maxArgs; n++ {
		var next [][]string
		for _, p := range prev {
			for _, a := range alpha {
				v := make([]string, len(p)+1)
				copy(v, p)
				v[len(p)] = a
				next = append(next, v)
			}
		}
		out = append(out, next...)
		prev = next
	}
	return out
}

func c08RandomArgv(rng *Rng, alpha []string, n int) [][]string {
	out := make([][]string, n)
	for i := range out {
		k := 3 + rng.Intn(5)
		v := []string{"prog"}
		for j := 0; j < k; j++ {
			a := Pick(rng, alpha)
			if rng.Chance(8) && len(a) > 0 { // mutate: drop, duplicate or replace a byte
				b := []byte(a)
				p := rng.Intn(len(b))
				switch rng.Intn(3) {
				case 0:
					b = append(b[:p], b[p+1:]...)
				case 1:
					b = append(b[:p+1], b[p:]...)
				default:
					b[p] = byte("-=,aWq\xffno"[rng.Intn(9)])
				}
				a = string(b)
			}
			v = append(v, a)
		}
		out[i] = v
	}
	return out
}

// ---------- 2. ParseCommandLine against the model ----------

// c08CheckPCL runs the real Pkglint.ParseCommandLine and compares with the model over the regenerated table.
func c08CheckPCL(ctx *Ctx, res *Result, tbl []c08Opt, argvs [][]string) {
	reqs := make([]string, len(argvs))
	for i, a := range argvs {
		reqs[i] = c08ParseReq("gen", a)
	}
	ans, err := runOracle(ctx, "c08", reqs)
	if err != nil {
		res.Broken = err.Error()
		return
	}
	for i, argv := range argvs {
		r := pkglint.VerifParseCommandLine(argv)
		f := strings.Split(ans[i], " ")
		if len(f) != 3 {
			res.Broken = "oracle answer " + q(ans[i])
			return
		}
		what := c08ComparePCL(tbl, f, r)
		res.Count("pcl.exit."+strconv.Itoa(r.Exit), 1)
		if what != "" {
			res.AddViolation(Violation{
				Key:        "C08/correspondence/parsecommandline",
				What:       fmt.Sprintf("ParseCommandLine%q disagrees with the model over the regenerated table: %s", argv, what),
				FoundInput: false, Size: c08ArgvSize(argv),
				Replay: map[string]any{"kind": "pcl", "argv": c08HexArgv(argv),
					"broken": "correspondence Pkglint.ParseCommandLine = Model.Getopt.parse option_table"},
			})
		}
	}
	res.Evaluations += len(argvs)
	res.TracesValidated += len(argvs)
}

func c08ComparePCL(tbl []c08Opt, model []string, r pkglint.VerifParseCommandLineResult) string {
	if r.Panic != "" {
		if model[0] == "panic" {
			return ""
		}
		return "ParseCommandLine " + r.Panic + ", model " + model[0]
	}
	if model[0] == "panic" || model[0] == "fuel" {
		return "model " + model[0] + ", ParseCommandLine exit " + strconv.Itoa(r.Exit)
	}
	vals := strings.Split(model[1], ";")
	if len(vals) != len(tbl) {
		return "model settings do not match the table"
	}
	get := func(target string) (string, bool) {
		v, ok := r.Fields[target]
		return v, ok
	}
	showHelp, showVersion := false, false
	for i, o := range tbl {
		switch {
		case o.Target == "showHelp":
			showHelp = vals[i] == "b1"
		case o.Target == "showVersion":
			showVersion = vals[i] == "b1"
		case o.Kind == "group":
			if len(vals[i]) != 1+len(o.Flags) {
				return "model group value " + vals[i]
			}
			for j, fl := range o.Flags {
				v, ok := get(fl.Target)
				if !ok {
					return "the shim does not know the target " + fl.Target + " (extend shim/verif_c08.go)"
				}
				if v != "b"+string(vals[i][1+j]) {
					return fmt.Sprintf("%s: real %s, model b%c", fl.Target, v, vals[i][1+j])
				}
			}
		default:
			v, ok := get(o.Target)
			if !ok {
				return "the shim does not know the target " + o.Target + " (extend shim/verif_c08.go)"
			}
			if v != vals[i] {
				return fmt.Sprintf("%s: real %s, model %s", o.Target, v, vals[i])
			}
		}
	}
	if model[0] != "ok" {
		if r.Exit != 1 {
			return fmt.Sprintf("model %s, ParseCommandLine exit %d", model[0], r.Exit)
		}
		first, _, _ := strings.Cut(r.Stderr, "\n")
		if !c08StatusAgree(model[0], first, first[:strings.Index(first+": ", ": ")]) {
			return fmt.Sprintf("model %s, ParseCommandLine says %q", model[0], first)
		}
		return ""
	}
	switch {
	case showHelp:
		if r.Exit != 0 || !strings.HasPrefix(r.Stdout, "usage:") {
			return fmt.Sprintf("model: help requested; exit %d, stdout %q", r.Exit, c08Head(r.Stdout))
		}
	case showVersion:
		if r.Exit != 0 || strings.HasPrefix(r.Stdout, "usage:") || strings.Count(r.Stdout, "\n") != 1 {
			return fmt.Sprintf("model: version requested; exit %d, stdout %q", r.Exit, c08Head(r.Stdout))
		}
	default:
		if r.Exit != -1 {
			return fmt.Sprintf("model: ok; exit %d, stderr %q", r.Exit, c08Head(r.Stderr))
		}
		var want []string
		if model[2] != "r" {
			for _, h := range strings.Split(model[2][1:], ",") {
				want = append(want, filepath.ToSlash(unhx(h)))
			}
		}
		if len(want) == 0 {
			want = []string{"."}
		}
		if strings.Join(want, "\x00") != strings.Join(r.Todo, "\x00") {
			return fmt.Sprintf("Todo: real %q, model %q", r.Todo, want)
		}
	}
	return ""
}

func c08Head(s string) string {
	if len(s) > 80 {
		return s[:80] + "..."
	}
	return s
}

// ---------- 3. the spelling laws on the real ParseCommandLine ----------

type c08LawPair struct {
	Law  string
	A, B []string // complete argv incl. argv[0]
}

// c08LawPairs instantiates each spelling law with the documented table.
func c08LawPairs(doc []c08Opt) []c08LawPair {
	var ps []c08LawPair
	type ctxt struct{ pre, post []string }
	var firstBool, firstArg *c08Opt
	for i := range doc {
		if doc[i].Kind == "bool" && doc[i].Long != "help" && doc[i].Long != "version" && firstBool == nil {
			firstBool = &doc[i]
		}
		if doc[i].Kind == "list" && firstArg == nil {
			firstArg = &doc[i]
		}
	}
	ctxs := []ctxt{{nil, nil}, {nil, []string{"dir"}}, {[]string{"first"}, []string{"dir", "--", "-x"}}}
	if firstBool != nil {
		ctxs = append(ctxs, ctxt{[]string{"--" + firstBool.Long}, []string{c08Short(*firstBool), "dir"}})
	}
	if firstArg != nil {
		ctxs = append(ctxs, ctxt{[]string{c08Short(*firstArg), "pat"}, []string{"--" + firstArg.Long + "=q", "d"}})
	}
	add := func(law string, x, y []string) {
		for _, c := range ctxs {
			a := append(append(append([]string{"pkglint"}, c.pre...), x...), c.post...)
			b := append(append(append([]string{"pkglint"}, c.pre...), y...), c.post...)
			ps = append(ps, c08LawPair{law, a, b})
		}
	}
	var boolShorts []string
	for _, o := range doc {
		if o.Kind == "bool" {
			boolShorts = append(boolShorts, string([]rune{o.Short}))
		}
	}
	for _, o := range doc {
		sh, lg := c08Short(o), "--"+o.Long
		ups := c08UniquePrefixes(doc, o.Long)
		switch o.Kind {
		case "bool":
			add("long_eq_short", []string{sh}, []string{lg})
			for _, p := range ups {
				add("unique_prefix_eq_long", []string{"--" + p}, []string{lg})
				add("unique_prefix_eq_long", []string{"--" + p + "=off"}, []string{lg + "=off"})
			}
			for _, b := range boolShorts {
				add("cluster_eq_separate", []string{sh + b}, []string{sh, "-" + b})
			}
			add("cluster_eq_separate", []string{sh + strings.Join(boolShorts, "")}, append([]string{sh}, c08Dash(boolShorts)...))
		case "list", "str":
			for _, v := range []string{"val", "-q", "a=b", "--", "x,y"} {
				add("long_eq_short", []string{sh, v}, []string{lg, v})
				add("eq_arg_eq_next_arg", []string{lg + "=" + v}, []string{lg, v})
				add("eq_arg_eq_next_arg", []string{sh + v}, []string{sh, v})
				for _, p := range ups {
					add("unique_prefix_eq_long", []string{"--" + p + "=" + v}, []string{lg + "=" + v})
					add("unique_prefix_eq_long", []string{"--" + p, v}, []string{lg, v})
				}
			}
			add("eq_arg_eq_next_arg", []string{lg + "="}, []string{lg, ""})
			for _, b := range boolShorts {
				add("cluster_eq_separate", []string{"-" + b + sh[1:] + "val"}, []string{"-" + b, sh + "val"})
				add("cluster_eq_separate", []string{"-" + b + sh[1:], "val"}, []string{"-" + b, sh, "val"})
			}
		case "group":
			vals := []string{"all", "none", "bogus"}
			for _, f := range o.Flags {
				vals = append(vals, f.Name, "no-"+f.Name)
			}
			for _, v := range vals {
				add("long_eq_short", []string{sh, v}, []string{lg, v})
				add("eq_arg_eq_next_arg", []string{lg + "=" + v}, []string{lg, v})
				add("eq_arg_eq_next_arg", []string{sh + v}, []string{sh, v})
				for _, p := range ups {
					add("unique_prefix_eq_long", []string{"--" + p + "=" + v}, []string{lg + "=" + v})
				}
				for _, w := range vals {
					add("group_comma_eq_repeat", []string{sh + v + "," + w}, []string{sh + v, sh + w})
					add("group_comma_eq_repeat", []string{lg + "=" + v + "," + w}, []string{lg + "=" + v, lg + "=" + w})
				}
			}
			for _, b := range boolShorts {
				add("cluster_eq_separate", []string{"-" + b + sh[1:] + "all"}, []string{"-" + b, sh + "all"})
			}
			for _, f := range o.Flags {
				if f.All {
					continue
				}
				for _, x := range []string{f.Name, "no-" + f.Name} {
					for _, a := range []string{"all", "none"} {
						add("exempt_flag_order", []string{sh + x, sh + a}, []string{sh + a, sh + x})
						add("exempt_flag_order", []string{sh + x + "," + a}, []string{sh + a + "," + x})
						add("exempt_flag_order", []string{lg + "=" + x, sh + a}, []string{lg + "=" + a + "," + x})
					}
				}
			}
		}
	}
	return ps
}

func c08Dash(xs []string) []string {
	out := make([]string, len(xs))
	for i, x := range xs {
		out[i] = "-" + x
	}
	return out
}

func c08PCLEqual(a, b pkglint.VerifParseCommandLineResult) string {
	if a.Panic != b.Panic {
		return fmt.Sprintf("panic %q vs %q", a.Panic, b.Panic)
	}
	if a.Exit != b.Exit {
		return fmt.Sprintf("exit %d vs %d", a.Exit, b.Exit)
	}
	for _, k := range sortedKeys(a.Fields) {
		if a.Fields[k] != b.Fields[k] {
			return fmt.Sprintf("%s: %s vs %s", k, a.Fields[k], b.Fields[k])
		}
	}
	if strings.Join(a.Todo, "\x00") != strings.Join(b.Todo, "\x00") {
		return fmt.Sprintf("Todo %q vs %q", a.Todo, b.Todo)
	}
	if a.Exit != 1 && a.Stdout != b.Stdout {
		return fmt.Sprintf("stdout %q vs %q", c08Head(a.Stdout), c08Head(b.Stdout))
	}
	return ""
}

func c08CheckLawPairs(res *Result, pairs []c08LawPair) {
	for _, p := range pairs {
		ra := pkglint.VerifParseCommandLine(p.A)
		rb := pkglint.VerifParseCommandLine(p.B)
		res.Count("law."+p.Law, 1)
		if ra.Exit == -1 {
			res.Count("law."+p.Law+".accepted", 1)
		}
		if d := c08PCLEqual(ra, rb); d != "" {
			res.AddViolation(Violation{
				Key:        "C08/spelling/" + p.Law,
				What:       fmt.Sprintf("%s fails on the real ParseCommandLine: %q and %q are documented as equivalent but give %s", p.Law, p.A, p.B, d),
				FoundInput: true, Size: c08ArgvSize(p.A) + c08ArgvSize(p.B),
				Replay: map[string]any{"kind": "lawpair", "law": p.Law, "a": c08HexArgv(p.A), "b": c08HexArgv(p.B)},
			})
		}
		// after "--" everything is an argument
	}
	res.Evaluations += 2 * len(pairs)
}

func c08CheckDashDash(res *Result, doc []c08Opt) {
	var tails [][]string
	for _, o := range doc {
		tails = append(tails, []string{c08Short(o)}, []string{"--" + o.Long, "x"}, []string{"--" + o.Long + "=on", "--", c08Short(o) + "all"})
	}
	def := pkglint.VerifParseCommandLine([]string{"pkglint", "d"})
	for _, t := range tails {
		argv := append([]string{"pkglint", "--"}, t...)
		r := pkglint.VerifParseCommandLine(argv)
		res.Count("law.after_dashdash_are_args", 1)
		d := ""
		switch {
		case r.Exit != -1 || r.Panic != "":
			d = fmt.Sprintf("exit %d %s", r.Exit, r.Panic)
		case strings.Join(r.Todo, "\x00") != strings.Join(t, "\x00"):
			d = fmt.Sprintf("Todo %q", r.Todo)
		default:
			for _, k := range sortedKeys(def.Fields) {
				if def.Fields[k] != r.Fields[k] {
					d = fmt.Sprintf("%s changed to %s", k, r.Fields[k])
				}
			}
		}
		if d != "" {
			res.AddViolation(Violation{
				Key:        "C08/spelling/after_dashdash_are_args",
				What:       fmt.Sprintf("arguments after -- are not plain arguments: %q gives %s", argv, d),
				FoundInput: true, Size: c08ArgvSize(argv),
				Replay: map[string]any{"kind": "dashdash", "a": c08HexArgv(argv)},
			})
		}
	}
	res.Evaluations += len(tails)
}

// an abbreviation that fits two documented long names is an error, whatever follows it
func c08CheckAmbiguous(res *Result, doc []c08Opt) {
	for _, p := range c08AmbiguousPrefixes(doc) {
		for _, argv := range [][]string{{"pkglint", "--" + p}, {"pkglint", "--" + p + "=on", "dir"}, {"pkglint", "dir", "--" + p, "x"}} {
			r := pkglint.VerifParseCommandLine(argv)
			res.Count("law.ambiguous_prefix_rejected", 1)
			if r.Exit != 1 || !strings.Contains(r.Stderr, "ambiguous") {
				first, _, _ := strings.Cut(r.Stderr, "\n")
				res.AddViolation(Violation{
					Key:        "C08/spelling/ambiguous_prefix_rejected",
					What:       fmt.Sprintf("--%s abbreviates two documented options but %q is not rejected as ambiguous: exit %d %q", p, argv, r.Exit, first),
					FoundInput: true, Size: c08ArgvSize(argv),
					Replay: map[string]any{"kind": "ambiguous", "a": c08HexArgv(argv)},
				})
			}
		}
	}
}

// ---------- 5. whole runs ----------

// the extra Makefile lines of the generated packages; each variant triggers
// several diagnostics of different levels, some with explanations, some fixable
var c08Variants = [][]string{
	{"USE_TOOLS+=\tgmake", "FOO=\tbar", "BAR = baz", "CFLAGS+= -O2 ${UNDEFINED}", ".include \"../../mk/bsd.prefs.mk\"",
		".if ${OPSYS} == NetBSD", ".endif", "SUBST_CLASSES+=\ta", "do-build:", "\tcd ${WRKSRC} && echo $$x ${FOO} `ls`; rm -f /tmp/x"},
	{"BAR = baz", "BAR = baz", "PKGNAME=\t${DISTNAME}", "USE_LANGUAGES=\tc c++ fortran99", "CONFIGURE_ARGS+=\t--prefix=/usr/pkg", "post-install:", "\tcp a b", "\tcp a b"},
	{"GNU_CONFIGURE= yes", "WRKSRC=\t${WRKDIR}/${DISTNAME}", "DEPENDS+=\tfoo>=1:../../cat/nonexistent", "MAKE_ENV+=\tA=b \\", "\tC=d \\", "\tE=${F}", "BUILD_DEFS+=\tVARBASE"},
	{},
}

func c08WriteTree(root string, variant int) *Tree {
	t := NewBaseTree(root)
	t.WritePackage("cat/pkg", c08Variants[variant%len(c08Variants)])
	if variant%2 == 1 {
		t.WritePackage("cat/pkg2", c08Variants[(variant+1)%len(c08Variants)])
		t.Write("cat/Makefile", lines(cvsID, "", "COMMENT=\tComment for the category", "", "SUBDIR+=\tpkg", "SUBDIR+=\tpkg2", "", ".include \"../mk/misc/category.mk\""))
	}
	return t
}

var c08HintRe = regexp.MustCompile(`(?m)^\(Run ".*" to (show explanations|show what can be fixed automatically|automatically fix some issues)\.\)$`)

// c08NormalizeHints replaces the command line echoed in the summary hints (it
// repeats argv as typed, so it differs between equivalent spellings by design).
func c08NormalizeHints(out string) string {
	return c08HintRe.ReplaceAllString(out, `(Run "<argv>" to $1.)`)
}

// c08DiagSet extracts the normalised diagnostic multiset (level, file, lines, message)
// from an output in traditional or gcc form, ignoring source lines (">\t", "+\t",
// "-\t", "\t") and explanation lines ("\t...").
func c08DiagSet(out string, gcc bool) []string {
	var ks []string
	lv := map[string]string{"error": "ERROR", "warning": "WARN", "note": "NOTE", "autofix": "AUTOFIX", "fatal": "FATAL"}
	for _, l := range strings.Split(out, "\n") {
		if l == "" || l[0] == '\t' || strings.HasPrefix(l, ">\t") || strings.HasPrefix(l, "+\t") || strings.HasPrefix(l, "-\t") {
			continue
		}
		var d Diag
		if gcc {
			m := reDiagGcc.FindStringSubmatch(l)
			if m == nil {
				continue
			}
			d = Diag{Level: lv[m[4]], Path: m[1], Msg: m[5]}
			if m[2] != "" {
				d.Line1, _ = strconv.Atoi(m[2])
				d.Line2 = d.Line1
				if m[3] != "" {
					d.Line2, _ = strconv.Atoi(m[3])
				}
			}
		} else {
			if !reDiagTrad.MatchString(l) {
				continue
			}
			d, _ = ParseDiag(l)
		}
		ks = append(ks, d.Key())
	}
	sort.Strings(ks)
	return ks
}

func c08Subset(a, b []string) (missing string, ok bool) { // multiset a ⊆ multiset b, both sorted
	j := 0
	for _, x := range a {
		for j < len(b) && b[j] < x {
			j++
		}
		if j >= len(b) || b[j] != x {
			return x, false
		}
		j++
	}
	return "", true
}

type c08Run struct {
	Variant int
	Argv    []string // without argv[0]
}

func c08DoRun(ctx *Ctx, dir string, r c08Run) RunResult {
	root := filepath.Join(dir, fmt.Sprintf("t%d", r.Variant))
	if _, err := os.Stat(root); err != nil {
		c08WriteTree(root, r.Variant)
	}
	return RunPkglint(ctx, root, 30*time.Second, r.Argv...)
}

// command-line pairs for the whole-run layer, from the documented table
func c08RunPairs(doc []c08Opt, rng *Rng, n int) []c08LawPair {
	all := c08LawPairs(doc)
	var usable []c08LawPair
	for _, p := range all {
		bad := false
		for _, a := range append(append([]string{}, p.A[1:]...), p.B[1:]...) {
			// not in a whole run: help/version (no run), autofix (would modify the tree),
			// network, profiling, debug (timing dependent output), import
			for _, w := range []string{"-h", "--h", "-V", "--v", "-F", "--a", "-n", "--n", "-p", "--p", "-d", "--de", "-I", "--du", "-i", "--i"} {
				if a == w || (strings.HasPrefix(a, w) && strings.HasPrefix(w, "--")) {
					bad = true
				}
			}
			if strings.HasPrefix(a, "-") && !strings.HasPrefix(a, "--") && len(a) > 2 && !strings.HasPrefix(a, "-W") && !strings.HasPrefix(a, "-C") && !strings.HasPrefix(a, "-o") {
				for _, c := range a[1:] {
					if strings.ContainsRune("hVFnpdIi", c) {
						bad = true
					}
				}
			}
		}
		if !bad {
			usable = append(usable, p)
		}
	}
	byLaw := map[string][]c08LawPair{}
	for _, p := range usable {
		byLaw[p.Law] = append(byLaw[p.Law], p)
	}
	var out []c08LawPair
	laws := sortedKeys(byLaw)
	for i := 0; i < n; i++ {
		ps := byLaw[laws[i%len(laws)]]
		out = append(out, ps[rng.Intn(len(ps))])
	}
	return out
}

// c08FixDirs replaces the placeholder arguments of a law pair by real directories and patterns.
func c08FixArgs(argv []string) []string {
	out := []string{"-Wall"}
	for _, a := range argv[1:] {
		switch a {
		case "dir", "d":
			a = "cat/pkg"
		case "first":
			a = "cat/pkg/Makefile"
		case "pat":
			a = "not used"
		}
		out = append(out, a)
	}
	return out
}

func c08CheckRunPair(ctx *Ctx, res *Result, dir string, variant int, p c08LawPair) {
	a, b := c08FixArgs(p.A), c08FixArgs(p.B)
	ra := c08DoRun(ctx, dir, c08Run{variant, a})
	rb := c08DoRun(ctx, dir, c08Run{variant, b})
	res.Count("run.pair."+p.Law, 1)
	if len(ParseDiags(ra.Stdout)) > 0 {
		res.Count("run.pair.with-diagnostics", 1)
	}
	d := ""
	switch {
	case ra.TimedOut || rb.TimedOut:
		d = "timeout"
	case ra.Exit != rb.Exit:
		d = fmt.Sprintf("exit %d vs %d", ra.Exit, rb.Exit)
	case ra.Exit == 1 && strings.Contains(ra.Stderr, "usage:") && strings.Contains(rb.Stderr, "usage:"):
		// both rejected by the option parser: the error text names the option as typed
	case c08NormalizeHints(ra.Stdout) != c08NormalizeHints(rb.Stdout):
		d = fmt.Sprintf("stdout differs: %q vs %q", c08FirstDiff(ra.Stdout, rb.Stdout), c08FirstDiff(rb.Stdout, ra.Stdout))
	case ra.Stderr != rb.Stderr:
		d = fmt.Sprintf("stderr differs: %q vs %q", c08Head(ra.Stderr), c08Head(rb.Stderr))
	}
	if d != "" {
		res.AddViolation(Violation{
			Key:        "C08/run/spelling/" + p.Law,
			What:       fmt.Sprintf("equivalent command lines %q and %q (tree variant %d) differ: %s", a, b, variant, d),
			FoundInput: true, Size: c08ArgvSize(a) + c08ArgvSize(b),
			Replay: map[string]any{"kind": "runpair", "law": p.Law, "variant": variant, "a": c08HexArgv(p.A), "b": c08HexArgv(p.B)},
		})
	}
	res.Evaluations += 2
}

func c08FirstDiff(a, b string) string {
	la, lb := strings.Split(a, "\n"), strings.Split(b, "\n")
	for i := range la {
		if i >= len(lb) || la[i] != lb[i] {
			return c08Head(la[i])
		}
	}
	return "<prefix of the other>"
}

// c08CheckPresentation: one base command line, with each subset of -g -q -s -e added.
func c08CheckPresentation(ctx *Ctx, res *Result, dir string, variant int, base []string, pres []string) {
	rb := c08DoRun(ctx, dir, c08Run{variant, base})
	rp := c08DoRun(ctx, dir, c08Run{variant, append(append([]string{}, pres...), base...)})
	gcc := false
	for _, p := range pres {
		if strings.HasPrefix(p, "--g") || !strings.HasPrefix(p, "--") && strings.Contains(p, "g") {
			gcc = true
		}
	}
	kb, kp := c08DiagSet(rb.Stdout, false), c08DiagSet(rp.Stdout, gcc)
	res.Count("run.presentation", 1)
	if len(kb) > 0 {
		res.Count("run.presentation.with-diagnostics", 1)
	}
	res.Count("run.presentation.diagnostics", len(kb))
	d := ""
	switch {
	case rb.TimedOut || rp.TimedOut:
		d = "timeout"
	case rb.Exit != rp.Exit:
		d = fmt.Sprintf("exit status %d without, %d with %v", rb.Exit, rp.Exit, pres)
	case strings.Join(kb, "\n") != strings.Join(kp, "\n"):
		if m, ok := c08Subset(kb, kp); !ok {
			d = "diagnostic lost with " + strings.Join(pres, " ") + ": " + m
		} else if m, ok := c08Subset(kp, kb); !ok {
			d = "diagnostic added with " + strings.Join(pres, " ") + ": " + m
		}
	}
	if d != "" {
		res.AddViolation(Violation{
			Key:        "C08/run/presentation",
			What:       fmt.Sprintf("presentation options change what is found (tree variant %d, base %q): %s", variant, base, d),
			FoundInput: true, Size: c08ArgvSize(base) + c08ArgvSize(pres),
			Replay: map[string]any{"kind": "runpres", "variant": variant, "base": c08HexArgv(base), "pres": c08HexArgv(pres)},
		})
	}
	res.Evaluations += 2
}

// c08CheckOnly: --only S yields a subset of the unrestricted run's diagnostics.
func c08CheckOnly(ctx *Ctx, res *Result, dir string, variant int, base []string, only []string) {
	rb := c08DoRun(ctx, dir, c08Run{variant, base})
	args := append([]string{}, base...)
	for _, o := range only {
		args = append([]string{"--only", o}, args...)
	}
	ro := c08DoRun(ctx, dir, c08Run{variant, args})
	kb, ko := c08DiagSet(rb.Stdout, false), c08DiagSet(ro.Stdout, false)
	res.Count("run.only", 1)
	if len(ko) > 0 && len(ko) < len(kb) {
		res.Count("run.only.proper-nonempty-subset", 1)
	}
	if m, ok := c08Subset(ko, kb); !ok {
		res.AddViolation(Violation{
			Key:        "C08/run/only-not-subset",
			What:       fmt.Sprintf("--only %q prints a diagnostic the unrestricted run does not (tree variant %d, base %q): %s", only, variant, base, m),
			FoundInput: true, Size: c08ArgvSize(base) + c08ArgvSize(only),
			Replay: map[string]any{"kind": "runonly", "variant": variant, "base": c08HexArgv(base), "only": c08HexArgv(only)},
		})
	}
	// every unrestricted diagnostic whose *message* contains the pattern must be kept
	// (the filter works on the format string; a message containing S whose format does not is legal to drop,
	// so this direction is only counted, not judged)
	res.Evaluations += 2
}

// ---------- 6. static audit ----------

type c08Read struct {
	File, Func, Field, Access, Expr string
}

func c08CheckAudit(ctx *Ctx, res *Result) {
	load := func(p string, wrapped bool) (map[c08Read]int, error) {
		data, err := os.ReadFile(p)
		if err != nil {
			return nil, err
		}
		var entries []map[string]any
		if wrapped {
			var w struct {
				Entries []map[string]any `json:"entries"`
			}
			if err := json.Unmarshal(data, &w); err != nil {
				return nil, err
			}
			entries = w.Entries
		} else if err := json.Unmarshal(data, &entries); err != nil {
			return nil, err
		}
		m := map[c08Read]int{}
		for _, e := range entries {
			s := func(k string) string { v, _ := e[k].(string); return v }
			m[c08Read{s("file"), s("func"), s("field"), s("access"), s("expr")}]++
		}
		return m, nil
	}
	committed, err := load(filepath.Join(ctx.Verif, "audit", "optionreads.json"), true)
	if err != nil {
		res.Broken = "audit/optionreads.json: " + err.Error()
		return
	}
	current, err := load(filepath.Join(ctx.Verif, "coq", "Gen", "OptionReads.json"), false)
	if err != nil {
		res.Broken = "coq/Gen/OptionReads.json: " + err.Error()
		return
	}
	var diffs []string
	for k, n := range current {
		if committed[k] != n {
			diffs = append(diffs, fmt.Sprintf("new: %s %s reads %s (%s) x%d, classified x%d", k.File, k.Func, k.Expr, k.Access, n, committed[k]))
		}
	}
	for k, n := range committed {
		if current[k] == 0 {
			diffs = append(diffs, fmt.Sprintf("gone: %s %s %s x%d", k.File, k.Func, k.Expr, n))
		}
	}
	sort.Strings(diffs)
	res.Count("audit.optionreads", len(current))
	if len(diffs) > 0 {
		res.AddViolation(Violation{
			Key:        "C08/audit/optionreads",
			What:       "uses of presentation options outside logging.go differ from the classified list audit/optionreads.json: " + strings.Join(diffs, "; "),
			FoundInput: false,
			Replay:     map[string]any{"kind": "audit", "diffs": diffs, "broken": "static audit: every read of Opts.Explain/ShowSource/GccOutput/Quiet outside logging.go is classified"},
		})
	}
}

// ---------- driver ----------

func c08Floor(res *Result, key string, min int) {
	c, _ := res.Distribution[key].(int)
	if c < min && res.Broken == "" {
		res.Broken = fmt.Sprintf("coverage floor missed: %s = %d < %d", key, c, min)
	}
}

func runC08(ctx *Ctx) *Result {
	res := &Result{Rule: "argv: all argument vectors of <=3 arguments over the core alphabet and <=2 over the full alphabet generated from each option table (every option short/long/unique prefix/ambiguous prefix/=value/cluster/no- form, --, unknown), then seeded random vectors of 3-7 arguments; non-trivial = an argv in which at least one option is spelled in a non-canonical way (long, prefix, cluster, =value, comma list), distinct by argv; law pairs from the documented table on the real ParseCommandLine; whole runs: pairs of equivalent command lines and presentation subsets on generated trees"}
	rng := NewRng(ctx.Seed)
	thorough := ctx.Tier == "thorough"
	gen, err := c08FetchTable(ctx, "gen")
	if err != nil {
		res.Broken = err.Error()
		return res
	}
	test, err := c08FetchTable(ctx, "test")
	if err != nil {
		res.Broken = err.Error()
		return res
	}
	doc, err := c08FetchTable(ctx, "doc")
	if err != nil {
		res.Broken = err.Error()
		return res
	}

	// 6. audit first: cheap
	c08CheckAudit(ctx, res)

	// 1. getopt
	nontrivial := map[string]bool{}
	isNontrivial := func(argv []string) bool {
		for _, a := range argv[1:] {
			if strings.HasPrefix(a, "--") && len(a) > 2 || strings.HasPrefix(a, "-") && utf8.RuneCountInString(a) > 2 {
				return true
			}
		}
		return false
	}
	for _, tc := range []struct {
		which string
		tbl   []c08Opt
	}{{"gen", gen}, {"test", test}} {
		core, full := c08Alphabet(tc.tbl)
		res.Count("getopt."+tc.which+".alphabet.core", len(core))
		res.Count("getopt."+tc.which+".alphabet.full", len(full))
		maxCore := 3
		argvs := c08AllArgv(core, maxCore)
		argvs = append(argvs, c08AllArgv(full, 2)...)
		nrand := 20000
		if thorough {
			nrand = 400000
			// all argv of 3 arguments over the core alphabet plus every second string of the full one, in chunks
			alpha := append([]string{}, core...)
			for i := 0; i < len(full) && len(alpha) < 220; i += 2 {
				alpha = append(alpha, full[i])
			}
			alpha = c08Dedup(alpha)
			res.Count("getopt."+tc.which+".alphabet.thorough", len(alpha))
			var chunk [][]string
			flush := func() {
				if len(chunk) > 0 && res.Broken == "" {
					res.Count("getopt."+tc.which+".exhaustive", len(chunk))
					c08CheckGetopt(ctx, res, tc.which, tc.tbl, chunk)
				}
				chunk = chunk[:0]
			}
			for _, a := range alpha {
				for _, b := range alpha {
					for _, c := range alpha {
						chunk = append(chunk, []string{"prog", a, b, c})
					}
				}
				if len(chunk) >= 400000 {
					flush()
				}
			}
			flush()
		}
		res.Count("getopt."+tc.which+".exhaustive", len(argvs))
		argvs = append(argvs, c08RandomArgv(rng, full, nrand)...)
		for _, a := range argvs {
			if isNontrivial(a) {
				nontrivial[tc.which+"\x00"+strings.Join(a, "\x00")] = true
			}
		}
		c08CheckGetopt(ctx, res, tc.which, tc.tbl, argvs)
		if res.Broken != "" {
			return res
		}
		for _, k := range []string{"ok", "unknownlong", "ambiguous", "invalidarg", "requiresarg", "unknownshort", "unknownflag"} {
			c08Floor(res, "getopt."+tc.which+".status."+k, 20)
		}
		if tc.which == "gen" {
			res.Sample(map[string]any{"argv": argvs[len(argvs)/3], "getopt": c08RealParse(tc.tbl, argvs[len(argvs)/3])})
			res.Sample(map[string]any{"argv": argvs[len(argvs)-5], "getopt": c08RealParse(tc.tbl, argvs[len(argvs)-5])})
		}
	}
	res.DistinctNontrivial = len(nontrivial)

	// 2. ParseCommandLine
	{
		core, full := c08Alphabet(gen)
		argvs := c08AllArgv(core, 2)
		n3 := 3000
		if thorough {
			n3 = 60000
		}
		all3 := c08AllArgv(core, 3)
		for i := 0; i < n3; i++ {
			argvs = append(argvs, all3[rng.Intn(len(all3))])
		}
		argvs = append(argvs, c08AllArgv(full, 1)...)
		argvs = append(argvs, c08RandomArgv(rng, full, n3)...)
		for i := range argvs { // argv[0] as a user would have it
			argvs[i] = append([]string{"pkglint"}, argvs[i][1:]...)
		}
		c08CheckPCL(ctx, res, gen, argvs)
		if res.Broken != "" {
			return res
		}
		c08Floor(res, "pcl.exit.-1", 100)
		c08Floor(res, "pcl.exit.0", 20)
		c08Floor(res, "pcl.exit.1", 100)
	}

	// 3. laws on the real ParseCommandLine
	pairs := c08LawPairs(doc)
	c08CheckLawPairs(res, pairs)
	c08CheckDashDash(res, doc)
	c08CheckAmbiguous(res, doc)
	c08Floor(res, "law.ambiguous_prefix_rejected", 6)
	for _, l := range []string{"long_eq_short", "unique_prefix_eq_long", "cluster_eq_separate", "eq_arg_eq_next_arg", "group_comma_eq_repeat", "exempt_flag_order", "after_dashdash_are_args"} {
		c08Floor(res, "law."+l, 10)
	}
	res.Sample(map[string]any{"law": pairs[len(pairs)/2].Law, "a": pairs[len(pairs)/2].A, "b": pairs[len(pairs)/2].B})

	// 4. Logger scripts
	c08LoggerScripts(ctx, res, rng.Fork())
	if res.Broken != "" {
		return res
	}

	// 5. whole runs
	c08WholeRuns(ctx, res, doc, rng.Fork())

	res.Exhaustive = false
	res.Assumptions = append(res.Assumptions,
		"the command line echoed in the summary hints `(Run \"...\" to ...)` repeats argv as typed; it is replaced by a placeholder before outputs of equivalent command lines are compared",
		"error texts of the option parser name the option as typed; only the error kind and the option are compared")
	return res
}

func c08WholeRuns(ctx *Ctx, res *Result, doc []c08Opt, rng *Rng) {
	dir := filepath.Join(ctx.Work, "c08runs")
	nvariants := len(c08Variants)
	// the fixture must behave as documented before anything is concluded from it
	{
		r := c08DoRun(ctx, dir, c08Run{3, []string{"-Wall", "cat/pkg"}})
		if r.Exit != 0 || !strings.HasPrefix(r.Stdout, "Looks fine.") {
			res.Broken = fmt.Sprintf("base tree no longer prints Looks fine.: exit %d stdout %q stderr %q", r.Exit, c08Head(r.Stdout), c08Head(r.Stderr))
			return
		}
		for v := 0; v < 3; v++ {
			r := c08DoRun(ctx, dir, c08Run{v, []string{"-Wall", "cat/pkg"}})
			if len(ParseDiags(r.Stdout)) < 3 {
				res.Broken = fmt.Sprintf("tree variant %d no longer produces diagnostics: %q", v, c08Head(r.Stdout))
				return
			}
		}
	}
	npairs, npres := 48, 40
	if ctx.Tier == "thorough" {
		npairs, npres = 1200, 600
	}
	pairs := c08RunPairs(doc, rng, npairs)
	type job func()
	var jobs []job
	for i, p := range pairs {
		i, p := i, p
		jobs = append(jobs, func() { c08CheckRunPair(ctx, res, dir, i%nvariants, p) })
	}
	// the order of an exempt flag (-Werror) and all / none decides the exit status only on a tree
	// with warnings and no errors (variant 1): run every such pair there
	for _, p := range c08LawPairs(doc) {
		if p.Law == "exempt_flag_order" && len(p.A) >= 2 && p.A[len(p.A)-1] == "dir" && strings.HasPrefix(p.A[1], "-") && !strings.HasPrefix(p.A[1], "--check") {
			p := p
			jobs = append(jobs, func() { c08CheckRunPair(ctx, res, dir, 1, p) })
		}
	}
	presOpts := [][]string{{"-g"}, {"-q"}, {"-s"}, {"-e"}, {"-gqse"}, {"-s", "-e"}, {"--gcc-output-format", "--source"}, {"-q", "--explain"}, {"-se", "-g"}, {"-gs"}}
	bases := [][]string{{"-Wall", "cat/pkg"}, {"-Wall", "-r", "cat"}, {"cat/pkg"}, {"-Wall,no-extra", "cat/pkg/Makefile"}, {"-Wall", "-Werror", "cat/pkg"},
		{"-Wall", "-f", "cat/pkg"}, {"-Wall", "--only", "defined", "cat/pkg"}, {"-Wnone", "-Werror", "cat/pkg"}}
	for i := 0; i < npres; i++ {
		v, base, pres := i%nvariants, bases[(i/nvariants)%len(bases)], presOpts[i%len(presOpts)]
		if ctx.Tier == "thorough" {
			base, pres = Pick(rng, bases), Pick(rng, presOpts)
		}
		jobs = append(jobs, func() { c08CheckPresentation(ctx, res, dir, v, base, pres) })
	}
	onlys := [][]string{{"defined"}, {"Unknown"}, {"space after"}, {"%s"}, {"defined", "Unknown"}, {"nonexistent pattern"}, {"e"}, {"."}}
	for i, o := range onlys {
		for v := 0; v < 3; v++ {
			v, o, b := v, o, bases[(i+v)%2]
			jobs = append(jobs, func() { c08CheckOnly(ctx, res, dir, v, b, o) })
		}
	}
	// --only on runs that reach the same lines more than once (a target named twice, a file and its package): the
	// duplicate suppression must work the same with and without --only (multiset inclusion)
	twice := [][]string{{"-Wall", "cat/pkg", "cat/pkg"}, {"-Wall", "cat/pkg/Makefile", "cat/pkg"}, {"-Wall", "-r", "cat", "cat/pkg"}, {"cat/pkg/Makefile", "cat/pkg/Makefile"}}
	for i, o := range onlys {
		for v := 0; v < 3; v++ {
			v, o, b := v, o, twice[(i+v)%len(twice)]
			jobs = append(jobs, func() {
				c08CheckOnly(ctx, res, dir, v, b, o)
				res.Count("run.only.target-reached-twice", 1)
			})
		}
	}
	// trees are created lazily by the first run that needs them: do that sequentially first
	for v := 0; v < nvariants; v++ {
		c08DoRun(ctx, dir, c08Run{v, []string{"--version"}})
	}
	parallelFor(len(jobs), func(i int) { jobs[i]() })
	c08Floor(res, "run.pair.with-diagnostics", npairs/3)
	c08Floor(res, "run.presentation.with-diagnostics", npres/2)
	c08Floor(res, "run.only.proper-nonempty-subset", 3)
	// diagnostics in files reached through includes from other directories, targets spelled in many ways
	c08CheckPaths(ctx, res, dir, -1)
}

func replayC08(ctx *Ctx, rep map[string]any) *Result {
	res := &Result{Rule: "replay"}
	dir := filepath.Join(ctx.Work, "c08runs")
	variant := 0
	if v, ok := rep["variant"].(float64); ok {
		variant = int(v)
	}
	law, _ := rep["law"].(string)
	switch rep["kind"] {
	case "getopt":
		which, _ := rep["table"].(string)
		tbl, err := c08FetchTable(ctx, which)
		if err != nil {
			res.Broken = err.Error()
			return res
		}
		c08CheckGetopt(ctx, res, which, tbl, [][]string{c08UnhexArgv(rep["argv"])})
	case "pcl":
		tbl, err := c08FetchTable(ctx, "gen")
		if err != nil {
			res.Broken = err.Error()
			return res
		}
		c08CheckPCL(ctx, res, tbl, [][]string{c08UnhexArgv(rep["argv"])})
	case "lawpair":
		c08CheckLawPairs(res, []c08LawPair{{law, c08UnhexArgv(rep["a"]), c08UnhexArgv(rep["b"])}})
	case "dashdash":
		doc, err := c08FetchTable(ctx, "doc")
		if err != nil {
			res.Broken = err.Error()
			return res
		}
		c08CheckDashDash(res, doc)
	case "ambiguous":
		doc, err := c08FetchTable(ctx, "doc")
		if err != nil {
			res.Broken = err.Error()
			return res
		}
		c08CheckAmbiguous(res, doc)
	case "runpair":
		c08CheckRunPair(ctx, res, dir, variant, c08LawPair{law, c08UnhexArgv(rep["a"]), c08UnhexArgv(rep["b"])})
	case "runpres":
		c08CheckPresentation(ctx, res, dir, variant, c08UnhexArgv(rep["base"]), c08UnhexArgv(rep["pres"]))
	case "runonly":
		c08CheckOnly(ctx, res, dir, variant, c08UnhexArgv(rep["base"]), c08UnhexArgv(rep["only"]))
	case "runpaths":
		id := -1
		if v, ok := rep["id"].(float64); ok {
			id = int(v)
		}
		c08CheckPaths(ctx, res, dir, id)
	case "audit":
		c08CheckAudit(ctx, res)
	case "logger", "logger-pres", "logger-only":
		c08ReplayLogger(ctx, res, rep)
	default:
		res.Broken = fmt.Sprintf("unknown replay kind %v", rep["kind"])
	}
	return res
}

func init() { register("C08", runC08, replayC08) }
