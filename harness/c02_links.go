package main

// C02 (round 5): symbolic links in the generated trees and on the command line.
//
// Rule of the snapshot judge: a changed entry must be named by an AUTOFIX line whose printed
// path denotes that entry WITHOUT following a final symbolic link (directory links on the way
// are followed, resolveInTree).  So
//   * "AUTOFIX: cat/p0/files/link.sh: Clearing executable bits" names the link entry; if the
//     link's target files/real.sh loses its x-bits, nobody names it:
//     C02/symlink/target-changed/mode (found input);
//   * a save of cat/p0/Makefile -> ../shared-3/Makefile.package goes through tmp+rename and
//     replaces the LINK by a regular file (named: fine); the target must stay as it is, else
//     C02/symlink/target-changed/{content,mode} (found input);
//   * "AUTOFIX: cat/linked/PLIST:2: ..." with cat/linked -> p0 names cat/p0/PLIST (link on the
//     way).  By the letter that is a reported file.  But Pkglint.Check examines every argument
//     with Lstat and refuses a symbolic link ("No such file or directory", Model/FsLinks.v
//     check_exec_l): a run whose command-line targets are ALL symbolic links must not touch
//     the tree at all.  If it does: C02/symlink/argument-followed, a correspondence failure
//     (FoundInput:false, "broken" in the replay), not a failing input of the property.
//
// c02PlantLinks puts into every fourth tree (own Rng, derived from the seed and the tree
// number only: the streams of the other generators do not move):
//   (1) <pkg>/files/real.sh (0755/0775/0711) and <pkg>/files/link.sh -> real.sh, plus
//       <far>/<lib>/files/tool.sh (0755, outside every package) and
//       <pkg>/files/tool-link.sh -> ../../../<far>/<lib>/files/tool.sh;
//   (2) <category>/<linked> -> <pkg basename>, not in SUBDIR of the category Makefile;
//   (3) with 50 %: <pkg>/Makefile -> ../shared-<n>/Makefile.package (0644/0600/0444), with one
//       more line that is fixed at parse time ("VAR =<tab>v").
// No dangling links (pkglint ends with FATAL "Cannot be read" on some of them).

import (
	"fmt"
	"os"
	"path"
	"path/filepath"
	"strings"
)

const c02KeyArgFollowed = "C02/symlink/argument-followed"
const c02ArgFollowedBroken = "correspondence: Pkglint.Check examines its argument with Lstat (Model/FsLinks.v check_exec_l); a symbolic link as argument causes no file operation"

// c02LinkEvery: every c02LinkEvery-th tree (i % c02LinkEvery == c02LinkEvery-1) gets links.
const c02LinkEvery = 4

type c02Links struct {
	Pkg      string // cat/p0
	FileLink string // cat/p0/files/link.sh
	OutLink  string // cat/p0/files/tool-link.sh ("" if no free directory was found)
	DirLink  string // cat/linked
	MkLink   string // cat/p0/Makefile if it became a link, else ""
	MkTarget string // cat/shared-3/Makefile.package
	FixFile  string // a regular file directly in Pkg for which the probe run announced a fix ("" if none)
}

type c02Spec struct {
	o   []string  // options; o[0] == "-F" for the --autofix runs
	cfg *wrConfig // fixed command line; nil: drawn by c02Targets
}

// c02LinkRng: independent of every other stream of the run.
func c02LinkRng(seed uint64, i int) *Rng {
	return NewRng(seed*0x2545f4914f6cdd1d + uint64(i)*0x9e3779b97f4a7c15 + 0xc02c02)
}

func c02PlantLinks(r *Rng, g *GenTree, root, probeStdout string) *c02Links {
	logs, _ := groupAutofix(probeStdout, root, root)
	fixIn := map[string][]string{}
	for _, rel := range sortedKeys(logs) {
		st, err := os.Lstat(filepath.Join(root, rel))
		if err != nil || !st.Mode().IsRegular() || strings.HasSuffix(rel, ".pkglint.tmp") {
			continue
		}
		fixIn[path.Dir(rel)] = append(fixIn[path.Dir(rel)], rel)
	}
	var cands []string
	for _, p := range g.Pkgs {
		if len(fixIn[p]) > 0 {
			cands = append(cands, p)
		}
	}
	lk := &c02Links{}
	if len(cands) > 0 {
		lk.Pkg = Pick(r, cands)
		lk.FixFile = Pick(r, fixIn[lk.Pkg])
	} else {
		lk.Pkg = Pick(r, g.Pkgs)
	}
	cat := path.Dir(lk.Pkg)
	abs := func(rel string) string { return filepath.Join(root, rel) }

	// (1) link to an executable file next to it, and to one outside the package
	os.MkdirAll(abs(lk.Pkg+"/files"), 0o755)
	real := lk.Pkg + "/files/real.sh"
	if _, err := os.Lstat(abs(real)); err != nil {
		os.WriteFile(abs(real), []byte("#!/bin/sh\n"), 0o644)
		os.Chmod(abs(real), Pick(r, []os.FileMode{0o755, 0o775, 0o711}))
		lk.FileLink = lk.Pkg + "/files/link.sh"
		os.Symlink("real.sh", abs(lk.FileLink))
		g.feat("c02.links.file-link")
	}
	if far := g.c02FreeDir(r, "", c02FarCats); far != "" {
		tool := far + "/" + Pick(r, c02LibNames) + "/files/tool.sh"
		os.MkdirAll(abs(path.Dir(tool)), 0o755)
		os.WriteFile(abs(tool), []byte("#!/bin/sh\nexit 0\n"), 0o644)
		os.Chmod(abs(tool), Pick(r, []os.FileMode{0o755, 0o755, 0o555}))
		lk.OutLink = lk.Pkg + "/files/tool-link.sh"
		os.Symlink("../../../"+tool, abs(lk.OutLink))
		g.feat("c02.links.file-link-outside-package")
	}

	// (2) link to the package directory, next to it
	for _, n := range []string{Pick(r, []string{"linked", "current", "p-link", "wip-copy"}), "linked-c02"} {
		if _, err := os.Lstat(abs(cat + "/" + n)); err != nil {
			lk.DirLink = cat + "/" + n
			os.Symlink(path.Base(lk.Pkg), abs(lk.DirLink))
			g.feat("c02.links.dir-link")
			break
		}
	}

	// (3) the package Makefile is a link to a regular file in a directory that is not a package
	if r.Chance(50) {
		mk := lk.Pkg + "/Makefile"
		b, err := os.ReadFile(abs(mk))
		st, err2 := os.Lstat(abs(mk))
		shared := fmt.Sprintf("%s/shared-%d", cat, r.Intn(90))
		if _, err3 := os.Lstat(abs(shared)); err == nil && err2 == nil && st.Mode().IsRegular() && err3 != nil {
			s := string(b)
			fixme := Pick(r, []string{"C02_LINKED =\tyes\n", "C02_LINKED_FLAGS +=\t-O\n", "C02_LINKED  =\t1\n"})
			inc := ".include \"../../mk/bsd.pkg.mk\""
			if strings.Contains(s, inc) {
				s = strings.Replace(s, inc, fixme+inc, 1)
			} else {
				if !strings.HasSuffix(s, "\n") && s != "" {
					s += "\n"
				}
				s += fixme
			}
			lk.MkTarget = shared + "/Makefile.package"
			os.MkdirAll(abs(shared), 0o755)
			os.WriteFile(abs(lk.MkTarget), []byte(s), 0o644)
			os.Chmod(abs(lk.MkTarget), Pick(r, []os.FileMode{0o644, 0o600, 0o444}))
			os.Remove(abs(mk))
			os.Symlink("../"+path.Base(shared)+"/Makefile.package", abs(mk))
			lk.MkLink = mk
			g.feat("c02.links.makefile-is-link")
		}
	}
	g.feat("c02.links.tree-with-links")
	return lk
}

// c02LinkSpecs adds the runs with symbolic links on the command line: first the runs without -F,
// then -F with (a) "<pkg>/DESCR <pkg>/files/link.sh [tool-link.sh]", (b) "<category>/linked",
// (d) "<category>/linked/<file with a fix>" (link on the way: pkglint does check and fix that file)
// BEFORE the ordinary -F runs (which fix the package and clear the x-bits of real.sh), and
// (c) "<pkg> <links> <category>/linked" after them.
func c02LinkSpecs(r *Rng, lk *c02Links, specs []c02Spec) []c02Spec {
	cat := path.Dir(lk.Pkg)
	mk := func(opts []string, targets ...string) c02Spec {
		cwd := "."
		switch r.Intn(4) {
		case 0:
			cwd = cat
		case 1:
			cwd = lk.Pkg
		}
		args := append([]string{}, opts...)
		for _, t := range targets {
			if t == "" {
				continue
			}
			rel, err := filepath.Rel(cwd, t)
			if err != nil {
				rel = t
			}
			if cwd == "." && r.Chance(15) {
				rel = "./" + rel
			}
			args = append(args, rel)
		}
		return c02Spec{o: opts, cfg: &wrConfig{Cwd: cwd, Args: args}}
	}
	first := []string{lk.Pkg + "/DESCR"}
	if r.Chance(30) && lk.MkLink == "" {
		first = []string{lk.Pkg + "/Makefile"}
	}
	fileLinks := []string{lk.FileLink, lk.OutLink}
	if r.Bool() {
		fileLinks[0], fileLinks[1] = fileLinks[1], fileLinks[0]
	}
	through := ""
	if lk.FixFile != "" && lk.DirLink != "" {
		through = lk.DirLink + "/" + path.Base(lk.FixFile)
	}
	group := func(opts []string) (pre, post []c02Spec) {
		pre = append(pre, mk(opts, append(append([]string{}, first...), fileLinks...)...))
		if lk.DirLink != "" {
			pre = append(pre, mk(opts, lk.DirLink))
		}
		if through != "" {
			pre = append(pre, mk(opts, through))
		}
		post = append(post, mk(opts, lk.Pkg, fileLinks[0], fileLinks[1], lk.DirLink))
		return
	}
	plain := append([]string{}, Pick(r, c02PlainOpts)...)
	fopts := []string{"-F"}
	if r.Chance(30) {
		fopts = append(fopts, Pick(r, c02PlainOpts)...)
	}
	p1, p2 := group(plain)
	f1, f2 := group(fopts)
	var out []c02Spec
	out = append(out, p1...)
	out = append(out, p2...)
	placed := false
	for _, s := range specs {
		if !placed && len(s.o) > 0 && s.o[0] == "-F" {
			out = append(out, f1...)
			placed = true
		}
		out = append(out, s)
	}
	if !placed {
		out = append(out, f1...)
	}
	return append(out, f2...)
}

// c02Targets of a complete argument list: everything that is neither an option nor the value of --only.
func c02ArgTargets(args []string) []string {
	var ts []string
	for i := 0; i < len(args); i++ {
		switch {
		case args[i] == "--only":
			i++
		case strings.HasPrefix(args[i], "-"):
		default:
			ts = append(ts, args[i])
		}
	}
	return ts
}

// c02LinkArgs counts the command-line targets of the run that are symbolic links themselves
// (lstat view of the last component, directory links on the way followed), and all targets.
func c02LinkArgs(tree map[string]fileState, root string, cfg wrConfig) (links, all int) {
	for _, t := range c02ArgTargets(cfg.Args) {
		all++
		if rel, ok := resolveInTree(tree, root, cfg.Cwd, t); ok && tree[rel].Kind == "l" {
			links++
		}
	}
	return
}

// c02LinkTargetsOf returns, for every entry that is the target of a symbolic link of the tree
// (fully resolved, inside the tree), one link that leads to it.  Links named *.pkglint.tmp are the
// business of c02_tmp.go and keep their older keys.
func c02LinkTargetsOf(tree map[string]fileState, root string) map[string]string {
	out := map[string]string{}
	for _, rel := range sortedKeys(tree) {
		st := tree[rel]
		if st.Kind != "l" || strings.HasSuffix(rel, ".pkglint.tmp") || filepath.IsAbs(st.Link) {
			continue
		}
		cur, seen := rel, 0
		for tree[cur].Kind == "l" && seen < 20 {
			seen++
			if filepath.IsAbs(tree[cur].Link) {
				cur = ""
				break
			}
			// "<link>/." : the link is no longer the last component, so it is followed
			t, ok := resolveInTree(tree, root, path.Dir(cur), tree[cur].Link)
			if !ok {
				cur = ""
				break
			}
			cur = t
		}
		if cur != "" && cur != rel && tree[cur].Kind != "l" && tree[cur].Kind != "" {
			if _, dup := out[cur]; !dup {
				out[cur] = rel
			}
		}
	}
	return out
}

// c02NamedPhysical adds to the set of named files the entries that the printed paths denote when
// directory links on the way are followed (never a final link).
func c02NamedPhysical(tree map[string]fileState, root string, named, chmodLogged map[string]bool) {
	for _, rel := range sortedKeys(named) {
		if strings.HasPrefix(rel, "<outside>") || strings.HasPrefix(rel, "..") {
			continue
		}
		if phys, ok := resolveInTree(tree, root, ".", rel); ok && phys != rel {
			named[phys] = true
			if chmodLogged[rel] {
				chmodLogged[phys] = true
			}
		}
	}
}

func c02DescribeEntry(s fileState) string {
	switch s.Kind {
	case "d":
		return fmt.Sprintf("directory (mode %o)", s.Mode)
	case "l":
		return fmt.Sprintf("symbolic link to %q", s.Link)
	case "f":
		return fmt.Sprintf("regular file of %d bytes (mode %o)", len(s.Data), s.Mode)
	case "":
		return "nothing"
	}
	return "entry of kind " + s.Kind
}

// c02LinkTargetProblem: the target of a symbolic link differs after a -F run and no AUTOFIX line names it.
func c02LinkTargetProblem(rel, link string, b, a fileState) c02Problem {
	what := "content"
	if a.Data == b.Data && a.Kind == b.Kind {
		what = "mode"
	}
	return c02Problem{"C02/symlink/target-changed/" + what,
		fmt.Sprintf("%s, the target of the symbolic link %s, was a %s and is now a %s, but no AUTOFIX line names it (a line that names the link names the link entry, not its target)", rel, link, c02DescribeEntry(b), c02DescribeEntry(a)), rel}
}

// c02ArgFollowed: a -F run whose command-line targets are all symbolic links changed the tree.
func c02ArgFollowed(root string, cfg wrConfig, before, after map[string]fileState) []c02Problem {
	links, all := c02LinkArgs(before, root, cfg)
	if all == 0 || links != all {
		return nil
	}
	for _, a := range cfg.Args {
		if a == "-r" || a == "--recursive" {
			return nil
		}
	}
	for _, rel := range sortedKeys(after) {
		if b, ok := before[rel]; !ok || b != after[rel] {
			return []c02Problem{{c02KeyArgFollowed, fmt.Sprintf("every command-line target of the run is a symbolic link, yet %s changed (was a %s, is a %s)", rel, c02DescribeEntry(before[rel]), c02DescribeEntry(after[rel])), rel}}
		}
	}
	for _, rel := range sortedKeys(before) {
		if _, ok := after[rel]; !ok {
			return []c02Problem{{c02KeyArgFollowed, fmt.Sprintf("every command-line target of the run is a symbolic link, yet %s (a %s) has disappeared", rel, c02DescribeEntry(before[rel])), rel}}
		}
	}
	return nil
}

// c02ReplacedLinks: symbolic links (not *.pkglint.tmp) that are regular files after the run.
func c02ReplacedLinks(before, after map[string]fileState) int {
	n := 0
	for rel, b := range before {
		if b.Kind == "l" && !strings.HasSuffix(rel, ".pkglint.tmp") && after[rel].Kind == "f" {
			n++
		}
	}
	return n
}

// c02LinkFloor: least number of -F runs with a symbolic link among the command-line targets.
func c02LinkFloor(ntrees int) int { return ntrees / 10 }
