package main

// C01 whole-run layer, probe-driven entry-kind stream ("probe:" would collide
// with the scaling probes, the stream is called "kinds").
//
// The file names pkglint looks at are not all literals of its source: distfile
// names come out of distinfo, patch names out of the directory, include paths
// out of makefiles. So the names are taken from the run itself: the real
// binary runs on a generated tree under `strace -f -e trace=%file`, every path
// below the tree root that any system call names -- also those answered
// ENOENT -- is collected, and the tree is run again once per (path, kind) with
// that path turned into a directory, a dangling symlink, a symlink to a
// directory, a symlink loop, an empty regular file or a FIFO. Every such run
// must end with exit 0/1, no panic, no hang, inside the CPU envelope.

import (
	"fmt"
	"os"
	"os/exec"
	"path/filepath"
	"regexp"
	"sort"
	"strings"
	"sync"
	"syscall"
	"time"
)

var c01EntryKinds = []string{"directory", "dangling-symlink", "symlink-to-directory", "symlink-loop", "empty-file", "fifo"}

// c01TracePaths runs the case under strace and returns the tree-relative paths
// of all path arguments below the root, with the errno of one of the calls
// ("" = some call succeeded).
func c01TracePaths(ctx *Ctx, c *c01Case) (paths map[string]string, err error) {
	root, cwd := c01CaseDir(ctx, c, "s")
	defer os.RemoveAll(root)
	tracefile := root + ".trace"
	defer os.Remove(tracefile)
	args := append([]string{"-f", "-o", tracefile, "-xx", "-s", "4096", "-e", "trace=%file", ctx.Pkglint}, c.Args...)
	cmd := exec.Command("/usr/bin/strace", args...)
	cmd.Dir = cwd
	cmd.Env = append(os.Environ(), "PKGSRCDIR=", "HOME="+cwd, "GOMAXPROCS=1", "GOMEMLIMIT=2GiB")
	done := make(chan error, 1)
	if e := cmd.Start(); e != nil {
		return nil, e
	}
	go func() { done <- cmd.Wait() }()
	select {
	case <-done:
	case <-time.After(120 * time.Second):
		cmd.Process.Kill()
		<-done
		return nil, nil // a slow tree is the other streams' business
	}
	data, e := os.ReadFile(tracefile)
	if e != nil {
		return nil, e
	}
	tr := parseStrace(string(data))
	paths = map[string]string{}
	realRoot, _ := filepath.EvalSymlinks(root)
	realCwd, _ := filepath.EvalSymlinks(cwd)
	for _, call := range tr.Calls {
		if call.Name == "execve" || call.Name == "chdir" {
			continue
		}
		for _, a := range call.Args {
			s, ok := straceString(a)
			if !ok || s == "" {
				continue
			}
			p := s
			if !filepath.IsAbs(p) {
				p = filepath.Join(realCwd, p)
			}
			p = filepath.Clean(p)
			var rel string
			switch {
			case strings.HasPrefix(p, realRoot+"/"):
				rel = p[len(realRoot)+1:]
			case strings.HasPrefix(p, root+"/"):
				rel = p[len(root)+1:]
			default:
				continue
			}
			errno := ""
			if call.Ret == "-1" {
				errno = call.Errno
			}
			if old, seen := paths[rel]; !seen || (old != "" && errno == "") {
				paths[rel] = errno
			}
		}
	}
	return paths, nil
}

var c01ReDigits = regexp.MustCompile(`[0-9]+`)

// the "basename pattern" of a path: directory class + basename with digit runs collapsed
func c01PathPattern(p string) string {
	dir, base := filepath.Split(p)
	dir = strings.TrimSuffix(dir, "/")
	parts := strings.Split(dir, "/")
	cls := dir
	if len(parts) >= 2 && parts[0] != "mk" && parts[0] != "doc" && parts[0] != "distfiles" && parts[0] != "licenses" {
		cls = "<cat>/<pkg>" + strings.TrimPrefix(dir, parts[0]+"/"+parts[1])
	} else if len(parts) == 1 && dir != "" && dir != "mk" && dir != "doc" && dir != "distfiles" && dir != "licenses" {
		cls = "<cat>"
	}
	return cls + "/" + c01ReDigits.ReplaceAllString(base, "N")
}

func c01ApplyKind(spec *TreeSpec, p, kind string) {
	switch kind {
	case "directory":
		spec.Put(p, 'd', "")
		spec.Put(p+"/README", 'f', "x\n")
	case "dangling-symlink":
		spec.Put(p, 'l', "no-such-target")
	case "symlink-to-directory":
		spec.Put(p, 'l', ".")
	case "symlink-loop":
		spec.Put(p, 'l', filepath.Base(p))
	case "empty-file":
		spec.Put(p, 'f', "")
	case "fifo":
		spec.Put(p, 'p', "")
	}
}

func c01MkFifo(p string) { syscall.Mkfifo(p, 0o644) }

type c01ProbeItem struct {
	tree    int
	path    string
	kind    string
	pattern string
	errno   string
}

func c01RunKinds(ctx *Ctx, res *Result) {
	if _, err := os.Stat("/usr/bin/strace"); err != nil {
		res.Broken = "strace not installed (entry-kind stream)"
		return
	}
	thorough := ctx.Tier == "thorough"
	kinds := append([]string(nil), c01EntryKinds...)
	if c01FifoCanary(ctx, res) {
		// reading a FIFO blocks: every FIFO case would wait for the watchdog twice; the one finding is
		// reported by the canary, the stream goes on without that kind
		kinds = kinds[:len(kinds)-1]
		res.Count("kinds.fifo-excluded-because-canary-blocks", 1)
	}
	nTrees, nProbes := 400, 700
	if thorough {
		nTrees, nProbes = 1500, 1 << 30
	}
	// 1. trees: the base fixture and cases of the three generated streams
	trees := make([]*c01Case, nTrees)
	traces := make([]map[string]string, nTrees)
	var mu sync.Mutex
	var firstErr error
	parallelFor(nTrees, func(i int) {
		var c *c01Case
		if i == 0 {
			gdir := filepath.Join(c01Scratch(ctx), "gen", "kinds-base")
			NewBaseTree(gdir)
			spec := CaptureTree(gdir, ctx.Work)
			os.RemoveAll(gdir)
			c = &c01Case{Spec: spec, Args: []string{"-Wall", "cat/pkg"}, Cwd: ".", Feats: map[string]int{}}
		} else {
			stream := []string{"valid", "malformed", "hostile", "malformed"}[i%4]
			c = c01GenCase(ctx, 500000+i, stream)
			// whole-package runs see the most files
			c.Args, c.Cwd = []string{"-Wall", "cat/p0"}, "."
			if i%8 == 5 {
				c.Args = []string{"-Wall", "-r", "."}
			}
		}
		c.ID, c.Stream = i, "kinds"
		ps, err := c01TracePaths(ctx, c)
		mu.Lock()
		defer mu.Unlock()
		if err != nil && firstErr == nil {
			firstErr = err
		}
		trees[i], traces[i] = c, ps
	})
	if firstErr != nil {
		res.Broken = "entry-kind stream: strace run failed: " + firstErr.Error()
		return
	}
	// 2. candidates, grouped by (pattern, kind); rare patterns first
	byKey := map[string][]c01ProbeItem{}
	nPaths, nEnoent := 0, 0
	for i, ps := range traces {
		for _, p := range sortedKeys(ps) {
			if p == "" || strings.HasPrefix(p, ".") && !strings.Contains(p, "/") {
				continue
			}
			nPaths++
			if ps[p] == "ENOENT" {
				nEnoent++
			}
			pat := c01PathPattern(p)
			for _, k := range kinds {
				// the kind the path already has tells nothing new
				_, isFile := trees[i].Spec.Get(p)
				if (k == "empty-file" && isFile) || (k == "directory" && ps[p] == "" && !isFile && trees[i].Spec.find(p) >= 0) {
					continue
				}
				byKey[pat+"|"+k] = append(byKey[pat+"|"+k], c01ProbeItem{i, p, k, pat, ps[p]})
			}
		}
	}
	res.Count("kinds.trees", nTrees)
	res.Count("kinds.traced-paths", nPaths)
	res.Count("kinds.traced-paths-enoent", nEnoent)
	res.Count("kinds.pattern-kind-pairs", len(byKey))
	keys := sortedKeys(byKey)
	r := NewRng(ctx.Seed*0x6b1d5 + 5)
	// every (pattern, kind) once, in a seed-dependent order, then second picks until the budget is used
	for i := len(keys) - 1; i > 0; i-- {
		j := r.Intn(i + 1)
		keys[i], keys[j] = keys[j], keys[i]
	}
	var items []c01ProbeItem
	for round := 0; len(items) < nProbes && round < 3; round++ {
		for _, k := range keys {
			g := byKey[k]
			if round >= len(g) {
				continue
			}
			if round == 0 {
				items = append(items, g[r.Intn(len(g))])
			} else if thorough {
				items = append(items, g[(round*7)%len(g)])
			}
			if len(items) >= nProbes {
				break
			}
		}
		if !thorough {
			break
		}
	}
	// 3. run
	var bads []c01Bad
	kindCount := map[string]int{}
	patSeen := map[string]bool{}
	exits := map[int]int{}
	parallelFor(len(items), func(i int) {
		it := items[i]
		c := c01With(trees[it.tree], func(n *c01Case) { c01ApplyKind(n.Spec, it.path, it.kind) })
		c.Feats = map[string]int{"kinds." + it.kind: 1}
		rr := c01RunCase(ctx, c, c01Timeout(ctx, c))
		v := c01Judge(rr, c.Spec.Size())
		mu.Lock()
		defer mu.Unlock()
		kindCount[it.kind]++
		patSeen[it.pattern] = true
		exits[rr.Exit]++
		if v.Kind == "execerr" {
			res.Broken = "cannot execute the binary: " + v.Detail
		} else if v.Bad() {
			bads = append(bads, c01Bad{c, v, rr})
		}
	})
	res.Evaluations += len(items) + nTrees
	res.DistinctNontrivial += len(items)
	for k, n := range kindCount {
		res.Count("kinds.kind."+k, n)
	}
	res.Count("kinds.patterns-exercised", len(patSeen))
	res.Count("stream.kinds", len(items))
	distf := 0
	for p := range patSeen {
		if strings.HasPrefix(p, "distfiles/") {
			distf++
		}
	}
	res.Count("kinds.patterns-below-distfiles", distf)
	if res.Broken == "" {
		for _, k := range kinds {
			if kindCount[k] < 20 {
				res.Broken = fmt.Sprintf("entry-kind stream: kind %s used only %d times", k, kindCount[k])
			}
		}
		if nPaths < 300 || nEnoent < 30 || len(patSeen) < 40 || exits[0]+exits[1] < len(items)/2 {
			res.Broken = fmt.Sprintf("entry-kind stream: %d traced paths (%d ENOENT), %d patterns exercised, exits %v", nPaths, nEnoent, len(patSeen), exits)
		}
	}
	// 4. triage
	sort.SliceStable(bads, func(i, j int) bool { return bads[i].c.Spec.VarSize() < bads[j].c.Spec.VarSize() })
	done := map[string]int{}
	var wg sync.WaitGroup
	sem := make(chan struct{}, 4)
	for _, b := range bads {
		k := b.v.Kind + "/" + b.v.Site
		if done[k] >= 1 && !(b.v.Kind == "hang" && done[k] < 2) {
			res.Count("bad.not-processed", 1)
			continue
		}
		done[k]++
		wg.Add(1)
		go func(b c01Bad) {
			defer wg.Done()
			sem <- struct{}{}
			defer func() { <-sem }()
			if viol := c01Process(ctx, res, b, true); viol != nil {
				res.AddViolation(*viol)
			}
		}(b)
	}
	wg.Wait()
}

// c01FifoCanary: the base fixture with a FIFO named like a makefile fragment in the package
// directory. A pkglint that opens it for reading blocks for ever without using CPU. Returns
// true when that happens (twice); the violation is reported here.
func c01FifoCanary(ctx *Ctx, res *Result) bool {
	gdir := filepath.Join(c01Scratch(ctx), "gen", "kinds-canary")
	NewBaseTree(gdir)
	spec := CaptureTree(gdir, ctx.Work)
	os.RemoveAll(gdir)
	spec.Put("cat/pkg/fifo.mk", 'p', "")
	c := &c01Case{Stream: "kinds", Spec: spec, Args: []string{"cat/pkg"}, Cwd: ".", Feats: map[string]int{}}
	blocked := func() bool {
		r := c01RunCaseOnce(ctx, c, 10*time.Second, c01CPUSeconds(spec.Size()))
		return r.TimedOut && r.Signal == "watchdog" && r.CPU < 500*time.Millisecond
	}
	if !blocked() {
		return false
	}
	if !blocked() {
		res.Count("kinds.fifo-canary-unconfirmed", 1)
		return false
	}
	rep := c01EncodeCase(c)
	rep["verdict"], rep["key_override"] = "hang", "C01/hang/blocked-on-fifo"
	res.AddViolation(Violation{Key: "C01/hang/blocked-on-fifo", What: "pkglint cat/pkg does not end when the package directory contains a FIFO named fifo.mk: 10 s wall, < 0.5 s CPU, twice (blocked in the read of a file that nobody writes to)",
		FoundInput: true, Size: 1 + spec.VarSize(), Replay: rep})
	return true
}
