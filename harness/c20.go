package main

// C20 -- the file cache is transparent.
//
// Unit layer: scripts of {load, fix through a view, save a view, modify on disk +
// evict} are run on the real FileCache/Load/Autofix/SaveAutofixChanges (shim
// VerifFileCacheScript, fresh G, small cache) and on the extracted model
// (Model/FileCache.v).  Every Load is compared with the model AND with a direct
// read of the file at that moment (Spec/FreshLoad.v; the property itself).  The
// protocol guard ("each fixed view is saved before the file is loaded again")
// is tracked; a stale Load under the guard is a finding, outside the guard the
// model must predict the same dirty lines (C20_load_transparent_refuted).
// G is a global, so the scripts run in worker processes (this binary re-executed).
//
// Whole-run layer: the real binary over trees with several packages sharing a
// *.mk that is fixed while the first package is checked; the diagnostics for
// each package must be those of a fresh run on the tree as it is at that point.

import (
	"encoding/json"
	"fmt"
	"os"
	"os/exec"
	"path/filepath"
	"regexp"
	"sort"
	"strconv"
	"strings"
	"time"

	pkglint "github.com/rillig/pkglint/v23"
)

// ---------- scripts ----------

type c20Script struct {
	Mode  string         `json:"mode"` // d s a
	Cap   int            `json:"cap"`
	Files map[int]string `json:"-"`
	Keys  []int          `json:"-"`
	Ops   []pkglint.VerifC20Op
}

func c20OpString(op pkglint.VerifC20Op) string {
	switch op.Kind {
	case "L":
		return fmt.Sprintf("L.%d.%d.%d", op.Key, op.Spelling, op.Opts)
	case "X":
		head := fmt.Sprintf("X.%d.%d.%s", op.View, op.Line, op.Fix)
		switch op.Fix {
		case "A":
			return fmt.Sprintf("%s.%d.%d.%s.%s", head, op.RawIndex, op.TextIndex, hx(op.From), hx(op.To))
		case "R":
			return fmt.Sprintf("%s.%s.%s.%s", head, hx(op.Prefix), hx(op.From), hx(op.To))
		case "U", "W":
			return head + "." + hx(op.To)
		}
		return head
	case "S":
		if len(op.Fail) > 0 {
			ks := make([]string, len(op.Fail))
			for i, k := range op.Fail {
				ks[i] = strconv.Itoa(k)
			}
			return fmt.Sprintf("S.%d.%s", op.View, strings.Join(ks, "+"))
		}
		return fmt.Sprintf("S.%d", op.View)
	case "M":
		if op.Remove {
			return fmt.Sprintf("M.%d.~", op.Key)
		}
		return fmt.Sprintf("M.%d.%s", op.Key, hx(op.Content))
	}
	return "?"
}

func c20ParseOp(s string) (pkglint.VerifC20Op, bool) {
	f := strings.Split(s, ".")
	n := func(i int) int { v, _ := strconv.Atoi(f[i]); return v }
	var op pkglint.VerifC20Op
	switch {
	case len(f) == 4 && f[0] == "L":
		return pkglint.VerifC20Op{Kind: "L", Key: n(1), Spelling: n(2), Opts: n(3)}, true
	case len(f) >= 4 && f[0] == "X":
		op = pkglint.VerifC20Op{Kind: "X", View: n(1), Line: n(2), Fix: f[3]}
		switch {
		case f[3] == "A" && len(f) == 8:
			op.RawIndex, op.TextIndex, op.From, op.To = n(4), n(5), unhx(f[6]), unhx(f[7])
		case f[3] == "R" && len(f) == 7:
			op.Prefix, op.From, op.To = unhx(f[4]), unhx(f[5]), unhx(f[6])
		case (f[3] == "U" || f[3] == "W") && len(f) == 5:
			op.To = unhx(f[4])
		case f[3] == "D" && len(f) == 4:
		default:
			return op, false
		}
		return op, true
	case len(f) == 2 && f[0] == "S":
		return pkglint.VerifC20Op{Kind: "S", View: n(1)}, true
	case len(f) == 3 && f[0] == "S":
		op = pkglint.VerifC20Op{Kind: "S", View: n(1)}
		for _, k := range strings.Split(f[2], "+") {
			v, err := strconv.Atoi(k)
			if err != nil {
				return op, false
			}
			op.Fail = append(op.Fail, v)
		}
		return op, true
	case len(f) == 3 && f[0] == "M":
		if f[2] == "~" {
			return pkglint.VerifC20Op{Kind: "M", Key: n(1), Remove: true}, true
		}
		return pkglint.VerifC20Op{Kind: "M", Key: n(1), Content: unhx(f[2])}, true
	}
	return op, false
}

func (s *c20Script) diskString() string {
	var parts []string
	for _, k := range s.Keys {
		if c, ok := s.Files[k]; ok {
			parts = append(parts, fmt.Sprintf("%d=%s", k, hx(c)))
		}
	}
	if len(parts) == 0 {
		return "-"
	}
	return strings.Join(parts, ",")
}

func (s *c20Script) opStrings() []string {
	out := make([]string, len(s.Ops))
	for i, op := range s.Ops {
		out[i] = c20OpString(op)
	}
	return out
}

func (s *c20Script) request() string {
	return fmt.Sprintf("run %s %d %s %s", s.Mode, s.Cap, s.diskString(), strings.Join(s.opStrings(), " "))
}

func (s *c20Script) replay(extra map[string]any) map[string]any {
	m := map[string]any{"kind": "script", "mode": s.Mode, "cap": s.Cap, "disk": s.diskString(), "ops": strings.Join(s.opStrings(), " ")}
	for k, v := range extra {
		m[k] = v
	}
	return m
}

func c20ScriptFromReplay(rep map[string]any) (*c20Script, bool) {
	mode, _ := rep["mode"].(string)
	capf, _ := rep["cap"].(float64)
	disk, _ := rep["disk"].(string)
	ops, _ := rep["ops"].(string)
	s := &c20Script{Mode: mode, Cap: int(capf), Files: map[int]string{}}
	if disk != "-" && disk != "" {
		for _, kv := range strings.Split(disk, ",") {
			k, v, _ := strings.Cut(kv, "=")
			ki, _ := strconv.Atoi(k)
			s.Files[ki] = unhx(v)
			s.Keys = append(s.Keys, ki)
		}
	}
	seen := map[int]bool{}
	for _, k := range s.Keys {
		seen[k] = true
	}
	for _, o := range strings.Fields(ops) {
		op, ok := c20ParseOp(o)
		if !ok {
			return nil, false
		}
		if (op.Kind == "L" || op.Kind == "M") && !seen[op.Key] {
			seen[op.Key] = true
			s.Keys = append(s.Keys, op.Key)
		}
		s.Ops = append(s.Ops, op)
	}
	return s, true
}

var c20ModeName = map[string]string{"d": "default", "s": "show-autofix", "a": "autofix"}

// c20Cause names what happened to the file before the stale load at position i.
func c20Cause(s *c20Script, real []pkglint.VerifC20Obs, i int) string {
	key := s.Ops[i].Key
	viewKey := []int{}
	fixed := map[int]bool{}
	cause := "never-loaded"
	for j := 0; j < i && j < len(real); j++ {
		op := s.Ops[j]
		switch op.Kind {
		case "L":
			if !strings.Contains(real[j].Token, ":nil:") && !strings.HasPrefix(real[j].Token, "!") {
				viewKey = append(viewKey, op.Key)
			}
			if op.Key == key {
				if op.Opts != s.Ops[i].Opts {
					cause = "after-load-with-other-options"
				} else {
					cause = "after-load"
				}
			}
		case "X":
			if op.View < len(viewKey) && strings.HasPrefix(real[j].Token, "X:") {
				fixed[op.View] = true
			}
		case "S":
			if op.View < len(viewKey) && viewKey[op.View] == key && fixed[op.View] {
				cause = "after-save-of-fixed-view"
				for _, k := range op.Fail {
					if k == key {
						cause = "after-failed-save-of-fixed-view"
					}
				}
			}
		case "M":
			if op.Key == key {
				cause = "after-modify-and-evict"
			}
		}
	}
	return cause
}

type c20Tally struct {
	n map[string]int
}

func (t *c20Tally) add(k string, n int) {
	if t.n == nil {
		t.n = map[string]int{}
	}
	t.n[k] += n
}

// c20Judge compares one real run with the model's answer.
func c20Judge(res *Result, tally *c20Tally, s *c20Script, real []pkglint.VerifC20Obs, answer string, origin string) {
	model := strings.Fields(answer)
	if strings.HasPrefix(answer, "ERR") || strings.HasPrefix(answer, "EXC") {
		res.Broken = "oracle c20: " + answer + " for " + s.request()
		return
	}
	events := make([]int, len(model))
	for i, m := range model {
		if at := strings.LastIndexByte(m, '@'); at >= 0 {
			events[i], _ = strconv.Atoi(m[at+1:])
			model[i] = m[:at]
		}
	}
	tally.add("scripts_"+origin, 1)
	tally.add("scripts_mode_"+c20ModeName[s.Mode], 1)
	tally.add("ops", len(real))
	reported := false
	nontrivial := false
	defer func() {
		if nontrivial {
			tally.add("scripts_nontrivial", 1)
		}
	}()
	for i, ob := range real {
		has := func(flag string) bool {
			for _, f := range ob.Flags {
				if f == flag {
					return true
				}
			}
			return false
		}
		violation := func(key, what string) {
			reported = true
			pre := &c20Script{Mode: s.Mode, Cap: s.Cap, Files: s.Files, Keys: s.Keys, Ops: s.Ops[:i+1]}
			res.AddViolation(Violation{Key: key, What: what, FoundInput: true, Size: i + 1,
				Replay: pre.replay(map[string]any{"position": i, "real": ob.Token})})
		}
		if strings.HasPrefix(ob.Token, "L") {
			tally.add("loads", 1)
			guard := len(ob.Token) > 1 && ob.Token[1] == '1'
			if strings.Contains(ob.Token, ":nil:") {
				tally.add("loads_nil", 1)
			}
			// the most recent earlier operation on this file: a Load in the other mode?
			if prev := c20PrevLoadOtherMode(s, real, i); prev >= 0 {
				if s.Ops[i].Opts&4 == 0 && strings.Contains(c20GotPart(real[prev].Token), "+") {
					tally.add("mk_then_plain_on_continuation_file", 1)
				}
				if s.Ops[i].Opts&4 != 0 && strings.Contains(c20FreshPart(ob.Token), "+") {
					tally.add("plain_then_mk_on_continuation_file", 1)
				}
			}
			if has("stale") && guard {
				// evaluate the specification of the REQUESTED mode on what the implementation returned
				got, fresh := c20GotPart(ob.Token), c20FreshPart(ob.Token)
				if s.Ops[i].Opts&4 == 0 && got != "nil" && !c20PlainSpecHolds(got) {
					violation("C20/load/mixed-modes/plain-load-got-joined-lines",
						fmt.Sprintf("mode %s, capacity %d: the plain-mode Load (options %d, no Makefile bit) at step %d of [%s] returned lines that are not one logical line per physical line, numbered 1..n, Text = the physical line: %s",
							c20ModeName[s.Mode], s.Cap, s.Ops[i].Opts, i, strings.Join(s.opStrings()[:i+1], " "), ob.Token))
				} else if s.Ops[i].Opts&4 != 0 && got != "nil" && strings.Contains(fresh, "+") && !strings.Contains(got, "+") && c20PlainSpecHolds(got) {
					violation("C20/load/mixed-modes/makefile-load-got-unjoined-lines",
						fmt.Sprintf("mode %s, capacity %d: the Makefile-mode Load (options %d) at step %d of [%s] returned one line per physical line although the file has continuation lines: %s",
							c20ModeName[s.Mode], s.Cap, s.Ops[i].Opts, i, strings.Join(s.opStrings()[:i+1], " "), ob.Token))
				}
			}
			if has("stale") {
				if guard {
					cause := c20Cause(s, real, i)
					violation("C20/stale-load/"+cause+"/"+c20ModeName[s.Mode],
						fmt.Sprintf("mode %s, capacity %d: Load at step %d of [%s] differs from a direct read of the file although every fixed view of it was saved before (%s): %s",
							c20ModeName[s.Mode], s.Cap, i, strings.Join(s.opStrings()[:i+1], " "), cause, ob.Token))
				} else {
					tally.add("dirty_loads_outside_guard", 1)
				}
			}
			if has("shared-line-object") {
				violation("C20/line-object-shared-between-loads",
					fmt.Sprintf("Load at step %d of [%s] returned a *Line that an earlier Load had handed out", i, strings.Join(s.opStrings()[:i+1], " ")))
			}
		}
		for _, f := range ob.Flags {
			if strings.HasPrefix(f, "bookkeeping:") {
				violation("C20/table-mapping-out-of-step/"+f[len("bookkeeping:"):],
					fmt.Sprintf("after step %d of [%s] (capacity %d) FileCache.table and FileCache.mapping are out of step: %s",
						i, strings.Join(s.opStrings()[:i+1], " "), s.Cap, f[len("bookkeeping:"):]))
			}
		}
		if has("once-state-leaked") {
			violation("C20/line-once-state-survives-load",
				fmt.Sprintf("Load at step %d of [%s] returned a Line whose Line.once set already holds the mark that was put on the lines of an earlier Load", i, strings.Join(s.opStrings()[:i+1], " ")))
		}
		if has("save-failed") {
			tally.add("saves_that_failed", 1)
			if i+1 < len(real) {
				for j := i + 1; j < len(real); j++ {
					if s.Ops[j].Kind == "L" {
						for _, k := range s.Ops[i].Fail {
							if k == s.Ops[j].Key {
								tally.add("loads_after_failed_save_of_that_file", 1)
							}
						}
					}
				}
			}
		}
		if has("fix-leaked") {
			violation("C20/fix-leaks-into-other-view",
				fmt.Sprintf("the fix at step %d of [%s] changed what another view shows", i, strings.Join(s.opStrings()[:i+1], " ")))
		}
		if strings.HasPrefix(ob.Token, "!") {
			tally.add("stopped_"+ob.Token[1:], 1)
		}
		if strings.HasPrefix(ob.Token, "S:") && len(ob.Token) > 2 {
			tally.add("saves_that_rewrote_a_file", 1)
		}
		if strings.HasPrefix(ob.Token, "X:1") {
			tally.add("fixes_that_acted", 1)
		}
		if i >= len(model) || model[i] != ob.Token {
			if !reported {
				m := "<nothing>"
				if i < len(model) {
					m = model[i]
				}
				kind := "op-" + s.Ops[i].Kind
				pre := &c20Script{Mode: s.Mode, Cap: s.Cap, Files: s.Files, Keys: s.Keys, Ops: s.Ops[:i+1]}
				res.AddViolation(Violation{Key: "C20/correspondence/" + kind,
					What: fmt.Sprintf("model and implementation disagree at step %d of [%s] (mode %s, capacity %d): real %s, model %s",
						i, strings.Join(s.opStrings()[:i+1], " "), c20ModeName[s.Mode], s.Cap, ob.Token, m),
					FoundInput: false, Size: i + 1,
					Replay: pre.replay(map[string]any{"position": i, "real": ob.Token, "model": m,
						"broken": "correspondence VerifFileCacheScript (FileCache/Load/Autofix/SaveAutofixChanges) = Model.FileCache.step"})})
			}
			return
		}
		ev := events[i]
		// C20_hit_same_options on the real cache: FileCache.hits goes up exactly when the
		// model says the file is cached with exactly these options
		if s.Ops[i].Kind == "L" && has("hit") != (ev&1 != 0) && !reported {
			reported = true
			pre := &c20Script{Mode: s.Mode, Cap: s.Cap, Files: s.Files, Keys: s.Keys, Ops: s.Ops[:i+1]}
			which := "hit-where-the-model-misses"
			if ev&1 != 0 {
				which = "miss-where-the-model-hits"
			}
			res.AddViolation(Violation{Key: "C20/correspondence/cache-hit/" + which,
				What: fmt.Sprintf("the Load at step %d of [%s] (mode %s, capacity %d): FileCache.hits went up: %v, the model (hit iff an entry with exactly the requested options exists): %v; the lines returned agree with the model",
					i, strings.Join(s.opStrings()[:i+1], " "), c20ModeName[s.Mode], s.Cap, has("hit"), ev&1 != 0),
				FoundInput: false, Size: i + 1,
				Replay: pre.replay(map[string]any{"position": i, "real": ob.Token,
					"broken": "correspondence FileCache.Get hit condition = Model.FileCache.get (e_opts e = o), C20_hit_same_options"})})
			return
		}
		if ev&(1|2|4|16) != 0 {
			nontrivial = true
		}
		if origin == "modes" {
			if ev&1 != 0 {
				tally.add("modes_cache_hits", 1)
			}
			if ev&2 != 0 {
				tally.add("modes_miss_other_options", 1)
			}
		}
		for bit, name := range map[int]string{1: "cache_hits", 2: "miss_other_options", 4: "overflow_removeOldEntries", 16: "evict_removed_entry", 32: "evict_swapped_with_last", 64: "loads_not_cached_suffix"} {
			if ev&bit != 0 {
				tally.add(name, 1)
			}
		}
	}
	if len(model) > len(real) && !reported {
		res.AddViolation(Violation{Key: "C20/correspondence/length",
			What:       fmt.Sprintf("the implementation stopped after %d steps of [%s], the model ran %d", len(real), strings.Join(s.opStrings(), " "), len(model)),
			FoundInput: false, Size: len(s.Ops),
			Replay: s.replay(map[string]any{"broken": "correspondence VerifFileCacheScript = Model.FileCache.step"})})
	}
	res.TracesValidated++
}

// the two line lists of a Load token L<guard>:<lines returned>:<lines of a direct read>
func c20GotPart(tok string) string {
	f := strings.Split(tok, ":")
	if len(f) != 3 {
		return ""
	}
	return f[1]
}

func c20FreshPart(tok string) string {
	f := strings.Split(tok, ":")
	if len(f) != 3 {
		return ""
	}
	return f[2]
}

// c20PlainSpecHolds evaluates the property's clause for plain mode on a rendered
// list of lines: one physical line per logical line, line k numbered k, Text =
// the physical line without its line feed, no physical line empty, a line feed
// only at the end of one.
func c20PlainSpecHolds(lines string) bool {
	if lines == "e" {
		return true
	}
	for k, l := range strings.Split(lines, ";") {
		p := strings.Split(l, ",")
		if len(p) != 4 || strings.Contains(p[2], "+") {
			return false
		}
		raw := unhx(p[2])
		if p[0] != strconv.Itoa(k+1) || raw == "" || unhx(p[1]) != strings.TrimSuffix(raw, "\n") || strings.Contains(strings.TrimSuffix(raw, "\n"), "\n") {
			return false
		}
	}
	return true
}

// c20PrevLoadOtherMode: the index of the most recent earlier operation that
// concerns the file of the Load at position i, if that is a Load that returned
// lines and asked for the other mode (Makefile bit differs); else -1.
func c20PrevLoadOtherMode(s *c20Script, real []pkglint.VerifC20Obs, i int) int {
	key := s.Ops[i].Key
	for j := i - 1; j >= 0 && j < len(real); j-- {
		op := s.Ops[j]
		switch op.Kind {
		case "L":
			if op.Key != key {
				continue
			}
			if op.Opts&4 != s.Ops[i].Opts&4 && strings.HasPrefix(real[j].Token, "L") && !strings.Contains(real[j].Token, ":nil:") {
				return j
			}
			return -1
		case "M":
			if op.Key == key {
				return -1
			}
		case "S", "X":
			return -1
		}
	}
	return -1
}

// c20RunBatch runs the scripts on the real code (sequentially: G is global) and judges them.
func c20RunBatch(ctx *Ctx, res *Result, tally *c20Tally, dir string, scripts []*c20Script, origin string) {
	if len(scripts) == 0 || res.Broken != "" {
		return
	}
	reqs := make([]string, len(scripts))
	reals := make([][]pkglint.VerifC20Obs, len(scripts))
	for i, s := range scripts {
		reqs[i] = s.request()
		reals[i] = pkglint.VerifFileCacheScript(dir, s.Cap, s.Mode, s.Files, s.Keys, s.Ops)
	}
	ans, err := runOracle(ctx, "c20", reqs)
	if err != nil {
		res.Broken = err.Error()
		return
	}
	for i, s := range scripts {
		c20Judge(res, tally, s, reals[i], ans[i], origin)
		res.Evaluations++
	}
}

// ---------- exhaustive enumeration ----------

// The alphabet of the exhaustive sweep.  Files 0,1,2 are a.mk b.mk c.mk; option
// sets 4 = Makefile and 14 = NotEmpty|Makefile|LogErrors (the two with which
// pkglint loads included and checked makefiles).  The spelling of the file name
// alternates with the position.  Fixes are ReplaceAt(0, 2, " ", "\t") on line 0
// (it acts in every mode).  "Ma" rewrites a.mk with the next of two contents.
// "Fl"/"Fp" (extended alphabet, round 4): SaveAutofixChanges through the last / previous
// view while a left-over <file>.pkglint.tmp makes the rewrite of that view's file fail.
var c20Alphabet = []string{"La0", "La1", "Lb0", "Lb1", "Lc0", "Lc1", "Xl", "Xp", "Sl", "Sp", "Ma", "Mb", "Fl", "Fp"}

const c20BaseSymbols = 12

var c20Initial = map[int]string{0: "V= 1\nW= 2\n", 1: "B= 1\n", 2: "C= 1\nD= 2\n"}
var c20Variants = []string{"V= 3\n", "V= 1\nW= 2\n"}

// c20Concrete turns a word over the alphabet into a script; ok=false when the
// word names a view that does not exist or is not in canonical form.
func c20Concrete(word []int, mode string, capacity int) (*c20Script, bool) {
	s := &c20Script{Mode: mode, Cap: capacity, Files: c20Initial, Keys: []int{0, 1, 2}}
	nviews := 0
	var viewKeys []int
	mods := map[int]int{}
	seenC := false
	seenB := false
	for pos, w := range word {
		sym := c20Alphabet[w]
		switch sym[0] {
		case 'L':
			key := int(sym[1] - 'a')
			// b.mk and c.mk are interchangeable until one of them is modified:
			// canonical words use b before c
			if key == 1 {
				seenB = true
			}
			if key == 2 && !seenB && !seenC && mods[1] == 0 {
				return nil, false
			}
			if key == 2 {
				seenC = true
			}
			opts := 4
			if sym[2] == '1' {
				opts = 14
			}
			s.Ops = append(s.Ops, pkglint.VerifC20Op{Kind: "L", Key: key, Spelling: pos % 2, Opts: opts})
			nviews++
			viewKeys = append(viewKeys, key)
		case 'X', 'S', 'F':
			v := nviews - 1
			if sym[1] == 'p' {
				v = nviews - 2
			}
			if v < 0 {
				return nil, false
			}
			if sym[0] == 'X' {
				s.Ops = append(s.Ops, pkglint.VerifC20Op{Kind: "X", View: v, Line: 0, Fix: "A", RawIndex: 0, TextIndex: 2, From: " ", To: "\t"})
			} else if sym[0] == 'F' {
				s.Ops = append(s.Ops, pkglint.VerifC20Op{Kind: "S", View: v, Fail: []int{viewKeys[v]}})
			} else {
				s.Ops = append(s.Ops, pkglint.VerifC20Op{Kind: "S", View: v})
			}
		case 'M':
			key := int(sym[1] - 'a')
			content := c20Variants[mods[key]%2]
			if key == 1 {
				content = "B= " + strconv.Itoa(2+mods[key]) + "\n"
			}
			mods[key]++
			s.Ops = append(s.Ops, pkglint.VerifC20Op{Kind: "M", Key: key, Content: content})
		}
	}
	return s, true
}

// c20Enumerate calls f for every canonical word of exactly the given length
// whose first symbol is a load and whose last symbol is a load or a save (the
// words of smaller length are prefixes of these; an operation after the last
// load or save shows nothing).  shard/nshards splits by the first three symbols.
func c20Enumerate(length int, shard, nshards int, f func(word []int)) {
	c20EnumerateExt(length, shard, nshards, false, f)
}

// ext: over the extended alphabet, only the words that contain a failing save
// (the others are the words of the base sweep).
func c20EnumerateExt(length int, shard, nshards int, ext bool, f func(word []int)) {
	nsym := c20BaseSymbols
	if ext {
		nsym = len(c20Alphabet)
	}
	word := make([]int, length)
	split := 3 // the shard is decided by the first three symbols
	if length < split {
		split = length
	}
	var rec func(pos int, bucket int)
	rec = func(pos int, bucket int) {
		if pos == length {
			last := c20Alphabet[word[length-1]][0]
			if ext {
				hasF := false
				for _, w := range word {
					hasF = hasF || w >= c20BaseSymbols
				}
				// a failing save shows in the Loads after it
				if hasF && last == 'L' {
					f(word)
				}
				return
			}
			if last == 'L' || last == 'S' {
				f(word)
			}
			return
		}
		for w := 0; w < nsym; w++ {
			if pos == 0 && c20Alphabet[w][0] != 'L' {
				continue
			}
			word[pos] = w
			b := bucket
			if pos < split {
				b = bucket*len(c20Alphabet) + w
				if pos == split-1 && b%nshards != shard {
					continue
				}
			}
			rec(pos+1, b)
		}
	}
	rec(0, 0)
}

// ---------- random scripts ----------

var c20RandContents = []string{
	"V= 1\nW= 2\n", "V= 1\n", "A= b\nC= d\nE= f\n", "", "# comment\n\nX= y\n", "V= 1\nW= 2", "ONE= = =\n", "V=  1\n",
	// round 5: continuation lines (joined in Makefile mode only)
	"A= \\\n b\nC= d\n", "V= 1 \\\n\t2 \\\n\t3\n# end\n", "X= \\\n",
}
var c20RandOpts = []int{4, 14, 4, 14, 0, 2, 6, 8, 12}

// ---------- mixed load modes (round 5) ----------

// File contents of the mixed-mode sweep: with continuation lines (Makefile mode
// and plain mode give different lines), without, empty; index len = no such file.
var c20ModesContents = []string{
	"A= \\\n b\nC= d\n",
	"VAR=\tfirst \\\n\tsecond \\\n\tthird\n# end",
	"V= 1\nW= 2\n",
	"",
}

// c20ModesScripts: EVERY ordered pair and triple of the 16 LoadOptions sets as
// loads of the same file (spelling alternating), for each content and for a
// missing file; every ordered pair also with something in between that must make
// the second load a miss or change what it shows: the file rewritten (+ Evict), the entry
// pushed out by another file (capacity 1), a fix through the first view saved
// (-F).  shard = the first option set.
func c20ModesScripts(shard int, f func(*c20Script)) {
	o1 := shard
	load := func(key, sp, o int) pkglint.VerifC20Op {
		return pkglint.VerifC20Op{Kind: "L", Key: key, Spelling: sp, Opts: o}
	}
	for ci := 0; ci <= len(c20ModesContents); ci++ {
		files := map[int]string{1: "B= 1\n", 5: "SUB= \\\n 5\n"}
		if ci < len(c20ModesContents) {
			files[0] = c20ModesContents[ci]
		}
		mk := func(mode string, capacity int, ops ...pkglint.VerifC20Op) {
			f(&c20Script{Mode: mode, Cap: capacity, Files: files, Keys: []int{0, 1, 5}, Ops: ops})
		}
		for o2 := 0; o2 < 16; o2++ {
			mk("d", 2, load(0, 0, o1), load(0, 1, o2))
			for o3 := 0; o3 < 16; o3++ {
				mk("d", 2, load(0, 0, o1), load(0, 1, o2), load(0, 0, o3))
			}
			for _, c := range []string{c20ModesContents[0], c20ModesContents[2]} {
				mk("d", 2, load(0, 0, o1), pkglint.VerifC20Op{Kind: "M", Key: 0, Content: c}, load(0, 1, o2), load(0, 0, o1))
			}
			mk("d", 1, load(0, 0, o1), load(1, 0, 4), load(0, 1, o2), load(0, 0, o1))
			// file 5 = sub/f0.mk: the same base name as file 0 in another directory
			mk("d", 3, load(0, 0, o1), load(5, 0, o1), load(0, 1, o2), load(5, 1, o2))
			mk("a", 2, load(0, 0, o1), pkglint.VerifC20Op{Kind: "X", View: 0, Line: 0, Fix: "A", RawIndex: 0, TextIndex: 2, From: " ", To: "\t"},
				pkglint.VerifC20Op{Kind: "S", View: 0}, load(0, 1, o2), load(0, 0, o1))
		}
	}
}

func c20RandomScript(rng *Rng, maxLen int) *c20Script {
	s := &c20Script{Mode: Pick(rng, []string{"d", "s", "a", "a"}), Cap: 1 + rng.Intn(4), Files: map[int]string{}}
	nfiles := 2 + rng.Intn(4) // keys 0..4 are *.mk
	for k := 0; k < nfiles; k++ {
		s.Keys = append(s.Keys, k)
		if !rng.Chance(8) {
			s.Files[k] = Pick(rng, c20RandContents)
		}
	}
	if rng.Chance(30) {
		s.Keys = append(s.Keys, 5) // sub/f0.mk: same base name as file 0, another directory
		s.Files[5] = Pick(rng, c20RandContents)
	}
	s.Keys = append(s.Keys, 8) // not cached: no .mk suffix
	s.Files[8] = Pick(rng, c20RandContents)
	n := 4 + rng.Intn(maxLen-3)
	nviews := 0 // an upper bound: loads that return nil create no view
	for i := 0; i < n; i++ {
		r := rng.Intn(100)
		switch {
		case r < 45 || nviews == 0:
			op := pkglint.VerifC20Op{Kind: "L", Key: Pick(rng, s.Keys), Spelling: rng.Intn(3), Opts: Pick(rng, c20RandOpts)}
			if rng.Chance(1) {
				op.Opts |= 1 // MustSucceed: Fatal when the file cannot be loaded
			}
			s.Ops = append(s.Ops, op)
			nviews++
		case r < 70:
			op := pkglint.VerifC20Op{Kind: "X", View: c20PickView(rng, nviews), Line: rng.Intn(3)}
			switch k := rng.Intn(100); {
			case k < 30:
				op.Fix, op.RawIndex, op.TextIndex, op.From, op.To = "A", 0, 2, " ", "\t"
			case k < 40:
				op.Fix, op.RawIndex, op.TextIndex, op.From, op.To = "A", rng.Intn(2), rng.Intn(4), Pick(rng, []string{" ", "=", "V", "1", "= "}), Pick(rng, []string{"\t", "", "==", " "})
			case k < 70:
				op.Fix, op.Prefix, op.From, op.To = "R", Pick(rng, []string{"", "", "=", "V"}), Pick(rng, []string{" ", "= ", "1", "=", "\t", "V"}), Pick(rng, []string{"\t", "=\t", "2", "", " "})
			case k < 80:
				op.Fix, op.To = "U", "# above"
			case k < 90:
				op.Fix, op.To = "W", "# below"
			default:
				op.Fix = "D"
			}
			s.Ops = append(s.Ops, op)
		case r < 88:
			op := pkglint.VerifC20Op{Kind: "S", View: c20PickView(rng, nviews)}
			if rng.Chance(30) {
				op.Fail = append(op.Fail, Pick(rng, s.Keys))
				if rng.Chance(30) {
					if k := Pick(rng, s.Keys); k != op.Fail[0] {
						op.Fail = append(op.Fail, k)
					}
				}
			}
			s.Ops = append(s.Ops, op)
		default:
			op := pkglint.VerifC20Op{Kind: "M", Key: Pick(rng, s.Keys)}
			if rng.Chance(10) {
				op.Remove = true
			} else {
				op.Content = Pick(rng, c20RandContents)
			}
			s.Ops = append(s.Ops, op)
		}
	}
	return s
}

func c20PickView(rng *Rng, nviews int) int {
	if nviews <= 1 || rng.Chance(40) {
		return nviews - 1
	}
	if rng.Chance(30) {
		return 0
	}
	return rng.Intn(nviews)
}

// ---------- worker processes ----------

type c20Job struct {
	Kind    string `json:"kind"` // exh | exhf (extended alphabet, words with a failing save) | rand
	Mode    string `json:"mode"`
	Cap     int    `json:"cap"`
	Len     int    `json:"len"`
	Shard   int    `json:"shard"`
	NShards int    `json:"nshards"`
	Seed    uint64 `json:"seed"`
	Count   int    `json:"count"`
}

type c20WorkerOut struct {
	Result *Result        `json:"result"`
	Tally  map[string]int `json:"tally"`
	Sample []string       `json:"sample"`
}

func c20Worker(ctx *Ctx) *Result {
	res := &Result{}
	tally := &c20Tally{}
	var jobs []c20Job
	data, err := os.ReadFile(ctx.Replay)
	if err == nil {
		err = json.Unmarshal(data, &jobs)
	}
	if err != nil {
		res.Broken = "c20 worker: " + err.Error()
		return res
	}
	// the scripts do little besides file I/O: use a tmpfs when there is one
	dir := filepath.Join(ctx.Work, "files")
	if shm, err := os.MkdirTemp("/dev/shm", "verif-c20-"); err == nil {
		dir = shm
		defer os.RemoveAll(shm)
	}
	var sample []string
	for _, job := range jobs {
		var batch []*c20Script
		flush := func() {
			c20RunBatch(ctx, res, tally, dir, batch, job.Kind)
			batch = batch[:0]
		}
		switch job.Kind {
		case "exh", "exhf":
			c20EnumerateExt(job.Len, job.Shard, job.NShards, job.Kind == "exhf", func(word []int) {
				if s, ok := c20Concrete(word, job.Mode, job.Cap); ok {
					batch = append(batch, s)
					if len(sample) < 2 && len(batch) == 777 {
						sample = append(sample, s.request())
					}
					if len(batch) >= 20000 {
						flush()
					}
				}
			})
		case "modes":
			c20ModesScripts(job.Shard, func(sc *c20Script) {
				batch = append(batch, sc)
				if len(sample) < 3 && len(batch) == 40 {
					sample = append(sample, sc.request())
				}
			})
		case "rand":
			rng := NewRng(job.Seed)
			seen := map[string]bool{}
			for i := 0; i < job.Count; i++ {
				sc := c20RandomScript(rng, job.Len)
				if r := sc.request(); seen[r] {
					continue
				} else {
					seen[r] = true
				}
				batch = append(batch, sc)
				if len(sample) < 4 && i == 5 {
					sample = append(sample, batch[len(batch)-1].request())
				}
			}
		}
		flush()
	}
	out, _ := json.Marshal(c20WorkerOut{Result: res, Tally: tally.n, Sample: sample})
	if err := os.WriteFile(filepath.Join(ctx.Work, "worker.json"), out, 0o644); err != nil {
		res.Broken = err.Error()
	}
	return res
}

// c20Spawn distributes the jobs over worker processes and merges their results.
func c20Spawn(ctx *Ctx, res *Result, tally *c20Tally, jobs [][]c20Job) {
	type outcome struct {
		out c20WorkerOut
		err string
	}
	results := make([]outcome, len(jobs))
	self, err := os.Executable()
	if err != nil {
		self = os.Args[0]
	}
	parallelFor(len(jobs), func(i int) {
		wdir := filepath.Join(ctx.Work, fmt.Sprintf("w%02d", i))
		if err := os.MkdirAll(wdir, 0o755); err != nil {
			results[i].err = err.Error()
			return
		}
		jf := filepath.Join(wdir, "jobs.json")
		data, _ := json.Marshal(jobs[i])
		_ = os.WriteFile(jf, data, 0o644)
		cmd := exec.Command(self, "run", "tool-c20worker", "tier="+ctx.Tier, fmt.Sprintf("seed=%d", ctx.Seed),
			"oracle="+ctx.Oracle, "pkglint="+ctx.Pkglint, "work="+wdir, "verif="+ctx.Verif, "repo="+ctx.Repo,
			"replay="+jf, "out="+filepath.Join(wdir, "result.json"))
		cmd.Dir = wdir
		if out, err := cmd.CombinedOutput(); err != nil {
			results[i].err = fmt.Sprintf("worker %d: %v: %s", i, err, out)
			return
		}
		data, err := os.ReadFile(filepath.Join(wdir, "worker.json"))
		if err == nil {
			err = json.Unmarshal(data, &results[i].out)
		}
		if err != nil {
			results[i].err = fmt.Sprintf("worker %d: %v", i, err)
		}
	})
	for _, r := range results {
		if r.err != "" {
			res.Broken = r.err
			return
		}
		w := r.out.Result
		if w == nil {
			res.Broken = "worker without result"
			return
		}
		if w.Broken != "" {
			res.Broken = w.Broken
		}
		res.Evaluations += w.Evaluations
		res.TracesValidated += w.TracesValidated
		for _, v := range w.Violations {
			res.AddViolation(v)
		}
		for k, n := range r.out.Tally {
			tally.add(k, n)
		}
		for _, s := range r.out.Sample {
			res.Sample(map[string]any{"script": s})
		}
	}
}

// ---------- LoadMk twice: does pkglint itself keep the protocol? ----------

var c20ParseFixContents = []string{
	"# $" + "NetBSD$\n\nVAR =\tvalue\n",
	"VAR =\tvalue\nOTHER  +=\tx\n",
	"VAR=\tvalue\n",
	"# $" + "NetBSD$\n\nA :=\tb\n\nC =\td\n",
	".if $(VAR) == yes\n.endif\n",
	"VAR =\t$(OTHER)\n",
}

func c20LoadMkTwice(ctx *Ctx, res *Result, tally *c20Tally) {
	dir := filepath.Join(ctx.Work, "loadmk")
	for _, content := range c20ParseFixContents {
		for _, mode := range []string{"d", "s", "a"} {
			for _, opts := range []int{0, 10, 3} {
				second, fresh, panicked := pkglint.VerifC20LoadMkTwice(dir, content, mode, opts)
				res.Evaluations++
				tally.add("loadmk_twice", 1)
				if second == fresh && panicked == "" {
					continue
				}
				what := fmt.Sprintf("mode %s: LoadMk(f, %d) twice on %q, no fix made by the caller: the second Load gives %s, a direct read %s %s",
					c20ModeName[mode], opts, content, second, fresh, panicked)
				res.AddViolation(Violation{Key: "C20/loadmk-twice-differs-from-disk/" + c20ModeName[mode], What: what, FoundInput: true, Size: 2,
					Replay: map[string]any{"kind": "loadmk", "content": hx(content), "mode": mode, "opts": opts}})
			}
		}
	}
}

// ---------- whole runs ----------

type c20Scenario struct {
	Name  string
	Pkgs  []string // in the order in which they are checked
	Build func(t *Tree, fixable []string)
}

// lines that pkglint fixes somewhere: at parse time (space after the variable
// name) or when the file itself is checked (alignment, trailing space, indentation)
var c20Fixable = [][]string{
	{"SHARED_VAR=\tvalue"},
	{"SHARED_VAR =\tvalue"},
	{"SHARED_VAR= value"},
	{"SHARED_VAR=\tvalue   "},
	{"SHARED_A =\tvalue", "SHARED_BB=  other"},
	{".if ${OPSYS} == NetBSD", ".    if ${OPSYS} == NetBSD", ".    endif", ".endif"},
	{"SHARED_VAR :=\tvalue", "SHARED_LONGER_NAME=\tvalue"},
}

func c20PkgMakefile(t *Tree, dir string, extra ...string) {
	t.WritePackage(dir, extra)
}

func c20Bl3(id, dir string) string {
	up := strings.ToUpper(id)
	return lines(cvsID, "", "BUILDLINK_TREE+=\t"+id, "", ".if !defined("+up+"_BUILDLINK3_MK)", up+"_BUILDLINK3_MK:=", "",
		"BUILDLINK_API_DEPENDS."+id+"+=\t"+id+">=1.0", "BUILDLINK_PKGSRCDIR."+id+"?=\t../../"+dir, ".endif # "+up+"_BUILDLINK3_MK", "",
		"BUILDLINK_TREE+=\t-"+id)
}

var c20Scenarios = []c20Scenario{
	{"shared-include", []string{"cat/pkg1", "cat/pkg2"}, func(t *Tree, fx []string) {
		t.Write("cat/common/shared.mk", lines(append([]string{cvsID, ""}, fx...)...))
		c20PkgMakefile(t, "cat/pkg1", ".include \"../../cat/common/shared.mk\"")
		c20PkgMakefile(t, "cat/pkg2", ".include \"../../cat/common/shared.mk\"")
	}},
	{"shared-include-three", []string{"cat/pkg1", "cat/pkg2", "cat/pkg3"}, func(t *Tree, fx []string) {
		t.Write("cat/common/shared.mk", lines(append([]string{cvsID, ""}, fx...)...))
		for _, p := range []string{"cat/pkg1", "cat/pkg2", "cat/pkg3"} {
			c20PkgMakefile(t, p, ".include \"../../cat/common/shared.mk\"")
		}
	}},
	{"fragment-of-first", []string{"cat/pkg1", "cat/pkg2", "cat/pkg3"}, func(t *Tree, fx []string) {
		// extra.mk belongs to pkg1 (checked and fixed there), pkg2 and pkg3 include it
		t.Write("cat/pkg1/extra.mk", lines(append([]string{cvsID, ""}, fx...)...))
		c20PkgMakefile(t, "cat/pkg1", ".include \"extra.mk\"")
		c20PkgMakefile(t, "cat/pkg2", ".include \"../../cat/pkg1/extra.mk\"")
		c20PkgMakefile(t, "cat/pkg3", ".include \"../../cat/pkg1/extra.mk\"")
	}},
	{"fragment-of-last", []string{"cat/pkg2", "cat/pkg3", "cat/pkg1"}, func(t *Tree, fx []string) {
		t.Write("cat/pkg1/extra.mk", lines(append([]string{cvsID, ""}, fx...)...))
		c20PkgMakefile(t, "cat/pkg1", ".include \"extra.mk\"")
		c20PkgMakefile(t, "cat/pkg2", ".include \"../../cat/pkg1/extra.mk\"")
		c20PkgMakefile(t, "cat/pkg3", ".include \"../../cat/pkg1/extra.mk\"")
	}},
	{"builtin-next-to-buildlink3", []string{"cat/pkg1", "cat/pkg2"}, func(t *Tree, fx []string) {
		t.WritePackage("cat/lib", nil)
		t.Write("cat/lib/buildlink3.mk", c20Bl3("lib", "cat/lib"))
		t.Write("cat/lib/builtin.mk", lines(append([]string{cvsID, "", "BUILTIN_PKG:=\tlib", ""}, fx...)...))
		c20PkgMakefile(t, "cat/pkg1", ".include \"../../cat/lib/buildlink3.mk\"")
		c20PkgMakefile(t, "cat/pkg2", ".include \"../../cat/lib/buildlink3.mk\"")
	}},
	{"buildlink3-of-first", []string{"cat/pkg1", "cat/pkg2"}, func(t *Tree, fx []string) {
		// pkg1's own buildlink3.mk carries the fixable lines and is included by pkg2
		bl3 := strings.Replace(c20Bl3("pkg1", "cat/pkg1"), "BUILDLINK_API_DEPENDS", strings.Join(fx, "\n")+"\nBUILDLINK_API_DEPENDS", 1)
		t.Write("cat/pkg1/buildlink3.mk", bl3)
		c20PkgMakefile(t, "cat/pkg1")
		c20PkgMakefile(t, "cat/pkg2", ".include \"../../cat/pkg1/buildlink3.mk\"")
	}},
	{"gnu-configure-loaded-per-line", []string{"cat/pkg1", "cat/pkg2"}, func(t *Tree, fx []string) {
		t.Write("mk/configure/gnu-configure.mk", lines(append(append([]string{cvsID, ""}, fx...), "CONFIGURE_ARGS+=\t--prefix=${PREFIX}")...))
		for _, p := range []string{"cat/pkg1", "cat/pkg2"} {
			c20PkgMakefile(t, p, "GNU_CONFIGURE=\tyes", "CONFIGURE_ARGS+=\t--enable-a", "CONFIGURE_ARGS+=\t--enable-b")
		}
	}},
}

func c20BuildTree(root string, sc *c20Scenario, fx []string) *Tree {
	t := NewBaseTree(root)
	_ = os.RemoveAll(t.Path("cat/pkg"))
	subdirs := []string{}
	seen := map[string]bool{}
	for _, p := range sc.Pkgs {
		seen[p] = true
	}
	sc.Build(t, fx)
	ents, _ := os.ReadDir(t.Path("cat"))
	for _, e := range ents {
		if e.IsDir() {
			if _, err := os.Stat(t.Path("cat/" + e.Name() + "/Makefile")); err == nil {
				subdirs = append(subdirs, "SUBDIR+=\t"+e.Name())
			}
		}
	}
	t.Write("cat/Makefile", lines(append(append([]string{cvsID, "", "COMMENT=\tComment for the category", ""}, subdirs...), "", ".include \"../mk/misc/category.mk\"")...))
	return t
}

var c20PanicRe = regexp.MustCompile(`(?m)^panic: .*|internal error`)

// c20WholeRun checks one scenario: the combined run against one fresh run per package.
func c20WholeRun(ctx *Ctx, res *Result, tally *c20Tally, scIdx, fxIdx int, flags []string, recursive bool, tag string) {
	sc := &c20Scenarios[scIdx]
	fx := c20Fixable[fxIdx]
	base := filepath.Join(ctx.Work, "wr", tag)
	ta := c20BuildTree(filepath.Join(base, "a"), sc, fx)
	tb := c20BuildTree(filepath.Join(base, "b"), sc, fx)
	defer os.RemoveAll(base)
	argsA := append(append([]string{"-Wall"}, flags...), sc.Pkgs...)
	if recursive {
		argsA = append(append([]string{"-Wall", "-r"}, flags...), "cat")
	}
	ra := RunPkglint(ctx, ta.Root, 30*time.Second, argsA...)
	res.Evaluations++
	tally.add("whole_runs", 1)
	replay := map[string]any{"kind": "tree", "scenario": scIdx, "fixable": fxIdx, "flags": strings.Join(flags, " "), "recursive": recursive, "name": sc.Name}
	desc := fmt.Sprintf("scenario %s, shared file lines %q, `pkglint %s`", sc.Name, fx, strings.Join(argsA, " "))

	// which files did run A announce to fix without rewriting them?
	unsaved := ""
	before := Snapshot(c20BuildTree(filepath.Join(base, "orig"), sc, fx).Root)
	after := Snapshot(ta.Root)
	for _, d := range ParseDiags(ra.Stdout) {
		if d.Level == "AUTOFIX" && len(flags) > 0 && flags[0] == "-F" {
			rel := filepath.Clean(d.Path)
			if before[rel].Sum == after[rel].Sum {
				unsaved = rel
			}
		}
	}
	crashed := ra.Exit < 0 || ra.Exit > 1 || ra.TimedOut || c20PanicRe.MatchString(ra.Stderr)
	if crashed {
		key := "C20/whole-run/crash"
		if unsaved != "" {
			key += "/fix-announced-but-file-not-rewritten"
		}
		first := strings.SplitN(strings.TrimSpace(ra.Stderr), "\n", 2)[0]
		res.AddViolation(Violation{Key: key, FoundInput: true, Size: 10 + len(sc.Pkgs),
			What:   fmt.Sprintf("%s: exit %d, %s (AUTOFIX printed but file not rewritten: %q)", desc, ra.Exit, first, unsaved),
			Replay: replay})
		return
	}
	// The fresh runs, one per package in the order of the combined run.  In default
	// mode the Logger prints a diagnostic once per run (Logger.FirstTime: same
	// cleaned file name, line and message), so a diagnostic about a shared file
	// that an earlier package already produced is not expected again.
	order := sc.Pkgs
	if recursive {
		order = nil
		ents, _ := os.ReadDir(tb.Path("cat"))
		for _, e := range ents {
			if _, err := os.Stat(tb.Path("cat/" + e.Name() + "/Makefile")); err == nil {
				order = append(order, "cat/"+e.Name())
			}
		}
		sort.Strings(order)
	}
	// Diagnostics are compared as (level, cleaned path, lines, message): the same
	// file is spelled relative to the package that is being checked, or to the
	// first argument (G.Pkgsrc.File).
	norm := func(d Diag) string {
		return fmt.Sprintf("%s: %s:%d-%d: %s", d.Level, filepath.Clean(d.Path), d.Line1, d.Line2, d.Msg)
	}
	// What pkglint prints while it loads the infrastructure (mk/*.mk, spelled
	// relative to the working directory, not through a package) appears once per
	// process: only the first of the fresh runs is expected to show it.
	firstTime := map[string]bool{}
	dedup := len(flags) == 0
	var want []string
	startupSeen := false
	if recursive {
		startupSeen = true
		rb := RunPkglint(ctx, tb.Root, 30*time.Second, append(append([]string{"-Wall"}, flags...), "cat")...)
		for _, d := range ParseDiags(rb.Stdout) {
			firstTime[norm(d)] = true
			want = append(want, norm(d))
		}
	}
	for i, pkg := range order {
		rb := RunPkglint(ctx, tb.Root, 30*time.Second, append(append([]string{"-Wall"}, flags...), pkg)...)
		res.Evaluations++
		n := 0
		for _, d := range ParseDiags(rb.Stdout) {
			k := norm(d)
			if (i > 0 || startupSeen) && !strings.HasPrefix(d.Path, "cat/") {
				tally.add("whole_run_startup_diagnostics_of_later_process", 1)
				continue
			}
			if dedup && d.Level != "AUTOFIX" && firstTime[k] {
				tally.add("whole_run_diagnostics_deduplicated_by_logger", 1)
				continue
			}
			firstTime[k] = true
			want = append(want, k)
			n++
		}
		tally.add("whole_run_package_comparisons", 1)
		tally.add("whole_run_diagnostics_compared", n)
		if i > 0 && n > 0 {
			tally.add("whole_run_later_package_with_diagnostics", 1)
		}
	}
	var got []string
	for _, d := range ParseDiags(ra.Stdout) {
		got = append(got, norm(d))
	}
	if strings.Join(got, "\n") != strings.Join(want, "\n") {
		key := "C20/whole-run/differs-from-fresh-runs"
		if unsaved != "" {
			key += "/fix-announced-but-file-not-rewritten"
		}
		at := 0
		for at < len(got) && at < len(want) && got[at] == want[at] {
			at++
		}
		g, w := "<end>", "<end>"
		if at < len(got) {
			g = got[at]
		}
		if at < len(want) {
			w = want[at]
		}
		res.AddViolation(Violation{Key: key, FoundInput: true, Size: 10 + len(sc.Pkgs),
			What: fmt.Sprintf("%s prints %d diagnostics, fresh runs on the tree as it is before each package (%s) print %d; first difference at #%d: combined run %q, fresh run %q",
				desc, len(got), strings.Join(order, ", "), len(want), at, g, w),
			Replay: replay})
		return
	}
	if d := DiffSnapshots(Snapshot(ta.Root), Snapshot(tb.Root)); len(d) > 0 {
		res.AddViolation(Violation{Key: "C20/whole-run/tree-differs-from-fresh-runs", FoundInput: true, Size: 10 + len(sc.Pkgs),
			What:   fmt.Sprintf("%s: the tree after the combined run differs from the tree after one run per package: %v", desc, d),
			Replay: replay})
		return
	}
	if len(DiffSnapshots(before, after)) > 0 {
		tally.add("whole_runs_that_rewrote_files", 1)
	}
	res.TracesValidated++
}

// c20EndOfRunLoads evaluates the property at one more point of real runs: after
// Main has returned (in this process, shim VerifC20MainThenLoad) every file that
// is still cached is loaded again and compared with the disk.  A view that was
// fixed but never saved shows here even if the run itself did not load the file twice.
func c20EndOfRunLoads(ctx *Ctx, res *Result, tally *c20Tally) {
	for sc := range c20Scenarios {
		for fx := range c20Fixable {
			for _, flags := range [][]string{{}, {"-F"}, {"--show-autofix"}} {
				root := filepath.Join(ctx.Work, "wr", "eor")
				_ = os.RemoveAll(root)
				t := c20BuildTree(root, &c20Scenarios[sc], c20Fixable[fx])
				args := append(append([]string{"-Wall"}, flags...), c20Scenarios[sc].Pkgs...)
				stale, cached, panicked := pkglint.VerifC20MainThenLoad(t.Root, args)
				res.Evaluations++
				tally.add("end_of_run_audits", 1)
				tally.add("end_of_run_cached_files_reloaded", cached)
				desc := fmt.Sprintf("scenario %s, shared file lines %q, `pkglint %s`", c20Scenarios[sc].Name, c20Fixable[fx], strings.Join(args, " "))
				replay := map[string]any{"kind": "endofrun", "scenario": sc, "fixable": fx, "flags": strings.Join(flags, " ")}
				if panicked != "" {
					res.AddViolation(Violation{Key: "C20/end-of-run/crash", FoundInput: true, Size: 12,
						What: desc + " (in process): " + panicked, Replay: replay})
					continue
				}
				if len(stale) > 0 {
					res.AddViolation(Violation{Key: "C20/end-of-run/cached-file-differs-from-disk", FoundInput: true, Size: 12,
						What:   fmt.Sprintf("%s: at the end of the run Load differs from the file for %d cached file(s): %s", desc, len(stale), stale[0]),
						Replay: replay})
				}
			}
		}
	}
	_ = os.RemoveAll(filepath.Join(ctx.Work, "wr", "eor"))
}

func c20WholeRuns(ctx *Ctx, res *Result, tally *c20Tally) {
	// the base fixture must still be clean, otherwise nothing below means anything
	t := NewBaseTree(filepath.Join(ctx.Work, "wr", "base"))
	r := RunPkglint(ctx, t.Root, 30*time.Second, "-Wall", "cat/pkg")
	if r.Exit != 0 || !strings.Contains(r.Stdout, "Looks fine.") {
		res.Broken = fmt.Sprintf("base fixture is not clean: exit %d, %s %s", r.Exit, r.Stdout, r.Stderr)
		return
	}
	type task struct {
		sc, fx int
		flags  []string
		rec    bool
	}
	var tasks []task
	for sc := range c20Scenarios {
		for fx := range c20Fixable {
			for _, flags := range [][]string{{}, {"-F"}, {"--show-autofix"}} {
				tasks = append(tasks, task{sc, fx, flags, false})
				if ctx.Tier == "thorough" || (sc+fx)%3 == 0 {
					tasks = append(tasks, task{sc, fx, flags, true})
				}
			}
		}
	}
	sub := make([]*Result, len(tasks))
	tallies := make([]*c20Tally, len(tasks))
	parallelFor(len(tasks), func(i int) {
		sub[i], tallies[i] = &Result{}, &c20Tally{}
		tk := tasks[i]
		c20WholeRun(ctx, sub[i], tallies[i], tk.sc, tk.fx, tk.flags, tk.rec, fmt.Sprintf("t%03d", i))
	})
	for i := range tasks {
		res.Evaluations += sub[i].Evaluations
		res.TracesValidated += sub[i].TracesValidated
		for _, v := range sub[i].Violations {
			res.AddViolation(v)
		}
		for k, n := range tallies[i].n {
			tally.add(k, n)
		}
	}
}

// ---------- static audit: who writes Line.Text, RawLine.orignl, Lines.Lines? ----------

// The model lets only ReplaceAt/ReplaceAfter change the Text of a loaded Line
// and nothing change orignl.  The list of assignments in the source must be the
// one the model was written against.
var c20MutatorsExpected = []string{
	"autofix.go: _, fix.line.Text = replaceOnce(fix.line.Text, from, to)",
	"autofix.go: _, fix.line.Text = replaceOnce(fix.line.Text, prefixFrom, prefixTo)",
	"vartypecheck.go: cv.MkLine.Line.Text = \"\"",
}

var c20MutatorRe = regexp.MustCompile(`(\.Text|\.orignl|\.raw|\.Location\.lineno)\s*(=[^=]|\+=)`)

func c20Audit(ctx *Ctx, res *Result, tally *c20Tally) {
	files, _ := filepath.Glob(filepath.Join(ctx.Repo, "v23", "*.go"))
	var found []string
	for _, f := range files {
		if strings.HasSuffix(f, "_test.go") {
			continue
		}
		data, err := os.ReadFile(f)
		if err != nil {
			continue
		}
		for _, l := range strings.Split(string(data), "\n") {
			t := strings.TrimSpace(l)
			if strings.HasPrefix(t, "//") {
				continue
			}
			if c20MutatorRe.MatchString(t) {
				found = append(found, filepath.Base(f)+": "+t)
			}
		}
	}
	sort.Strings(found)
	want := append([]string(nil), c20MutatorsExpected...)
	sort.Strings(want)
	tally.add("audit_mutator_sites", len(found))
	if strings.Join(found, "\n") != strings.Join(want, "\n") {
		res.AddViolation(Violation{Key: "C20/audit/line-mutators", FoundInput: false, Size: 1,
			What:   fmt.Sprintf("the assignments to Line.Text / RawLine.orignl / Line.raw / lineno in the source are no longer the ones the model was written against: found %q, expected %q", found, want),
			Replay: map[string]any{"kind": "audit", "broken": "static audit: writers of Line.Text, RawLine.orignl, Line.raw", "found": found, "expected": want}})
	}
}

// ---------- run / replay ----------

func runC20(ctx *Ctx) *Result {
	res := &Result{Rule: "scripts over {load f o, fix through a view, save a view, modify on disk + evict}: every canonical word of length L (= all words of length <= L as prefixes) over the 12-symbol alphabet {load a/b/c.mk x 2 option sets, fix/save through the last/previous view, rewrite a.mk/b.mk}, capacity 2 and 3, modes default/-f/-F; every canonical word of length L-1 ending in a load over the 14-symbol alphabet (+ FAILING save through the last/previous view: a left-over .pkglint.tmp blocks the rewrite) that contains a failing save, mode -F; mixed load modes (exhaustive for its domain): EVERY ordered pair and triple of the 16 LoadOptions sets as loads of one *.mk file, for 4 contents (two with continuation lines, one without, empty) and a missing file, every ordered pair also with a rewrite+Evict / an overflow (capacity 1) / a saved fix (-F) in between; then seeded random scripts up to length 60 (5 cached files + 1 uncached, capacity 1-4, all five fix operations, removal, empty files); non-trivial = a script in which, according to the model run that matched the real run, at least one Load was served by the cache, missed because of other options, or made removeOldEntries run, or a save/modify evicted an entry (counted per script; the enumerated words are pairwise distinct, random scripts are deduplicated by their request string per worker); whole runs: 7 two/three-package scenarios x 7 sets of fixable lines x {default, -F, --show-autofix} x {explicit arguments, -r}, combined run against one fresh process per package, plus Main in process followed by a reload of every file still cached"}
	tally := &c20Tally{}
	// scratch directories of workers that were killed (timeout) are left on the tmpfs
	if old, _ := filepath.Glob("/dev/shm/verif-c20-*"); len(old) > 0 {
		for _, d := range old {
			if st, err := os.Stat(d); err == nil && time.Since(st.ModTime()) > 2*time.Hour {
				_ = os.RemoveAll(d)
			}
		}
	}
	maxLen, extLen, randCount, randLen := 6, 5, 3000, 60
	if ctx.Tier == "thorough" {
		maxLen, extLen, randCount = 7, 6, 60000
	}
	const nworkers = 16
	jobs := make([][]c20Job, nworkers)
	rng := NewRng(ctx.Seed)
	for w := 0; w < nworkers; w++ {
		for _, capacity := range []int{2, 3} {
			for _, mode := range []string{"d", "s", "a"} {
				jobs[w] = append(jobs[w], c20Job{Kind: "exh", Mode: mode, Cap: capacity, Len: maxLen, Shard: w, NShards: nworkers})
			}
		}
		for _, capacity := range []int{2, 3} {
			jobs[w] = append(jobs[w], c20Job{Kind: "exhf", Mode: "a", Cap: capacity, Len: extLen, Shard: w, NShards: nworkers})
		}
		jobs[w] = append(jobs[w], c20Job{Kind: "modes", Shard: w, NShards: nworkers})
		jobs[w] = append(jobs[w], c20Job{Kind: "rand", Len: randLen, Seed: rng.Next(), Count: randCount / nworkers})
	}
	c20Spawn(ctx, res, tally, jobs)
	if res.Broken != "" {
		return res
	}
	c20CrossCheckExtraction(ctx, res, tally)
	if res.Broken != "" {
		return res
	}
	c20LoadMkTwice(ctx, res, tally)
	c20EndOfRunLoads(ctx, res, tally)
	c20WholeRuns(ctx, res, tally)
	c20Audit(ctx, res, tally)

	for k, n := range tally.n {
		res.Count(k, n)
	}
	res.DistinctNontrivial = tally.n["scripts_nontrivial"]
	res.Exhaustive = false
	// coverage floors on the unchanged tree: the branches the property names
	if len(res.Violations) == 0 {
		for k, floor := range map[string]int{"cache_hits": 1000, "miss_other_options": 1000, "overflow_removeOldEntries": 500,
			"evict_removed_entry": 1000, "evict_swapped_with_last": 200, "loads_not_cached_suffix": 50, "dirty_loads_outside_guard": 200,
			"saves_that_rewrote_a_file": 500, "saves_that_failed": 500, "loads_after_failed_save_of_that_file": 300, "loads_nil": 20, "modes_cache_hits": 1500, "modes_miss_other_options": 10000,
			"mk_then_plain_on_continuation_file": 2000, "plain_then_mk_on_continuation_file": 2000, "whole_runs_that_rewrote_files": 10, "whole_run_later_package_with_diagnostics": 5, "end_of_run_cached_files_reloaded": 500} {
			if tally.n[k] < floor {
				// the implementation behaves in a way that keeps the scripts from reaching the
				// branches the property names: a broken correspondence, not a broken check
				res.AddViolation(Violation{Key: "C20/coverage-floor/" + k,
					What:       fmt.Sprintf("coverage floor missed: %s = %d < %d", k, tally.n[k], floor),
					FoundInput: false, Size: 1,
					Replay:     map[string]any{"kind": "floor", "broken": "the scripts no longer reach " + k + " on this implementation"}})
			}
		}
	}
	res.Assumptions = []string{"the joining of continuation lines is C09's model (Model/Lines.v), used here as it is; ASCII", "no --only; a failing save is one whose temporary file cannot be created (O_EXCL); write/chmod/rename errors leave the loop through the same `continue`"}
	return res
}

func replayC20(ctx *Ctx, rep map[string]any) *Result {
	res := &Result{Rule: "replay"}
	tally := &c20Tally{}
	switch rep["kind"] {
	case "script":
		s, ok := c20ScriptFromReplay(rep)
		if !ok {
			res.Broken = "bad replay file"
			return res
		}
		c20RunBatch(ctx, res, tally, filepath.Join(ctx.Work, "files"), []*c20Script{s}, "replay")
	case "loadmk":
		c20LoadMkTwice(ctx, res, tally)
	case "tree":
		sc, _ := rep["scenario"].(float64)
		fx, _ := rep["fixable"].(float64)
		flags, _ := rep["flags"].(string)
		rec, _ := rep["recursive"].(bool)
		c20WholeRun(ctx, res, tally, int(sc), int(fx), strings.Fields(flags), rec, "replay")
	case "endofrun":
		c20EndOfRunLoads(ctx, res, tally)
	case "audit":
		c20Audit(ctx, res, tally)
	case "crosscheck":
		c20CrossCheckExtraction(ctx, res, tally)
	default:
		res.Broken = "nothing to replay: the replay file names a proof obligation or correspondence, not an input"
	}
	return res
}

func init() {
	register("C20", runC20, replayC20)
	register("tool-c20worker", c20Worker, nil)
}
