package main

// C01 driver: unit correspondence (c01_unit.go), then the whole-run streams
// (valid, hostile, malformed), triage + reduction of failures, scaling probes.

import (
	"crypto/sha256"
	"encoding/json"
	"fmt"
	"os"
	"path/filepath"
	"sort"
	"strings"
	"sync"
	"sync/atomic"
	"time"
)

func c01GenCase(ctx *Ctx, i int, stream string) *c01Case {
	r := NewRng(ctx.Seed*0x9E3779B1 + uint64(i)*7919 + 1)
	dir := filepath.Join(c01Scratch(ctx), "gen", fmt.Sprintf("g%d", i))
	o := GenOpts{Packages: 1 + r.Intn(3), Rich: r.Chance(15), Density: Pick(r, []int{20, 35, 35, 60})}
	switch stream {
	case "hostile":
		o.Hostile = true
	case "malformed":
		o.Hostile = r.Chance(20)
	}
	g := GenerateTree(r.Fork(), dir, o)
	spec := CaptureTree(dir, ctx.Work)
	os.RemoveAll(dir)
	c := &c01Case{ID: i, Stream: stream, Spec: spec, Feats: g.Features}
	var extra []string
	if stream == "malformed" {
		f, ex := GenMalformedC01(r.Fork(), spec, "cat/p0")
		for k, v := range f {
			c.Feats[k] += v
		}
		extra = ex
	}
	c.Args, c.Cwd, c.Opts = GenArgsC01(r.Fork(), "cat/p0", extra, stream == "malformed")
	return c
}

func c01Hash(c *c01Case) [32]byte {
	h := sha256.New()
	for _, e := range c.Spec.Entries {
		if !e.Base {
			fmt.Fprintf(h, "%s\x00%c\x00%d\x00%s\x00", e.Path, e.Kind, len(e.Data), e.Data)
		}
	}
	fmt.Fprintf(h, "%q|%s", c.Args, c.Cwd)
	var out [32]byte
	copy(out[:], h.Sum(nil))
	return out
}

var (
	c01KnownOnce sync.Once
	c01Known     map[string]bool
)

// c01KnownKeys: the keys of the recorded C01 findings (known-findings.json is only read)
func c01KnownKeys(ctx *Ctx) map[string]bool {
	c01KnownOnce.Do(func() {
		c01Known = map[string]bool{}
		data, err := os.ReadFile(filepath.Join(ctx.Verif, "known-findings.json"))
		if err != nil {
			return
		}
		var kf struct {
			Findings []struct{ Status, Property, Key string } `json:"findings"`
		}
		if json.Unmarshal(data, &kf) == nil {
			for _, f := range kf.Findings {
				if f.Status == "known" && f.Property == "C01" {
					c01Known[f.Key] = true
				}
			}
		}
	})
	return c01Known
}

type c01Bad struct {
	c *c01Case
	v c01Verdict
	r RunResult
}

// c01Process confirms, reduces and keys one failing case; returns nil when it could not be confirmed.
func c01Process(ctx *Ctx, res *Result, b c01Bad, reduce bool) *Violation {
	return c01ProcessN(ctx, res, b, reduce, 0)
}

// measured = number of measurements of the same case that were already taken and agree (probes)
func c01ProcessN(ctx *Ctx, res *Result, b c01Bad, reduce bool, measured int) *Violation {
	// a scaling probe ends quickly at n and 2n: what it shows at 4n is growth ("time"), whether or
	// not the run at 4n reaches the CPU limit
	probe := strings.HasPrefix(b.c.Stream, "probe:")
	if probe && b.v.Kind == "hang" {
		b.v.Kind = "time"
	}
	c, v := b.c, b.v
	wd := c01Timeout(ctx, c)
	same := func(x c01Verdict) bool { return x.Kind == v.Kind && x.Site == v.Site }
	slow := v.Kind == "hang" || v.Kind == "time"
	if slow {
		// hang: confirmed twice; time: three measurements in all; a run that sometimes ends below
		// the CPU limit and sometimes not is a "time" finding. The runs are independent: concurrently.
		k := 2 - measured
		if v.Kind == "hang" {
			k = 2
		}
		if k < 0 {
			k = 0
		}
		xs := make([]c01Verdict, k)
		var cw sync.WaitGroup
		for i := range xs {
			cw.Add(1)
			go func(i int) { defer cw.Done(); xs[i] = c01Judge(c01RunCase(ctx, c, wd), c.Spec.Size()) }(i)
		}
		cw.Wait()
		for _, x := range xs {
			if x.Kind != "time" && x.Kind != "hang" {
				res.Count("unconfirmed."+v.Kind, 1)
				return nil
			}
			if x.Kind == "time" && v.Kind == "hang" {
				v.Kind, v.Detail = "time", x.Detail
			}
		}
	} else if x := c01Judge(c01RunCase(ctx, c, wd), c.Spec.Size()); !same(x) {
		res.Count("unconfirmed."+v.Kind, 1)
		return nil
	}

	mkReducer := func(coarse bool) *c01Reducer {
		rd := &c01Reducer{par: 16, coarse: coarse}
		switch v.Kind {
		case "hang":
			// CPU-bound: still running after 3 s of CPU; blocked: no exit within 90 s while using no CPU
			rd.budget = 600
			rd.test = func(n *c01Case) bool {
				x := c01RunCaseOnce(ctx, n, 90*time.Second, 3)
				return x.TimedOut && (x.Signal == "cpu-limit" || x.CPU < 200*time.Millisecond)
			}
		case "time":
			// the CPU limit makes a failing candidate cheap: a candidate passes when it is
			// still running at its own envelope (or ended above it)
			rd.budget = 600
			rd.test = func(n *c01Case) bool {
				lim := c01CPULimit(n.Spec.Size())
				x := c01RunCaseOnce(ctx, n, 30*wd, int(lim/time.Second))
				return (x.TimedOut && x.Signal == "cpu-limit") || (!x.TimedOut && x.Exit >= 0 && x.CPU >= lim)
			}
		default:
			rd.budget = 1500
			rd.test = func(n *c01Case) bool { return same(c01Judge(c01RunCase(ctx, n, wd), n.Spec.Size())) }
		}
		if coarse {
			rd.budget = 64
		}
		return rd
	}
	accept := func(cand *c01Case) *c01Case {
		// the reduced case must fail under the full rules, otherwise keep what we had
		x := c01Judge(c01RunCase(ctx, cand, wd), cand.Spec.Size())
		if same(x) || (slow && (x.Kind == "time" || x.Kind == "hang")) {
			return cand
		}
		return nil
	}

	red := c
	key, what := "", ""
	var stack []string
	if slow {
		// 1. coarse reduction (argv, whole entries), unless every passing candidate would cost the
		// envelope of a big input
		if reduce && c.Spec.Size() < 16384 {
			if cand := accept(mkReducer(true).reduce(c)); cand != nil {
				red = cand
			}
			res.Count("reductions.coarse", 1)
		}
		// 2. the family, always computed on the coarsely reduced case
		var cpu time.Duration
		if v.Kind == "time" {
			cpu = b.r.CPU
			if red != c {
				cpu = c01RunCase(ctx, red, wd).CPU
			}
		}
		fam, st := "", []string(nil)
		// differential evidence first: the run is recursive, the tree contains a SUBDIR entry that
		// names its own directory (or an ancestor), and without those lines the run is quick
		if variant, ok := c01WithoutSelfSubdirs(red); ok {
			x := c01RunCaseOnce(ctx, variant, 30*wd, int(c01CPULimit(variant.Spec.Size())/time.Second))
			if !x.TimedOut && x.Exit >= 0 && x.CPU < c01CPULimit(variant.Spec.Size())/4 {
				fam = "subdir-self-reference"
			}
		}
		if fam == "" {
			fam, st = c01HangFamily(ctx, red, cpu, v.Kind == "time")
		}
		stack = st
		kind := v.Kind
		if probe || fam == "nested-modifier-reparse" {
			kind = "time" // growth / exponential, not endless
		}
		key = "C01/" + kind + "/" + fam
		// 3. line by line and byte by byte only for a finding that is not yet recorded: for a known
		// one every passing candidate would burn seconds of CPU in every run of the check
		if reduce && !c01KnownKeys(ctx)[key] && red.Spec.Size() < 16384 {
			if cand := accept(mkReducer(false).reduce(red)); cand != nil {
				red = cand
			}
			res.Count("reductions.fine", 1)
		}
		what = fmt.Sprintf("%s in %s: %s; pkglint %s", kind, fam, v.Detail, strings.Join(red.Args, " "))
	} else {
		if reduce {
			if cand := accept(mkReducer(false).reduce(c)); cand != nil {
				red = cand
			}
			res.Count("reductions", 1)
		}
		key = "C01/" + v.Kind + "/" + v.Site
		what = fmt.Sprintf("%s at %s: %s; pkglint %s", v.Kind, v.Site, v.Detail, strings.Join(red.Args, " "))
	}
	rep := c01EncodeCase(red)
	if slow {
		rep["stack"] = stack
	} else {
		rep["stderr"] = firstLines(b.r.Stderr, 40)
	}
	rep["verdict"] = v.Kind
	rep["site"] = v.Site
	rep["expect_key"] = key
	rep["original_size"] = c.Spec.VarSize()
	return &Violation{Key: key, What: what, FoundInput: true, Size: 1 + red.Spec.VarSize() + len(strings.Join(red.Args, " ")), Replay: rep}
}

// ---------- scaling probes ----------

type c01Probe struct {
	name string
	n0   int
	path string // file to write ("" = lines go into the package Makefile)
	args []string
	gen  func(n int) string
}

func c01Nest(open, mod, tail, cl string, n int) string {
	s := "x"
	for i := 0; i < n; i++ {
		s = open + "A:" + mod + s + tail + cl
	}
	return s
}

func c01Probes() []c01Probe {
	rep := strings.Repeat
	mkNest := func(name, mod, tail string) c01Probe {
		n0 := 4 // the variants stay below the floor at 4n = 16; "nested-modifier" (n0 = 5) is the one that re-finds DESIGN 8-3
		if name == "modifier" {
			n0 = 5
		}
		return c01Probe{name: "nested-" + name, n0: n0, gen: func(n int) string { return "X=\t" + c01Nest("${", mod, tail, "}", n) + "\n" }}
	}
	ps := []c01Probe{
		mkNest("modifier", "x", ""), mkNest("M", "M", ""), mkNest("U", "U", ""), mkNest("S", "S,a,", ","), mkNest("at", "@v@", "@"), mkNest("bang", "!echo ", "!"), mkNest("index", "[", "]"),
		{name: "nested-paren", n0: 4, gen: func(n int) string { return "X=\t" + c01Nest("$(", "x", "", ")", n) + "\n" }},
		{name: "nested-varname", n0: 4, gen: func(n int) string {
			s := "x"
			for i := 0; i < n; i++ {
				s = "${A." + s + "}"
			}
			return "X=\t" + s + "\n"
		}},
		{name: "nested-cond", n0: 4, gen: func(n int) string { return ".if " + c01Nest("${", "M", "", "}", n) + "\n.endif\n" }},
		{name: "nested-shell", n0: 4, gen: func(n int) string { return "do-install:\n\techo " + c01Nest("${", "x", "", "}", n) + "\n" }},
		{name: "continuation-chain", n0: 500, gen: func(n int) string { return "X=\t\\\n" + rep("\tx \\\n", n) + "\ty\n" }},
		{name: "continuation-empty", n0: 500, gen: func(n int) string { return "X=\t\\\n" + rep("\\\n", n) + "\n" }},
		{name: "directives-seq", n0: 250, gen: func(n int) string { return rep(".if ${A}\n.endif\n", n) }},
		{name: "directives-nested", n0: 100, gen: func(n int) string { return rep(".if ${A}\n", n) + rep(".endif\n", n) }},
		{name: "directives-open", n0: 250, gen: func(n int) string { return rep(".if ${A}\n.for i in x\n", n) }},
		{name: "directives-stray", n0: 250, gen: func(n int) string { return rep(".elif ${A}\n.else\n.endif\n.endfor\n", n) }},
		{name: "for-nested", n0: 100, gen: func(n int) string { return rep(".for i in a b\n", n) + "X+=\t${i}\n" + rep(".endfor\n", n) }},
		{name: "long-line-words", n0: 2000, gen: func(n int) string { return "X=\t" + rep("word ", n) + "\n" }},
		{name: "long-line-exprs", n0: 1000, gen: func(n int) string { return "X=\t" + rep("${A:Q} ", n) + "\n" }},
		{name: "long-line-x", n0: 4000, gen: func(n int) string { return "X=\t" + rep("x", n) + "\n" }},
		{name: "long-comment", n0: 4000, gen: func(n int) string { return "# " + rep("x ", n) + "\n" }},
		{name: "long-modifier-seq", n0: 500, gen: func(n int) string { return "X=\t${A" + rep(":Mx", n) + "}\n" }},
		{name: "long-varparam", n0: 1000, gen: func(n int) string { return "X" + rep(".a", n) + "=\tx\n" }},
		{name: "backslashes", n0: 2000, gen: func(n int) string { return "X=\t" + rep("\\", n) + "x\n" }},
		{name: "dollars", n0: 2000, gen: func(n int) string { return "X=\t" + rep("$$", n) + "\n" }},
		{name: "lonely-dollars", n0: 1000, gen: func(n int) string { return "X=\t${A:S," + rep("$", n) + ",,}\n" }},
		{name: "shell-dollars", n0: 1000, gen: func(n int) string { return "do-install:\n\techo " + rep("$$x ", n) + "\n" }},
		{name: "shell-subshell", n0: 50, gen: func(n int) string { return "do-install:\n\techo " + rep("$$(echo ", n) + "x" + rep(")", n) + "\n" }},
		{name: "shell-parens", n0: 50, gen: func(n int) string { return "do-install:\n\t" + rep("(", n) + "echo" + rep(")", n) + "\n" }},
		{name: "shell-parens-open", n0: 200, gen: func(n int) string { return "do-install:\n\t" + rep("( ", n) + "\n" }},
		{name: "shell-braces", n0: 50, gen: func(n int) string { return "do-install:\n\t" + rep("{ ", n) + "echo; " + rep("}; ", n) + "\n" }},
		{name: "shell-if", n0: 50, gen: func(n int) string {
			return "do-install:\n\t" + rep("if true; then ", n) + ":; " + rep("fi; ", n) + "\n"
		}},
		{name: "shell-backticks", n0: 200, gen: func(n int) string { return "do-install:\n\techo " + rep("`echo` ", n) + "\n" }},
		{name: "shell-quotes", n0: 500, gen: func(n int) string { return "do-install:\n\techo " + rep("\"a\"'b'", n) + "\n" }},
		{name: "shell-pipes", n0: 500, gen: func(n int) string { return "do-install:\n\ta" + rep(" | a", n) + "\n" }},
		{name: "shell-semicolons", n0: 500, gen: func(n int) string { return "do-install:\n\ta" + rep("; a", n) + "\n" }},
		{name: "shell-lines", n0: 500, gen: func(n int) string { return "do-install:\n" + rep("\t${ECHO} x\n", n) }},
		{name: "cond-parens", n0: 100, gen: func(n int) string { return ".if " + rep("(", n) + "1" + rep(")", n) + "\n.endif\n" }},
		{name: "cond-parens-open", n0: 500, gen: func(n int) string { return ".if " + rep("(", n) + "\n.endif\n" }},
		{name: "cond-nots", n0: 500, gen: func(n int) string { return ".if " + rep("!", n) + "1\n.endif\n" }},
		{name: "cond-and-chain", n0: 250, gen: func(n int) string { return ".if 1" + rep(" && ${A}", n) + "\n.endif\n" }},
		{name: "cond-or-chain", n0: 250, gen: func(n int) string { return ".if 1" + rep(" || !empty(A:Mx)", n) + "\n.endif\n" }},
		{name: "license-parens", n0: 100, gen: func(n int) string { return "LICENSE=\t" + rep("(", n) + "gnu-gpl-v2" + rep(")", n) + "\n" }},
		{name: "license-chain", n0: 250, gen: func(n int) string { return "LICENSE=\tgnu-gpl-v2" + rep(" AND gnu-gpl-v2", n) + "\n" }},
		{name: "depends-braces", n0: 5, gen: func(n int) string { return "DEPENDS+=\t" + rep("{a,b}", n) + "-[0-9]*:../../cat/pkg\n" }},
		{name: "subst-sed", n0: 250, gen: func(n int) string {
			return "SUBST_CLASSES+=\tx\nSUBST_STAGE.x=\tpre-configure\nSUBST_FILES.x=\tf\nSUBST_SED.x=\t" + rep("-e s,a,b, ", n) + "\n"
		}},
		{name: "assignments", n0: 500, gen: func(n int) string {
			var sb strings.Builder
			for i := 0; i < n; i++ {
				fmt.Fprintf(&sb, "V%d=\tvalue\n", i)
			}
			return sb.String()
		}},
		{name: "paragraph-align", n0: 500, gen: func(n int) string {
			var sb strings.Builder
			for i := 0; i < n; i++ {
				fmt.Fprintf(&sb, "V%s= value\n", rep("x", i%40))
			}
			return sb.String()
		}},
		{name: "includes", n0: 100, gen: func(n int) string { return rep(".include \"../../mk/bsd.prefs.mk\"\n", n) }},
		{name: "plist-lines", n0: 1000, path: "cat/pkg/PLIST", gen: func(n int) string {
			var sb strings.Builder
			sb.WriteString("@comment $" + "NetBSD$\n")
			for i := 0; i < n; i++ {
				fmt.Fprintf(&sb, "bin/f%06d\n", i)
			}
			return sb.String()
		}},
		{name: "plist-unsorted", n0: 1000, path: "cat/pkg/PLIST", gen: func(n int) string {
			var sb strings.Builder
			sb.WriteString("@comment $" + "NetBSD$\n")
			for i := n; i > 0; i-- {
				fmt.Fprintf(&sb, "bin/f%06d\n", i)
			}
			return sb.String()
		}},
		{name: "plist-conds", n0: 500, path: "cat/pkg/PLIST", gen: func(n int) string { return "@comment $" + "NetBSD$\n" + rep("${PLIST.a}", n) + "bin/x\n" }},
		{name: "plist-dup", n0: 1000, path: "cat/pkg/PLIST", gen: func(n int) string { return "@comment $" + "NetBSD$\n" + rep("bin/x\n", n) }},
		{name: "distinfo-lines", n0: 500, path: "cat/pkg/distinfo", gen: func(n int) string {
			var sb strings.Builder
			sb.WriteString("$" + "NetBSD$\n\n")
			for i := 0; i < n; i++ {
				fmt.Fprintf(&sb, "BLAKE2s (f%d.tar.gz) = 12\nSHA512 (f%d.tar.gz) = 12\nSize (f%d.tar.gz) = 12 bytes\n", i, i, i)
			}
			return sb.String()
		}},
		{name: "patch-hunks", n0: 250, path: "cat/pkg/patches/patch-aa", gen: func(n int) string {
			var sb strings.Builder
			sb.WriteString("$" + "NetBSD$\n\nDesc.\n\n--- a/f.c\n+++ b/f.c\n")
			for i := 0; i < n; i++ {
				fmt.Fprintf(&sb, "@@ -%d,3 +%d,3 @@\n c\n-o\n+n\n c\n", 10*i+1, 10*i+1)
			}
			return sb.String()
		}},
		{name: "patch-long-hunk", n0: 1000, path: "cat/pkg/patches/patch-aa", gen: func(n int) string {
			return "$" + "NetBSD$\n\nDesc.\n\n--- a/f.c\n+++ b/f.c\n" + fmt.Sprintf("@@ -1,%d +1,%d @@\n", n, n) + rep("-o\n", n) + rep("+n\n", n)
		}},
		{name: "descr-lines", n0: 1000, path: "cat/pkg/DESCR", gen: func(n int) string { return rep("A line of the description ${A}.\n", n) }},
		{name: "alternatives-lines", n0: 500, path: "cat/pkg/ALTERNATIVES", gen: func(n int) string { return rep("bin/x @PREFIX@/bin/x-1\n", n) }},
		{name: "changes-lines", n0: 500, path: "doc/CHANGES-2018", gen: func(n int) string {
			var sb strings.Builder
			sb.WriteString("$" + "NetBSD$\n\n")
			for i := 0; i < n; i++ {
				fmt.Fprintf(&sb, "\tUpdated cat/pkg to 1.%d [user 2018-01-01]\n", i)
			}
			return sb.String()
		}},
		{name: "vuln-lines", n0: 500, path: "doc/pkg-vulnerabilities", args: []string{"-Wall", "doc/pkg-vulnerabilities"}, gen: func(n int) string {
			return "#FORMAT 1.0.0\n" + rep("pkg<1.1\tdenial-of-service\thttp://example.org/\n", n)
		}},
		{name: "vuln-braces", n0: 5, path: "doc/pkg-vulnerabilities", args: []string{"-Wall", "doc/pkg-vulnerabilities"}, gen: func(n int) string {
			return "#FORMAT 1.0.0\n" + rep("{a,b}", n) + "<1.1\tdenial-of-service\thttp://example.org/\n"
		}},
		{name: "vuln-nested-braces", n0: 50, path: "doc/pkg-vulnerabilities", args: []string{"-Wall", "doc/pkg-vulnerabilities"}, gen: func(n int) string {
			return "#FORMAT 1.0.0\n" + rep("{a,", n) + "b" + rep("}", n) + "<1.1\tx\thttp://example.org/\n"
		}},
		{name: "cvs-entries", n0: 1000, path: "cat/pkg/CVS/Entries", gen: func(n int) string {
			var sb strings.Builder
			for i := 0; i < n; i++ {
				fmt.Fprintf(&sb, "/f%d/1.1/Mon Jan  1 00:00:00 2020//\n", i)
			}
			return sb.String()
		}},
		{name: "category-subdirs", n0: 500, path: "cat/Makefile", args: []string{"-Wall", "cat"}, gen: func(n int) string {
			var sb strings.Builder
			sb.WriteString(cvsID + "\n\nCOMMENT=\tCategory\n\n")
			for i := 0; i < n; i++ {
				fmt.Fprintf(&sb, "SUBDIR+=\ts%06d\n", i)
			}
			sb.WriteString("SUBDIR+=\tpkg\n\n.include \"../mk/misc/category.mk\"\n")
			return sb.String()
		}},
	}
	return ps
}

func c01ProbeCase(ctx *Ctx, p c01Probe, n int) *c01Case {
	dir := filepath.Join(c01Scratch(ctx), "gen", fmt.Sprintf("probe-%s-%d-%d", p.name, n, atomic.AddInt64(&c01RunSeq, 1)))
	NewBaseTree(dir)
	spec := CaptureTree(dir, ctx.Work)
	os.RemoveAll(dir)
	content := p.gen(n)
	if p.path == "" {
		mk, _ := spec.Get("cat/pkg/Makefile")
		spec.Put("cat/pkg/Makefile", 'f', strings.Replace(mk, ".include \"../../mk/bsd.pkg.mk\"", content+"\n.include \"../../mk/bsd.pkg.mk\"", 1))
	} else {
		spec.Put(p.path, 'f', content)
	}
	args := p.args
	if args == nil {
		args = []string{"-Wall", "cat/pkg"}
	}
	return &c01Case{Stream: "probe:" + p.name, Spec: spec, Args: args, Cwd: "."}
}

func c01RunProbes(ctx *Ctx, res *Result) {
	ps := c01Probes()
	tP := time.Now()
	defer func() { res.Count("wall_ms.probes", int(time.Since(tP).Milliseconds())) }()
	type row struct {
		t    [3]time.Duration
		out  [3]bool
		size [3]int
		c    [3]*c01Case
		r    [3]RunResult
	}
	rows := make([]row, len(ps))
	parallelFor(len(ps)*3, func(k int) {
		i, j := k/3, k%3
		c := c01ProbeCase(ctx, ps[i], ps[i].n0<<uint(j))
		r := c01RunCase(ctx, c, c01Timeout(ctx, c))
		rows[i].t[j], rows[i].out[j], rows[i].size[j], rows[i].c[j], rows[i].r[j] = r.CPU, r.TimedOut, c.Spec.Size(), c, r
	})
	table := map[string]any{}
	var flagged []int
	for i, p := range ps {
		rw := rows[i]
		table[p.name] = fmt.Sprintf("n=%d: %.3fs / %.3fs / %.3fs cpu, %d bytes at 4n", p.n0, rw.t[0].Seconds(), rw.t[1].Seconds(), rw.t[2].Seconds(), rw.size[2])
		res.Evaluations += 3
		for j := 0; j < 3; j++ { // a crash of a probe input is a finding like any other
			if v := c01Judge(rw.r[j], rw.size[j]); v.Bad() && v.Kind != "time" && v.Kind != "hang" {
				if viol := c01Process(ctx, res, c01Bad{rw.c[j], v, rw.r[j]}, true); viol != nil {
					res.AddViolation(*viol)
				}
			}
		}
		over := rw.out[2] || rw.t[2] >= c01CPULimit(rw.size[2])
		super := rw.out[2] || rw.t[2] > 3*rw.t[1]+50*time.Millisecond
		if over && super {
			flagged = append(flagged, i)
		} else if over {
			res.Count("probe.over-floor-but-linear", 1)
		}
	}
	res.mu.Lock()
	if res.Distribution == nil {
		res.Distribution = map[string]any{}
	}
	res.Distribution["probes"] = table
	res.mu.Unlock()
	var wg sync.WaitGroup
	for _, i := range flagged {
		wg.Add(1)
		go func(i int) {
			defer wg.Done()
			rw := rows[i]
			v := c01Verdict{Kind: "time", Detail: fmt.Sprintf("probe %s: cpu %.2fs, %.2fs, %.2fs for n, 2n, 4n (n=%d; %d bytes at 4n)", ps[i].name, rw.t[0].Seconds(), rw.t[1].Seconds(), rw.t[2].Seconds(), ps[i].n0, rw.size[2])}
			if viol := c01ProcessN(ctx, res, c01Bad{rw.c[2], v, rw.r[2]}, false, 1); viol != nil {
				viol.Replay["probe"] = ps[i].name
				res.AddViolation(*viol)
			}
		}(i)
	}
	wg.Wait()
	res.Count("probe.families", len(ps))
	res.Count("probe.flagged", len(flagged))
}

// ---------- the streams ----------

func c01RunStreams(ctx *Ctx, res *Result) {
	nValid, nHostile, nMal := 500, 500, 2200
	if ctx.Tier == "thorough" {
		nValid, nHostile, nMal = 6000, 6000, 40000
	}
	total := nValid + nHostile + nMal
	tBulk := time.Now()
	var mu sync.Mutex
	var bads []c01Bad
	distinct := map[[32]byte]bool{}
	feats := map[string]int{}
	stat := map[string]int{}
	var maxCPU time.Duration
	var samples []any
	var hangs int64
	parallelFor(total, func(i int) {
		stream := "malformed"
		if i < nValid {
			stream = "valid"
		} else if i < nValid+nHostile {
			stream = "hostile"
		}
		tg := time.Now()
		c := c01GenCase(ctx, i, stream)
		genT := time.Since(tg)
		size := c.Spec.Size()
		var r RunResult
		if atomic.LoadInt64(&hangs) < 6 {
			r = c01RunCase(ctx, c, c01Timeout(ctx, c))
		} else {
			// enough hanging cases to work on: on a tree that hangs often, every further one would
			// cost its whole CPU limit; an expired watchdog is only counted from here on
			r = c01RunCaseOnce(ctx, c, c01Timeout(ctx, c), c01CPUSeconds(size))
			if r.TimedOut {
				mu.Lock()
				stat["hang.not-escalated"]++
				mu.Unlock()
				r = RunResult{Exit: 1}
			}
		}
		v := c01Judge(r, size)
		if v.Kind == "hang" {
			atomic.AddInt64(&hangs, 1)
		}
		h := c01Hash(c)
		mu.Lock()
		defer mu.Unlock()
		distinct[h] = true
		stat["sum_ms.gen"] += int(genT.Milliseconds())
		stat["sum_ms.run-wall"] += int(r.Wall.Milliseconds())
		stat["sum_ms.run-cpu"] += int(r.CPU.Milliseconds())
		if r.Wall > 2*time.Second {
			stat["runs.wall>2s"]++
		}
		for k, n := range c.Feats {
			feats[k] += n
		}
		for _, o := range c.Opts {
			stat["opt."+o]++
		}
		stat["stream."+stream]++
		stat[fmt.Sprintf("exit.%d", r.Exit)]++
		if strings.Contains(r.Stderr, "FATAL:") {
			stat["stderr.FATAL"]++
		}
		if strings.Contains(r.Stderr, "ERROR:") {
			stat["stderr.ERROR"]++
		}
		if r.CPU > maxCPU {
			maxCPU = r.CPU
		}
		switch {
		case size < 8<<10:
			stat["size.<8k"]++
		case size < 32<<10:
			stat["size.<32k"]++
		default:
			stat["size.>=32k"]++
		}
		if v.Kind == "execerr" {
			res.Broken = "cannot execute the binary: " + v.Detail
		} else if v.Bad() {
			bads = append(bads, c01Bad{c, v, r})
			stat["bad."+v.Kind]++
		}
		if len(samples) < 6 && i%97 == 5 {
			samples = append(samples, map[string]any{"stream": stream, "args": strings.Join(c.Args, " "), "cwd": c.Cwd, "exit": r.Exit, "cpu_ms": r.CPU.Milliseconds(), "features": sortedKeys(c.Feats)})
		}
	})
	res.Evaluations += total
	res.DistinctNontrivial += len(distinct)
	for _, s := range samples {
		res.Sample(s)
	}
	for k, n := range stat {
		res.Count(k, n)
	}
	res.mu.Lock()
	if res.Distribution == nil {
		res.Distribution = map[string]any{}
	}
	res.Distribution["features"] = feats
	res.Distribution["max_cpu_ms"] = int(maxCPU.Milliseconds())
	res.mu.Unlock()

	// coverage floors of the generator (DESIGN 3.6): a stream that stops reaching a shape is a broken check
	floor := 3
	for _, f := range []string{"mal.directives", "mal.expr", "mal.sweep", "mal.deep", "mal.typed", "mal.shell", "mal.cont", "mal.hostile-line", "mal.bytes.crlf", "mal.bytes.no-final-nl", "mal.bytes.empty",
		"mal.bytes.insert", "mal.hugeline", "mal.shape.missing", "mal.shape.dir-for-file", "mal.shape.dangling-symlink", "mal.shape.file-for-dir", "mal.plist", "mal.distinfo", "mal.patch", "mal.alternatives",
		"mal.buildlink3", "mal.options", "mal.category", "mal.toplevel", "mal.changes", "mal.vulnerabilities", "mal.cvs", "mal.infra", "subst.sed-vars", "cond", "para.continuation", "hostile.makefile"} {
		if feats[f] < floor {
			res.Broken = fmt.Sprintf("generator coverage: feature %s reached only %d times", f, feats[f])
		}
	}
	for _, o := range c01Opts {
		if stat["opt."+o] < 20 {
			res.Broken = fmt.Sprintf("generator coverage: option %s used only %d times", o, stat["opt."+o])
		}
	}
	if stat["exit.0"] < 5 || stat["exit.1"] < 50 || stat["stderr.FATAL"] < 3 {
		res.Broken = fmt.Sprintf("generator coverage: exit 0: %d, exit 1: %d, FATAL: %d", stat["exit.0"], stat["exit.1"], stat["stderr.FATAL"])
	}

	res.Count("wall_ms.streams-bulk", int(time.Since(tBulk).Milliseconds()))
	// triage: per (kind, site) the smallest cases first
	sort.SliceStable(bads, func(i, j int) bool { return bads[i].c.Spec.VarSize() < bads[j].c.Spec.VarSize() })
	groups := map[string][]c01Bad{}
	var order []string
	for _, b := range bads {
		k := b.v.Kind + "/" + b.v.Site
		if _, ok := groups[k]; !ok {
			order = append(order, k)
		}
		groups[k] = append(groups[k], b)
	}
	sort.Strings(order)
	var wg sync.WaitGroup
	sem := make(chan struct{}, 4)
	for _, k := range order {
		g := groups[k]
		limit := 1
		if g[0].v.Kind == "hang" || g[0].v.Kind == "time" {
			limit = 2 // different families can hide behind one verdict kind
			if ctx.Tier == "thorough" {
				limit = 6
			}
		}
		done := 0
		for _, b := range g {
			if done >= limit {
				res.Count("bad.not-processed", 1)
				continue
			}
			done++
			wg.Add(1)
			go func(b c01Bad) {
				defer wg.Done()
				sem <- struct{}{}
				defer func() { <-sem }()
				if viol := c01Process(ctx, res, b, true); viol != nil {
					res.AddViolation(*viol)
				}
			}(b)
		}
	}
	wg.Wait()
}

func runC01(ctx *Ctx) *Result {
	res := &Result{Rule: "whole runs: one per generated tree x option subset (valid, hostile and malformed stream of the tree generator, plus 3 sizes of every scaling-probe family); plus the dictionary streams (dict:*) and the entry-kind stream (kinds: one run per (strace-observed path pattern, entry kind)); distinct = distinct by (content of all non-fixture entries, argv, cwd); every tree carries at least one generated feature, so all distinct runs are non-trivial. " +
		"unit: all sequences of <=5 (thorough 6) directive lines over a 9-symbol alphabet (with and without a pkgsrc tree), all of length 6 (7) over its 7 core symbols, random longer ones over 37 symbols, and all SeparatorWriter event sequences of <=6 events over 8 events are compared with the extracted model"}
	defer c01ScratchCleanup()
	t0 := time.Now()
	c01UnitIndent(ctx, res)
	c01UnitSep(ctx, res)
	if res.Broken == "" {
		cross := c01UnitScope(ctx, res)
		if res.Broken == "" {
			cross = append(cross, c01UnitDefineAll(ctx, res)...)
		}
		if res.Broken == "" {
			cross = append(cross, c01UnitResolve(ctx, res)...)
		}
		if res.Broken == "" {
			c01CrossCheckExtraction(ctx, res, cross)
		}
		c01ScopeFloors(res)
	}
	res.Count("wall_ms.unit", int(time.Since(t0).Milliseconds()))
	t1 := time.Now()
	var wg sync.WaitGroup
	wg.Add(1)
	go func() { defer wg.Done(); c01RunProbes(ctx, res) }()
	tD := time.Now()
	c01RunDict(ctx, res)
	res.Count("wall_ms.dict", int(time.Since(tD).Milliseconds()))
	tK := time.Now()
	c01RunKinds(ctx, res)
	res.Count("wall_ms.kinds", int(time.Since(tK).Milliseconds()))
	c01RunStreams(ctx, res)
	wg.Wait()
	res.Count("wall_ms.whole-run", int(time.Since(t1).Milliseconds()))
	res.Exhaustive = false
	res.Assumptions = append(res.Assumptions,
		"panic-freedom outside the two modelled machines is explored by whole runs, not proved",
		"unreadable files are produced with dangling symlinks and directories in place of files (the sandbox runs as root); no FIFOs or devices",
		"the linear-time clause is judged on CPU time with an absolute floor (2 s up to 16 kB, proportional above); sub-floor super-linear behaviour is not flagged")
	return res
}

func replayC01(ctx *Ctx, rep map[string]any) *Result {
	res := &Result{Rule: "replay"}
	defer c01ScratchCleanup()
	switch rep["kind"] {
	case "tree":
		c := c01DecodeCase(rep)
		if ko, _ := rep["key_override"].(string); ko == "C01/hang/blocked-on-fifo" {
			res.Evaluations = 1
			r := c01RunCaseOnce(ctx, c, 10*time.Second, c01CPUSeconds(c.Spec.Size()))
			if r.TimedOut && r.Signal == "watchdog" && r.CPU < 500*time.Millisecond {
				res.AddViolation(Violation{Key: ko, What: "blocked on a FIFO (replay)", FoundInput: true, Replay: rep})
			}
			return res
		}
		r := c01RunCase(ctx, c, c01Timeout(ctx, c))
		v := c01Judge(r, c.Spec.Size())
		res.Evaluations = 1
		res.Sample(map[string]any{"exit": r.Exit, "signal": r.Signal, "timed_out": r.TimedOut, "cpu_ms": r.CPU.Milliseconds(), "stderr": firstLines(r.Stderr, 12)})
		if v.Bad() {
			if viol := c01Process(ctx, res, c01Bad{c, v, r}, false); viol != nil {
				if sfx, _ := rep["key_suffix"].(string); sfx != "" {
					viol.Key += sfx
				}
				res.AddViolation(*viol)
			}
		}
	case "indent":
		c01ReplayIndent(ctx, res, rep)
	case "sep":
		c01ReplaySep(ctx, res, rep)
	case "scope", "resolve":
		c01ReplayScopeJob(ctx, res, rep)
	default:
		res.Broken = "unknown replay kind"
	}
	return res
}

func init() { register("C01", runC01, replayC01) }
