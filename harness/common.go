// Package main: the correspondence / whole-run harness. One file per property
// (cNN.go) registers a runner; this file holds what they share.
package main

import (
	"bufio"
	"bytes"
	"encoding/hex"
	"encoding/json"
	"fmt"
	"os"
	"os/exec"
	"path/filepath"
	"sort"
	"strings"
	"sync"
)

// ---------- registry ----------

type Ctx struct {
	ID      string
	Tier    string // quick | thorough
	Seed    uint64
	Oracle  string // directory with the oracle binaries
	Pkglint string // the real binary, built without the tag
	Work    string // scratch directory, removed by bin/check
	Verif   string // /verif
	Repo    string // /repo
	Replay  string // replay file, when replaying
}

type Violation struct {
	Key        string         `json:"key"`  // narrow signature, matched against known-findings.json
	What       string         `json:"what"` // one line
	FoundInput bool           `json:"found_input"`
	Replay     map[string]any `json:"replay"`
	Size       int            `json:"size,omitempty"` // smaller replaces larger for the same key
}

type Result struct {
	Evaluations        int            `json:"evaluations"`
	DistinctNontrivial int            `json:"distinct_nontrivial"`
	Rule               string         `json:"rule"`
	Samples            []any          `json:"samples"`
	Exhaustive         bool           `json:"exhaustive"`
	TracesValidated    int            `json:"traces_validated_against_impl"`
	Distribution       map[string]any `json:"distribution,omitempty"`
	Assumptions        []string       `json:"assumptions,omitempty"`
	Violations         []Violation    `json:"violations"`
	Broken             string         `json:"broken,omitempty"` // the check itself could not run
	mu                 sync.Mutex
}

func (r *Result) AddViolation(v Violation) {
	r.mu.Lock()
	defer r.mu.Unlock()
	for i, o := range r.Violations {
		if o.Key == v.Key { // one replay per key is enough; keep the smallest
			if v.Size > 0 && (o.Size == 0 || v.Size < o.Size) {
				r.Violations[i] = v
			}
			return
		}
	}
	r.Violations = append(r.Violations, v)
}

func (r *Result) Sample(x any) {
	r.mu.Lock()
	defer r.mu.Unlock()
	if len(r.Samples) < 8 {
		r.Samples = append(r.Samples, x)
	}
}

func (r *Result) Count(key string, n int) {
	r.mu.Lock()
	defer r.mu.Unlock()
	if r.Distribution == nil {
		r.Distribution = map[string]any{}
	}
	c, _ := r.Distribution[key].(int)
	r.Distribution[key] = c + n
}

type runner struct {
	run    func(*Ctx) *Result
	replay func(*Ctx, map[string]any) *Result
}

var registry = map[string]runner{}

func register(id string, run func(*Ctx) *Result, replay func(*Ctx, map[string]any) *Result) {
	registry[id] = runner{run, replay}
}

// ---------- deterministic PRNG (splitmix64) ----------

type Rng struct{ s uint64 }

func NewRng(seed uint64) *Rng { return &Rng{seed} }
func (r *Rng) Next() uint64 {
	r.s += 0x9e3779b97f4a7c15
	z := r.s
	z = (z ^ (z >> 30)) * 0xbf58476d1ce4e5b9
	z = (z ^ (z >> 27)) * 0x94d049bb133111eb
	return z ^ (z >> 31)
}
func (r *Rng) Intn(n int) int {
	if n <= 0 {
		return 0
	}
	return int(r.Next() % uint64(n))
}
func (r *Rng) Bool() bool        { return r.Next()&1 == 1 }
func (r *Rng) Chance(p int) bool { return r.Intn(100) < p } // p percent
func (r *Rng) Fork() *Rng        { return NewRng(r.Next()) }
func Pick[T any](r *Rng, xs []T) T {
	return xs[r.Intn(len(xs))]
}

// ---------- hex protocol ----------

func hx(s string) string {
	if s == "" {
		return "-"
	}
	return hex.EncodeToString([]byte(s))
}
func unhx(s string) string {
	if s == "-" {
		return ""
	}
	b, err := hex.DecodeString(s)
	if err != nil {
		return "<badhex:" + s + ">"
	}
	return string(b)
}

// runOracle feeds the request lines to oracle/bin/<name> and returns one answer per line.
// Large batches are split over several processes running in parallel.
func runOracle(ctx *Ctx, name string, reqs []string) ([]string, error) {
	bin := filepath.Join(ctx.Oracle, name)
	const chunk = 20000
	nchunks := (len(reqs) + chunk - 1) / chunk
	out := make([]string, len(reqs))
	errs := make([]error, nchunks)
	sem := make(chan struct{}, 16)
	var wg sync.WaitGroup
	for c := 0; c < nchunks; c++ {
		wg.Add(1)
		go func(c int) {
			defer wg.Done()
			sem <- struct{}{}
			defer func() { <-sem }()
			lo, hi := c*chunk, (c+1)*chunk
			if hi > len(reqs) {
				hi = len(reqs)
			}
			cmd := exec.Command(bin)
			cmd.Stdin = strings.NewReader(strings.Join(reqs[lo:hi], "\n") + "\n")
			var ob, eb bytes.Buffer
			cmd.Stdout, cmd.Stderr = &ob, &eb
			if err := cmd.Run(); err != nil {
				errs[c] = fmt.Errorf("oracle %s: %v: %s", name, err, eb.String())
				return
			}
			sc := bufio.NewScanner(&ob)
			sc.Buffer(make([]byte, 1<<20), 1<<28)
			i := lo
			for sc.Scan() {
				if i < hi {
					out[i] = sc.Text()
				}
				i++
			}
			if i != hi {
				errs[c] = fmt.Errorf("oracle %s: %d answers for %d requests", name, i-lo, hi-lo)
			}
		}(c)
	}
	wg.Wait()
	for _, e := range errs {
		if e != nil {
			return nil, e
		}
	}
	return out, nil
}

// parallelFor runs f(i) for i in [0,n) on up to 16 workers.
func parallelFor(n int, f func(i int)) {
	var wg sync.WaitGroup
	sem := make(chan struct{}, 16)
	for i := 0; i < n; i++ {
		wg.Add(1)
		sem <- struct{}{}
		go func(i int) {
			defer wg.Done()
			defer func() { <-sem }()
			f(i)
		}(i)
	}
	wg.Wait()
}

func sortedKeys[V any](m map[string]V) []string {
	ks := make([]string, 0, len(m))
	for k := range m {
		ks = append(ks, k)
	}
	sort.Strings(ks)
	return ks
}

func q(s string) string { return fmt.Sprintf("%q", s) }

// ---------- main ----------

func main() {
	if len(os.Args) < 3 {
		fmt.Fprintln(os.Stderr, "usage: vharness run|replay <id> key=value...")
		os.Exit(2)
	}
	mode, id := os.Args[1], os.Args[2]
	ctx := &Ctx{ID: id, Tier: "quick", Seed: 1}
	var outFile string
	for _, kv := range os.Args[3:] {
		k, v, _ := strings.Cut(kv, "=")
		switch k {
		case "tier":
			ctx.Tier = v
		case "seed":
			fmt.Sscan(v, &ctx.Seed)
		case "oracle":
			ctx.Oracle = v
		case "pkglint":
			ctx.Pkglint = v
		case "work":
			ctx.Work = v
		case "verif":
			ctx.Verif = v
		case "repo":
			ctx.Repo = v
		case "replay":
			ctx.Replay = v
		case "out":
			outFile = v
		}
	}
	r, ok := registry[id]
	if !ok {
		fmt.Fprintf(os.Stderr, "vharness: no runner for %s\n", id)
		os.Exit(2)
	}
	var res *Result
	switch mode {
	case "run":
		res = r.run(ctx)
	case "replay":
		data, err := os.ReadFile(ctx.Replay)
		if err != nil {
			fmt.Fprintln(os.Stderr, err)
			os.Exit(2)
		}
		var rep map[string]any
		if err := json.Unmarshal(data, &rep); err != nil {
			fmt.Fprintln(os.Stderr, err)
			os.Exit(2)
		}
		if r.replay == nil {
			fmt.Fprintf(os.Stderr, "vharness: %s has no replay\n", id)
			os.Exit(2)
		}
		res = r.replay(ctx, rep)
	default:
		os.Exit(2)
	}
	if res.Violations == nil {
		res.Violations = []Violation{}
	}
	if res.Samples == nil {
		res.Samples = []any{}
	}
	data, _ := json.MarshalIndent(res, "", " ")
	if outFile == "" {
		os.Stdout.Write(data)
	} else if err := os.WriteFile(outFile, data, 0o644); err != nil {
		fmt.Fprintln(os.Stderr, err)
		os.Exit(2)
	}
}
