package main

// C01: in-memory tree specifications (so that a crashing tree can be replayed
// and reduced) and the malformed stream of the tree generator. Nothing in
// gentree.go / tree.go is changed; this file only adds.

import (
	"fmt"
	"io/fs"
	"os"
	"path/filepath"
	"sort"
	"strings"
	"sync"
)

// ---------- tree specifications ----------

type TEntry struct {
	Path string
	Kind byte   // 'f' file, 'd' directory, 'l' symlink
	Data string // content or link target
	Exec bool
	Base bool // unchanged file of the base fixture
}

type TreeSpec struct{ Entries []TEntry }

func (ts *TreeSpec) Clone() *TreeSpec {
	return &TreeSpec{Entries: append([]TEntry(nil), ts.Entries...)}
}

func (ts *TreeSpec) find(p string) int {
	for i := range ts.Entries {
		if ts.Entries[i].Path == p {
			return i
		}
	}
	return -1
}

func (ts *TreeSpec) Get(p string) (string, bool) {
	if i := ts.find(p); i >= 0 && ts.Entries[i].Kind == 'f' {
		return ts.Entries[i].Data, true
	}
	return "", false
}

// Remove deletes p and everything below it.
func (ts *TreeSpec) Remove(p string) {
	out := ts.Entries[:0:0]
	for _, e := range ts.Entries {
		if e.Path == p || strings.HasPrefix(e.Path, p+"/") {
			continue
		}
		out = append(out, e)
	}
	ts.Entries = out
}

func (ts *TreeSpec) Put(p string, kind byte, data string) {
	ts.Remove(p)
	ts.Entries = append(ts.Entries, TEntry{Path: p, Kind: kind, Data: data})
	sort.SliceStable(ts.Entries, func(i, j int) bool { return ts.Entries[i].Path < ts.Entries[j].Path })
}

func (ts *TreeSpec) Files(pred func(e TEntry) bool) []string {
	var ps []string
	for _, e := range ts.Entries {
		if e.Kind == 'f' && (pred == nil || pred(e)) {
			ps = append(ps, e.Path)
		}
	}
	return ps
}

// Size is the number of content bytes plus path bytes: the "input size" of a run.
func (ts *TreeSpec) Size() int {
	n := 0
	for _, e := range ts.Entries {
		n += len(e.Path) + len(e.Data)
	}
	return n
}

// VarSize counts only what is not the unchanged base fixture.
func (ts *TreeSpec) VarSize() int {
	n := 0
	for _, e := range ts.Entries {
		if !e.Base {
			n += len(e.Path) + len(e.Data)
		}
	}
	return n
}

func (ts *TreeSpec) Materialize(root string) {
	os.MkdirAll(root, 0o755)
	for _, e := range ts.Entries {
		p := filepath.Join(root, e.Path)
		switch e.Kind {
		case 'd':
			os.MkdirAll(p, 0o755)
		case 'f':
			os.MkdirAll(filepath.Dir(p), 0o755)
			mode := fs.FileMode(0o644)
			if e.Exec {
				mode = 0o755
			}
			os.WriteFile(p, []byte(e.Data), mode)
		case 'l':
			os.MkdirAll(filepath.Dir(p), 0o755)
			os.Symlink(e.Data, p)
		case 'p': // FIFO (entry-kind stream)
			os.MkdirAll(filepath.Dir(p), 0o755)
			c01MkFifo(p)
		}
	}
}

var (
	c01BaseOnce sync.Once
	c01Base     map[string]string
)

func c01BaseFiles(work string) map[string]string {
	c01BaseOnce.Do(func() {
		d := filepath.Join(work, "c01-base")
		NewBaseTree(d)
		c01Base = map[string]string{}
		filepath.Walk(d, func(p string, info fs.FileInfo, err error) error {
			if err == nil && info.Mode().IsRegular() {
				rel, _ := filepath.Rel(d, p)
				b, _ := os.ReadFile(p)
				c01Base[rel] = string(b)
			}
			return nil
		})
		os.RemoveAll(d)
	})
	return c01Base
}

func CaptureTree(root, work string) *TreeSpec {
	base := c01BaseFiles(work)
	ts := &TreeSpec{}
	filepath.Walk(root, func(p string, info fs.FileInfo, err error) error {
		if err != nil || p == root {
			return nil
		}
		rel, _ := filepath.Rel(root, p)
		switch {
		case info.Mode().IsRegular():
			b, _ := os.ReadFile(p)
			e := TEntry{Path: rel, Kind: 'f', Data: string(b), Exec: info.Mode()&0o111 != 0}
			if c, ok := base[rel]; ok && c == e.Data {
				e.Base = true
			}
			ts.Entries = append(ts.Entries, e)
		case info.Mode()&fs.ModeSymlink != 0:
			l, _ := os.Readlink(p)
			ts.Entries = append(ts.Entries, TEntry{Path: rel, Kind: 'l', Data: l})
		case info.IsDir():
			if es, _ := os.ReadDir(p); len(es) == 0 {
				ts.Entries = append(ts.Entries, TEntry{Path: rel, Kind: 'd'})
			}
		}
		return nil
	})
	sort.SliceStable(ts.Entries, func(i, j int) bool { return ts.Entries[i].Path < ts.Entries[j].Path })
	return ts
}

// ---------- the malformed stream ----------

type malGen struct {
	r     *Rng
	ts    *TreeSpec
	feats map[string]int
	pkg   string   // e.g. cat/p0
	extra []string // additional command line targets suggested by the attacks
}

func (m *malGen) feat(s string) { m.feats[s]++ }

var c01Poisons = []string{"$", "$$", "\\", "\\\\", "${", "$(", "}", ")", "{", "(", ":", "@", "!", "#", "\"", "'", "`", ",", "/", "|",
	"\x00", "\r", "\x1b", "\xff", "\xc3", " ", "\t", "[", "]", "=", "%", "*", "?", "<", ">", ";", "&", "$$$", "$}", "${}", "$:", "\\$", "\\}"}

func (m *malGen) poison() string { return Pick(m.r, c01Poisons) }

// poke inserts n poison tokens at random positions of s.
func (m *malGen) poke(s string, n int) string {
	for i := 0; i < n; i++ {
		at := m.r.Intn(len(s) + 1)
		s = s[:at] + m.poison() + s[at:]
	}
	return s
}

var c01Varnames = []string{"A", "VAR", "PKGNAME", "DISTNAME", "PREFIX", "OPSYS", "MACHINE_ARCH", ".TARGET", "@", "<", "", "X.y", "PKG_OPTIONS", "FOO_MK",
	"WRKSRC", "USE_TOOLS", "PKGVERSION_NOREV", "PYPKGPREFIX", "A.${B}", "1", "-", "LOCALBASE", "MASTER_SITE_GITHUB", "SUBST_SED.x", ".CURDIR", ".ALLSRC", "*", ">"}
var c01Delims = []string{",", "/", "|", "!", "@", ":", ";", "}", "$", "\\", "%", "#", " ", "a", "=", "{"}
var c01SimpleMods = []string{"Q", "tl", "tu", "O", "u", "sh", "L", "P", "E", "H", "R", "T", "hash", "range", "range=3", "gmtime=1000", "localtime", "_=x", "tA", "tW", "tw", "Ox", "Or", "On",
	"xyz", "", ":", "M", "N", "S", "C", "@", "!", "[", "ts", "U", "D", "=", "?a:b", "?:", "q", "unknown=${X}"}

func (m *malGen) word(depth int) string {
	switch m.r.Intn(8) {
	case 0:
		return ""
	case 1:
		if depth > 0 {
			return m.expr(depth - 1)
		}
		return "w"
	case 2:
		return Pick(m.r, []string{"*", "[a-z]*", "\\:", "\\$", "\\\\", "a b", "*.c", "[", "]", "[^", "{a,b}", "\\", "$$", "$$x", "${", "a:b", "a}b", "%", "%.o"})
	default:
		return Pick(m.r, []string{"a", "from", "to", "x86_64", "NetBSD", "1.0", "yes", "../..", "-", "word"})
	}
}

func (m *malGen) modifier(depth int) string {
	switch m.r.Intn(14) {
	case 0, 1:
		d := Pick(m.r, c01Delims)
		f := Pick(m.r, []string{"", "1", "g", "W", "gW", "1g", "x"})
		mod := Pick(m.r, []string{"S", "C"}) + d + Pick(m.r, []string{"", "^", ""}) + m.word(depth) + Pick(m.r, []string{"", "$", ""}) + d + m.word(depth)
		if !m.r.Chance(15) {
			mod += d + f
		}
		return mod
	case 2:
		v := Pick(m.r, []string{"v", "i", "", "V_", "v.x", "${v}"})
		body := Pick(m.r, []string{"${v}", "${v:S,a,b,}", "$v", "x${v}y", "", "${v:@w@${w}@}", "$$", "$${v}"})
		if depth > 0 && m.r.Chance(40) {
			body += m.expr(depth - 1)
		}
		mod := "@" + v + "@" + body
		if !m.r.Chance(15) {
			mod += "@"
		}
		return mod
	case 3:
		cmd := Pick(m.r, []string{"echo x", "echo $$x", "echo $$", "echo ${A}", "", "date", "echo \\!", "echo $", "echo $$$$", "echo `x`", "cd ${WRKSRC} && ls"})
		if depth > 0 && m.r.Chance(30) {
			cmd += " " + m.expr(depth-1)
		}
		mod := "!" + cmd
		if !m.r.Chance(15) {
			mod += "!"
		}
		return mod
	case 4, 5:
		return Pick(m.r, []string{"M", "N"}) + m.word(depth)
	case 6:
		return Pick(m.r, []string{"U", "D"}) + m.word(depth)
	case 7:
		return "ts" + Pick(m.r, []string{"", ",", ":", "\\n", "\\t", "\\012", "\\x", "ab", "$", "$$", "\\", "}"})
	case 8:
		in := Pick(m.r, []string{"1", "-1", "#", "*", "@", "1..3", "..", "1..", "0", "99999999999999999999", "", "a", "$", "$$", "\\", "]", "[", "${A}"})
		if depth > 0 && m.r.Chance(30) {
			in = m.expr(depth - 1)
		}
		mod := "[" + in
		if !m.r.Chance(15) {
			mod += "]"
		}
		return mod
	case 9:
		return ":" + Pick(m.r, []string{"=", "+=", "?=", "!=", ""}) + m.word(depth)
	case 10:
		return Pick(m.r, []string{"", "%", ".c", "%.c", "a"}) + m.word(depth) + "=" + Pick(m.r, []string{"", "%", ".o", "%.o"}) + m.word(depth)
	default:
		return Pick(m.r, c01SimpleMods)
	}
}

// expr generates one expression with nesting up to depth.
func (m *malGen) expr(depth int) string {
	open, cl := "${", "}"
	if m.r.Chance(12) {
		open, cl = "$(", ")"
	}
	name := Pick(m.r, c01Varnames)
	if depth > 0 && m.r.Chance(15) {
		name = "V." + m.expr(depth-1)
	}
	var sb strings.Builder
	sb.WriteString(open)
	sb.WriteString(name)
	for i, n := 0, m.r.Intn(4); i < n; i++ {
		sb.WriteString(":")
		sb.WriteString(m.modifier(depth))
	}
	switch {
	case m.r.Chance(8): // unclosed
	case m.r.Chance(5):
		sb.WriteString(Pick(m.r, []string{")", "}", "}}", "})"}))
	default:
		sb.WriteString(cl)
	}
	s := sb.String()
	if m.r.Chance(30) {
		s = m.poke(s, 1+m.r.Intn(2))
	}
	if m.r.Chance(6) && len(s) > 2 {
		s = s[:1+m.r.Intn(len(s)-1)] // truncated
	}
	return s
}

// deepExpr nests one modifier kind to the given depth: ${A:M${A:M...}}
func (m *malGen) deepExpr(depth int) string {
	kind := Pick(m.r, []string{"M", "U", "S,a,", "@v@", "!echo ", "[", "D", ":=", "x", "C/x/", "ts"})
	tail := map[string]string{"S,a,": ",", "@v@": "@", "!echo ": "!", "[": "]", "C/x/": "/"}[kind]
	s := Pick(m.r, []string{"x", "", "$", "$$", "${A}", "\\"})
	for i := 0; i < depth; i++ {
		s = "${A:" + kind + s + tail + "}"
	}
	return s
}

var c01TypedVars = []string{"DEPENDS+", "BUILD_DEPENDS+", "TOOL_DEPENDS+", "CONFLICTS", "PKGNAME", "DISTNAME", "MASTER_SITES", "HOMEPAGE", "COMMENT", "LICENSE", "CATEGORIES",
	"SUBST_SED.x", "SUBST_FILES.x", "SUBST_CLASSES+", "SUBST_STAGE.x", "SUBST_VARS.x", "SUBST_FILTER_CMD.x", "PLIST_SUBST+", "PLIST_VARS+", "USE_TOOLS+", "PKG_OPTIONS_VAR", "PKG_SUPPORTED_OPTIONS",
	"BUILDLINK_API_DEPENDS.x+", "BUILDLINK_ABI_DEPENDS.x+", "BUILDLINK_PKGSRCDIR.x?", "PYTHON_VERSIONS_ACCEPTED", "PYTHON_VERSIONS_INCOMPATIBLE", "ONLY_FOR_PLATFORM", "NOT_FOR_PLATFORM", "BROKEN_ON_PLATFORM",
	"MAINTAINER", "OWNER", "WRKSRC", "INSTALLATION_DIRS", "CFLAGS+", "CFLAGS.NetBSD+", "LDFLAGS+", "PKGREVISION", "PATCHFILES", "DIST_SUBDIR", "SITES.x", "EGDIR", "CONF_FILES", "CONF_FILES_PERMS+",
	"REPLACE_PERL", "REPLACE_INTERPRETER+", "AUTO_MKDIRS", "GNU_CONFIGURE", "PERL5_PACKLIST", "RESTRICTED", "MAKE_ENV+", "CONFIGURE_ENV+", "CONFIGURE_ARGS+", "TOOLS_CREATE+", "DISTFILES", "EXTRACT_SUFX",
	"GITHUB_PROJECT", "GITHUB_TAG", "USE_LANGUAGES", "PKG_SYSCONFSUBDIR", "RCD_SCRIPTS", "PKG_USERS", "PKG_GROUPS", "PKG_GECOS.x", "SPECIAL_PERMS+", "MESSAGE_SUBST+", "FILES_SUBST+", "OPSYSVARS+",
	"PKGSRC_COMPILER", "USE_PKGLOCALEDIR", "INFO_FILES", "LIBTOOL_OVERRIDE", "PKGCONFIG_OVERRIDE+", "GCC_REQD+", "MAKE_JOBS_SAFE", "NO_BUILD", "EMACS_VERSIONS_ACCEPTED", "PHP_VERSIONS_ACCEPTED",
	"LUA_VERSIONS_ACCEPTED", "RUBY_VERSIONS_ACCEPTED", "PKG_JVMS_ACCEPTED", "USE_JAVA2", "CHECK_FILES_SKIP+", "INSTALL_TEMPLATES+", "FETCH_USING", "MASTER_SORT", "PKG_DESTDIR_SUPPORT", "TEST_TARGET",
	"ALTERNATIVES_SRC", "META_PACKAGE", "SUPERSEDES", "PREV_PKGPATH", "USE_CWRAPPERS", "NOT_PAX_MPROTECT_SAFE+", "CHECK_PORTABILITY_SKIP+", "USE_FEATURES", "_TOOLS_VARNAME.x", "TOOLS_PLATFORM.x", "UNKNOWN_VAR_42"}

var c01TypedValues = []string{"pkg>=1<2", "{a,b}-[0-9]*", "pkg-[", "pkg>=", "pkg>=1.0:../../cat/pkg", "pkg>=1:../../", "pkg-[0-9]*:../../cat/p0", "pkg>1<=", "pkg-1.0{,nb*}", "{{{{", "}}}}", "pkg>=1:../../../x",
	"-e 's,a,b", "-e s", "-n", "-e", "-e 's,a,b,' -e", "-e \"s|@a@|${B}|g\"", "-e s,a,b,g -e 's/x/y/'", "s,a,b,", "-i", "-E -e 's'", "'", "\"", "`",
	"http://", "https://[", "${MASTER_SITE_GITHUB:=foo/}", "-${X}", "http://example.org", "ftp://x/y/", "https://example.org/${DISTNAME}", "${MASTER_SITE_SOURCEFORGE:=", "http://a b", "mailto:x", "//",
	"yes", "no", "YES", "", " ", "#", "# none", "c c++ fortran", "gmake perl:run", "gmake:", ":run", "perl:unknown", "x:y:z", "[", "test", "awk sed grep [",
	"NetBSD-*-*", "*-*-*", "NetBSD", "NetBSD-[", "*-*", "-*-*-*-*", "NetBSD-9.*-x86_64", "{NetBSD,Linux}-*-*",
	"27 38 312", "39", "-1", "0", "99999999999999999999", "1.2.3", "abc", "2.7", "nb1", "1nb1",
	"gnu-gpl-v2 AND", "(gnu-gpl-v2", "gnu-gpl-v2 OR OR mit", "AND", "((((", "a AND b OR c", "unknown-license", "gnu-gpl-v2)",
	"user@", "@NetBSD.org", "pkgsrc-users@NetBSD.org", "a@b@c", "<a@b>", "tech-pkg@NetBSD.org",
	"${WRKDIR}/${DISTNAME}", "${WRKDIR}", "/abs", "../rel", "${.CURDIR}/../x", "~", "./", "a//b", "a/../b", "${PREFIX}/", "bin man/man1 share/${PKGBASE}", "${PKGMANDIR}/man1",
	"devel", "devel net", "unknown-cat", "wip", "chinese",
	"a=b", "=b", "a=", "A=\"b c\"", "A=${B:Q}", "PREFIX=${PREFIX}", "X=`cmd`", "X=$$(cmd)", "--prefix=${PREFIX:Q}", "-DX=\"${Y}\"", "-L${PREFIX}/lib -Wl,-R${PREFIX}/lib",
	"foo bar baz -qux", "-", "group1 group2", "a:b:c:d:e", "::", "user:group", "bin/x root wheel 4555", "x y z", "${PREFIX}/bin/x ${ROOT_USER} ${ROOT_GROUP}",
	"paths", "pre-configure", "post-", "do-configure-hook", "pre-configure post-build", "Makefile */*.in", "PREFIX PKGNAME X", "cat", "${CAT} | sed", "Fixing paths.",
	"\"a\\ ", "\"a\\\t# c", "'a\\ ", "\"\\", "`a\\ ", "\"a b\\", "a\\ ", "\"${A}\\ ", "\"a\\\"", "'a'\\", "\"a\\\\",
	".tar.gz", "tar.gz", ".", "${DISTNAME}${EXTRACT_SUFX}", "a.tar.gz b.zip", "-", "v${PKGVERSION_NOREV}", "${X:S/./_/g}", "$$", "$", "\\", "\\\\", "a\\ b", "a \\", "${", "$(", "$${x}", "$$$${x}"}

func (m *malGen) typedLine() string {
	v := Pick(m.r, c01TypedVars)
	op := "="
	if strings.HasSuffix(v, "+") {
		v, op = v[:len(v)-1], "+="
	} else if strings.HasSuffix(v, "?") {
		v, op = v[:len(v)-1], "?="
	} else if m.r.Chance(15) {
		op = Pick(m.r, genOps)
	}
	val := Pick(m.r, c01TypedValues)
	switch m.r.Intn(5) {
	case 0:
		val = m.poke(val, 1)
	case 1:
		val += " " + m.expr(2)
	case 2:
		val = m.expr(2)
	}
	return v + op + Pick(m.r, genBlanks) + val
}

var c01ShellLines = []string{"echo 'unbalanced", "echo \"unbalanced", "echo `unbalanced", "echo $$(unbalanced", "echo $${unbalanced", "echo $${x:-", "echo `a `b` c`", "case $$x in", "case $$x in a) ;; esac",
	"case $$x in (a|b) echo;; *) ;; esac", ";;", "<<EOF", "cat <<EOF", "a |", "a &&", "a ||", "if true; then", "if true; then :; else", "for f in", "for f in a; do", "while :; do :; done", "{", "}", "(", ")",
	"( ( ( (", "echo $$((1+", "echo $$((1+2))", "a \\", "# comment", "echo $$$$", "echo $$@ $$* $$# $$? $$! $$- $$0", "echo $$", "echo $", "echo \\", "@", "-", "+", "@-+", "${RUN}", "${RUN} ", "${RUN};",
	"${_PKG_SILENT}${_PKG_DEBUG} set -e; cd ${WRKSRC} && ${SETENV} ${MAKE_ENV} ${MAKE}", "set -e; for f in ${FILES}; do ${INSTALL_DATA} $$f ${DESTDIR}${PREFIX}/share; done", "echo ${VAR:Q} \"${VAR}\" '${VAR}' `${VAR}`",
	"sed -e 's,@X@,${X},g' < a > b", "a > b 2>&1 < c >> d", "a 2>", ">", "<", "a | b | c || d && e; f & g", "!", "! a", "a=b c=d cmd", "a=", "=", "function f { :; }", "f() { :; }", "f()", "echo \"$$(echo \"$$(echo x)\")\"",
	"echo \"a`echo \"b\"`c\"", "echo 'a'\"b\"`c`$$d$${e}$$(f)", "cd x; cd y || exit 1", "${ECHO} \"\\\"\"", "${ECHO} \\\\", "echo \"$${x%%.*}\" \"$${x##*/}\" \"$${#x}\"", "test -f a -a -d b", "[ a = b ]", "[ a == b ]", "[[ a ]]",
	"rm -rf ${WRKSRC}/*", "${MKDIR} ${PREFIX}/x", "ln -s a b", "cp a b", "${PREFIX}/bin/x", "/usr/bin/perl", "sudo x", "gmake", "python", "$$0", "elif", "fi", "done", "esac", "then", "do", "in", "time x", "a; ; b", "a;;b", "&", "|", "||", "&&"}

func (m *malGen) shellLine() string {
	s := Pick(m.r, c01ShellLines)
	switch m.r.Intn(5) {
	case 0:
		s = m.poke(s, 1+m.r.Intn(2))
	case 1:
		s += " " + m.expr(2)
	case 2:
		s = Pick(m.r, c01ShellLines) + "; " + s
	}
	return "\t" + s
}

// ctxLines places the text e (usually an expression) in one of the syntactic contexts of a makefile.
func (m *malGen) ctxLines(e string) []string {
	switch m.r.Intn(22) {
	case 0:
		return []string{"VAR.${X}" + Pick(m.r, genOps) + "\t" + e}
	case 1:
		return []string{"VAR." + e + "=\tvalue"}
	case 2:
		return []string{e + "=\tvalue"}
	case 3:
		return []string{".if " + e, ".endif"}
	case 4:
		return []string{".if " + e + Pick(m.r, []string{" == \"x\"", " != x", " > 1", " == ${B}", " =="}), ".endif"}
	case 5:
		return []string{".if !empty(VAR:M" + e + ")", ".elif empty(" + e + ")", ".endif"}
	case 6:
		return []string{".if defined(" + e + ") || exists(" + e + ") && make(" + e + ")", ".endif"}
	case 7:
		return []string{".for v in " + e, "X+=\t${v}", ".endfor"}
	case 8:
		return []string{".include \"" + e + "\""}
	case 9:
		return []string{".include \"../../" + e + "/buildlink3.mk\"", ".sinclude <" + e + ">", ".include \"${.CURDIR}/" + e + "\""}
	case 10:
		return []string{"target: " + e, "\t@echo " + e}
	case 11:
		return []string{e + ": dep", "\techo"}
	case 12:
		return []string{"do-install:", "\t${RUN} " + e + "; for f in " + e + "; do echo \"$$f\" '" + e + "' \"" + e + "\" `" + e + "`; done"}
	case 13:
		return []string{"# comment " + e, "#VAR=\t" + e}
	case 14:
		return []string{Pick(m.r, []string{".undef ", ".error ", ".warning ", ".info ", ".export ", ".unexport ", ".export-env ", ".ifdef ", ".ifndef ", ".ifmake ", ".elifdef "}) + e, ".endif"}
	case 15, 16:
		v := Pick(m.r, c01TypedVars)
		v = strings.TrimRight(v, "+?")
		return []string{v + "+=\t" + e}
	case 17:
		return []string{"VAR=\tvalue " + e + " \\", "\t" + e + " \\", "", "X=\t" + e}
	case 18:
		return []string{"VAR!=\t" + e, "VAR:=\t" + e, "VAR?=" + e}
	case 19:
		return []string{".if ${VAR:M" + e + "} || ${VAR} == " + e + " || \"" + e + "\" == \"\"", ".endif"}
	default:
		return []string{"VAR" + Pick(m.r, genOps) + Pick(m.r, genBlanks) + e}
	}
}

var c01Directives = []string{"if", "ifdef", "ifndef", "ifmake", "ifnmake", "for", "elif", "else", "endif", "endfor", "elifdef", "elifndef", "elifmake", "elifnmake",
	"undef", "error", "warning", "info", "export", "export-env", "unexport", "unexport-env", "include", "sinclude", "-include", "dinclude", "IF", "i", "", "endif#", "else#c", "elseif", "end", "for_", "if!"}
var c01DirArgs = []string{"", "${OPSYS} == NetBSD", "${A}", "!empty(A:Mx)", "defined(A)", "!defined(FOO_MK)", "!defined(A_BUILDLINK3_MK)", "exists(f.mk)", "exists(/abs)", "exists(${A})", "make(all)",
	"i in a b c", "i j in 1 2 3 4", "i", "in", "i in", "in a b", "I in x", "_i in x", "i.j in x", "${v} in x", "i in ${A:M*}", "i in # c",
	"1", "0", "yes", "\"\"", "\"a\" == \"a\"", "a == b", "${A} ==", "== a", "(", ")", "((${A}))", "!", "!!${A}", "${A} && ", "|| ${A}", "${A} &&& ${B}", "${A:M", "${", "$", "$$", "empty(", "defined(", "exists(", "commands(x)", "target(x)",
	"${A} == 1 # comment", "# only comment", "A B C", "\"../../mk/bsd.prefs.mk\"", "<bsd.own.mk>", "\"", "\"x", "x\"", "${A} \\"}

func (m *malGen) directiveLine() string {
	ind := Pick(m.r, []string{"", "", "", " ", "  ", "    ", "\t", "      ", " \t "})
	d := Pick(m.r, c01Directives)
	a := Pick(m.r, c01DirArgs)
	if m.r.Chance(15) {
		a = m.expr(2)
	}
	if m.r.Chance(10) {
		a = m.poke(a, 1)
	}
	sep := " "
	if m.r.Chance(8) {
		sep = Pick(m.r, []string{"", "\t", "  "})
	}
	c := ""
	if m.r.Chance(20) {
		c = Pick(m.r, []string{" # A", "# x", " #", " # ${A}", " # i"})
	}
	return "." + ind + d + sep + a + c
}

// directiveBlock: a random walk over directives: unbalanced and stray ones at every nesting.
func (m *malGen) directiveBlock() []string {
	var ls []string
	n := 1 + m.r.Intn(12)
	for i := 0; i < n; i++ {
		switch m.r.Intn(8) {
		case 0:
			ls = append(ls, genAssign(m.r))
		case 1:
			ls = append(ls, m.shellLine())
		default:
			ls = append(ls, m.directiveLine())
		}
	}
	return ls
}

// sweep: one short expression, one line per (position, poison).
func (m *malGen) sweep() []string {
	var e string
	for tries := 0; tries < 20; tries++ {
		e = "${" + Pick(m.r, []string{"A", "VAR", ""}) + ":" + m.modifier(1) + "}"
		if len(e) <= 40 {
			break
		}
	}
	ps := []string{Pick(m.r, []string{"$", "$$", "\\"}), m.poison(), m.poison()}
	var ls []string
	k := 0
	for at := 0; at <= len(e); at++ {
		for _, p := range ps {
			t := e[:at] + p + e[at:]
			k++
			switch m.r.Intn(4) {
			case 0:
				ls = append(ls, fmt.Sprintf(".if %s", t), ".endif")
			case 1:
				ls = append(ls, fmt.Sprintf("t%d:", k), "\techo "+t)
			default:
				ls = append(ls, fmt.Sprintf("SWEEP_%d=\t%s", k, t))
			}
		}
	}
	return ls
}

func (m *malGen) mkLines() []string {
	switch m.r.Intn(12) {
	case 0, 1:
		m.feat("mal.directives")
		return m.directiveBlock()
	case 2, 3, 4:
		m.feat("mal.expr")
		var ls []string
		for i, n := 0, 1+m.r.Intn(4); i < n; i++ {
			ls = append(ls, m.ctxLines(m.expr(m.r.Intn(4)))...)
		}
		return ls
	case 5:
		m.feat("mal.sweep")
		return m.sweep()
	case 6:
		m.feat("mal.deep")
		return m.ctxLines(m.deepExpr(2 + m.r.Intn(11)))
	case 7, 8:
		m.feat("mal.typed")
		var ls []string
		for i, n := 0, 1+m.r.Intn(6); i < n; i++ {
			ls = append(ls, m.typedLine())
		}
		return ls
	case 9:
		m.feat("mal.shell")
		ls := []string{Pick(m.r, []string{"do-install:", "post-build: pre-build", ".PHONY: x", "x y: z", "${A}:", "a::", "a!", ".if 1", "pre-configure:"})}
		for i, n := 0, 1+m.r.Intn(5); i < n; i++ {
			ls = append(ls, m.shellLine())
		}
		return ls
	case 10:
		m.feat("mal.cont")
		return Pick(m.r, [][]string{
			{"A=\tb \\"}, {"A=\tb \\", "\\", "\\"}, {"\\"}, {"\\\\"}, {"\\ "}, {"# c \\", "A=1"}, {".if 1 \\", "&& 2", ".endif"}, {"t:", "\techo \\", "\t\\", "\t"},
			{"A=\t\\", "", "B=1"}, {"A= \\", "\t# comment \\", "\tx"}, {"A=\\\\\\"}, {"A=\tx\\", "\ty\\", "\tz\\"}, {".include \\", "\"x.mk\""}, {"A=\tb\t\\\t"}, {"\t\\"}, {".\\"}, {"A\\", "=b"},
		})
	default:
		m.feat("mal.hostile-line")
		return []string{Pick(m.r, []string{"", "HOSTILE=\t", "# ", ".if ", "t:\n\t", ".include \""}) + hostileString(m.r) + hostileString(m.r)}
	}
}

func (m *malGen) mkTargets() []string {
	ts := []string{m.pkg + "/Makefile", m.pkg + "/Makefile", m.pkg + "/Makefile", m.pkg + "/options.mk", m.pkg + "/buildlink3.mk", m.pkg + "/Makefile.common", m.pkg + "/extra.mk", m.pkg + "/hacks.mk", m.pkg + "/builtin.mk",
		"cat/Makefile", "Makefile", "mk/bsd.prefs.mk", "mk/tools/defaults.mk", "mk/defaults/mk.conf", "mk/compiler.mk", "mk/bsd.pkg.mk", "mk/fetch/sites.mk", "mk/misc/category.mk", "mk/tools/tools.NetBSD.mk", "mk/bsd.options.mk",
		m.pkg + "/Makefile.php", m.pkg + "/files/x.mk", "lang/python312/Makefile", "mk/java-vm.mk", "editors/emacs/modules.mk", "mk/platform/NetBSD.mk"}
	return ts
}

// insertLines puts the lines at a random place of the file (created when missing).
func (m *malGen) insertLines(path string, ls []string) {
	old, ok := m.ts.Get(path)
	if !ok {
		old = cvsID + "\n\n"
		if path == m.pkg+"/extra.mk" && m.r.Chance(60) {
			if mk, ok := m.ts.Get(m.pkg + "/Makefile"); ok {
				m.ts.Put(m.pkg+"/Makefile", 'f', strings.Replace(mk, ".include \"../../mk/bsd.pkg.mk\"", ".include \"extra.mk\"\n.include \"../../mk/bsd.pkg.mk\"", 1))
			}
		}
	}
	parts := strings.SplitAfter(old, "\n")
	at := m.r.Intn(len(parts) + 1)
	if m.r.Chance(50) && len(parts) > 2 { // most often just before the last include
		at = len(parts) - 2
	}
	text := strings.Join(parts[:at], "") + strings.Join(ls, "\n") + "\n" + strings.Join(parts[at:], "")
	m.ts.Put(path, 'f', text)
	if !strings.HasPrefix(path, "mk/") && !m.r.Chance(70) {
		m.extra = append(m.extra, path)
	}
}

func (m *malGen) anyFile() string {
	fs := m.ts.Files(nil)
	if m.r.Chance(70) { // prefer files of the package
		if pf := m.ts.Files(func(e TEntry) bool { return strings.HasPrefix(e.Path, m.pkg+"/") }); len(pf) > 0 {
			fs = pf
		}
	}
	return Pick(m.r, fs)
}

func (m *malGen) attackBytes() {
	p := m.anyFile()
	s, _ := m.ts.Get(p)
	switch m.r.Intn(8) {
	case 0:
		m.feat("mal.bytes.crlf")
		s = strings.ReplaceAll(s, "\n", "\r\n")
	case 1:
		m.feat("mal.bytes.no-final-nl")
		s = strings.TrimRight(s, "\n")
	case 2:
		m.feat("mal.bytes.empty")
		s = Pick(m.r, []string{"", "\n", "\n\n\n", " ", "\x00", "\r"})
	case 3:
		m.feat("mal.bytes.truncate")
		if len(s) > 0 {
			s = s[:m.r.Intn(len(s))]
		}
	default:
		m.feat("mal.bytes.insert")
		for i, n := 0, 1+m.r.Intn(4); i < n; i++ {
			at := m.r.Intn(len(s) + 1)
			b := Pick(m.r, []string{"\x00", "\r", "\x1b", "\xff", "\xfe", "\xc3", "\xe2\x82", "\x1b[31m", "\x07", "\x7f", "\x0b", "\x0c", "\x01", "\xef\xbb\xbf", "\x80", "\xf0\x9f", "\\", "$", "\n", "\t", " "})
			s = s[:at] + b + s[at:]
		}
	}
	m.ts.Put(p, 'f', s)
}

var c01HugeUnits = []string{"x", "${A} ", "word ", "$$", "a\\ ", "\t", " ", "#", "/", "..", "a/", "${A:S,a,b,}", "'", "\"x\" ", "{", "(", ")", ",", "a=b ", "%", "-e s,a,b, ", "\\\\", "$$x ", "\x1b", "\xff", "é", "[", "*", "a;", "| a ", "&& b "}
var c01HugePrefixes = []string{"", "A=\t", "# ", ".if ", "t: ", "\t", "bin/", "@comment ", "SHA1 (x) = ", "+", " ", "@exec ", "CONFIGURE_ARGS+=\t", "DEPENDS+=\t", ".for i in ", ".include \""}
var c01HugeFiles = []string{"Makefile", "PLIST", "DESCR", "distinfo", "patches/patch-aa", "ALTERNATIVES", "options.mk"}

func (m *malGen) attackHuge() {
	p := m.anyFile()
	if m.r.Chance(50) {
		p = m.pkg + "/" + Pick(m.r, c01HugeFiles)
	}
	unit := Pick(m.r, c01HugeUnits)
	n := 100000 / len(unit)
	if m.r.Chance(50) {
		n = (1000 + m.r.Intn(30000)) / len(unit)
	}
	body := strings.Repeat(unit, n)
	prefix := Pick(m.r, c01HugePrefixes)
	m.feat("mal.hugeline")
	if old, ok := m.ts.Get(p); ok && m.r.Chance(60) {
		parts := strings.SplitAfter(old, "\n")
		at := m.r.Intn(len(parts) + 1)
		m.ts.Put(p, 'f', strings.Join(parts[:at], "")+prefix+body+"\n"+strings.Join(parts[at:], ""))
	} else {
		nl := "\n"
		if m.r.Chance(30) {
			nl = ""
		}
		m.ts.Put(p, 'f', prefix+body+nl)
	}
}

func (m *malGen) attackShape() {
	names := []string{"Makefile", "PLIST", "distinfo", "DESCR", "patches", "ALTERNATIVES", "buildlink3.mk", "options.mk", "Makefile.common", "CVS/Entries", "CVS", "files", "patches/patch-aa", "PLIST.common", "MESSAGE", "INSTALL", "DEINSTALL", "TODO", "README", "work", "spec", "COMMIT_MSG"}
	tops := []string{"doc/CHANGES-2018", "doc/TODO", "doc", "licenses", "mk/bsd.pkg.mk", "mk/tools/bsd.tools.mk", "mk/defaults/options.description", "mk/defaults/mk.conf", "cat/Makefile", "Makefile", "mk/misc/category.mk", "mk/fetch/sites.mk",
		"lang", "lang/python312", "editors/emacs/modules.mk", "mk/platform", "mk/tools", "wip", "wip/TODO", "wip/Makefile", "cat", "mk/compiler.mk", "doc/pkg-vulnerabilities", "pkg-vulnerabilities", "mk/java-vm.mk", "CVS/Entries", "cat/CVS/Entries"}
	p := m.pkg + "/" + Pick(m.r, names)
	if m.r.Chance(25) {
		p = Pick(m.r, tops)
	}
	switch m.r.Intn(9) {
	case 0, 1:
		m.feat("mal.shape.missing")
		m.ts.Remove(p)
	case 2, 3:
		m.feat("mal.shape.dir-for-file")
		m.ts.Put(p, 'd', "")
		if m.r.Chance(40) {
			m.ts.Put(p+"/"+Pick(m.r, []string{"x", "Makefile", "CVS/Entries", "patch-aa"}), 'f', "x\n")
		}
	case 4:
		m.feat("mal.shape.dangling-symlink")
		m.ts.Put(p, 'l', Pick(m.r, []string{"/nonexistent/x", "nonexistent", "../nonexistent/y", "" + "."}))
	case 5:
		m.feat("mal.shape.symlink")
		m.ts.Put(p, 'l', Pick(m.r, []string{".", "..", "../..", "Makefile", "DESCR", "/", "../../mk", "/dev/null"}))
	case 6:
		m.feat("mal.shape.file-for-dir")
		d := Pick(m.r, []string{m.pkg + "/patches", m.pkg + "/files", m.pkg + "/CVS", m.pkg, "cat", "licenses", "doc", "mk/tools", "mk/platform", "lang/python312", "mk/defaults", "wip"})
		m.ts.Put(d, 'f', Pick(m.r, []string{"", "x\n", cvsID + "\n"}))
	case 7:
		m.feat("mal.shape.odd-names")
		for i, n := 0, 1+m.r.Intn(4); i < n; i++ {
			nm := Pick(m.r, []string{"Makefile~", "Makefile.orig", "x.rej", "patches/patch-", "patches/patch-~", "patches/patch-a b", "patches/manual-x", "patches/x", "PLIST.", "PLIST.NetBSD", "PLIST.${OPSYS}", "DESCR.x", "MESSAGE.x",
				"files/a/b/c.mk", "files/Makefile", "a b", "é", "\xff", "x\x1b[31m", "-F", "--help", "x\ny", "*.mk", "$.mk", "${A}.mk", ".hidden", "..x", "core", "x.core", "TODO.txt", "CVS/Entries.Log", "CVS/Root", "distinfo~", "Makefile.", ".mk", "x.mk.mk",
				"patches/CVS/Entries", "patches/distinfo", "files/patch-aa", "options.mk~", "buildlink3.mk.orig", "builtin.mk", "hacks.mk", "version.mk", "Makefile.versions", "DESCR.common", "PLIST.common_end", "ALTERNATIVES.x", "INSTALL.x", "HOMEPAGE", "spec", "go-modules.mk", "cargo-depends.mk"})
			content := Pick(m.r, []string{"", "x\n", cvsID + "\n", cvsID + "\n\nA=\tb\n", "@comment $" + "NetBSD$\nbin/x\n", "/x/1.1/Mon Jan  1 00:00:00 2020//\n"})
			m.ts.Put(m.pkg+"/"+nm, 'f', content)
			if m.r.Chance(25) {
				m.extra = append(m.extra, m.pkg+"/"+nm)
			}
		}
	default:
		m.feat("mal.shape.exec-empty")
		if i := m.ts.find(m.anyFile()); i >= 0 {
			m.ts.Entries[i].Exec = true
		}
		if m.r.Chance(50) {
			m.ts.Put("cat/empty"+fmt.Sprint(m.r.Intn(3)), 'd', "")
			m.ts.Put("cat/p9/CVS/Entries", 'f', "D\n")
		}
	}
}

func (m *malGen) linesOf(n int, gen func() string) string {
	var sb strings.Builder
	for i := 0; i < n; i++ {
		sb.WriteString(gen())
		sb.WriteString("\n")
	}
	return sb.String()
}

func (m *malGen) finish(s string) string {
	switch m.r.Intn(12) {
	case 0:
		return strings.TrimSuffix(s, "\n")
	case 1:
		return strings.ReplaceAll(s, "\n", "\r\n")
	case 2:
		return m.poke(s, 1+m.r.Intn(3))
	}
	return s
}

func (m *malGen) attackPlist() {
	m.feat("mal.plist")
	pool := []string{"@comment $" + "NetBSD$", "@comment x", "@comment", "@", "@ ", "@exec ${MKDIR} %D/x", "@exec", "@unexec ${RMDIR} %D/x 2>/dev/null || ${TRUE}", "@unexec rmdir", "@dirrm x", "@dirrm", "@pkgdir share/x", "@pkgdir",
		"@mode 0755", "@mode", "@owner x", "@group", "@cwd /", "@cd x", "@src x", "@ignore", "@name x-1.0", "@pkgdep x", "@option preserve", "@display x", "@unknown x", "@exec \\", "@exec $", "@exec ${", "@comment ${PLIST.x}",
		"${PLIST.x}bin/y", "${PLIST.x}${PLIST.y}bin/z", "${PLIST.x}", "${PLIST.", "${", "$", "$$", "${PLIST.x}@exec true", "${PLIST.x}@comment", "${UNKNOWN}bin/x", "${PKGMANDIR}/man1/x.1", "${PKGMANDIR}", "${PYSITELIB}/x.py", "${EGDIR}/x", "${PLIST.x:Q}y", "${A}${B}${C}",
		"bin/x", "bin/x ", " bin/x", "bin//x", "bin/./x", "bin/../x", "/bin/x", "../x", "bin/", "bin", "/", ".", "..", "", " ", "\t", "lib/libx.la", "lib/libx.so.1.0", "lib/libx.a", "man/man1/x.1", "man/man1/x.1.gz", "man/cat1/x.0", "man/man1/x.3", "man/x",
		"info/x.info", "info/dir", "share/icons/hicolor/icon-theme.cache", "share/icons/hicolor/48x48/apps/x.png", "share/applications/x.desktop", "share/locale/de/LC_MESSAGES/x.mo", "share/doc/x/${PKGNAME}", "lib/perl5/x/perllocal.pod", "lib/x/.packlist",
		"etc/x.conf", "etc/rc.d/x", "sbin/x", "libexec/x", "include/x.h", "share/x/a b", "share/x/é", "share/x/\xff", "share/x/\x1b[0m", "lib/pkgconfig/x.pc", "lib/X11/app-defaults/X", "share/examples/x/x.conf", "share/zoneinfo/x", "bin/x.orig", "bin/x~", "bin/x.rej",
		"lib/locale/x", "share/man/man1/x.1", "bin/${PKGNAME}", "bin/$x", "bin/x$", "bin/x\\", "bin/x#y", "bin/*", "bin/[", "lib/libx.so.${V}", "lib/python${PYVERSSUFFIX}/x", "${PLIST.x}lib/x${PLIST.y}", "@pkgdir ${", "@exec echo `x", "@exec echo 'x"}
	n := 1 + m.r.Intn(14)
	s := ""
	if !m.r.Chance(20) {
		s = "@comment $" + "NetBSD$\n"
	}
	s += m.linesOf(n, func() string {
		l := Pick(m.r, pool)
		if m.r.Chance(12) {
			l = m.poke(l, 1)
		}
		if m.r.Chance(6) {
			l += m.expr(2)
		}
		return l
	})
	m.ts.Put(m.pkg+"/"+Pick(m.r, []string{"PLIST", "PLIST", "PLIST", "PLIST.common", "PLIST.NetBSD", "PLIST.x"}), 'f', m.finish(s))
}

func (m *malGen) attackDistinfo() {
	m.feat("mal.distinfo")
	pool := []string{"$" + "NetBSD$", "", "BLAKE2s (x-1.0.tar.gz) = 1234", "SHA512 (x-1.0.tar.gz) = 1234", "Size (x-1.0.tar.gz) = 1234 bytes", "Size (x-1.0.tar.gz) = 1234", "Size (x-1.0.tar.gz) = bytes", "Size (x-1.0.tar.gz) = -1 bytes",
		"SHA1 (patch-aa) = 0000000000000000000000000000000000000000", "SHA1 (patch-aa) =", "SHA1 (patch-aa) = ", "SHA1 (patch-aa)", "SHA1 (patch-aa = 1", "SHA1 patch-aa) = 1", "SHA1 () = 1", "SHA1 (patch-zz) = 12", "SHA1 (x-1.0.tar.gz) = 12", "RMD160 (x-1.0.tar.gz) = 12",
		"MD5 (x) = 1", "UNKNOWN (x) = 1", " (x) = 1", "(x) = 1", "SHA1 (a b) = 1", "SHA1 (a/b/c.tar.gz) = 1", "SHA1 (../x) = 1", "SHA1 (patch-aa) = zz", "SHA1 (patch-aa) = 1 2", "SHA512 (x-1.0.tar.gz) = 1234", "BLAKE2s (x-1.0.tar.gz) = 1234", "SHA512 (y) = 1",
		"BLAKE2s (y) = 1", "Size (y) = 1 bytes", "SHA1 (patch-ab) = da39a3ee5e6b4b0d3255bfef95601890afd80709", "=", "x", "SHA1 (${A}) = 1", "SHA1 (\xff) = 1", "SHA1 (patch-aa.orig) = 1", "SHA1 (patch-local-x) = 1", "SHA1 (manual-x) = 1", "SHA1 (subdir/patch-aa) = 1"}
	s := m.linesOf(1+m.r.Intn(12), func() string {
		l := Pick(m.r, pool)
		if m.r.Chance(10) {
			l = m.poke(l, 1)
		}
		return l
	})
	if m.r.Chance(60) {
		s = "$" + "NetBSD$\n\n" + s
	}
	m.ts.Put(m.pkg+"/distinfo", 'f', m.finish(s))
}

func (m *malGen) attackPatch() {
	m.feat("mal.patch")
	tag := "$" + "NetBSD$"
	pool := []string{tag, "$" + "NetBSD: patch-aa,v 1.1 2020/01/01 00:00:00 x Exp $", "", "Description.", "--- a/file.c", "+++ b/file.c", "--- a/file.c.orig\t2020-01-01", "+++ b/file.c\t2020-01-01", "--- /dev/null", "+++ /dev/null", "---", "+++", "--- ", "+++ ",
		"@@ -1,3 +1,3 @@", "@@ -1,300 +1,2 @@", "@@ -0,0 +1 @@", "@@ -1 +1 @@", "@@ -1,0 +1,0 @@", "@@ @@", "@@", "@@ -a,b +c,d @@", "@@ -1,3 +1,3 @@ func()", "@@ -99999999999999999999,1 +1,1 @@", "@@ -1,-3 +1,3 @@", "@@ -1,3 +1,3", "@@-1,3+1,3@@",
		" context", "-old", "+new", "+", "-", " ", "\\ No newline at end of file", "\\", "+$" + "NetBSD$", "+$" + "Id$", "+$" + "Id: x $", "-$" + "Revision: 1 $", " $" + "Author$", "+\t", "+ \t", "+x ", "x", "diff -u a b", "diff --git a/x b/x", "index 123..456 100644", "Index: file.c", "===================",
		"*** a/file.c", "--- b/file.c", "***************", "*** 1,3 ****", "--- 1,3 ----", "! changed", "+ added", "- removed", "  ctx", "Only in x: y", "Binary files a and b differ", "+#!/bin/sh", "+ /usr/pkg /usr/local ${PREFIX} @PREFIX@", "+#include <sys/types.h>", "+\xff\xfe", "+\x1b[31m", "new file mode 100644",
		"--- a/configure", "+++ b/configure", "+if [ x == y ]; then", "+test a == b", "--- a/Makefile.am", "+++ b/Makefile.am", "--- a/x.orig", "+++ b/x.orig"}
	mk := func() string {
		var ls []string
		if !m.r.Chance(20) {
			ls = append(ls, tag, "")
		}
		if !m.r.Chance(25) {
			ls = append(ls, "Description of the patch.", "")
		}
		for i, n := 0, 1+m.r.Intn(16); i < n; i++ {
			l := Pick(m.r, pool)
			if m.r.Chance(8) {
				l = m.poke(l, 1)
			}
			ls = append(ls, l)
		}
		return strings.Join(ls, "\n") + "\n"
	}
	// a structurally sound patch with wrong counts / truncated hunks
	sound := func() string {
		a, b := 1+m.r.Intn(5), 1+m.r.Intn(5)
		ls := []string{tag, "", "Desc.", "", "--- a/f.c", "+++ b/f.c", fmt.Sprintf("@@ -1,%d +1,%d @@", a, b)}
		for i, n := 0, m.r.Intn(9); i < n; i++ {
			ls = append(ls, Pick(m.r, []string{" c", "-o", "+n", "+", " ", "\\ No newline at end of file"}))
		}
		if m.r.Chance(40) {
			ls = append(ls, fmt.Sprintf("@@ -10,%d +10,%d @@", m.r.Intn(3), m.r.Intn(3)))
		}
		if m.r.Chance(30) {
			ls = append(ls, "--- a/g.c", "+++ b/g.c")
		}
		return strings.Join(ls, "\n") + "\n"
	}
	s := mk()
	if m.r.Chance(40) {
		s = sound()
	}
	name := Pick(m.r, []string{"patch-aa", "patch-aa", "patch-ab", "patch-src_file.c", "patch-configure", "patch-Makefile.am"})
	m.ts.Put(m.pkg+"/patches/"+name, 'f', m.finish(s))
	if m.r.Chance(60) {
		if di, ok := m.ts.Get(m.pkg + "/distinfo"); ok && !strings.Contains(di, "("+name+")") {
			sum := netbsdFilteredSha1(s)
			if m.r.Chance(30) {
				sum = strings.Repeat("0", 40)
			}
			m.ts.Put(m.pkg+"/distinfo", 'f', di+"SHA1 ("+name+") = "+sum+"\n")
		}
	}
	if m.r.Chance(25) {
		m.extra = append(m.extra, m.pkg+"/patches/"+name)
	}
}

func (m *malGen) attackSmallFiles() {
	switch m.r.Intn(9) {
	case 0:
		m.feat("mal.alternatives")
		pool := []string{"bin/x @PREFIX@/bin/x-1.0", "bin/x bin/x-1.0", "bin/x", "bin/x a b", "", " ", "@PREFIX@/bin/x @PREFIX@/bin/y", "/bin/x /bin/y", "bin/x ${PREFIX}/bin/y", "bin/x @PREFIX@/bin/x-1.0 extra", "man/man1/x.1 @PREFIX@/man/man1/x-1.0.1", "bin/x\t@PREFIX@/bin/y", "@", "@PREFIX@", "bin/x @PKGMANDIR@/x", "# c", "bin/x @PREFIX@/bin/x @PREFIX@"}
		m.ts.Put(m.pkg+"/ALTERNATIVES", 'f', m.finish(m.linesOf(1+m.r.Intn(6), func() string { return Pick(m.r, pool) })))
	case 1:
		m.feat("mal.buildlink3")
		n := Pick(m.r, []string{"p0", "x", "X", "p-0", "${A}", ""})
		u := strings.ToUpper(n)
		pool := []string{"BUILDLINK_TREE+=\t" + n, "BUILDLINK_TREE+=\t-" + n, "BUILDLINK_TREE+=\t" + n + " y", "BUILDLINK_TREE+=", "BUILDLINK_TREE=\t" + n, ".if !defined(" + u + "_BUILDLINK3_MK)", u + "_BUILDLINK3_MK:=", ".endif # " + u + "_BUILDLINK3_MK", ".endif",
			"BUILDLINK_API_DEPENDS." + n + "+=\t" + n + ">=1.0", "BUILDLINK_ABI_DEPENDS." + n + "+=\t" + n + ">=1.0nb1", "BUILDLINK_API_DEPENDS." + n + "+=\t" + n + ">=", "BUILDLINK_API_DEPENDS." + n + "+=\t{a,b}>=1", "BUILDLINK_API_DEPENDS.other+=\tother>=1", "BUILDLINK_API_DEPENDS." + n + "+=\t" + n + "-[0-9]*",
			"BUILDLINK_API_DEPENDS." + n + "+=\t${A}>=${B}", "BUILDLINK_ABI_DEPENDS." + n + "+=\t" + n + ">=0.1", "BUILDLINK_PKGSRCDIR." + n + "?=\t../../" + m.pkg, "BUILDLINK_PKGSRCDIR." + n + "?=\t../../x/y", "BUILDLINK_PKGSRCDIR." + n + "=", "BUILDLINK_DEPMETHOD." + n + "?=\tbuild", "BUILDLINK_INCDIRS." + n + "+=\tinclude/x",
			".include \"../../mk/bsd.fast.prefs.mk\"", ".include \"../../cat/p0/buildlink3.mk\"", ".include \"../../lang/python312/buildlink3.mk\"", "pkgbase := " + n, ".include \"../../mk/pkg-build-options.mk\"", ".if !empty(PKG_BUILD_OPTIONS." + n + ":Mx)", ".if ${PKG_BUILD_OPTIONS." + n + ":Mx}", ".elif 1", ".else",
			"", "# comment", "X=\ty", ".for i in a", ".endfor", cvsID, ".if !defined(X_MK)", "BUILDLINK_TREE+=\t" + n + "\\", ".if 0", ".endif # x", ".include \"${A}\"", "BUILDLINK_FILES." + n + "+=\tbin/*", "BUILDLINK_CONTENTS_FILTER." + n + "=\tgrep x"}
		var s string
		if m.r.Chance(50) { // sound skeleton with random insertions
			sk := []string{cvsID, "", "BUILDLINK_TREE+=\t" + n, "", ".if !defined(" + u + "_BUILDLINK3_MK)", u + "_BUILDLINK3_MK:=", "", "BUILDLINK_API_DEPENDS." + n + "+=\t" + n + ">=1.0", "BUILDLINK_PKGSRCDIR." + n + "?=\t../../" + m.pkg, ".endif # " + u + "_BUILDLINK3_MK", "", "BUILDLINK_TREE+=\t-" + n}
			for i, k := 0, 1+m.r.Intn(3); i < k; i++ {
				at := m.r.Intn(len(sk) + 1)
				if m.r.Chance(40) && len(sk) > 1 {
					sk = append(sk[:at%len(sk)], sk[at%len(sk)+1:]...)
				} else {
					sk = append(sk[:at], append([]string{Pick(m.r, pool)}, sk[at:]...)...)
				}
			}
			s = strings.Join(sk, "\n") + "\n"
		} else {
			s = m.linesOf(1+m.r.Intn(14), func() string { return Pick(m.r, pool) })
		}
		m.ts.Put(m.pkg+"/buildlink3.mk", 'f', m.finish(s))
	case 2:
		m.feat("mal.options")
		pool := []string{cvsID, "", "PKG_OPTIONS_VAR=\tPKG_OPTIONS.p0", "PKG_OPTIONS_VAR=\tX", "PKG_OPTIONS_VAR=", "PKG_SUPPORTED_OPTIONS=\tfoo bar", "PKG_SUPPORTED_OPTIONS+=\t${A}", "PKG_SUGGESTED_OPTIONS=\tfoo baz", "PKG_OPTIONS_OPTIONAL_GROUPS=\tg", "PKG_OPTIONS_GROUP.g=\ta b", "PKG_OPTIONS_REQUIRED_GROUPS=\th",
			"PKG_OPTIONS_NONEMPTY_SETS=\ts", "PKG_OPTIONS_SET.s=\tc d", "PKG_OPTIONS_LEGACY_OPTS+=\told:new", "PKG_OPTIONS_LEGACY_VARS+=\tX:y", ".include \"../../mk/bsd.options.mk\"", ".include \"../../mk/bsd.prefs.mk\"", ".if !empty(PKG_OPTIONS:Mfoo)", ".if ${PKG_OPTIONS:Mbar}", ".if !empty(PKG_OPTIONS:Munknown)",
			".if empty(PKG_OPTIONS:Mfoo)", ".if !empty(PKG_OPTIONS:M", ".if !empty(PKG_OPTIONS:Mfoo) && !empty(PKG_OPTIONS:Mbar)", ".elif !empty(PKG_OPTIONS:Mbar)", ".else", ".endif", ".endif # foo", "CONFIGURE_ARGS+=\t--enable-foo", "PLIST_VARS+=\tfoo", "PLIST.foo=\tyes", ".for o in ${PKG_SUPPORTED_OPTIONS}", ".endfor",
			".if ${OPSYS} == NetBSD", "PKG_SUPPORTED_OPTIONS+=\tnb", ".if defined(PKG_OPTIONS)", "PKG_OPTIONS_VAR?=\tx", ".if !empty(PKG_OPTIONS:M${o})", ".if ${PKG_OPTIONS:Mfoo} || ${PKG_OPTIONS:Mbar}", ".if !empty(PKG_OPTIONS:Mfoo*)", ".if !empty(PKG_OPTIONS:N*)"}
		m.ts.Put(m.pkg+"/options.mk", 'f', m.finish(m.linesOf(1+m.r.Intn(16), func() string { return Pick(m.r, pool) })))
		if mk, ok := m.ts.Get(m.pkg + "/Makefile"); ok && m.r.Chance(50) && !strings.Contains(mk, "options.mk") {
			m.ts.Put(m.pkg+"/Makefile", 'f', strings.Replace(mk, ".include \"../../mk/bsd.pkg.mk\"", ".include \"options.mk\"\n.include \"../../mk/bsd.pkg.mk\"", 1))
		}
	case 3:
		m.feat("mal.category")
		pool := []string{cvsID, "", "COMMENT=\tCategory", "COMMENT=", "COMMENT=\tx \\", "SUBDIR+=\tp0", "SUBDIR+=\tp1", "SUBDIR+=\tmissing", "#SUBDIR+=\tp0", "#SUBDIR+=\tp1\t# why", "SUBDIR+=\tp0 p1", "SUBDIR+=", "SUBDIR=\tp0", "SUBDIR+=\t../x", "SUBDIR+=\t${A}", "SUBDIR+=\tp0\t# c", "SUBDIR +=\tp0", "SUBDIR+= p0",
			".include \"../mk/misc/category.mk\"", ".include \"../mk/bsd.pkg.mk\"", ".include \"x\"", ".if 1", ".endif", ".for i in a", "X=\ty", "t:", "\techo", "SUBDIR+=\tP0", "SUBDIR+=\tzz", "SUBDIR+=\taa", "SUBDIR+=\tp0", "SUBDIR+=\tempty0", "SUBDIR+=\tMakefile", "SUBDIR+=\t.", "SUBDIR+=\tCVS"}
		s := m.linesOf(1+m.r.Intn(12), func() string { return Pick(m.r, pool) })
		if m.r.Chance(50) {
			s = cvsID + "\n\nCOMMENT=\tCat\n\n" + s + "\n.include \"../mk/misc/category.mk\"\n"
		}
		m.ts.Put("cat/Makefile", 'f', m.finish(s))
	case 4:
		m.feat("mal.toplevel")
		pool := []string{cvsID, "", "SUBDIR+=\tcat", "SUBDIR+=\tmissing", "#SUBDIR+=\tcat", "SUBDIR+=\tcat\t# c", "SUBDIR+=\tlang", "SUBDIR+=\tmk", "SUBDIR+=\twip", "SUBDIR+=", "SUBDIR =\tcat", "SUBDIR+=cat", ".include \"mk/misc/toplevel.mk\"", ".if 1", ".endif", "X=y", "SUBDIR+=\tcat lang", "SUBDIR+=\t${A}", ".for i in a", "SUBDIR+=\tdoc", "SUBDIR+=\tlicenses", "SUBDIR+=\tcat/p0", "SUBDIR+=\t..", "SUBDIR+=\tMakefile"}
		m.ts.Put("Makefile", 'f', m.finish(m.linesOf(1+m.r.Intn(10), func() string { return Pick(m.r, pool) })))
	case 5:
		m.feat("mal.changes")
		pool := []string{"$" + "NetBSD$", "", "Changes to the packages collection and infrastructure in 2018:", "\tUpdated cat/p0 to 1.1 [user 2018-01-01]", "\tAdded cat/p0 version 1.0 [user 2018-01-02]", "\tRemoved cat/p0 [user 2018-01-03]", "\tRemoved cat/p0 successor cat/p1 [user 2018-01-03]",
			"\tRenamed cat/p0 to cat/p1 [user 2018-01-04]", "\tMoved cat/p0 to cat/p1 [user 2018-01-05]", "\tDowngraded cat/p0 to 0.9 [user 2018-01-06]", "\tUpdated cat/p0 to 1.1", "\tUpdated cat/p0 to [user 2018-01-01]", "\tUpdated to 1.1 [user 2018-01-01]", "\tUpdated cat/p0 to 1.1 [user]", "\tUpdated cat/p0 to 1.1 [user 2018-13-45]",
			"\tUpdated cat/p0 to 1.1 [user 2019-01-01]", "\tUpdated cat/p0 to 1.1 [user 2018-01-01", "\tUpdated cat/p0 to 1.1 user 2018-01-01]", "\tUpdated cat/p0  to 1.1 [user 2018-01-01]", "Updated cat/p0 to 1.1 [user 2018-01-01]", "  Updated cat/p0 to 1.1 [user 2018-01-01]", "\tupdated cat/p0 to 1.1 [user 2018-01-01]", "\tUpdated p0 to 1.1 [user 2018-01-01]",
			"\tmk/bsd.pkg.mk: changed [user 2018-01-01]", "\t\tcontinuation", "\t", "\tAdded", "\tAdded cat/p0 [user 2018-01-01]", "\tAdded cat/p0 version [user 2018-01-01]", "\tX cat/p0 to 1.1 [user 2018-01-01]", "\tUpdated cat/p0 to 1.1 [a b 2018-01-01]", "\tUpdated cat/p0 to 1.1 [user 2018-01-01] extra", "\tUpdated cat/p0 to 1.0 [user 2018-02-01]",
			"\tUpdated cat/p0 to 1.1 [user 2017-01-01]", "\tUpdated cat/p0 to 1.1 [\xff 2018-01-01]", "\tUpdated cat/nonexistent to 1.1 [user 2018-01-01]", "\tRenamed cat/p0 to [user 2018-01-04]", "\tMoved cat/p0 cat/p1 [user 2018-01-05]", "\tRemoved cat/p0 successor [user 2018-01-03]"}
		s := m.linesOf(1+m.r.Intn(14), func() string {
			l := Pick(m.r, pool)
			if m.r.Chance(8) {
				l = m.poke(l, 1)
			}
			return l
		})
		f := Pick(m.r, []string{"doc/CHANGES-2018", "doc/CHANGES-2018", "doc/CHANGES-2019", "doc/CHANGES-2010", "doc/CHANGES-20", "doc/CHANGES-2018.orig", "doc/CHANGES-pkgsrc-2018Q1", "doc/CHANGES-9999"})
		m.ts.Put(f, 'f', m.finish(s))
		if m.r.Chance(40) {
			m.extra = append(m.extra, f)
		}
		if m.r.Chance(30) {
			todo := []string{"$" + "NetBSD$", "", "Suggested package updates", "==========================", "", "\to p0-1.2", "\to p0-1.2 [comment]", "\to p0", "\to", "\to  p0-1.2", "o p0-1.2", "\to p0-1.2 [", "\to -1.2", "\to p0-", "\tx p0-1.2", "\to \xff-1", "\to p0-1.2nb1 [x] y", "", "Other", "\to zz-1"}
			k := 5 + m.r.Intn(len(todo)-5)
			m.ts.Put(Pick(m.r, []string{"doc/TODO", "wip/TODO"}), 'f', m.finish(strings.Join(todo[:k], "\n")+"\n"))
		}
	case 6:
		m.feat("mal.vulnerabilities")
		pool := []string{"#FORMAT 1.0.0", "#FORMAT 1.0.1", "#FORMAT ", "#FORMAT", "# comment", "", "p0<1.1\tdenial-of-service\thttp://example.org/", "p0<1.1 dos http://x", "p0<1.1", "p0<1.1 dos", "p0<1.1 dos url extra", "p0>=1<2 x y", "p0-1.0 x y", "p0-[0-9]* x y", "{p0,p1}<1 x y", "{p0,p1<1 x y", "p0,p1}<1 x y",
			"{a,b}{c,d}{e,f}<1 x y", "{{a,b},{c,d}}<1 x y", "{,}<1 x y", "{}<1 x y", "{a,b}-{c,d}<1 x y", "p0<1-2 x y", "p0<1.1nb1 x y", "p0<=1 x y", "p0>1<=2 x y", "p0<1>2 x y", "p0< x y", "<1 x y", "p0 x y", "p0<1.1\tx\ty\t", "\tp0<1.1 x y", "p0<${A} x y", "p0<1\xff x y", "p-0<1 x y", "p0-<1 x y", "*<1 x y", "p[0-9]<1 x y", "p0<1{a,b} x y", "p0>=1.0<1.1{nb1,nb2} x y",
			"{a,b,c,d,e,f,g,h}{a,b,c,d,e,f,g,h}<1 x y", "{{{{{{{{a}}}}}}}}<1 x y", "{a,{b,{c,{d,{e}}}}}<1 x y", "{", "}", "{{", "}}{{", "{a}{b}{c}{d}{e}{f}{g}{h}{i}<1 x y", "p0<1 x y\r"}
		s := m.linesOf(1+m.r.Intn(12), func() string { return Pick(m.r, pool) })
		if m.r.Chance(70) {
			s = "#FORMAT 1.0.0\n" + s
		}
		f := Pick(m.r, []string{"doc/pkg-vulnerabilities", "doc/pkg-vulnerabilities", "cat/pkg-vulnerabilities", "pkg-vulnerabilities", m.pkg + "/pkg-vulnerabilities"})
		m.ts.Put(f, 'f', m.finish(s))
		m.extra = append(m.extra, f)
	case 7:
		m.feat("mal.cvs")
		pool := []string{"/Makefile/1.1/Mon Jan  1 00:00:00 2020//", "/Makefile/1.1/Mon Jan  1 00:00:00 2020/-kb/", "/Makefile/1.1/x/-ko/T1", "/PLIST/0/dummy timestamp//", "/PLIST/-1.1/x//", "/DESCR/1.1/Result of merge//", "/x", "/x/", "/x/1/2/3", "/x/1/2/3/4/5/6", "D", "D/patches////", "D/", "", "/", "//////", "x", "/Makefile/1.1", "/\xff/1.1/x//", "/Makefile/1.1/x/-kk/", "/distinfo/1.1/x//Tx", "/Makefile//////"}
		d := Pick(m.r, []string{m.pkg, m.pkg, "cat", ".", m.pkg + "/patches", "doc", "mk"})
		m.ts.Put(filepath.Join(d, "CVS/Entries"), 'f', m.finish(m.linesOf(1+m.r.Intn(8), func() string { return Pick(m.r, pool) })))
		if m.r.Chance(40) {
			lp := []string{"A /Makefile/1.2/x//", "R /Makefile/1.1/x//", "A /new/0/x//", "R /x", "A ", "R", "A", "X /x/1/2//", "A /x", "", "A /Makefile/1.1/x/-kb/", "R /PLIST/1/x//"}
			m.ts.Put(filepath.Join(d, "CVS/Entries.Log"), 'f', m.finish(m.linesOf(1+m.r.Intn(5), func() string { return Pick(m.r, lp) })))
		}
	default:
		m.feat("mal.infra")
		switch m.r.Intn(6) {
		case 0:
			pool := []string{"foo\tDescription", "foo", "foo ", "Foo desc", "foo\t", "", " x", "a-b_c+1 d", "\xff x", "foo bar\\", "x\ty\tz", "#c"}
			m.ts.Put("mk/defaults/options.description", 'f', m.finish(m.linesOf(m.r.Intn(6), func() string { return Pick(m.r, pool) })))
		case 1:
			pool := []string{cvsID, "", ".include \"defaults.mk\"", ".include \"x.mk\"", ".include \"../x.mk\"", ".include \"replace.mk\"", ".if 1", ".endif", "X=y", ".include \"${A}\"", ".include <x>", ".include \"tools.${OPSYS}.mk\""}
			m.ts.Put("mk/tools/bsd.tools.mk", 'f', m.finish(m.linesOf(1+m.r.Intn(6), func() string { return Pick(m.r, pool) })))
		case 2:
			pool := []string{cvsID, "TOOLS_CREATE+=\tx", "_TOOLS_VARNAME.sed=\tSED", "_TOOLS_VARNAME.=\tX", "TOOLS_PATH.sed=\t/bin/sed", "TOOLS_PLATFORM.sed?=\t/bin/sed", "TOOLS_PLATFORM.=\t", ".if ${OPSYS} == NetBSD", ".endif", "_TOOLS.x=\ta b c", ".for t in ${_TOOLS.x}", "_TOOLS_VARNAME.${t}=\tT", ".endfor",
				"USE_TOOLS+=\tsed:run", "USE_TOOLS+=\t${A}", "_TOOLS_VARNAME.gsed=\tSED", "TOOLS_ALIASES.sed=\tgsed", "TOOLS_PLATFORM.sed=\t${A:", ".if !empty(USE_TOOLS:Msed)", "TOOLS_NOOP+=\tx", "_TOOLS_DEPMETHOD.x=\tBUILD", "_TOOLS_VARNAME.a:b=\tX", "TOOLS_CREATE+=", "_TOOLS_VARNAME.[=\tLB"}
			f := Pick(m.r, []string{"mk/tools/defaults.mk", "mk/tools/tools.NetBSD.mk", "mk/tools/tools.Linux.mk", "mk/tools/replace.mk"})
			m.ts.Put(f, 'f', m.finish(cvsID+"\n\n"+m.linesOf(1+m.r.Intn(10), func() string { return Pick(m.r, pool) })))
		case 3:
			pool := []string{cvsID, "MASTER_SITE_GITHUB+=\thttps://github.com/", "MASTER_SITE_X=\thttp://x/ \\", "\tftp://y/", "MASTER_SITE_BACKUP?=\thttp://b/", "MASTER_SITE_=\thttp://", "MASTER_SITE_Y+=\tnot-a-url", "MASTER_SITE_Z=", "X=y", ".if 1", ".endif", "MASTER_SITE_GNU+=\thttp://ftp.gnu.org/pub/gnu/", "MASTER_SITE_A=\t${B}", "MASTER_SITE_A=\thttp://${"}
			m.ts.Put("mk/fetch/sites.mk", 'f', m.finish(cvsID+"\n\n"+m.linesOf(1+m.r.Intn(8), func() string { return Pick(m.r, pool) })))
		case 4:
			pool := []string{"_COMPILERS=\tgcc clang", "_COMPILERS=", "_PSEUDO_COMPILERS=\tccache", "_CXX_STD_VERSIONS=\tc++ c++14", "_CXX_STD_VERSIONS=", ".if ${USE_LANGUAGES:Mada} || ${USE_LANGUAGES:Mc}", ".endif", ".if ${USE_LANGUAGES:M", "_PKG_JVMS.8=\topenjdk8", "_PKG_JVMS=", "_EMACS_VERSIONS_ALL=\temacs25", "_EMACS_VERSIONS_ALL=",
				"MYSQL_VERSIONS_ACCEPTED=\t57", "PGSQL_VERSIONS_ACCEPTED=", "_BUILD_DEFS+=\tX Y", "_BUILD_DEFS+=", "USE_TOOLS+=\tx", "BUILD_DEFS+=\tA", ".if ${_PKGSRC_USE_FORTIFY:Mweak}", "_OPSYS_VERSION_CMD=\tx", ".for _c in ${_COMPILERS}", ".endfor", "_COMPILERS+=\t${A}", "_PKG_JVMS.=\tx"}
			f := Pick(m.r, []string{"mk/compiler.mk", "mk/compiler/gcc.mk", "mk/java-vm.mk", "editors/emacs/modules.mk", "mk/mysql.buildlink3.mk", "mk/pgsql.buildlink3.mk", "mk/bsd.prefs.mk", "mk/bsd.pkg.mk", "mk/defaults/mk.conf"})
			m.ts.Put(f, 'f', m.finish(cvsID+"\n\n"+m.linesOf(1+m.r.Intn(8), func() string { return Pick(m.r, pool) })))
		default:
			// version directories that the variable definitions enumerate
			for i, n := 0, 1+m.r.Intn(3); i < n; i++ {
				d := Pick(m.r, []string{"lang/python", "lang/python27", "lang/python3x", "lang/php", "lang/php999999999999999999999", "lang/lua5", "lang/ruby", "lang/nodejs", "lang/python312/x", "emulators/suse_base", "lang/go", "lang/go121", "databases/postgresql16-client", "lang/openjdk8", "mk/platform/x.mk", "mk/platform/NetBSD.mk/x", "licenses/x y", "licenses/\xff", "lang/python-", "lang/python00"})
				m.ts.Put(d+"/Makefile", 'f', cvsID+"\n")
			}
		}
	}
}

// GenMalformedC01 applies 1-4 attacks to the tree specification.
func GenMalformedC01(r *Rng, ts *TreeSpec, pkg string) (feats map[string]int, extraTargets []string) {
	m := &malGen{r: r, ts: ts, feats: map[string]int{}, pkg: pkg}
	n := 1 + r.Intn(3)
	if r.Chance(10) {
		n += 3
	}
	for i := 0; i < n; i++ {
		switch k := r.Intn(20); {
		case k < 9:
			m.insertLines(Pick(r, m.mkTargets()), m.mkLines())
		case k < 11:
			m.attackBytes()
		case k < 12:
			m.attackHuge()
		case k < 14:
			m.attackShape()
		case k < 15:
			m.attackPlist()
		case k < 16:
			m.attackDistinfo()
		case k < 17:
			m.attackPatch()
		default:
			m.attackSmallFiles()
		}
	}
	return m.feats, m.extra
}

var c01Opts = []string{"-Wall", "-Call", "-e", "-f", "-F", "-g", "-s", "-q", "-r", "-i", "-o", "-d"}

// GenArgsC01: a random subset of the property's options plus targets.
func GenArgsC01(r *Rng, pkg string, extra []string, allowOdd bool) (args []string, cwd string, optset []string) {
	for _, o := range c01Opts {
		p := 35
		switch o {
		case "-Wall":
			p = 75
		case "-d":
			p = 8
		case "-o", "-i", "-q":
			p = 15
		}
		if !r.Chance(p) {
			continue
		}
		optset = append(optset, o)
		if o == "-o" {
			t := Pick(r, []string{"should", "must", "indent", "", "AUTOFIX", "x", ":", "sorted before", "$", "\xff", "be"})
			switch r.Intn(3) {
			case 0:
				args = append(args, "-o", t)
			case 1:
				args = append(args, "--only="+t)
			default:
				args = append(args, "-o"+t, "-o", "quoted")
			}
			continue
		}
		args = append(args, o)
	}
	if allowOdd && r.Chance(12) {
		odd := Pick(r, []string{"-Wextra", "-Wall,no-extra", "-Wnone", "-Werror", "-Wall,error", "-Cglobal", "-Cnone", "-I", "-efs", "-Fq", "--source", "--explain", "--gcc-output-format", "-Wbogus", "-Z", "--", "-o", "-W", "--only", "-h", "-V", "--debug=", "-Wperm,quoting", "-W,", "-C,"})
		optset = append(optset, "odd:"+odd)
		args = append(args, odd)
	}
	cwd = "."
	var targets []string
	switch k := r.Intn(20); {
	case k < 8:
		targets = []string{pkg}
	case k < 10:
		targets = []string{"."}
		if !r.Chance(60) {
			args = append(args, "-r")
		}
	case k < 12:
		targets = []string{"cat"}
	case k < 13:
		cwd = pkg
	case k < 14:
		cwd = pkg
		targets = []string{Pick(r, []string{".", "Makefile", "PLIST", "distinfo", "patches", "../p0", "../../cat/p0", "..", "../.."})}
	case k < 15:
		targets = []string{pkg + "/Makefile", pkg + "/PLIST", pkg + "/distinfo", pkg + "/DESCR"}
	case k < 16:
		targets = []string{Pick(r, []string{"nonexistent", "/", "..", "/nonexistent/x", "mk", "mk/bsd.pkg.mk", "doc", "doc/CHANGES-2018", "doc/TODO", "licenses", "licenses/gnu-gpl-v2", "lang/python312", "", pkg + "/", pkg + "//", "./" + pkg + "/.", pkg + "/../p0", "cat/../cat/p0", pkg + "/patches", pkg + "/files", pkg + "/CVS", "wip", "mk/tools/defaults.mk"})}
	default:
		targets = []string{pkg}
	}
	for _, e := range extra {
		if r.Chance(60) {
			if cwd == "." {
				targets = append(targets, e)
			}
		}
	}
	if r.Chance(5) {
		targets = append(targets, targets...)
	}
	args = append(args, targets...)
	return
}
