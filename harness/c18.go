package main

import (
	"context"
	"crypto/sha1"
	"encoding/hex"
	"fmt"
	"os"
	"os/exec"
	"path/filepath"
	"regexp"
	"strconv"
	"strings"
	"sync"
	"time"

	pkglint "github.com/rillig/pkglint/v23"
)

// C18: computePatchSha1Hex (through the shim) against the extracted model
// (Model/PatchSum.v hashed_bytes) and the extracted makepatchsum_filter
// (Spec/PatchSumSpec.v), SHA-1 by Go's crypto/sha1 on both sides;
// Autofix.Replace against autofix_replace; and the real pkglint binary on
// generated packages with patches and distinfo: default run, -F, default run.

var c18Tokens = []string{"$NetBSD", "$", "N", "x", "\n", "\r"}

func c18Sha1(b string) string {
	h := sha1.Sum([]byte(b))
	return hex.EncodeToString(h[:])
}

// c18ScratchDir: a directory for the many small files of the unit layers; on a
// memory file system when there is one (the files are rewritten ~10^5 times),
// else below ctx.Work. cleanup removes it.
func c18ScratchDir(ctx *Ctx, name string) (string, func()) {
	if d, err := os.MkdirTemp("/dev/shm", "verif-"+name+"-"); err == nil {
		return d, func() { os.RemoveAll(d) }
	}
	d := filepath.Join(ctx.Work, name)
	if err := os.MkdirAll(d, 0o755); err != nil {
		return "", func() {}
	}
	return d, func() { os.RemoveAll(d) }
}

// ---------- unit: digests ----------

// c18CheckDigests: for every body, sha1(model bytes) = sha1(spec bytes) = implementation.
func c18CheckDigests(ctx *Ctx, res *Result, bodies []string, kind string) {
	reqs := make([]string, len(bodies))
	impl := make([]string, len(bodies))
	panicked := make([]string, len(bodies))
	dir, cleanup := c18ScratchDir(ctx, "c18dig")
	defer cleanup()
	if dir == "" {
		res.Broken = "no scratch directory"
		return
	}
	path := filepath.Join(dir, "patch-aa")
	for i, b := range bodies { // sequential: the shim uses the global G
		reqs[i] = "dig " + hx(b)
		impl[i], panicked[i] = pkglint.VerifComputePatchSha1Hex(path, b) // through Load(file, 0), as checkPatchSha1 does
	}
	ans, err := runOracle(ctx, "c18", reqs)
	if err != nil {
		res.Broken = err.Error()
		return
	}
	for i, b := range bodies {
		rep := map[string]any{"kind": "digest", "body": hx(b)}
		if panicked[i] != "" {
			res.AddViolation(Violation{Key: "C18/digest/panic", What: fmt.Sprintf("computePatchSha1Hex on %q panics: %s", b, panicked[i]),
				FoundInput: true, Size: 1 + len(b), Replay: rep})
			continue
		}
		f := strings.Fields(ans[i])
		if len(f) != 2 {
			res.Broken = "oracle answer " + q(ans[i])
			return
		}
		model, spec := unhx(f[0]), unhx(f[1])
		want := c18Sha1(spec)
		rep["impl"], rep["makepatchsum"], rep["filtered"] = impl[i], want, hx(spec)
		if impl[i] != want {
			// the implementation's digest is not the one makepatchsum computes: the property itself fails
			res.AddViolation(Violation{Key: "C18/digest/differs-from-makepatchsum",
				What:       fmt.Sprintf("patch body %q: pkglint computes %s, makepatchsum (SHA1 of %q) gives %s", b, impl[i], spec, want),
				FoundInput: true, Size: 1 + len(b), Replay: rep})
		} else if c18Sha1(model) != impl[i] {
			rep["broken"] = "correspondence computePatchSha1Hex = Model.PatchSum.hashed_bytes; the digest still equals makepatchsum's"
			res.AddViolation(Violation{Key: "C18/correspondence/digest",
				What:       fmt.Sprintf("patch body %q: model hashes %q, implementation's digest is %s", b, model, impl[i]),
				FoundInput: false, Size: 1 + len(b), Replay: rep})
		}
		if strings.Contains(b, "$NetBSD") {
			res.Count("unit.bodies_with_tag", 1)
			if spec != "" {
				res.Count("unit.tag_and_kept_bytes", 1)
			}
		}
		if b != "" && !strings.HasSuffix(b, "\n") && strings.Contains(b[strings.LastIndex(b, "\n")+1:], "$NetBSD") {
			res.Count("unit.tag_in_unterminated_tail", 1)
		}
		if strings.Contains(b, "\r") && strings.Contains(b, "$NetBSD") {
			res.Count("unit.tag_with_cr", 1)
		}
		if b != "" && (b[0] >= 0x80 || b[0] < 0x20) && !strings.Contains(strings.SplitAfter(b, "\n")[0], "$NetBSD") {
			res.Count("unit.hostile_first_byte_hashed", 1)
		}
		if i == 777 || i == len(bodies)-5 {
			res.Sample(map[string]any{"kind": kind, "body": q(b), "filtered": q(spec), "sha1": impl[i]})
		}
	}
	res.Evaluations += len(bodies)
	res.TracesValidated += len(bodies)
	res.Count(kind+"_bodies", len(bodies))
}

// second unit alphabet: hostile bytes at position 0 and at line starts
var c18Tokens2 = []string{"\xef\xbb\xbf", "\xc3\xbc", "\x00", "\r", "\f", "x", "\n", "$NetBSD"}

func c18Exhaustive(maxTok int) []string { return c18ExhaustiveOver(c18Tokens, maxTok) }

func c18ExhaustiveOver(c18Tokens []string, maxTok int) []string {
	seen := map[string]bool{}
	var out []string
	cur := []string{""}
	for n := 0; ; n++ {
		for _, s := range cur {
			if !seen[s] {
				seen[s] = true
				out = append(out, s)
			}
		}
		if n == maxTok {
			return out
		}
		next := make([]string, 0, len(cur)*len(c18Tokens))
		for _, s := range cur {
			for _, t := range c18Tokens {
				next = append(next, s+t)
			}
		}
		cur = next
	}
}

var c18Hostile = []string{"\xef\xbb\xbf", "\xef\xbb\xbf\xef\xbb\xbf", "\xfe\xff", "\xff\xfe", "\xc3\xbc", "\xe2\x80\x8b", "\x00", "\r", "\f", "\v", "\x1b", "\xef\xbb", " ", "\t"}

// c18RandomBody: patch-like text with tags anywhere, CRLF, lone CR, empty lines,
// non-ASCII bytes, with and without final newline; or a raw token string.
func c18RandomBody(rng *Rng) string {
	var sb strings.Builder
	switch rng.Intn(4) {
	case 0:
		n := rng.Intn(40)
		toks := c18Tokens
		if rng.Chance(40) {
			toks = c18Tokens2
		}
		for i := 0; i < n; i++ {
			sb.WriteString(Pick(rng, toks))
		}
	default:
		lines := []string{"$NetBSD$", "", "Fix the build.", "", "--- src/file.c.orig\t2020-01-01 00:00:00.000000000 +0000", "+++ src/file.c", "@@ -1,3 +1,3 @@", " context", "-old line", "+new line", " more"}
		if rng.Chance(15) {
			lines = lines[1:]
		}
		if rng.Chance(15) {
			lines = append(lines[:1], lines[2:]...)
		}
		tags := []string{"$NetBSD$", " * $NetBSD: file.c,v 1.2 2020/01/01 00:00:00 x Exp $", "+/* $NetBSD */", "-$NetBSD: old $", "x$NetBSDx", "$NetBS", "NetBSD$", "$ NetBSD", "$netbsd$"}
		var out []string
		for _, l := range lines {
			if rng.Chance(12) {
				out = append(out, Pick(rng, tags))
			}
			if rng.Chance(6) {
				out = append(out, "")
			}
			if rng.Chance(8) {
				l += Pick(rng, tags)
			}
			if rng.Chance(5) {
				l = l + "\r" + Pick(rng, []string{"", "x", "$NetBSD$"})
			}
			if rng.Chance(5) {
				l += string([]byte{byte(128 + rng.Intn(128)), byte(rng.Intn(256))})
			}
			if rng.Chance(6) { // hostile bytes at the start of a line
				l = Pick(rng, c18Hostile) + l
			}
			out = append(out, l)
		}
		if rng.Chance(25) { // hostile bytes at position 0 of the file
			out[0] = Pick(rng, c18Hostile) + out[0]
		}
		eol := "\n"
		if rng.Chance(15) {
			eol = "\r\n"
		}
		for i, l := range out {
			sb.WriteString(l)
			if i < len(out)-1 || !rng.Chance(20) {
				if rng.Chance(5) {
					sb.WriteString("\r\n")
				} else {
					sb.WriteString(eol)
				}
			}
		}
	}
	return sb.String()
}

// c18NearMisses: strings that are almost the digest d (40 lower-case hex digits)
// but not equal to it; every one must be reported and fixed to exactly d.
// kind "blank" is not an entry at all for the distinfo grammar (see c18BlankKinds).
func c18NearMisses(d string) map[string]string {
	m := map[string]string{}
	if u := strings.ToUpper(d); u != d {
		m["upper"] = u
		mixed := []byte(d)
		flipped := false
		for i, c := range mixed {
			if c >= 'a' && c <= 'f' && (!flipped || i%3 == 0) {
				mixed[i] = c - 32
				flipped = true
			}
		}
		if string(mixed) != u {
			m["mixed"] = string(mixed)
		} else { // every letter got flipped: keep only the first one upper-case
			one := []byte(d)
			for i, c := range one {
				if c >= 'a' && c <= 'f' {
					one[i] = c - 32
					break
				}
			}
			m["mixed"] = string(one)
		}
	}
	for _, pos := range []int{0, 19, 39} {
		b := []byte(d)
		if b[pos] == 'f' {
			b[pos] = '0'
		} else if b[pos] == '9' {
			b[pos] = 'a'
		} else {
			b[pos]++
		}
		m[fmt.Sprintf("digit%d", pos)] = string(b)
	}
	m["truncated"] = d[:39]
	m["truncated-front"] = d[1:]
	m["extended"] = d + "0"
	m["extended-front"] = "0" + d
	m["zero"] = strings.Repeat("0", 40)
	return m
}

var c18NearKinds = []string{"upper", "mixed", "digit0", "digit19", "digit39", "truncated", "truncated-front", "extended", "extended-front", "zero"}

// ---------- unit: the distinfo checker on one entry ----------

type c18Entry struct {
	body string
	kind string // correct | one of c18NearKinds | blank-after | blank-before
}

// c18CheckEntries drives CheckLinesDistinfo (shim) on a package with one patch and
// one SHA1 entry, in default and in --autofix mode, against the reference digest
// (Go SHA-1 of the extracted makepatchsum_filter of the raw file bytes) and the
// extracted check_patch_sha1.
func c18CheckEntries(ctx *Ctx, res *Result, entries []c18Entry) {
	root, cleanup := c18ScratchDir(ctx, "c18unit")
	defer cleanup()
	pkgDir := filepath.Join(root, "cat", "pkg")
	if err := os.MkdirAll(filepath.Join(pkgDir, "patches"), 0o755); err != nil {
		res.Broken = err.Error()
		return
	}
	patchPath := filepath.Join(pkgDir, "patches", "patch-aa")
	reqs := make([]string, len(entries))
	for i, e := range entries {
		reqs[i] = "dig " + hx(e.body)
	}
	ans, err := runOracle(ctx, "c18", reqs)
	if err != nil {
		res.Broken = err.Error()
		return
	}
	const head = "$NetBSD$\n\n"
	var chkReqs []string
	var chkWant []string
	for i, e := range entries {
		f := strings.Fields(ans[i])
		if len(f) != 2 {
			res.Broken = "oracle answer " + q(ans[i])
			return
		}
		ref := c18Sha1(unhx(f[1]))
		hash, sep1, sep2 := ref, "", ""
		switch e.kind {
		case "correct":
		case "blank-after":
			sep2 = " "
		case "blank-before":
			sep1 = " "
		default:
			h, ok := c18NearMisses(ref)[e.kind]
			if !ok {
				continue // e.g. a digest without letters has no case variant
			}
			hash = h
		}
		line := "SHA1 (patch-aa) = " + sep1 + hash + sep2 + "\n"
		distinfo := head + line
		rep := map[string]any{"kind": "entry", "body": hx(e.body), "entry": e.kind, "distinfo": hx(distinfo), "makepatchsum": ref}
		size := 1 + len(e.body)
		if err := os.WriteFile(patchPath, []byte(e.body), 0o644); err != nil {
			res.Broken = err.Error()
			return
		}
		out1, after1, p1 := pkglint.VerifCheckDistinfo(root, pkgDir, distinfo, false)
		out2, after2, p2 := pkglint.VerifCheckDistinfo(root, pkgDir, distinfo, true)
		if p1 != "" || p2 != "" {
			rep["impl"] = p1 + p2
			res.AddViolation(Violation{Key: "C18/entry/panic", What: fmt.Sprintf("CheckLinesDistinfo panics on entry %q for patch %q: %s%s", line, e.body, p1, p2),
				FoundInput: true, Size: size, Replay: rep})
			continue
		}
		rep["output"], rep["output_autofix"], rep["after_autofix"] = q(out1), q(out2), q(after2)
		reported := strings.Contains(out1, "distinfo:3:")
		res.Count("entry."+e.kind, 1)
		res.Evaluations += 2
		res.TracesValidated += 2
		if after1 != distinfo {
			res.AddViolation(Violation{Key: "C18/entry/default-mode-wrote-file", What: fmt.Sprintf("default mode changed distinfo %q -> %q", distinfo, after1), FoundInput: true, Size: size, Replay: rep})
			continue
		}
		switch {
		case e.kind == "correct":
			if reported {
				res.AddViolation(Violation{Key: "C18/accept/correct-hash-reported",
					What:       fmt.Sprintf("patch %q: the entry %q holds the makepatchsum digest but is reported: %s", e.body, line, c18Grep(out1, "distinfo:3:")),
					FoundInput: true, Size: size, Replay: rep})
			} else if after2 != distinfo {
				res.AddViolation(Violation{Key: "C18/fix/correct-entry-rewritten",
					What:       fmt.Sprintf("patch %q: -F rewrote the correct entry %q: %q", e.body, line, after2),
					FoundInput: true, Size: size, Replay: rep})
			}
		case strings.HasPrefix(e.kind, "blank"):
			// not an entry for the distinfo grammar: it must not be accepted silently;
			// -F may leave the line alone but must not write a wrong digest
			if !reported {
				res.AddViolation(Violation{Key: "C18/accept/wrong-hash-silent",
					What:       fmt.Sprintf("patch %q: the line %q (blank next to the hash) is accepted silently", e.body, line),
					FoundInput: true, Size: size, Replay: rep})
			} else if after2 != distinfo && after2 != head+"SHA1 (patch-aa) = "+ref+"\n" {
				res.AddViolation(Violation{Key: "C18/fix/wrote-other-digest",
					What:       fmt.Sprintf("patch %q: -F turned %q into %q", e.body, distinfo, after2),
					FoundInput: true, Size: size, Replay: rep})
			}
		default:
			want := head + "SHA1 (patch-aa) = " + ref + "\n"
			if !reported {
				res.AddViolation(Violation{Key: "C18/accept/wrong-hash-silent",
					What:       fmt.Sprintf("patch %q: distinfo records %s (%s variant of the makepatchsum digest %s), pkglint is silent", e.body, hash, e.kind, ref),
					FoundInput: true, Size: size, Replay: rep})
			} else if after2 != want {
				key := "C18/fix/wrote-other-digest"
				if after2 == distinfo {
					key = "C18/fix/not-fixed"
				}
				res.AddViolation(Violation{Key: key,
					What:       fmt.Sprintf("patch %q, entry %q (%s): after -F distinfo is %q, expected %q", e.body, line, e.kind, after2, want),
					FoundInput: true, Size: size, Replay: rep})
			}
			// the model's verdict for the same triple
			chkReqs = append(chkReqs, "chk "+hx(e.body)+" "+hx(hash)+" "+hx(ref))
			chkWant = append(chkWant, fmt.Sprintf("%v|%s|%s", reported, e.body, hash))
		}
	}
	if len(chkReqs) > 0 {
		cans, err := runOracle(ctx, "c18", chkReqs)
		if err != nil {
			res.Broken = err.Error()
			return
		}
		for i, a := range cans {
			parts := strings.SplitN(chkWant[i], "|", 3)
			modelReports := strings.HasPrefix(a, "differs ")
			if (parts[0] == "true") != modelReports {
				res.AddViolation(Violation{Key: "C18/correspondence/check",
					What:       fmt.Sprintf("patch %q hash %s: implementation reported=%s, model %s", parts[1], parts[2], parts[0], a),
					FoundInput: false, Size: 1 + len(parts[1]),
					Replay:     map[string]any{"kind": "entry-model", "body": hx(parts[1]), "hash": parts[2], "broken": "correspondence checkPatchSha1 = Model.PatchSum.check_patch_sha1"}})
			}
		}
	}
}

// ---------- unit: Autofix.Replace ----------

type c18Repl struct{ text, from, to, prefix string }

func c18CheckReplace(ctx *Ctx, res *Result, cases []c18Repl) {
	dir := filepath.Join(ctx.Work, "c18repl")
	if err := os.MkdirAll(dir, 0o755); err != nil {
		res.Broken = err.Error()
		return
	}
	path := filepath.Join(dir, "distinfo")
	var reqs []string
	var kept []c18Repl
	var impl []string
	for _, c := range cases {
		op := pkglint.VerifFixOp{Line: 0, Kind: "replace", From: c.from, To: c.to}
		if c.prefix != "" {
			op = pkglint.VerifFixOp{Line: 0, Kind: "replaceafter", From: c.from, To: c.to, Prefix: c.prefix}
		}
		_, fixes, _, _, panicked := pkglint.VerifSaveScript(path, c.text, false, []pkglint.VerifFixOp{op})
		if panicked != "" || len(fixes) == 0 || !fixes[0].HasFix {
			res.AddViolation(Violation{Key: "C18/replace/panic", What: fmt.Sprintf("Replace(%q,%q) on %q: %s", c.from, c.to, c.text, panicked), FoundInput: false,
				Replay: map[string]any{"kind": "replace", "text": hx(c.text), "from": hx(c.from), "to": hx(c.to), "broken": "Autofix.Replace could not be driven"}})
			continue
		}
		raws := strings.SplitAfter(c.text, "\n")
		// ReplaceAfter(prefix, from, to) = the same rule on prefix+from / prefix+to (Model: autofix_replace_after)
		reqs = append(reqs, "repl "+hx(c.prefix+c.from)+" "+hx(c.prefix+c.to)+" "+hx(raws[0]))
		kept = append(kept, c)
		impl = append(impl, strings.Join(fixes[0].Texts, ""))
	}
	ans, err := runOracle(ctx, "c18", reqs)
	if err != nil {
		res.Broken = err.Error()
		return
	}
	for i, c := range kept {
		raw0 := strings.SplitAfter(c.text, "\n")[0]
		model := unhx(ans[i])
		if model != raw0 {
			res.Count("replace.fired", 1)
		} else {
			res.Count("replace.refused", 1)
		}
		if model != impl[i] {
			res.AddViolation(Violation{Key: "C18/correspondence/replace",
				What:       fmt.Sprintf("ReplaceAfter(%q,%q,%q) on %q: implementation %q, model %q", c.prefix, c.from, c.to, raw0, impl[i], model),
				FoundInput: false, Size: len(c.text) + len(c.from) + len(c.to),
				Replay: map[string]any{"kind": "replace", "text": hx(c.text), "from": hx(c.from), "to": hx(c.to), "broken": "correspondence Autofix.Replace = Model.PatchSum.autofix_replace"}})
		}
	}
	res.Evaluations += len(kept)
	res.TracesValidated += len(kept)
}

func c18ReplaceCases(rng *Rng, n int) []c18Repl {
	var out []c18Repl
	hexs := []string{"0", "00", "a", "ab", "aba", "abab", "0a0", "da39a3ee", "1"}
	for i := 0; i < n; i++ {
		from := Pick(rng, hexs)
		name := "patch-" + Pick(rng, []string{"aa", "ab", from, from + from, "a" + from, "0"})
		hash := from
		if rng.Chance(25) {
			hash = Pick(rng, hexs)
		}
		if rng.Chance(10) {
			hash = from + from
		}
		prefix := ""
		if rng.Chance(50) {
			prefix = ") = " // the call checkPatchSha1 makes
		}
		out = append(out, c18Repl{"SHA1 (" + name + ") = " + hash + "\n", from, Pick(rng, []string{"ffff", from, "", "0" + from}), prefix})
	}
	return out
}

// ---------- whole-run layer ----------

// c18WriteTree writes the minimal pkgsrc tree of DESIGN.md Appendix A, on which
// the real binary prints "Looks fine.", below root. Self-contained on purpose.
func c18WriteTree(root string) error {
	files := map[string]string{
		"mk/tools/bsd.tools.mk":           ".include \"defaults.mk\"\n",
		"mk/misc/category.mk":             "",
		"mk/defaults/options.description": "example-option   Description\n",
		"mk/compiler.mk":                  "_CXX_STD_VERSIONS=\tc++ c++14\n.if ${USE_LANGUAGES:Mada} || ${USE_LANGUAGES:Mc} || ${USE_LANGUAGES:Mc99}\n.endif\n_COMPILERS=\tgcc clang\n_PSEUDO_COMPILERS=\tccache\n",
		"mk/compiler/gcc.mk":              "# $NetBSD$\n.if ${_PKGSRC_USE_FORTIFY:Mweak}\n.endif\n",
		"mk/java-vm.mk":                   "# $NetBSD$\n_PKG_JVMS.8=\topenjdk8 oracle-jdk8\n",
		"mk/mysql.buildlink3.mk":          "MYSQL_VERSIONS_ACCEPTED=\t57 56\n",
		"mk/pgsql.buildlink3.mk":          "PGSQL_VERSIONS_ACCEPTED=\t10 96\nPGSQL_TYPE?=\tpostgresql11-client\n",
		"editors/emacs/modules.mk":        "_EMACS_VERSIONS_ALL=\temacs25 emacs21\n",
		"doc/CHANGES-2018":                "$NetBSD$\n",
		"doc/TODO":                        "$NetBSD$\n",
		"licenses/2-clause-bsd":           "text\n",
		"licenses/gnu-gpl-v2":             "text\n",
		"cat/Makefile":                    "# $NetBSD$\n\nCOMMENT=\tComment for the category\n\nSUBDIR+=\tpkg\n\n.include \"../mk/misc/category.mk\"\n",
		"cat/pkg/Makefile":                "# $NetBSD$\n\nDISTNAME=\tpkg-1.0\nCATEGORIES=\tcat\nMASTER_SITES=\t# none\n\nMAINTAINER=\tpkgsrc-users@NetBSD.org\nHOMEPAGE=\t# none\nCOMMENT=\tDummy package\nLICENSE=\t2-clause-bsd\n\n.include \"../../mk/bsd.pkg.mk\"\n",
		"cat/pkg/DESCR":                   "Package description\n",
		"cat/pkg/PLIST":                   "@comment $NetBSD$\nbin/program\n",
		"cat/pkg/distinfo":                c18DistinfoHead,
	}
	for _, f := range []string{"mk/bsd.pkg.mk", "mk/bsd.prefs.mk", "mk/bsd.fast.prefs.mk", "mk/fetch/sites.mk", "mk/fetch/fetch.mk",
		"mk/defaults/mk.conf", "mk/tools/defaults.mk", "mk/platform/NetBSD.mk", "mk/platform/Linux.mk",
		"lang/lua54/Makefile", "lang/nodejs20/Makefile", "lang/php82/Makefile", "lang/python312/Makefile", "lang/ruby32/Makefile",
		"emulators/suse131_base/Makefile"} {
		files[f] = "# $NetBSD$\n"
	}
	for name, content := range files {
		p := filepath.Join(root, name)
		if err := os.MkdirAll(filepath.Dir(p), 0o755); err != nil {
			return err
		}
		if err := os.WriteFile(p, []byte(content), 0o644); err != nil {
			return err
		}
	}
	return nil
}

const c18DistinfoHead = "$NetBSD$\n\nBLAKE2s (distfile-1.0.tar.gz) = 12341234\nSHA512 (distfile-1.0.tar.gz) = 12341234\nSize (distfile-1.0.tar.gz) = 12341234\n"

type c18Patch struct {
	name string
	body string
	hash string // what distinfo records
	kind string // correct | stale | wrong
}

type c18Scenario struct {
	patches []c18Patch
	kind    string
}

func (sc c18Scenario) distinfo() string {
	var sb strings.Builder
	sb.WriteString(c18DistinfoHead)
	for _, p := range sc.patches {
		fmt.Fprintf(&sb, "SHA1 (%s) = %s\n", p.name, p.hash)
	}
	return sb.String()
}

func (sc c18Scenario) replay() map[string]any {
	var ps []any
	for _, p := range sc.patches {
		ps = append(ps, map[string]any{"name": p.name, "body": hx(p.body), "hash": p.hash, "kind": p.kind})
	}
	return map[string]any{"kind": "package", "scenario": sc.kind, "patches": ps}
}

func c18RunPkglint(ctx *Ctx, root string, args ...string) (out string, exit int, err error) {
	cctx, cancel := context.WithTimeout(context.Background(), 20*time.Second)
	defer cancel()
	cmd := exec.CommandContext(cctx, ctx.Pkglint, args...)
	cmd.Dir = root
	b, e := cmd.CombinedOutput()
	if cctx.Err() != nil {
		return string(b), -1, fmt.Errorf("timeout")
	}
	if e != nil {
		if ee, ok := e.(*exec.ExitError); ok {
			return string(b), ee.ExitCode(), nil
		}
		return string(b), -1, e
	}
	return string(b), 0, nil
}

var c18DiagRe = regexp.MustCompile(`(?m)^(ERROR|WARN|NOTE): cat/pkg/distinfo:(\d+)(?:--\d+)?: `)

// lines of distinfo that carry a diagnostic
func c18DistinfoDiags(out string) map[int]bool {
	m := map[int]bool{}
	for _, g := range c18DiagRe.FindAllStringSubmatch(out, -1) {
		n, _ := strconv.Atoi(g[2])
		m[n] = true
	}
	return m
}

// c18RunScenario: default run, -F, default run on one package; the reference
// digests come from refDigest (SHA-1 of the extracted makepatchsum_filter).
func c18RunScenario(ctx *Ctx, res *Result, root string, sc c18Scenario, refDigest func(string) (string, error)) {
	pdir := filepath.Join(root, "cat/pkg/patches")
	os.RemoveAll(pdir)
	if err := os.MkdirAll(pdir, 0o755); err != nil {
		res.Broken = err.Error()
		return
	}
	for _, p := range sc.patches {
		if err := os.WriteFile(filepath.Join(pdir, p.name), []byte(p.body), 0o644); err != nil {
			res.Broken = err.Error()
			return
		}
	}
	distinfoPath := filepath.Join(root, "cat/pkg/distinfo")
	before := sc.distinfo()
	if err := os.WriteFile(distinfoPath, []byte(before), 0o644); err != nil {
		res.Broken = err.Error()
		return
	}
	size := 0
	for _, p := range sc.patches {
		size += 20 + len(p.body)
	}
	viol := func(key, what string, extra map[string]any) {
		rep := sc.replay()
		for k, v := range extra {
			rep[k] = v
		}
		res.AddViolation(Violation{Key: key, What: what, FoundInput: true, Size: size, Replay: rep})
	}
	firstEntry := strings.Count(c18DistinfoHead, "\n") + 1

	// run 1: default mode
	out1, exit1, err := c18RunPkglint(ctx, root, "cat/pkg")
	if err != nil || exit1 > 1 || exit1 < 0 {
		res.Count("w.run_failed", 1)
		res.Sample(map[string]any{"run_failed": q(out1), "scenario": sc.replay()})
		return
	}
	diag1 := c18DistinfoDiags(out1)
	for i, p := range sc.patches {
		ref, err := refDigest(p.body)
		if err != nil {
			res.Broken = err.Error()
			return
		}
		line := firstEntry + i
		switch {
		case p.hash == ref && diag1[line]:
			viol("C18/accept/correct-hash-reported",
				fmt.Sprintf("%s has the makepatchsum digest %s in distinfo:%d but pkglint reports: %s", p.name, ref, line, c18Grep(out1, fmt.Sprintf("distinfo:%d:", line))),
				map[string]any{"output": q(out1)})
		case p.hash != ref && !diag1[line]:
			viol("C18/accept/wrong-hash-silent",
				fmt.Sprintf("%s: distinfo:%d records %s, makepatchsum gives %s, pkglint is silent", p.name, line, p.hash, ref),
				map[string]any{"output": q(out1)})
		}
		if strings.HasPrefix(p.kind, "near:") {
			res.Count("w.entries_near", 1)
		}
		res.Count("w.entries_"+p.kind, 1)
	}
	res.TracesValidated++

	// run 2: --autofix
	out2, exit2, err := c18RunPkglint(ctx, root, "-F", "cat/pkg")
	if err != nil || exit2 > 1 || exit2 < 0 {
		res.Count("w.run_failed", 1)
		res.Sample(map[string]any{"run_failed": q(out2), "scenario": sc.replay()})
		return
	}
	afterBytes, _ := os.ReadFile(distinfoPath)
	after := string(afterBytes)
	alines := strings.SplitAfter(after, "\n")
	blines := strings.SplitAfter(before, "\n")
	if len(alines) != len(blines) {
		viol("C18/fix/distinfo-line-count-changed", fmt.Sprintf("-F changed the number of lines of distinfo: %q -> %q", before, after), map[string]any{"output": q(out2)})
		return
	}
	for i := 0; i < firstEntry-1; i++ {
		if alines[i] != blines[i] {
			viol("C18/fix/other-line-changed", fmt.Sprintf("-F changed distinfo line %d: %q -> %q", i+1, blines[i], alines[i]), map[string]any{"output": q(out2)})
		}
	}
	// digests (reference) of every patch before and after -F
	beforeD := make([]string, len(sc.patches))
	afterD := make([]string, len(sc.patches))
	changed := make([]bool, len(sc.patches))
	for i, p := range sc.patches {
		cur, err := os.ReadFile(filepath.Join(pdir, p.name))
		if err != nil {
			res.Broken = err.Error()
			return
		}
		changed[i] = string(cur) != p.body
		var e1, e2 error
		beforeD[i], e1 = refDigest(p.body)
		afterD[i], e2 = refDigest(string(cur))
		if e1 != nil || e2 != nil {
			res.Broken = fmt.Sprint(e1, e2)
			return
		}
	}
	fixedOK := make([]bool, len(sc.patches))
	for i, p := range sc.patches {
		cur, err := os.ReadFile(filepath.Join(pdir, p.name))
		if err != nil {
			res.Broken = err.Error()
			return
		}
		if string(cur) != p.body {
			res.Count("w.patch_file_rewritten_by_F", 1)
		}
		ref, err := refDigest(string(cur))
		if err != nil {
			res.Broken = err.Error()
			return
		}
		want := fmt.Sprintf("SHA1 (%s) = %s\n", p.name, ref)
		got := alines[firstEntry-1+i]
		if strings.HasPrefix(p.kind, "blank") && (got == blines[firstEntry-1+i] ||
			got == strings.Replace(blines[firstEntry-1+i], strings.TrimSpace(p.hash), ref, 1)) {
			// a blank next to the hash: not an entry for the distinfo grammar ("Invalid line"),
			// reported in run 1 (checked above); -F may leave it alone (AutofixDistinfo may still
			// update the digest inside it when the patch file itself was rewritten)
			continue
		}
		if got != want {
			key := "C18/fix/wrote-other-digest"
			if got == blines[firstEntry-1+i] {
				key = "C18/fix/not-fixed"
				if strings.Count(got, p.hash) > 1 {
					key = "C18/fix/refused/stale-hash-occurs-twice-in-line"
				}
			} else {
				if p.kind == "correct" && !changed[i] {
					key = "C18/fix/correct-entry-rewritten"
				}
				// the signature of Package.AutofixDistinfo(before_j, after_j) hitting the line of patch i:
				// the entry should hold the digest patch j had before -F rewrote it, and holds j's new digest
				for j, pj := range sc.patches {
					if j != i && changed[j] && beforeD[j] == ref && got == fmt.Sprintf("SHA1 (%s) = %s\n", p.name, afterD[j]) {
						_ = pj
						key = "C18/fix/entry-follows-other-patch-with-same-digest"
					}
				}
			}
			viol(key, fmt.Sprintf("after -F distinfo has %q, expected %q (makepatchsum digest of %s as it is on disk now)", got, want, p.name),
				map[string]any{"output": q(out2), "distinfo_after": q(after)})
		} else {
			fixedOK[i] = true
			if p.kind != "correct" {
				res.Count("w.entries_fixed", 1)
			}
		}
	}
	res.TracesValidated++

	// run 3: default mode again; the entries must be accepted
	out3, exit3, err := c18RunPkglint(ctx, root, "cat/pkg")
	if err != nil || exit3 > 1 || exit3 < 0 {
		res.Count("w.run_failed", 1)
		return
	}
	diag3 := c18DistinfoDiags(out3)
	for i, p := range sc.patches {
		line := firstEntry + i
		if diag3[line] && fixedOK[i] { // an entry that -F left wrong was reported above, with its cause
			viol("C18/fix/not-accepted-after-fix",
				fmt.Sprintf("after -F pkglint still reports %s at distinfo:%d: %s", p.name, line, c18Grep(out3, fmt.Sprintf("distinfo:%d:", line))),
				map[string]any{"output": q(out3), "distinfo_after": q(after)})
		}
	}
	res.TracesValidated++
	res.Evaluations += 3
	res.Count("w.packages", 1)
	res.Count("w.scenario_"+sc.kind, 1)
}

func c18Grep(out, needle string) string {
	for _, l := range strings.Split(out, "\n") {
		if strings.Contains(l, needle) {
			return l
		}
	}
	return ""
}

func c18RandomScenario(rng *Rng) c18Scenario {
	sc := c18Scenario{kind: "random"}
	n := 1 + rng.Intn(4)
	names := []string{"patch-aa", "patch-ab", "patch-src_file.c", "patch-configure"}
	for i := 0; i < n; i++ {
		p := c18Patch{name: names[i], body: c18RandomBody(rng)}
		switch x := rng.Intn(100); {
		case x < 30:
			p.kind = "correct" // filled in below, needs the oracle
		case x < 48:
			p.kind = "stale"
		case x < 60:
			p.kind = "wrong"
			p.hash = c18Sha1(fmt.Sprintf("wrong%d", rng.Next()))
			if rng.Chance(10) {
				p.hash = strings.ToUpper(p.hash)
			}
		case x < 95:
			p.kind = "near:" + Pick(rng, c18NearKinds) // a near miss of the correct digest
		default:
			p.kind = Pick(rng, []string{"blank-after", "blank-before"})
		}
		sc.patches = append(sc.patches, p)
	}
	return sc
}

const c18ValidPatch = "$NetBSD$\n\nDoc\n\n--- a.orig\n+++ a\n@@ -1 +1 @@\n-a\n+b\n"

// directed scenarios for the corners named in the design
func c18DirectedScenarios() []c18Scenario {
	crHeader := strings.Replace(c18ValidPatch, "@@ -1 +1 @@\n", "@@ -1 +1 @@\r\n", 1)
	twin := strings.Replace(crHeader, "--- a.orig\n", "--- a.orig\n$NetBSD: x $\n", 1)
	return []c18Scenario{
		{kind: "hash-in-file-name", patches: []c18Patch{{name: "patch-0000", body: c18ValidPatch, hash: "0000", kind: "wrong"}}},
		{kind: "twin-filtered-content", patches: []c18Patch{
			{name: "patch-aa", body: crHeader, kind: "correct"},
			{name: "patch-ab", body: twin, kind: "correct"}}},
		{kind: "all-lines-tagged", patches: []c18Patch{{name: "patch-aa", body: "$NetBSD$\nx$NetBSD: y $", kind: "stale"}}},
		{kind: "empty-patch", patches: []c18Patch{{name: "patch-aa", body: "", kind: "wrong", hash: "00"}}},
	}
}

func c18WholeRuns(ctx *Ctx, res *Result, scs []c18Scenario) {
	// reference digests: SHA-1 (Go) of the extracted makepatchsum_filter
	var mu sync.Mutex
	cache := map[string]string{}
	refDigest := func(body string) (string, error) {
		mu.Lock()
		d, ok := cache[body]
		mu.Unlock()
		if ok {
			return d, nil
		}
		ans, err := runOracle(ctx, "c18", []string{"dig " + hx(body)})
		if err != nil {
			return "", err
		}
		f := strings.Fields(ans[0])
		if len(f) != 2 {
			return "", fmt.Errorf("oracle answer %q", ans[0])
		}
		d = c18Sha1(unhx(f[1]))
		mu.Lock()
		cache[body] = d
		mu.Unlock()
		return d, nil
	}
	// fill in correct / stale hashes
	for si := range scs {
		for pi := range scs[si].patches {
			p := &scs[si].patches[pi]
			switch {
			case p.hash != "":
			case p.kind == "correct" || strings.HasPrefix(p.kind, "near:") || strings.HasPrefix(p.kind, "blank"):
				d, err := refDigest(p.body)
				if err != nil {
					res.Broken = err.Error()
					return
				}
				p.hash = d
				if strings.HasPrefix(p.kind, "near:") {
					if h, ok := c18NearMisses(d)[p.kind[5:]]; ok {
						p.hash = h
					} else {
						p.kind = "correct"
					}
				} else if p.kind == "blank-after" {
					p.hash = d + " "
				} else if p.kind == "blank-before" {
					p.hash = " " + d
				}
			default: // stale: the digest of the body before an edit
				d, err := refDigest(p.body + "+one more line\n")
				if err != nil {
					res.Broken = err.Error()
					return
				}
				p.hash = d
			}
		}
	}
	const workers = 8
	roots := make([]string, workers)
	for w := range roots {
		roots[w] = filepath.Join(ctx.Work, fmt.Sprintf("c18tree%d", w))
		if err := c18WriteTree(roots[w]); err != nil {
			res.Broken = err.Error()
			return
		}
	}
	// the fixture itself must be fine, else nothing below means anything
	out, exit, err := c18RunPkglint(ctx, roots[0], "cat/pkg")
	if err != nil || exit != 0 || !strings.Contains(out, "Looks fine.") {
		res.AddViolation(Violation{Key: "C18/fixture", What: "the base fixture no longer passes pkglint: " + out, FoundInput: false,
			Replay: map[string]any{"broken": "whole-run fixture (DESIGN.md Appendix A)", "output": q(out)}})
		return
	}
	var wg sync.WaitGroup
	for w := 0; w < workers; w++ {
		wg.Add(1)
		go func(w int) {
			defer wg.Done()
			for i := w; i < len(scs); i += workers {
				c18RunScenario(ctx, res, roots[w], scs[i], refDigest)
			}
		}(w)
	}
	wg.Wait()
}

// ---------- entry points ----------

func runC18(ctx *Ctx) *Result {
	res := &Result{Rule: "unit: every patch body of <= L tokens over {$NetBSD, $, N, x, LF, CR} (distinct strings), then seeded random bodies (patch-like text with tags anywhere, CRLF, lone CR, empty lines, non-ASCII, with/without final newline; raw token strings); then every body of <= L2 tokens over the second alphabet {BOM, U+00FC, NUL, CR, FF, x, LF, $NetBSD} (hostile bytes at position 0 and at line starts); every digest goes through Load(file, 0); non-trivial = the body contains $NetBSD (a line is removed); distinct by body. Entries: CheckLinesDistinfo (shim) on one patch + one SHA1 entry in default and --autofix mode, entry = the correct digest or a near miss of it (upper / mixed case, one digit changed at 3 positions, truncated / extended by one digit at either end, all zero, blank next to the hash). Replace: distinfo entry lines with the stale hash once / twice / overlapping. Whole runs: generated packages with 1-4 patches, entries correct / stale / wrong, plus directed corner scenarios; each = default run, -F, default run of the real binary."}
	rng := NewRng(ctx.Seed)
	maxTok, nrand, nrepl, npkg := 6, 10000, 2000, 200
	maxTok2, entryTok, nentryRand := 4, 3, 300
	if ctx.Tier == "thorough" {
		maxTok, nrand, nrepl, npkg = 7, 300000, 50000, 3000
		maxTok2, entryTok, nentryRand = 6, 4, 5000
	}
	t0 := time.Now()
	lap := func(what string) {
		res.Count("seconds."+what, int(time.Since(t0).Seconds()+0.5))
		t0 = time.Now()
	}
	exh := c18Exhaustive(maxTok)
	c18CheckDigests(ctx, res, exh, "exhaustive")
	if res.Broken != "" {
		return res
	}
	seen := map[string]bool{}
	for _, b := range exh {
		if strings.Contains(b, "$NetBSD") {
			seen[b] = true
		}
	}
	var rnd []string
	for i := 0; i < nrand; i++ {
		b := c18RandomBody(rng)
		rnd = append(rnd, b)
		if strings.Contains(b, "$NetBSD") {
			seen[b] = true
		}
	}
	c18CheckDigests(ctx, res, rnd, "random")
	if res.Broken != "" {
		return res
	}
	// second alphabet: hostile bytes (BOM, other multi-byte sequences, NUL, CR, FF) at position 0 and at line starts
	exh2 := c18ExhaustiveOver(c18Tokens2, maxTok2)
	c18CheckDigests(ctx, res, exh2, "exhaustive2")
	if res.Broken != "" {
		return res
	}
	for _, b := range exh2 {
		if strings.Contains(b, "$NetBSD") {
			seen[b] = true
		}
	}
	res.DistinctNontrivial = len(seen)

	// the distinfo checker itself on one entry: correct digest and its near misses
	var entries []c18Entry
	allKinds := append([]string{"correct", "blank-after", "blank-before"}, c18NearKinds...)
	ebodies := append(c18ExhaustiveOver(c18Tokens2, entryTok), c18ExhaustiveOver(c18Tokens, entryTok)...)
	for i := 0; i < nentryRand; i++ {
		ebodies = append(ebodies, c18RandomBody(rng))
	}
	for i, b := range ebodies {
		if i%8 == 0 {
			for _, k := range allKinds {
				entries = append(entries, c18Entry{b, k})
			}
			continue
		}
		entries = append(entries, c18Entry{b, "correct"})
		for k := 0; k < 3; k++ {
			entries = append(entries, c18Entry{b, c18NearKinds[(i+k*3)%len(c18NearKinds)]})
		}
	}
	lap("digests")
	c18CheckEntries(ctx, res, entries)
	lap("entries")
	if res.Broken != "" {
		return res
	}
	c18CheckReplace(ctx, res, c18ReplaceCases(rng, nrepl))
	if res.Broken != "" {
		return res
	}
	scs := c18DirectedScenarios()
	for i := 0; i < npkg; i++ {
		scs = append(scs, c18RandomScenario(rng))
	}
	lap("replace")
	c18WholeRuns(ctx, res, scs)
	lap("whole_runs")
	res.Exhaustive = false
	res.Count("exhaustive_max_tokens", maxTok)
	floors := map[string]int{
		"unit.bodies_with_tag": 5000, "unit.tag_and_kept_bytes": 2000, "unit.tag_in_unterminated_tail": 500, "unit.tag_with_cr": 500,
		"replace.fired": 200, "replace.refused": 200,
		"unit.hostile_first_byte_hashed": 1000,
		"entry.correct": 500, "entry.upper": 200, "entry.mixed": 200, "entry.digit0": 200, "entry.digit39": 200, "entry.truncated": 200, "entry.extended": 200, "entry.blank-after": 50,
		"w.packages": npkg * 9 / 10, "w.entries_correct": npkg / 4, "w.entries_stale": npkg / 5, "w.entries_wrong": npkg / 8, "w.entries_near": npkg / 3, "w.entries_near:upper": npkg / 40, "w.entries_near:mixed": npkg / 40, "w.entries_fixed": npkg / 3,
	}
	for _, k := range sortedKeys(floors) {
		if n, _ := res.Distribution[k].(int); n < floors[k] && res.Broken == "" && len(res.Violations) == 0 {
			res.Broken = fmt.Sprintf("coverage floor missed: %s = %d < %d", k, n, floors[k])
		}
	}
	res.Assumptions = []string{
		"SHA-1 is computed by Go's crypto/sha1 on the harness side; the model and the specification only determine the bytes that are hashed",
		"a diagnostic is attributed to a distinfo entry by its file:line prefix",
	}
	return res
}

func replayC18(ctx *Ctx, rep map[string]any) *Result {
	res := &Result{Rule: "replay"}
	switch rep["kind"] {
	case "digest":
		b, _ := rep["body"].(string)
		c18CheckDigests(ctx, res, []string{unhx(b)}, "replay")
	case "entry":
		b, _ := rep["body"].(string)
		k, _ := rep["entry"].(string)
		c18CheckEntries(ctx, res, []c18Entry{{unhx(b), k}})
	case "replace":
		t, _ := rep["text"].(string)
		f, _ := rep["from"].(string)
		to, _ := rep["to"].(string)
		pf, _ := rep["prefix"].(string)
		if pf == "" {
			pf = "-"
		}
		c18CheckReplace(ctx, res, []c18Repl{{unhx(t), unhx(f), unhx(to), unhx(pf)}})
	case "package":
		sc := c18Scenario{}
		sc.kind, _ = rep["scenario"].(string)
		if ps, ok := rep["patches"].([]any); ok {
			for _, x := range ps {
				m, _ := x.(map[string]any)
				name, _ := m["name"].(string)
				body, _ := m["body"].(string)
				hash, _ := m["hash"].(string)
				kind, _ := m["kind"].(string)
				sc.patches = append(sc.patches, c18Patch{name: name, body: unhx(body), hash: hash, kind: kind})
			}
		}
		c18WholeRuns(ctx, res, []c18Scenario{sc})
	}
	return res
}

func init() { register("C18", runC18, replayC18) }
