package main

import (
	"context"
	"crypto/sha1"
	"encoding/hex"
	"fmt"
	"os"
	"os/exec"
	"path/filepath"
	"regexp"
	"strconv"
	"strings"
	"sync"
	"time"

	pkglint "github.com/rillig/pkglint/v23"
)

// C18: computePatchSha1Hex (through the shim) against the extracted model
// (Model/PatchSum.v hashed_bytes) and the extracted makepatchsum_filter
// (Spec/PatchSumSpec.v), SHA-1 by Go's crypto/sha1 on both sides;
// Autofix.Replace against autofix_replace; and the real pkglint binary on
// generated packages with patches and distinfo: default run, -F, default run.

var c18Tokens = []string{"$NetBSD", "$", "N", "x", "\n", "\r"}

func c18Sha1(b string) string {
	h := sha1.Sum([]byte(b))
	return hex.EncodeToString(h[:])
}

// c18ScratchDir: a directory for the many small files of the unit layers; on a
// memory file system when there is one (the files are rewritten ~10^5 times),
// else below ctx.Work. cleanup removes it.
func c18ScratchDir(ctx *Ctx, name string) (string, func()) {
	if d, err := os.MkdirTemp("/dev/shm", "verif-"+name+"-"); err == nil {
		return d, func() { os.RemoveAll(d) }
	}
	d := filepath.Join(ctx.Work, name)
	if err := os.MkdirAll(d, 0o755); err != nil {
		return "", func() {}
	}
	return d, func() { os.RemoveAll(d) }
}

// ---------- unit: digests ----------

// c18CheckDigests: for every body, sha1(model bytes) = sha1(spec bytes) = implementation.
func c18CheckDigests(ctx *Ctx, res *Result, bodies []string, kind string) {
	reqs := make([]string, len(bodies))
	impl := make([]string, len(bodies))
	panicked := make([]string, len(bodies))
	dir, cleanup := c18ScratchDir(ctx, "c18dig")
	defer cleanup()
	if dir == "" {
		res.Broken = "no scratch directory"
		return
	}
	path := filepath.Join(dir, "patch-aa")
	for i, b := range bodies { // sequential: the shim uses the global G
		reqs[i] = "dig " + hx(b)
		impl[i], panicked[i] = pkglint.VerifComputePatchSha1Hex(path, b) // through Load(file, 0), as checkPatchSha1 does
	}
	ans, err := runOracle(ctx, "c18", reqs)
	if err != nil {
		res.Broken = err.Error()
		return
	}
	for i, b := range bodies {
		rep := map[string]any{"kind": "digest", "body": hx(b)}
		if panicked[i] != "" {
			res.AddViolation(Violation{Key: "C18/digest/panic", What: fmt.Sprintf("computePatchSha1Hex on %q panics: %s", b, panicked[i]),
				FoundInput: true, Size: 1 + len(b), Replay: rep})
			continue
		}
		f := strings.Fields(ans[i])
		if len(f) != 2 {
			res.Broken = "oracle answer " + q(ans[i])
			return
		}
		model, spec := unhx(f[0]), unhx(f[1])
		want := c18Sha1(spec)
		rep["impl"], rep["makepatchsum"], rep["filtered"] = impl[i], want, hx(spec)
		if impl[i] != want {
			// the implementation's digest is not the one makepatchsum computes: the property itself fails
			res.AddViolation(Violation{Key: "C18/digest/differs-from-makepatchsum",
				What:       fmt.Sprintf("patch body %q: pkglint computes %s, makepatchsum (SHA1 of %q) gives %s", b, impl[i], spec, want),
				FoundInput: true, Size: 1 + len(b), Replay: rep})
		} else if c18Sha1(model) != impl[i] {
			rep["broken"] = "correspondence computePatchSha1Hex = Model.PatchSum.hashed_bytes; the digest still equals makepatchsum's"
			res.AddViolation(Violation{Key: "C18/correspondence/digest",
				What:       fmt.Sprintf("patch body %q: model hashes %q, implementation's digest is %s", b, model, impl[i]),
				FoundInput: false, Size: 1 + len(b), Replay: rep})
		}
		if strings.Contains(b, "$NetBSD") {
			res.Count("unit.bodies_with_tag", 1)
			if spec != "" {
				res.Count("unit.tag_and_kept_bytes", 1)
			}
		}
		if b != "" && !strings.HasSuffix(b, "\n") && strings.Contains(b[strings.LastIndex(b, "\n")+1:], "$NetBSD") {
			res.Count("unit.tag_in_unterminated_tail", 1)
		}
		if strings.Contains(b, "\r") && strings.Contains(b, "$NetBSD") {
			res.Count("unit.tag_with_cr", 1)
		}
		if b != "" && (b[0] >= 0x80 || b[0] < 0x20) && !strings.Contains(strings.SplitAfter(b, "\n")[0], "$NetBSD") {
			res.Count("unit.hostile_first_byte_hashed", 1)
		}
		if i == 777 || i == len(bodies)-5 {
			res.Sample(map[string]any{"kind": kind, "body": q(b), "filtered": q(spec), "sha1": impl[i]})
		}
	}
	res.Evaluations += len(bodies)
	res.TracesValidated += len(bodies)
	res.Count(kind+"_bodies", len(bodies))
}

// second unit alphabet: hostile bytes at position 0 and at line starts
var c18Tokens2 = []string{"\xef\xbb\xbf", "\xc3\xbc", "\x00", "\r", "\f", "x", "\n", "$NetBSD"}

func c18Exhaustive(maxTok int) []string { return c18ExhaustiveOver(c18Tokens, maxTok) }

func c18ExhaustiveOver(c18Tokens []string, maxTok int) []string {
	seen := map[string]bool{}
	var out []string
	cur := []string{""}
	for n := 0; ; n++ {
		for _, s := range cur {
			if !seen[s] {
				seen[s] = true
				out = append(out, s)
			}
		}
		if n == maxTok {
			return out
		}
		next := make([]string, 0, len(cur)*len(c18Tokens))
		for _, s := range cur {
			for _, t := range c18Tokens {
				next = append(next, s+t)
			}
		}
		cur = next
	}
}

var c18Hostile = []string{"\xef\xbb\xbf", "\xef\xbb\xbf\xef\xbb\xbf", "\xfe\xff", "\xff\xfe", "\xc3\xbc", "\xe2\x80\x8b", "\x00", "\r", "\f", "\v", "\x1b", "\xef\xbb", " ", "\t"}

// c18RandomBody: patch-like text with tags anywhere, CRLF, lone CR, empty lines,
// non-ASCII bytes, with and without final newline; or a raw token string.
func c18RandomBody(rng *Rng) string {
	var sb strings.Builder
	switch rng.Intn(4) {
	case 0:
		n := rng.Intn(40)
		toks := c18Tokens
		if rng.Chance(40) {
			toks = c18Tokens2
		}
		for i := 0; i < n; i++ {
			sb.WriteString(Pick(rng, toks))
		}
	default:
		lines := []string{"$NetBSD$", "", "Fix the build.", "", "--- src/file.c.orig\t2020-01-01 00:00:00.000000000 +0000", "+++ src/file.c", "@@ -1,3 +1,3 @@", " context", "-old line", "+new line", " more"}
		if rng.Chance(15) {
			lines = lines[1:]
		}
		if rng.Chance(15) {
			lines = append(lines[:1], lines[2:]...)
		}
		tags := []string{"$NetBSD$", " * $NetBSD: file.c,v 1.2 2020/01/01 00:00:00 x Exp $", "+/* $NetBSD */", "-$NetBSD: old $", "x$NetBSDx", "$NetBS", "NetBSD$", "$ NetBSD", "$netbsd$"}
		var out []string
		for _, l := range lines {
			if rng.Chance(12) {
				out = append(out, Pick(rng, tags))
			}
			if rng.Chance(6) {
				out = append(out, "")
			}
			if rng.Chance(8) {
				l += Pick(rng, tags)
			}
			if rng.Chance(5) {
				l = l + "\r" + Pick(rng, []string{"", "x", "$NetBSD$"})
			}
			if rng.Chance(5) {
				l += string([]byte{byte(128 + rng.Intn(128)), byte(rng.Intn(256))})
			}
			if rng.Chance(6) { // hostile bytes at the start of a line
				l = Pick(rng, c18Hostile) + l
			}
			out = append(out, l)
		}
		if rng.Chance(25) { // hostile bytes at position 0 of the file
			out[0] = Pick(rng, c18Hostile) + out[0]
		}
		eol := "\n"
		if rng.Chance(15) {
			eol = "\r\n"
		}
		for i, l := range out {
			sb.WriteString(l)
			if i < len(out)-1 || !rng.Chance(20) {
				if rng.Chance(5) {
					sb.WriteString("\r\n")
				} else {
					sb.WriteString(eol)
				}
			}
		}
	}
	return sb.String()
}

// c18NearMisses: strings that are almost the digest d (40 lower-case hex digits)
// but not equal to it; every one must be reported and fixed to exactly d.
// kind "blank" is not an entry at all for the distinfo grammar (see c18BlankKinds).
func c18NearMisses(d string) map[string]string {
	m := map[string]string{}
	if u := strings.ToUpper(d); u != d {
		m["upper"] = u
		mixed := []byte(d)
		flipped := false
		for i, c := range mixed {
			if c >= 'a' && c <= 'f' && (!flipped || i%3 == 0) {
				mixed[i] = c - 32
				flipped = true
			}
		}
		if string(mixed) != u {
			m["mixed"] = string(mixed)
		} else { // every letter got flipped: keep only the first one upper-case
			one := []byte(d)
			for i, c := range one {
				if c >= 'a' && c <= 'f' {
					one[i] = c - 32
					break
				}
			}
			m["mixed"] = string(one)
		}
	}
	for _, pos := range []int{0, 19, 39} {
		b := []byte(d)
		if b[pos] == 'f' {
			b[pos] = '0'
		} else if b[pos] == '9' {
			b[pos] = 'a'
		} else {
			b[pos]++
		}
		m[fmt.Sprintf("digit%d", pos)] = string(b)
	}
	m["truncated"] = d[:39]
	m["truncated-front"] = d[1:]
	m["extended"] = d + "0"
	m["extended-front"] = "0" + d
	m["zero"] = strings.Repeat("0", 40)
	return m
}

var c18NearKinds = []string{"upper", "mixed", "digit0", "digit19", "digit39", "truncated", "truncated-front", "extended", "extended-front", "zero"}

// ---------- unit: the distinfo checker on one entry ----------

type c18Entry struct {
	body string
	kind string // correct | one of c18NearKinds | blank-after | blank-before
	cvs  c18Cvs // the CVS state of the package directory and of patches/
}

// c18CheckEntries drives CheckLinesDistinfo (shim) on a package with one patch and
// one SHA1 entry, in default and in --autofix mode, against the reference digest
// (Go SHA-1 of the extracted makepatchsum_filter of the raw file bytes) and the
// extracted check_entry_cvs (the CVS gate in front of check_patch_sha1), in the
// CVS working-copy state e.cvs: the verdict about the hash must be the same in
// every state, the warning "registered in distinfo but not added to CVS" must
// appear exactly when distinfo is committed and the patch is not.
func c18CheckEntries(ctx *Ctx, res *Result, entries []c18Entry) {
	root, cleanup := c18ScratchDir(ctx, "c18unit")
	defer cleanup()
	pkgDir := filepath.Join(root, "cat", "pkg")
	if err := os.MkdirAll(filepath.Join(pkgDir, "patches"), 0o755); err != nil {
		res.Broken = err.Error()
		return
	}
	patchPath := filepath.Join(pkgDir, "patches", "patch-aa")
	reqs := make([]string, len(entries))
	for i, e := range entries {
		reqs[i] = "dig " + hx(e.body)
	}
	ans, err := runOracle(ctx, "c18", reqs)
	if err != nil {
		res.Broken = err.Error()
		return
	}
	const head = "$NetBSD$\n\n"
	var chkReqs []string
	var chkWant [][]string
	var chkRep []map[string]any
	for i, e := range entries {
		f := strings.Fields(ans[i])
		if len(f) != 2 {
			res.Broken = "oracle answer " + q(ans[i])
			return
		}
		ref := c18Sha1(unhx(f[1]))
		hash, sep1, sep2 := ref, "", ""
		switch e.kind {
		case "correct":
		case "blank-after":
			sep2 = " "
		case "blank-before":
			sep1 = " "
		default:
			h, ok := c18NearMisses(ref)[e.kind]
			if !ok {
				continue // e.g. a digest without letters has no case variant
			}
			hash = h
		}
		line := "SHA1 (patch-aa) = " + sep1 + hash + sep2 + "\n"
		distinfo := head + line
		rep := map[string]any{"kind": "entry", "body": hx(e.body), "entry": e.kind, "distinfo": hx(distinfo), "makepatchsum": ref}
		e.cvs.replay(rep)
		size := 1 + len(e.body)
		if !e.cvs.isNone() {
			size += 5 // a replay without CVS files is preferred
		}
		if err := e.cvs.write(pkgDir); err != nil {
			res.Broken = err.Error()
			return
		}
		if err := os.WriteFile(patchPath, []byte(e.body), 0o644); err != nil {
			res.Broken = err.Error()
			return
		}
		out1, after1, p1 := pkglint.VerifCheckDistinfo(root, pkgDir, distinfo, false)
		out2, after2, p2 := pkglint.VerifCheckDistinfo(root, pkgDir, distinfo, true)
		if p1 != "" || p2 != "" {
			rep["impl"] = p1 + p2
			res.AddViolation(Violation{Key: "C18/entry/panic", What: fmt.Sprintf("CheckLinesDistinfo panics on entry %q for patch %q: %s%s", line, e.body, p1, p2),
				FoundInput: true, Size: size, Replay: rep})
			continue
		}
		rep["output"], rep["output_autofix"], rep["after_autofix"] = q(out1), q(out2), q(after2)
		sev := c18DiagsBySeverity(out1)[3]
		reported := sev.hashReported()
		warned := sev.cvsWarned()
		wantWarn := e.cvs.wantWarn(0) && !strings.HasPrefix(e.kind, "blank") // a line that is no entry never reaches the gate
		res.Count("entry."+e.kind, 1)
		res.Count("cvs.class."+e.cvs.class(0), 1)
		if !strings.HasPrefix(e.kind, "blank") {
			res.Count(fmt.Sprintf("cvs.warn_expected=%v.hash_right=%v", wantWarn, e.kind == "correct"), 1)
			if warned && reported {
				res.Count("cvs.warning_and_hash_error_on_one_line", 1)
			}
			if warned != wantWarn {
				key := "C18/cvs/uncommitted-warning-missing"
				if warned {
					key = "C18/cvs/uncommitted-warning-spurious"
				}
				res.AddViolation(Violation{Key: key,
					What: fmt.Sprintf("CVS state %s (package CVS/Entries %s, Entries.Log %s; patches/CVS/Entries %s, Entries.Log %s): distinfo committed=%v, patch-aa committed=%v, so the warning 'registered in distinfo but not added to CVS' is %s; pkglint prints: %s",
						e.cvs.class(0), c18Show(e.cvs.pkgE), c18Show(e.cvs.pkgL), c18Show(e.cvs.patE), c18Show(e.cvs.patL),
						c18DistinfoCommitted(e.cvs.pkgClass), c18PatchCommitted(e.cvs.patDir, e.cvs.statusOf(0)),
						map[bool]string{true: "due", false: "not due"}[wantWarn], q(c18GrepAll(out1, "distinfo:3:"))),
					FoundInput: true, Size: size, Replay: rep})
			}
		}
		res.Evaluations += 2
		res.TracesValidated += 2
		if after1 != distinfo {
			res.AddViolation(Violation{Key: "C18/entry/default-mode-wrote-file", What: fmt.Sprintf("default mode changed distinfo %q -> %q", distinfo, after1), FoundInput: true, Size: size, Replay: rep})
			continue
		}
		switch {
		case e.kind == "correct":
			if reported {
				res.AddViolation(Violation{Key: "C18/accept/correct-hash-reported",
					What:       fmt.Sprintf("patch %q: the entry %q holds the makepatchsum digest but is reported: %s", e.body, line, c18Grep(out1, "distinfo:3:")),
					FoundInput: true, Size: size, Replay: rep})
			} else if after2 != distinfo {
				res.AddViolation(Violation{Key: "C18/fix/correct-entry-rewritten",
					What:       fmt.Sprintf("patch %q: -F rewrote the correct entry %q: %q", e.body, line, after2),
					FoundInput: true, Size: size, Replay: rep})
			}
		case strings.HasPrefix(e.kind, "blank"):
			// not an entry for the distinfo grammar: it must not be accepted silently;
			// -F may leave the line alone but must not write a wrong digest
			if !reported {
				res.AddViolation(Violation{Key: "C18/accept/wrong-hash-silent",
					What:       fmt.Sprintf("patch %q: the line %q (blank next to the hash) is accepted silently", e.body, line),
					FoundInput: true, Size: size, Replay: rep})
			} else if after2 != distinfo && after2 != head+"SHA1 (patch-aa) = "+ref+"\n" {
				res.AddViolation(Violation{Key: "C18/fix/wrote-other-digest",
					What:       fmt.Sprintf("patch %q: -F turned %q into %q", e.body, distinfo, after2),
					FoundInput: true, Size: size, Replay: rep})
			}
		default:
			want := head + "SHA1 (patch-aa) = " + ref + "\n"
			if !reported {
				res.AddViolation(Violation{Key: "C18/accept/wrong-hash-silent",
					What:       fmt.Sprintf("patch %q, CVS state %s: distinfo records %s (%s variant of the makepatchsum digest %s), pkglint does not report the hash: %s", e.body, e.cvs.class(0), hash, e.kind, ref, q(c18GrepAll(out1, "distinfo:3:"))),
					FoundInput: true, Size: size, Replay: rep})
			} else if after2 != want {
				key := "C18/fix/wrote-other-digest"
				if after2 == distinfo {
					key = "C18/fix/not-fixed"
				}
				res.AddViolation(Violation{Key: key,
					What:       fmt.Sprintf("patch %q, entry %q (%s): after -F distinfo is %q, expected %q", e.body, line, e.kind, after2, want),
					FoundInput: true, Size: size, Replay: rep})
			}
		}
		if !strings.HasPrefix(e.kind, "blank") {
			// the model's gate for the same patch, hash and CVS state
			chkReqs = append(chkReqs, e.cvs.request("patch-aa", "SHA1", e.body, hash, ref))
			chkWant = append(chkWant, []string{fmt.Sprint(reported), e.body, hash, fmt.Sprint(warned), e.cvs.class(0)})
			chkRep = append(chkRep, rep)
		}
	}
	if len(chkReqs) > 0 {
		cans, err := runOracle(ctx, "c18", chkReqs)
		if err != nil {
			res.Broken = err.Error()
			return
		}
		for i, a := range cans {
			parts := chkWant[i]
			f := strings.Fields(a)
			if len(f) < 2 || (f[0] != "0" && f[0] != "1") || (f[1] != "silent" && f[1] != "differs") {
				res.Broken = "oracle answer " + q(a) + " to " + q(chkReqs[i])
				return
			}
			modelReports := f[1] == "differs"
			if (parts[0] == "true") != modelReports {
				r := map[string]any{}
				for k, v := range chkRep[i] {
					r[k] = v
				}
				r["broken"] = "correspondence checkUncommittedPatch/checkPatchSha1 = Model.PatchSum.check_entry_cvs (verdict)"
				res.AddViolation(Violation{Key: "C18/correspondence/check",
					What:       fmt.Sprintf("patch %q hash %s, CVS state %s: implementation reported=%s, model %s", parts[1], parts[2], parts[4], parts[0], a),
					FoundInput: false, Size: 1 + len(parts[1]), Replay: r})
			}
			if (parts[3] == "true") != (f[0] == "1") {
				r := map[string]any{}
				for k, v := range chkRep[i] {
					r[k] = v
				}
				r["broken"] = "correspondence checkUncommittedPatch = Model.PatchSum.check_entry_cvs (warning)"
				res.AddViolation(Violation{Key: "C18/correspondence/gate",
					What:       fmt.Sprintf("patch %q hash %s, CVS state %s: implementation warned=%s, model %s", parts[1], parts[2], parts[4], parts[3], a),
					FoundInput: false, Size: 1 + len(parts[1]), Replay: r})
			}
		}
	}
}

// ---------- unit: Autofix.Replace ----------

type c18Repl struct{ text, from, to, prefix string }

func c18CheckReplace(ctx *Ctx, res *Result, cases []c18Repl) {
	dir := filepath.Join(ctx.Work, "c18repl")
	if err := os.MkdirAll(dir, 0o755); err != nil {
		res.Broken = err.Error()
		return
	}
	path := filepath.Join(dir, "distinfo")
	var reqs []string
	var kept []c18Repl
	var impl []string
	for _, c := range cases {
		op := pkglint.VerifFixOp{Line: 0, Kind: "replace", From: c.from, To: c.to}
		if c.prefix != "" {
			op = pkglint.VerifFixOp{Line: 0, Kind: "replaceafter", From: c.from, To: c.to, Prefix: c.prefix}
		}
		_, fixes, _, _, panicked := pkglint.VerifSaveScript(path, c.text, false, []pkglint.VerifFixOp{op})
		if panicked != "" || len(fixes) == 0 || !fixes[0].HasFix {
			res.AddViolation(Violation{Key: "C18/replace/panic", What: fmt.Sprintf("Replace(%q,%q) on %q: %s", c.from, c.to, c.text, panicked), FoundInput: false,
				Replay: map[string]any{"kind": "replace", "text": hx(c.text), "from": hx(c.from), "to": hx(c.to), "broken": "Autofix.Replace could not be driven"}})
			continue
		}
		raws := strings.SplitAfter(c.text, "\n")
		// ReplaceAfter(prefix, from, to) = the same rule on prefix+from / prefix+to (Model: autofix_replace_after)
		reqs = append(reqs, "repl "+hx(c.prefix+c.from)+" "+hx(c.prefix+c.to)+" "+hx(raws[0]))
		kept = append(kept, c)
		impl = append(impl, strings.Join(fixes[0].Texts, ""))
	}
	ans, err := runOracle(ctx, "c18", reqs)
	if err != nil {
		res.Broken = err.Error()
		return
	}
	for i, c := range kept {
		raw0 := strings.SplitAfter(c.text, "\n")[0]
		model := unhx(ans[i])
		if model != raw0 {
			res.Count("replace.fired", 1)
		} else {
			res.Count("replace.refused", 1)
		}
		if model != impl[i] {
			res.AddViolation(Violation{Key: "C18/correspondence/replace",
				What:       fmt.Sprintf("ReplaceAfter(%q,%q,%q) on %q: implementation %q, model %q", c.prefix, c.from, c.to, raw0, impl[i], model),
				FoundInput: false, Size: len(c.text) + len(c.from) + len(c.to),
				Replay: map[string]any{"kind": "replace", "text": hx(c.text), "from": hx(c.from), "to": hx(c.to), "broken": "correspondence Autofix.Replace = Model.PatchSum.autofix_replace"}})
		}
	}
	res.Evaluations += len(kept)
	res.TracesValidated += len(kept)
}

func c18ReplaceCases(rng *Rng, n int) []c18Repl {
	var out []c18Repl
	hexs := []string{"0", "00", "a", "ab", "aba", "abab", "0a0", "da39a3ee", "1"}
	for i := 0; i < n; i++ {
		from := Pick(rng, hexs)
		name := "patch-" + Pick(rng, []string{"aa", "ab", from, from + from, "a" + from, "0"})
		hash := from
		if rng.Chance(25) {
			hash = Pick(rng, hexs)
		}
		if rng.Chance(10) {
			hash = from + from
		}
		prefix := ""
		if rng.Chance(50) {
			prefix = ") = " // the call checkPatchSha1 makes
		}
		out = append(out, c18Repl{"SHA1 (" + name + ") = " + hash + "\n", from, Pick(rng, []string{"ffff", from, "", "0" + from}), prefix})
	}
	return out
}

// ---------- whole-run layer ----------

// c18WriteTree writes the minimal pkgsrc tree of DESIGN.md Appendix A, on which
// the real binary prints "Looks fine.", below root. Self-contained on purpose.
func c18WriteTree(root string) error {
	files := map[string]string{
		"mk/tools/bsd.tools.mk":           ".include \"defaults.mk\"\n",
		"mk/misc/category.mk":             "",
		"mk/defaults/options.description": "example-option   Description\n",
		"mk/compiler.mk":                  "_CXX_STD_VERSIONS=\tc++ c++14\n.if ${USE_LANGUAGES:Mada} || ${USE_LANGUAGES:Mc} || ${USE_LANGUAGES:Mc99}\n.endif\n_COMPILERS=\tgcc clang\n_PSEUDO_COMPILERS=\tccache\n",
		"mk/compiler/gcc.mk":              "# $NetBSD$\n.if ${_PKGSRC_USE_FORTIFY:Mweak}\n.endif\n",
		"mk/java-vm.mk":                   "# $NetBSD$\n_PKG_JVMS.8=\topenjdk8 oracle-jdk8\n",
		"mk/mysql.buildlink3.mk":          "MYSQL_VERSIONS_ACCEPTED=\t57 56\n",
		"mk/pgsql.buildlink3.mk":          "PGSQL_VERSIONS_ACCEPTED=\t10 96\nPGSQL_TYPE?=\tpostgresql11-client\n",
		"editors/emacs/modules.mk":        "_EMACS_VERSIONS_ALL=\temacs25 emacs21\n",
		"doc/CHANGES-2018":                "$NetBSD$\n",
		"doc/TODO":                        "$NetBSD$\n",
		"licenses/2-clause-bsd":           "text\n",
		"licenses/gnu-gpl-v2":             "text\n",
		"cat/Makefile":                    "# $NetBSD$\n\nCOMMENT=\tComment for the category\n\nSUBDIR+=\tpkg\n\n.include \"../mk/misc/category.mk\"\n",
		"cat/pkg/Makefile":                "# $NetBSD$\n\nDISTNAME=\tpkg-1.0\nCATEGORIES=\tcat\nMASTER_SITES=\t# none\n\nMAINTAINER=\tpkgsrc-users@NetBSD.org\nHOMEPAGE=\t# none\nCOMMENT=\tDummy package\nLICENSE=\t2-clause-bsd\n\n.include \"../../mk/bsd.pkg.mk\"\n",
		"cat/pkg/DESCR":                   "Package description\n",
		"cat/pkg/PLIST":                   "@comment $NetBSD$\nbin/program\n",
		"cat/pkg/distinfo":                c18DistinfoHead,
	}
	for _, f := range []string{"mk/bsd.pkg.mk", "mk/bsd.prefs.mk", "mk/bsd.fast.prefs.mk", "mk/fetch/sites.mk", "mk/fetch/fetch.mk",
		"mk/defaults/mk.conf", "mk/tools/defaults.mk", "mk/platform/NetBSD.mk", "mk/platform/Linux.mk",
		"lang/lua54/Makefile", "lang/nodejs20/Makefile", "lang/php82/Makefile", "lang/python312/Makefile", "lang/ruby32/Makefile",
		"emulators/suse131_base/Makefile"} {
		files[f] = "# $NetBSD$\n"
	}
	for name, content := range files {
		p := filepath.Join(root, name)
		if err := os.MkdirAll(filepath.Dir(p), 0o755); err != nil {
			return err
		}
		if err := os.WriteFile(p, []byte(content), 0o644); err != nil {
			return err
		}
	}
	return nil
}

const c18DistinfoHead = "$NetBSD$\n\nBLAKE2s (distfile-1.0.tar.gz) = 12341234\nSHA512 (distfile-1.0.tar.gz) = 12341234\nSize (distfile-1.0.tar.gz) = 12341234\n"

type c18Patch struct {
	name string
	body string
	hash string // what distinfo records
	kind string // correct | stale | wrong
}

type c18Scenario struct {
	patches []c18Patch
	kind    string
	cvs     c18Cvs
}

func (sc c18Scenario) distinfo() string {
	var sb strings.Builder
	sb.WriteString(c18DistinfoHead)
	for _, p := range sc.patches {
		fmt.Fprintf(&sb, "SHA1 (%s) = %s\n", p.name, p.hash)
	}
	return sb.String()
}

func (sc c18Scenario) replay() map[string]any {
	var ps []any
	for _, p := range sc.patches {
		ps = append(ps, map[string]any{"name": p.name, "body": hx(p.body), "hash": p.hash, "kind": p.kind})
	}
	rep := map[string]any{"kind": "package", "scenario": sc.kind, "patches": ps}
	sc.cvs.replay(rep)
	return rep
}

func c18RunPkglint(ctx *Ctx, root string, args ...string) (out string, exit int, err error) {
	cctx, cancel := context.WithTimeout(context.Background(), 20*time.Second)
	defer cancel()
	cmd := exec.CommandContext(cctx, ctx.Pkglint, args...)
	cmd.Dir = root
	b, e := cmd.CombinedOutput()
	if cctx.Err() != nil {
		return string(b), -1, fmt.Errorf("timeout")
	}
	if e != nil {
		if ee, ok := e.(*exec.ExitError); ok {
			return string(b), ee.ExitCode(), nil
		}
		return string(b), -1, e
	}
	return string(b), 0, nil
}

// c18RunScenario: default run, -F, default run on one package; the reference
// digests come from refDigest (SHA-1 of the extracted makepatchsum_filter).
func c18RunScenario(ctx *Ctx, res *Result, root string, sc c18Scenario, refDigest func(string) (string, error)) {
	pdir := filepath.Join(root, "cat/pkg/patches")
	os.RemoveAll(pdir)
	if err := os.MkdirAll(pdir, 0o755); err != nil {
		res.Broken = err.Error()
		return
	}
	for _, p := range sc.patches {
		if err := os.WriteFile(filepath.Join(pdir, p.name), []byte(p.body), 0o644); err != nil {
			res.Broken = err.Error()
			return
		}
	}
	if err := sc.cvs.write(filepath.Join(root, "cat/pkg")); err != nil {
		res.Broken = err.Error()
		return
	}
	distinfoPath := filepath.Join(root, "cat/pkg/distinfo")
	before := sc.distinfo()
	if err := os.WriteFile(distinfoPath, []byte(before), 0o644); err != nil {
		res.Broken = err.Error()
		return
	}
	size := 0
	for _, p := range sc.patches {
		size += 20 + len(p.body)
	}
	if !sc.cvs.isNone() {
		size += 5
	}
	viol := func(key, what string, extra map[string]any) {
		rep := sc.replay()
		for k, v := range extra {
			rep[k] = v
		}
		res.AddViolation(Violation{Key: key, What: what, FoundInput: true, Size: size, Replay: rep})
	}
	firstEntry := strings.Count(c18DistinfoHead, "\n") + 1

	// run 1: default mode
	out1, exit1, err := c18RunPkglint(ctx, root, "cat/pkg")
	if err != nil || exit1 > 1 || exit1 < 0 {
		res.Count("w.run_failed", 1)
		res.Sample(map[string]any{"run_failed": q(out1), "scenario": sc.replay()})
		return
	}
	sev1 := c18DiagsBySeverity(out1)
	for i, p := range sc.patches {
		ref, err := refDigest(p.body)
		if err != nil {
			res.Broken = err.Error()
			return
		}
		line := firstEntry + i
		reported, warned := sev1[line].hashReported(), sev1[line].cvsWarned()
		if !strings.HasPrefix(p.kind, "blank") { // a line that is no entry never reaches the gate
			wantWarn := sc.cvs.wantWarn(i)
			res.Count("w.cvs.class."+sc.cvs.class(i), 1)
			res.Count(fmt.Sprintf("w.cvs.warn_expected=%v.hash_right=%v", wantWarn, p.hash == ref), 1)
			if warned && reported {
				res.Count("w.cvs.warning_and_hash_error_on_one_line", 1)
			}
			if warned != wantWarn {
				key := "C18/cvs/uncommitted-warning-missing"
				if warned {
					key = "C18/cvs/uncommitted-warning-spurious"
				}
				viol(key, fmt.Sprintf("%s, CVS state %s: the warning 'registered in distinfo but not added to CVS' is %s at distinfo:%d; pkglint prints: %s",
					p.name, sc.cvs.class(i), map[bool]string{true: "due", false: "not due"}[wantWarn], line, q(c18GrepAll(out1, fmt.Sprintf("distinfo:%d:", line)))),
					map[string]any{"output": q(out1)})
			}
		}
		switch {
		case p.hash == ref && reported:
			viol("C18/accept/correct-hash-reported",
				fmt.Sprintf("%s has the makepatchsum digest %s in distinfo:%d but pkglint reports: %s", p.name, ref, line, c18Grep(out1, fmt.Sprintf("distinfo:%d:", line))),
				map[string]any{"output": q(out1)})
		case p.hash != ref && !reported:
			viol("C18/accept/wrong-hash-silent",
				fmt.Sprintf("%s (CVS state %s): distinfo:%d records %s, makepatchsum gives %s, pkglint does not report the hash", p.name, sc.cvs.class(i), line, p.hash, ref),
				map[string]any{"output": q(out1)})
		}
		if strings.HasPrefix(p.kind, "near:") {
			res.Count("w.entries_near", 1)
		}
		res.Count("w.entries_"+p.kind, 1)
	}
	res.TracesValidated++

	// run 2: --autofix
	out2, exit2, err := c18RunPkglint(ctx, root, "-F", "cat/pkg")
	if err != nil || exit2 > 1 || exit2 < 0 {
		res.Count("w.run_failed", 1)
		res.Sample(map[string]any{"run_failed": q(out2), "scenario": sc.replay()})
		return
	}
	afterBytes, _ := os.ReadFile(distinfoPath)
	after := string(afterBytes)
	alines := strings.SplitAfter(after, "\n")
	blines := strings.SplitAfter(before, "\n")
	if len(alines) != len(blines) {
		viol("C18/fix/distinfo-line-count-changed", fmt.Sprintf("-F changed the number of lines of distinfo: %q -> %q", before, after), map[string]any{"output": q(out2)})
		return
	}
	for i := 0; i < firstEntry-1; i++ {
		if alines[i] != blines[i] {
			viol("C18/fix/other-line-changed", fmt.Sprintf("-F changed distinfo line %d: %q -> %q", i+1, blines[i], alines[i]), map[string]any{"output": q(out2)})
		}
	}
	// digests (reference) of every patch before and after -F
	beforeD := make([]string, len(sc.patches))
	afterD := make([]string, len(sc.patches))
	changed := make([]bool, len(sc.patches))
	for i, p := range sc.patches {
		cur, err := os.ReadFile(filepath.Join(pdir, p.name))
		if err != nil {
			res.Broken = err.Error()
			return
		}
		changed[i] = string(cur) != p.body
		var e1, e2 error
		beforeD[i], e1 = refDigest(p.body)
		afterD[i], e2 = refDigest(string(cur))
		if e1 != nil || e2 != nil {
			res.Broken = fmt.Sprint(e1, e2)
			return
		}
	}
	fixedOK := make([]bool, len(sc.patches))
	for i, p := range sc.patches {
		cur, err := os.ReadFile(filepath.Join(pdir, p.name))
		if err != nil {
			res.Broken = err.Error()
			return
		}
		if string(cur) != p.body {
			res.Count("w.patch_file_rewritten_by_F", 1)
		}
		ref, err := refDigest(string(cur))
		if err != nil {
			res.Broken = err.Error()
			return
		}
		want := fmt.Sprintf("SHA1 (%s) = %s\n", p.name, ref)
		got := alines[firstEntry-1+i]
		if strings.HasPrefix(p.kind, "blank") && (got == blines[firstEntry-1+i] ||
			got == strings.Replace(blines[firstEntry-1+i], strings.TrimSpace(p.hash), ref, 1)) {
			// a blank next to the hash: not an entry for the distinfo grammar ("Invalid line"),
			// reported in run 1 (checked above); -F may leave it alone (AutofixDistinfo may still
			// update the digest inside it when the patch file itself was rewritten)
			continue
		}
		if got != want {
			key := "C18/fix/wrote-other-digest"
			if got == blines[firstEntry-1+i] {
				key = "C18/fix/not-fixed"
				if strings.Count(got, p.hash) > 1 {
					key = "C18/fix/refused/stale-hash-occurs-twice-in-line"
				}
			} else {
				if p.kind == "correct" && !changed[i] {
					key = "C18/fix/correct-entry-rewritten"
				}
				// the signature of Package.AutofixDistinfo(before_j, after_j) hitting the line of patch i:
				// the entry should hold the digest patch j had before -F rewrote it, and holds j's new digest
				for j, pj := range sc.patches {
					if j != i && changed[j] && beforeD[j] == ref && got == fmt.Sprintf("SHA1 (%s) = %s\n", p.name, afterD[j]) {
						_ = pj
						key = "C18/fix/entry-follows-other-patch-with-same-digest"
					}
				}
			}
			viol(key, fmt.Sprintf("after -F distinfo has %q, expected %q (makepatchsum digest of %s as it is on disk now)", got, want, p.name),
				map[string]any{"output": q(out2), "distinfo_after": q(after)})
		} else {
			fixedOK[i] = true
			if p.kind != "correct" {
				res.Count("w.entries_fixed", 1)
			}
		}
	}
	res.TracesValidated++

	// run 3: default mode again; the entries must be accepted
	out3, exit3, err := c18RunPkglint(ctx, root, "cat/pkg")
	if err != nil || exit3 > 1 || exit3 < 0 {
		res.Count("w.run_failed", 1)
		return
	}
	sev3 := c18DiagsBySeverity(out3)
	for i, p := range sc.patches {
		line := firstEntry + i
		if sev3[line].hashReported() && fixedOK[i] { // an entry that -F left wrong was reported above, with its cause
			viol("C18/fix/not-accepted-after-fix",
				fmt.Sprintf("after -F pkglint still reports %s at distinfo:%d: %s", p.name, line, c18Grep(out3, fmt.Sprintf("distinfo:%d:", line))),
				map[string]any{"output": q(out3), "distinfo_after": q(after)})
		}
	}
	res.TracesValidated++
	res.Evaluations += 3
	res.Count("w.packages", 1)
	res.Count("w.scenario_"+sc.kind, 1)
}

func c18Grep(out, needle string) string {
	for _, l := range strings.Split(out, "\n") {
		if strings.Contains(l, needle) {
			return l
		}
	}
	return ""
}

func c18GrepAll(out, needle string) string {
	var ls []string
	for _, l := range strings.Split(out, "\n") {
		if strings.Contains(l, needle) {
			ls = append(ls, l)
		}
	}
	return strings.Join(ls, "\n")
}

// c18RandomScenario: scenario number i; patches and entries are random, the CVS
// working-copy state rotates systematically through the classes.
func c18RandomScenario(rng *Rng, i int) c18Scenario {
	sc := c18Scenario{kind: "random"}
	n := 1 + rng.Intn(4)
	names := []string{"patch-aa", "patch-ab", "patch-src_file.c", "patch-configure"}
	for k := 0; k < n; k++ {
		p := c18Patch{name: names[k], body: c18RandomBody(rng)}
		switch x := rng.Intn(100); {
		case x < 30:
			p.kind = "correct" // filled in below, needs the oracle
		case x < 48:
			p.kind = "stale"
		case x < 60:
			p.kind = "wrong"
			p.hash = c18Sha1(fmt.Sprintf("wrong%d", rng.Next()))
			if rng.Chance(10) {
				p.hash = strings.ToUpper(p.hash)
			}
		case x < 95:
			p.kind = "near:" + Pick(rng, c18NearKinds) // a near miss of the correct digest
		default:
			p.kind = Pick(rng, []string{"blank-after", "blank-before"})
		}
		sc.patches = append(sc.patches, p)
	}
	// the CVS working-copy state
	pkgClass := []string{"none", "none", "lists-distinfo", "lists-distinfo", "lists-distinfo", "lists-distinfo",
		"lists-other", "log-adds-distinfo", "log-removes-distinfo", "log-only"}[i%10]
	patDir := []string{"entries", "entries", "entries", "entries", "none", "log-only"}[(i/10)%6]
	if pkgClass == "none" && (i/10)%3 != 0 {
		patDir = "none" // no CVS directories at all
	}
	var pnames, status []string
	for j, p := range sc.patches {
		pnames = append(pnames, p.name)
		status = append(status, c18PatStatuses[(i/10+j)%len(c18PatStatuses)])
	}
	sc.cvs = c18BuildCvs(pkgClass, patDir, pnames, status)
	return sc
}

const c18ValidPatch = "$NetBSD$\n\nDoc\n\n--- a.orig\n+++ a\n@@ -1 +1 @@\n-a\n+b\n"

// directed scenarios for the corners named in the design
func c18DirectedScenarios() []c18Scenario {
	crHeader := strings.Replace(c18ValidPatch, "@@ -1 +1 @@\n", "@@ -1 +1 @@\r\n", 1)
	twin := strings.Replace(crHeader, "--- a.orig\n", "--- a.orig\n$NetBSD: x $\n", 1)
	return []c18Scenario{ // (the zero c18Cvs writes no CVS directories)
		{kind: "hash-in-file-name", patches: []c18Patch{{name: "patch-0000", body: c18ValidPatch, hash: "0000", kind: "wrong"}}},
		{kind: "twin-filtered-content", patches: []c18Patch{
			{name: "patch-aa", body: crHeader, kind: "correct"},
			{name: "patch-ab", body: twin, kind: "correct"}}},
		{kind: "all-lines-tagged", patches: []c18Patch{{name: "patch-aa", body: "$NetBSD$\nx$NetBSD: y $", kind: "stale"}}},
		{kind: "empty-patch", patches: []c18Patch{{name: "patch-aa", body: "", kind: "wrong", hash: "00"}}},
		// distinfo is in CVS, the patches are new: one entry right, one stale, one wrong
		{kind: "new-patches-in-cvs-package", patches: []c18Patch{
			{name: "patch-aa", body: c18ValidPatch, kind: "correct"},
			{name: "patch-ab", body: c18ValidPatch + " context\n", kind: "stale"},
			{name: "patch-ac", body: crHeader, kind: "wrong", hash: "0123456789abcdef0123456789abcdef01234567"}},
			cvs: c18BuildCvs("lists-distinfo", "none", []string{"patch-aa", "patch-ab", "patch-ac"}, []string{"unlisted", "unlisted", "unlisted"})},
		{kind: "patches-added-and-removed-in-entries-log", patches: []c18Patch{
			{name: "patch-aa", body: c18ValidPatch, kind: "stale"},
			{name: "patch-ab", body: c18ValidPatch + " context\n", kind: "stale"},
			{name: "patch-ac", body: crHeader, kind: "correct"}},
			cvs: c18BuildCvs("log-adds-distinfo", "entries", []string{"patch-aa", "patch-ab", "patch-ac"}, []string{"log-added", "log-removed", "log-add-remove"})},
	}
}

func c18WholeRuns(ctx *Ctx, res *Result, scs []c18Scenario) {
	// reference digests: SHA-1 (Go) of the extracted makepatchsum_filter
	var mu sync.Mutex
	cache := map[string]string{}
	refDigest := func(body string) (string, error) {
		mu.Lock()
		d, ok := cache[body]
		mu.Unlock()
		if ok {
			return d, nil
		}
		ans, err := runOracle(ctx, "c18", []string{"dig " + hx(body)})
		if err != nil {
			return "", err
		}
		f := strings.Fields(ans[0])
		if len(f) != 2 {
			return "", fmt.Errorf("oracle answer %q", ans[0])
		}
		d = c18Sha1(unhx(f[1]))
		mu.Lock()
		cache[body] = d
		mu.Unlock()
		return d, nil
	}
	// fill in correct / stale hashes
	for si := range scs {
		for pi := range scs[si].patches {
			p := &scs[si].patches[pi]
			switch {
			case p.hash != "":
			case p.kind == "correct" || strings.HasPrefix(p.kind, "near:") || strings.HasPrefix(p.kind, "blank"):
				d, err := refDigest(p.body)
				if err != nil {
					res.Broken = err.Error()
					return
				}
				p.hash = d
				if strings.HasPrefix(p.kind, "near:") {
					if h, ok := c18NearMisses(d)[p.kind[5:]]; ok {
						p.hash = h
					} else {
						p.kind = "correct"
					}
				} else if p.kind == "blank-after" {
					p.hash = d + " "
				} else if p.kind == "blank-before" {
					p.hash = " " + d
				}
			default: // stale: the digest of the body before an edit
				d, err := refDigest(p.body + "+one more line\n")
				if err != nil {
					res.Broken = err.Error()
					return
				}
				p.hash = d
			}
		}
	}
	const workers = 8
	roots := make([]string, workers)
	for w := range roots {
		roots[w] = filepath.Join(ctx.Work, fmt.Sprintf("c18tree%d", w))
		if err := c18WriteTree(roots[w]); err != nil {
			res.Broken = err.Error()
			return
		}
	}
	// the fixture itself must be fine, else nothing below means anything
	out, exit, err := c18RunPkglint(ctx, roots[0], "cat/pkg")
	if err != nil || exit != 0 || !strings.Contains(out, "Looks fine.") {
		res.AddViolation(Violation{Key: "C18/fixture", What: "the base fixture no longer passes pkglint: " + out, FoundInput: false,
			Replay: map[string]any{"broken": "whole-run fixture (DESIGN.md Appendix A)", "output": q(out)}})
		return
	}
	var wg sync.WaitGroup
	for w := 0; w < workers; w++ {
		wg.Add(1)
		go func(w int) {
			defer wg.Done()
			for i := w; i < len(scs); i += workers {
				c18RunScenario(ctx, res, roots[w], scs[i], refDigest)
			}
		}(w)
	}
	wg.Wait()
}

// ---------- CVS working-copy state ----------

// c18Cvs: the CVS administrative files of the package directory (CVS/Entries,
// CVS/Entries.Log) and of patches/ (the same two); nil = the file does not exist.
type c18Cvs struct {
	pkgClass               string // none | lists-distinfo | lists-other | log-adds-distinfo | log-removes-distinfo | log-only
	patDir                 string // none | entries | log-only
	status                 []string
	pkgE, pkgL, patE, patL *string
}

var c18PkgClasses = []string{"none", "lists-distinfo", "lists-other", "log-adds-distinfo", "log-removes-distinfo", "log-only"}
var c18PatDirs = []string{"none", "entries", "log-only"}
var c18PatStatuses = []string{"listed", "unlisted", "log-added", "log-removed", "log-add-remove", "relisted", "invalid-line", "dir-entry"}

func c18CvsLine(name string) string { return "/" + name + "/1.1/Thu Jan  1 00:00:00 1970//\n" }

func c18Ptr(s string) *string { return &s }

func c18Opt(p *string) string {
	if p == nil {
		return "N"
	}
	return hx(*p)
}

func c18OptFromReplay(v any) *string {
	s, ok := v.(string)
	if !ok || s == "N" || s == "" {
		return nil
	}
	return c18Ptr(unhx(s))
}

// by construction of the files below (not by the model)
func c18DistinfoCommitted(pkgClass string) bool {
	return pkgClass == "lists-distinfo" || pkgClass == "log-adds-distinfo"
}
func c18PatchCommitted(patDir, status string) bool {
	return patDir == "entries" && (status == "listed" || status == "log-added" || status == "relisted")
}

// c18BuildCvs writes down the files for a class of package-directory state, a
// class of patches-directory state and one status per patch.
func c18BuildCvs(pkgClass, patDir string, names, status []string) c18Cvs {
	c := c18Cvs{pkgClass: pkgClass, patDir: patDir, status: status}
	other := c18CvsLine("DESCR") + "D/patches////\n"
	switch pkgClass {
	case "lists-distinfo":
		c.pkgE = c18Ptr(c18CvsLine("DESCR") + c18CvsLine("distinfo") + "D/patches////\n")
	case "lists-other":
		c.pkgE = c18Ptr(other)
	case "log-adds-distinfo":
		c.pkgE = c18Ptr(other)
		c.pkgL = c18Ptr("A " + c18CvsLine("distinfo"))
	case "log-removes-distinfo":
		c.pkgE = c18Ptr(c18CvsLine("distinfo") + other)
		c.pkgL = c18Ptr("A " + c18CvsLine("PLIST") + "R " + c18CvsLine("distinfo"))
	case "log-only":
		c.pkgL = c18Ptr("A " + c18CvsLine("distinfo"))
	}
	var e, l strings.Builder
	e.WriteString(c18CvsLine("patch-zz-other"))
	for i, n := range names {
		switch status[i] {
		case "listed":
			e.WriteString(c18CvsLine(n))
		case "unlisted":
		case "log-added":
			l.WriteString("A " + c18CvsLine(n))
		case "log-removed":
			e.WriteString(c18CvsLine(n))
			l.WriteString("R " + c18CvsLine(n))
		case "log-add-remove":
			l.WriteString("A " + c18CvsLine(n) + "R " + c18CvsLine(n))
		case "relisted":
			e.WriteString(c18CvsLine(n))
			l.WriteString("R " + c18CvsLine(n) + "A " + c18CvsLine(n))
		case "invalid-line":
			e.WriteString("/" + n + "/1.1/x/\n") // 5 fields: "Invalid line", no entry
		case "dir-entry":
			e.WriteString("D/" + n + "////\n")
		}
	}
	switch patDir {
	case "entries":
		c.patE = c18Ptr(e.String())
		if l.Len() > 0 {
			c.patL = c18Ptr(l.String())
		}
	case "log-only": // Entries.Log without Entries is never read
		var all strings.Builder
		for _, n := range names {
			all.WriteString("A " + c18CvsLine(n))
		}
		c.patL = c18Ptr(all.String())
	}
	return c
}

func (c c18Cvs) isNone() bool {
	return c.pkgE == nil && c.pkgL == nil && c.patE == nil && c.patL == nil
}

func (c c18Cvs) statusOf(i int) string {
	if i < len(c.status) {
		return c.status[i]
	}
	return ""
}

func (c c18Cvs) class(i int) string {
	pk, pd := c.pkgClass, c.patDir
	if pk == "" {
		pk = "none"
	}
	if pd == "" {
		pd = "none"
	}
	if pd == "entries" && i < len(c.status) {
		return pk + "/" + c.status[i]
	}
	return pk + "/" + pd
}

// wantWarn: by construction, is "registered in distinfo but not added to CVS" due for patch i
func (c c18Cvs) wantWarn(i int) bool {
	return c18DistinfoCommitted(c.pkgClass) && !c18PatchCommitted(c.patDir, c.statusOf(i))
}

func (c c18Cvs) replay(rep map[string]any) {
	rep["cvs_pkg_class"], rep["cvs_patdir"] = c.pkgClass, c.patDir
	var st []any
	for _, x := range c.status {
		st = append(st, x)
	}
	rep["cvs_status"] = st
	rep["cvs_pkg_entries"], rep["cvs_pkg_log"] = c18Opt(c.pkgE), c18Opt(c.pkgL)
	rep["cvs_patches_entries"], rep["cvs_patches_log"] = c18Opt(c.patE), c18Opt(c.patL)
}

func c18CvsFromReplay(rep map[string]any) c18Cvs {
	c := c18Cvs{pkgClass: "none", patDir: "none"}
	if s, ok := rep["cvs_pkg_class"].(string); ok {
		c.pkgClass = s
	}
	if s, ok := rep["cvs_patdir"].(string); ok {
		c.patDir = s
	}
	if st, ok := rep["cvs_status"].([]any); ok {
		for _, x := range st {
			s, _ := x.(string)
			c.status = append(c.status, s)
		}
	}
	c.pkgE, c.pkgL = c18OptFromReplay(rep["cvs_pkg_entries"]), c18OptFromReplay(rep["cvs_pkg_log"])
	c.patE, c.patL = c18OptFromReplay(rep["cvs_patches_entries"]), c18OptFromReplay(rep["cvs_patches_log"])
	return c
}

// c18WriteCvsDir (re)creates dir/CVS with the two files, or removes it.
func c18WriteCvsDir(dir string, entries, log *string) error {
	cvs := filepath.Join(dir, "CVS")
	if err := os.RemoveAll(cvs); err != nil {
		return err
	}
	if entries == nil && log == nil {
		return nil
	}
	if err := os.MkdirAll(cvs, 0o755); err != nil {
		return err
	}
	if entries != nil {
		if err := os.WriteFile(filepath.Join(cvs, "Entries"), []byte(*entries), 0o644); err != nil {
			return err
		}
	}
	if log != nil {
		if err := os.WriteFile(filepath.Join(cvs, "Entries.Log"), []byte(*log), 0o644); err != nil {
			return err
		}
	}
	return nil
}

func (c c18Cvs) write(pkgDir string) error {
	if err := c18WriteCvsDir(pkgDir, c.pkgE, c.pkgL); err != nil {
		return err
	}
	return c18WriteCvsDir(filepath.Join(pkgDir, "patches"), c.patE, c.patL)
}

// the oracle request for check_entry_cvs
func (c c18Cvs) request(name, alg, body, hash, digest string) string {
	return "cvs " + c18Opt(c.pkgE) + " " + c18Opt(c.pkgL) + " " + c18Opt(c.patE) + " " + c18Opt(c.patL) + " " +
		hx(name) + " " + hx(alg) + " " + hx(body) + " " + hx(hash) + " " + hx(digest)
}

// diagnostics on one line of distinfo, by severity.  The hash verdict of
// checkPatchSha1 is an ERROR (so is "Invalid line"), the CVS remark of
// checkUncommittedPatch is a WARN: the two are told apart by severity, which is
// part of the diagnostic's structure, not of its wording.
type c18Sev struct{ err, warn, note int }

var c18AnyDiagRe = regexp.MustCompile(`(?m)^(ERROR|WARN|NOTE): (?:[^\n: ]*/)?distinfo:(\d+)(?:--\d+)?: `)

func c18DiagsBySeverity(out string) map[int]c18Sev {
	m := map[int]c18Sev{}
	for _, g := range c18AnyDiagRe.FindAllStringSubmatch(out, -1) {
		n, _ := strconv.Atoi(g[2])
		v := m[n]
		switch g[1] {
		case "ERROR":
			v.err++
		case "WARN":
			v.warn++
		default:
			v.note++
		}
		m[n] = v
	}
	return m
}

// hashReported: a diagnostic other than a warning; cvsWarned: a warning
func (v c18Sev) hashReported() bool { return v.err+v.note > 0 }
func (v c18Sev) cvsWarned() bool    { return v.warn > 0 }

// ---------- unit: isCommitted / loadCvsEntries ----------

type c18ComCase struct {
	entries, log *string
	base         string
}

func c18RandomCvsFile(rng *Rng, log bool) *string {
	if rng.Chance(12) {
		return nil
	}
	names := []string{"patch-aa", "patch-ab", "distinfo", "", "x"}
	var sb strings.Builder
	n := rng.Intn(6)
	for i := 0; i < n; i++ {
		nm := Pick(rng, names)
		l := Pick(rng, []string{
			"/" + nm + "/1.1/ts//", "/" + nm + "/1.1/ts/-kb/T1", "D/" + nm + "////", "/" + nm + "/1/", "/" + nm + "/1/2/3/4/5",
			"/" + nm + "/////", nm + "/1.1/ts//", "", "//" + nm + "/1.1/ts/", "/" + nm + "/1.1/ts//\r",
		})
		if log || rng.Chance(10) {
			l = Pick(rng, []string{"A ", "R ", "A ", "R ", "a ", "A", "R  ", "", "AR "}) + l
		}
		sb.WriteString(l)
		if i < n-1 || !rng.Chance(15) {
			sb.WriteString("\n")
		}
	}
	return c18Ptr(sb.String())
}

func c18SortedSet(xs []string) []string {
	m := map[string]bool{}
	for _, x := range xs {
		m[x] = true
	}
	return sortedKeys(m)
}

// c18CheckCommitted: isCommitted and loadCvsEntries (shim) on generated
// CVS/Entries and CVS/Entries.Log files against Model.PatchSum.is_committed / load_cvs_entries.
func c18CheckCommitted(ctx *Ctx, res *Result, cases []c18ComCase) {
	dir, cleanup := c18ScratchDir(ctx, "c18cvs")
	defer cleanup()
	if dir == "" {
		res.Broken = "no scratch directory"
		return
	}
	reqs := make([]string, len(cases))
	for i, c := range cases {
		reqs[i] = "com " + c18Opt(c.entries) + " " + c18Opt(c.log) + " " + hx(c.base)
	}
	ans, err := runOracle(ctx, "c18", reqs)
	if err != nil {
		res.Broken = err.Error()
		return
	}
	for i, c := range cases {
		if err := c18WriteCvsDir(dir, c.entries, c.log); err != nil {
			res.Broken = err.Error()
			return
		}
		committed, keys, isNil, _, panicked := pkglint.VerifIsCommitted(dir, c.base)
		rep := map[string]any{"kind": "committed", "entries": c18Opt(c.entries), "log": c18Opt(c.log), "base": hx(c.base)}
		size := 1 + len(c.base)
		if c.entries != nil {
			size += len(*c.entries)
		}
		if c.log != nil {
			size += len(*c.log)
		}
		if panicked != "" {
			rep["impl"] = panicked
			res.AddViolation(Violation{Key: "C18/cvs/panic", What: "isCommitted panics: " + panicked, FoundInput: true, Size: size, Replay: rep})
			continue
		}
		f := strings.Fields(ans[i])
		if len(f) != 2 {
			res.Broken = "oracle answer " + q(ans[i])
			return
		}
		var mkeys []string
		modelNil := f[0] == "nil"
		if !modelNil && f[0] != "empty" {
			for _, k := range strings.Split(f[0], ",") {
				mkeys = append(mkeys, unhx(k))
			}
		}
		implSet, modelSet := strings.Join(c18SortedSet(keys), "\x00"), strings.Join(c18SortedSet(mkeys), "\x00")
		if committed != (f[1] == "1") || isNil != modelNil || implSet != modelSet {
			rep["broken"] = "correspondence isCommitted / loadCvsEntries = Model.PatchSum.is_committed / load_cvs_entries"
			res.AddViolation(Violation{Key: "C18/correspondence/is-committed",
				What: fmt.Sprintf("CVS/Entries %s, Entries.Log %s, file %q: implementation committed=%v nil=%v keys=%q, model committed=%s keys=%q",
					c18Show(c.entries), c18Show(c.log), c.base, committed, isNil, c18SortedSet(keys), f[1], c18SortedSet(mkeys)),
				FoundInput: false, Size: size, Replay: rep})
		}
		switch {
		case isNil:
			res.Count("com.no_entries_file", 1)
		case committed:
			res.Count("com.committed", 1)
		default:
			res.Count("com.not_committed", 1)
		}
		if c.log != nil && c.entries != nil && (strings.Contains(*c.log, "A /") || strings.Contains(*c.log, "R /")) {
			res.Count("com.log_applied", 1)
		}
	}
	res.Evaluations += len(cases)
	res.TracesValidated += len(cases)
}

func c18Show(p *string) string {
	if p == nil {
		return "(absent)"
	}
	return q(*p)
}

// ---------- unit: the digest must not depend on earlier calls ----------

type c18Call struct{ path, body string }

func c18RunCalls(dir string, calls []c18Call) (last string, panicked string) {
	pkglint.VerifC18Reset()
	for _, c := range calls {
		last, panicked = pkglint.VerifComputePatchSha1Hex(filepath.Join(dir, c.path), c.body)
		if panicked != "" {
			return
		}
	}
	return
}

// c18CheckHistory: sequences of computePatchSha1Hex calls on a few paths, the
// same path being rewritten with other content between calls, without any
// reset in between; every result is compared with the reference digest.
func c18CheckHistory(ctx *Ctx, res *Result, seqs [][]c18Call) {
	dir, cleanup := c18ScratchDir(ctx, "c18hist")
	defer cleanup()
	if dir == "" || os.MkdirAll(filepath.Join(dir, "sub"), 0o755) != nil {
		res.Broken = "no scratch directory"
		return
	}
	var reqs []string
	for _, s := range seqs {
		for _, c := range s {
			reqs = append(reqs, "dig "+hx(c.body))
		}
	}
	ans, err := runOracle(ctx, "c18", reqs)
	if err != nil {
		res.Broken = err.Error()
		return
	}
	k := 0
	for _, s := range seqs {
		pkglint.VerifC18Reset()
		seen := map[string]string{}
		for j, c := range s {
			f := strings.Fields(ans[k])
			k++
			if len(f) != 2 {
				res.Broken = "oracle answer " + q(ans[k-1])
				return
			}
			ref := c18Sha1(unhx(f[1]))
			got, panicked := pkglint.VerifComputePatchSha1Hex(filepath.Join(dir, c.path), c.body)
			if old, ok := seen[c.path]; ok && old != c.body {
				res.Count("hist.same_path_other_body", 1)
			} else if ok {
				res.Count("hist.same_path_same_body", 1)
			}
			seen[c.path] = c.body
			res.Count("hist.calls", 1)
			if got == ref && panicked == "" {
				continue
			}
			// shrink: drop earlier calls as long as the re-executed sequence still ends in a wrong digest
			cur := append([]c18Call{}, s[:j+1]...)
			wrong := func(cs []c18Call) bool {
				g, p := c18RunCalls(dir, cs)
				return g != ref || p != ""
			}
			if !wrong(cur) {
				res.AddViolation(Violation{Key: "C18/history/not-reproducible", What: fmt.Sprintf("call %d of a sequence gave %s instead of %s, the same sequence re-executed does not", j, got, ref),
					FoundInput: false, Size: len(cur), Replay: map[string]any{"kind": "history", "calls": c18CallsReplay(cur), "broken": "a digest differed once and not when the sequence was re-executed"}})
				break
			}
			for i := 0; i < len(cur)-1; {
				cand := append(append([]c18Call{}, cur[:i]...), cur[i+1:]...)
				if wrong(cand) {
					cur = cand
				} else {
					i++
				}
			}
			size := 0
			for _, x := range cur {
				size += 10 + len(x.body)
			}
			rep := map[string]any{"kind": "history", "calls": c18CallsReplay(cur), "impl": got, "makepatchsum": ref}
			if len(cur) == 1 {
				res.AddViolation(Violation{Key: "C18/digest/differs-from-makepatchsum",
					What:       fmt.Sprintf("patch body %q in %s: pkglint computes %s, makepatchsum gives %s", c.body, c.path, got, ref),
					FoundInput: true, Size: size, Replay: rep})
			} else {
				res.AddViolation(Violation{Key: "C18/history/digest-depends-on-earlier-calls",
					What: fmt.Sprintf("computePatchSha1Hex(%s = %q) gives %s after %d earlier call(s) %s, but %s (= makepatchsum) when called first",
						c.path, c.body, got, len(cur)-1, c18ShowCalls(cur[:len(cur)-1]), ref),
					FoundInput: true, Size: size, Replay: rep})
			}
			break
		}
		res.Count("hist.sequences", 1)
	}
	res.Evaluations += k
	res.TracesValidated += k
}

func c18CallsReplay(cs []c18Call) []any {
	var out []any
	for _, c := range cs {
		out = append(out, map[string]any{"path": c.path, "body": hx(c.body)})
	}
	return out
}

func c18ShowCalls(cs []c18Call) string {
	var parts []string
	for _, c := range cs {
		parts = append(parts, fmt.Sprintf("(%s, %q)", c.path, c.body))
	}
	return strings.Join(parts, " ")
}

func c18RandomHistory(rng *Rng) []c18Call {
	// "patch-cc.mk": a patch for a file named *.mk; Load caches *.mk files on purpose, its body stays the same within one sequence
	paths := []string{"patch-aa", "patch-aa", "patch-ab", "sub/patch-aa", "patch-cc.mk"}
	mkBody := c18RandomBody(rng)
	small := []string{"", "x\n", "$NetBSD$\n", "$NetBSD$\nx\n", "x", "y\n", "x\n$NetBSD: x $\ny\n"}
	n := 2 + rng.Intn(7)
	var out []c18Call
	for i := 0; i < n; i++ {
		c := c18Call{path: Pick(rng, paths)}
		switch {
		case c.path == "patch-cc.mk":
			c.body = mkBody
		case i > 0 && rng.Chance(20):
			c.body = out[rng.Intn(len(out))].body // the same content again, maybe under another path
			if out[len(out)-1].path == "patch-cc.mk" && c.body == mkBody && rng.Chance(50) {
				c.body = Pick(rng, small)
			}
		case rng.Chance(50):
			c.body = Pick(rng, small)
		default:
			c.body = c18RandomBody(rng)
		}
		out = append(out, c)
	}
	return out
}

// ---------- extraction cross-check ----------

func c18CoqStr(s string) string {
	parts := make([]string, len(s))
	for i := 0; i < len(s); i++ {
		parts[i] = strconv.Itoa(int(s[i]))
	}
	return "[" + strings.Join(parts, ";") + "]"
}

func c18CoqOpt(h string) string { // N | hex
	if h == "N" {
		return "None"
	}
	return "(Some " + c18CoqStr(unhx(h)) + ")"
}

func c18CoqList(h string, empty string) string { // hex,hex,... ; `empty` denotes the empty list
	if h == empty {
		return "[]"
	}
	var parts []string
	for _, x := range strings.Split(h, ",") {
		parts = append(parts, c18CoqStr(unhx(x)))
	}
	return "[" + strings.Join(parts, "; ") + "]"
}

func c18CoqVerdict(f []string) (string, bool) {
	switch {
	case len(f) == 1 && f[0] == "silent":
		return "Silent", true
	case len(f) == 1 && f[0] == "missing":
		return "DoesNotExist", true
	case len(f) == 3 && f[0] == "differs":
		return "(Differs " + c18CoqStr(unhx(f[1])) + " " + c18CoqStr(unhx(f[2])) + ")", true
	}
	return "", false
}

func c18CoqGate(ans string) (string, bool) {
	f := strings.Fields(ans)
	if len(f) < 2 || (f[0] != "0" && f[0] != "1") {
		return "", false
	}
	w := "false"
	if f[0] == "1" {
		w = "true"
	}
	if len(f) == 2 && f[1] == "none" {
		return "Ok (" + w + ", None)", true
	}
	v, ok := c18CoqVerdict(f[1:])
	return "Ok (" + w + ", Some " + v + ")", ok
}

// c18CrossCheckExtraction re-evaluates <= 200 oracle requests (every request
// kind, i.e. every extracted function) with coqc's vm_compute on the Gallina model.
func c18CrossCheckExtraction(ctx *Ctx, res *Result, reqs []string) {
	if len(reqs) > 200 {
		reqs = reqs[:200]
	}
	ans, err := runOracle(ctx, "c18", reqs)
	if err != nil {
		res.Broken = err.Error()
		return
	}
	var sb strings.Builder
	sb.WriteString("From PV Require Import Lib.Bytes Model.Lines Model.PatchSum Spec.PatchSumSpec.\nOpen Scope N_scope.\n")
	kinds := map[string]int{}
	for i, r := range reqs {
		a := strings.Fields(r)
		var lhs, rhs string
		ok := true
		switch {
		case a[0] == "dig" && len(a) == 2:
			f := strings.Fields(ans[i])
			ok = len(f) == 2
			if ok {
				lhs = fmt.Sprintf("match convert_to_logical_lines %s false with Ok (ls, _) => Some (hashed_bytes ls, makepatchsum_filter %s) | _ => None end", c18CoqStr(unhx(a[1])), c18CoqStr(unhx(a[1])))
				rhs = fmt.Sprintf("Some (%s, %s)", c18CoqStr(unhx(f[0])), c18CoqStr(unhx(f[1])))
			}
		case a[0] == "chk" && len(a) == 4:
			lhs = fmt.Sprintf("check_patch_sha1 (fun _ => %s) (Some %s) %s", c18CoqStr(unhx(a[3])), c18CoqStr(unhx(a[1])), c18CoqStr(unhx(a[2])))
			rhs, ok = c18CoqVerdict(strings.Fields(ans[i]))
		case a[0] == "repl" && len(a) == 4:
			lhs = fmt.Sprintf("autofix_replace %s %s %s", c18CoqList(a[3], ""), c18CoqStr(unhx(a[1])), c18CoqStr(unhx(a[2])))
			rhs = c18CoqList(ans[i], "")
		case a[0] == "fixl" && len(a) == 4:
			lhs = fmt.Sprintf("fix_distinfo_line %s (Differs %s %s)", c18CoqList(a[3], ""), c18CoqStr(unhx(a[1])), c18CoqStr(unhx(a[2])))
			rhs = c18CoqList(ans[i], "")
		case a[0] == "com" && len(a) == 4:
			f := strings.Fields(ans[i])
			ok = len(f) == 2
			if ok {
				d := fmt.Sprintf("(mk_cvs_dir %s %s)", c18CoqOpt(a[1]), c18CoqOpt(a[2]))
				lhs = fmt.Sprintf("(load_cvs_entries %s, is_committed %s %s)", d, d, c18CoqStr(unhx(a[3])))
				es := "None"
				if f[0] != "nil" {
					es = "(Some " + c18CoqList(f[0], "empty") + ")"
				}
				rhs = fmt.Sprintf("(Ok %s, Ok %v)", es, f[1] == "1")
			}
		case a[0] == "hnd" && len(a) == 4:
			lhs = fmt.Sprintf("cvs_handle %s %v %s", c18CoqList(a[1], "empty"), a[2] == "1", c18CoqStr(unhx(a[3])))
			rhs = c18CoqList(ans[i], "empty")
		case a[0] == "logl" && len(a) == 3:
			lhs = fmt.Sprintf("cvs_log_line %s %s", c18CoqList(a[1], "empty"), c18CoqStr(unhx(a[2])))
			rhs = c18CoqList(ans[i], "empty")
		case a[0] == "unc" && len(a) == 9:
			lhs = fmt.Sprintf("check_uncommitted_patch (fun _ => %s) %v (mk_cvs_dir %s %s) %s %s %s %s", c18CoqStr(unhx(a[8])), a[1] == "1",
				c18CoqOpt(a[2]), c18CoqOpt(a[3]), c18CoqStr(unhx(a[4])), c18CoqStr(unhx(a[5])), c18CoqOpt(a[6]), c18CoqStr(unhx(a[7])))
			rhs, ok = c18CoqGate(ans[i])
		case a[0] == "cvs" && len(a) == 10:
			lhs = fmt.Sprintf("check_entry_cvs (fun _ => %s) (mk_cvs_dir %s %s) (mk_cvs_dir %s %s) %s %s %s %s", c18CoqStr(unhx(a[9])),
				c18CoqOpt(a[1]), c18CoqOpt(a[2]), c18CoqOpt(a[3]), c18CoqOpt(a[4]), c18CoqStr(unhx(a[5])), c18CoqStr(unhx(a[6])), c18CoqOpt(a[7]), c18CoqStr(unhx(a[8])))
			rhs, ok = c18CoqGate(ans[i])
		default:
			ok = false
		}
		if !ok {
			res.Broken = "cross-check: request " + q(r) + " answer " + q(ans[i])
			return
		}
		kinds[a[0]]++
		fmt.Fprintf(&sb, "Example case_%d : %s = %s.\nProof. vm_compute. reflexivity. Qed.\n", i, lhs, rhs)
	}
	for _, k := range []string{"dig", "chk", "repl", "fixl", "com", "hnd", "logl", "unc", "cvs"} {
		if kinds[k] < 5 {
			res.Broken = "cross-check: fewer than 5 requests of kind " + k
			return
		}
	}
	file := filepath.Join(ctx.Work, "c18cases.v")
	if err := os.WriteFile(file, []byte(sb.String()), 0o644); err != nil {
		res.Broken = err.Error()
		return
	}
	cmd := exec.Command("timeout", "600", "coqc", "-Q", filepath.Join(ctx.Verif, "coq"), "PV", file)
	cmd.Dir = ctx.Work
	out, err := cmd.CombinedOutput()
	if err != nil {
		msg := string(out)
		if len(msg) > 600 {
			msg = msg[:600]
		}
		res.AddViolation(Violation{Key: "C18/extraction-vs-vm_compute",
			What:       "the extracted oracle and coqc's vm_compute disagree on the model (or coqc failed): " + msg,
			FoundInput: false, Replay: map[string]any{"broken": "extraction cross-check", "detail": msg}})
		return
	}
	res.Count("vm_compute_cross_checked", len(reqs))
}

func c18CrossRequests(rng *Rng) []string {
	var reqs []string
	bodies := []string{"", "x", "a\n$NetBSD: x $\r\nb", "$NetBSD$\n", "x\ny"}
	names := []string{"patch-aa", "distinfo", "x", "patch-ab"}
	for i := 0; i < 22; i++ {
		b := Pick(rng, bodies)
		if i >= 5 {
			b = c18RandomBody(rng)
			if len(b) > 120 {
				b = b[:120]
			}
		}
		reqs = append(reqs, "dig "+hx(b))
		h := Pick(rng, []string{"30", "3031", hx(b)})
		reqs = append(reqs, "chk "+hx(b)+" "+Pick(rng, []string{"30", "31", h})+" "+h)
		e, l := c18RandomCvsFile(rng, false), c18RandomCvsFile(rng, true)
		e2, l2 := c18RandomCvsFile(rng, false), c18RandomCvsFile(rng, true)
		nm := Pick(rng, names)
		reqs = append(reqs, "com "+c18Opt(e)+" "+c18Opt(l)+" "+hx(nm))
		alg := Pick(rng, []string{"SHA1", "SHA1", "SHA512", "sha1"})
		body := hx(b)
		if rng.Chance(10) {
			body = "N"
		}
		reqs = append(reqs, "unc "+bit(rng.Bool())+" "+c18Opt(e2)+" "+c18Opt(l2)+" "+hx(nm)+" "+hx(alg)+" "+body+" "+Pick(rng, []string{"30", h})+" "+h)
		reqs = append(reqs, "cvs "+c18Opt(e)+" "+c18Opt(l)+" "+c18Opt(e2)+" "+c18Opt(l2)+" "+hx(nm)+" "+hx(alg)+" "+body+" "+Pick(rng, []string{"30", h})+" "+h)
		keys := Pick(rng, []string{"empty", hx("patch-aa"), hx("x") + "," + hx("patch-aa") + "," + hx("x"), "-"})
		text := Pick(rng, []string{"/x/1/2//", "/patch-aa/1/2//", "/x/1/", "D/x////", "", "//////", "/x/1/2///"})
		reqs = append(reqs, "hnd "+keys+" "+bit(rng.Bool())+" "+hx(text))
		reqs = append(reqs, "logl "+keys+" "+hx(Pick(rng, []string{"A ", "R ", "a ", "A", ""})+text))
		c := c18ReplaceCases(rng, 1)[0]
		reqs = append(reqs, "repl "+hx(c.prefix+c.from)+" "+hx(c.prefix+c.to)+" "+hx(c.text))
		reqs = append(reqs, "fixl "+hx(c.from)+" "+hx(c.to)+" "+hx(c.text))
	}
	return reqs
}

// ---------- entry points ----------

func runC18(ctx *Ctx) *Result {
	res := &Result{Rule: "unit: every patch body of <= L tokens over {$NetBSD, $, N, x, LF, CR} (distinct strings), then seeded random bodies (patch-like text with tags anywhere, CRLF, lone CR, empty lines, non-ASCII, with/without final newline; raw token strings); then every body of <= L2 tokens over the second alphabet {BOM, U+00FC, NUL, CR, FF, x, LF, $NetBSD} (hostile bytes at position 0 and at line starts); every digest goes through Load(file, 0); non-trivial = the body contains $NetBSD (a line is removed); distinct by body. Entries: CheckLinesDistinfo (shim) on one patch + one SHA1 entry in default and --autofix mode, entry = the correct digest or a near miss of it (upper / mixed case, one digit changed at 3 positions, truncated / extended by one digit at either end, all zero, blank next to the hash). Every entry in one of 60 CVS working-copy states (package CVS/Entries(.Log) listing distinfo or not x patches/CVS absent / Entries listing the patch, not listing it, adding or removing it through Entries.Log, malformed lines): same verdict about the hash in every state, the CVS warning exactly when distinfo is committed and the patch is not. isCommitted on generated Entries files; call histories of computePatchSha1Hex (same path rewritten). Replace: distinfo entry lines with the stale hash once / twice / overlapping. Whole runs: generated packages with 1-4 patches, entries correct / stale / wrong, plus directed corner scenarios; each = default run, -F, default run of the real binary."}
	rng := NewRng(ctx.Seed)
	maxTok, nrand, nrepl, npkg := 6, 10000, 2000, 200
	maxTok2, entryTok, nentryRand := 4, 3, 300
	ncom, nhist := 3000, 400
	if ctx.Tier == "thorough" {
		maxTok, nrand, nrepl, npkg = 7, 300000, 50000, 3000
		maxTok2, entryTok, nentryRand = 6, 4, 5000
		ncom, nhist = 100000, 20000
	}
	t0 := time.Now()
	lap := func(what string) {
		res.Count("seconds."+what, int(time.Since(t0).Seconds()+0.5))
		t0 = time.Now()
	}
	exh := c18Exhaustive(maxTok)
	c18CheckDigests(ctx, res, exh, "exhaustive")
	if res.Broken != "" {
		return res
	}
	seen := map[string]bool{}
	for _, b := range exh {
		if strings.Contains(b, "$NetBSD") {
			seen[b] = true
		}
	}
	var rnd []string
	for i := 0; i < nrand; i++ {
		b := c18RandomBody(rng)
		rnd = append(rnd, b)
		if strings.Contains(b, "$NetBSD") {
			seen[b] = true
		}
	}
	c18CheckDigests(ctx, res, rnd, "random")
	if res.Broken != "" {
		return res
	}
	// second alphabet: hostile bytes (BOM, other multi-byte sequences, NUL, CR, FF) at position 0 and at line starts
	exh2 := c18ExhaustiveOver(c18Tokens2, maxTok2)
	c18CheckDigests(ctx, res, exh2, "exhaustive2")
	if res.Broken != "" {
		return res
	}
	for _, b := range exh2 {
		if strings.Contains(b, "$NetBSD") {
			seen[b] = true
		}
	}
	res.DistinctNontrivial = len(seen)

	// the distinfo checker itself on one entry: correct digest and its near misses
	var entries []c18Entry
	allKinds := append([]string{"correct", "blank-after", "blank-before"}, c18NearKinds...)
	ebodies := append(c18ExhaustiveOver(c18Tokens2, entryTok), c18ExhaustiveOver(c18Tokens, entryTok)...)
	for i := 0; i < nentryRand; i++ {
		ebodies = append(ebodies, c18RandomBody(rng))
	}
	// every entry is checked in one CVS working-copy state; the states rotate through all
	// combinations of package-directory class, patches-directory class and patch status
	var cvsStates []c18Cvs
	for _, pk := range c18PkgClasses {
		for _, pd := range c18PatDirs {
			if pd != "entries" {
				cvsStates = append(cvsStates, c18BuildCvs(pk, pd, []string{"patch-aa"}, []string{"unlisted"}))
				continue
			}
			for _, st := range c18PatStatuses {
				cvsStates = append(cvsStates, c18BuildCvs(pk, pd, []string{"patch-aa"}, []string{st}))
			}
		}
	}
	nstate := 0
	nextState := func() c18Cvs {
		nstate++
		if nstate%4 == 0 { // a quarter of the entries: no CVS directories at all, as before
			return cvsStates[0]
		}
		return cvsStates[(nstate/4*3+nstate%4)%len(cvsStates)]
	}
	for i, b := range ebodies {
		if i%8 == 0 {
			for _, k := range allKinds {
				entries = append(entries, c18Entry{b, k, nextState()})
			}
			continue
		}
		entries = append(entries, c18Entry{b, "correct", nextState()})
		for k := 0; k < 3; k++ {
			entries = append(entries, c18Entry{b, c18NearKinds[(i+k*3)%len(c18NearKinds)], nextState()})
		}
	}
	// and the full product: every CVS state x {right hash, two wrong ones} on a few bodies
	for i := 0; i < 12 && i < len(ebodies); i++ {
		b := ebodies[len(ebodies)-1-i]
		for _, st := range cvsStates {
			for _, k := range []string{"correct", "digit19", "zero"} {
				entries = append(entries, c18Entry{b, k, st})
			}
		}
	}
	lap("digests")
	c18CheckEntries(ctx, res, entries)
	lap("entries")
	if res.Broken != "" {
		return res
	}
	// isCommitted / loadCvsEntries on generated CVS/Entries and Entries.Log files
	var coms []c18ComCase
	for _, st := range cvsStates {
		coms = append(coms, c18ComCase{st.pkgE, st.pkgL, "distinfo"}, c18ComCase{st.patE, st.patL, "patch-aa"})
	}
	for i := 0; i < ncom; i++ {
		coms = append(coms, c18ComCase{c18RandomCvsFile(rng, false), c18RandomCvsFile(rng, true), Pick(rng, []string{"patch-aa", "patch-ab", "distinfo", "x"})})
	}
	c18CheckCommitted(ctx, res, coms)
	if res.Broken != "" {
		return res
	}
	// the digest as a function of the file alone: call histories
	var seqs [][]c18Call
	seqs = append(seqs,
		[]c18Call{{"patch-aa", "x\n"}, {"patch-aa", "y\n"}},
		[]c18Call{{"patch-aa", "x\n"}, {"patch-ab", "x\n"}, {"patch-aa", ""}},
		[]c18Call{{"patch-aa", "$NetBSD$\nx\n"}, {"patch-aa", "$NetBSD$\nx\n"}, {"patch-aa", "$NetBSD$\n"}, {"patch-aa", "x\n"}})
	for i := 0; i < nhist; i++ {
		seqs = append(seqs, c18RandomHistory(rng))
	}
	c18CheckHistory(ctx, res, seqs)
	if res.Broken != "" {
		return res
	}
	c18CrossCheckExtraction(ctx, res, c18CrossRequests(rng))
	lap("cvs_history_crosscheck")
	if res.Broken != "" {
		return res
	}
	c18CheckReplace(ctx, res, c18ReplaceCases(rng, nrepl))
	if res.Broken != "" {
		return res
	}
	scs := c18DirectedScenarios()
	for i := 0; i < npkg; i++ {
		scs = append(scs, c18RandomScenario(rng, i))
	}
	lap("replace")
	c18WholeRuns(ctx, res, scs)
	lap("whole_runs")
	res.Exhaustive = false
	res.Count("exhaustive_max_tokens", maxTok)
	// floors the generators alone decide about: missing one is a fault of this check
	genFloors := map[string]int{
		"unit.bodies_with_tag": 5000, "unit.tag_and_kept_bytes": 2000, "unit.tag_in_unterminated_tail": 500, "unit.tag_with_cr": 500,
		"replace.fired": 200, "replace.refused": 200,
		"unit.hostile_first_byte_hashed": 1000,
		"hist.sequences":                 nhist, "hist.same_path_other_body": nhist / 2, "hist.same_path_same_body": nhist / 10,
	}
	for _, k := range sortedKeys(genFloors) {
		if n, _ := res.Distribution[k].(int); n < genFloors[k] && res.Broken == "" && len(res.Violations) == 0 {
			res.Broken = fmt.Sprintf("coverage floor missed: %s = %d < %d", k, n, genFloors[k])
		}
	}
	// floors that are only counted after the implementation did its part (a run that ended
	// normally, an entry that was checked without a panic, a diagnostic that was seen):
	// missing one means the correspondence is not established -- a violation without a found input
	implFloors := map[string]int{
		"entry.correct": 500, "entry.upper": 200, "entry.mixed": 200, "entry.digit0": 200, "entry.digit39": 200, "entry.truncated": 200, "entry.extended": 200, "entry.blank-after": 50,
		"w.packages": npkg * 9 / 10, "w.entries_correct": npkg / 4, "w.entries_stale": npkg / 5, "w.entries_wrong": npkg / 8, "w.entries_near": npkg / 3, "w.entries_near:upper": npkg / 40, "w.entries_near:mixed": npkg / 40, "w.entries_fixed": npkg / 3,
		"cvs.warn_expected=true.hash_right=true": 300, "cvs.warn_expected=true.hash_right=false": 600,
		"cvs.warn_expected=false.hash_right=true": 600, "cvs.warn_expected=false.hash_right=false": 1200,
		"cvs.warning_and_hash_error_on_one_line":   600,
		"w.cvs.warn_expected=true.hash_right=true": npkg / 10, "w.cvs.warn_expected=true.hash_right=false": npkg / 5,
		"w.cvs.warn_expected=false.hash_right=true": npkg / 10, "w.cvs.warn_expected=false.hash_right=false": npkg / 5,
		"w.cvs.warning_and_hash_error_on_one_line": npkg / 5,
		"com.no_entries_file":                      100, "com.committed": 200, "com.not_committed": 500, "com.log_applied": 300,
	}
	for _, st := range cvsStates {
		implFloors["cvs.class."+st.class(0)] = 30
	}
	for _, pk := range c18PkgClasses {
		implFloors["w.cvs.class."+pk+"/none"] = npkg / 200
		implFloors["w.cvs.class."+pk+"/listed"] = npkg / 200
		implFloors["w.cvs.class."+pk+"/unlisted"] = npkg / 200
	}
	for _, st := range c18PatStatuses {
		implFloors["w.cvs.class.lists-distinfo/"+st] = npkg / 50
	}
	for _, k := range sortedKeys(implFloors) {
		if n, _ := res.Distribution[k].(int); n < implFloors[k] && res.Broken == "" && len(res.Violations) == 0 {
			res.AddViolation(Violation{Key: "C18/coverage/floor-missed", What: fmt.Sprintf("coverage floor missed: %s = %d < %d (the implementation did not get that far often enough)", k, n, implFloors[k]),
				FoundInput: false, Replay: map[string]any{"broken": "coverage floor " + k, "floor": implFloors[k], "got": n}})
		}
	}
	res.Assumptions = []string{
		"SHA-1 is computed by Go's crypto/sha1 on the harness side; the model and the specification only determine the bytes that are hashed",
		"a diagnostic is attributed to a distinfo entry by its file:line prefix; on one line the verdict about the hash (ERROR, also NOTE) and the remark about CVS (WARN) are told apart by severity only",
		"the CVS state is given by the files CVS/Entries and CVS/Entries.Log of the package directory and of patches/; which of the generated files list a name is known by construction",
	}
	return res
}

func replayC18(ctx *Ctx, rep map[string]any) *Result {
	res := &Result{Rule: "replay"}
	switch rep["kind"] {
	case "digest":
		b, _ := rep["body"].(string)
		c18CheckDigests(ctx, res, []string{unhx(b)}, "replay")
	case "entry":
		b, _ := rep["body"].(string)
		k, _ := rep["entry"].(string)
		c18CheckEntries(ctx, res, []c18Entry{{unhx(b), k, c18CvsFromReplay(rep)}})
	case "committed":
		b, _ := rep["base"].(string)
		c18CheckCommitted(ctx, res, []c18ComCase{{c18OptFromReplay(rep["entries"]), c18OptFromReplay(rep["log"]), unhx(b)}})
	case "history":
		var calls []c18Call
		if cs, ok := rep["calls"].([]any); ok {
			for _, x := range cs {
				m, _ := x.(map[string]any)
				pth, _ := m["path"].(string)
				body, _ := m["body"].(string)
				calls = append(calls, c18Call{pth, unhx(body)})
			}
		}
		c18CheckHistory(ctx, res, [][]c18Call{calls})
	case "replace":
		t, _ := rep["text"].(string)
		f, _ := rep["from"].(string)
		to, _ := rep["to"].(string)
		pf, _ := rep["prefix"].(string)
		if pf == "" {
			pf = "-"
		}
		c18CheckReplace(ctx, res, []c18Repl{{unhx(t), unhx(f), unhx(to), unhx(pf)}})
	case "package":
		sc := c18Scenario{}
		sc.kind, _ = rep["scenario"].(string)
		sc.cvs = c18CvsFromReplay(rep)
		if ps, ok := rep["patches"].([]any); ok {
			for _, x := range ps {
				m, _ := x.(map[string]any)
				name, _ := m["name"].(string)
				body, _ := m["body"].(string)
				hash, _ := m["hash"].(string)
				kind, _ := m["kind"].(string)
				sc.patches = append(sc.patches, c18Patch{name: name, body: unhx(body), hash: hash, kind: kind})
			}
		}
		c18WholeRuns(ctx, res, []c18Scenario{sc})
	}
	return res
}

func init() { register("C18", runC18, replayC18) }
