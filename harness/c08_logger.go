package main

// Logger scripts: random event scripts run through the real Logger (shim
// VerifLoggerScript) and through Model/Logger.v (oracle c08, request "logger");
// shared by C08 and C06log.

import (
	"fmt"
	"regexp"
	"sort"
	"strconv"
	"strings"

	pkglint "github.com/rillig/pkglint/v23"
)

// lgOracle is the oracle that serves "logger" requests: c08 or c06log (one runner per process).
var lgOracle = "c08"

type lgScript struct {
	Opts   pkglint.VerifLoggerOpts
	Lines  []pkglint.VerifLogLine
	Events []pkglint.VerifEvent
}

var lgFiles = []string{"f.mk", "dir/g.mk", "Makefile", ".", "cat/pkg/PLIST"}
var lgRawPool = []string{"FOO=\tbar", "BAR = baz", "\tcd ${WRKSRC} && echo $$x", "# comment", "x\x1b[31my", "caf\xc3\xa9", "bad\xffbyte", "a\tb\\", "", "nul\x00byte", "cr\rhere"}
var lgFormats = []struct {
	f      string
	hasArg bool
}{
	{"Variable %s is defined but not used.", true}, {"Unknown shell command %s.", true}, {"Missing SUBST block.", false},
	{"Please use %s instead.", true}, {"Unnecessary space after variable name %s.", true}, {"This line should be removed.", false},
	{"Invalid byte %s.", true}, {"Definition of FOO is redundant.", false},
}
var lgArgs = []string{"FOO", "\"echo\"", "a\x1bb", "caf\xc3\xa9", "\xff", "${VAR:Q}", "x y", "", "tab\there", "\xe2\x82\xac", "\xef\xbf\xbd", "\xf0\x9f\x98\x80", "\xc3", "del\x7f"}
var lgExplPool = []string{"This might be a simple typo.", "", "If a package provides a file containing several related variables (such as module.mk, app.mk, extension.mk), that file may define variables that look unused since they are only used by other packages.",
	"\tcd \"$HOME\"; cd /nonexistent; rm -rf *", "* insert ${RUN} at the beginning of the line", "  (which among other things does \"set -e\")", "To fix this,   use  two  spaces.", "Odd \x1b[0m bytes \xff and caf\xc3\xa9.",
	"A_very_long_word_that_is_longer_than_the_maximum_width_of_an_explanation_line_which_is_68 x", "short", "trailing space   "}
var lgDescrs = []string{"Replacing \"BAR = \" with \"BAR=\\t\".", "Deleting this line.", "Inserting a line \"X=\\ty\" above this line.", "Replacing \"\x1b\" with \"e\"."}
var lgOnly = []string{"Variable", "Unknown", "%s", "SUBST", "zzz", "Silent", "should", "e", "."}
var lgArgvs = [][]string{{"pkglint", "-Wall", "cat/pkg"}, {"pkglint"}, {"/usr/bin/pkglint", "it's", "caf\xc3\xa9 dir", "\x1b[1m"}, {"pkglint", "", "a b", "-o", "x,y"}}

func lgGenScript(rng *Rng) lgScript {
	var s lgScript
	s.Opts = pkglint.VerifLoggerOpts{ShowAutofix: rng.Chance(25), Autofix: rng.Chance(20), Explain: rng.Bool(), ShowSource: rng.Bool(), GccOutput: rng.Chance(30), Quiet: rng.Chance(25)}
	if rng.Chance(35) {
		for i := 0; i <= rng.Intn(2); i++ {
			s.Opts.Only = append(s.Opts.Only, Pick(rng, lgOnly))
		}
	}
	nl := 1 + rng.Intn(4)
	for i := 0; i < nl; i++ {
		l := pkglint.VerifLogLine{File: Pick(rng, lgFiles)}
		switch {
		case rng.Chance(8):
			l.Lineno = 0
		case rng.Chance(8):
			l.Lineno = -1
		default:
			l.Lineno = 1 + rng.Intn(120)
			for j := 0; j <= rng.Intn(3); j++ {
				r := Pick(rng, lgRawPool)
				if !(rng.Chance(5) && j > 0) {
					r += "\n"
				}
				l.Raws = append(l.Raws, r)
			}
		}
		s.Lines = append(s.Lines, l)
	}
	ne := 1 + rng.Intn(40)
	var diags []pkglint.VerifEvent
	for i := 0; i < ne; i++ {
		var ev pkglint.VerifEvent
		k := rng.Intn(100)
		switch {
		case k < 45:
			if len(diags) > 0 && rng.Chance(30) {
				ev = Pick(rng, diags)
				if rng.Chance(20) {
					ev.Level = "EWN"[rng.Intn(3)] // same message, other level
				}
			} else {
				f := Pick(rng, lgFormats)
				ev = pkglint.VerifEvent{Kind: 'D', Line: rng.Intn(nl), Level: "EWN"[rng.Intn(3)], Format: f.f, HasArg: f.hasArg}
				if f.hasArg {
					ev.Arg = Pick(rng, lgArgs)
					if rng.Chance(2) {
						ev.Arg = "two\nlines"
					}
				}
				diags = append(diags, ev)
			}
		case k < 65:
			ev = pkglint.VerifEvent{Kind: 'X'}
			for j := 0; j <= rng.Intn(4); j++ {
				ev.Expl = append(ev.Expl, Pick(rng, lgExplPool))
			}
		case k < 85:
			f := Pick(rng, lgFormats)
			li := rng.Intn(nl)
			ln := s.Lines[li]
			ev = pkglint.VerifEvent{Kind: 'F', Line: li, Level: "EWNZ"[rng.Intn(4)], Format: f.f, HasArg: f.hasArg}
			if rng.Chance(30) {
				ev.Level = 'Z'
			}
			if ev.Level == 'Z' {
				ev.Format, ev.HasArg = "SilentAutofixFormat", false
			} else {
				if f.hasArg {
					ev.Arg = Pick(rng, lgArgs)
				}
				if rng.Chance(40) {
					for j := 0; j <= rng.Intn(2); j++ {
						ev.Expl = append(ev.Expl, Pick(rng, lgExplPool))
					}
				}
			}
			for j := 0; j < rng.Intn(4); j++ {
				a := pkglint.VerifAction{Descr: Pick(rng, lgDescrs)}
				if !rng.Chance(15) && ln.Lineno > 0 {
					a.Lineno = ln.Lineno + rng.Intn(len(ln.Raws)+1)
				}
				ev.Actions = append(ev.Actions, a)
			}
			ev.Texts = append([]string{}, ln.Raws...)
			for j := range ev.Texts {
				switch rng.Intn(6) {
				case 0:
					ev.Texts[j] = Pick(rng, lgRawPool) + "\n"
				case 1:
					ev.Texts[j] = ""
				}
			}
			if rng.Chance(3) && len(ev.Texts) > 0 {
				ev.Texts = ev.Texts[:len(ev.Texts)-1] // line.fix.texts shorter than line.raw: index out of range
			}
			if rng.Chance(20) {
				ev.Above = []string{Pick(rng, lgRawPool) + "\n"}
			}
			if rng.Chance(20) {
				ev.Below = []string{Pick(rng, lgRawPool) + "\n", "B=\t2\n"}[:1+rng.Intn(2)]
			}
		case k < 90:
			ev = pkglint.VerifEvent{Kind: 'S', Line: rng.Intn(nl), Modified: rng.Bool()}
		case k < 93:
			ev = pkglint.VerifEvent{Kind: 'T', Loc: []string{"", "f.mk", "dir/\x1b"}[rng.Intn(3)], Msg: "Cannot write: " + Pick(rng, lgArgs)}
		case k < 96:
			ev = pkglint.VerifEvent{Kind: 'Y', Args: Pick(rng, lgArgvs)}
			if rng.Chance(4) {
				ev.Args = nil
			}
		default:
			ev = pkglint.VerifEvent{Kind: 'X', Expl: []string{Pick(rng, lgExplPool)}}
		}
		s.Events = append(s.Events, ev)
	}
	if rng.Chance(85) {
		s.Events = append(s.Events, pkglint.VerifEvent{Kind: 'Y', Args: Pick(rng, lgArgvs)})
	}
	return s
}

func lgMsg(ev pkglint.VerifEvent) string {
	if ev.HasArg {
		return fmt.Sprintf(ev.Format, ev.Arg)
	}
	return ev.Format
}

func lgHexList(xs []string) string {
	hs := make([]string, len(xs))
	for i, x := range xs {
		hs[i] = hx(x)
	}
	return strings.Join(hs, ",")
}

func lgBits(o pkglint.VerifLoggerOpts) string {
	return c08b01(o.ShowAutofix) + c08b01(o.Autofix) + c08b01(o.Explain) + c08b01(o.ShowSource) + c08b01(o.GccOutput) + c08b01(o.Quiet)
}

func lgRequest(s lgScript, werror bool) string {
	var sb strings.Builder
	sb.WriteString("logger " + lgBits(s.Opts) + " o" + lgHexList(s.Opts.Only) + " " + c08b01(werror))
	line := func(i int) string {
		l := s.Lines[i]
		return fmt.Sprintf("%d/%s/%d/%s", i+1, hx(l.File), l.Lineno, lgHexList(l.Raws))
	}
	lv := func(b byte) string {
		if b == 'Z' {
			return "N"
		}
		return string(b)
	}
	for _, ev := range s.Events {
		sb.WriteByte(' ')
		switch ev.Kind {
		case 'D':
			sb.WriteString("D:" + line(ev.Line) + ":" + lv(ev.Level) + ":" + hx(ev.Format) + ":" + hx(lgMsg(ev)))
		case 'X':
			sb.WriteString("X:" + lgHexList(ev.Expl))
		case 'F':
			acts := make([]string, len(ev.Actions))
			for i, a := range ev.Actions {
				acts[i] = hx(a.Descr) + "/" + strconv.Itoa(a.Lineno)
			}
			sb.WriteString("F:" + line(ev.Line) + ":" + lgHexList(ev.Above) + ";" + lgHexList(ev.Texts) + ";" + lgHexList(ev.Below) + ":" +
				lv(ev.Level) + ":" + hx(ev.Format) + ":" + hx(lgMsg(ev)) + ":" + lgHexList(ev.Expl) + ":" + strings.Join(acts, ","))
		case 'S':
			sb.WriteString("S:" + c08b01(ev.Modified))
		case 'T':
			sb.WriteString("T:" + hx(ev.Loc) + ":" + hx(ev.Msg))
		case 'Y':
			sb.WriteString("Y:" + lgHexList(ev.Args))
		}
	}
	return sb.String()
}

type lgModel struct {
	Panicked                bool
	Errors, Warnings, Notes int
	ExplAvail, FixAvail     bool
	Exit                    int
	Out, Err                string
	Emitted                 []string // level/file/linenos/msg, hex
}

func lgParseModel(ans string) (m lgModel, err error) {
	f := strings.Split(ans, " ")
	if len(f) != 10 {
		return m, fmt.Errorf("oracle answer %q", c08Head(ans))
	}
	m.Panicked = f[0] == "1"
	m.Errors, _ = strconv.Atoi(f[1])
	m.Warnings, _ = strconv.Atoi(f[2])
	m.Notes, _ = strconv.Atoi(f[3])
	m.ExplAvail, m.FixAvail = f[4] == "1", f[5] == "1"
	m.Exit, _ = strconv.Atoi(f[6])
	m.Out, m.Err = unhx(f[7]), unhx(f[8])
	if len(f[9]) > 1 {
		m.Emitted = strings.Split(f[9][1:], ";")
	}
	return m, nil
}

// lgCompare: "" when the real Logger and the model agree on every observable.
func lgCompare(r pkglint.VerifLoggerResult, m lgModel) string {
	if m.Panicked || r.Panic != "" {
		if m.Panicked && r.Panic != "" {
			return ""
		}
		return fmt.Sprintf("panic: real %q, model %v", r.Panic, m.Panicked)
	}
	switch {
	case r.Stdout != m.Out:
		return fmt.Sprintf("stdout: real %q, model %q", c08FirstDiff(r.Stdout, m.Out), c08FirstDiff(m.Out, r.Stdout))
	case r.Stderr != m.Err:
		return fmt.Sprintf("stderr: real %q, model %q", c08Head(r.Stderr), c08Head(m.Err))
	case r.Errors != m.Errors || r.Warnings != m.Warnings || r.Notes != m.Notes:
		return fmt.Sprintf("counters: real %d/%d/%d, model %d/%d/%d", r.Errors, r.Warnings, r.Notes, m.Errors, m.Warnings, m.Notes)
	case r.ExplAvail != m.ExplAvail:
		return fmt.Sprintf("explanationsAvailable: real %v, model %v", r.ExplAvail, m.ExplAvail)
	case r.AutofixAvail != m.FixAvail:
		return fmt.Sprintf("autofixAvailable: real %v, model %v", r.AutofixAvail, m.FixAvail)
	}
	return ""
}

var lgSummaryRe = regexp.MustCompile(`^(Looks fine\.|\d+ (error|warning|note)s?( found\.|,| and ).*|\(Run ".*" to .*\.\))$`)

// lgDiagLines: the diagnostic lines of a real output, normalised to level|file|linenos|msg.
func lgDiagLines(out string, gcc bool) []string {
	var ks []string
	lv := map[string]string{"error": "ERROR", "warning": "WARN", "note": "NOTE", "autofix": "AUTOFIX"}
	for _, l := range strings.Split(out, "\n") {
		if l == "" || l[0] == '\t' || strings.HasPrefix(l, ">\t") || strings.HasPrefix(l, "+\t") || strings.HasPrefix(l, "-\t") || lgSummaryRe.MatchString(l) {
			continue
		}
		if gcc {
			// file[:linenos]: level: msg   or   level: msg
			if m := regexp.MustCompile(`^(?:(.*?)(?::(\d+(?:--\d+)?|EOF))?: )?(error|warning|note|autofix): (.*)$`).FindStringSubmatch(l); m != nil {
				ks = append(ks, lv[m[3]]+"|"+m[1]+"|"+m[2]+"|"+m[4])
				continue
			}
		} else if m := regexp.MustCompile(`^(ERROR|WARN|NOTE|AUTOFIX): (?:(.*?)(?::(\d+(?:--\d+)?|EOF))?: )?(.*)$`).FindStringSubmatch(l); m != nil {
			ks = append(ks, m[1]+"|"+m[2]+"|"+m[3]+"|"+m[4])
			continue
		}
		ks = append(ks, "?|"+l)
	}
	sort.Strings(ks)
	return ks
}

func lgHasNewlineMsg(s lgScript) bool {
	for _, ev := range s.Events {
		if strings.Contains(ev.Arg, "\n") {
			return true
		}
	}
	return false
}

// lgPresentation runs the same script on the real Logger under two option records
// that agree on ShowAutofix, Autofix and Only; "" when counters, flags and the
// diagnostic multiset agree.  This is the property itself, evaluated on the implementation.
func lgPresentation(s lgScript, alt pkglint.VerifLoggerOpts) string {
	a := pkglint.VerifLoggerScript(s.Opts, s.Lines, s.Events)
	b := pkglint.VerifLoggerScript(alt, s.Lines, s.Events)
	if a.Panic != "" || b.Panic != "" {
		return "" // a panic is not this property's business (C01); the correspondence run reports it
	}
	switch {
	case a.Errors != b.Errors || a.Warnings != b.Warnings || a.Notes != b.Notes:
		return fmt.Sprintf("counters %d/%d/%d with %s vs %d/%d/%d with %s", a.Errors, a.Warnings, a.Notes, lgBits(s.Opts), b.Errors, b.Warnings, b.Notes, lgBits(alt))
	case a.ExplAvail != b.ExplAvail || a.AutofixAvail != b.AutofixAvail:
		return "explanationsAvailable/autofixAvailable differ"
	}
	ka, kb := lgDiagLines(a.Stdout, s.Opts.GccOutput), lgDiagLines(b.Stdout, alt.GccOutput)
	if m, ok := c08Subset(ka, kb); !ok {
		return fmt.Sprintf("diagnostic %q printed with %s but not with %s", m, lgBits(s.Opts), lgBits(alt))
	}
	if m, ok := c08Subset(kb, ka); !ok {
		return fmt.Sprintf("diagnostic %q printed with %s but not with %s", m, lgBits(alt), lgBits(s.Opts))
	}
	return ""
}

func lgAltOpts(rng *Rng, o pkglint.VerifLoggerOpts) pkglint.VerifLoggerOpts {
	alt := o
	for alt.Explain == o.Explain && alt.ShowSource == o.ShowSource && alt.GccOutput == o.GccOutput && alt.Quiet == o.Quiet {
		alt.Explain, alt.ShowSource, alt.GccOutput, alt.Quiet = rng.Bool(), rng.Bool(), rng.Bool(), rng.Bool()
	}
	return alt
}

// lgOnlySubset: the diagnostics printed with Only = S are among those printed with Only = [].
func lgOnlySubset(s lgScript) string {
	if len(s.Opts.Only) == 0 {
		return ""
	}
	all := s.Opts
	all.Only = nil
	a := pkglint.VerifLoggerScript(s.Opts, s.Lines, s.Events)
	b := pkglint.VerifLoggerScript(all, s.Lines, s.Events)
	if a.Panic != "" || b.Panic != "" {
		return ""
	}
	ka, kb := lgDiagLines(a.Stdout, s.Opts.GccOutput), lgDiagLines(b.Stdout, all.GccOutput)
	// only the key (file, linenos, msg): the level of a duplicate may legitimately differ
	strip := func(ks []string) []string {
		out := make([]string, 0, len(ks))
		for _, k := range ks {
			if i := strings.Index(k, "|"); i >= 0 && k[0] != '?' {
				out = append(out, k[i+1:])
			}
		}
		sort.Strings(out)
		return c08Dedup(out)
	}
	if s.Opts.ShowAutofix || s.Opts.Autofix {
		if m, ok := c08Subset(ka, kb); !ok {
			return "printed only with --only: " + m
		}
		return ""
	}
	if m, ok := c08Subset(strip(ka), strip(kb)); !ok {
		return "printed only with --only: " + m
	}
	return ""
}

func lgSize(s lgScript) int { return len(s.Events)*10 + len(s.Lines) }

func lgReplayMap(kind string, s lgScript, extra map[string]any) map[string]any {
	m := map[string]any{"kind": kind, "request": lgRequest(s, false), "script": lgEncodeScript(s)}
	for k, v := range extra {
		m[k] = v
	}
	return m
}

// scripts are stored in replay files as JSON-friendly maps with hex strings
func lgEncodeScript(s lgScript) map[string]any {
	var ls, evs []any
	for _, l := range s.Lines {
		ls = append(ls, map[string]any{"file": hx(l.File), "lineno": l.Lineno, "raws": lgHexList(l.Raws)})
	}
	for _, e := range s.Events {
		acts := make([]string, len(e.Actions))
		for i, a := range e.Actions {
			acts[i] = hx(a.Descr) + "/" + strconv.Itoa(a.Lineno)
		}
		evs = append(evs, map[string]any{"kind": string(e.Kind), "line": e.Line, "level": string(e.Level), "format": hx(e.Format), "arg": hx(e.Arg), "hasarg": e.HasArg,
			"expl": lgHexList(e.Expl), "above": lgHexList(e.Above), "texts": lgHexList(e.Texts), "below": lgHexList(e.Below), "actions": strings.Join(acts, ","),
			"modified": e.Modified, "loc": hx(e.Loc), "msg": hx(e.Msg), "args": lgHexList(e.Args), "nilargs": e.Args == nil})
	}
	return map[string]any{"bits": lgBits(s.Opts), "only": lgHexList(s.Opts.Only), "lines": ls, "events": evs}
}

func lgUnhexList(v any) []string {
	s, _ := v.(string)
	if s == "" {
		return nil
	}
	var out []string
	for _, h := range strings.Split(s, ",") {
		out = append(out, unhx(h))
	}
	return out
}

func lgOptsFromBits(bits string, only []string) pkglint.VerifLoggerOpts {
	b := func(i int) bool { return len(bits) > i && bits[i] == '1' }
	return pkglint.VerifLoggerOpts{ShowAutofix: b(0), Autofix: b(1), Explain: b(2), ShowSource: b(3), GccOutput: b(4), Quiet: b(5), Only: only}
}

func lgDecodeScript(v any) (s lgScript, ok bool) {
	m, ok := v.(map[string]any)
	if !ok {
		return s, false
	}
	bits, _ := m["bits"].(string)
	s.Opts = lgOptsFromBits(bits, lgUnhexList(m["only"]))
	ls, _ := m["lines"].([]any)
	for _, x := range ls {
		lm, _ := x.(map[string]any)
		f, _ := lm["file"].(string)
		n, _ := lm["lineno"].(float64)
		s.Lines = append(s.Lines, pkglint.VerifLogLine{File: unhx(f), Lineno: int(n), Raws: lgUnhexList(lm["raws"])})
	}
	evs, _ := m["events"].([]any)
	for _, x := range evs {
		em, _ := x.(map[string]any)
		str := func(k string) string { v, _ := em[k].(string); return v }
		e := pkglint.VerifEvent{}
		if k := str("kind"); k != "" {
			e.Kind = k[0]
		}
		if k := str("level"); k != "" {
			e.Level = k[0]
		}
		ln, _ := em["line"].(float64)
		e.Line = int(ln)
		e.Format, e.Arg = unhx(str("format")), unhx(str("arg"))
		e.HasArg, _ = em["hasarg"].(bool)
		e.Expl, e.Above, e.Texts, e.Below = lgUnhexList(em["expl"]), lgUnhexList(em["above"]), lgUnhexList(em["texts"]), lgUnhexList(em["below"])
		if a := str("actions"); a != "" {
			for _, p := range strings.Split(a, ",") {
				d, n, _ := strings.Cut(p, "/")
				k, _ := strconv.Atoi(n)
				e.Actions = append(e.Actions, pkglint.VerifAction{Descr: unhx(d), Lineno: k})
			}
		}
		e.Modified, _ = em["modified"].(bool)
		e.Loc, e.Msg = unhx(str("loc")), unhx(str("msg"))
		e.Args = lgUnhexList(em["args"])
		if nilargs, _ := em["nilargs"].(bool); !nilargs && e.Args == nil && e.Kind == 'Y' {
			e.Args = []string{}
		}
		s.Events = append(s.Events, e)
	}
	return s, true
}

// lgDisagree runs one script on both sides.
func lgDisagree(ctx *Ctx, s lgScript) (string, error) {
	ans, err := runOracle(ctx, lgOracle, []string{lgRequest(s, false)})
	if err != nil {
		return "", err
	}
	m, err := lgParseModel(ans[0])
	if err != nil {
		return "", err
	}
	return lgCompare(pkglint.VerifLoggerScript(s.Opts, s.Lines, s.Events), m), nil
}

// lgShrink removes events while pred keeps holding.
func lgShrink(s lgScript, pred func(lgScript) bool) lgScript {
	for changed := true; changed; {
		changed = false
		for i := len(s.Events) - 1; i >= 0; i-- {
			t := s
			t.Events = append(append([]pkglint.VerifEvent{}, s.Events[:i]...), s.Events[i+1:]...)
			if pred(t) {
				s = t
				changed = true
			}
		}
	}
	return s
}

// lgRunScripts is the shared driver: correspondence of every script, and the
// C08 relations (presentation, --only) on the real Logger when c08 is set.
func lgRunScripts(ctx *Ctx, res *Result, rng *Rng, n int, prop string, c08 bool) {
	scripts := make([]lgScript, n)
	reqs := make([]string, n)
	for i := range scripts {
		scripts[i] = lgGenScript(rng)
		reqs[i] = lgRequest(scripts[i], i%2 == 1)
	}
	ans, err := runOracle(ctx, lgOracle, reqs)
	if err != nil {
		res.Broken = err.Error()
		return
	}
	shrunk := map[string]int{}
	mayShrink := func(key string) bool { shrunk[key]++; return shrunk[key] <= 2 }
	for i, s := range scripts {
		m, err := lgParseModel(ans[i])
		if err != nil {
			res.Broken = err.Error()
			return
		}
		r := pkglint.VerifLoggerScript(s.Opts, s.Lines, s.Events)
		res.Count("logger.scripts", 1)
		res.Count("logger.events", len(s.Events))
		if m.Panicked {
			res.Count("logger.panic-both", 1)
		}
		if len(m.Emitted) > 0 {
			res.Count("logger.scripts-with-diagnostics", 1)
		}
		if strings.Contains(m.Out, "\n\t") {
			res.Count("logger.with-explanation-or-diff", 1)
		}
		if strings.Contains(m.Out, ">\t") {
			res.Count("logger.with-source", 1)
		}
		if strings.Contains(m.Out, "AUTOFIX: ") || strings.Contains(m.Out, ": autofix: ") {
			res.Count("logger.with-autofix-lines", 1)
		}
		if strings.Contains(m.Out, "(Run \"") {
			res.Count("logger.with-hints", 1)
		}
		if strings.Contains(m.Out, " found.\n") {
			res.Count("logger.with-counts", 1)
		}
		if strings.Contains(m.Out, "Looks fine.") {
			res.Count("logger.with-looks-fine", 1)
		}
		if strings.Contains(m.Out, "<U+") || strings.Contains(m.Out, "<0x") {
			res.Count("logger.with-escaped-byte", 1)
		}
		if d := lgCompare(r, m); d != "" && mayShrink("corr") {
			small := lgShrink(s, func(t lgScript) bool { x, err := lgDisagree(ctx, t); return err == nil && x != "" })
			d2, _ := lgDisagree(ctx, small)
			if d2 == "" {
				small, d2 = s, d
			}
			res.AddViolation(Violation{
				Key:        prop + "/correspondence/logger",
				What:       fmt.Sprintf("the real Logger and Model/Logger.v disagree on a script of %d events (options %s only=%q): %s", len(small.Events), lgBits(small.Opts), small.Opts.Only, d2),
				FoundInput: false, Size: lgSize(small),
				Replay: lgReplayMap("logger", small, map[string]any{"broken": "correspondence Logger (logging.go, Autofix.Apply) = Model.Logger.log_run"}),
			})
		}
		res.Evaluations++
		res.TracesValidated++
		if !c08 {
			c06CheckRealOutput(res, s, r)
			continue
		}
		if !lgHasNewlineMsg(s) {
			alt := lgAltOpts(rng, s.Opts)
			res.Count("logger.presentation-pairs", 1)
			if d := lgPresentation(s, alt); d != "" && mayShrink("pres") {
				small := lgShrink(s, func(t lgScript) bool { return lgPresentation(t, alt) != "" })
				res.AddViolation(Violation{
					Key:        "C08/logger/presentation",
					What:       fmt.Sprintf("presentation options change what the real Logger reports (script of %d events): %s", len(small.Events), lgPresentation(small, alt)),
					FoundInput: true, Size: lgSize(small),
					Replay: lgReplayMap("logger-pres", small, map[string]any{"altbits": lgBits(alt)}),
				})
			}
			if len(s.Opts.Only) > 0 {
				res.Count("logger.only-pairs", 1)
				if d := lgOnlySubset(s); d != "" && mayShrink("only") {
					small := lgShrink(s, func(t lgScript) bool { return lgOnlySubset(t) != "" })
					res.AddViolation(Violation{
						Key:        "C08/logger/only-not-subset",
						What:       fmt.Sprintf("--only %q makes the real Logger print a diagnostic the unrestricted Logger does not (script of %d events): %s", small.Opts.Only, len(small.Events), lgOnlySubset(small)),
						FoundInput: true, Size: lgSize(small),
						Replay: lgReplayMap("logger-only", small, nil),
					})
				}
			}
			res.Evaluations += 2
		}
	}
	if len(scripts) > 0 {
		s := scripts[0]
		r := pkglint.VerifLoggerScript(s.Opts, s.Lines, s.Events)
		res.Sample(map[string]any{"logger_script_events": len(s.Events), "options": lgBits(s.Opts), "stdout": c08Head(r.Stdout)})
	}
}

func c08LoggerScripts(ctx *Ctx, res *Result, rng *Rng) {
	n := 2500
	if ctx.Tier == "thorough" {
		n = 100000
	}
	lgRunScripts(ctx, res, rng, n, "C08", true)
	if res.Broken != "" {
		return
	}
	for k, min := range map[string]int{"logger.scripts-with-diagnostics": n / 3, "logger.with-source": n / 10, "logger.with-autofix-lines": n / 30,
		"logger.with-hints": n / 20, "logger.with-counts": n / 10, "logger.with-looks-fine": n / 20, "logger.with-escaped-byte": n / 10,
		"logger.presentation-pairs": n / 2, "logger.only-pairs": n / 10, "logger.panic-both": 1} {
		c08Floor(res, k, min)
	}
}

func c08ReplayLogger(ctx *Ctx, res *Result, rep map[string]any) {
	s, ok := lgDecodeScript(rep["script"])
	if !ok {
		res.Broken = "replay file has no script"
		return
	}
	switch rep["kind"] {
	case "logger":
		d, err := lgDisagree(ctx, s)
		if err != nil {
			res.Broken = err.Error()
			return
		}
		if d != "" {
			key, _ := rep["key"].(string)
			if key == "" {
				key = "C08/correspondence/logger"
			}
			res.AddViolation(Violation{Key: key, What: "replay: " + d, FoundInput: false, Size: lgSize(s), Replay: lgReplayMap("logger", s, nil)})
		}
	case "logger-pres":
		bits, _ := rep["altbits"].(string)
		alt := lgOptsFromBits(bits, s.Opts.Only)
		alt.ShowAutofix, alt.Autofix = s.Opts.ShowAutofix, s.Opts.Autofix
		if d := lgPresentation(s, alt); d != "" {
			res.AddViolation(Violation{Key: "C08/logger/presentation", What: "replay: " + d, FoundInput: true, Size: lgSize(s), Replay: lgReplayMap("logger-pres", s, map[string]any{"altbits": bits})})
		}
	case "logger-only":
		if d := lgOnlySubset(s); d != "" {
			res.AddViolation(Violation{Key: "C08/logger/only-not-subset", What: "replay: " + d, FoundInput: true, Size: lgSize(s), Replay: lgReplayMap("logger-only", s, nil)})
		}
	}
	res.Evaluations++
}
