package main

func c08LoggerScripts(ctx *Ctx, res *Result, rng *Rng) {}

func c08ReplayLogger(ctx *Ctx, res *Result, rep map[string]any) {}
