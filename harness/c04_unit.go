package main

// C04 unit correspondence: random event scripts through the real
// Logger+Autofix (shim VerifModesScript) in the modes default, -f, -F, -f -F
// (with and without --source, --only), compared with the extracted mode
// machine coq/Model/Modes.v (oracle c04).

import (
	"fmt"
	"os"
	"path/filepath"
	"regexp"
	"strconv"
	"strings"

	pkglint "github.com/rillig/pkglint/v23"
)

type c04Script struct {
	Only   []string
	Lines  []pkglint.VerifModesLine
	Events []pkglint.VerifModesEvent
}

var c04Toks = []string{"X", "=", " ", "\t", "ab", "a", "b", "aa", "v", "+=", "#", "$"}
var c04Formats = []string{"Msg one %s.", "Msg two: %s", "Other thing %s.", "Msg one %s!", "SilentAutofixFormat", "Third %s"}
var c04Args = []string{"a", "b", "\"q\""}
var c04Onlys = [][]string{nil, nil, nil, {"one"}, {"Msg"}, {"zzz"}, {"two", "Other"}, {"Silent"}, {"%s."}}

func c04RandText(r *Rng, n int) string {
	var sb strings.Builder
	for i := 0; i < n; i++ {
		sb.WriteString(Pick(r, c04Toks))
	}
	return sb.String()
}

func c04GenScript(r *Rng, dir string) c04Script {
	var s c04Script
	s.Only = Pick(r, c04Onlys)
	nlines := 1 + r.Intn(4)
	files := []string{filepath.Join(dir, "f.mk")}
	if r.Chance(30) {
		files = append(files, filepath.Join(dir, "g.mk"))
	}
	lineno := map[string]int{}
	for i := 0; i < nlines; i++ {
		f := Pick(r, files)
		if r.Chance(8) { // a line that stands for the whole file
			s.Lines = append(s.Lines, pkglint.VerifModesLine{File: f, Lineno: 0})
			continue
		}
		nraw := 1
		if r.Chance(35) {
			nraw = 2 + r.Intn(2)
		}
		var raws, parts []string
		for j := 0; j < nraw; j++ {
			t := c04RandText(r, 1+r.Intn(5))
			parts = append(parts, strings.TrimSpace(t))
			if j < nraw-1 {
				t += " \\"
			}
			raws = append(raws, t+"\n")
		}
		if r.Chance(5) {
			raws[nraw-1] = strings.TrimSuffix(raws[nraw-1], "\n") // no final newline
		}
		first := lineno[f] + 1
		lineno[f] = first + nraw - 1
		s.Lines = append(s.Lines, pkglint.VerifModesLine{File: f, Lineno: first, Text: strings.Join(parts, " "), Raw: raws})
	}
	nev := 1 + r.Intn(40)
	for i := 0; i < nev; i++ {
		li := r.Intn(len(s.Lines))
		ln := s.Lines[li]
		lv := Pick(r, []string{"E", "W", "N"})
		format := Pick(r, c04Formats)
		arg := Pick(r, c04Args)
		switch k := r.Intn(100); {
		case k < 25:
			s.Events = append(s.Events, pkglint.VerifModesEvent{Kind: "diag", Line: li, Level: lv, Format: format, Arg: arg})
		case k < 33:
			s.Events = append(s.Events, pkglint.VerifModesEvent{Kind: "explain"})
		case k < 85:
			e := pkglint.VerifModesEvent{Kind: "fix", Line: li, Level: lv, Format: format, Arg: arg}
			if format == "SilentAutofixFormat" {
				e.Level = "N"
				e.Explain = r.Chance(3) // an assertion failure
			} else {
				e.Explain = r.Chance(40)
			}
			if r.Chance(2) {
				e.Format = "" // skip() asserts a non-empty format
			}
			nops := r.Intn(4)
			for j := 0; j < nops; j++ {
				var o pkglint.VerifModesOp
				switch r.Intn(12) {
				case 0, 1, 2:
					o = pkglint.VerifModesOp{Kind: "RA", Prefix: Pick(r, []string{"", "", "X", " ", "="}), From: Pick(r, c04Toks), To: Pick(r, c04Toks)}
					if r.Chance(3) {
						o.From = ""
					}
				case 3, 4, 5:
					o = pkglint.VerifModesOp{Kind: "RT", From: Pick(r, c04Toks), To: Pick(r, c04Toks)}
					if len(ln.Raw) > 0 && r.Chance(85) { // valid with respect to the original line
						o.RawIndex = r.Intn(len(ln.Raw))
						raw := ln.Raw[o.RawIndex]
						o.TextIndex = r.Intn(len(raw))
						n := r.Intn(3)
						if o.TextIndex+n > len(raw) {
							n = len(raw) - o.TextIndex
						}
						o.From = raw[o.TextIndex : o.TextIndex+n]
						for o.To == o.From {
							o.To = Pick(r, c04Toks)
						}
					} else {
						o.RawIndex, o.TextIndex = r.Intn(3), r.Intn(6)
					}
				case 6, 7:
					o = pkglint.VerifModesOp{Kind: "IA", Text: c04RandText(r, r.Intn(3))}
				case 8:
					o = pkglint.VerifModesOp{Kind: "IB", Text: c04RandText(r, r.Intn(3))}
				case 9:
					o = pkglint.VerifModesOp{Kind: "DL"}
				default:
					o = pkglint.VerifModesOp{Kind: "DS", RawIndex: r.Intn(2), Text: Pick(r, []string{"Sorting the whole file.", "Clearing executable bits"})}
				}
				e.Ops = append(e.Ops, o)
			}
			s.Events = append(s.Events, e)
		case k < 93:
			s.Events = append(s.Events, pkglint.VerifModesEvent{Kind: "save"})
		default:
			s.Events = append(s.Events, pkglint.VerifModesEvent{Kind: "summary"})
		}
	}
	if r.Chance(70) {
		s.Events = append(s.Events, pkglint.VerifModesEvent{Kind: "save"}, pkglint.VerifModesEvent{Kind: "summary"})
	}
	return s
}

func c04Msg(format, arg string) string {
	if !strings.Contains(format, "%s") {
		return format
	}
	return fmt.Sprintf(format, arg)
}

func (s c04Script) Request(show, fix bool) string {
	bs := func(b bool) string {
		if b {
			return "1"
		}
		return "0"
	}
	t := []string{"run", bs(show), bs(fix), strconv.Itoa(len(s.Only))}
	for _, o := range s.Only {
		t = append(t, hx(o))
	}
	t = append(t, strconv.Itoa(len(s.Lines)))
	for _, l := range s.Lines {
		t = append(t, hx(l.File), strconv.Itoa(l.Lineno), hx(l.Text), strconv.Itoa(len(l.Raw)))
		for _, r := range l.Raw {
			t = append(t, hx(r))
		}
	}
	t = append(t, strconv.Itoa(len(s.Events)))
	for _, e := range s.Events {
		switch e.Kind {
		case "diag":
			t = append(t, "D", strconv.Itoa(e.Line), e.Level, hx(e.Format), hx(c04Msg(e.Format, e.Arg)))
		case "explain":
			t = append(t, "X")
		case "fix":
			t = append(t, "F", strconv.Itoa(e.Line), e.Level, hx(e.Format), hx(c04Msg(e.Format, e.Arg)), bs(e.Explain), strconv.Itoa(len(e.Ops)))
			for _, o := range e.Ops {
				switch o.Kind {
				case "RA":
					t = append(t, "RA", hx(o.Prefix), hx(o.From), hx(o.To))
				case "RT":
					t = append(t, "RT", strconv.Itoa(o.RawIndex), strconv.Itoa(o.TextIndex), hx(o.From), hx(o.To))
				case "IA", "IB":
					t = append(t, o.Kind, hx(o.Text))
				case "DL":
					t = append(t, "DL")
				case "DS":
					t = append(t, "DS", strconv.Itoa(o.RawIndex), hx(o.Text))
				}
			}
		case "save":
			t = append(t, "S")
		case "summary":
			t = append(t, "M")
		}
	}
	return strings.Join(t, " ")
}

// the model's answer, rendered as canonical strings
type c04Obs1 struct {
	Panic            bool
	Items            []string
	AutofixAvailable bool
	ExplAvailable    bool
	Counters         string
	Lines            []string
}

func c04HexList(s string) []string { // "<n>,hex,hex"
	parts := strings.Split(s, ",")
	var out []string
	for _, p := range parts[1:] {
		out = append(out, unhx(p))
	}
	return out
}

func c04ParseOracle(ans string) (c04Obs1, error) {
	var o c04Obs1
	f := strings.Split(ans, "|")
	if len(f) != 6 {
		return o, fmt.Errorf("oracle answer %q", ans)
	}
	o.Panic = f[0] == "1"
	for _, it := range strings.Fields(f[1]) {
		p := strings.Split(it, ".")
		switch p[0] {
		case "D":
			o.Items = append(o.Items, fmt.Sprintf("D|%s|%s|%s|%s|%s", p[1], unhx(p[2]), p[3], p[4], unhx(p[5])))
		case "A":
			var desc string
			switch p[3] {
			case "R":
				desc = fmt.Sprintf("Replacing %q with %q.", unhx(p[4]), unhx(p[5]))
			case "IA":
				desc = fmt.Sprintf("Inserting a line %q above this line.", unhx(p[4]))
			case "IB":
				desc = fmt.Sprintf("Inserting a line %q below this line.", unhx(p[4]))
			case "DL":
				desc = "Deleting this line."
			case "C":
				desc = unhx(p[4])
			}
			o.Items = append(o.Items, fmt.Sprintf("A|%s|%s|%s", unhx(p[1]), p[2], desc))
		case "S":
			o.Items = append(o.Items, fmt.Sprintf("S|%s|%s|%s", p[1], p[2], p[3]))
		default:
			o.Items = append(o.Items, p[0])
		}
	}
	o.AutofixAvailable = f[2] == "1"
	o.ExplAvailable = f[3] == "1"
	o.Counters = f[4]
	if f[5] != "" {
		for _, l := range strings.Split(f[5], "/") {
			p := strings.Split(l, ";")
			o.Lines = append(o.Lines, fmt.Sprintf("%q %q %q %q %s", c04HexList(p[0]), unhx(p[1]), c04HexList(p[2]), c04HexList(p[3]), p[4]))
		}
	}
	return o, nil
}

var reCount = regexp.MustCompile(`(\d+) (error|warning|note)s?`)

// the real output, rendered the same way
func c04ParseReal(r pkglint.VerifModesResult, source bool) c04Obs1 {
	var o c04Obs1
	o.Panic = r.Panic != ""
	for _, l := range strings.Split(r.Out, "\n") {
		if l == "" {
			continue
		}
		if source && (strings.HasPrefix(l, ">\t") || strings.HasPrefix(l, "+\t") || strings.HasPrefix(l, "-\t") || strings.HasPrefix(l, "\t")) {
			continue
		}
		if d, ok := ParseDiag(l); ok {
			if d.Level == "AUTOFIX" {
				o.Items = append(o.Items, fmt.Sprintf("A|%s|%d|%s", d.Path, d.Line1, d.Msg))
			} else {
				lv := map[string]string{"ERROR": "E", "WARN": "W", "NOTE": "N"}[d.Level]
				o.Items = append(o.Items, fmt.Sprintf("D|%s|%s|%d|%d|%s", lv, d.Path, d.Line1, d.Line2, d.Msg))
			}
			continue
		}
		switch {
		case l == "Looks fine.":
			o.Items = append(o.Items, "S|0|0|?")
		case strings.HasSuffix(l, " found."):
			c := map[string]string{"error": "0", "warning": "0", "note": "0"}
			for _, m := range reCount.FindAllStringSubmatch(l, -1) {
				c[m[2]] = m[1]
			}
			o.Items = append(o.Items, fmt.Sprintf("S|%s|%s|%s", c["error"], c["warning"], c["note"]))
		case strings.HasSuffix(l, "to show explanations.)"):
			o.Items = append(o.Items, "HE")
		case strings.HasSuffix(l, "to show what can be fixed automatically.)"):
			o.Items = append(o.Items, "HS")
		case strings.HasSuffix(l, "to automatically fix some issues.)"):
			o.Items = append(o.Items, "HF")
		default:
			o.Items = append(o.Items, "?"+l)
		}
	}
	o.AutofixAvailable = r.AutofixAvailable
	o.ExplAvailable = r.ExplanationsAvailable
	o.Counters = fmt.Sprintf("%d %d %d", r.Errors, r.Warnings, r.Notes)
	for _, l := range r.Lines {
		o.Lines = append(o.Lines, fmt.Sprintf("%q %q %q %q %s", l.Texts, l.Text, l.Above, l.Below, map[bool]string{true: "1", false: "0"}[l.Modified]))
	}
	return o
}

func c04SameItems(model, real []string) bool {
	if len(model) != len(real) {
		return false
	}
	for i := range model {
		if model[i] == real[i] {
			continue
		}
		// "Looks fine." does not show the number of notes
		if strings.HasPrefix(model[i], "S|0|0|") && real[i] == "S|0|0|?" {
			continue
		}
		return false
	}
	return true
}

func c04FixItems(items []string) []string {
	var out []string
	for _, it := range items {
		if strings.HasPrefix(it, "A|") {
			out = append(out, it)
		}
	}
	return out
}

type c04ModeSpec struct {
	name      string
	show, fix bool
}

var c04UnitModes = []c04ModeSpec{{"default", false, false}, {"-f", true, false}, {"-F", false, true}, {"-f -F", true, true}}

func (s c04Script) Replay() map[string]any {
	var evs []any
	for _, e := range s.Events {
		var ops []any
		for _, o := range e.Ops {
			ops = append(ops, map[string]any{"kind": o.Kind, "prefix": hx(o.Prefix), "from": hx(o.From), "to": hx(o.To), "raw": o.RawIndex, "idx": o.TextIndex, "text": hx(o.Text)})
		}
		evs = append(evs, map[string]any{"kind": e.Kind, "line": e.Line, "level": e.Level, "format": hx(e.Format), "arg": hx(e.Arg), "explain": e.Explain, "ops": ops})
	}
	var ls []any
	for _, l := range s.Lines {
		var raws []any
		for _, r := range l.Raw {
			raws = append(raws, hx(r))
		}
		ls = append(ls, map[string]any{"file": filepath.Base(l.File), "lineno": l.Lineno, "text": hx(l.Text), "raw": raws})
	}
	var only []any
	for _, o := range s.Only {
		only = append(only, hx(o))
	}
	return map[string]any{"kind": "script", "only": only, "lines": ls, "events": evs}
}

func c04ScriptFromReplay(rep map[string]any, dir string) c04Script {
	var s c04Script
	str := func(x any) string { v, _ := x.(string); return unhx(v) }
	num := func(x any) int { v, _ := x.(float64); return int(v) }
	if os, ok := rep["only"].([]any); ok {
		for _, o := range os {
			s.Only = append(s.Only, str(o))
		}
	}
	if ls, ok := rep["lines"].([]any); ok {
		for _, l := range ls {
			m := l.(map[string]any)
			vl := pkglint.VerifModesLine{File: filepath.Join(dir, m["file"].(string)), Lineno: num(m["lineno"]), Text: str(m["text"])}
			if rs, ok := m["raw"].([]any); ok {
				for _, r := range rs {
					vl.Raw = append(vl.Raw, str(r))
				}
			}
			s.Lines = append(s.Lines, vl)
		}
	}
	if es, ok := rep["events"].([]any); ok {
		for _, e := range es {
			m := e.(map[string]any)
			ev := pkglint.VerifModesEvent{Kind: m["kind"].(string), Line: num(m["line"]), Format: str(m["format"]), Arg: str(m["arg"])}
			ev.Level, _ = m["level"].(string)
			ev.Explain, _ = m["explain"].(bool)
			if os, ok := m["ops"].([]any); ok {
				for _, o := range os {
					om := o.(map[string]any)
					ev.Ops = append(ev.Ops, pkglint.VerifModesOp{Kind: om["kind"].(string), Prefix: str(om["prefix"]), From: str(om["from"]), To: str(om["to"]),
						RawIndex: num(om["raw"]), TextIndex: num(om["idx"]), Text: str(om["text"])})
				}
			}
			s.Events = append(s.Events, ev)
		}
	}
	return s
}

// c04CheckScripts runs the scripts through code and model and compares.
func c04CheckScripts(ctx *Ctx, res *Result, scripts []c04Script, sources []bool) {
	var reqs []string
	for _, s := range scripts {
		for _, m := range c04UnitModes {
			reqs = append(reqs, s.Request(m.show, m.fix))
		}
	}
	ans, err := runOracle(ctx, "c04", reqs)
	if err != nil {
		res.Broken = err.Error()
		return
	}
	for si, s := range scripts {
		real := make([]c04Obs1, len(c04UnitModes))
		for mi, m := range c04UnitModes {
			// fresh files: -F rewrites them
			for _, l := range s.Lines {
				os.MkdirAll(filepath.Dir(l.File), 0o755)
			}
			files := map[string]string{}
			for _, l := range s.Lines {
				files[l.File] += strings.Join(l.Raw, "")
			}
			for f, c := range files {
				os.WriteFile(f, []byte(c), 0o644)
			}
			r := pkglint.VerifModesScript(m.show, m.fix, sources[si], s.Only, s.Lines, s.Events)
			real[mi] = c04ParseReal(r, sources[si])
			model, err := c04ParseOracle(ans[si*len(c04UnitModes)+mi])
			if err != nil {
				res.Broken = err.Error()
				return
			}
			res.TracesValidated++
			res.Count("unit.mode "+m.name, 1)
			if real[mi].Panic {
				res.Count("unit.panics (assertions of Autofix reached)", 1)
			}
			for _, it := range real[mi].Items {
				switch {
				case strings.HasPrefix(it, "A|"):
					res.Count("unit.item AUTOFIX "+MsgKind(it[strings.LastIndex(it, "|")+1:]), 1)
				case strings.HasPrefix(it, "D|"):
					res.Count("unit.item diagnostic", 1)
				default:
					res.Count("unit.item "+strings.SplitN(it, "|", 2)[0], 1)
				}
			}
			same := real[mi].Panic == model.Panic && c04SameItems(model.Items, real[mi].Items)
			if same && !model.Panic {
				same = real[mi].AutofixAvailable == model.AutofixAvailable && real[mi].ExplAvailable == model.ExplAvailable &&
					real[mi].Counters == model.Counters && strings.Join(real[mi].Lines, "\n") == strings.Join(model.Lines, "\n")
			}
			if !same {
				rep := s.Replay()
				rep["mode"] = m.name
				rep["source"] = sources[si]
				rep["broken"] = "correspondence Logger+Autofix (logging.go, autofix.go) = Model/Modes.v run_events"
				rep["real"] = map[string]any{"panic": r.Panic, "items": real[mi].Items, "autofixAvailable": real[mi].AutofixAvailable, "explAvailable": real[mi].ExplAvailable, "counters": real[mi].Counters, "lines": real[mi].Lines}
				rep["model"] = map[string]any{"panic": model.Panic, "items": model.Items, "autofixAvailable": model.AutofixAvailable, "explAvailable": model.ExplAvailable, "counters": model.Counters, "lines": model.Lines}
				res.AddViolation(Violation{Key: "C04/correspondence/modes-script/" + m.name, FoundInput: false, Size: len(s.Events)*10 + len(s.Lines),
					What:   fmt.Sprintf("model and Logger+Autofix disagree in mode %s on a script of %d events", m.name, len(s.Events)),
					Replay: rep})
			}
		}
		// the property, evaluated on the implementation itself (constant checks):
		// -f and -F log the same actions; -f -F as well
		if !real[1].Panic && !real[2].Panic && !real[3].Panic {
			a, b, c := c04FixItems(real[1].Items), c04FixItems(real[2].Items), c04FixItems(real[3].Items)
			if strings.Join(a, "\n") != strings.Join(b, "\n") || strings.Join(b, "\n") != strings.Join(c, "\n") {
				rep := s.Replay()
				rep["source"] = sources[si]
				res.AddViolation(Violation{Key: "C04/unit/show-vs-do", FoundInput: true, Size: len(s.Events)*10 + len(s.Lines),
					What:   fmt.Sprintf("the same script logs different AUTOFIX actions with -f (%d), -F (%d), -f -F (%d)", len(a), len(b), len(c)),
					Replay: rep})
			}
			if len(a) > 0 {
				res.Count("unit.scripts with actions", 1)
			}
		}
		// the default run advertises only when -f shows an action (scripts ending in save+summary)
		if !real[0].Panic && !real[1].Panic {
			adv := false
			for _, it := range real[0].Items {
				if it == "HF" || it == "HS" {
					adv = true
				}
			}
			if adv && len(c04FixItems(real[1].Items)) == 0 {
				rep := s.Replay()
				rep["source"] = sources[si]
				res.AddViolation(Violation{Key: "C04/unit/advertise-without-show", FoundInput: true, Size: len(s.Events)*10 + len(s.Lines),
					What: "the default run prints a fix hint, the same script with -f logs no action", Replay: rep})
			}
			if adv {
				res.Count("unit.default scripts with hint", 1)
			}
		}
		res.Evaluations++
	}
}

func c04Unit(ctx *Ctx, res *Result, rng *Rng, n int) {
	dir := filepath.Join(ctx.Work, "c04unit")
	os.MkdirAll(dir, 0o755)
	defer os.RemoveAll(dir)
	scripts := make([]c04Script, n)
	sources := make([]bool, n)
	for i := range scripts {
		scripts[i] = c04GenScript(rng, dir)
		sources[i] = rng.Chance(30)
	}
	c04CheckScripts(ctx, res, scripts, sources)
	if len(scripts) > 2 {
		res.Sample(map[string]any{"script": scripts[1].Replay()})
	}
}
