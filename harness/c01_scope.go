package main

// C01 unit correspondence, second part: Scope (scope.go) = Model/Scope.v and
// resolveExprs (pkglint.go) = Model/Resolve.v. The real functions run in
// worker processes under a CPU and an address-space limit: a call that does
// not return is found by the limit, not by the wall clock.

import (
	"bufio"
	"fmt"
	"os"
	"os/exec"
	"path/filepath"
	"strings"
	"sync"
	"syscall"

	pkglint "github.com/rillig/pkglint/v23"
)

// ---- job encoding ----

func c01OpsJob(ops []pkglint.VerifScopeOp) string {
	if len(ops) == 0 {
		return "-"
	}
	parts := make([]string, len(ops))
	for i, o := range ops {
		switch o.Kind {
		case 'D':
			parts[i] = "D:" + hx(o.Name) + ":" + hx(o.Line)
		case 'F':
			parts[i] = "F:" + hx(o.Name) + ":" + hx(o.Value)
		default:
			parts[i] = "U:" + hx(o.Name) + ":" + hx(o.Line) + ":" + bit(o.Load)
		}
	}
	return strings.Join(parts, "+")
}

func c01OpsParse(s string) []pkglint.VerifScopeOp {
	if s == "-" || s == "" {
		return nil
	}
	var ops []pkglint.VerifScopeOp
	for _, p := range strings.Split(s, "+") {
		f := strings.Split(p, ":")
		switch {
		case f[0] == "D" && len(f) == 3:
			ops = append(ops, pkglint.VerifScopeOp{Kind: 'D', Name: unhx(f[1]), Line: unhx(f[2])})
		case f[0] == "F" && len(f) == 3:
			ops = append(ops, pkglint.VerifScopeOp{Kind: 'F', Name: unhx(f[1]), Value: unhx(f[2])})
		case f[0] == "U" && len(f) == 4:
			ops = append(ops, pkglint.VerifScopeOp{Kind: 'U', Name: unhx(f[1]), Line: unhx(f[2]), Load: f[3] == "1"})
		}
	}
	return ops
}

func c01InfosStr(infos []pkglint.VerifLineInfo) string {
	if len(infos) == 0 {
		return "-"
	}
	parts := make([]string, len(infos))
	for i, in := range infos {
		parts[i] = fmt.Sprintf("%d.%d.%s", in.Kind, in.Op, hx(in.Value))
	}
	return strings.Join(parts, ",")
}

// the oracle's view of the operations: line = (id, kind, op, value) as the real parser saw it
func c01OpsOracle(ops []pkglint.VerifScopeOp, infos string, sep string) string {
	if len(ops) == 0 {
		return "-"
	}
	inf := strings.Split(infos, ",")
	parts := make([]string, len(ops))
	for i, o := range ops {
		k, op, v := "2", "0", "-"
		if i < len(inf) {
			if f := strings.Split(inf[i], "."); len(f) == 3 {
				k, op, v = f[0], f[1], f[2]
			}
		}
		switch o.Kind {
		case 'D':
			parts[i] = fmt.Sprintf("D:%s:%d:%s:%s:%s", hx(o.Name), i+1, k, op, v)
		case 'F':
			parts[i] = "F:" + hx(o.Name) + ":" + hx(o.Value)
		default:
			parts[i] = fmt.Sprintf("U:%s:%d:%s", hx(o.Name), i+1, bit(o.Load))
		}
	}
	return strings.Join(parts, sep)
}

func c01ObsStr(o pkglint.VerifScopeObs) string {
	return fmt.Sprintf("%d,%s,%s,%s,%s,%s,%d,%d,%d,%d,%s,%s,%s", o.Mentioned, bit(o.Defined), bit(o.DefinedSimilar), bit(o.Used), bit(o.UsedSimilar),
		bit(o.AtLoad), o.First, o.Last, o.Commented, o.FirstUse, hx(o.Value), bit(o.Found), bit(o.Indeterminate))
}

// worker: jobs.txt -> results.txt, one answer line per job.
//
//	S <hexname.hexname...> <ops>            -> <infos>\t<trace>        | panic\t<text>
//	R <mode> <allops> <pkgops> <hextext>    -> <infos>\t<infos>\t<hasExpr>\t<hexresult> | panic\t<text>
//	A <hexname.hexname...> <otherops> <ops> -> <infos>\t<obs;obs...>  | panic\t<text>   (target.DefineAll(other))
func init() {
	register("tool-c01-scope", func(ctx *Ctx) *Result {
		in, err := os.Open(filepath.Join(ctx.Work, "jobs.txt"))
		if err != nil {
			return &Result{Broken: err.Error()}
		}
		defer in.Close()
		out, _ := os.Create(filepath.Join(ctx.Work, "results.txt"))
		defer out.Close()
		w := bufio.NewWriterSize(out, 1<<16)
		careful := os.Getenv("C01_CAREFUL") == "1"
		if p := pkglint.VerifIndentSetup(""); p != "" {
			return &Result{Broken: "VerifIndentSetup: " + p}
		}
		sc := bufio.NewScanner(in)
		sc.Buffer(make([]byte, 1<<20), 1<<26)
		for sc.Scan() {
			f := strings.Fields(sc.Text())
			switch {
			case len(f) == 3 && f[0] == "S":
				var names []string
				for _, n := range strings.Split(f[1], ".") {
					names = append(names, unhx(n))
				}
				infos, trace, p := pkglint.VerifScopeScript(c01OpsParse(f[2]), names)
				if p != "" {
					fmt.Fprintf(w, "panic\t%s\n", hx(p))
					break
				}
				steps := make([]string, len(trace))
				for i, st := range trace {
					obs := make([]string, len(st))
					for j, o := range st {
						obs[j] = c01ObsStr(o)
					}
					steps[i] = strings.Join(obs, ";")
				}
				fmt.Fprintf(w, "%s\t%s\n", c01InfosStr(infos), strings.Join(steps, "|"))
			case len(f) == 4 && f[0] == "A":
				var names []string
				for _, n := range strings.Split(f[1], ".") {
					names = append(names, unhx(n))
				}
				infos, obs, p := pkglint.VerifScopeDefineAll(c01OpsParse(f[2]), c01OpsParse(f[3]), names)
				if p != "" {
					fmt.Fprintf(w, "panic\t%s\n", hx(p))
					break
				}
				os := make([]string, len(obs))
				for j, o := range obs {
					os[j] = c01ObsStr(o)
				}
				fmt.Fprintf(w, "%s\t%s\n", c01InfosStr(infos), strings.Join(os, ";"))
			case len(f) == 5 && f[0] == "R":
				mode := int(f[1][0] - '0')
				ai, pi, he, r, p := pkglint.VerifResolveExprs(c01OpsParse(f[2]), c01OpsParse(f[3]), mode, unhx(f[4]))
				if p != "" {
					fmt.Fprintf(w, "panic\t%s\n", hx(p))
					break
				}
				fmt.Fprintf(w, "%s\t%s\t%s\t%s\n", c01InfosStr(ai), c01InfosStr(pi), bit(he), hx(r))
			default:
				fmt.Fprintf(w, "badjob\n")
			}
			if careful {
				w.Flush()
			}
		}
		w.Flush()
		return &Result{}
	}, nil)
}

// c01RunWorker runs one batch of jobs in a worker process under a CPU limit
// (seconds) and an address-space limit; it returns the answers that arrived
// and how the process ended ("" = normally).
func c01RunWorker(ctx *Ctx, dir string, jobs []string, cpuSec int, careful bool) (answers []string, ended string) {
	os.MkdirAll(dir, 0o755)
	os.Remove(filepath.Join(dir, "results.txt"))
	if err := os.WriteFile(filepath.Join(dir, "jobs.txt"), []byte(strings.Join(jobs, "\n")+"\n"), 0o644); err != nil {
		return nil, "machinery: " + err.Error()
	}
	sh := `ulimit -t "$0" && ulimit -v 6291456 && exec "$@"`
	cmd := exec.Command("/bin/sh", "-c", sh, fmt.Sprint(cpuSec), os.Args[0], "run", "tool-c01-scope", "work="+dir, "out="+filepath.Join(dir, "res.json"))
	cmd.Env = append(os.Environ(), "GOMAXPROCS=2", "GOMEMLIMIT=3GiB")
	if careful {
		cmd.Env = append(cmd.Env, "C01_CAREFUL=1")
	}
	outb, err := cmd.CombinedOutput()
	if err != nil {
		ended = "exit: " + err.Error()
		if ws, ok := cmd.ProcessState.Sys().(syscall.WaitStatus); ok && ws.Signaled() {
			ended = "killed by " + ws.Signal().String() + " (CPU limit " + fmt.Sprint(cpuSec) + " s)"
		} else if strings.Contains(string(outb), "out of memory") || strings.Contains(string(outb), "cannot allocate") {
			ended = "out of memory (address-space limit 6 GiB): " + firstLines(string(outb), 2)
		} else {
			ended += ": " + firstLines(string(outb), 3)
		}
	}
	if f, e := os.Open(filepath.Join(dir, "results.txt")); e == nil {
		sc := bufio.NewScanner(f)
		sc.Buffer(make([]byte, 1<<20), 1<<26)
		for sc.Scan() {
			answers = append(answers, sc.Text())
		}
		f.Close()
	}
	if ended != "" && len(answers) > 0 && !careful {
		// the last line may be cut in the middle of a buffered write
		answers = answers[:len(answers)-1]
	}
	if len(answers) > len(jobs) {
		answers = answers[:len(jobs)]
	}
	return
}

// c01RunScopeJobs shards the jobs over 16 workers. A worker that dies before
// answering everything is re-run on the rest with one flush per answer and a
// small CPU limit: the first unanswered job is the one that did not return.
func c01RunScopeJobs(ctx *Ctx, jobs []string, tag string) (answers []string, stuck map[int]string, err error) {
	const shards = 16
	// CPU seconds for one shard: the unchanged code needs well below one second for a quick shard
	bulkCPU := 12
	if ctx.Tier == "thorough" {
		bulkCPU = 90
	}
	answers = make([]string, len(jobs))
	stuck = map[int]string{}
	var mu sync.Mutex
	var wg sync.WaitGroup
	base := filepath.Join(ctx.Work, "c01scope-"+tag)
	for s := 0; s < shards; s++ {
		wg.Add(1)
		go func(s int) {
			defer wg.Done()
			var idx []int
			for i := s; i < len(jobs); i += shards {
				idx = append(idx, i)
			}
			dir := filepath.Join(base, fmt.Sprint(s))
			found := 0
			for len(idx) > 0 {
				batch := make([]string, len(idx))
				for k, i := range idx {
					batch[k] = jobs[i]
				}
				ans, ended := c01RunWorker(ctx, dir, batch, bulkCPU, false)
				mu.Lock()
				for k, a := range ans {
					answers[idx[k]] = a
				}
				mu.Unlock()
				idx = idx[len(ans):]
				if ended == "" {
					if len(idx) > 0 {
						mu.Lock()
						err = fmt.Errorf("scope worker %d: %d jobs unanswered after a normal exit", s, len(idx))
						mu.Unlock()
					}
					return
				}
				if strings.HasPrefix(ended, "machinery") {
					mu.Lock()
					err = fmt.Errorf("scope worker %d: %s", s, ended)
					mu.Unlock()
					return
				}
				// careful pass over the rest
				batch = batch[len(ans):]
				ans2, ended2 := c01RunWorker(ctx, dir, batch, 4, true)
				mu.Lock()
				for k, a := range ans2 {
					answers[idx[k]] = a
				}
				if ended2 != "" && len(ans2) < len(idx) {
					stuck[idx[len(ans2)]] = ended2
					found++
				}
				mu.Unlock()
				if ended2 == "" || len(ans2) >= len(idx) {
					return // did not die again before answering everything
				}
				idx = idx[len(ans2)+1:]
				if found >= 1 {
					mu.Lock()
					for _, i := range idx {
						answers[i] = "skipped"
					}
					mu.Unlock()
					return
				}
			}
		}(s)
	}
	wg.Wait()
	os.RemoveAll(base)
	return
}

// ---- Scope ----

type c01ScopeCase struct {
	ops   []pkglint.VerifScopeOp
	names []string
}

func (c c01ScopeCase) job() string {
	hn := make([]string, len(c.names))
	for i, n := range c.names {
		hn[i] = hx(n)
	}
	return "S " + strings.Join(hn, ".") + " " + c01OpsJob(c.ops)
}

func (c c01ScopeCase) readable() string {
	var sb strings.Builder
	for _, o := range c.ops {
		switch o.Kind {
		case 'D':
			fmt.Fprintf(&sb, "Define(%q, %q); ", o.Name, o.Line)
		case 'F':
			fmt.Fprintf(&sb, "Fallback(%q, %q); ", o.Name, o.Value)
		default:
			fmt.Fprintf(&sb, "Use(%q, %q, load=%v); ", o.Name, o.Line, o.Load)
		}
	}
	return sb.String()
}

func c01DefineOp(name, kind string) pkglint.VerifScopeOp {
	line := ""
	switch kind {
	case "=":
		line = name + "=\tv"
	case "+=":
		line = name + "+=\tw"
	case "?=":
		line = name + "?=\td"
	case "!=":
		line = name + "!=\tcmd"
	case ":=":
		line = name + ":=\te"
	case "#":
		line = "#" + name + "=\tc"
	case "#+=":
		line = "#" + name + "+=\tc2"
	case "=empty":
		line = name + "="
	default:
		line = "# " + name + " is documented here."
	}
	return pkglint.VerifScopeOp{Kind: 'D', Name: name, Line: line}
}

func c01ScopeAlphabet(full bool) []pkglint.VerifScopeOp {
	var al []pkglint.VerifScopeOp
	kinds := []string{"=", "+=", "?=", "!=", "#", "doc"}
	if full {
		kinds = append(kinds, ":=", "=empty")
	}
	for _, n := range []string{"A", "A.b"} {
		for _, k := range kinds {
			al = append(al, c01DefineOp(n, k))
		}
	}
	al = append(al, pkglint.VerifScopeOp{Kind: 'F', Name: "A", Value: "f"}, pkglint.VerifScopeOp{Kind: 'F', Name: "A", Value: ""},
		pkglint.VerifScopeOp{Kind: 'U', Name: "A.b", Line: "X=\t${A.b}", Load: false}, pkglint.VerifScopeOp{Kind: 'U', Name: "A", Line: "X:=\t${A}", Load: true})
	if full {
		al = append(al, pkglint.VerifScopeOp{Kind: 'F', Name: "A.b", Value: "g"}, pkglint.VerifScopeOp{Kind: 'U', Name: "A.*", Line: "X=\t${A.*}", Load: false})
	}
	return al
}

var c01ScopeNames = []string{"A", "A.b", "A.*", "B"}

func c01RandomScopeCase(r *Rng) c01ScopeCase {
	names := []string{"A", "A.b", "A.c", "A.a", "B", "B.x.y", "B.a.z", ".x", "A.", "PKG_OPTIONS.p0"}
	kinds := []string{"=", "+=", "?=", "!=", ":=", "#", "#+=", "=empty", "doc"}
	n := 1 + r.Intn(9)
	var ops []pkglint.VerifScopeOp
	for i := 0; i < n; i++ {
		name := Pick(r, names)
		switch r.Intn(8) {
		case 0:
			ops = append(ops, pkglint.VerifScopeOp{Kind: 'F', Name: name, Value: Pick(r, []string{"", "f", "${A}"})})
		case 1:
			ops = append(ops, pkglint.VerifScopeOp{Kind: 'U', Name: name, Line: "X=\t${" + name + "}", Load: r.Bool()})
		default:
			op := c01DefineOp(name, Pick(r, kinds))
			if r.Chance(15) { // Define under another name than the line's own
				op.Name = Pick(r, names)
			}
			ops = append(ops, op)
		}
	}
	q := []string{"A", "A.b", "A.*", "B", "B.*", ".x", ".*", "A.", "PKG_OPTIONS.*", "PKG_OPTIONS.p0", "A.c", "B.x.y", "Z"}
	return c01ScopeCase{ops: ops, names: q}
}

func c01CompareScope(ctx *Ctx, res *Result, cases []c01ScopeCase, kind string) []string {
	jobs := make([]string, len(cases))
	for i, c := range cases {
		jobs[i] = c.job()
	}
	impl, stuck, err := c01RunScopeJobs(ctx, jobs, "s")
	if err != nil {
		res.Broken = err.Error()
		return nil
	}
	reqs := make([]string, len(cases))
	for i, c := range cases {
		infos, _, _ := strings.Cut(impl[i], "\t")
		hn := make([]string, len(c.names))
		for j, n := range c.names {
			hn[j] = hx(n)
		}
		reqs[i] = "scope " + strings.Join(hn, ".") + " " + c01OpsOracle(c.ops, infos, " ")
	}
	ans, err := runOracle(ctx, "c01", reqs)
	if err != nil {
		res.Broken = err.Error()
		return nil
	}
	ndis := 0
	for i, c := range cases {
		res.Count("scope."+kind, 1)
		infos, trace, _ := strings.Cut(impl[i], "\t")
		if why, ok := stuck[i]; ok || infos == "panic" || impl[i] == "skipped" || impl[i] == "" {
			res.AddViolation(Violation{Key: "C01/correspondence/scope", What: fmt.Sprintf("Scope: the real code did not answer on %s (%s %s)", c.readable(), why, unhx(trace)),
				FoundInput: false, Size: len(c.ops), Replay: map[string]any{"kind": "scope", "job": jobs[i], "broken": "the real Scope panicked or did not return", "readable": c.readable()}})
			continue
		}
		for _, in := range strings.Split(infos, ",") {
			f := strings.Split(in, ".")
			res.Count("scope.line-kind."+f[0], 1)
			if f[0] == "0" {
				res.Count("scope.op."+f[1], 1)
			}
		}
		last := trace
		if k := strings.LastIndexByte(trace, '|'); k >= 0 {
			last = trace[k+1:]
		}
		for _, o := range strings.Split(last, ";") {
			f := strings.Split(o, ",")
			if len(f) == 13 {
				if f[1] == "1" && f[7] == "0" {
					res.Count("scope.defined-but-no-last-definition", 1)
				}
				if f[1] == "0" && f[7] != "0" {
					res.Count("scope.last-definition-but-not-defined", 1)
				}
				if f[8] != "0" {
					res.Count("scope.commented", 1)
				}
				if f[12] == "1" {
					res.Count("scope.indeterminate", 1)
				}
				if f[11] == "1" && f[1] == "0" {
					res.Count("scope.found-by-fallback", 1)
				}
			}
		}
		if ans[i] == trace {
			continue
		}
		res.Count("scope.disagreements", 1)
		if ndis++; ndis <= 3 {
			res.AddViolation(Violation{Key: "C01/correspondence/scope", What: fmt.Sprintf("Scope: model and code disagree on %s: model %q, code %q", c.readable(), ans[i], trace),
				FoundInput: false, Size: len(c.ops), Replay: map[string]any{"kind": "scope", "job": jobs[i], "broken": "correspondence Scope (scope.go) = Model/Scope.v", "readable": c.readable(), "model": ans[i], "impl": trace}})
		}
	}
	res.Evaluations += len(cases)
	res.TracesValidated += len(cases)
	res.DistinctNontrivial += len(cases)
	return reqs
}

func c01UnitScope(ctx *Ctx, res *Result) (crossReqs []string) {
	maxLen, nrand := 4, 8000
	full := ctx.Tier == "thorough"
	if full {
		nrand = 150000
	}
	al := c01ScopeAlphabet(full)
	var cases []c01ScopeCase
	var rec func(prefix []pkglint.VerifScopeOp)
	rec = func(prefix []pkglint.VerifScopeOp) {
		if len(prefix) > 0 {
			cases = append(cases, c01ScopeCase{ops: append([]pkglint.VerifScopeOp(nil), prefix...), names: c01ScopeNames})
		}
		if len(prefix) == maxLen {
			return
		}
		for _, o := range al {
			rec(append(prefix, o))
		}
	}
	rec(nil)
	res.Count("scope.exhaustive_max_ops", maxLen)
	res.Count("scope.alphabet", len(al))
	reqs := c01CompareScope(ctx, res, cases, "exhaustive")
	if res.Broken != "" {
		return
	}
	rng := NewRng(ctx.Seed ^ 0x5c09e)
	var rcases []c01ScopeCase
	for i := 0; i < nrand; i++ {
		rcases = append(rcases, c01RandomScopeCase(rng))
	}
	rreqs := c01CompareScope(ctx, res, rcases, "random")
	for i := 0; i < 50 && i*997 < len(reqs); i++ {
		crossReqs = append(crossReqs, reqs[i*997])
	}
	for i := 0; i < 30 && i*131 < len(rreqs); i++ {
		crossReqs = append(crossReqs, rreqs[i*131])
	}
	return
}

// ---- resolveExprs ----

type c01ResolveCase struct {
	all, pkg []pkglint.VerifScopeOp
	mode     int
	text     string
}

func (c c01ResolveCase) job() string {
	return fmt.Sprintf("R %d %s %s %s", c.mode, c01OpsJob(c.all), c01OpsJob(c.pkg), hx(c.text))
}

func (c c01ResolveCase) readable() string {
	return fmt.Sprintf("resolveExprs(%q) with mklines.allVars {%s} pkg.vars {%s} mode %d", c.text, c01ScopeCase{ops: c.all}.readable(), c01ScopeCase{ops: c.pkg}.readable(), c.mode)
}

var c01ResolveValues = []string{"", "x", "${A}", "${B}", "${C}", "${A}x", "${B}${C}", "$${A}", "${A:Q}"}

func c01AssignOp(name, value string) pkglint.VerifScopeOp {
	line := name + "=\t" + value
	if value == "" {
		line = name + "="
	}
	return pkglint.VerifScopeOp{Kind: 'D', Name: name, Line: line}
}

func c01RandomResolveCase(r *Rng) c01ResolveCase {
	names := []string{"A", "B", "C", "D", "A.b", "A-1", "_x", "A.*"}
	toks := []string{"${A}", "${B}", "${C}", "${D}", "${A.b}", "${A-1}", "${_x}", "${A.*}", "x", "$", "{", "}", "${", "${A:Q}", "$${A}", "${}", "${A}}", " ", "/", "$(A)", "${A B}", "${Z}", "$${", "-"}
	val := func() string {
		s := ""
		for i, n := 0, r.Intn(4); i < n; i++ {
			s += Pick(r, toks)
		}
		return strings.TrimSpace(s)
	}
	gen := func(n int) []pkglint.VerifScopeOp {
		var ops []pkglint.VerifScopeOp
		for i := 0; i < n; i++ {
			name := Pick(r, names)
			v := val()
			switch k := r.Intn(20); {
			case k < 10:
				ops = append(ops, c01AssignOp(name, v))
			case k < 12:
				ops = append(ops, pkglint.VerifScopeOp{Kind: 'D', Name: name, Line: name + "+=\t" + v})
			case k < 14:
				ops = append(ops, pkglint.VerifScopeOp{Kind: 'D', Name: name, Line: name + "?=\t" + v})
			case k < 15:
				ops = append(ops, pkglint.VerifScopeOp{Kind: 'D', Name: name, Line: name + "!=\t" + v})
			case k < 16:
				ops = append(ops, pkglint.VerifScopeOp{Kind: 'D', Name: name, Line: name + ":=\t" + v})
			case k < 18:
				ops = append(ops, pkglint.VerifScopeOp{Kind: 'D', Name: name, Line: "#" + name + "=\t" + v})
			case k < 19:
				ops = append(ops, pkglint.VerifScopeOp{Kind: 'F', Name: name, Value: v})
			default:
				ops = append(ops, pkglint.VerifScopeOp{Kind: 'U', Name: name, Line: "X=\t${" + name + "}", Load: r.Bool()})
			}
		}
		return ops
	}
	c := c01ResolveCase{mode: r.Intn(4), text: val() + Pick(r, toks)}
	if c.mode != 2 {
		c.all = gen(r.Intn(6))
	}
	if c.mode != 1 {
		c.pkg = gen(r.Intn(6))
	}
	return c
}

func c01CompareResolve(ctx *Ctx, res *Result, cases []c01ResolveCase, kind string) []string {
	jobs := make([]string, len(cases))
	for i, c := range cases {
		jobs[i] = c.job()
	}
	impl, stuck, err := c01RunScopeJobs(ctx, jobs, "r")
	if err != nil {
		res.Broken = err.Error()
		return nil
	}
	reqs := make([]string, len(cases))
	for i, c := range cases {
		f := strings.Split(impl[i], "\t")
		if len(f) != 4 {
			reqs[i] = "resolve 0 - - -"
			continue
		}
		reqs[i] = fmt.Sprintf("resolve %s %s %s %s", f[2], c01OpsOracle(c.all, f[0], "+"), c01OpsOracle(c.pkg, f[1], "+"), hx(c.text))
	}
	ans, err := runOracle(ctx, "c01", reqs)
	if err != nil {
		res.Broken = err.Error()
		return nil
	}
	ndis := 0
	for i, c := range cases {
		res.Count("resolve."+kind, 1)
		rep := map[string]any{"kind": "resolve", "job": jobs[i], "readable": c.readable()}
		if why, ok := stuck[i]; ok {
			// every confirmation costs a whole CPU limit: the two shortest cases are enough
			nshorter := 0
			for j := range stuck {
				if len(jobs[j]) < len(jobs[i]) || (len(jobs[j]) == len(jobs[i]) && j < i) {
					nshorter++
				}
			}
			if nshorter < 2 {
				c01ResolveStuck(ctx, res, c, why, rep)
			} else {
				res.Count("resolve.stuck-not-confirmed", 1)
			}
			continue
		}
		f := strings.Split(impl[i], "\t")
		if impl[i] == "skipped" {
			res.Count("resolve.skipped-after-stuck-calls", 1)
			continue
		}
		if len(f) != 4 {
			what := impl[i]
			if len(f) == 2 && f[0] == "panic" {
				what = unhx(f[1])
			}
			rep["broken"] = "the real resolveExprs panicked"
			res.AddViolation(Violation{Key: "C01/correspondence/resolve", What: fmt.Sprintf("%s: the real code panicked: %s", c.readable(), what), FoundInput: false, Size: len(jobs[i]), Replay: rep})
			continue
		}
		var mres string
		var passes, fuel, budget int
		if n, _ := fmt.Sscanf(ans[i], "ok %s passes=%d fuel=%d budget=%d", &mres, &passes, &fuel, &budget); n != 4 {
			rep["broken"] = "the model of resolveExprs gave " + ans[i]
			res.AddViolation(Violation{Key: "C01/correspondence/resolve", What: fmt.Sprintf("%s: model answer %q", c.readable(), ans[i]), FoundInput: false, Size: len(jobs[i]), Replay: rep})
			continue
		}
		res.Count(fmt.Sprintf("resolve.passes.%d", passes), 1)
		if f[2] == "1" {
			res.Count("resolve.has-expr", 1)
		}
		if passes >= 2 && passes == fuel {
			res.Count("resolve.fuel-bound-reached", 1)
		}
		if mres != f[3] {
			// unchanged text?
		} else if unhx(f[3]) != c.text {
			res.Count("resolve.expanded", 1)
		}
		if mres == f[3] {
			continue
		}
		res.Count("resolve.disagreements", 1)
		if ndis++; ndis > 3 {
			continue
		}
		out := unhx(f[3])
		// all the text there is: no expansion that uses every variable at most once can be longer
		material := len(c.text)
		for _, o := range append(append([]pkglint.VerifScopeOp(nil), c.all...), c.pkg...) {
			material += len(o.Line) + len(o.Value) + 1
		}
		if len(out) > len(c.text)+budget && len(out) > material {
			// the specification (C01_resolve_output_bounded) evaluated on the implementation's output
			rep["impl"] = out
			res.AddViolation(Violation{Key: "C01/growth/resolveExprs", What: fmt.Sprintf("%s returns %d bytes, more than the text plus all variable values (%d + %d) and more than all lines together (%d)", c.readable(), len(out), len(c.text), budget, material),
				FoundInput: true, Size: len(jobs[i]), Replay: rep})
			continue
		}
		rep["broken"] = "correspondence resolveExprs (pkglint.go) = Model/Resolve.v"
		rep["model"], rep["impl"] = unhx(mres), out
		res.AddViolation(Violation{Key: "C01/correspondence/resolve", What: fmt.Sprintf("%s: model %q, code %q", c.readable(), unhx(mres), out), FoundInput: false, Size: len(jobs[i]), Replay: rep})
	}
	res.Evaluations += len(cases)
	res.TracesValidated += len(cases)
	res.DistinctNontrivial += len(cases)
	return reqs
}

// c01ResolveStuck: the real resolveExprs did not return within the CPU limit
// (or exhausted the address space) -- twice, the second time alone in a fresh
// process. The same definitions are then given to the real binary as a package
// Makefile that includes "<text>/module.mk".
func c01ResolveStuck(ctx *Ctx, res *Result, c c01ResolveCase, why string, rep map[string]any) {
	res.Count("resolve.stuck", 1)
	// once more, alone
	dir := filepath.Join(ctx.Work, "c01scope-confirm")
	ans, ended := c01RunWorker(ctx, dir, []string{c.job()}, 4, true)
	os.RemoveAll(dir)
	if ended == "" && len(ans) == 1 {
		rep["broken"] = "resolveExprs did not return in a batch (" + why + ") but returns when run alone"
		res.AddViolation(Violation{Key: "C01/correspondence/resolve", What: c.readable() + ": " + rep["broken"].(string), FoundInput: false, Replay: rep})
		return
	}
	// whole program (thorough only: a hanging binary costs its whole CPU limit several times)
	if ctx.Tier == "thorough" && c.mode != 2 && strings.Contains(c.text, "${") {
		gdir := filepath.Join(c01Scratch(ctx), "gen", "resolve-repro")
		NewBaseTree(gdir)
		spec := CaptureTree(gdir, ctx.Work)
		os.RemoveAll(gdir)
		if mk, ok := spec.Get("cat/pkg/Makefile"); ok {
			var defs []string
			for _, o := range append(append([]pkglint.VerifScopeOp(nil), c.all...), c.pkg...) {
				if o.Kind == 'D' {
					defs = append(defs, o.Line)
				}
			}
			inc := strings.Join(defs, "\n") + "\n.include \"" + c.text + "/module.mk\"\n"
			spec.Put("cat/pkg/Makefile", 'f', strings.Replace(mk, ".include \"../../mk/bsd.pkg.mk\"", inc+".include \"../../mk/bsd.pkg.mk\"", 1))
			wc := &c01Case{Stream: "unit", Spec: spec, Args: []string{"-q", "cat/pkg"}, Cwd: "."}
			r := c01RunCase(ctx, wc, c01Timeout(ctx, wc))
			if v := c01Judge(r, spec.Size()); v.Bad() {
				if viol := c01Process(ctx, res, c01Bad{wc, v, r}, true); viol != nil {
					res.AddViolation(*viol)
					return
				}
			}
		}
	}
	rep["ended"] = why
	res.AddViolation(Violation{Key: "C01/hang/resolveExprs", What: fmt.Sprintf("%s does not return (%s; confirmed alone in a fresh process: %s); the model ends after at most |variables|+1 passes (C01_resolve_terminates)", c.readable(), why, ended),
		FoundInput: true, Size: len(c.job()), Replay: rep})
}

func c01UnitResolve(ctx *Ctx, res *Result) (crossReqs []string) {
	nrand := 20000
	if ctx.Tier == "thorough" {
		nrand = 400000
	}
	var cases []c01ResolveCase
	vals := append([]string{"\x00undef"}, c01ResolveValues...)
	n := 0
	for _, a := range vals {
		for _, b := range vals {
			for _, cv := range vals {
				var ops []pkglint.VerifScopeOp
				for k, v := range []string{a, b, cv} {
					if v != "\x00undef" {
						ops = append(ops, c01AssignOp(string(rune('A'+k)), v))
					}
				}
				for _, text := range c01ResolveValues {
					c := c01ResolveCase{text: text, mode: n % 4}
					switch c.mode {
					case 1:
						c.all = ops
					case 2:
						c.pkg = ops
					default: // split over the two scopes, the package's definitions second
						h := (n / 4) % (len(ops) + 1)
						c.all, c.pkg = ops[:h], ops[h:]
					}
					n++
					cases = append(cases, c)
				}
			}
		}
	}
	reqs := c01CompareResolve(ctx, res, cases, "exhaustive")
	if res.Broken != "" {
		return
	}
	rng := NewRng(ctx.Seed ^ 0x7e501e)
	var rcases []c01ResolveCase
	for i := 0; i < nrand; i++ {
		rcases = append(rcases, c01RandomResolveCase(rng))
	}
	rreqs := c01CompareResolve(ctx, res, rcases, "random")
	for i := 0; i < 50 && i*149 < len(reqs); i++ {
		crossReqs = append(crossReqs, reqs[i*149])
	}
	for i := 0; i < 30 && i*499 < len(rreqs); i++ {
		crossReqs = append(crossReqs, rreqs[i*499])
	}
	return
}

// floors for the branches the theorems name
func c01ScopeFloors(res *Result) {
	floors := map[string]int{
		"scope.exhaustive": 60000, "scope.random": 5000, "scope.line-kind.0": 10000, "scope.line-kind.1": 5000, "scope.line-kind.2": 5000,
		"scope.op.1": 1000, "scope.op.3": 1000, "scope.op.4": 1000, "scope.defined-but-no-last-definition": 1000,
		"scope.last-definition-but-not-defined": 1000, "scope.commented": 1000, "scope.indeterminate": 1000, "scope.found-by-fallback": 500,
		"defineall.exhaustive": 70000, "defineall.random": 5000, "defineall.defined-but-no-last-definition": 1000, "defineall.copied": 50000,
		"resolve.exhaustive": 9000, "resolve.random": 10000, "resolve.has-expr": 5000, "resolve.expanded": 3000,
		"resolve.passes.1": 500, "resolve.passes.2": 500, "resolve.passes.3": 300, "resolve.passes.4": 20, "resolve.fuel-bound-reached": 50,
	}
	for _, k := range sortedKeys(floors) {
		if n, _ := res.Distribution[k].(int); n < floors[k] && res.Broken == "" && len(res.Violations) == 0 {
			res.Broken = fmt.Sprintf("coverage floor missed: %s = %d < %d", k, n, floors[k])
		}
	}
}

func c01ReplayScopeJob(ctx *Ctx, res *Result, rep map[string]any) {
	job, _ := rep["job"].(string)
	f := strings.Fields(job)
	switch {
	case len(f) == 3 && f[0] == "S":
		c := c01ScopeCase{ops: c01OpsParse(f[2])}
		for _, n := range strings.Split(f[1], ".") {
			c.names = append(c.names, unhx(n))
		}
		c01CompareScope(ctx, res, []c01ScopeCase{c}, "replay")
	case len(f) == 4 && f[0] == "A":
		c := c01DefAllCase{other: c01OpsParse(f[2]), ops: c01OpsParse(f[3])}
		for _, n := range strings.Split(f[1], ".") {
			c.names = append(c.names, unhx(n))
		}
		c01CompareDefAll(ctx, res, []c01DefAllCase{c}, "replay")
	case len(f) == 5 && f[0] == "R":
		c := c01ResolveCase{mode: int(f[1][0] - '0'), all: c01OpsParse(f[2]), pkg: c01OpsParse(f[3]), text: unhx(f[4])}
		c01CompareResolve(ctx, res, []c01ResolveCase{c}, "replay")
	default:
		res.Broken = "bad scope/resolve replay"
	}
}

// ---- Scope.DefineAll ----

type c01DefAllCase struct {
	other, ops []pkglint.VerifScopeOp
	names      []string
}

func (c c01DefAllCase) hexNames() string {
	hn := make([]string, len(c.names))
	for i, n := range c.names {
		hn[i] = hx(n)
	}
	return strings.Join(hn, ".")
}

func (c c01DefAllCase) job() string {
	return "A " + c.hexNames() + " " + c01OpsJob(c.other) + " " + c01OpsJob(c.ops)
}

func (c c01DefAllCase) readable() string {
	return "target {" + c01ScopeCase{ops: c.ops}.readable() + "}.DefineAll(other {" + c01ScopeCase{ops: c.other}.readable() + "})"
}

func c01CompareDefAll(ctx *Ctx, res *Result, cases []c01DefAllCase, kind string) []string {
	jobs := make([]string, len(cases))
	for i, c := range cases {
		jobs[i] = c.job()
	}
	impl, stuck, err := c01RunScopeJobs(ctx, jobs, "a")
	if err != nil {
		res.Broken = err.Error()
		return nil
	}
	reqs := make([]string, len(cases))
	for i, c := range cases {
		infos, _, _ := strings.Cut(impl[i], "\t")
		all := append(append([]pkglint.VerifScopeOp(nil), c.other...), c.ops...)
		parts := strings.Split(c01OpsOracle(all, infos, "+"), "+")
		o, t := "-", "-"
		if len(c.other) > 0 && len(parts) >= len(c.other) {
			o = strings.Join(parts[:len(c.other)], "+")
		}
		if len(c.ops) > 0 && len(parts) == len(all) {
			t = strings.Join(parts[len(c.other):], "+")
		}
		reqs[i] = "defall " + c.hexNames() + " " + o + " " + t
	}
	ans, err := runOracle(ctx, "c01", reqs)
	if err != nil {
		res.Broken = err.Error()
		return nil
	}
	ndis := 0
	for i, c := range cases {
		res.Count("defineall."+kind, 1)
		infos, obs, _ := strings.Cut(impl[i], "\t")
		rep := map[string]any{"kind": "scope", "job": jobs[i], "readable": c.readable()}
		if why, ok := stuck[i]; ok || infos == "panic" || impl[i] == "skipped" || impl[i] == "" {
			rep["broken"] = "the real Scope.DefineAll panicked or did not return"
			res.AddViolation(Violation{Key: "C01/correspondence/scope-defineall", What: fmt.Sprintf("%s: the real code did not answer (%s %s); the model says %q (C01_scope_define_all_run: no panic for scopes built by Define/Fallback/Use)", c.readable(), why, unhx(obs), ans[i]),
				FoundInput: false, Size: len(jobs[i]), Replay: rep})
			continue
		}
		for _, o := range strings.Split(obs, ";") {
			f := strings.Split(o, ",")
			if len(f) == 13 {
				if f[1] == "1" && f[7] == "0" {
					res.Count("defineall.defined-but-no-last-definition", 1)
				}
				if f[0] != "0" {
					res.Count("defineall.copied", 1)
				}
			}
		}
		if ans[i] == obs {
			continue
		}
		res.Count("defineall.disagreements", 1)
		if ndis++; ndis <= 3 {
			rep["broken"] = "correspondence Scope.DefineAll (scope.go) = Model/Scope.v sdefine_all"
			rep["model"], rep["impl"] = ans[i], obs
			res.AddViolation(Violation{Key: "C01/correspondence/scope-defineall", What: fmt.Sprintf("%s: model %q, code %q", c.readable(), ans[i], obs), FoundInput: false, Size: len(jobs[i]), Replay: rep})
		}
	}
	res.Evaluations += len(cases)
	res.TracesValidated += len(cases)
	res.DistinctNontrivial += len(cases)
	return reqs
}

func c01UnitDefineAll(ctx *Ctx, res *Result) (crossReqs []string) {
	maxOther, nrand := 3, 10000
	if ctx.Tier == "thorough" {
		nrand = 150000
	}
	al := c01ScopeAlphabet(false)
	names := []string{"A", "A.b", "A.*", "B"}
	var others [][]pkglint.VerifScopeOp
	var rec func(prefix []pkglint.VerifScopeOp)
	rec = func(prefix []pkglint.VerifScopeOp) {
		others = append(others, append([]pkglint.VerifScopeOp(nil), prefix...))
		if len(prefix) == maxOther {
			return
		}
		for _, o := range al {
			rec(append(prefix, o))
		}
	}
	rec(nil)
	var cases []c01DefAllCase
	for _, o := range others {
		cases = append(cases, c01DefAllCase{other: o, names: names})
		for _, t := range al {
			cases = append(cases, c01DefAllCase{other: o, ops: []pkglint.VerifScopeOp{t}, names: names})
		}
	}
	reqs := c01CompareDefAll(ctx, res, cases, "exhaustive")
	if res.Broken != "" {
		return
	}
	// random: several names with the same canonical form, so that the sorted order of DefineAll matters
	rng := NewRng(ctx.Seed ^ 0xdefa11)
	var rcases []c01DefAllCase
	for i := 0; i < nrand; i++ {
		a, b := c01RandomScopeCase(rng), c01RandomScopeCase(rng)
		if rng.Chance(30) {
			b.ops = nil
		}
		rcases = append(rcases, c01DefAllCase{other: a.ops, ops: b.ops, names: append(a.names, "A.a", "B.x", "B.a.z")})
	}
	rreqs := c01CompareDefAll(ctx, res, rcases, "random")
	for i := 0; i < 25 && i*1999 < len(reqs); i++ {
		crossReqs = append(crossReqs, reqs[i*1999])
	}
	for i := 0; i < 15 && i*397 < len(rreqs); i++ {
		crossReqs = append(crossReqs, rreqs[i*397])
	}
	return
}
