package main

// C01 whole-run layer: running one case, judging it, locating the panic site,
// sampling the stack of a hanging/slow run, replay encoding.

import (
	"bytes"
	"context"
	"fmt"
	"os"
	"os/exec"
	"path/filepath"
	"regexp"
	"strings"
	"sync"
	"sync/atomic"
	"syscall"
	"time"
)

type c01Case struct {
	ID     int
	Stream string // valid | hostile | malformed | probe:<family> | replay
	Spec   *TreeSpec
	Args   []string
	Cwd    string
	Feats  map[string]int
	Opts   []string
}

// verdict kinds: "" (fine), panic, fatal, exit, signal, hang, time
type c01Verdict struct {
	Kind   string
	Site   string // panic: file.go:Func ; exit: code ; signal: name
	Detail string
}

func (v c01Verdict) Bad() bool { return v.Kind != "" }

var c01RunSeq int64

// Trees are written and removed thousands of times; on the journalled scratch
// disk that costs ~40 ms per tree, on tmpfs below 1 ms. The scratch directory
// is private to this process and removed at the end of the run.
var (
	c01ScratchOnce sync.Once
	c01ScratchDir  string
)

func c01Scratch(ctx *Ctx) string {
	c01ScratchOnce.Do(func() {
		c01ScratchDir = filepath.Join(ctx.Work, "c01scratch")
		if st, err := os.Stat("/dev/shm"); err == nil && st.IsDir() {
			// leftovers of killed runs
			if old, _ := filepath.Glob("/dev/shm/verif-c01.*"); old != nil {
				for _, o := range old {
					var pid int
					fmt.Sscanf(filepath.Ext(o), ".%d", &pid)
					if pid > 0 && syscall.Kill(pid, 0) != nil {
						os.RemoveAll(o)
					}
				}
			}
			d := fmt.Sprintf("/dev/shm/verif-c01.%d", os.Getpid())
			if os.MkdirAll(d, 0o755) == nil {
				c01ScratchDir = d
			}
		}
		os.MkdirAll(c01ScratchDir, 0o755)
	})
	return c01ScratchDir
}

func c01ScratchCleanup() {
	if strings.HasPrefix(c01ScratchDir, "/dev/shm/verif-c01.") {
		os.RemoveAll(c01ScratchDir)
	}
}

func c01Watchdog(ctx *Ctx) time.Duration {
	if ctx.Tier == "thorough" {
		return 60 * time.Second
	}
	return 10 * time.Second
}

// c01Timeout: the wall-clock watchdog of the first attempt (see c01RunCase).
func c01Timeout(ctx *Ctx, c *c01Case) time.Duration { return c01Watchdog(ctx) }

// c01Exec is RunPkglint plus a CPU-time limit (ulimit -t, soft = hard, because
// the Go runtime ignores SIGXCPU): a run that is still going after cpuSec
// seconds of CPU is killed by the kernel. That makes "does not end"
// independent of the machine load, which the wall-clock watchdog is not.
// Such a run is returned with TimedOut = true and Signal = "cpu-limit".
func c01Exec(ctx *Ctx, cwd string, wall time.Duration, cpuSec int, args []string) RunResult {
	c, cancel := context.WithTimeout(context.Background(), wall)
	defer cancel()
	shArgs := append([]string{"-c", `ulimit -t "$0" && exec "$@"`, fmt.Sprint(cpuSec), ctx.Pkglint}, args...)
	cmd := exec.CommandContext(c, "/bin/sh", shArgs...)
	cmd.Dir = cwd
	cmd.Env = append(os.Environ(), "PKGSRCDIR=", "HOME="+cwd, "GOMAXPROCS=2", "GOMEMLIMIT=2GiB")
	var ob, eb bytes.Buffer
	cmd.Stdout, cmd.Stderr = &limitedWriter{b: &ob, max: 64 << 20}, &limitedWriter{b: &eb, max: 16 << 20}
	t0 := time.Now()
	err := cmd.Run()
	r := RunResult{Stdout: ob.String(), Stderr: eb.String(), Wall: time.Since(t0)}
	if cmd.ProcessState != nil {
		r.CPU = cmd.ProcessState.UserTime() + cmd.ProcessState.SystemTime()
		if ws, ok := cmd.ProcessState.Sys().(syscall.WaitStatus); ok && ws.Signaled() {
			r.Signal = ws.Signal().String()
			r.Exit = -1
			if (ws.Signal() == syscall.SIGKILL && c.Err() == nil) || ws.Signal() == syscall.SIGXCPU {
				r.Signal = "cpu-limit"
				r.TimedOut = true
			}
		} else {
			r.Exit = cmd.ProcessState.ExitCode()
		}
	} else if err != nil {
		r.Exit = -2
		r.Stderr += "\n<exec error: " + err.Error() + ">"
	}
	if c.Err() == context.DeadlineExceeded && r.Signal != "cpu-limit" {
		r.TimedOut = true
		r.Signal = "watchdog"
	}
	return r
}

// The CPU limit: ten times the linear envelope of the input size (five times
// for inputs of 16 kB and more, where an envelope is already 2-12 s). A run
// between one envelope and the limit that ends is a "time" finding, a run
// that reaches the limit a "hang"; the wide gap keeps polynomial slowdowns
// from flipping between the two.
func c01CPUSeconds(size int) int {
	m := 10
	if size >= 16384 {
		m = 5
	}
	return int(time.Duration(m)*c01CPULimit(size)/time.Second) + 1
}

func c01CaseDir(ctx *Ctx, c *c01Case, prefix string) (root, cwd string) {
	n := atomic.AddInt64(&c01RunSeq, 1)
	root = filepath.Join(c01Scratch(ctx), "run", fmt.Sprintf("%s%d", prefix, n))
	c.Spec.Materialize(root)
	cwd = filepath.Join(root, c.Cwd)
	if st, err := os.Stat(cwd); err != nil || !st.IsDir() {
		cwd = root
	}
	return
}

// c01RunCase materializes the tree in a fresh directory, runs the real binary
// under the wall-clock watchdog and the CPU limit and removes the tree. When
// the wall clock expires first, the verdict would depend on the machine load:
// the run is repeated with a watchdog of 30 wall seconds per CPU second of the
// limit, so that it is the CPU limit that decides; only a process that does
// not use its CPU (blocked) is declared hanging by the wall clock.
func c01RunCase(ctx *Ctx, c *c01Case, wall time.Duration) RunResult {
	cpuSec := c01CPUSeconds(c.Spec.Size())
	r := c01RunCaseOnce(ctx, c, wall, cpuSec)
	if r.TimedOut && r.Signal == "watchdog" {
		long := time.Duration(30*cpuSec) * time.Second
		if r.CPU < 100*time.Millisecond { // apparently blocked: one more minute is enough to tell
			long = 6 * wall
		}
		r = c01RunCaseOnce(ctx, c, long, cpuSec)
	}
	return r
}

func c01RunCaseOnce(ctx *Ctx, c *c01Case, wall time.Duration, cpuSec int) RunResult {
	root, cwd := c01CaseDir(ctx, c, "t")
	defer os.RemoveAll(root)
	return c01Exec(ctx, cwd, wall, cpuSec, c.Args)
}

// the linear envelope of DESIGN 3.6: 2 s CPU up to 16 kB, proportional above
func c01CPULimit(size int) time.Duration {
	lim := 2 * time.Second
	if size > 16384 {
		lim = time.Duration(float64(lim) * float64(size) / 16384)
	}
	return lim
}

var c01ReStderrBad = regexp.MustCompile(`(?m)^panic: |^fatal error: |^goroutine \d+ \[|runtime error|internal error|^\[signal `)

func c01Judge(r RunResult, size int) c01Verdict {
	switch {
	case r.Exit == -2:
		return c01Verdict{Kind: "execerr", Detail: firstLines(r.Stderr, 3)}
	case r.TimedOut:
		return c01Verdict{Kind: "hang", Detail: fmt.Sprintf("no exit (%s; wall %.1fs, cpu %.1fs, input %d bytes)", r.Signal, r.Wall.Seconds(), r.CPU.Seconds(), size)}
	case c01ReStderrBad.MatchString(r.Stderr):
		kind := "panic"
		if strings.Contains(r.Stderr, "fatal error: ") && !strings.Contains(r.Stderr, "panic: ") {
			kind = "fatal"
		}
		return c01Verdict{Kind: kind, Site: c01PanicSite(r.Stderr), Detail: c01FirstPanicLine(r.Stderr)}
	case r.Signal != "":
		return c01Verdict{Kind: "signal", Site: strings.ReplaceAll(r.Signal, " ", "-"), Detail: "killed by signal " + r.Signal}
	case r.Exit != 0 && r.Exit != 1:
		return c01Verdict{Kind: "exit", Site: fmt.Sprint(r.Exit), Detail: fmt.Sprintf("exit status %d; stderr: %s", r.Exit, firstLines(r.Stderr, 3))}
	case r.CPU >= c01CPULimit(size):
		return c01Verdict{Kind: "time", Detail: fmt.Sprintf("cpu %.2fs for an input of %d bytes (limit %.2fs)", r.CPU.Seconds(), size, c01CPULimit(size).Seconds())}
	}
	return c01Verdict{}
}

func c01FirstPanicLine(stderr string) string {
	for _, l := range strings.Split(stderr, "\n") {
		if strings.HasPrefix(l, "panic: ") || strings.HasPrefix(l, "fatal error: ") {
			if len(l) > 300 {
				l = l[:300]
			}
			return l
		}
	}
	return firstLines(stderr, 2)
}

type c01Frame struct{ Func, File string }

var c01ReFrameFile = regexp.MustCompile(`^\t(\S+\.go):(\d+)`)

// c01ParseFrames parses the frames of one goroutine section (innermost first).
func c01ParseFrames(ls []string) []c01Frame {
	var fs []c01Frame
	for i := 0; i+1 < len(ls); i++ {
		if strings.HasPrefix(ls[i], "\t") || ls[i] == "" {
			continue
		}
		if m := c01ReFrameFile.FindStringSubmatch(ls[i+1]); m != nil {
			fn := ls[i]
			if k := strings.LastIndex(fn, "("); k > 0 && !strings.HasSuffix(fn[:k], ".") { // strip the argument list
				fn = fn[:k]
			}
			fn = strings.TrimPrefix(fn, "created by ")
			fs = append(fs, c01Frame{Func: fn, File: filepath.Base(m[1])})
			i++
		}
	}
	return fs
}

func c01IsPkglintFrame(f c01Frame) bool {
	return strings.Contains(f.Func, "rillig/pkglint/")
}

var c01ReFuncShort = regexp.MustCompile(`^.*rillig/pkglint/v\d+(?:/([\w/]+))?\.`)

func c01ShortFunc(f c01Frame) string {
	fn := f.Func
	fn = c01ReFuncShort.ReplaceAllString(fn, "")
	fn = strings.NewReplacer("(*", "", ")", "", "[...]", "").Replace(fn)
	return f.File + ":" + fn
}

func c01IsAssertFrame(f c01Frame) bool {
	s := c01ShortFunc(f)
	for _, a := range []string{"util.go:assert", "util.go:assertf", "util.go:assertNil", "util.go:assertNotNil", "pkglint.go:Pkglint.Main.func1"} {
		if s == a {
			return true
		}
	}
	return false
}

// c01PanicSite: the top frame of the main pkglint package below the (last)
// panic, skipping the assert helpers and the helper files (c01HelperFiles);
// frames of the library sub-packages (textproc, regex, ...) are skipped as
// well, because "Lexer.NextByte" would lump together every caller that reads
// past the end.
func c01PanicSite(stderr string) string {
	ls := strings.Split(stderr, "\n")
	start := -1
	for i, l := range ls {
		if strings.HasPrefix(l, "goroutine ") && start < 0 {
			start = i
		}
	}
	if start < 0 {
		return "unknown"
	}
	end := len(ls)
	for i := start + 1; i < len(ls); i++ {
		if ls[i] == "" { // end of the first goroutine section
			end = i
			break
		}
	}
	sec := ls[start+1 : end]
	last := -1
	for i, l := range sec {
		if strings.HasPrefix(l, "panic(") || strings.HasPrefix(l, "runtime.throw(") || strings.HasPrefix(l, "runtime.fatalpanic(") {
			last = i
		}
	}
	frames := c01ParseFrames(sec[last+1:])
	for _, f := range frames {
		if c01IsMainPkgFrame(f) && !c01IsAssertFrame(f) && !c01HelperFiles[f.File] {
			return c01ShortFunc(f)
		}
	}
	for _, f := range frames {
		if c01IsMainPkgFrame(f) && !c01IsAssertFrame(f) {
			return c01ShortFunc(f)
		}
	}
	for _, f := range frames {
		if c01IsPkglintFrame(f) && !c01IsAssertFrame(f) {
			return c01ShortFunc(f)
		}
	}
	for _, f := range frames {
		if !strings.HasPrefix(f.Func, "runtime.") {
			return c01ShortFunc(f)
		}
	}
	return "unknown"
}

// Files whose functions assert preconditions on behalf of their callers (path
// constructors, the Autofix API, Line/Logger plumbing): a panic raised there
// is attributed to the first caller outside these files, otherwise every
// misuse of Autofix.ReplaceAt would share one key.
var c01HelperFiles = map[string]bool{"util.go": true, "path.go": true, "autofix.go": true, "line.go": true, "lines.go": true, "logging.go": true}

var c01ReMainPkg = regexp.MustCompile(`rillig/pkglint/v\d+\.`)

func c01IsMainPkgFrame(f c01Frame) bool { return c01ReMainPkg.MatchString(f.Func) }

// ---------- stack sampling of a run that does not end ----------

// c01Sample starts the case, sends SIGQUIT once the process has used `after`
// of CPU time (polled from /proc, so that the sample point does not depend on
// the machine load) and returns the pkglint frames of the main goroutine,
// outermost first (nil when the process ended earlier or the stack could not
// be read).
func c01Sample(ctx *Ctx, c *c01Case, after time.Duration) []string {
	root, cwd := c01CaseDir(ctx, c, "s")
	defer os.RemoveAll(root)
	cmd := exec.Command(ctx.Pkglint, c.Args...)
	cmd.Dir = cwd
	cmd.Env = append(os.Environ(), "PKGSRCDIR=", "HOME="+cwd, "GOMAXPROCS=1", "GOMEMLIMIT=2GiB", "GOTRACEBACK=all")
	var eb bytes.Buffer
	cmd.Stdout = &limitedWriter{b: &bytes.Buffer{}, max: 1 << 20}
	cmd.Stderr = &limitedWriter{b: &eb, max: 32 << 20}
	if err := cmd.Start(); err != nil {
		return nil
	}
	done := make(chan struct{})
	go func() { cmd.Wait(); close(done) }()
	deadline := time.Now().Add(10 * time.Minute)
poll:
	for {
		select {
		case <-done:
			return nil
		case <-time.After(20 * time.Millisecond):
		}
		if c01ProcCPU(cmd.Process.Pid) >= after || time.Now().After(deadline) {
			break poll
		}
	}
	cmd.Process.Signal(syscall.SIGQUIT)
	select {
	case <-done:
	case <-time.After(30 * time.Second):
		cmd.Process.Kill()
		<-done
	}
	return c01MainStack(eb.String())
}

// c01ProcCPU: user+system time of a live process from /proc/<pid>/stat (100 ticks per second)
func c01ProcCPU(pid int) time.Duration {
	b, err := os.ReadFile(fmt.Sprintf("/proc/%d/stat", pid))
	if err != nil {
		return 0
	}
	s := string(b)
	if i := strings.LastIndex(s, ")"); i >= 0 {
		s = s[i+1:]
	}
	f := strings.Fields(s)
	if len(f) < 13 {
		return 0
	}
	var ut, st int64
	fmt.Sscan(f[11], &ut)
	fmt.Sscan(f[12], &st)
	return time.Duration(ut+st) * 10 * time.Millisecond
}

func c01MainStack(stderr string) []string {
	secs := strings.Split(stderr, "\n\n")
	for _, s := range secs {
		ls := strings.Split(s, "\n")
		if len(ls) == 0 || !strings.HasPrefix(ls[0], "goroutine ") {
			continue
		}
		frames := c01ParseFrames(ls[1:])
		var out []string
		isMain := false
		for i := len(frames) - 1; i >= 0; i-- {
			if c01IsPkglintFrame(frames[i]) {
				sf := c01ShortFunc(frames[i])
				out = append(out, sf)
				if strings.HasSuffix(sf, ":Pkglint.Main") {
					isMain = true
				}
			}
		}
		if isMain && len(out) > 0 {
			return out
		}
	}
	return nil
}

// c01HangFamily samples the stack several times and names the family of the
// hang / slowdown:
//  1. "nested-modifier-reparse" when the (reduced) input nests expressions at
//     least 12 deep and a stack shows >= 4 nested MkLexer.exprModifier frames;
//  2. otherwise the source file of the innermost frame that is on the stack in
//     all samples but at most one (the function that contains the loop / the
//     whole slow computation), e.g. "mklexer.go".
//
// For a run that ends after `cpu` of CPU time (time verdicts) 12 samples are
// taken at evenly spaced CPU times (the program is deterministic, so the set
// of stacks is nearly so); for a hang (cpu = 0) 8 samples between 1 s and 2.75 s of CPU.
func c01HangFamily(ctx *Ctx, c *c01Case, cpu time.Duration, allowNested bool) (family string, stack []string) {
	take := func(at []time.Duration) [][]string {
		got := make([][]string, len(at))
		var wg sync.WaitGroup
		for i := range at {
			wg.Add(1)
			go func(i int) { defer wg.Done(); got[i] = c01Sample(ctx, c, at[i]) }(i)
		}
		wg.Wait()
		var samples [][]string
		for _, s := range got {
			if len(s) > 0 {
				samples = append(samples, s)
			}
		}
		return samples
	}
	nested := func(samples [][]string) bool {
		maxRec := 0
		for _, s := range samples {
			k := 0
			for _, f := range s {
				if f == "mklexer.go:MkLexer.exprModifier" {
					k++
				}
			}
			if k > maxRec {
				maxRec = k
			}
		}
		return allowNested && maxRec >= 4 && c01MaxExprNesting(c.Spec) >= 12
	}
	var samples [][]string
	if cpu > 0 {
		var first, rest []time.Duration
		if cpu > 8*time.Second { // the first 8 s must do
			cpu = 8 * time.Second
		}
		for i := 0; i < 12; i++ {
			t := time.Duration(float64(cpu) * (float64(i) + 0.5) / 12)
			if i%4 == 1 {
				first = append(first, t)
			} else {
				rest = append(rest, t)
			}
		}
		samples = take(first)
		if len(samples) > 0 && nested(samples) {
			return "nested-modifier-reparse", samples[0]
		}
		samples = append(samples, take(rest)...)
	} else {
		var at []time.Duration
		for i := 0; i < 8; i++ {
			at = append(at, time.Second+time.Duration(i)*250*time.Millisecond)
		}
		samples = take(at)
		if len(samples) > 0 && nested(samples) {
			return "nested-modifier-reparse", samples[0]
		}
	}
	if len(samples) == 0 {
		return "unsampled", nil
	}
	need := len(samples) - 1
	if len(samples) < 4 {
		need = len(samples)
	}
	// walk down from the outermost frame as long as one continuation is shared by `need` samples
	alive := samples
	family = "unknown"
	defer func() {
		// the key is the FILE of that function (function-level keys flip between a function and its
		// caller when a phase takes about 1/12 of the time); the helper files are attributed to the caller
		family = c01FamilyFile(family, samples[0])
	}()
	for depth := 0; ; depth++ {
		cnt := map[string]int{}
		for _, s := range alive {
			if depth < len(s) {
				cnt[s[depth]]++
			}
		}
		best := ""
		for f, n := range cnt {
			if n >= need && (best == "" || n > cnt[best] || (n == cnt[best] && f < best)) {
				best = f
			}
		}
		if best == "" {
			break
		}
		family = best
		var next [][]string
		for _, s := range alive {
			if depth < len(s) && s[depth] == best {
				next = append(next, s)
			}
		}
		alive = next
	}
	return family, samples[0]
}

func c01FamilyFile(frame string, stack []string) string {
	if frame == "unknown" {
		return frame
	}
	file := func(f string) string { return strings.SplitN(f, ":", 2)[0] }
	if !c01HelperFiles[file(frame)] {
		return file(frame)
	}
	// the innermost caller of `frame` on the sample that is outside the helper files
	at := -1
	for i, f := range stack {
		if f == frame {
			at = i
			break
		}
	}
	for i := at - 1; i >= 0; i-- {
		if !c01HelperFiles[file(stack[i])] {
			return file(stack[i])
		}
	}
	return file(frame)
}

var c01ReSubdir = regexp.MustCompile(`^#?[\t ]*SUBDIR[\t ]*\+?=[\t ]*([^#]*?)[\t ]*(#.*)?$`)

// c01WithoutSelfSubdirs: the case without the SUBDIR lines of top-level and
// category Makefiles that name the directory itself or one of its ancestors
// (`SUBDIR+= .`, an empty `SUBDIR=`, `..`, `../cat`); ok = there was one.
func c01WithoutSelfSubdirs(c *c01Case) (variant *c01Case, ok bool) {
	variant = c01With(c, func(n *c01Case) {})
	for i, e := range variant.Spec.Entries {
		if e.Kind != 'f' || filepath.Base(e.Path) != "Makefile" || strings.Count(e.Path, "/") > 1 {
			continue
		}
		dir := filepath.Dir(e.Path)
		var keep []string
		changed := false
		for _, l := range strings.SplitAfter(e.Data, "\n") {
			m := c01ReSubdir.FindStringSubmatch(strings.TrimRight(l, "\r\n"))
			self := false
			if m != nil {
				words := strings.Fields(m[1])
				if len(words) == 0 {
					words = []string{""}
				}
				for _, w := range words {
					t := filepath.Clean(filepath.Join("/root", dir, w))
					base := filepath.Clean(filepath.Join("/root", dir))
					if !strings.Contains(w, "$") && (t == base || strings.HasPrefix(base+"/", t+"/") || t == "/") {
						self = true
					}
				}
			}
			if self {
				changed = true
			} else {
				keep = append(keep, l)
			}
		}
		if changed {
			ok = true
			variant.Spec.Entries[i].Data = strings.Join(keep, "")
			variant.Spec.Entries[i].Base = false
		}
	}
	return
}

// c01MaxExprNesting: the deepest nesting of ${ / $( in any non-base file.
func c01MaxExprNesting(ts *TreeSpec) int {
	max := 0
	for _, e := range ts.Entries {
		if e.Kind != 'f' || e.Base {
			continue
		}
		d := 0
		s := e.Data
		for i := 0; i+1 < len(s); i++ {
			switch {
			case s[i] == '$' && (s[i+1] == '{' || s[i+1] == '('):
				d++
				if d > max {
					max = d
				}
			case s[i] == '}' || s[i] == ')':
				if d > 0 {
					d--
				}
			case s[i] == '\n':
				d = 0
			}
		}
	}
	return max
}

// ---------- replay encoding ----------

func c01EncodeCase(c *c01Case) map[string]any {
	var es []any
	for _, e := range c.Spec.Entries {
		es = append(es, map[string]any{"p": hx(e.Path), "k": string(e.Kind), "d": hx(e.Data), "x": e.Exec, "b": e.Base})
	}
	var as []any
	for _, a := range c.Args {
		as = append(as, hx(a))
	}
	return map[string]any{"kind": "tree", "tree": es, "args": as, "cwd": c.Cwd, "stream": c.Stream,
		"readable_args": strings.Join(c.Args, " "), "readable_files": c01Readable(c.Spec)}
}

// the non-base files in readable form (truncated), for the human reader of a replay file
func c01Readable(ts *TreeSpec) map[string]any {
	m := map[string]any{}
	for _, e := range ts.Entries {
		if e.Base {
			continue
		}
		d := e.Data
		if len(d) > 600 {
			d = d[:600] + fmt.Sprintf("...(%d bytes)", len(e.Data))
		}
		m[e.Path] = string(e.Kind) + ":" + fmt.Sprintf("%q", d)
	}
	return m
}

func c01DecodeCase(rep map[string]any) *c01Case {
	c := &c01Case{Stream: "replay", Spec: &TreeSpec{}}
	c.Cwd, _ = rep["cwd"].(string)
	if es, ok := rep["tree"].([]any); ok {
		for _, x := range es {
			m, _ := x.(map[string]any)
			p, _ := m["p"].(string)
			k, _ := m["k"].(string)
			d, _ := m["d"].(string)
			ex, _ := m["x"].(bool)
			b, _ := m["b"].(bool)
			if k == "" {
				continue
			}
			c.Spec.Entries = append(c.Spec.Entries, TEntry{Path: unhx(p), Kind: k[0], Data: unhx(d), Exec: ex, Base: b})
		}
	}
	if as, ok := rep["args"].([]any); ok {
		for _, a := range as {
			s, _ := a.(string)
			c.Args = append(c.Args, unhx(s))
		}
	}
	return c
}
