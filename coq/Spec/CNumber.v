(* Specification: which words are C99 integer or floating constants, decimal
   or hexadecimal (ISO C99 6.4.4.1 and 6.4.4.2), as far as makepat.Number()
   intends: no suffixes (u, l, f), an optional sign in front, and octal
   constants merged with decimal ones (any digit sequence is an integer).

   The grammar is written down as a regular expression over bytes, following
   the productions of the standard, and recognised by Brzozowski derivatives.
   [lang] is the textbook meaning of a regular expression; Proofs/CNumberRe.v
   shows  re_match r s = true <-> lang r s.  Independent of the automaton in
   pat.go. *)
From PV Require Import Lib.Bytes.
Open Scope N_scope.

Inductive re :=
| Empty                     (* no word *)
| Eps                       (* the empty word *)
| Chr (lo hi : N)           (* one byte c with lo <= c <= hi *)
| Alt (a b : re)
| Cat (a b : re)
| Star (a : re).

Inductive lang : re -> str -> Prop :=
| LEps : lang Eps []
| LChr lo hi c : lo <= c -> c <= hi -> lang (Chr lo hi) [c]
| LAltL a b s : lang a s -> lang (Alt a b) s
| LAltR a b s : lang b s -> lang (Alt a b) s
| LCat a b s t : lang a s -> lang b t -> lang (Cat a b) (s ++ t)
| LStar0 a : lang (Star a) []
| LStarS a s t : lang a s -> lang (Star a) t -> lang (Star a) (s ++ t).

Fixpoint nullable (r : re) : bool :=
  match r with
  | Empty => false
  | Eps => true
  | Chr _ _ => false
  | Alt a b => nullable a || nullable b
  | Cat a b => nullable a && nullable b
  | Star _ => true
  end.

(* Alt and Cat that drop Empty and Eps operands (keeps the derivatives small) *)
Definition mk_alt (a b : re) : re :=
  match a, b with
  | Empty, _ => b
  | _, Empty => a
  | _, _ => Alt a b
  end.
Definition mk_cat (a b : re) : re :=
  match a, b with
  | Empty, _ => Empty
  | _, Empty => Empty
  | Eps, _ => b
  | _, Eps => a
  | _, _ => Cat a b
  end.

(* the words w such that c :: w is in r *)
Fixpoint deriv (c : N) (r : re) : re :=
  match r with
  | Empty => Empty
  | Eps => Empty
  | Chr lo hi => if (lo <=? c) && (c <=? hi) then Eps else Empty
  | Alt a b => mk_alt (deriv c a) (deriv c b)
  | Cat a b => if nullable a then mk_alt (mk_cat (deriv c a) b) (deriv c b)
               else mk_cat (deriv c a) b
  | Star a => mk_cat (deriv c a) (Star a)
  end.

Fixpoint re_match (r : re) (s : str) : bool :=
  match s with
  | [] => nullable r
  | c :: s' => re_match (deriv c r) s'
  end.

(* ---------- the grammar ---------- *)

Definition plus (r : re) : re := Cat r (Star r).
Definition opt (r : re) : re := Alt Eps r.
Definition chr (c : N) : re := Chr c c.

Definition digit : re := Chr 48 57.                                  (* 0-9 *)
Definition hexdigit : re := Alt digit (Alt (Chr 97 102) (Chr 65 70)). (* 0-9 a-f A-F *)
Definition sign : re := Alt (chr 43) (chr 45).                        (* + - *)
Definition dot : re := chr 46.

(* 6.4.4.1: decimal-constant and octal-constant (merged), hexadecimal-constant *)
Definition hex_prefix : re := Cat (chr 48) (Alt (chr 120) (chr 88)).  (* 0x 0X *)
Definition integer_constant : re := Alt (plus digit) (Cat hex_prefix (plus hexdigit)).

(* 6.4.4.2 *)
Definition exponent_part : re := Cat (Alt (chr 101) (chr 69)) (Cat (opt sign) (plus digit)).          (* e E *)
Definition binary_exponent_part : re := Cat (Alt (chr 112) (chr 80)) (Cat (opt sign) (plus digit)).   (* p P *)
Definition fractional_constant : re :=
  Alt (Cat (Star digit) (Cat dot (plus digit))) (Cat (plus digit) dot).
Definition hex_fractional_constant : re :=
  Alt (Cat (Star hexdigit) (Cat dot (plus hexdigit))) (Cat (plus hexdigit) dot).
Definition decimal_floating_constant : re :=
  Alt (Cat fractional_constant (opt exponent_part)) (Cat (plus digit) exponent_part).
Definition hex_floating_constant : re :=
  Cat hex_prefix (Cat (Alt hex_fractional_constant (plus hexdigit)) binary_exponent_part).

Definition c_number : re :=
  Cat (opt sign) (Alt integer_constant (Alt decimal_floating_constant hex_floating_constant)).

Definition is_c_number (s : str) : bool := re_match c_number s.
