(* Specification side of C10 (make half): what "the pieces reproduce the text"
   means.  Independent of the model: plain list functions. *)
From PV Require Import Lib.Bytes.
Open Scope N_scope.

(* the documented unescaping of unescapeComment: "\#" becomes "#", everything
   else stays (strings.ReplaceAll(s, "\\#", "#"), left to right) *)
Fixpoint unescape_hash (s : str) : str :=
  match s with
  | [] => []
  | c :: t =>
    match t with
    | d :: t' => if (c =? 92) && (d =? 35) then 35 :: unescape_hash t' else c :: unescape_hash t
    | [] => [c]
    end
  end.

(* tokens (text, kind) and a rest partition s: in order, nothing empty,
   nothing invented, nothing dropped *)
Definition partitions {K : Type} (toks : list (str * K)) (rest s : str) : Prop :=
  concat (map fst toks) ++ rest = s /\ Forall (fun t => fst t <> []) toks.

Definition partitions_b {K : Type} (toks : list (str * K)) (rest s : str) : bool :=
  str_eqb (concat (map fst toks) ++ rest) s &&
  forallb (fun t => match fst t with [] => false | _ => true end) toks.

(* c is a non-empty prefix-complement: s = c ++ r with c non-empty *)
Definition chops (s r : str) : Prop := exists c, c <> [] /\ s = c ++ r.
