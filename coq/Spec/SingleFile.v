(* The most common special case, in plain terms: one makefile, no '!=', and no
   '$' in the text of a ':=' assignment. *)
From PV Require Import Lib.Bytes Model.Redundant Spec.MakeEval Spec.VerdictSound.

(* all lines carry the same file id, the first line has number 1, no other has *)
Definition single_file (p : program) : bool :=
  match p with
  | [] => true
  | l0 :: r => (l_lineno l0 =? 1) &&
               forallb (fun l => (l_file l =? l_file l0) && negb (l_lineno l =? 1)) r
  end.

Definition no_shell (p : program) : bool :=
  forallb (fun l => match l_body l with
                    | Some a => negb (op_eqb (a_op a) OpShell)
                    | None => true
                    end) p.
