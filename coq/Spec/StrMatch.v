(* Specification: bmake's Str_Match (usr.bin/make/str.c), the matcher behind the
   ':M' and ':N' modifiers, transcribed over byte lists.  Independent of the
   model: it is the recursive, backtracking C function, working directly on the
   pattern text; no automaton.

   C source this follows (str.c, the recursive formulation used up to 1.97;
   the character-list part is textually the same in 1.98+, which only added
   the three error messages and replaced the recursion for '*' by an
   equivalent non-backtracking loop):

     for (; *pat != '\0'; pat++, str++) {
         if ( *pat == '*') {
             pat++; while ( *pat == '*') pat++;
             if ( *pat == '\0') return true;
             for (; *str != '\0'; str++) if (Str_Match(str, pat)) return true;
             return false;
         }
         if ( *str == '\0') return false;
         if ( *pat == '?') continue;
         if ( *pat == '[') {
             bool neg = pat[1] == '^';
             pat += neg ? 2 : 1;
             for (;;) {                                   -- "next_char_in_list"
                 if ( *pat == ']' || *pat == '\0') {       -- '\0': "Unfinished character list"
                     if (neg) break;
                     return false;
                 }
                 if ( *pat == *str) break;
                 if (pat[1] == '-') {
                     if (pat[2] == '\0') return neg;      -- "Unfinished character range"
                     if ( *pat <= *str && pat[2] >= *str) break;
                     if (pat[2] <= *str && *pat >= *str) break;
                     pat += 2;
                 }
                 pat++;
             }
             if (neg && *pat != ']' && *pat != '\0') return false;   -- "end_of_char_list"
             while ( *pat != ']' && *pat != '\0') pat++;
             if ( *pat == '\0') pat--;
             continue;
         }
         if ( *pat == '\\') pat++;                         -- at the end: "Unfinished escape sequence"
         if ( *pat != *str) return false;
     }
     return *str == '\0';

   Bytes are compared as unsigned char (str.c 1.98+).  A C string ends at the
   first NUL; here a string is a list, so "end of string" is the end of the
   list and a NUL byte is an ordinary byte (bmake never sees one).

   [malformed] says whether the pattern is one of the three kinds bmake 1.98+
   reports: it is decided by the scan bmake performs when the subject byte
   matches no element of a list (the only scan that reads every element). *)
From PV Require Import Lib.Bytes.
Open Scope N_scope.

(* ---------- character lists ---------- *)

Inductive list_result :=
| LNoMatch                 (* this list does not match the byte *)
| LMatch (rest : str)      (* it does; the pattern continues with rest *)
| LReturn (b : bool).      (* unfinished range: Str_Match returns b at once *)

(* while ( *pat != ']' && *pat != '\0') pat++; [if at the end: stay at the end] ; pat++ *)
Fixpoint after_rbracket (pat : str) : str :=
  match pat with
  | [] => []
  | c :: r => if c =? 93 then r else after_rbracket r
  end.

(* end_of_char_list *)
Definition end_of_char_list (neg : bool) (pat : str) : list_result :=
  match pat with
  | [] => LMatch []
  | c :: _ => if neg && negb (c =? 93) then LNoMatch else LMatch (after_rbracket pat)
  end.

(* e1 <= c <= e2 or e2 <= c <= e1 *)
Definition in_range_either (e1 e2 c : N) : bool :=
  ((e1 <=? c) && (c <=? e2)) || ((e2 <=? c) && (c <=? e1)).

(* next_char_in_list, [c] is *str *)
Fixpoint list_scan (neg : bool) (c : N) (pat : str) : list_result :=
  match pat with
  | [] => if neg then end_of_char_list neg pat else LNoMatch
  | x :: p1 =>
    if x =? 93 then (if neg then end_of_char_list neg pat else LNoMatch)
    else if x =? c then end_of_char_list neg pat
    else match p1 with
         | d :: p2 =>
           if d =? 45 then
             match p2 with
             | [] => LReturn neg
             | e2 :: p3 => if in_range_either x e2 c then end_of_char_list neg pat
                           else list_scan neg c p3
             end
           else list_scan neg c p1
         | [] => list_scan neg c p1
         end
  end.

(* ---------- Str_Match ---------- *)

Fixpoint skip_stars (pat : str) : str :=
  match pat with
  | c :: r => if c =? 42 then skip_stars r else pat
  | [] => []
  end.

(* None = out of fuel (never happens with fuel > length pat, see Proofs) *)
Fixpoint str_match_fuel (fuel : nat) (s pat : str) : option bool :=
  match fuel with
  | O => None
  | S f =>
    match pat with
    | [] => Some (match s with [] => true | _ => false end)
    | pc :: pat1 =>
      if pc =? 42 (* '*' *) then
        match skip_stars pat1 with
        | [] => Some true
        | pat' =>
          (fix try (s : str) : option bool :=
             match s with
             | [] => Some false
             | _ :: s' => match str_match_fuel f s pat' with
                          | Some true => Some true
                          | Some false => try s'
                          | None => None
                          end
             end) s
        end
      else
        match s with
        | [] => Some false
        | sc :: s1 =>
          if pc =? 63 (* '?' *) then str_match_fuel f s1 pat1
          else if pc =? 91 (* '[' *) then
            let neg := match pat1 with c :: _ => c =? 94 | [] => false end in
            let pat2 := if neg then tl pat1 else pat1 in
            match list_scan neg sc pat2 with
            | LNoMatch => Some false
            | LReturn b => Some b
            | LMatch rest => str_match_fuel f s1 rest
            end
          else if pc =? 92 (* '\\' *) then
            match pat1 with
            | [] => Some false           (* compares the terminating NUL with *str *)
            | q :: pat2 => if q =? sc then str_match_fuel f s1 pat2 else Some false
            end
          else if pc =? sc then str_match_fuel f s1 pat1
          else Some false
        end
    end
  end.

(* Str_Match(str, pat), arguments in the order (pattern, string) used elsewhere *)
Definition str_match (pat s : str) : option bool := str_match_fuel (S (length pat)) s pat.

(* ---------- which patterns are malformed ---------- *)

(* where the scan of the pattern text is *)
Inductive pstate :=
| PTop                  (* outside a list *)
| PEsc                  (* after a backslash *)
| PList0                (* after '[' *)
| PElem (neg : bool)    (* in a list, at the start of an element *)
| PChar (neg : bool)    (* in a list, after the first byte of an element *)
| PDash (neg : bool).   (* in a list, after "x-" *)

Definition pnext (st : pstate) (c : N) : pstate :=
  match st with
  | PTop => if c =? 92 then PEsc else if c =? 91 then PList0 else PTop
  | PEsc => PTop
  | PList0 => if c =? 94 then PElem true else if c =? 93 then PTop else PChar false
  | PElem neg => if c =? 93 then PTop else PChar neg
  | PChar neg => if c =? 45 then PDash neg else if c =? 93 then PTop else PChar neg
  | PDash neg => PElem neg
  end.

(* the pattern ends inside an escape sequence, a character list or a range *)
Fixpoint malformed_from (st : pstate) (pat : str) : bool :=
  match pat with
  | [] => match st with PTop => false | _ => true end
  | c :: r => malformed_from (pnext st c) r
  end.
Definition malformed (pat : str) : bool := malformed_from PTop pat.

(* a non-negated list contains a range "x-]": there bmake's result depends on
   which element matched first (it then skips to the first ']', which is the
   end of that range and not the end of the list) *)
Fixpoint range_to_rbracket_from (st : pstate) (pat : str) : bool :=
  match pat with
  | [] => false
  | c :: r => (match st with PDash false => c =? 93 | _ => false end)
              || range_to_rbracket_from (pnext st c) r
  end.
Definition range_to_rbracket (pat : str) : bool := range_to_rbracket_from PTop pat.
