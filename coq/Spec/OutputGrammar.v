(* C06 (whole-run part): an executable recogniser of pkglint's stdout line
   grammar and the accounting predicate that ties the diagnostic lines to the
   summary line and the exit status.

   Written from the property statement and from reading logging.go
   (Logf, writeSource/writeDiff, Explain, ShowSummary), util.go
   (joinCambridge, shquote) and pkglint.go (Main); it is a specification of
   what may appear on stdout for the option sets {-g -s -e -q -Werror -f -F
   --only}, not a model of the Logger (that is part C06log).  No proofs here. *)
From PV Require Import Lib.Bytes.
Import ListNotations.
Open Scope N_scope.

(* ---------- small string helpers ---------- *)
Definition s_colon_sp : str := [58; 32].                                  (* ": " *)

(* first occurrence of [pat] in [s]: (before, after) *)
Fixpoint split_at (pat s : str) : option (str * str) :=
  match strip_prefix pat s with
  | Some r => Some ([], r)
  | None =>
      match s with
      | [] => None
      | c :: s' =>
          match split_at pat s' with
          | Some (a, b) => Some (c :: a, b)
          | None => None
          end
      end
  end.

(* last occurrence of the byte [c]: (before, after) *)
Fixpoint split_last (c : N) (s : str) : option (str * str) :=
  match s with
  | [] => None
  | x :: s' =>
      match split_last c s' with
      | Some (a, b) => Some (x :: a, b)
      | None => if x =? c then Some ([], s') else None
      end
  end.

Definition strip_suffix (suf s : str) : option str :=
  match strip_prefix (rev suf) (rev s) with
  | Some r => Some (rev r)
  | None => None
  end.

(* ---------- decimal numbers, as Go's %d prints them ---------- *)
Fixpoint uint_bytes (u : Decimal.uint) : str :=
  match u with
  | Decimal.Nil => []
  | Decimal.D0 u => 48 :: uint_bytes u
  | Decimal.D1 u => 49 :: uint_bytes u
  | Decimal.D2 u => 50 :: uint_bytes u
  | Decimal.D3 u => 51 :: uint_bytes u
  | Decimal.D4 u => 52 :: uint_bytes u
  | Decimal.D5 u => 53 :: uint_bytes u
  | Decimal.D6 u => 54 :: uint_bytes u
  | Decimal.D7 u => 55 :: uint_bytes u
  | Decimal.D8 u => 56 :: uint_bytes u
  | Decimal.D9 u => 57 :: uint_bytes u
  end.
Definition print_dec (n : N) : str := uint_bytes (N.to_uint n).

(* digits only, non-empty; leading zeros are accepted by the parser (Go never prints them) *)
Fixpoint bytes_uint (s : str) : option Decimal.uint :=
  match s with
  | [] => Some Decimal.Nil
  | c :: s' =>
      match bytes_uint s' with
      | None => None
      | Some u =>
          if c =? 48 then Some (Decimal.D0 u) else if c =? 49 then Some (Decimal.D1 u)
          else if c =? 50 then Some (Decimal.D2 u) else if c =? 51 then Some (Decimal.D3 u)
          else if c =? 52 then Some (Decimal.D4 u) else if c =? 53 then Some (Decimal.D5 u)
          else if c =? 54 then Some (Decimal.D6 u) else if c =? 55 then Some (Decimal.D7 u)
          else if c =? 56 then Some (Decimal.D8 u) else if c =? 57 then Some (Decimal.D9 u)
          else None
      end
  end.
Definition parse_dec (s : str) : option N :=
  match s with
  | [] => None
  | _ => match bytes_uint s with Some u => Some (N.of_uint u) | None => None end
  end.

(* ---------- the line kinds ---------- *)
Inductive level := LError | LWarn | LNote | LAutofix.
Inductive lineno := NoLine | LEOF | LNum (n : N) | LRange (n m : N).
Inductive line_kind :=
  | KDiag (lv : level) (path : option str) (ln : lineno) (msg : str)
  | KSource (c : N)          (* ">\t", "+\t", "-\t" + escaped raw line *)
  | KIndented                (* "\t" + text: explanation line or unchanged line inside a diff *)
  | KEmpty
  | KSummary (e w n : N)
  | KLooksFine
  | KHint (k : N)            (* 1: -e, 2: -fs, 3: -F *)
  | KUnknown.

Definition level_name (gcc : bool) (lv : level) : str :=
  match gcc, lv with
  | false, LError => [69;82;82;79;82]              (* ERROR *)
  | false, LWarn => [87;65;82;78]                  (* WARN *)
  | false, LNote => [78;79;84;69]                  (* NOTE *)
  | false, LAutofix => [65;85;84;79;70;73;88]      (* AUTOFIX *)
  | true, LError => [101;114;114;111;114]          (* error *)
  | true, LWarn => [119;97;114;110;105;110;103]    (* warning *)
  | true, LNote => [110;111;116;101]               (* note *)
  | true, LAutofix => [97;117;116;111;102;105;120] (* autofix *)
  end.
Definition all_levels : list level := [LError; LWarn; LNote; LAutofix].

(* "<level>: " at the start of [s] *)
Fixpoint strip_level (gcc : bool) (lvs : list level) (s : str) : option (level * str) :=
  match lvs with
  | [] => None
  | lv :: lvs' =>
      match strip_prefix (level_name gcc lv ++ s_colon_sp) s with
      | Some r => Some (lv, r)
      | None => strip_level gcc lvs' s
      end
  end.

(* "path", "path:12", "path:12--13", "path:EOF" *)
Definition parse_lineno (s : str) : option lineno :=
  if str_eqb s [69;79;70] then Some LEOF else
  match split_at [45;45] s with
  | Some (a, b) =>
      match parse_dec a, parse_dec b with
      | Some n, Some m => Some (LRange n m)
      | _, _ => None
      end
  | None => match parse_dec s with Some n => Some (LNum n) | None => None end
  end.
Definition split_loc (loc : str) : str * lineno :=
  match split_last 58 loc with
  | Some (p, l) =>
      match parse_lineno l with
      | Some ln => (p, ln)
      | None => (loc, NoLine)
      end
  | None => (loc, NoLine)
  end.

(* traditional: "LEVEL: [path[:lineno]: ]message" *)
Definition parse_diag_trad (s : str) : option line_kind :=
  match strip_level false all_levels s with
  | None => None
  | Some (lv, r) =>
      match split_at s_colon_sp r with
      | Some (loc, msg) =>
          match loc with
          | [] => Some (KDiag lv None NoLine r)
          | _ => let (p, ln) := split_loc loc in Some (KDiag lv (Some p) ln msg)
          end
      | None => Some (KDiag lv None NoLine r)
      end
  end.

(* gcc: "[path[:lineno]: ]level: message" *)
Definition parse_diag_gcc (s : str) : option line_kind :=
  match strip_level true all_levels s with
  | Some (lv, msg) => Some (KDiag lv None NoLine msg)
  | None =>
      match split_at s_colon_sp s with
      | Some (loc, r) =>
          match strip_level true all_levels r, loc with
          | Some (lv, msg), _ :: _ => let (p, ln) := split_loc loc in Some (KDiag lv (Some p) ln msg)
          | _, _ => None
          end
      | None => None
      end
  end.

(* ---------- summary ---------- *)
Definition s_found : str := [32;102;111;117;110;100;46].                 (* " found." *)
Definition s_and : str := [32;97;110;100;32].                            (* " and " *)
Definition s_comma : str := [44;32].                                     (* ", " *)
Definition w_error : str := [101;114;114;111;114].
Definition w_warning : str := [119;97;114;110;105;110;103].
Definition w_note : str := [110;111;116;101].

(* ShowSummary's num(): "" | "1 error" | "<n> errors" *)
Definition num (n : N) (word : str) : str :=
  if n =? 0 then [] else if n =? 1 then print_dec n ++ [32] ++ word else print_dec n ++ [32] ++ word ++ [115].

(* util.go joinCambridge("and", a, b, c): empty elements vanish; "a", "a and b", "a, b and c" *)
Definition join_cambridge (els : list str) : str :=
  match filter (fun e => negb (str_eqb e [])) els with
  | [] => []
  | [a] => a
  | [a; b] => a ++ s_and ++ b
  | a :: b :: c :: _ => a ++ s_comma ++ b ++ s_and ++ c
  end.

Definition print_summary (e w n : N) : str :=
  join_cambridge [num e w_error; num w w_warning; num n w_note] ++ s_found.

(* one element "<n> <word>[s]" *)
Definition parse_num (s : str) : option (N * N) :=   (* (which word: 1 error 2 warning 3 note, count) *)
  match split_at [32] s with
  | None => None
  | Some (d, wd) =>
      match parse_dec d with
      | None => None
      | Some n =>
          if n =? 0 then None else
          let singular := n =? 1 in
          let is w := if singular then str_eqb wd w else str_eqb wd (w ++ [115]) in
          if is w_error then Some (1, n) else if is w_warning then Some (2, n) else if is w_note then Some (3, n) else None
      end
  end.

Definition set_count (acc : N * N * N) (k : N * N) : option (N * N * N) :=
  let '(e, w, n) := acc in
  let '(which, c) := k in
  (* strictly increasing kinds: error before warning before note, none twice *)
  if which =? 1 then (if (e =? 0) && (w =? 0) && (n =? 0) then Some (c, w, n) else None)
  else if which =? 2 then (if (w =? 0) && (n =? 0) then Some (e, c, n) else None)
  else (if n =? 0 then Some (e, w, c) else None).

Definition parse_summary (s : str) : option (N * N * N) :=
  match strip_suffix s_found s with
  | None => None
  | Some body =>
      (* body = A | A and B | A, B and C *)
      let parts :=
        match split_at s_comma body with
        | Some (a, rest) =>
            match split_at s_and rest with
            | Some (b, c) => Some [a; b; c]
            | None => None
            end
        | None =>
            match split_at s_and body with
            | Some (a, b) => Some [a; b]
            | None => Some [body]
            end
        end in
      match parts with
      | None => None
      | Some ps =>
          fold_left (fun acc p =>
                       match acc, parse_num p with
                       | Some a, Some k => set_count a k
                       | _, _ => None
                       end) ps (Some (0, 0, 0))
      end
  end.

(* ---------- hints ---------- *)
Definition s_run : str := [40;82;117;110;32;34].                         (* (Run + double quote *)
Definition s_hint1 : str := [34;32;116;111;32;115;104;111;119;32;101;120;112;108;97;110;97;116;105;111;110;115;46;41].
  (* double quote + to show explanations.) *)
Definition s_hint2 : str := [34;32;116;111;32;115;104;111;119;32;119;104;97;116;32;99;97;110;32;98;101;32;102;105;120;101;100;32;97;117;116;111;109;97;116;105;99;97;108;108;121;46;41].
  (* double quote + to show what can be fixed automatically.) *)
Definition s_hint3 : str := [34;32;116;111;32;97;117;116;111;109;97;116;105;99;97;108;108;121;32;102;105;120;32;115;111;109;101;32;105;115;115;117;101;115;46;41].
  (* double quote + to automatically fix some issues.) *)
Definition parse_hint (s : str) : option N :=
  match strip_prefix s_run s with
  | None => None
  | Some r =>
      match strip_suffix s_hint1 r, strip_suffix s_hint2 r, strip_suffix s_hint3 r with
      | Some _, _, _ => Some 1
      | _, Some _, _ => Some 2
      | _, _, Some _ => Some 3
      | _, _, _ => None
      end
  end.

Definition s_looks_fine : str := [76;111;111;107;115;32;102;105;110;101;46].  (* Looks fine. *)

(* ---------- the recogniser for one stdout line (without its newline) ---------- *)
Definition classify (gcc : bool) (s : str) : line_kind :=
  match s with
  | [] => KEmpty
  | 9 :: _ => KIndented
  | c :: 9 :: _ => if (c =? 62) || (c =? 43) || (c =? 45) then KSource c else
                     match (if gcc then parse_diag_gcc s else parse_diag_trad s) with Some k => k | None => KUnknown end
  | _ =>
      if str_eqb s s_looks_fine then KLooksFine else
      match parse_hint s with
      | Some k => KHint k
      | None =>
          match (if gcc then parse_diag_gcc s else parse_diag_trad s) with
          | Some k => k
          | None => match parse_summary s with Some (e, w, n) => KSummary e w n | None => KUnknown end
          end
      end
  end.

(* terminal safety: printable ASCII, tab; the newline is the line separator *)
Definition safe_byte (c : N) : bool := (c =? 9) || ((32 <=? c) && (c <=? 126)).
Definition safe_line (s : str) : bool := forallb safe_byte s.

(* ---------- accounting ---------- *)
Record counts := { c_err : N; c_warn : N; c_note : N;
                   c_final : N;      (* number of summary / "Looks fine." lines *)
                   c_final_ok : bool; (* the final line agrees with the counts so far *)
                   c_after : bool;   (* a diagnostic, source or explanation line after the final line *)
                   c_hints : N; c_unknown : N }.

Definition count_step (c : counts) (k : line_kind) : counts :=
  let late := 0 <? c_final c in
  match k with
  | KDiag LError _ _ _ => {| c_err := c_err c + 1; c_warn := c_warn c; c_note := c_note c; c_final := c_final c; c_final_ok := c_final_ok c; c_after := c_after c || late; c_hints := c_hints c; c_unknown := c_unknown c |}
  | KDiag LWarn _ _ _ => {| c_err := c_err c; c_warn := c_warn c + 1; c_note := c_note c; c_final := c_final c; c_final_ok := c_final_ok c; c_after := c_after c || late; c_hints := c_hints c; c_unknown := c_unknown c |}
  | KDiag LNote _ _ _ => {| c_err := c_err c; c_warn := c_warn c; c_note := c_note c + 1; c_final := c_final c; c_final_ok := c_final_ok c; c_after := c_after c || late; c_hints := c_hints c; c_unknown := c_unknown c |}
  | KDiag LAutofix _ _ _ | KSource _ | KIndented =>
      {| c_err := c_err c; c_warn := c_warn c; c_note := c_note c; c_final := c_final c; c_final_ok := c_final_ok c; c_after := c_after c || late; c_hints := c_hints c; c_unknown := c_unknown c |}
  | KEmpty => c
  | KSummary e w n =>
      {| c_err := c_err c; c_warn := c_warn c; c_note := c_note c; c_final := c_final c + 1;
         c_final_ok := (e =? c_err c) && (w =? c_warn c) && (n =? c_note c) && ((0 <? e) || (0 <? w));
         c_after := c_after c; c_hints := c_hints c; c_unknown := c_unknown c |}
  | KLooksFine =>
      {| c_err := c_err c; c_warn := c_warn c; c_note := c_note c; c_final := c_final c + 1;
         c_final_ok := (c_err c =? 0) && (c_warn c =? 0);
         c_after := c_after c; c_hints := c_hints c; c_unknown := c_unknown c |}
  | KHint _ =>
      {| c_err := c_err c; c_warn := c_warn c; c_note := c_note c; c_final := c_final c; c_final_ok := c_final_ok c;
         c_after := c_after c || negb late; c_hints := c_hints c + 1; c_unknown := c_unknown c |}
  | KUnknown =>
      {| c_err := c_err c; c_warn := c_warn c; c_note := c_note c; c_final := c_final c; c_final_ok := c_final_ok c; c_after := c_after c; c_hints := c_hints c; c_unknown := c_unknown c + 1 |}
  end.

Definition counts0 : counts :=
  {| c_err := 0; c_warn := 0; c_note := 0; c_final := 0; c_final_ok := true; c_after := false; c_hints := 0; c_unknown := 0 |}.

Definition tally (gcc : bool) (lines : list str) : counts :=
  fold_left (fun c l => count_step c (classify gcc l)) lines counts0.

(* expected exit status of a run that ended normally (no FATAL, valid command line) *)
Definition expected_exit (werror : bool) (c : counts) : N :=
  if (0 <? c_err c) || (werror && (0 <? c_warn c)) then 1 else 0.

(* the accounting predicate.  [nosummary] = -q or -F (ShowSummary returns at once).
   Result: 0 = holds, otherwise the number of the first clause that fails:
   1 unknown line, 2 summary present/absent wrongly, 3 summary disagrees with the lines
   (counts or "Looks fine." iff no errors and warnings), 4 diagnostics after the summary or a
   hint before it, 5 exit status *)
Definition accounting (gcc nosummary werror : bool) (lines : list str) (exit : N) : N :=
  let c := tally gcc lines in
  if 0 <? c_unknown c then 1
  else if nosummary then
    (if (0 <? c_final c) || (0 <? c_hints c) then 2
     else if exit =? expected_exit werror c then 0 else 5)
  else if negb (c_final c =? 1) then 2
  else if negb (c_final_ok c) then 3
  else if c_after c then 4
  else if exit =? expected_exit werror c then 0 else 5.
