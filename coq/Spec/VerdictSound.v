(* What "the flagged line can be deleted" means: the bridge from the model's
   programs to the text-level programs of Spec/MakeEval.v, the statement of
   soundness of a verdict, and its executable form (used by the harness on the
   verdicts of the real code).  No proofs here. *)
From PV Require Import Lib.Bytes Model.Redundant Spec.MakeEval.

Definition spec_op (o : op) : sop :=
  match o with
  | OpAssign => SAssign | OpShell => SShell | OpEval => SEval
  | OpAppend => SAppend | OpDefault => SDefault
  end.

Definition spec_assign (a : assign) : sassign :=
  mkSAssign (a_var a) (spec_op (a_op a)) (render (a_val a)).

Definition spec_line (l : line) : option sassign := option_map spec_assign (l_body l).
Definition to_spec (p : program) : sprogram := map spec_line p.

(* deleting line i leaves the final value of every variable unchanged *)
Definition deletable (p : program) (i : nat) : Prop :=
  forall (fuel : nat) (x : str),
    final fuel (to_spec (delete_nth i p)) x = final fuel (to_spec p) x.

(* ----- executable form, over the variables that occur in the program
   (closed world: every other variable is undefined before and after) ----- *)

Definition vars_of_line (l : line) : list var :=
  match l_body l with None => [] | Some a => a_var a :: uses (a_val a) end.
Definition vars_of (p : program) : list var := flat_map vars_of_line p.

Definition ostr_eqb (a b : option str) : bool :=
  match a, b with
  | Some x, Some y => str_eqb x y
  | None, None => true
  | _, _ => false
  end.

(* the variables whose final value changes when line i is deleted *)
Definition changed_vars (fuel : nat) (p : program) (i : nat) : list var :=
  filter (fun x => negb (ostr_eqb (final fuel (to_spec (delete_nth i p)) x)
                                  (final fuel (to_spec p) x)))
         (vars_of p).

Definition deletable_b (fuel : nat) (p : program) (i : nat) : bool :=
  match changed_vars fuel p i with [] => true | _ => false end.

(* ----- well-formedness: what the makefile parser can produce ----- *)

(* no '$' in a literal chunk or in a variable name, no '{' '}' ':' in a name,
   names not empty *)
Definition name_ok (w : var) : bool :=
  match w with [] => false | _ => forallb (fun c => negb ((c =? 36) || (c =? 123) || (c =? 125) || (c =? 58))) w end.
Definition chunk_ok (c : chunk) : bool :=
  match c with Lit s => no_dollar s | Ref w => name_ok w end.
(* mkline.Value() is trimmed: it does not start with a space *)
Definition trimmed (s : str) : bool := match s with c :: _ => negb (c =? 32) | [] => true end.
Definition assign_ok (a : assign) : bool :=
  name_ok (a_var a) && forallb chunk_ok (a_val a) && trimmed (render (a_val a)).
Definition line_ok (l : line) : bool :=
  match l_body l with None => true | Some a => assign_ok a end.
Definition wf_program (p : program) : bool := forallb line_ok p.

(* ----- guards of the partial theorem ----- *)

Definition is_eager (o : op) : bool := match o with OpEval | OpShell => true | _ => false end.

(* no ':=' or '!=' whose text contains a '$' *)
Definition eager_plain_line (l : line) : bool :=
  match l_body l with
  | Some a => if is_eager (a_op a) then no_dollar (render (a_val a)) else true
  | None => true
  end.
Definition eager_plain (p : program) : bool := forallb eager_plain_line p.

(* no '!=' assignment to x *)
Definition no_shell_on (x : var) (p : program) : bool :=
  forallb (fun l => match l_body l with
                    | Some a => negb (str_eqb (a_var a) x && op_eqb (a_op a) OpShell)
                    | None => true
                    end) p.

Definition assigns (x : var) (l : line) : bool :=
  match l_body l with Some a => str_eqb (a_var a) x | None => false end.

Definition line_var (p : program) (i : nat) : var :=
  match nth_error p i with
  | Some l => match l_body l with Some a => a_var a | None => [] end
  | None => []
  end.
Definition line_op (p : program) (i : nat) : option op :=
  match nth_error p i with
  | Some l => option_map a_op (l_body l)
  | None => None
  end.

(* number of assignments to x among the first n lines *)
Definition writes_before (x : var) (p : program) (n : nat) : nat :=
  length (filter (assigns x) (firstn n p)).

(* A verdict that flags an EARLIER line as redundant because of a later
   default assignment: sound only if the flagged line is the first assignment. *)
Definition backward_default_ok (p : program) (vd : verdict) : bool :=
  if Nat.ltb (vd_flagged vd) (vd_because vd) then
    match vd_kind vd, line_op p (vd_because vd) with
    | KOverwritten, _ => true
    | _, Some OpDefault => Nat.eqb (writes_before (line_var p (vd_flagged vd)) p (vd_flagged vd)) 0
    | _, _ => true
    end
  else true.

(* A verdict that flags the CURRENT line as redundant because it assigns the
   text pkglint remembers: the remembered text is not the value after '!='. *)
Definition forward_same_ok (p : program) (vd : verdict) : bool :=
  if Nat.ltb (vd_because vd) (vd_flagged vd) then
    match line_op p (vd_flagged vd) with
    | Some OpDefault => true
    | _ => no_shell_on (line_var p (vd_flagged vd)) (firstn (vd_flagged vd) p)
    end
  else true.

(* every assignment to x is plain *)
Definition plain_on (x : var) (p : program) : bool :=
  forallb (fun l => negb (assigns x l) || eager_plain_line l) p.

(* the lines strictly between line i and line j, i < j *)
Definition between (p : program) (i j : nat) : program := firstn (j - S i) (skipn (S i) p).

(* The guard of the partial theorem, for a verdict about variable x that was
   emitted at line hi = max(flagged, because):
   - no assignment to x up to and including line hi is ':=' or '!=' with a '$' in its text
   - if an earlier line is flagged: no ':=' / '!=' with a '$' strictly between the two lines
   - the two conditions above *)
Definition guard (p : program) (vd : verdict) : bool :=
  let lo := Nat.min (vd_flagged vd) (vd_because vd) in
  let hi := Nat.max (vd_flagged vd) (vd_because vd) in
  plain_on (line_var p (vd_flagged vd)) (firstn (S hi) p) &&
  (if Nat.ltb (vd_flagged vd) (vd_because vd) then eager_plain (between p lo hi) else true) &&
  backward_default_ok p vd && forward_same_ok p vd.

(* ----- the statement ----- *)

(* every verdict of the model that satisfies P flags a deletable line *)
Definition verdict_sound_on (P : program -> verdict -> Prop) : Prop :=
  forall (p : program) (vs : list verdict) (vd : verdict),
    wf_program p = true -> check p = Ok vs -> In vd vs -> P p vd ->
    deletable p (vd_flagged vd).

(* ----- reads block verdicts ----- *)

(* what happened last to x in the lines so far: nothing, a use ${x} in the value
   of an assignment, or an assignment to x (within one line the assignment comes
   before the uses of its value) *)
Definition mention (x : var) (acc : action) (l : line) : action :=
  match l_body l with
  | None => acc
  | Some a =>
      if existsb (str_eqb x) (uses (a_val a)) then ARead
      else if str_eqb (a_var a) x then AWrite else acc
  end.
Definition last_mention (x : var) (pre : program) : action := fold_left (mention x) pre ANone.

(* the line at which a verdict is emitted is the later of its two lines *)
Definition emitted_at (vd : verdict) : nat := Nat.max (vd_flagged vd) (vd_because vd).
