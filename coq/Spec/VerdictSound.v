(* What "the flagged line can be deleted" means: the bridge from the model's
   programs to the text-level programs of Spec/MakeEval.v, the statement of
   soundness of a verdict, and its executable form (used by the harness on the
   verdicts of the real code).  No proofs here. *)
From PV Require Import Lib.Bytes Model.Redundant Spec.MakeEval.

Definition spec_op (o : op) : sop :=
  match o with
  | OpAssign => SAssign | OpShell => SShell | OpEval => SEval
  | OpAppend => SAppend | OpDefault => SDefault
  end.

Definition spec_assign (a : assign) : sassign :=
  mkSAssign (a_var a) (spec_op (a_op a)) (render (a_val a)).

Definition spec_line (l : line) : option sassign := option_map spec_assign (l_body l).
Definition to_spec (p : program) : sprogram := map spec_line p.

(* deleting line i leaves the final value of every variable unchanged *)
Definition deletable (p : program) (i : nat) : Prop :=
  forall (fuel : nat) (x : str),
    final fuel (to_spec (delete_nth i p)) x = final fuel (to_spec p) x.

(* ----- executable form, over the variables that occur in the program
   (closed world: every other variable is undefined before and after) ----- *)

Definition vars_of_line (l : line) : list var :=
  match l_body l with None => [] | Some a => a_var a :: uses (a_val a) end.
Definition vars_of (p : program) : list var := flat_map vars_of_line p.

Definition ostr_eqb (a b : option str) : bool :=
  match a, b with
  | Some x, Some y => str_eqb x y
  | None, None => true
  | _, _ => false
  end.

(* the variables whose final value changes when line i is deleted *)
Definition changed_vars (fuel : nat) (p : program) (i : nat) : list var :=
  filter (fun x => negb (ostr_eqb (final fuel (to_spec (delete_nth i p)) x)
                                  (final fuel (to_spec p) x)))
         (vars_of p).

Definition deletable_b (fuel : nat) (p : program) (i : nat) : bool :=
  match changed_vars fuel p i with [] => true | _ => false end.

(* ----- well-formedness: what the makefile parser can produce ----- *)

(* no '$' in a literal chunk or in a variable name, no '{' '}' ':' in a name,
   names not empty *)
Definition name_ok (w : var) : bool :=
  match w with [] => false | _ => forallb (fun c => negb ((c =? 36) || (c =? 123) || (c =? 125) || (c =? 58))) w end.
Definition chunk_ok (c : chunk) : bool :=
  match c with Lit s => no_dollar s | Ref w => name_ok w end.
(* mkline.Value() is trimmed: it does not start with a space *)
Definition trimmed (s : str) : bool := match s with c :: _ => negb (c =? 32) | [] => true end.
Definition assign_ok (a : assign) : bool :=
  name_ok (a_var a) && forallb chunk_ok (a_val a) && trimmed (render (a_val a)).
Definition line_ok (l : line) : bool :=
  match l_body l with None => true | Some a => assign_ok a end.
Definition wf_program (p : program) : bool := forallb line_ok p.

(* ----- guards of the partial theorem ----- *)

Definition is_eager (o : op) : bool := match o with OpEval | OpShell => true | _ => false end.

(* no ':=' or '!=' whose text contains a '$' *)
Definition eager_plain_line (l : line) : bool :=
  match l_body l with
  | Some a => if is_eager (a_op a) then no_dollar (render (a_val a)) else true
  | None => true
  end.
Definition eager_plain (p : program) : bool := forallb eager_plain_line p.

(* no '!=' assignment to x *)
Definition no_shell_on (x : var) (p : program) : bool :=
  forallb (fun l => match l_body l with
                    | Some a => negb (str_eqb (a_var a) x && op_eqb (a_op a) OpShell)
                    | None => true
                    end) p.

Definition assigns (x : var) (l : line) : bool :=
  match l_body l with Some a => str_eqb (a_var a) x | None => false end.

Definition line_var (p : program) (i : nat) : var :=
  match nth_error p i with
  | Some l => match l_body l with Some a => a_var a | None => [] end
  | None => []
  end.
Definition line_op (p : program) (i : nat) : option op :=
  match nth_error p i with
  | Some l => option_map a_op (l_body l)
  | None => None
  end.

(* the assignments to x in a program, with the index of their line *)
Definition entry (x : var) (idx : nat) (l : line) : list (nat * assign) :=
  match l_body l with
  | Some a => if str_eqb (a_var a) x then [(idx, a)] else []
  | None => []
  end.

Fixpoint writes_of (x : var) (idx : nat) (ls : list line) : list (nat * assign) :=
  match ls with
  | [] => []
  | l :: r => entry x idx l ++ writes_of x (S idx) r
  end.

(* the last assignment that replaced the whole value ('=' or ':=') was a ':='
   whose text contains a '$': what pkglint remembers for the variable is then the
   unexpanded text, not the value (finding C17/unsound/redundant-after-eval-assign,
   which cannot be repaired without changing the expectations of the test suite) *)
Definition after_eval_ref (ws : list (nat * assign)) : bool :=
  fold_left (fun acc w => match a_op (snd w) with
                          | OpEval => negb (no_dollar (render (a_val (snd w))))
                          | OpAssign => false
                          | _ => acc
                          end) ws false.

(* the lines strictly between line i and line j, i < j *)
Definition between (p : program) (i j : nat) : program := firstn (j - S i) (skipn (S i) p).

Definition line_plain (p : program) (i : nat) : bool :=
  match nth_error p i with Some l => eager_plain_line l | None => true end.

(* The guard of the partial theorem (code with the fixes 01-04 applied), for a
   verdict about variable x:
   - the LATER line is flagged because it assigns the remembered text again
     ('=' or ':='): the last '=' / ':=' to x before it is not a ':=' with a '$';
     (a later line flagged because it is a '?=': no condition)
   - an EARLIER line is flagged: no ':=' / '!=' with a '$' in its text strictly
     between the two lines, nor is the later line itself one. *)
Definition guard (p : program) (vd : verdict) : bool :=
  if Nat.ltb (vd_flagged vd) (vd_because vd) then
    eager_plain (between p (vd_flagged vd) (vd_because vd)) && line_plain p (vd_because vd)
  else
    match line_op p (vd_flagged vd) with
    | Some OpDefault => true
    | _ => negb (after_eval_ref (writes_of (line_var p (vd_flagged vd)) 0 (firstn (vd_flagged vd) p)))
    end.

(* ----- the statement ----- *)

(* every verdict of the model that satisfies P flags a deletable line *)
Definition verdict_sound_on (P : program -> verdict -> Prop) : Prop :=
  forall (p : program) (vs : list verdict) (vd : verdict),
    wf_program p = true -> check p = Ok vs -> In vd vs -> P p vd ->
    deletable p (vd_flagged vd).

(* ----- reads block verdicts ----- *)

(* what happened last to x in the lines so far: nothing, a use ${x} in the value
   of an assignment, or an assignment to x (within one line the assignment comes
   before the uses of its value) *)
Definition mention (x : var) (acc : action) (l : line) : action :=
  match l_body l with
  | None => acc
  | Some a =>
      if existsb (str_eqb x) (uses (a_val a)) then ARead
      else if str_eqb (a_var a) x then AWrite else acc
  end.
Definition last_mention (x : var) (pre : program) : action := fold_left (mention x) pre ANone.

(* the line at which a verdict is emitted is the later of its two lines *)
Definition emitted_at (vd : verdict) : nat := Nat.max (vd_flagged vd) (vd_because vd).
