(* C17 in the context of the including file: paths are judged by what they
   DENOTE (Spec/PathDenote.v, the specification of C19), not by how they are
   spelled.  No proofs here.

   check_denoted cwd p : the analysis of RedundantScope when two lines belong to
     the same file iff their paths denote the same file (cwd = the directory
     pkglint runs in).
   same_shape cwd p q  : q is p with every path respelled: line by line the same
     line number and body, and paths with the same denotation.
   one_spelling cwd p  : every file of p is spelled in one way only -- what the
     loader guarantees: Package.loadIncluded skips a file whose
     Pkgsrc.Relpath(pkg.dir, full path) it has seen before, so every file is
     spliced into allLines once, under one name.
   analysed_alone      : the decision of CheckFileMk / Package.Includes as it has
     to be: a makefile fragment is analysed on its own (closed world = the
     fragment) iff it lies in the package directory and NO .include line of the
     package denotes it, however that line is spelled.  incs = (directory of the
     including file, path as written after ${.CURDIR} etc. have been resolved). *)
From PV Require Import Lib.Bytes Model.Redundant Model.RedundantPaths Spec.PathDenote.

Definition check_denoted (cwd : str) (p : pprogram) : result (list verdict) :=
  check (intern_by (same_denotation cwd) p).

Definition same_line (cwd : str) (a b : pline) : Prop :=
  denote cwd (pl_path a) = denote cwd (pl_path b) /\
  pl_lineno a = pl_lineno b /\ pl_body a = pl_body b.

Definition same_shape (cwd : str) (p q : pprogram) : Prop := Forall2 (same_line cwd) p q.

Definition one_spelling (cwd : str) (p : pprogram) : Prop :=
  forall a b, In a p -> In b p ->
    denote cwd (pl_path a) = denote cwd (pl_path b) -> pl_path a = pl_path b.

Definition one_spelling_b (cwd : str) (p : pprogram) : bool :=
  forallb (fun a => forallb (fun b =>
     implb (same_denotation cwd (pl_path a) (pl_path b)) (str_eqb (pl_path a) (pl_path b))) p) p.

Definition analysed_alone (cwd pkgdir fragdir fragbase : str) (incs : list (str * str)) : bool :=
  same_denotation cwd fragdir pkgdir &&
  negb (existsb (fun i => same_denotation cwd (join_path (fst i) (snd i)) (join_path fragdir fragbase)) incs).

(* the program without its file names (for the evaluator, which reads the lines
   in the order given and does not look at file names) *)
Definition forget (p : pprogram) : program := intern_by str_eqb p.
